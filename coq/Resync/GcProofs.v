(* C18_gc_reclaims: after a rebuild (any blob set, any order, with relations) every
   target of an indexed tombstone carries a garbage mark, because the tombstone is
   only indexed after the marks of its targets were written; and GetGarbage with a
   sufficient limit lists every marked ID. *)
From Coq Require Import List NArith ZArith Bool Lia.
Import ListNotations.
From NV Require Import Gen.MetaConsts Meta.SMap Meta.SMapProofs Meta.Model Meta.Spec Meta.StatusProofs Meta.WfProofs
  Resync.Model.
Local Open Scope N_scope.

Local Opaque collect_children cc_fuel object_status object_locked in_garbage type_of.

Lemma sm_mem_put_mono {A} k (v : A) m x : sm_mem x m = true -> sm_mem x (sm_put k v m) = true.
Proof.
  unfold sm_mem. destruct (N.eq_dec x k) as [->|Hne].
  - now rewrite sm_get_put_eq.
  - now rewrite (sm_get_put_ne k x v m Hne).
Qed.
Lemma sm_mem_put_eq {A} k (v : A) m : sm_mem k (sm_put k v m) = true.
Proof. unfold sm_mem. now rewrite sm_get_put_eq. Qed.

(* garbage marks only grow, stored headers are untouched *)
Definition garb_le (b b' : cstate) : Prop := forall x, sm_mem x (garb b) = true -> sm_mem x (garb b') = true.

Lemma garb_le_refl b : garb_le b b.
Proof. intros x H; exact H. Qed.
Lemma garb_le_trans a b c : garb_le a b -> garb_le b c -> garb_le a c.
Proof. intros H1 H2 x H. apply H2, H1, H. Qed.

Lemma ts_loop_facts cur ids : forall b i p,
  objs (fst (fst (ts_loop cur b ids i p))) = objs b /\
  garb_le b (fst (fst (ts_loop cur b ids i p))) /\
  (forall x, In x ids -> sm_mem x (garb (fst (fst (ts_loop cur b ids i p)))) = true).
Proof.
  induction ids as [|id r IH]; intros b i p; simpl.
  - split; [reflexivity|]. split; [apply garb_le_refl|]. intros x [].
  - set (b1 := set_garb b (sm_put id MDefault (garb b))).
    assert (G1 : garb_le b b1) by (intros x Hx; unfold b1; simpl; now apply sm_mem_put_mono).
    assert (M1 : sm_mem id (garb b1) = true) by (unfold b1; simpl; apply sm_mem_put_eq).
    destruct (get_raw_ok b id).
    + match goal with |- context [ts_loop cur b1 r ?i' ?p'] => destruct (IH b1 i' p') as (Ho & Hg & Hi) end.
      split; [rewrite Ho; reflexivity|]. split; [eapply garb_le_trans; eauto|].
      intros x [<-|Hx]; [now apply Hg | now apply Hi].
    + match goal with |- context [ts_loop cur b1 r ?i' ?p'] => destruct (IH b1 i' p') as (Ho & Hg & Hi) end.
      split; [rewrite Ho; reflexivity|]. split; [eapply garb_le_trans; eauto|].
      intros x [<-|Hx]; [now apply Hg | now apply Hi].
Qed.

Lemma handle_assoc_facts cur b d o :
  let '(b', _, e) := handle_assoc cur b d o in
  objs b' = objs b /\ garb_le b b' /\
  (e = EOk -> h_typ (o_hdr o) = TTombstone -> forall x, h_assoc (o_hdr o) = Some x -> sm_mem x (garb b') = true).
Proof.
  unfold handle_assoc. destruct (h_assoc (o_hdr o)) as [t|] eqn:Ea.
  2:{ repeat split; auto using garb_le_refl. discriminate. }
  destruct (h_typ (o_hdr o)) eqn:Et.
  - repeat split; auto using garb_le_refl. discriminate.
  - assert (G : forall tt, (match tt with
                            | Some TTombstone => (b, d, EOther)
                            | Some TLock => (b, d, ELockRemoval)
                            | _ => if object_locked cur b t then (b, d, ELocked)
                                   else let ids := collect_children (cc_fuel b) b t ++ [t] in
                                        let '(c', inh, pay) := ts_loop cur b ids 0%Z (d_payload d) in
                                        (c', mkDiff (d_phy d + 1) (d_root d) (d_ts d + 1) (d_lock d) (d_link d) (d_gc d + inh) pay, EOk)
                            end) = (let '(b', d', e) := (match tt with
                            | Some TTombstone => (b, d, EOther)
                            | Some TLock => (b, d, ELockRemoval)
                            | _ => if object_locked cur b t then (b, d, ELocked)
                                   else let ids := collect_children (cc_fuel b) b t ++ [t] in
                                        let '(c', inh, pay) := ts_loop cur b ids 0%Z (d_payload d) in
                                        (c', mkDiff (d_phy d + 1) (d_root d) (d_ts d + 1) (d_lock d) (d_link d) (d_gc d + inh) pay, EOk)
                            end) in (b', d', e))).
    { intros tt. destruct (match tt with Some TTombstone => _ | _ => _ end) as [[? ?] ?]. reflexivity. }
    clear G.
    assert (K : let '(b', _, e) :=
                  (if object_locked cur b t then (b, d, ELocked)
                   else let ids := collect_children (cc_fuel b) b t ++ [t] in
                        let '(c', inh, pay) := ts_loop cur b ids 0%Z (d_payload d) in
                        (c', mkDiff (d_phy d + 1) (d_root d) (d_ts d + 1) (d_lock d) (d_link d) (d_gc d + inh) pay, EOk)) in
                objs b' = objs b /\ garb_le b b' /\
                (e = EOk -> TTombstone = TTombstone -> forall x, Some t = Some x -> sm_mem x (garb b') = true)).
    { destruct (object_locked cur b t).
      - repeat split; auto using garb_le_refl. discriminate.
      - cbv zeta.
        pose proof (ts_loop_facts cur (collect_children (cc_fuel b) b t ++ [t]) b 0%Z (d_payload d)) as H.
        destruct (ts_loop cur b (collect_children (cc_fuel b) b t ++ [t]) 0%Z (d_payload d)) as [[c' inh] pay].
        simpl in H. destruct H as (Ho & Hg & Hi). repeat split; auto.
        intros _ _ x E. inversion E; subst. apply Hi. apply in_or_app. right. now left. }
    destruct (type_of b t) as [[| | |]|]; try exact K;
      (repeat split; auto using garb_le_refl; discriminate).
  - destruct (type_of b t) as [[| | |]|];
      try (destruct ((object_status b t cur =? st_tombstoned) || (in_garbage b t =? st_tombstoned)));
      (repeat split; auto using garb_le_refl; discriminate).
  - repeat split; auto using garb_le_refl. discriminate.
Qed.

Lemma tomb_marked_mono b b' : objs b' = objs b -> garb_le b b' -> tomb_marked b -> tomb_marked b'.
Proof. intros Ho Hg T i en x Hin Ht Ha. apply Hg. rewrite Ho in Hin. eapply T; eauto. Qed.

Lemma tomb_marked_put_metadata b o phy n :
  tomb_marked b ->
  (h_typ (o_hdr o) = TTombstone -> forall x, h_assoc (o_hdr o) = Some x -> sm_mem x (garb b) = true) ->
  tomb_marked (put_metadata (set_cnt b n) o phy).
Proof.
  intros T H i en x Hin Ht Ha. unfold put_metadata in Hin.
  assert (G : garb (put_metadata (set_cnt b n) o phy) = garb b).
  { unfold put_metadata. destruct (get_entry (set_cnt b n) (o_id o)); reflexivity. }
  rewrite G.
  destruct (get_entry (set_cnt b n) (o_id o)) as [old|]; simpl in Hin;
    apply sm_put_in in Hin as [E|Hin]; try (inversion E; subst; simpl in *; now apply H);
    eapply T; eauto.
Qed.

Lemma garb_put_metadata c2 n2 o ph : garb (put_metadata (set_cnt c2 n2) o ph) = garb c2.
Proof. unfold put_metadata. destruct (get_entry (set_cnt c2 n2) (o_id o)); reflexivity. Qed.

Lemma store_ok b0 c1 c2 n2 o ph :
  garb_le b0 c1 -> tomb_marked c1 -> objs c2 = objs c1 -> garb_le c1 c2 ->
  (h_typ (o_hdr o) = TTombstone -> forall x, h_assoc (o_hdr o) = Some x -> sm_mem x (garb c2) = true) ->
  tomb_marked (put_metadata (set_cnt c2 n2) o ph) /\ garb_le b0 (put_metadata (set_cnt c2 n2) o ph).
Proof.
  intros G0 T Ho Hg Hi. split.
  - apply tomb_marked_put_metadata; [eapply tomb_marked_mono; eauto | exact Hi].
  - intros x Hx. rewrite garb_put_metadata. apply Hg, G0, Hx.
Qed.

Lemma keep_ok b0 c1 c2 :
  garb_le b0 c1 -> tomb_marked c1 -> objs c2 = objs c1 -> garb_le c1 c2 ->
  tomb_marked c2 /\ garb_le b0 c2.
Proof.
  intros G0 T Ho Hg. split; [eapply tomb_marked_mono; eauto | eapply garb_le_trans; eauto].
Qed.

(* the part of db.put after the parent has been handled *)
Lemma put_tail_ok (top : bool) cur b0 c1 o :
  garb_le b0 c1 -> tomb_marked c1 ->
  let r := (let h := o_hdr o in
            let d0 := if top then mkDiff 0 0 0 0 0 0 (Z.of_N (h_size h)) else diff0 in
            let '(c2, d, e) :=
              match h_typ h return (cstate * cdiff * perr)%type with
              | TLink => (c1, mkDiff (d_phy d0 + 1) (d_root d0) (d_ts d0) (d_lock d0) (d_link d0 + 1) (d_gc d0) (d_payload d0), EOk)
              | TTombstone | TLock => handle_assoc cur c1 d0 o
              | TRegular =>
                  (c1, mkDiff (if top then d_phy d0 + 1 else d_phy d0)%Z
                              (if has_parent_hdr o then d_root d0 else d_root d0 + 1)%Z
                              (d_ts d0) (d_lock d0) (d_link d0) (d_gc d0) (d_payload d0), EOk)
              end in
            match e return (cstate * cdiff * perr)%type with
            | EOk => (put_metadata (set_cnt c2 (apply_diff (cnt c2) d)) o top, d, EOk)
            | _ => (c2, d, e)
            end) in
  tomb_marked (fst (fst r)) /\ garb_le b0 (fst (fst r)).
Proof.
  intros G0 T. cbv zeta.
  destruct (h_typ (o_hdr o)) eqn:Et.
  - simpl. apply store_ok with (c1 := c1); auto using garb_le_refl. intros Hc; congruence.
  - pose proof (handle_assoc_facts cur c1 (if top then mkDiff 0 0 0 0 0 0 (Z.of_N (h_size (o_hdr o))) else diff0) o) as H.
    destruct (handle_assoc cur c1 _ o) as [[c2 d] e]. destruct H as (Ho & Hg & Hi).
    destruct e; simpl; try (now apply keep_ok with (c1 := c1)).
    apply store_ok with (c1 := c1); auto.
  - pose proof (handle_assoc_facts cur c1 (if top then mkDiff 0 0 0 0 0 0 (Z.of_N (h_size (o_hdr o))) else diff0) o) as H.
    destruct (handle_assoc cur c1 _ o) as [[c2 d] e]. destruct H as (Ho & Hg & Hi).
    destruct e; simpl; try (now apply keep_ok with (c1 := c1)).
    apply store_ok with (c1 := c1); auto.
  - simpl. apply store_ok with (c1 := c1); auto using garb_le_refl. intros Hc; congruence.
Qed.

(* db.put keeps the invariant and never removes a mark *)
Lemma put_obj_tomb_marked n : forall top cur b o,
  tomb_marked b ->
  tomb_marked (fst (fst (put_obj n top cur b o))) /\ garb_le b (fst (fst (put_obj n top cur b o))).
Proof.
  induction n; intros top cur b o T.
  - simpl. destruct (cgc b); simpl; auto using garb_le_refl.
    destruct (object_status b (o_id o) cur =? st_tombstoned); simpl; auto using garb_le_refl.
    destruct (object_status b (o_id o) cur =? st_expired); simpl; auto using garb_le_refl.
    destruct ((object_status b (o_id o) cur =? st_available) && stored b (o_id o)); simpl; auto using garb_le_refl.
    destruct (o_par o); simpl; auto using garb_le_refl.
    apply (put_tail_ok top cur b b o (garb_le_refl b) T).
  - simpl. destruct (cgc b); simpl; auto using garb_le_refl.
    destruct (object_status b (o_id o) cur =? st_tombstoned); simpl; auto using garb_le_refl.
    destruct (object_status b (o_id o) cur =? st_expired); simpl; auto using garb_le_refl.
    destruct ((object_status b (o_id o) cur =? st_available) && stored b (o_id o)); simpl; auto using garb_le_refl.
    assert (Hp : forall c1 e1, (match o_par o with
                    | None => (b, EOk)
                    | Some p => let '(c', _, e) := put_obj n false cur b p in (c', e)
                    end) = (c1, e1) -> tomb_marked c1 /\ garb_le b c1).
    { intros c1 e1. destruct (o_par o) as [p|].
      - pose proof (IHn false cur b p T) as H. destruct (put_obj n false cur b p) as [[c' d'] e'].
        simpl in H. intros E; inversion E; subst; auto.
      - intros E; inversion E; subst; auto using garb_le_refl. }
    destruct (match o_par o with
              | None => (b, EOk)
              | Some p => let '(c', _, e) := put_obj n false cur b p in (c', e)
              end) as [c1 e1] eqn:E.
    destruct (Hp c1 e1 eq_refl) as [T1 G1].
    destruct e1; simpl; auto.
    apply (put_tail_ok top cur b c1 o G1 T1).
Qed.

Definition all_tomb_marked (s : state) : Prop := forall c b, bucket s c = Some b -> tomb_marked b.

Lemma tomb_marked_cstate0 : tomb_marked cstate0.
Proof. intros i en x []. Qed.

Lemma all_tm_bucket_or_new s c : all_tomb_marked s -> tomb_marked (bucket_or_new s c).
Proof.
  intros H. unfold bucket_or_new. destruct (bucket s c) eqn:E; [eapply H; eauto | apply tomb_marked_cstate0].
Qed.

Lemma all_tm_set_bucket s c b : all_tomb_marked s -> tomb_marked b -> all_tomb_marked (set_bucket s c b).
Proof.
  intros H T c' b' E. unfold bucket, set_bucket in E. simpl in E.
  destruct (N.eq_dec c' c) as [->|Hne].
  - rewrite sm_get_put_eq in E. now inversion E; subst.
  - rewrite (sm_get_put_ne c c' b (cnrs s) Hne) in E. eapply H; eauto.
Qed.

Lemma batch_loop_tomb_marked os : forall s, all_tomb_marked s ->
  match batch_loop s os with inl s' => all_tomb_marked s' | inr _ => True end.
Proof.
  induction os as [|[c o] r IH]; intros s H; simpl; auto.
  pose proof (put_obj_tomb_marked max_nesting true (epoch s) (bucket_or_new s c) o (all_tm_bucket_or_new s c H)) as P.
  unfold put_top. destruct (put_obj max_nesting true (epoch s) (bucket_or_new s c) o) as [[b d] e].
  simpl in P. destruct P as [P _].
  destruct e; simpl; auto; try (apply IH; now apply all_tm_set_bucket);
    (destruct (bucket s c); [apply IH; now apply all_tm_set_bucket|];
     destruct (objs b); [now apply IH | apply IH; now apply all_tm_set_bucket]).
Qed.

Lemma resync_loop_tomb_marked fuel bs : forall s l, all_tomb_marked s -> all_tomb_marked (fst (resync_loop fuel bs s l)).
Proof.
  induction fuel; intros s l H; simpl; auto.
  destruct l as [|x l']; simpl; auto.
  pose proof (batch_loop_tomb_marked (firstn bs (x :: l')) s H) as B.
  destruct (batch_loop s (firstn bs (x :: l'))) as [s'|]; simpl; auto.
Qed.

(* every target of an indexed tombstone carries a garbage mark after the rebuild,
   whatever the blobs, their order, the epoch and the batch size; also when it aborted *)
Theorem gc_reclaims bs e order c b x :
  bucket (fst (resync_bs bs e order)) c = Some b -> tombstoned b x = true -> In x (sm_keys (garb b)).
Proof.
  intros Hb Ht.
  assert (A : all_tomb_marked (fst (resync_bs bs e order))).
  { apply resync_loop_tomb_marked. intros c' b' E. discriminate E. }
  specialize (A c b Hb).
  unfold tombstoned in Ht. apply existsb_exists in Ht as [[i en] [Hin Hp]]. simpl in Hp.
  apply andb_true_iff in Hp as [H1 H2]. unfold is_type in H1. unfold targets in H2.
  assert (Ety : h_typ (e_hdr en) = TTombstone) by (destruct (h_typ (e_hdr en)); simpl in H1; congruence).
  assert (Eas : h_assoc (e_hdr en) = Some x).
  { destruct (h_assoc (e_hdr en)) as [y|]; simpl in H2; [|discriminate]. apply N.eqb_eq in H2. now subst. }
  specialize (A i en x Hin Ety Eas). unfold sm_mem in A.
  destruct (sm_get x (garb b)) as [m|] eqn:G; [|discriminate].
  apply sm_get_some_in in G. unfold sm_keys. apply in_map_iff. exists (x, m). auto.
Qed.

(* GetGarbage with a limit above the number of marked IDs lists every bucket's marks in full *)
Lemma garbage_loop_full bsl : forall limit num,
  (num + garbage_total bsl < limit)%nat ->
  forall c b x, In (c, b) bsl -> cgc b = false -> In x (sm_keys (garb b)) ->
  exists ids, In (c, ids) (garbage_loop bsl limit num) /\ In x ids.
Proof.
  induction bsl as [|[c0 b0] r IH]; intros limit num Hlt c b x Hin Hc Hx; [contradiction|].
  simpl in Hlt. simpl.
  set (all := if cgc b0 then sm_keys (objs b0) else sm_keys (garb b0)) in *.
  assert (Hf : firstn limit all = all) by (apply firstn_all2; lia).
  rewrite Hf.
  destruct Hin as [E|Hin].
  - inversion E; subst c0 b0. unfold all in *. rewrite Hc in *.
    destruct (sm_keys (garb b)) as [|k ks] eqn:Ek; [contradiction|].
    destruct (Nat.leb limit (num + length (k :: ks))) eqn:L.
    + apply Nat.leb_le in L. lia.
    + exists (k :: ks). split; [now left | exact Hx].
  - destruct all as [|k ks] eqn:Ea.
    + simpl in Hlt.
      destruct (IH limit num ltac:(lia) c b x Hin Hc Hx) as [ids [H1 H2]].
      destruct (cgc b0); [exists ids; split; [now right|auto] | exists ids; split; auto].
    + destruct (Nat.leb limit (num + length (k :: ks))) eqn:L.
      * apply Nat.leb_le in L. lia.
      * destruct (IH limit (num + length (k :: ks))%nat ltac:(lia) c b x Hin Hc Hx) as [ids [H1 H2]].
        exists ids. split; [now right | auto].
Qed.

Theorem gc_listed s limit c b x :
  (garbage_total (cnrs s) < limit)%nat ->
  In (c, b) (cnrs s) -> cgc b = false -> In x (sm_keys (garb b)) ->
  exists ids, In (c, ids) (view_garbage s limit) /\ In x ids.
Proof.
  intros Hlt Hin Hc Hx. unfold view_garbage. destruct limit; [lia|].
  apply garbage_loop_full with (b := b); auto.
Qed.
