(* C18_order_independent_partial: on blob sets without family relations that satisfy
   [flat_ok] the rebuilt metabase gives every address the status [status_of_blobs],
   a function of the blob SET, whatever the enumeration order, the rebuild epoch and
   the batch size. *)
From Coq Require Import List NArith ZArith Bool Lia Permutation.
Import ListNotations.
From NV Require Import Gen.MetaConsts Meta.SMap Meta.SMapProofs Meta.Model Meta.Spec Meta.StatusProofs Meta.WfProofs
  Resync.Model Resync.BatchProofs.
Local Open Scope N_scope.

(* ---------------------------------------------------------------- small facts *)
Lemma otype_eqb_eq a b : otype_eqb a b = true <-> a = b.
Proof. destruct a, b; simpl; split; intros H; try reflexivity; try discriminate. Qed.

Lemma opt_eqb_some a x : opt_eqb a (Some x) = true <-> a = Some x.
Proof.
  destruct a as [y|]; simpl; split; intros H; try discriminate.
  - apply N.eqb_eq in H. now subst.
  - inversion H; subst. apply N.eqb_refl.
Qed.

Lemma sm_put_in_new {A} k (v : A) m : In (k, v) (sm_put k v m).
Proof. apply sm_get_some_in. apply sm_get_put_eq. Qed.

Lemma sm_put_in_old {A} k (v : A) m k' v' : sm_wf m = true -> k' <> k -> In (k', v') m -> In (k', v') (sm_put k v m).
Proof.
  intros W Hne Hin. apply sm_get_some_in. rewrite (sm_get_put_ne k k' v m Hne). now apply sm_get_in.
Qed.

Lemma status_n_noparent n b x e : find_parent b x = None -> status_n n b x e = status_direct b x e.
Proof.
  intros H. destruct n; simpl; rewrite H;
    destruct ((status_direct b x e =? st_available) || (status_direct b x e =? st_gc_marked)); reflexivity.
Qed.

Lemma status_k_noparent n b e o : parent_of b o = None -> status_k n b e o = direct b e o.
Proof. intros H. destruct n; simpl; rewrite H; destruct (direct b e o); reflexivity. Qed.

Lemma put_obj_nopar n top cur c i h :
  put_obj n top cur c (Obj i h None) =
  if cgc c then (c, diff0, EAlreadyRemoved) else
  let st := object_status c i cur in
  if st =? st_tombstoned then (c, diff0, EAlreadyRemoved) else
  if st =? st_expired then (c, diff0, EExpired) else
  if (st =? st_available) && stored c i then (c, diff0, EOk) else
  let d0 := if top then mkDiff 0 0 0 0 0 0 (Z.of_N (h_size h)) else diff0 in
  let '(c2, d, e) :=
    match h_typ h return (cstate * cdiff * perr)%type with
    | TLink => (c, mkDiff (d_phy d0 + 1) (d_root d0) (d_ts d0) (d_lock d0) (d_link d0 + 1) (d_gc d0) (d_payload d0), EOk)
    | TTombstone | TLock => handle_assoc cur c d0 (Obj i h None)
    | TRegular =>
        (c, mkDiff (if top then d_phy d0 + 1 else d_phy d0)%Z
                   (if has_parent_hdr (Obj i h None) then d_root d0 else d_root d0 + 1)%Z
                   (d_ts d0) (d_lock d0) (d_link d0) (d_gc d0) (d_payload d0), EOk)
    end in
  match e return (cstate * cdiff * perr)%type with
  | EOk => (put_metadata (set_cnt c2 (apply_diff (cnt c2) d)) (Obj i h None) top, d, EOk)
  | _ => (c2, d, e)
  end.
Proof. destruct n; reflexivity. Qed.

(* ---------------------------------------------------------------- a flat bucket *)
Definition flatb (b : cstate) : Prop := forall i en, In (i, en) (objs b) -> simple_hdr (e_hdr en) = true.

Lemma simple_hdr_fields h : simple_hdr h = true ->
  h_parent h = None /\ h_first h = None /\ h_split h = None /\ h_ecr h = None /\ h_eci h = None.
Proof.
  unfold simple_hdr. destruct (h_parent h), (h_first h), (h_split h), (h_ecr h), (h_eci h); intros H; try discriminate; auto.
Qed.

Lemma flat_find_parent b x : wfc b -> flatb b -> find_parent b x = None.
Proof.
  intros W F. unfold find_parent, get_entry. destruct (sm_get x (objs b)) as [en|] eqn:E; [|reflexivity].
  apply sm_get_some_in in E. apply F in E. apply simple_hdr_fields in E as (H1 & H2 & H3 & _).
  now rewrite H1, H2, H3.
Qed.

Lemma flat_children b x : flatb b -> children_of b x = [].
Proof.
  intros F. unfold children_of.
  assert (G : forall l, (forall i en, In (i, en) l -> simple_hdr (e_hdr en) = true) ->
                        filter (fun kv : oid * entry => opt_eqb (h_parent (e_hdr (snd kv))) (Some x)) l = []).
  { induction l as [|[i en] r IH]; intros H; simpl; [reflexivity|].
    pose proof (H i en (or_introl eq_refl)) as S. apply simple_hdr_fields in S as (H1 & _). rewrite H1. simpl.
    apply IH. intros i' en' Hin. apply (H i' en'). now right. }
  apply G. exact F.
Qed.

Lemma flat_collect b x : flatb b -> collect_children (cc_fuel b) b x = [].
Proof.
  intros F. unfold cc_fuel. simpl. unfold parent_info. now rewrite (flat_children b x F).
Qed.

Lemma flat_object_status b x e : wfc b -> flatb b -> object_status b x e = status_direct b x e.
Proof. intros W F. unfold object_status. apply status_n_noparent. now apply flat_find_parent. Qed.

(* status of an address that is not stored *)
Lemma unstored_status b i e : wfc b -> flatb b -> stored b i = false ->
  object_status b i e =
  if tombstoned b i then (if live_lock b e i then st_available else st_tombstoned)
  else if marked b i then (if live_lock b e i then st_available else st_gc_marked) else st_available.
Proof.
  intros W F S. rewrite (flat_object_status b i e W F). unfold status_direct.
  assert (X : is_expired b i e = false).
  { unfold is_expired, get_entry. unfold stored, sm_mem in S. destruct (sm_get i (objs b)); [discriminate|reflexivity]. }
  rewrite X, (in_garbage_spec b i W), (locked_spec b e i W).
  destruct (tombstoned b i); [destruct (live_lock b e i); reflexivity|].
  destruct (marked b i); [destruct (live_lock b e i); reflexivity|]. reflexivity.
Qed.

(* ---------------------------------------------------------------- facts about the blob set *)
Section BlobSet.
Variable B : list fblob.
Hypothesis Hflat : forall fb, In fb B -> flat_hdr (fb_h fb) = true.
Hypothesis Htgt : forall fb, In fb B -> target_ok B fb = true.
Hypothesis Hnd : nodup_addr B = true.
Hypothesis Hpair : no_pair B = true.

Lemma fb_is_iff c x fb : fb_is c x fb = true <-> fb_c fb = c /\ fb_i fb = x.
Proof. unfold fb_is. rewrite andb_true_iff, !N.eqb_eq. tauto. Qed.

Lemma nodup_find l : nodup_addr l = true -> forall fb, In fb l -> find (fb_is (fb_c fb) (fb_i fb)) l = Some fb.
Proof.
  induction l as [|a r IH]; intros H fb Hin; [contradiction|].
  simpl in H. apply andb_true_iff in H as [H1 H2]. simpl.
  destruct Hin as [->|Hin].
  - replace (fb_is (fb_c fb) (fb_i fb) fb) with true; [reflexivity|]. symmetry. apply fb_is_iff. auto.
  - destruct (fb_is (fb_c fb) (fb_i fb) a) eqn:E.
    + exfalso. apply fb_is_iff in E as [E1 E2].
      apply negb_true_iff in H1. assert (X : existsb (fb_is (fb_c a) (fb_i a)) r = true).
      { apply existsb_exists. exists fb. split; auto. apply fb_is_iff. auto. }
      congruence.
    + now apply IH.
Qed.

Lemma type_in_of c x h : In (c, x, h) B -> type_in B c x = Some (h_typ h).
Proof.
  intros Hin. unfold type_in. pose proof (nodup_find B Hnd (c, x, h) Hin) as F. simpl in F.
  unfold fb_c, fb_i in F. simpl in F. now rewrite F.
Qed.

Lemma tomb_in_iff P c x : tomb_in P c x = true <-> exists i h, In (c, i, h) P /\ h_typ h = TTombstone /\ h_assoc h = Some x.
Proof.
  unfold tomb_in. rewrite existsb_exists. split.
  - intros [[[c' i] h] [Hin H]]. unfold fb_targets, fb_c, fb_h in H. simpl in H.
    apply andb_true_iff in H as [H H3]. apply andb_true_iff in H as [H1 H2].
    apply N.eqb_eq in H1. subst c'. apply otype_eqb_eq in H2. apply opt_eqb_some in H3. eauto.
  - intros (i & h & Hin & H2 & H3). exists (c, i, h). split; auto.
    unfold fb_targets, fb_c, fb_h. simpl. rewrite N.eqb_refl, H2, H3. simpl. apply N.eqb_refl.
Qed.

Lemma lock_in_iff P c x : lock_in P c x = true <-> exists i h, In (c, i, h) P /\ h_typ h = TLock /\ h_assoc h = Some x.
Proof.
  unfold lock_in. rewrite existsb_exists. split.
  - intros [[[c' i] h] [Hin H]]. unfold fb_targets, fb_c, fb_h in H. simpl in H.
    apply andb_true_iff in H as [H H3]. apply andb_true_iff in H as [H1 H2].
    apply N.eqb_eq in H1. subst c'. apply otype_eqb_eq in H2. apply opt_eqb_some in H3. eauto.
  - intros (i & h & Hin & H2 & H3). exists (c, i, h). split; auto.
    unfold fb_targets, fb_c, fb_h. simpl. rewrite N.eqb_refl, H2, H3. simpl. apply N.eqb_refl.
Qed.

(* a target of a tombstone in B is not the address of a tombstone or lock blob, and has no lock *)
Lemma tomb_target c x : tomb_in B c x = true ->
  lock_in B c x = false /\ forall h, In (c, x, h) B -> h_typ h <> TTombstone /\ h_typ h <> TLock.
Proof.
  intros H. apply tomb_in_iff in H as (i & h & Hin & H2 & H3). split.
  - unfold no_pair in Hpair. rewrite forallb_forall in Hpair. specialize (Hpair _ Hin).
    unfold fb_h, fb_c in Hpair. simpl in Hpair. rewrite H2, H3 in Hpair. now apply negb_true_iff in Hpair.
  - intros h' Hin'. pose proof (Htgt _ Hin) as T. unfold target_ok, fb_h, fb_c in T. simpl in T.
    rewrite H2, H3, (type_in_of c x h' Hin') in T. destruct (h_typ h'); split; congruence.
Qed.

(* a target of a lock in B is regular if it is a blob at all, and has no tombstone *)
Lemma lock_target c x : lock_in B c x = true ->
  tomb_in B c x = false /\ forall h, In (c, x, h) B -> h_typ h = TRegular.
Proof.
  intros H. split.
  - destruct (tomb_in B c x) eqn:E; [|reflexivity]. apply tomb_target in E as [E _]. congruence.
  - apply lock_in_iff in H as (i & h & Hin & H2 & H3).
    intros h' Hin'. pose proof (Htgt _ Hin) as T. unfold target_ok, fb_h, fb_c in T. simpl in T.
    rewrite H2, H3, (type_in_of c x h' Hin') in T. destruct (h_typ h'); congruence.
Qed.

(* ---------------------------------------------------------------- the invariant of one bucket
   c: container, P: blobs enumerated so far *)
Record inv (c : cid) (P : list fblob) (b : cstate) : Prop := mkInv {
  i_wf : wfc b;
  i_cgc : cgc b = false;
  i_from : forall i en, In (i, en) (objs b) -> In (c, i, e_hdr en) P;
  i_stored : forall i h, In (c, i, h) P ->
             (h_typ h = TTombstone \/ h_typ h = TLock \/ tomb_in B c i = false) ->
             exists en, In (i, en) (objs b) /\ e_hdr en = h;
  i_garb : forall x, sm_get x (garb b) = if tomb_in P c x then Some MDefault else None
}.

Section Bucket.
Variables (c : cid) (P : list fblob) (b : cstate).
Hypothesis HP : incl P B.
Hypothesis I : inv c P b.

Lemma inv_flatb : flatb b.
Proof.
  intros i en Hin. apply (i_from _ _ _ I) in Hin. apply HP in Hin. apply Hflat in Hin.
  unfold flat_hdr, fb_h in Hin. simpl in Hin. now apply andb_true_iff in Hin as [Hin _].
Qed.

Lemma inv_tombstoned x : tombstoned b x = tomb_in P c x.
Proof.
  apply eq_true_iff_eq. rewrite tomb_in_iff. unfold tombstoned. rewrite existsb_exists. split.
  - intros [[i en] [Hin H]]. simpl in H. apply andb_true_iff in H as [H1 H2].
    unfold is_type in H1. apply otype_eqb_eq in H1. unfold targets in H2. apply opt_eqb_some in H2.
    exists i, (e_hdr en). split; auto. now apply (i_from _ _ _ I).
  - intros (i & h & Hin & H2 & H3).
    destruct (i_stored _ _ _ I i h Hin (or_introl H2)) as [en [Hs He]].
    exists (i, en). split; auto. simpl. unfold is_type, targets. rewrite He, H2, H3. simpl. apply N.eqb_refl.
Qed.

Lemma inv_marked x : marked b x = tomb_in P c x.
Proof. unfold marked. rewrite (i_garb _ _ _ I x). destruct (tomb_in P c x); reflexivity. Qed.

Lemma tomb_in_incl x : tomb_in P c x = true -> tomb_in B c x = true.
Proof. rewrite !tomb_in_iff. intros (i & h & Hin & H). exists i, h. split; auto. Qed.

Lemma inv_live_lock_in e x : live_lock b e x = true -> lock_in B c x = true.
Proof.
  unfold live_lock. rewrite existsb_exists. intros [[i en] [Hin H]]. simpl in H.
  apply andb_true_iff in H as [H _]. apply andb_true_iff in H as [H1 H2].
  unfold is_type in H1. apply otype_eqb_eq in H1. unfold targets in H2. apply opt_eqb_some in H2.
  apply lock_in_iff. exists i, (e_hdr en). split; auto. apply HP. now apply (i_from _ _ _ I).
Qed.

Lemma inv_type_of x t : type_of b x = Some t -> exists h, In (c, x, h) B /\ h_typ h = t.
Proof.
  unfold type_of, get_entry. destruct (sm_get x (objs b)) as [en|] eqn:E; [|discriminate].
  intros H; inversion H; subst. apply sm_get_some_in in E. exists (e_hdr en). split; auto.
  apply HP. now apply (i_from _ _ _ I).
Qed.
End Bucket.
End BlobSet.
