(* C18_order_independent_partial: on blob sets without family relations that satisfy
   [flat_ok] the rebuilt metabase gives every address the status [status_of_blobs],
   a function of the blob SET, whatever the enumeration order, the rebuild epoch and
   the batch size. *)
From Coq Require Import List NArith ZArith Bool Lia Permutation.
Import ListNotations.
From NV Require Import Gen.MetaConsts Meta.SMap Meta.SMapProofs Meta.Model Meta.Spec Meta.StatusProofs Meta.WfProofs
  Resync.Model Resync.BatchProofs.
Local Open Scope N_scope.

(* ---------------------------------------------------------------- small facts *)
Lemma otype_eqb_eq a b : otype_eqb a b = true <-> a = b.
Proof. destruct a, b; simpl; split; intros H; try reflexivity; try discriminate. Qed.

Lemma opt_eqb_some a x : opt_eqb a (Some x) = true <-> a = Some x.
Proof.
  destruct a as [y|]; simpl; split; intros H; try discriminate.
  - apply N.eqb_eq in H. now subst.
  - inversion H; subst. apply N.eqb_refl.
Qed.

Lemma sm_put_in_new {A} k (v : A) m : In (k, v) (sm_put k v m).
Proof. apply sm_get_some_in. apply sm_get_put_eq. Qed.

Lemma sm_put_in_old {A} k (v : A) m k' v' : sm_wf m = true -> k' <> k -> In (k', v') m -> In (k', v') (sm_put k v m).
Proof.
  intros W Hne Hin. apply sm_get_some_in. rewrite (sm_get_put_ne k k' v m Hne). now apply sm_get_in.
Qed.

Lemma status_n_noparent n b x e : find_parent b x = None -> status_n n b x e = status_direct b x e.
Proof.
  intros H. destruct n; simpl; rewrite H;
    destruct ((status_direct b x e =? st_available) || (status_direct b x e =? st_gc_marked)); reflexivity.
Qed.

Lemma status_k_noparent n b e o : parent_of b o = None -> status_k n b e o = direct b e o.
Proof. intros H. destruct n; simpl; rewrite H; destruct (direct b e o); reflexivity. Qed.

Lemma put_obj_nopar n top cur c i h :
  put_obj n top cur c (Obj i h None) =
  if cgc c then (c, diff0, EAlreadyRemoved) else
  let st := object_status c i cur in
  if st =? st_tombstoned then (c, diff0, EAlreadyRemoved) else
  if st =? st_expired then (c, diff0, EExpired) else
  if (st =? st_available) && stored c i then (c, diff0, EOk) else
  let d0 := if top then mkDiff 0 0 0 0 0 0 (Z.of_N (h_size h)) else diff0 in
  let '(c2, d, e) :=
    match h_typ h return (cstate * cdiff * perr)%type with
    | TLink => (c, mkDiff (d_phy d0 + 1) (d_root d0) (d_ts d0) (d_lock d0) (d_link d0 + 1) (d_gc d0) (d_payload d0), EOk)
    | TTombstone | TLock => handle_assoc cur c d0 (Obj i h None)
    | TRegular =>
        (c, mkDiff (if top then d_phy d0 + 1 else d_phy d0)%Z
                   (if has_parent_hdr (Obj i h None) then d_root d0 else d_root d0 + 1)%Z
                   (d_ts d0) (d_lock d0) (d_link d0) (d_gc d0) (d_payload d0), EOk)
    end in
  match e return (cstate * cdiff * perr)%type with
  | EOk => (put_metadata (set_cnt c2 (apply_diff (cnt c2) d)) (Obj i h None) top, d, EOk)
  | _ => (c2, d, e)
  end.
Proof. destruct n; reflexivity. Qed.

(* ---------------------------------------------------------------- a flat bucket *)
Definition flatb (b : cstate) : Prop := forall i en, In (i, en) (objs b) -> simple_hdr (e_hdr en) = true.

Lemma simple_hdr_fields h : simple_hdr h = true ->
  h_parent h = None /\ h_first h = None /\ h_split h = None /\ h_ecr h = None /\ h_eci h = None.
Proof.
  unfold simple_hdr. destruct (h_parent h), (h_first h), (h_split h), (h_ecr h), (h_eci h); intros H; try discriminate; auto.
Qed.

Lemma flat_find_parent b x : wfc b -> flatb b -> find_parent b x = None.
Proof.
  intros W F. unfold find_parent, get_entry. destruct (sm_get x (objs b)) as [en|] eqn:E; [|reflexivity].
  apply sm_get_some_in in E. apply F in E. apply simple_hdr_fields in E as (H1 & H2 & H3 & _).
  now rewrite H1, H2, H3.
Qed.

Lemma flat_children b x : flatb b -> children_of b x = [].
Proof.
  intros F. unfold children_of.
  assert (G : forall l, (forall i en, In (i, en) l -> simple_hdr (e_hdr en) = true) ->
                        filter (fun kv : oid * entry => opt_eqb (h_parent (e_hdr (snd kv))) (Some x)) l = []).
  { induction l as [|[i en] r IH]; intros H; simpl; [reflexivity|].
    pose proof (H i en (or_introl eq_refl)) as S. apply simple_hdr_fields in S as (H1 & _). rewrite H1. simpl.
    apply IH. intros i' en' Hin. apply (H i' en'). now right. }
  apply G. exact F.
Qed.

Lemma flat_collect b x : flatb b -> collect_children (cc_fuel b) b x = [].
Proof.
  intros F. unfold cc_fuel. simpl. unfold parent_info. now rewrite (flat_children b x F).
Qed.

Lemma flat_object_status b x e : wfc b -> flatb b -> object_status b x e = status_direct b x e.
Proof. intros W F. unfold object_status. apply status_n_noparent. now apply flat_find_parent. Qed.

(* status of an address that is not stored *)
Lemma unstored_status b i e : wfc b -> flatb b -> stored b i = false ->
  object_status b i e =
  if tombstoned b i then (if live_lock b e i then st_available else st_tombstoned)
  else if marked b i then (if live_lock b e i then st_available else st_gc_marked) else st_available.
Proof.
  intros W F S. rewrite (flat_object_status b i e W F). unfold status_direct.
  assert (X : is_expired b i e = false).
  { unfold is_expired, get_entry. unfold stored, sm_mem in S. destruct (sm_get i (objs b)); [discriminate|reflexivity]. }
  rewrite X, (in_garbage_spec b i W), (locked_spec b e i W).
  destruct (tombstoned b i); [destruct (live_lock b e i); reflexivity|].
  destruct (marked b i); [destruct (live_lock b e i); reflexivity|]. reflexivity.
Qed.

(* ---------------------------------------------------------------- facts about the blob set *)
Section BlobSet.
Variable B : list fblob.
Hypothesis Hflat : forall fb, In fb B -> flat_hdr (fb_h fb) = true.
Hypothesis Htgt : forall fb, In fb B -> target_ok B fb = true.
Hypothesis Hnd : nodup_addr B = true.
Hypothesis Hpair : no_pair B = true.

Lemma fb_is_iff c x fb : fb_is c x fb = true <-> fb_c fb = c /\ fb_i fb = x.
Proof. unfold fb_is. rewrite andb_true_iff, !N.eqb_eq. tauto. Qed.

Lemma nodup_find l : nodup_addr l = true -> forall fb, In fb l -> find (fb_is (fb_c fb) (fb_i fb)) l = Some fb.
Proof.
  induction l as [|a r IH]; intros H fb Hin; [contradiction|].
  simpl in H. apply andb_true_iff in H as [H1 H2]. simpl.
  destruct Hin as [->|Hin].
  - replace (fb_is (fb_c fb) (fb_i fb) fb) with true; [reflexivity|]. symmetry. apply fb_is_iff. auto.
  - destruct (fb_is (fb_c fb) (fb_i fb) a) eqn:E.
    + exfalso. apply fb_is_iff in E as [E1 E2].
      apply negb_true_iff in H1. assert (X : existsb (fb_is (fb_c a) (fb_i a)) r = true).
      { apply existsb_exists. exists fb. split; auto. apply fb_is_iff. auto. }
      congruence.
    + now apply IH.
Qed.

Lemma type_in_of c x h : In (c, x, h) B -> type_in B c x = Some (h_typ h).
Proof.
  intros Hin. unfold type_in. pose proof (nodup_find B Hnd (c, x, h) Hin) as F. simpl in F.
  unfold fb_c, fb_i in F. simpl in F. now rewrite F.
Qed.

Lemma tomb_in_iff P c x : tomb_in P c x = true <-> exists i h, In (c, i, h) P /\ h_typ h = TTombstone /\ h_assoc h = Some x.
Proof.
  unfold tomb_in. rewrite existsb_exists. split.
  - intros [[[c' i] h] [Hin H]]. unfold fb_targets, fb_c, fb_h in H. simpl in H.
    apply andb_true_iff in H as [H H3]. apply andb_true_iff in H as [H1 H2].
    apply N.eqb_eq in H1. subst c'. apply otype_eqb_eq in H2. apply opt_eqb_some in H3. eauto.
  - intros (i & h & Hin & H2 & H3). exists (c, i, h). split; auto.
    unfold fb_targets, fb_c, fb_h. simpl. rewrite N.eqb_refl, H2, H3. simpl. apply N.eqb_refl.
Qed.

Lemma lock_in_iff P c x : lock_in P c x = true <-> exists i h, In (c, i, h) P /\ h_typ h = TLock /\ h_assoc h = Some x.
Proof.
  unfold lock_in. rewrite existsb_exists. split.
  - intros [[[c' i] h] [Hin H]]. unfold fb_targets, fb_c, fb_h in H. simpl in H.
    apply andb_true_iff in H as [H H3]. apply andb_true_iff in H as [H1 H2].
    apply N.eqb_eq in H1. subst c'. apply otype_eqb_eq in H2. apply opt_eqb_some in H3. eauto.
  - intros (i & h & Hin & H2 & H3). exists (c, i, h). split; auto.
    unfold fb_targets, fb_c, fb_h. simpl. rewrite N.eqb_refl, H2, H3. simpl. apply N.eqb_refl.
Qed.

(* a target of a tombstone in B is not the address of a tombstone or lock blob, and has no lock *)
Lemma tomb_target c x : tomb_in B c x = true ->
  lock_in B c x = false /\ forall h, In (c, x, h) B -> h_typ h <> TTombstone /\ h_typ h <> TLock.
Proof.
  intros H. apply tomb_in_iff in H as (i & h & Hin & H2 & H3). split.
  - unfold no_pair in Hpair. rewrite forallb_forall in Hpair. specialize (Hpair _ Hin).
    unfold fb_h, fb_c in Hpair. simpl in Hpair. rewrite H2, H3 in Hpair. now apply negb_true_iff in Hpair.
  - intros h' Hin'. pose proof (Htgt _ Hin) as T. unfold target_ok, fb_h, fb_c in T. simpl in T.
    rewrite H2, H3, (type_in_of c x h' Hin') in T. destruct (h_typ h'); split; congruence.
Qed.

(* a target of a lock in B is regular if it is a blob at all, and has no tombstone *)
Lemma lock_target c x : lock_in B c x = true ->
  tomb_in B c x = false /\ forall h, In (c, x, h) B -> h_typ h = TRegular.
Proof.
  intros H. split.
  - destruct (tomb_in B c x) eqn:E; [|reflexivity]. apply tomb_target in E as [E _]. congruence.
  - apply lock_in_iff in H as (i & h & Hin & H2 & H3).
    intros h' Hin'. pose proof (Htgt _ Hin) as T. unfold target_ok, fb_h, fb_c in T. simpl in T.
    rewrite H2, H3, (type_in_of c x h' Hin') in T. destruct (h_typ h'); congruence.
Qed.

(* ---------------------------------------------------------------- the invariant of one bucket
   c: container, P: blobs enumerated so far *)
Record inv (c : cid) (P : list fblob) (b : cstate) : Prop := mkInv {
  i_wf : wfc b;
  i_cgc : cgc b = false;
  i_from : forall i en, In (i, en) (objs b) -> In (c, i, e_hdr en) P;
  i_stored : forall i h, In (c, i, h) P ->
             (h_typ h = TTombstone \/ h_typ h = TLock \/ tomb_in B c i = false) ->
             exists en, In (i, en) (objs b) /\ e_hdr en = h;
  i_garb : forall x, sm_get x (garb b) = if tomb_in P c x then Some MDefault else None
}.

Section Bucket.
Variables (c : cid) (P : list fblob) (b : cstate).
Hypothesis HP : incl P B.
Hypothesis I : inv c P b.

Lemma inv_flatb : flatb b.
Proof.
  intros i en Hin. apply (i_from _ _ _ I) in Hin. apply HP in Hin. apply Hflat in Hin.
  unfold flat_hdr, fb_h in Hin. simpl in Hin. now apply andb_true_iff in Hin as [Hin _].
Qed.

Lemma inv_tombstoned x : tombstoned b x = tomb_in P c x.
Proof.
  apply eq_true_iff_eq. rewrite tomb_in_iff. unfold tombstoned. rewrite existsb_exists. split.
  - intros [[i en] [Hin H]]. simpl in H. apply andb_true_iff in H as [H1 H2].
    unfold is_type in H1. apply otype_eqb_eq in H1. unfold targets in H2. apply opt_eqb_some in H2.
    exists i, (e_hdr en). split; auto. now apply (i_from _ _ _ I).
  - intros (i & h & Hin & H2 & H3).
    destruct (i_stored _ _ _ I i h Hin (or_introl H2)) as [en [Hs He]].
    exists (i, en). split; auto. simpl. unfold is_type, targets. rewrite He, H2, H3. simpl. apply N.eqb_refl.
Qed.

Lemma inv_marked x : marked b x = tomb_in P c x.
Proof. unfold marked. rewrite (i_garb _ _ _ I x). destruct (tomb_in P c x); reflexivity. Qed.

Lemma tomb_in_incl x : tomb_in P c x = true -> tomb_in B c x = true.
Proof. rewrite !tomb_in_iff. intros (i & h & Hin & H). exists i, h. split; auto. Qed.

Lemma inv_live_lock_in e x : live_lock b e x = true -> lock_in B c x = true.
Proof.
  unfold live_lock. rewrite existsb_exists. intros [[i en] [Hin H]]. simpl in H.
  apply andb_true_iff in H as [H _]. apply andb_true_iff in H as [H1 H2].
  unfold is_type in H1. apply otype_eqb_eq in H1. unfold targets in H2. apply opt_eqb_some in H2.
  apply lock_in_iff. exists i, (e_hdr en). split; auto. apply HP. now apply (i_from _ _ _ I).
Qed.

Lemma inv_type_of x t : type_of b x = Some t -> exists h, In (c, x, h) B /\ h_typ h = t.
Proof.
  unfold type_of, get_entry. destruct (sm_get x (objs b)) as [en|] eqn:E; [|discriminate].
  intros H; inversion H; subst. apply sm_get_some_in in E. exists (e_hdr en). split; auto.
  apply HP. now apply (i_from _ _ _ I).
Qed.
End Bucket.

Lemma tomb_in_app P fb c x : tomb_in (P ++ [fb]) c x = tomb_in P c x || fb_targets TTombstone c x fb.
Proof. unfold tomb_in. rewrite existsb_app. simpl. now rewrite orb_false_r. Qed.

Lemma fb_targets_self c i h t x : fb_targets t c x (c, i, h) = otype_eqb (h_typ h) t && opt_eqb (h_assoc h) (Some x).
Proof. unfold fb_targets, fb_c, fb_h. simpl. now rewrite N.eqb_refl. Qed.

Lemma inv_other c P b fb : inv c P b -> fb_c fb <> c -> inv c (P ++ [fb]) b.
Proof.
  intros I Hne. constructor; try apply I.
  - intros i en Hin. apply in_or_app. left. now apply (i_from _ _ _ I).
  - intros i h Hin Hc. apply in_app_or in Hin as [Hin|[E|[]]].
    + now apply (i_stored _ _ _ I).
    + subst fb. exfalso. now apply Hne.
  - intros x. rewrite tomb_in_app. rewrite (i_garb _ _ _ I x).
    unfold fb_targets. replace (fb_c fb =? c) with false by (symmetry; now apply N.eqb_neq).
    simpl. now rewrite orb_false_r.
Qed.

Lemma inv_skip c P b i h : inv c P b -> h_typ h <> TTombstone -> h_typ h <> TLock -> tomb_in B c i = true ->
  inv c (P ++ [(c, i, h)]) b.
Proof.
  intros I H1 H2 HT. constructor; try apply I.
  - intros i' en Hin. apply in_or_app. left. now apply (i_from _ _ _ I).
  - intros i' h' Hin Hc. apply in_app_or in Hin as [Hin|[E|[]]].
    + now apply (i_stored _ _ _ I).
    + inversion E; subst. destruct Hc as [Hc|[Hc|Hc]]; congruence.
  - intros x. rewrite tomb_in_app, fb_targets_self, (i_garb _ _ _ I x).
    replace (otype_eqb (h_typ h) TTombstone) with false.
    + simpl. now rewrite orb_false_r.
    + symmetry. destruct (otype_eqb (h_typ h) TTombstone) eqn:E; [|reflexivity]. apply otype_eqb_eq in E. congruence.
Qed.

Lemma inv_store c P b b' i h en :
  inv c P b -> (forall h', ~ In (c, i, h') P) -> e_hdr en = h ->
  wfc b' -> cgc b' = false -> objs b' = sm_put i en (objs b) ->
  (forall y, sm_get y (garb b') = if tomb_in (P ++ [(c, i, h)]) c y then Some MDefault else None) ->
  inv c (P ++ [(c, i, h)]) b'.
Proof.
  intros I Hfresh He W Hc Ho Hg. constructor; auto.
  - intros i' en' Hin. rewrite Ho in Hin. apply sm_put_in in Hin as [E|Hin].
    + inversion E; subst. apply in_or_app. right. now left.
    + apply in_or_app. left. now apply (i_from _ _ _ I).
  - intros i' h' Hin Hcond. rewrite Ho. apply in_app_or in Hin as [Hin|[E|[]]].
    + destruct (i_stored _ _ _ I i' h' Hin Hcond) as [en' [Hs He']]. exists en'. split; auto.
      apply sm_put_in_old; auto.
      * apply (i_wf _ _ _ I).
      * intros ->. now apply (Hfresh h').
    + inversion E; subst. exists en. split; auto. apply sm_put_in_new.
Qed.

Lemma put_metadata_objs c2 n i h ph :
  exists en, e_hdr en = h /\ objs (put_metadata (set_cnt c2 n) (Obj i h None) ph) = sm_put i en (objs c2).
Proof.
  unfold put_metadata. simpl. destruct (get_entry (set_cnt c2 n) i); eexists; split; try reflexivity; reflexivity.
Qed.

Lemma put_metadata_garb c2 n o ph : garb (put_metadata (set_cnt c2 n) o ph) = garb c2.
Proof. unfold put_metadata. destruct (get_entry (set_cnt c2 n) (o_id o)); reflexivity. Qed.
Lemma put_metadata_cgc c2 n o ph : cgc (put_metadata (set_cnt c2 n) o ph) = cgc c2.
Proof. unfold put_metadata. destruct (get_entry (set_cnt c2 n) (o_id o)); reflexivity. Qed.

Local Opaque collect_children cc_fuel object_status object_locked in_garbage.

Section Step.
Variables (c : cid) (P : list fblob) (b : cstate) (e : N) (i : oid) (h : hdr).
Hypothesis HP : incl P B.
Hypothesis I : inv c P b.
Hypothesis Hin : In (c, i, h) B.
Hypothesis Hfresh : forall h', ~ In (c, i, h') P.

Lemma step_unstored : stored b i = false.
Proof.
  unfold stored, sm_mem. destruct (sm_get i (objs b)) as [en|] eqn:E; [|reflexivity].
  apply sm_get_some_in in E. apply (i_from _ _ _ I) in E. exfalso. eapply Hfresh; eauto.
Qed.

Lemma step_flat : flat_hdr h = true.
Proof. apply (Hflat _ Hin). Qed.

(* a tombstone is always indexed and marks its target *)
Lemma ha_tomb d0 x : h_typ h = TTombstone -> h_assoc h = Some x ->
  exists d', handle_assoc e b d0 (Obj i h None) = (set_garb b (sm_put x MDefault (garb b)), d', EOk).
Proof.
  intros Et Ea.
  assert (TB : tomb_in B c x = true) by (apply tomb_in_iff; eauto).
  destruct (tomb_target c x TB) as [NL NT].
  assert (LL : object_locked e b x = false).
  { rewrite (locked_spec b e x (i_wf _ _ _ I)). destruct (live_lock b e x) eqn:L; [|reflexivity].
    apply (inv_live_lock_in c P b HP I) in L. congruence. }
  unfold handle_assoc. simpl o_hdr. rewrite Ea, Et.
  assert (K : exists d', (if object_locked e b x then (b, d0, ELocked)
                 else let ids := collect_children (cc_fuel b) b x ++ [x] in
                      let '(c', inh, pay) := ts_loop e b ids 0%Z (d_payload d0) in
                      (c', mkDiff (d_phy d0 + 1) (d_root d0) (d_ts d0 + 1) (d_lock d0) (d_link d0) (d_gc d0 + inh) pay, EOk))
                = (set_garb b (sm_put x MDefault (garb b)), d', EOk)).
  { rewrite LL. cbv zeta. rewrite (flat_collect b x (inv_flatb c P b HP I)). simpl.
    destruct (get_raw_ok b x); eexists; reflexivity. }
  destruct (type_of b x) as [t|] eqn:Ety; [|exact K].
  destruct (inv_type_of c P b HP I x t Ety) as [h' [Hin' Ht']]. destruct (NT h' Hin') as [N1 N2].
  destruct t; try congruence; exact K.
Qed.

(* a lock is always indexed: its target carries no tombstone *)
Lemma ha_lock d0 x : h_typ h = TLock -> h_assoc h = Some x ->
  exists d', handle_assoc e b d0 (Obj i h None) = (b, d', EOk).
Proof.
  intros Et Ea.
  assert (LB : lock_in B c x = true) by (apply lock_in_iff; eauto).
  destruct (lock_target c x LB) as [NT NR].
  assert (TP : tomb_in P c x = false).
  { destruct (tomb_in P c x) eqn:E; [|reflexivity]. apply tomb_in_incl in E; auto. congruence. }
  assert (W := i_wf _ _ _ I).
  assert (G : in_garbage b x = st_available).
  { rewrite (in_garbage_spec b x W), (inv_tombstoned c P b I), (inv_marked c P b I), TP. reflexivity. }
  assert (S : (object_status b x e =? st_tombstoned) || (in_garbage b x =? st_tombstoned) = false).
  { rewrite (flat_object_status b x e W (inv_flatb c P b HP I)). unfold status_direct. rewrite G.
    destruct (is_expired b x e); [destruct (object_locked e b x); reflexivity|]. reflexivity. }
  unfold handle_assoc. simpl o_hdr. rewrite Ea, Et.
  destruct (type_of b x) as [t|] eqn:Ety.
  - destruct (inv_type_of c P b HP I x t Ety) as [h' [Hin' Ht']]. rewrite (NR h' Hin') in Ht'. subst t.
    rewrite S. eexists; reflexivity.
  - rewrite S. eexists; reflexivity.
Qed.

Theorem step_bucket :
  exists b' d err, put_top e b (Obj i h None) = (b', d, err) /\
                   (err = EOk \/ (err = EAlreadyRemoved /\ b' = b)) /\ inv c (P ++ [(c, i, h)]) b'.
Proof.
  assert (W := i_wf _ _ _ I). assert (F := inv_flatb c P b HP I).
  assert (FH := step_flat). unfold flat_hdr in FH. apply andb_true_iff in FH as [FS FA].
  unfold put_top. rewrite put_obj_nopar. rewrite (i_cgc _ _ _ I).
  cbv zeta. rewrite (unstored_status b i e W F step_unstored).
  rewrite (inv_tombstoned c P b I), (inv_marked c P b I).
  destruct (tomb_in P c i) eqn:TP.
  - (* read after its tombstone: skipped *)
    assert (TB : tomb_in B c i = true) by (apply (tomb_in_incl c P HP); exact TP).
    destruct (tomb_target c i TB) as [NL NT]. destruct (NT h Hin) as [N1 N2].
    assert (LL : live_lock b e i = false).
    { destruct (live_lock b e i) eqn:L; [|reflexivity]. apply (inv_live_lock_in c P b HP I) in L. congruence. }
    rewrite LL. simpl. exists b, diff0, EAlreadyRemoved. split; [reflexivity|]. split; [right; auto|].
    now apply inv_skip.
  - replace (st_available =? st_tombstoned) with false by reflexivity.
    replace (st_available =? st_expired) with false by reflexivity.
    rewrite step_unstored. rewrite andb_false_r.
    destruct (h_typ h) eqn:Et.
    + (* regular *)
      destruct (put_metadata_objs b (apply_diff (cnt b) (mkDiff (0 + 1) (if has_parent_hdr (Obj i h None) then 0 else 0 + 1) 0 0 0 0 (Z.of_N (h_size h)))) i h true) as [en [He Ho]].
      eexists _, _, EOk. split; [reflexivity|]. split; [left; reflexivity|].
      eapply inv_store; eauto.
      * apply wfc_put_metadata. now apply wfc_set_cnt.
      * rewrite put_metadata_cgc. apply (i_cgc _ _ _ I).
      * intros y. rewrite put_metadata_garb. simpl. rewrite tomb_in_app, fb_targets_self, Et. simpl.
        rewrite orb_false_r. apply (i_garb _ _ _ I).
    + (* tombstone *)
      destruct (h_assoc h) as [x|] eqn:Ea; [|discriminate].
      destruct (ha_tomb (mkDiff 0 0 0 0 0 0 (Z.of_N (h_size h))) x Et Ea) as [d' Hh]. rewrite Hh.
      set (b1 := set_garb b (sm_put x MDefault (garb b))).
      destruct (put_metadata_objs b1 (apply_diff (cnt b1) d') i h true) as [en [He Ho]].
      eexists _, _, EOk. split; [reflexivity|]. split; [left; reflexivity|].
      eapply inv_store; eauto.
      * apply wfc_put_metadata. apply wfc_set_cnt. unfold b1. now apply wfc_put_garb.
      * rewrite put_metadata_cgc. apply (i_cgc _ _ _ I).
      * intros y. rewrite put_metadata_garb. unfold b1. simpl. rewrite tomb_in_app, fb_targets_self, Et, Ea. simpl.
        destruct (N.eq_dec y x) as [->|Hne].
        -- rewrite sm_get_put_eq, N.eqb_refl, orb_true_r. reflexivity.
        -- rewrite (sm_get_put_ne x y MDefault (garb b) Hne). replace (x =? y) with false by (symmetry; apply N.eqb_neq; congruence).
           rewrite orb_false_r. apply (i_garb _ _ _ I).
    + (* lock *)
      destruct (h_assoc h) as [x|] eqn:Ea; [|discriminate].
      destruct (ha_lock (mkDiff 0 0 0 0 0 0 (Z.of_N (h_size h))) x Et Ea) as [d' Hh]. rewrite Hh.
      destruct (put_metadata_objs b (apply_diff (cnt b) d') i h true) as [en [He Ho]].
      eexists _, _, EOk. split; [reflexivity|]. split; [left; reflexivity|].
      eapply inv_store; eauto.
      * apply wfc_put_metadata. now apply wfc_set_cnt.
      * rewrite put_metadata_cgc. apply (i_cgc _ _ _ I).
      * intros y. rewrite put_metadata_garb. simpl. rewrite tomb_in_app, fb_targets_self, Et. simpl.
        rewrite orb_false_r. apply (i_garb _ _ _ I).
    + (* link *)
      destruct (put_metadata_objs b (apply_diff (cnt b) (mkDiff (0 + 1) 0 0 0 (0 + 1) 0 (Z.of_N (h_size h)))) i h true) as [en [He Ho]].
      eexists _, _, EOk. split; [reflexivity|]. split; [left; reflexivity|].
      eapply inv_store; eauto.
      * apply wfc_put_metadata. now apply wfc_set_cnt.
      * rewrite put_metadata_cgc. apply (i_cgc _ _ _ I).
      * intros y. rewrite put_metadata_garb. simpl. rewrite tomb_in_app, fb_targets_self, Et. simpl.
        rewrite orb_false_r. apply (i_garb _ _ _ I).
Qed.
End Step.

(* ---------------------------------------------------------------- the whole state *)
Definition addr (fb : fblob) : cid * oid := (fb_c fb, fb_i fb).

Definition sinv (P : list fblob) (s : state) : Prop := forall c, inv c P (bucket_or_new s c).

Lemma sinv_init e : sinv [] (reset_state e).
Proof.
  intros c. unfold bucket_or_new, bucket, reset_state. simpl. constructor.
  - apply wfc_cstate0.
  - reflexivity.
  - intros i en [].
  - intros i h [].
  - intros x. reflexivity.
Qed.

Lemma bon_set_eq s c b : bucket_or_new (set_bucket s c b) c = b.
Proof. unfold bucket_or_new, bucket, set_bucket. simpl. now rewrite sm_get_put_eq. Qed.
Lemma bon_set_ne s c c' b : c' <> c -> bucket_or_new (set_bucket s c b) c' = bucket_or_new s c'.
Proof. intros H. unfold bucket_or_new, bucket, set_bucket. simpl. now rewrite (sm_get_put_ne c c' b (cnrs s) H). Qed.

Lemma skip_state s c c' :
  bucket_or_new (match bucket s c, objs (bucket_or_new s c) with
                 | None, [] => s
                 | _, _ => set_bucket s c (bucket_or_new s c)
                 end) c' = bucket_or_new s c'.
Proof.
  assert (G : bucket_or_new (set_bucket s c (bucket_or_new s c)) c' = bucket_or_new s c').
  { destruct (N.eq_dec c' c) as [->|Hne]; [apply bon_set_eq | now apply bon_set_ne]. }
  destruct (bucket s c); [exact G|]. destruct (objs (bucket_or_new s c)); [reflexivity|exact G].
Qed.

Lemma skip_epoch s c :
  epoch (match bucket s c, objs (bucket_or_new s c) with
         | None, [] => s
         | _, _ => set_bucket s c (bucket_or_new s c)
         end) = epoch s.
Proof. destruct (bucket s c); [reflexivity|]. destruct (objs (bucket_or_new s c)); reflexivity. Qed.

Lemma sinv_step P s c i h b' :
  sinv P s -> inv c (P ++ [(c, i, h)]) b' ->
  forall s1, (forall c', bucket_or_new s1 c' = if N.eq_dec c' c then b' else bucket_or_new s c') ->
  sinv (P ++ [(c, i, h)]) s1.
Proof.
  intros S I s1 H c'. rewrite H. destruct (N.eq_dec c' c) as [->|Hne]; [exact I|].
  apply inv_other; [apply S|]. unfold fb_c. simpl. congruence.
Qed.

Lemma nodup_fresh P fb R : NoDup (map addr (P ++ fb :: R)) -> forall h', ~ In (fb_c fb, fb_i fb, h') P.
Proof.
  intros N h' Hin. rewrite map_app in N. simpl in N. apply NoDup_remove_2 in N. apply N.
  apply in_or_app. left. apply in_map_iff. exists (fb_c fb, fb_i fb, h'). split; [reflexivity|exact Hin].
Qed.

Lemma batch_flat R : forall P s,
  sinv P s -> incl (P ++ R) B -> NoDup (map addr (P ++ R)) ->
  exists s', batch_loop s (map to_blob R) = inl s' /\ sinv (P ++ R) s' /\ epoch s' = epoch s.
Proof.
  induction R as [|fb R IH]; intros P s S Hincl Hnd'.
  - exists s. rewrite app_nil_r. simpl. auto.
  - destruct fb as [[c i] h].
    assert (HP : incl P B) by (intros x Hx; apply Hincl; apply in_or_app; now left).
    assert (HinB : In (c, i, h) B) by (apply Hincl; apply in_or_app; right; now left).
    pose proof (nodup_fresh P (c, i, h) R Hnd') as Hfresh. unfold fb_c, fb_i in Hfresh. simpl in Hfresh.
    destruct (step_bucket c P (bucket_or_new s c) (epoch s) i h HP (S c) HinB Hfresh) as (b' & d & err & Hput & Herr & Hinv).
    simpl. unfold to_blob at 1. unfold fb_c, fb_i, fb_h. simpl. rewrite Hput.
    assert (Happ : (P ++ [(c, i, h)]) ++ R = P ++ (c, i, h) :: R) by (rewrite <- app_assoc; reflexivity).
    destruct Herr as [->|[-> ->]].
    + destruct (IH (P ++ [(c, i, h)]) (set_bucket s c b')) as (s' & H1 & H2 & H3).
      * eapply sinv_step; eauto. intros c'. destruct (N.eq_dec c' c) as [->|Hne]; [apply bon_set_eq | now apply bon_set_ne].
      * now rewrite Happ.
      * now rewrite Happ.
      * exists s'. rewrite Happ in H2. auto.
    + simpl.
      destruct (IH (P ++ [(c, i, h)]) (match bucket s c, objs (bucket_or_new s c) with
                                        | None, [] => s
                                        | _, _ => set_bucket s c (bucket_or_new s c)
                                        end)) as (s' & H1 & H2 & H3).
      * eapply sinv_step; eauto. intros c'. rewrite skip_state. destruct (N.eq_dec c' c) as [->|Hne]; reflexivity.
      * now rewrite Happ.
      * now rewrite Happ.
      * exists s'. rewrite Happ in H2. rewrite skip_epoch in H3. auto.
Qed.

(* ---------------------------------------------------------------- statuses of the rebuilt bucket *)
Section Final.
Variables (c : cid) (P : list fblob) (b : cstate) (q : N).
Hypothesis Hmem : forall fb, In fb P <-> In fb B.
Hypothesis I : inv c P b.
Hypothesis Hexp : no_tomb_exp q B = true.

Let HP : incl P B.
Proof. intros x Hx. now apply Hmem. Qed.

Lemma tomb_P_B x : tomb_in P c x = tomb_in B c x.
Proof.
  apply eq_true_iff_eq. rewrite !tomb_in_iff.
  split; intros (i & h & Hin & H); exists i, h; (split; [now apply Hmem | exact H]).
Qed.

Lemma fin_tombstoned x : tombstoned b x = tomb_in B c x.
Proof. rewrite (inv_tombstoned c P b I). apply tomb_P_B. Qed.
Lemma fin_marked x : marked b x = tomb_in B c x.
Proof. rewrite (inv_marked c P b I). apply tomb_P_B. Qed.

Lemma fin_expired_stored l en : In (l, en) (objs b) ->
  expired b q l = match h_exp (e_hdr en) with Some x => x <? q | None => false end.
Proof.
  intros Hin. unfold expired. now rewrite (sm_get_in (objs b) l en (proj1 (i_wf _ _ _ I)) Hin).
Qed.

Lemma fin_live_lock a : live_lock b q a = live_lock_in B q c a.
Proof.
  apply eq_true_iff_eq. unfold live_lock, live_lock_in. rewrite !existsb_exists. split.
  - intros [[l en] [Hin H]]. simpl in H. apply andb_true_iff in H as [H H3]. apply andb_true_iff in H as [H1 H2].
    unfold is_type in H1. apply otype_eqb_eq in H1. unfold targets in H2. apply opt_eqb_some in H2.
    exists (c, l, e_hdr en). split; [apply HP; now apply (i_from _ _ _ I)|].
    rewrite fb_targets_self, H1, H2. simpl. rewrite N.eqb_refl. simpl.
    unfold lock_live in H3. apply andb_true_iff in H3 as [H3 _]. apply andb_true_iff in H3 as [H3 _].
    rewrite (fin_expired_stored l en Hin) in H3. unfold fb_h. simpl. exact H3.
  - intros [[[c' l] h] [Hin H]]. apply andb_true_iff in H as [H1 H2].
    unfold fb_targets, fb_c, fb_h in H1. simpl in H1. apply andb_true_iff in H1 as [H1 Ha]. apply andb_true_iff in H1 as [Hc Ht].
    apply N.eqb_eq in Hc. subst c'. apply otype_eqb_eq in Ht. apply opt_eqb_some in Ha.
    destruct (i_stored _ _ _ I l h (proj2 (Hmem _) Hin) (or_intror (or_introl Ht))) as [en [Hs He]].
    exists (l, en). split; auto. simpl. unfold is_type, targets. rewrite He, Ht, Ha. simpl. rewrite N.eqb_refl. simpl.
    unfold lock_live. rewrite (fin_expired_stored l en Hs), He. unfold fb_h in H2. simpl in H2. rewrite H2. simpl.
    assert (NT : tomb_in B c l = false).
    { destruct (tomb_in B c l) eqn:E; [|reflexivity]. destruct (tomb_target c l E) as [_ NT]. destruct (NT h Hin). congruence. }
    now rewrite fin_tombstoned, fin_marked, NT.
Qed.

Lemma fin_expired a : expired b q a = expired_in B q c a.
Proof.
  unfold expired_in. destruct (sm_get a (objs b)) as [en|] eqn:E.
  - apply sm_get_some_in in E. rewrite (fin_expired_stored a en E).
    assert (Hin : In (c, a, e_hdr en) B) by (apply HP; now apply (i_from _ _ _ I)).
    pose proof (nodup_find B Hnd (c, a, e_hdr en) Hin) as F. unfold fb_c, fb_i in F. simpl in F. rewrite F. reflexivity.
  - unfold expired. rewrite E. destruct (find (fb_is c a) B) as [fb|] eqn:F; [|reflexivity].
    apply find_some in F as [Hin Hfb]. apply fb_is_iff in Hfb as [Hc Hi]. destruct fb as [[c' a'] h].
    unfold fb_c, fb_i in Hc, Hi. simpl in Hc, Hi. subst c' a'. unfold fb_h. simpl.
    destruct (tomb_in B c a) eqn:T.
    + unfold no_tomb_exp in Hexp. rewrite forallb_forall in Hexp. specialize (Hexp _ Hin).
      unfold fb_c, fb_i, fb_h in Hexp. simpl in Hexp. rewrite T in Hexp. simpl in Hexp.
      apply negb_true_iff in Hexp. symmetry. exact Hexp.
    + destruct (i_stored _ _ _ I a h (proj2 (Hmem _) Hin) (or_intror (or_intror T))) as [en [Hs _]].
      rewrite (sm_get_in (objs b) a en (proj1 (i_wf _ _ _ I)) Hs) in E. discriminate.
Qed.

Lemma fin_status a : status_in b q a = status_of_blobs q B c a.
Proof.
  unfold status_in. rewrite (i_cgc _ _ _ I).
  rewrite status_k_noparent.
  - unfold direct, status_of_blobs. now rewrite fin_live_lock, fin_marked, fin_tombstoned, fin_expired.
  - rewrite <- find_parent_spec. apply flat_find_parent; [apply (i_wf _ _ _ I) | apply (inv_flatb c P b HP I)].
Qed.
End Final.
End BlobSet.

(* ---------------------------------------------------------------- theorems *)
Lemma nodup_addr_NoDup l : nodup_addr l = true -> NoDup (map addr l).
Proof.
  induction l as [|a r IH]; intros H; simpl; [constructor|].
  simpl in H. apply andb_true_iff in H as [H1 H2]. constructor; [|now apply IH].
  intros Hin. apply in_map_iff in Hin as [fb [E Hfb]]. apply negb_true_iff in H1.
  assert (X : existsb (fb_is (fb_c a) (fb_i a)) r = true).
  { apply existsb_exists. exists fb. split; auto. unfold addr in E. inversion E. unfold fb_is. now rewrite !N.eqb_refl. }
  congruence.
Qed.

Lemma status_at_bon s q c a : status_at s q c a = status_in (bucket_or_new s c) q a.
Proof.
  unfold status_at, bucket_or_new, bucket. destruct (sm_get c (cnrs s)); [reflexivity|].
  unfold status_in. assert (H : cgc cstate0 = false) by reflexivity. rewrite H.
  rewrite status_k_noparent; reflexivity.
Qed.

Theorem flat_status bs e q B order :
  (0 < bs)%nat -> flat_ok B = true -> no_tomb_exp q B = true -> Permutation order B ->
  snd (resync_bs bs e (map to_blob order)) = true /\
  forall c a, status_at (fst (resync_bs bs e (map to_blob order))) q c a = status_of_blobs q B c a.
Proof.
  intros Hbs Hok Hexp Hperm.
  unfold flat_ok in Hok. apply andb_true_iff in Hok as [Hok Hpair]. apply andb_true_iff in Hok as [Hok Hnd].
  apply andb_true_iff in Hok as [Hflat Htgt]. rewrite forallb_forall in Hflat, Htgt.
  assert (Hincl : incl ([] ++ order) B) by (intros x Hx; simpl in Hx; eapply Permutation_in; eauto).
  assert (HN : NoDup (map addr ([] ++ order))).
  { simpl. eapply Permutation_NoDup; [apply Permutation_map; apply Permutation_sym; exact Hperm|]. now apply nodup_addr_NoDup. }
  destruct (batch_flat B Hflat Htgt Hnd Hpair order [] (reset_state e) (sinv_init B e) Hincl HN) as (s' & H1 & H2 & _).
  rewrite (batching_irrelevant bs e (map to_blob order) s' Hbs H1). simpl. split; [reflexivity|].
  intros c a. rewrite status_at_bon.
  apply (fin_status B Hflat Htgt Hnd Hpair c order (bucket_or_new s' c) q); auto.
  intros fb. split; intros H; [eapply Permutation_in; eauto | eapply Permutation_in; [apply Permutation_sym|]; eauto].
Qed.
