(* C42: the 10 -> 11 migration preserves what the current code reads from a bucket after any
   number of transactions, never un-converts, and a re-run that finishes yields the version 11
   form of the ORIGINAL database. *)
From Coq Require Import List NArith Bool Arith Lia.
Import ListNotations.
From NV Require Import Resync.Upgrade.

Definition rawk (k : akey) : bool := is_raw (ak_val k).

Lemma abs_conv k : abs_key (conv k) = abs_key k.
Proof. destruct k as [[x|x] o]; reflexivity. Qed.
Lemma conv_conv k : conv (conv k) = conv k.
Proof. destruct k as [[x|x] o]; reflexivity. Qed.
Lemma conv_raw k : rawk k = true -> conv k = k.
Proof. destruct k as [[x|x] o]; simpl; intros H; [discriminate|reflexivity]. Qed.
Lemma map_conv_raw l : forallb rawk l = true -> map conv l = l.
Proof.
  induction l as [|k r IH]; simpl; intros H; [reflexivity|].
  apply andb_true_iff in H as [H1 H2]. now rewrite (conv_raw k H1), (IH H2).
Qed.

(* ---- one scan *)
Lemma mig_from_facts l : forall rem,
  let '(sc, l', vis) := mig_from l rem in
  map abs_key l' = map abs_key l /\ map conv l' = map conv l /\ (sc <= rem)%nat /\
  ((sc < rem)%nat -> forallb rawk l' = true).
Proof.
  induction l as [|k r IH]; intros rem; simpl.
  - repeat split; auto; lia.
  - destruct (is_raw (ak_val k)) eqn:Er.
    + specialize (IH rem). destruct (mig_from r rem) as [[sc r'] vis]. destruct IH as (A & B & C & D).
      repeat split; simpl; try congruence; auto.
      intros H. unfold rawk at 1. rewrite Er. simpl. now apply D.
    + destruct rem as [|[|rem']].
      * repeat split; auto; lia.
      * simpl. rewrite abs_conv, conv_conv. repeat split; auto; lia.
      * specialize (IH (S rem')). destruct (mig_from r (S rem')) as [[sc r'] vis]. destruct IH as (A & B & C & D).
        simpl. rewrite abs_conv, conv_conv. repeat split; try congruence; try lia.
        intros H. replace (rawk (conv k)) with true by (destruct k as [[x|x] o]; reflexivity). simpl. apply D. lia.
Qed.

(* ---- the two batch functions on one bucket *)
Definition preserves (f : bfun) : Prop :=
  forall b a r, abs_bucket (snd (f b a r)) = abs_bucket b /\
                map conv (cb_assoc (snd (f b a r))) = map conv (cb_assoc b) /\ cb_rest (snd (f b a r)) = cb_rest b.

Lemma mig_assoc_preserves : preserves mig_assoc.
Proof.
  intros b a r. unfold mig_assoc.
  set (a0 := match a with Some a1 => a1 | None => 0%nat end).
  pose proof (mig_from_facts (skipn a0 (cb_assoc b)) r) as F.
  destruct (mig_from (skipn a0 (cb_assoc b)) r) as [[sc suf] vis]. destruct F as (A & B & _ & _). simpl.
  unfold abs_bucket. simpl. rewrite !map_app, A, B, <- !map_app, firstn_skipn. auto.
Qed.

Lemma drop_homo_preserves : preserves drop_homo.
Proof. intros b a r. unfold drop_homo, abs_bucket. simpl. auto. Qed.

Theorem batch_preserves f : f = mig_assoc \/ f = drop_homo -> forall b a r, abs_bucket (snd (f b a r)) = abs_bucket b.
Proof. intros [->| ->] b a r; [apply mig_assoc_preserves | apply drop_homo_preserves]. Qed.

(* a batch never un-converts: running it again on its own result changes nothing the first run would not *)
Theorem batch_idempotent b a r a' r' :
  map conv (cb_assoc (snd (mig_assoc (snd (mig_assoc b a r)) a' r'))) = map conv (cb_assoc b).
Proof.
  destruct (mig_assoc_preserves (snd (mig_assoc b a r)) a' r') as (_ & H & _).
  destruct (mig_assoc_preserves b a r) as (_ & H' & _). congruence.
Qed.

(* ---- transactions *)
Definition same (bs bs' : list cbucket) : Prop :=
  map abs_bucket bs' = map abs_bucket bs /\ map (fun b => map conv (cb_assoc b)) bs' = map (fun b => map conv (cb_assoc b)) bs /\
  map cb_rest bs' = map cb_rest bs.

Lemma same_refl bs : same bs bs.
Proof. repeat split. Qed.
Lemma same_trans a b c : same a b -> same b c -> same a c.
Proof. intros (A1 & A2 & A3) (B1 & B2 & B3). repeat split; congruence. Qed.

Lemma iter_tx_same f (P : preserves f) bs : forall idx a rem, same bs (fst (iter_tx f bs idx a rem)).
Proof.
  induction bs as [|b r IH]; intros idx a rem; simpl; [apply same_refl|].
  destruct (P b a rem) as (H1 & H2 & H3). destruct (f b a rem) as [[done a'] b']. simpl in *.
  destruct (Nat.eqb done rem).
  - simpl. repeat split; simpl; congruence.
  - specialize (IH (S idx) a' (rem - done)%nat). destruct (iter_tx f r (S idx) a' (rem - done)) as [r' res].
    simpl in *. destruct IH as (I1 & I2 & I3). repeat split; simpl; congruence.
Qed.

Lemma tx_same f (P : preserves f) lim bs from : same bs (fst (tx f lim bs from)).
Proof.
  unfold tx. destruct from as [[i a]|]; [|apply iter_tx_same; auto].
  pose proof (iter_tx_same f P (skipn i bs) i a lim) as H.
  destruct (iter_tx f (skipn i bs) i a lim) as [r' res]. simpl in *. destruct H as (H1 & H2 & H3).
  repeat split; rewrite map_app; [rewrite H1 | rewrite H2 | rewrite H3]; rewrite <- map_app, firstn_skipn; reflexivity.
Qed.

Lemma phase_same f (P : preserves f) lim n : forall bs from, same bs (fst (fst (phase f lim n bs from))).
Proof.
  induction n; intros bs from; simpl; [apply same_refl|].
  pose proof (tx_same f P lim bs from) as H. destruct (tx f lim bs from) as [bs' res]. simpl in H.
  destruct res as [p|]; [|exact H].
  specialize (IHn bs' (Some p)). destruct (phase f lim n bs' (Some p)) as [[bs'' fin] k]. simpl in *.
  eapply same_trans; eauto.
Qed.

Theorem migrate10_same lim n bs : same bs (fst (migrate10 lim n bs)).
Proof.
  unfold migrate10.
  pose proof (phase_same drop_homo drop_homo_preserves lim n bs None) as H1.
  destruct (phase drop_homo lim n bs None) as [[bs1 fin1] k1]. simpl in H1.
  destruct fin1; [|exact H1].
  pose proof (phase_same mig_assoc mig_assoc_preserves lim (n - k1) bs1 None) as H2.
  destruct (phase mig_assoc lim (n - k1) bs1 None) as [[bs2 fin2] k2]. simpl in *.
  eapply same_trans; eauto.
Qed.

(* ---- completion *)
Lemma scan_complete b rem sc a' b' :
  mig_assoc b None rem = (sc, a', b') -> (sc < rem)%nat ->
  a' = None /\ cb_assoc b' = map conv (cb_assoc b) /\ cb_homo b' = cb_homo b /\ cb_rest b' = cb_rest b.
Proof.
  unfold mig_assoc. simpl.
  pose proof (mig_from_facts (cb_assoc b) rem) as F.
  destruct (mig_from (cb_assoc b) rem) as [[sc0 suf] vis]. destruct F as (_ & B & _ & D).
  intros E Hlt. inversion E; subst. apply Nat.ltb_lt in Hlt as Hb. rewrite Hb. repeat split.
  rewrite <- B. symmetry. apply map_conv_raw. now apply D.
Qed.

Lemma iter_assoc_complete bs : forall idx rem bs',
  iter_tx mig_assoc bs idx None rem = (bs', None) ->
  bs' = map (fun b => mkCB (cb_homo b) (map conv (cb_assoc b)) (cb_rest b)) bs.
Proof.
  induction bs as [|b r IH]; intros idx rem bs'; simpl.
  - intros E; inversion E; reflexivity.
  - destruct (mig_assoc b None rem) as [[sc a'] b1] eqn:E1.
    assert (Hle : (sc <= rem)%nat).
    { unfold mig_assoc in E1. simpl in E1. pose proof (mig_from_facts (cb_assoc b) rem) as F.
      destruct (mig_from (cb_assoc b) rem) as [[sc0 suf] vis]. destruct F as (_ & _ & C & _). inversion E1; subst. exact C. }
    destruct (Nat.eqb sc rem) eqn:Eq; [intros E; discriminate|].
    apply Nat.eqb_neq in Eq.
    destruct (scan_complete b rem sc a' b1 E1 ltac:(lia)) as (-> & A & H & Rr).
    destruct (iter_tx mig_assoc r (S idx) None (rem - sc)) as [r' res] eqn:E2.
    intros E; inversion E; subst. rewrite (IH (S idx) (rem - sc)%nat r' E2).
    f_equal. destruct b1 as [h1 a1 r1]. simpl in *. now subst.
Qed.

Lemma iter_homo_complete bs : forall idx a rem bs',
  iter_tx drop_homo bs idx a rem = (bs', None) ->
  bs' = map (fun b => mkCB [] (cb_assoc b) (cb_rest b)) bs.
Proof.
  induction bs as [|b r IH]; intros idx a rem bs'; simpl.
  - intros E; inversion E; reflexivity.
  - destruct (Nat.eqb (Nat.min (length (cb_homo b)) rem) rem) eqn:Eq; [intros E; discriminate|].
    apply Nat.eqb_neq in Eq.
    destruct (iter_tx drop_homo r (S idx) None (rem - Nat.min (length (cb_homo b)) rem)) as [r' res] eqn:E2.
    intros E; inversion E; subst. rewrite (IH (S idx) None _ r' E2).
    replace (skipn rem (cb_homo b)) with (@nil (N * oid)) by (symmetry; apply skipn_all2; lia). reflexivity.
Qed.

(* an interrupted upgrade followed by a re-run that finishes each phase in one transaction gives
   exactly the version 11 form of the original database *)
Theorem resumable_one_tx lim n bs bsA bs2 :
  tx drop_homo lim (fst (migrate10 lim n bs)) None = (bsA, None) ->
  tx mig_assoc lim bsA None = (bs2, None) ->
  bs2 = map v11_bucket bs.
Proof.
  intros EA EB. unfold tx in EA, EB.
  apply iter_homo_complete in EA. apply iter_assoc_complete in EB. subst bsA bs2.
  destruct (migrate10_same lim n bs) as (_ & S2 & S3).
  set (bs1 := fst (migrate10 lim n bs)) in *.
  rewrite map_map. unfold v11_bucket. simpl.
  assert (L : length bs1 = length bs) by (rewrite <- (map_length cb_rest bs1), S3, map_length; reflexivity).
  clearbody bs1. revert bs S2 S3 L. induction bs1 as [|b1 r1 IH]; intros [|b r] S2 S3 L; simpl in *; try discriminate; [reflexivity|].
  inversion S2. inversion S3.
  assert (Hh : mkCB [] (map conv (cb_assoc b1)) (cb_rest b1) = mkCB [] (map conv (cb_assoc b)) (cb_rest b)) by congruence.
  rewrite Hh. f_equal. apply IH; auto.
Qed.
