(* C42: model of the metabase migrations present at this commit (version.go):
     9 -> 10  one transaction: drop the container volume bucket, resync all counters, delete the
              two old global counters, store version 10;
     10 -> 11 phase A (interruptible): drop the homomorphic-hash index entries,
              phase B (interruptible): rewrite the value of every associate-attribute index entry
              from the base58 string to the 32 raw ID bytes,
              then one transaction: resync all counters, store version 11.
   Interruptible phases run in transactions that each change at most [mig_limit] entries over all
   container buckets, remember (bucket, last visited key) and poll the init context before every
   transaction; after an interruption the stored version is still 10 and the next start runs both
   phases again from the beginning.

   Key level, abstractly: a container bucket holds its homomorphic-hash entries, its associate
   entries (one logical entry = the attribute->ID key and the mirrored ID->attribute key) in cursor
   order, and everything else ([cb_rest], never touched).  A converted entry is written as a new
   key and the old one deleted; since raw entries are skipped wherever the cursor meets them, the
   conversion is modelled in place.  Modelled assumption (stated in the theorems' reading, see
   notes/C42.md): the base58 form of an ID never parses as 32 raw ID bytes and a raw value always
   does, i.e. [is_raw] is decidable from the stored bytes.  Definitions only. *)
From Coq Require Import List NArith Bool Arith.
Import ListNotations.

Definition mig_limit : nat := 1000.   (* `rem := uint(1000)` in iterateContainerBuckets; tied by the batch counts *)

Definition oid := N.
Inductive aval := VB58 (x : oid) | VRaw (x : oid).
Definition target (v : aval) : oid := match v with VB58 x | VRaw x => x end.
Definition is_raw (v : aval) : bool := match v with VRaw _ => true | VB58 _ => false end.
Record akey := mkA { ak_val : aval; ak_obj : oid }.
Definition conv (k : akey) : akey := mkA (VRaw (target (ak_val k))) (ak_obj k).

Record cbucket := mkCB { cb_homo : list (N * oid); cb_assoc : list akey; cb_rest : list N }.

(* what the current code reads from a bucket, in either format: (object, associated ID) pairs and the rest *)
Definition abs_key (k : akey) : oid * oid := (ak_obj k, target (ak_val k)).
Definition abs_bucket (b : cbucket) : list (oid * oid) * list N := (map abs_key (cb_assoc b), cb_rest b).
(* the version 11 bucket the migration must produce *)
Definition v11_bucket (b : cbucket) : cbucket := mkCB [] (map conv (cb_assoc b)) (cb_rest b).
Definition is_v11 (b : cbucket) : bool :=
  match cb_homo b with [] => forallb (fun k => is_raw (ak_val k)) (cb_assoc b) | _ => false end.

(* migrateAssociatedObjectValueToIDBytes from the cursor position on: (rewritten, entries', visited) *)
Fixpoint mig_from (l : list akey) (rem : nat) : nat * list akey * nat :=
  match l with
  | [] => (0, [], 0)%nat
  | k :: r =>
      if is_raw (ak_val k) then let '(sc, r', vis) := mig_from r rem in (sc, k :: r', S vis)
      else match rem with
           | O => (0, l, 0)%nat
           | S O => (1, conv k :: r, 1)%nat
           | S rem' => let '(sc, r', vis) := mig_from r rem' in (S sc, conv k :: r', S vis)
           end
  end.

(* one call for a bucket: [after] = number of entries in front of the resume key *)
Definition mig_assoc (b : cbucket) (after : option nat) (rem : nat) : nat * option nat * cbucket :=
  let a := match after with Some a => a | None => 0%nat end in
  let '(sc, suf, vis) := mig_from (skipn a (cb_assoc b)) rem in
  (sc, if Nat.ltb sc rem then None else Some (a + vis)%nat,
   mkCB (cb_homo b) (firstn a (cb_assoc b) ++ suf) (cb_rest b)).

(* dropHomomorphicIndexes *)
Definition drop_homo (b : cbucket) (_ : option nat) (rem : nat) : nat * option nat * cbucket :=
  (Nat.min (length (cb_homo b)) rem, None, mkCB (skipn rem (cb_homo b)) (cb_assoc b) (cb_rest b)).

Definition bfun := cbucket -> option nat -> nat -> nat * option nat * cbucket.

(* iterateContainerBuckets from bucket number idx on *)
Fixpoint iter_tx (f : bfun) (bs : list cbucket) (idx : nat) (after : option nat) (rem : nat)
  : list cbucket * option (nat * option nat) :=
  match bs with
  | [] => ([], None)
  | b :: r =>
      let '(done, after', b') := f b after rem in
      if Nat.eqb done rem then (b' :: r, Some (idx, after'))
      else let '(r', res) := iter_tx f r (S idx) after' (rem - done) in (b' :: r', res)
  end.

(* one transaction of updateContainersInterruptable *)
Definition tx (f : bfun) (lim : nat) (bs : list cbucket) (from : option (nat * option nat))
  : list cbucket * option (nat * option nat) :=
  match from with
  | None => iter_tx f bs 0 None lim
  | Some (i, a) => let '(r', res) := iter_tx f (skipn i bs) i a lim in (firstn i bs ++ r', res)
  end.

(* up to [n] transactions of one phase; (state, finished, transactions done) *)
Fixpoint phase (f : bfun) (lim : nat) (n : nat) (bs : list cbucket) (from : option (nat * option nat))
  : list cbucket * bool * nat :=
  match n with
  | O => (bs, false, 0%nat)
  | S n' => let '(bs', res) := tx f lim bs from in
            match res with
            | None => (bs', true, 1%nat)
            | Some _ => let '(bs'', fin, k) := phase f lim n' bs' res in (bs'', fin, S k)
            end
  end.

(* migrateFrom10Version interrupted after at most n transactions (n large enough = uninterrupted);
   (state, finished) -- the closing transaction (counter resync, version) does not change a bucket's keys *)
Definition migrate10 (lim n : nat) (bs : list cbucket) : list cbucket * bool :=
  let '(bs1, fin1, k1) := phase drop_homo lim n bs None in
  if fin1 then let '(bs2, fin2, _) := phase mig_assoc lim (n - k1) bs1 None in (bs2, fin2)
  else (bs1, false).

(* ---- executable comparison: buckets given by their entry counts (homomorphic, base58) *)
Definition synth (c : nat * nat) : cbucket :=
  mkCB (map (fun i => (N.of_nat i, N.of_nat i)) (seq 0 (fst c)))
       (map (fun i => mkA (VB58 (N.of_nat i)) (N.of_nat i)) (seq 0 (snd c))) [].
Definition counts (bs : list cbucket) : list N :=
  flat_map (fun b => [N.of_nat (length (cb_homo b));
                      N.of_nat (length (filter (fun k => negb (is_raw (ak_val k))) (cb_assoc b)));
                      N.of_nat (length (filter (fun k => is_raw (ak_val k)) (cb_assoc b)))]) bs.
(* a case: entry counts per bucket; the answer: for k = 0..n transactions (then finished flag) the counts *)
Definition model_counts (cs : list (nat * nat)) (n : nat) : list N :=
  flat_map (fun k => let '(bs, fin) := migrate10 mig_limit k (map synth cs) in (if fin then 1%N else 0%N) :: counts bs) (seq 0 (S n)).
