(* The batch size of the rebuild only matters when a batch aborts: without a fatal
   error the rebuild equals one PutBatch over the whole enumeration. *)
From Coq Require Import List NArith ZArith Bool Lia.
Import ListNotations.
From NV Require Import Meta.SMap Meta.Model Resync.Model.
Local Open Scope N_scope.

Local Opaque put_top.

Lemma batch_loop_app a : forall s b,
  batch_loop s (a ++ b) = match batch_loop s a with inl s' => batch_loop s' b | inr e => inr e end.
Proof.
  induction a as [|[c o] r IH]; intros s b; simpl; [reflexivity|].
  destruct (put_top (epoch s) (bucket_or_new s c) o) as [[b' d] e].
  destruct e; try apply IH; try reflexivity.
Qed.

Lemma resync_loop_whole bs : (0 < bs)%nat -> forall fuel s l s',
  (length l < fuel)%nat -> batch_loop s l = inl s' -> resync_loop fuel bs s l = (s', true).
Proof.
  intros Hbs. induction fuel; intros s l s' Hlen H; [lia|].
  simpl. unfold blob in *. destruct l as [|x l'].
  - simpl in H. inversion H; subst. reflexivity.
  - rewrite <- (firstn_skipn bs (x :: l')) in H. rewrite batch_loop_app in H.
    destruct (batch_loop s (firstn bs (x :: l'))) as [s1|e1]; [|discriminate].
    apply IHfuel; auto.
    rewrite skipn_length. cbn [length] in *. lia.
Qed.

Theorem batching_irrelevant bs e order s' :
  (0 < bs)%nat -> batch_loop (reset_state e) order = inl s' -> resync_bs bs e order = (s', true).
Proof. intros Hbs H. unfold resync_bs. apply resync_loop_whole; auto. Qed.
