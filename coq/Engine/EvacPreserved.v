(* Engine family (C19): C19_preserved_partial -- an address available on a source shard, in the
   class c19_good, is returned with the same bytes by the remaining shards after a successful
   evacuation (for every visiting order), unless the fault handler took it. *)
From Coq Require Import List NArith Bool Arith Lia Permutation.
Import ListNotations.
From NV Require Import Engine.Model Engine.Spec Engine.GetProofs Engine.LockProofs
                       Gen.EngineConsts Engine.Evac Engine.EvacSpec Engine.EvacProofs.
Local Open Scope N_scope.

(* ------------------------------------------------------------------ reads over a part of the shards *)

Lemma scan_res_complete_on : forall e a ord st b i0 s0,
  (forall i s, In i ord -> nth_error st i = Some s -> removed_on s e a = false) ->
  (forall i s b', In i ord -> nth_error st i = Some s -> lookup a (s_blob s) = Some b' -> b' = b) ->
  In i0 ord -> nth_error st i0 = Some s0 -> holdsb s0 a b = true ->
  scan_res e a ord st = Some (GFound b).
Proof.
  induction ord as [|i r IH]; intros st b i0 s0 Hnr Hcoh Hin Hs0 Hh; simpl in *; try contradiction.
  assert (Hnr' : forall i s, In i r -> nth_error st i = Some s -> removed_on s e a = false)
    by (intros i' s' Hi' Hs'; eapply Hnr; [right; exact Hi' | exact Hs']).
  assert (Hcoh' : forall i s b', In i r -> nth_error st i = Some s -> lookup a (s_blob s) = Some b' -> b' = b)
    by (intros i' s' b' Hi' Hs' Hl'; eapply Hcoh; [right; exact Hi' | exact Hs' | exact Hl']).
  destruct (nth_error st i) as [s|] eqn:Hs.
  - assert (Hri : removed_on s e a = false) by (eapply Hnr; [left; reflexivity | exact Hs]).
    destruct (sget s e a) eqn:Hg.
    + destruct (sget_found _ _ _ _ Hg) as (Hh' & _ & _).
      unfold holdsb in Hh'. apply andb_prop in Hh'. destruct Hh' as [Hh' _]. apply andb_prop in Hh'. destruct Hh' as [Hb _].
      apply blob_is_inv in Hb. rewrite (Hcoh i s b0 (or_introl eq_refl) Hs Hb). reflexivity.
    + destruct Hin as [->|Hin]; [|eapply IH; eauto].
      rewrite Hs in Hs0; inversion Hs0; subst. rewrite (sget_holds _ _ _ _ Hri Hh) in Hg. discriminate.
    + destruct (sget_removed s e a) as [_ Hr]; auto. rewrite Hri in Hr. discriminate.
    + destruct (sget_removed s e a) as [_ Hr]; auto. rewrite Hri in Hr. discriminate.
    + destruct Hin as [->|Hin]; [|eapply IH; eauto].
      rewrite Hs in Hs0; inversion Hs0; subst. rewrite (sget_holds _ _ _ _ Hri Hh) in Hg. discriminate.
  - destruct Hin as [->|Hin]; [congruence|eapply IH; eauto].
Qed.

Lemma get_found_on : forall t st e a ord b i0 s0, NoDup ord ->
  (forall i s, In i ord -> nth_error st i = Some s -> removed_on s e a = false) ->
  (forall i s b', In i ord -> nth_error st i = Some s -> lookup a (s_blob s) = Some b' -> b' = b) ->
  In i0 ord -> nth_error st i0 = Some s0 -> holdsb s0 a b = true ->
  fst (engine_get t e a ord st) = GFound b.
Proof.
  intros t st e a ord b i0 s0 Hnd Hnr Hcoh Hin Hs0 Hh. unfold engine_get.
  pose proof (scan1_res t e a ord st false None Hnd) as Hres.
  destruct (scan1 t e a ord st false None) as [[[r st1] hd] wm]. simpl in Hres.
  rewrite (scan_res_complete_on e a ord st b i0 s0 Hnr Hcoh Hin Hs0 Hh) in Hres. subst r. reflexivity.
Qed.

(* ------------------------------------------------------------------ membership in rem_shards *)

Lemma in_combine_seq {A} : forall (l : list A) k j x, nth_error l j = Some x ->
  In ((k + j)%nat, x) (combine (seq k (length l)) l).
Proof.
  induction l as [|y r IH]; intros k j x H; destruct j; simpl in *; try discriminate.
  - inversion H; subst. left. f_equal. lia.
  - right. replace (k + S j)%nat with (S k + j)%nat by lia. apply IH; auto.
Qed.

Lemma in_rem_shards : forall srcs st j s, nth_error st j = Some s -> is_src srcs j = false ->
  In s (rem_shards srcs st).
Proof.
  intros srcs st j s Hs Hj. unfold rem_shards. apply in_map_iff. exists (j, s). split; auto.
  apply filter_In. split; [apply (in_combine_seq st 0 j s Hs)|]. simpl. rewrite Hj. reflexivity.
Qed.
Lemma in_src_shards : forall srcs st j s, nth_error st j = Some s -> is_src srcs j = true ->
  In s (src_shards srcs st).
Proof.
  intros srcs st j s Hs Hj. unfold src_shards. apply in_map_iff. exists (j, s). split; auto.
  apply filter_In. split; [apply (in_combine_seq st 0 j s Hs)|]. simpl. exact Hj.
Qed.

Lemma in_remaining : forall srcs n j, In j (remaining srcs n) <-> (j < n)%nat /\ is_src srcs j = false.
Proof.
  intros. unfold remaining. rewrite filter_In, in_seq. rewrite negb_true_iff. split; intros [H1 H2]; split; auto; lia.
Qed.

(* ------------------------------------------------------------------ Ok => no source without metabase *)

Lemma evac_sources_ok_nondeg : forall t e srcs ign fh rank ords todo x x' i s,
  (forall i, In i todo -> is_src srcs i = true) ->
  evac_sources t e srcs ign fh rank ords todo x = (EvOk, x') ->
  In i todo -> nth_error (ev_st x) i = Some s -> s_deg s = false.
Proof.
  induction todo as [|i0 r IH]; intros x x' i s Hall Hev Hin Hs; simpl in *; try contradiction.
  destruct (evac_source t e srcs ign fh rank ords i0 x) as [c x1] eqn:Hsrc.
  destruct c; try (inversion Hev; discriminate).
  destruct Hin as [->|Hin].
  - unfold evac_source in Hsrc. rewrite Hs in Hsrc. destruct (s_deg s); auto. discriminate.
  - eapply (IH x1 x' i s); eauto.
    pose proof (evac_source_src t e srcs ign fh rank ords i0 x i (Hall i (or_intror Hin))) as E.
    rewrite Hsrc in E. simpl in E. congruence.
Qed.

Lemma evacuate_ok_nondeg : forall t e srcs ign fh rank ords st x' i s,
  evacuate t e srcs ign fh rank ords st = (EvOk, x') -> In i srcs -> nth_error st i = Some s -> s_deg s = false.
Proof.
  intros t e srcs ign fh rank ords st x' i s Hev Hi Hs. unfold evacuate in Hev.
  pose proof (precheck_not_ok srcs st) as Hpc.
  destruct (precheck srcs st) as [c|]; [inversion Hev; subst; congruence|].
  destruct ((length st <=? length srcs)%nat && no_handler fh); try (inversion Hev; discriminate).
  eapply (evac_sources_ok_nondeg t e srcs ign fh rank ords srcs (EvSt st 0 []) x' i s); eauto.
  intros; apply is_src_In; auto.
Qed.

Lemma sh_get_found_nondeg : forall s e a b m, s_deg s = false -> sh_get s e a false = (SFound b, m) ->
  has a (s_meta s) = true /\ lookup a (s_blob s) = Some b /\ s_frd s = false.
Proof.
  intros s e a b m Hd H. unfold sh_get in H. rewrite Hd in H. simpl in H.
  destruct (meta_exists s e a) as [[|]| | | |] eqn:Hm; try (inversion H; discriminate).
  destruct (blob_read s a) eqn:Hb; inversion H; subst.
  apply blob_read_found in Hb. destruct Hb. split; [eapply meta_exists_true_has; eauto|]. auto.
Qed.

(* the shard list keeps its shape *)
Lemma evacuate_shape : forall t e srcs ign fh rank ords st i,
  nth_error (ev_st (snd (evacuate t e srcs ign fh rank ords st))) i = None <-> nth_error st i = None.
Proof.
  intros t e srcs ign fh rank ords st.
  apply (evacuate_P t e srcs ign fh rank ords
           (fun st' => forall i, nth_error st' i = None <-> nth_error st i = None) (fun _ _ _ => True)).
  - intros j a r b st0 Hj HP _ i.
    destruct (put_to_shard t e j a r b st0) as [res st'] eqn:Hp. simpl.
    destruct (put_to_shard_step _ _ _ _ _ _ _ _ _ Hp) as (Ho & Hnone & Hsome).
    destruct (Nat.eq_dec i j) as [->|Hn]; [|rewrite Ho by auto; apply HP].
    destruct (nth_error st0 j) as [s0|] eqn:Hs0.
    + destruct (Hsome s0 eq_refl) as (s1 & s' & Hs' & _). rewrite Hs'.
      split; [discriminate | intros Hn0; apply HP in Hn0; congruence].
    + rewrite Hnone by auto. apply HP.
  - auto.
  - intros; reflexivity.
Qed.

(* ------------------------------------------------------------------ the invariant *)

Section Preserved.
Variables (t e : N) (srcs : list nat) (ign : bool) (fh : option (list oid)) (rank : list oid)
          (ords : oid -> list nat).
Variables (a : oid) (b : bytes).

Definition okp (s : shard) : Prop :=
  in_garbage s a = StAvail /\ is_expired s e a = false /\
  (forall b', lookup a (s_blob s) = Some b' -> b' = b).
Definition okr (s : shard) : Prop :=
  s_frd s = false /\ (s_deg s = false -> has a (s_meta s) = true -> has a (s_blob s) = true).
Definition PInv (st : list shard) : Prop :=
  (forall j s, nth_error st j = Some s -> okp s) /\
  (forall j s, is_src srcs j = false -> nth_error st j = Some s -> okr s).
Definition QObj (a' : oid) (r' : mrec) (b' : bytes) : Prop :=
  (forall t', mk r' = KTS t' -> t' <> a) /\ (a' = a -> b' = b /\ rec_expired e r' = false).

Lemma okp_status : forall s e', okp s -> e' = e \/ e' = 0 -> obj_status s e' a = StAvail.
Proof.
  intros s e' (G1 & G2 & _) He. unfold obj_status.
  assert (Hx : is_expired s e' a = false).
  { destruct He as [->| ->]; auto. unfold is_expired. destruct (lookup a (s_meta s)) as [r|]; auto.
    unfold rec_expired. destruct (mexp r); auto. apply N.ltb_ge. lia. }
  rewrite Hx, G1. reflexivity.
Qed.

Lemma okp_evolves : forall s s', evolves s s' -> okp s -> okp s'.
Proof.
  intros s s' (E1 & E2 & E3 & E4 & E5) (G1 & G2 & G3). unfold okp, in_garbage, tombstoned, is_expired in *.
  rewrite E1, E2, E3. auto.
Qed.
Lemma okr_evolves : forall s s', evolves s s' -> okr s -> okr s'.
Proof.
  intros s s' (E1 & E2 & E3 & E4 & E5) (G1 & G2). unfold okr. rewrite E1, E3, E4. split; auto.
  intros Hd. apply G2. destruct (s_deg s); auto. rewrite E5 in Hd; auto.
Qed.

Lemma blob_set_coh : forall a' b' bl, (a' = a -> b' = b) ->
  (forall b0, lookup a bl = Some b0 -> b0 = b) -> forall b0, lookup a (set a' b' bl) = Some b0 -> b0 = b.
Proof.
  intros a' b' bl Hq Hc b0 Hl. destruct (N.eq_dec a a') as [E|E].
  - subst a'. rewrite lookup_set_eq in Hl. inversion Hl; subst. apply Hq; auto.
  - rewrite lookup_set_neq in Hl by auto. auto.
Qed.

Lemma okp_trans : forall a' r' b' s s1, trans e a' r' b' s s1 -> QObj a' r' b' -> okp s -> okp s1.
Proof.
  intros a' r' b' s s1 Ht [Q1 Q2] (G1 & G2 & G3).
  assert (Hq : a' = a -> b' = b) by (intros E; apply Q2; auto).
  destruct Ht as [-> | Hd -> | Hd Hm -> | g Hd -> Hg | Hd -> Hm]; unfold okp in *; auto.
  - split; [exact G1|]. split; [exact G2|]. cbn [s_meta s_garb s_blob s_deg s_frd s_ro with_blob]. apply blob_set_coh; auto.
  - split; [exact G1|]. split; [exact G2|]. cbn [s_meta s_garb s_blob s_deg s_frd s_ro with_blob]. apply blob_set_coh; auto.
  - split; [|split].
    + unfold in_garbage in G1. rewrite tombstoned_l in G1.
      destruct (tomb_l (s_meta s) a) eqn:Ht; try discriminate.
      assert (Hts : tomb_l (set a' r' (s_meta s)) a = false) by (apply tomb_set; auto).
      unfold in_garbage. rewrite tombstoned_l. cbn [s_meta s_garb]. rewrite Hts.
      destruct Hg as [-> | (t' & Hk & ->)]; auto.
      rewrite lookup_set_neq; auto. intro; subst. eapply Q1; eauto.
    + unfold is_expired in *. cbn [s_meta s_garb s_blob s_deg s_frd s_ro with_blob]. destruct (N.eq_dec a a') as [E|E].
      * subst a'. rewrite lookup_set_eq. apply Q2; auto.
      * rewrite lookup_set_neq by auto. exact G2.
    + cbn [s_meta s_garb s_blob s_deg s_frd s_ro with_blob]. apply blob_set_coh; auto.
  - split; [exact G1|]. split; [exact G2|]. cbn [s_meta s_garb s_blob s_deg s_frd s_ro with_blob]. intros b0 Hl. destruct (N.eq_dec a a') as [E|E].
    + subst a'. rewrite lookup_remove_eq in Hl. discriminate.
    + rewrite lookup_remove_neq in Hl by auto. auto.
Qed.

Lemma okr_trans : forall a' r' b' s s1, trans e a' r' b' s s1 -> okp s -> okr s -> okr s1.
Proof.
  intros a' r' b' s s1 Ht Hp (G1 & G2).
  destruct Ht as [-> | Hd -> | Hd Hm -> | g Hd -> Hg | Hd -> Hm]; unfold okr in *; cbn [s_meta s_garb s_blob s_deg s_frd s_ro with_blob]; auto.
  - split; auto. intros; congruence.
  - split; auto. intros _ Hh. apply has_set. auto.
  - split; auto. intros _ Hh. destruct (N.eq_dec a a') as [E|E].
    + subst a'. apply has_set_eq.
    + apply has_set. apply G2; auto. unfold has in *. rewrite lookup_set_neq in Hh by auto. exact Hh.
  - split; auto. intros _ Hh. destruct (N.eq_dec a a') as [E|E].
    + subst a'. exfalso. apply Hm. unfold meta_exists. rewrite (okp_status s 0 Hp (or_intror eq_refl)). rewrite Hh. reflexivity.
    + unfold has. rewrite lookup_remove_neq by auto. apply G2; auto.
Qed.

Lemma PInv_step : forall j a' r' b' st, is_src srcs j = false -> PInv st -> QObj a' r' b' ->
  PInv (snd (put_to_shard t e j a' r' b' st)).
Proof.
  intros j a' r' b' st Hj [HP1 HP2] HQ.
  destruct (put_to_shard t e j a' r' b' st) as [res st'] eqn:Hp. simpl.
  destruct (put_to_shard_step _ _ _ _ _ _ _ _ _ Hp) as (Ho & Hnone & Hsome).
  split.
  - intros i s' Hs'. destruct (Nat.eq_dec i j) as [->|Hn]; [|rewrite Ho in Hs' by auto; eauto].
    destruct (nth_error st j) as [s0|] eqn:Hs0.
    + destruct (Hsome s0 eq_refl) as (s1 & s2 & Hs2 & Ht & Hev & _). rewrite Hs' in Hs2. inversion Hs2; subst.
      eapply okp_evolves; eauto. eapply okp_trans; eauto.
    + rewrite Hnone in Hs' by auto. congruence.
  - intros i s' Hi Hs'. destruct (Nat.eq_dec i j) as [->|Hn]; [|rewrite Ho in Hs' by auto; eauto].
    destruct (nth_error st j) as [s0|] eqn:Hs0.
    + destruct (Hsome s0 eq_refl) as (s1 & s2 & Hs2 & Ht & Hev & _). rewrite Hs' in Hs2. inversion Hs2; subst.
      eapply okr_evolves; eauto. eapply okr_trans; eauto.
    + rewrite Hnone in Hs' by auto. congruence.
Qed.

Lemma PInv_src : forall st i s a' r' b' m, PInv st -> is_src srcs i = true -> nth_error st i = Some s ->
  s_deg s = false -> sh_get s e a' false = (SFound b', m) -> lookup a' (s_meta s) = Some r' -> QObj a' r' b'.
Proof.
  intros st i s a' r' b' m [HP1 _] Hi Hs Hd Hg Hl. destruct (HP1 i s Hs) as (G1 & G2 & G3).
  destruct (sh_get_found_nondeg _ _ _ _ _ Hd Hg) as (Hm & Hb & _). split.
  - intros t' Hk E. subst t'. unfold in_garbage in G1.
    assert (Ht : tombstoned s a = true).
    { unfold tombstoned. apply existsb_exists. exists (a', r'). split; [apply lookup_In; auto|]. simpl. rewrite Hk. apply N.eqb_refl. }
    rewrite Ht in G1. discriminate.
  - intros ->. split; [apply G3; auto|]. unfold is_expired in G2. rewrite Hl in G2. exact G2.
Qed.

Lemma holdsb_evolves : forall s s', evolves s s' -> holdsb s a b = true -> holdsb s' a b = true.
Proof.
  intros s s' (E1 & E2 & E3 & E4 & E5) H. unfold holdsb, blob_is in *. rewrite E1, E3, E4.
  apply andb_prop in H. destruct H as [H1 H2]. rewrite H1. simpl.
  destruct (s_deg s) eqn:Hd; [rewrite E5; auto|]. simpl in H2. rewrite H2. apply orb_true_r.
Qed.

Lemma holdsb_trans : forall a' r' b' s s1, trans e a' r' b' s s1 -> QObj a' r' b' -> okp s ->
  holdsb s a b = true -> holdsb s1 a b = true.
Proof.
  intros a' r' b' s s1 Ht [Q1 Q2] Hp H.
  assert (Hq : a' = a -> b' = b) by (intros E; apply Q2; auto).
  unfold holdsb in *. apply andb_prop in H. destruct H as [H H3]. apply andb_prop in H. destruct H as [H1 H2].
  apply blob_is_inv in H1.
  assert (Hset : blob_is (with_blob s (set a' b' (s_blob s))) a b = true).
  { apply blob_is_true. cbn [s_meta s_garb s_blob s_deg s_frd s_ro with_blob andb orb negb]. destruct (N.eq_dec a a') as [E|E].
    - subst a'. rewrite lookup_set_eq. f_equal. apply Hq; auto.
    - rewrite lookup_set_neq by auto. exact H1. }
  destruct Ht as [-> | Hd -> | Hd Hm -> | g Hd -> Hg | Hd -> Hm].
  - rewrite (blob_is_true _ _ _ H1), H2, H3. reflexivity.
  - rewrite Hset. cbn [s_meta s_garb s_blob s_deg s_frd s_ro with_blob andb orb negb]. rewrite H2, H3. reflexivity.
  - rewrite Hset. cbn [s_meta s_garb s_blob s_deg s_frd s_ro with_blob andb orb negb]. rewrite H2, H3. reflexivity.
  - unfold blob_is in *. cbn [s_meta s_garb s_blob s_deg s_frd s_ro with_blob] in *. rewrite Hset. cbn [s_meta s_garb s_blob s_deg s_frd s_ro with_blob andb orb negb]. rewrite H2. cbn [s_meta s_garb s_blob s_deg s_frd s_ro with_blob andb orb negb].
    rewrite Hd in *. cbn [s_meta s_garb s_blob s_deg s_frd s_ro with_blob] in *. apply has_set. exact H3.
  - rewrite Hd in H3. cbn [orb] in H3. destruct (N.eq_dec a a') as [E|E].
    + subst a'. exfalso. apply Hm. unfold meta_exists. rewrite (okp_status s 0 Hp (or_intror eq_refl)). rewrite H3. reflexivity.
    + unfold blob_is. cbn [s_meta s_garb s_blob s_deg s_frd s_ro with_blob andb orb negb]. rewrite lookup_remove_neq by auto. rewrite H1, N.eqb_refl. cbn [s_meta s_garb s_blob s_deg s_frd s_ro with_blob andb orb negb]. rewrite H2. cbn [s_meta s_garb s_blob s_deg s_frd s_ro with_blob andb orb negb].
      rewrite Hd. cbn [s_meta s_garb s_blob s_deg s_frd s_ro with_blob andb orb negb]. exact H3.
Qed.

Theorem preserved_partial : forall st x' i s m ord,
  evacuate t e srcs ign fh rank ords st = (EvOk, x') ->
  In i srcs -> nth_error st i = Some s -> sh_get s e a false = (SFound b, m) -> In a rank ->
  c19_good st e srcs a = true ->
  Permutation ord (remaining srcs (length st)) ->
  In a (ev_handed x') \/ fst (engine_get t e a ord (ev_st x')) = GFound b.
Proof.
  intros st x' i s m ord Hev Hi Hs Hg Hr Hgood Hperm.
  pose proof (evacuate_ok_nondeg _ _ _ _ _ _ _ _ _ _ _ Hev Hi Hs) as Hd.
  destruct (sh_get_found_nondeg _ _ _ _ _ Hd Hg) as (Hm & Hb & Hf).
  (* the class gives the invariant *)
  unfold c19_good in Hgood. apply andb_prop in Hgood. destruct Hgood as [Hgood Hserve].
  apply andb_prop in Hgood. destruct Hgood as [Hplain Hcoh].
  rewrite forallb_forall in Hplain, Hserve.
  assert (HP : PInv st).
  { split.
    - intros j s0 Hs0. specialize (Hplain s0 (nth_error_In _ _ Hs0)). unfold plain_ok in Hplain.
      apply andb_prop in Hplain. destruct Hplain as [P1 P2]. split; [|split].
      + destruct (in_garbage s0 a); simpl in P1; try discriminate; auto.
      + apply negb_true_iff in P2. exact P2.
      + intros b' Hl. symmetry. exact (coherent_spec st a Hcoh i s j s0 b b' Hs Hs0 Hb Hl).
    - intros j s0 Hj Hs0. specialize (Hserve s0 (in_rem_shards srcs st j s0 Hs0 Hj)). unfold serves in Hserve.
      apply andb_prop in Hserve. destruct Hserve as [S1 S2]. apply negb_true_iff in S1. split; auto.
      intros Hd0 Hh. rewrite Hd0, Hh in S2. simpl in S2. exact S2. }
  assert (Hl : listed s a = true).
  { unfold listed. rewrite Hm. destruct HP as [HP1 _]. destruct (HP1 i s Hs) as (G1 & _). rewrite G1. reflexivity. }
  pose proof (evacuate_P t e srcs ign fh rank ords PInv QObj PInv_step PInv_src st HP) as HPfin.
  rewrite Hev in HPfin. simpl in HPfin.
  destruct (moved_gen t e srcs ign fh rank ords PInv QObj PInv_step PInv_src a b (fun s' => holdsb s' a b = true))
    with (st := st) (x' := x') (i := i) (s := s) (m := m) as [Hh|Hh]; auto.
  - (* H_new *)
    intros j r st0 res st' s0 [HP1 HP2] HQ Hj Hs0 Hp Hres.
    destruct (put_to_shard_step _ _ _ _ _ _ _ _ _ Hp) as (_ & _ & Hstep).
    destruct (Hstep s0 Hs0) as (s1 & s' & Hs' & Ht & Hevv & Hok & Hex).
    exists s'. split; auto. eapply holdsb_evolves; eauto.
    destruct (HP2 j s0 Hj Hs0) as (R1 & R2). pose proof (HP1 j s0 Hs0) as Hp0. destruct Hp0 as (G1 & G2 & G3).
    destruct (trans_modes _ _ _ _ _ _ Ht) as (M1 & M2 & _).
    destruct Hres as [->| ->].
    + destruct (Hok eq_refl) as [Hdm Hbb]. unfold holdsb. rewrite (blob_is_true _ _ _ Hbb), M2, R1. simpl.
      destruct Hdm as [Hdm|Hdm]; [rewrite M1, Hdm; reflexivity | rewrite Hdm; apply orb_true_r].
    + destruct (Hex eq_refl) as [-> Hx].
      assert (Hcase : (s_deg s0 = true \/ has a (s_meta s0) = true) /\ has a (s_blob s0) = true).
      { unfold sh_exists in Hx. destruct (s_deg s0) eqn:Hd0.
        - rewrite R1 in Hx. destruct Hx as [Hx|Hx]; [discriminate|]. inversion Hx as [Hhb]. rewrite Hhb. auto.
        - unfold meta_exists in Hx. rewrite (okp_status s0 e (conj G1 (conj G2 G3)) (or_introl eq_refl)) in Hx.
          destruct Hx as [Hx|Hx]; [discriminate|]. inversion Hx as [Hhm]. rewrite Hhm. split; auto. }
      destruct Hcase as [Hdm Hhb]. unfold has in Hhb.
      destruct (lookup a (s_blob s0)) as [b0|] eqn:Hl0; try discriminate.
      assert (b0 = b) by (apply G3; reflexivity). subst b0.
      unfold holdsb. rewrite (blob_is_true _ _ _ Hl0), R1. simpl.
      destruct Hdm as [Hdm|Hdm]; rewrite Hdm; auto using orb_true_r.
  - (* H_step *)
    intros j' a' r' b' st0 j s0 [HP1 HP2] HQ Hj' Hs0 Hh.
    destruct (put_to_shard t e j' a' r' b' st0) as [res st'] eqn:Hp. simpl.
    destruct (put_to_shard_step _ _ _ _ _ _ _ _ _ Hp) as (Ho & _ & Hstep).
    destruct (Nat.eq_dec j j') as [->|Hn].
    + destruct (Hstep s0 Hs0) as (s1 & s' & Hs' & Ht & Hevv & _). exists s'. split; auto.
      eapply holdsb_evolves; eauto. eapply holdsb_trans; eauto.
    + exists s0. rewrite Ho by auto. auto.
  - right. destruct Hh as (j0 & s0 & Hj0 & Hs0 & Hhold).
    destruct HPfin as [F1 F2].
    assert (Hnd : NoDup ord).
    { eapply Permutation_NoDup; [apply Permutation_sym; eauto|]. unfold remaining. apply NoDup_filter, seq_NoDup. }
    apply (get_found_on t (ev_st x') e a ord b j0 s0); auto.
    + intros i1 s1 _ Hs1. unfold removed_on. rewrite (okp_status s1 e (F1 _ _ Hs1) (or_introl eq_refl)). reflexivity.
    + intros i1 s1 b' _ Hs1 Hl1. destruct (F1 _ _ Hs1) as (_ & _ & G3). auto.
    + eapply Permutation_in; [apply Permutation_sym; eauto|]. apply in_remaining. split; auto.
      apply nth_error_Some. intro Hnone.
      pose proof (evacuate_shape t e srcs ign fh rank ords st j0) as Hsh. rewrite Hev in Hsh. simpl in Hsh.
      assert (nth_error (ev_st x') j0 <> None) by congruence.
      apply H. apply Hsh. exact Hnone.
Qed.

End Preserved.
