(* C08: a lock that reached every shard keeps its object retrievable until it expires,
   for every history of puts (objects, locks, tombstones incl. rolled back ones), GC passes,
   epoch advances, mode flips and put failures, whatever the shard visiting orders. *)
From Coq Require Import List NArith Bool Arith Permutation Lia.
Import ListNotations.
From NV Require Import Engine.Model Engine.Spec Engine.Check Engine.Gc Engine.Check8 Engine.GetProofs.
Local Open Scope N_scope.

(* ------------------------------------------------------------------ association lists *)

Lemma lookup_set_eq {A} : forall k (v : A) l, lookup k (set k v l) = Some v.
Proof. intros; unfold set; simpl. rewrite N.eqb_refl. reflexivity. Qed.

Lemma lookup_remove_neq {A} : forall k k' (l : list (oid * A)), k <> k' -> lookup k (remove k' l) = lookup k l.
Proof.
  induction l as [|[k0 v] l IH]; intros H; simpl; auto.
  destruct (k' =? k0) eqn:E1.
  - apply N.eqb_eq in E1; subst. rewrite IH by auto. destruct (k =? k0) eqn:E2; auto.
    apply N.eqb_eq in E2. congruence.
  - simpl. rewrite IH by auto. reflexivity.
Qed.

Lemma lookup_set_neq {A} : forall k k' (v : A) l, k <> k' -> lookup k (set k' v l) = lookup k l.
Proof.
  intros. unfold set; simpl. destruct (k =? k') eqn:E; [apply N.eqb_eq in E; congruence|].
  apply lookup_remove_neq; auto.
Qed.

Lemma lookup_In {A} : forall k (v : A) l, lookup k l = Some v -> In (k, v) l.
Proof.
  induction l as [|[k0 v0] l IH]; simpl; intros H; try discriminate.
  destruct (k =? k0) eqn:E.
  - apply N.eqb_eq in E; subst. inversion H; subst. auto.
  - right; auto.
Qed.

Lemma lookup_None_not_In {A} : forall k (l : list (oid * A)), lookup k l = None -> ~ In k (map fst l).
Proof.
  induction l as [|[k0 v0] l IH]; simpl; intros H; auto.
  destruct (k =? k0) eqn:E; try discriminate. apply N.eqb_neq in E.
  intros [H1|H1]; [congruence | apply IH; auto].
Qed.

Lemma In_remove {A} : forall k (p : oid * A) l, In p (remove k l) -> In p l.
Proof.
  induction l as [|[k0 v0] l IH]; simpl; intros H; auto.
  destruct (k =? k0); [right; auto | destruct H; [left; auto | right; auto]].
Qed.

(* ------------------------------------------------------------------ tombstones on a metadata list *)

Definition tomb_l (m : list (oid * mrec)) (t : oid) : bool :=
  existsb (fun p => match mk (snd p) with KTS t' => t' =? t | _ => false end) m.

Lemma tombstoned_l : forall s t, tombstoned s t = tomb_l (s_meta s) t.
Proof. reflexivity. Qed.

Lemma tomb_remove : forall a m t, tomb_l m t = false -> tomb_l (remove a m) t = false.
Proof.
  intros a m t H. unfold tomb_l in *. destruct (existsb _ (remove a m)) eqn:E; auto.
  apply existsb_exists in E. destruct E as (p & Hin & Hp).
  assert (existsb (fun p => match mk (snd p) with KTS t' => t' =? t | _ => false end) m = true)
    by (apply existsb_exists; exists p; split; eauto using In_remove).
  congruence.
Qed.

Lemma tomb_set : forall a r m t, tomb_l m t = false ->
  (forall t', mk r = KTS t' -> t' <> t) -> tomb_l (set a r m) t = false.
Proof.
  intros a r m t H Hr. unfold set. unfold tomb_l. simpl. fold (tomb_l (remove a m) t).
  rewrite (tomb_remove a m t H). rewrite orb_false_r.
  destruct (mk r) eqn:E; auto. apply N.eqb_neq. apply Hr. reflexivity.
Qed.

(* ------------------------------------------------------------------ the protected pair *)

Section Protected.
Variables (x l : oid) (ex : option N) (b : bytes).
Hypothesis Hxl : x <> l.

Definition lockrec := MRec (KLock x) ex.

Definition alive (e : N) : Prop := match ex with Some m => e <= m | None => True end.

(* what every shard must satisfy: it stores the lock, the lock is effective, the object
   carries no mark, reads do not fail, the object's bytes (if stored) are b *)
Definition good (s : shard) : Prop :=
  lookup l (s_meta s) = Some lockrec /\ lookup l (s_garb s) = None /\ tomb_l (s_meta s) l = false /\
  lookup x (s_garb s) = None /\ tomb_l (s_meta s) x = false /\ s_frd s = false /\
  (forall b', lookup x (s_blob s) = Some b' -> b' = b).

Definition holder (s : shard) : Prop :=
  lookup x (s_blob s) = Some b /\ has x (s_meta s) = true.

Lemma good_evolves : forall s s1, evolves s s1 -> good s -> good s1.
Proof.
  intros s s1 (H1 & H2 & H3 & H4 & _) G. unfold good in *. rewrite H1, H2, H3, H4. exact G.
Qed.
Lemma holder_evolves : forall s s1, evolves s s1 -> holder s -> holder s1.
Proof. intros s s1 (H1 & H2 & H3 & H4 & _) G. unfold holder in *. rewrite H1, H3. exact G. Qed.

Lemma rec_expired_alive : forall e, alive e -> rec_expired e lockrec = false.
Proof.
  intros e H. unfold rec_expired, lockrec, alive in *. simpl. destruct ex; auto. apply N.ltb_ge. auto.
Qed.

Lemma good_in_garbage_l : forall s, good s -> in_garbage s l = StAvail.
Proof.
  intros s (G1 & G2 & G3 & _). unfold in_garbage. rewrite tombstoned_l, G3, G2. reflexivity.
Qed.

Lemma good_locked : forall s e, good s -> alive e -> locked s e x = true.
Proof.
  intros s e G Ha. pose proof (good_in_garbage_l s G) as Hg. destruct G as (G1 & _).
  unfold locked. apply existsb_exists. exists (l, lockrec). split; [apply lookup_In; auto|].
  simpl. rewrite N.eqb_refl, (rec_expired_alive e Ha), andb_false_r, Hg. reflexivity.
Qed.

Lemma good_status_x : forall s e, good s -> alive e -> obj_status s e x = StAvail.
Proof.
  intros s e G Ha. pose proof (good_locked s e G Ha) as HL. destruct G as (_ & _ & _ & G4 & G5 & _).
  unfold obj_status. rewrite HL. destruct (is_expired s e x); auto.
  unfold in_garbage. rewrite tombstoned_l, G5, G4. reflexivity.
Qed.

Lemma good_status_l : forall s e, good s -> alive e -> obj_status s e l = StAvail.
Proof.
  intros s e G Ha. pose proof (good_in_garbage_l s G) as Hg. destruct G as (G1 & _).
  unfold obj_status, is_expired. rewrite G1, (rec_expired_alive e Ha), Hg. reflexivity.
Qed.

(* ------------------------------------------------------------------ shard operations *)

(* the object / record / bytes of a put are those of the universe: x is a regular object with
   bytes b, l is the lock *)
Definition wf_put (a : oid) (r : mrec) (b' : bytes) : Prop :=
  (a = x -> b' = b /\ mk r = KReg) /\ (a = l -> r = lockrec).

(* adding a record (and possibly a garbage mark on a foreign target) keeps the pair protected *)
Lemma add_good : forall s a r g,
  good s -> a <> l -> (forall t', mk r = KTS t' -> t' <> x /\ t' <> l) ->
  lookup l g = None -> lookup x g = None ->
  let s' := Shard (s_ro s) (s_deg s) (set a r (s_meta s)) g (s_blob s) (s_frd s) (s_fwr s) (s_err s) in
  good s' /\ (holder s -> holder s') /\ (a = x -> has x (s_meta s') = true).
Proof.
  intros s a r g (G1 & G2 & G3 & G4 & G5 & G6 & G7) Hal Ht Hg1 Hg2 s'.
  unfold s', good, holder; cbn [s_meta s_garb s_blob s_frd]. split; [|split].
  - rewrite lookup_set_neq by auto. split; [exact G1|]. split; [exact Hg1|].
    split; [apply tomb_set; auto; intros t' Hk; apply Ht; auto|].
    split; [exact Hg2|]. split; [apply tomb_set; auto; intros t' Hk; apply Ht; auto|].
    split; [exact G6 | exact G7].
  - intros [Hb Hm]. split; [exact Hb|]. unfold has in *.
    destruct (N.eq_dec x a) as [->|Hn]; [rewrite lookup_set_eq | rewrite lookup_set_neq by auto]; auto.
  - intros ->. unfold has. rewrite lookup_set_eq. reflexivity.
Qed.

Lemma meta_put_good : forall s e a r b' s', good s -> alive e -> wf_put a r b' ->
  meta_put s e a r = inr s' -> good s' /\ (holder s -> holder s') /\ s_blob s' = s_blob s /\
  (a = x -> has x (s_meta s') = true).
Proof.
  intros s e a r b' s' G Ha (Wx & Wl) H. unfold meta_put in H.
  pose proof (good_status_l s e G Ha) as Hsl. pose proof (good_status_x s e G Ha) as Hsx.
  pose proof (good_locked s e G Ha) as HLx.
  assert (Hl1 : lookup l (s_meta s) = Some lockrec) by apply G.
  assert (Hg1 : lookup l (s_garb s) = None) by apply G.
  assert (Hg2 : lookup x (s_garb s) = None) by apply G.
  unfold meta_exists in H.
  destruct (obj_status s e a) eqn:Hst; try discriminate.
  - (* available *)
    destruct (has a (s_meta s)) eqn:Hhas.
    + inversion H; subst. split; [exact G|]. split; [auto|]. split; [reflexivity|]. intros ->. exact Hhas.
    + assert (Hal : a <> l) by (intros ->; unfold has in Hhas; rewrite Hl1 in Hhas; discriminate).
      destruct (mk r) as [|t|t] eqn:Hk.
      * inversion H; subst; clear H.
        destruct (add_good s a r (s_garb s) G Hal) as (A & B & C); [intros; congruence | exact Hg1 | exact Hg2 |].
        split; [exact A|]. split; [exact B|]. split; [reflexivity | exact C].
      * assert (Hax : a <> x) by (intros ->; destruct (Wx eq_refl); congruence).
        destruct (lookup t (s_meta s)) as [[[|t0|t0] e0]|] eqn:Hlt; try discriminate;
          destruct (locked s e t) eqn:HL; try discriminate; inversion H; subst; clear H;
          assert (Htx : t <> x) by (intros ->; congruence);
          assert (Htl : t <> l) by (intros ->; unfold lockrec in Hl1; congruence);
          (destruct (add_good s a r (set t MDefault (s_garb s)) G Hal) as (A & B & C);
           [intros t' Ht; rewrite Hk in Ht; inversion Ht; subst; auto | rewrite lookup_set_neq; auto | rewrite lookup_set_neq; auto |]);
          (split; [exact A|]; split; [exact B|]; split; [reflexivity | intros; congruence]).
      * assert (Hax : a <> x) by (intros ->; destruct (Wx eq_refl); congruence).
        destruct (add_good s a r (s_garb s) G Hal) as (A & B & C); [intros; congruence | exact Hg1 | exact Hg2 |].
        destruct (lookup t (s_meta s)) as [[[|t0|t0] e0]|] eqn:Hlt; try discriminate;
          destruct (status_eqb (obj_status s e t) StTS); try discriminate; inversion H; subst;
          (split; [exact A|]; split; [exact B|]; split; [reflexivity | intros; congruence]).
  - (* garbage-marked: the put proceeds *)
    assert (Hal : a <> l) by (intros ->; congruence).
    assert (Hax : a <> x) by (intros ->; congruence).
    destruct (mk r) as [|t|t] eqn:Hk.
    + inversion H; subst; clear H.
      destruct (add_good s a r (s_garb s) G Hal) as (A & B & C); [intros; congruence | exact Hg1 | exact Hg2 |].
      split; [exact A|]. split; [exact B|]. split; [reflexivity | exact C].
    + destruct (lookup t (s_meta s)) as [[[|t0|t0] e0]|] eqn:Hlt; try discriminate;
        destruct (locked s e t) eqn:HL; try discriminate; inversion H; subst; clear H;
        assert (Htx : t <> x) by (intros ->; congruence);
        assert (Htl : t <> l) by (intros ->; unfold lockrec in Hl1; congruence);
        (destruct (add_good s a r (set t MDefault (s_garb s)) G Hal) as (A & B & C);
         [intros t' Ht; rewrite Hk in Ht; inversion Ht; subst; auto | rewrite lookup_set_neq; auto | rewrite lookup_set_neq; auto |]);
        (split; [exact A|]; split; [exact B|]; split; [reflexivity | intros; congruence]).
    + destruct (add_good s a r (s_garb s) G Hal) as (A & B & C); [intros; congruence | exact Hg1 | exact Hg2 |].
      destruct (lookup t (s_meta s)) as [[[|t0|t0] e0]|] eqn:Hlt; try discriminate;
        destruct (status_eqb (obj_status s e t) StTS); try discriminate; inversion H; subst;
        (split; [exact A|]; split; [exact B|]; split; [reflexivity | intros; congruence]).
Qed.

Lemma with_blob_good : forall s bl, good s -> (forall b', lookup x bl = Some b' -> b' = b) -> good (with_blob s bl).
Proof. intros s bl (G1 & G2 & G3 & G4 & G5 & G6 & G7) H. unfold good, with_blob; cbn [s_meta s_garb s_blob s_frd]. auto 10. Qed.

Lemma set_blob_x : forall a b' bl, (a = x -> b' = b) -> (forall b'', lookup x bl = Some b'' -> b'' = b) ->
  forall b'', lookup x (set a b' bl) = Some b'' -> b'' = b.
Proof.
  intros a b' bl Ha H b'' Hl. destruct (N.eq_dec x a) as [->|Hn].
  - rewrite lookup_set_eq in Hl. inversion Hl; subst. auto.
  - rewrite lookup_set_neq in Hl by auto. auto.
Qed.

Lemma set_blob_holder : forall s a b', (a = x -> b' = b) -> holder s -> holder (with_blob s (set a b' (s_blob s))).
Proof.
  intros s a b' Ha [Hb Hm]. unfold holder, with_blob; cbn [s_meta s_blob]. split; auto.
  destruct (N.eq_dec x a) as [->|Hn]; [rewrite lookup_set_eq, Ha by auto | rewrite lookup_set_neq by auto]; auto.
Qed.

Lemma sh_put_good : forall s e a r b' s', good s -> alive e -> wf_put a r b' ->
  sh_put s e a r b' = inr s' -> good s' /\ (holder s -> holder s').
Proof.
  intros s e a r b' s' G Ha W H. unfold sh_put in H.
  destruct (s_ro s); try discriminate. destruct (s_fwr s); try discriminate.
  assert (Wb : a = x -> b' = b) by (intros E; destruct W as [W _]; destruct (W E); auto).
  assert (G1 : good (with_blob s (set a b' (s_blob s)))).
  { apply with_blob_good; auto. apply set_blob_x; auto. apply G. }
  destruct (s_deg s).
  - inversion H; subst. split; auto. apply set_blob_holder; auto.
  - destruct (meta_put (with_blob s (set a b' (s_blob s))) e a r) as [err|s2] eqn:Hm; try discriminate.
    inversion H; subst. destruct (meta_put_good _ _ _ _ _ _ G1 Ha W Hm) as (A & B & _).
    split; auto. intros Hh. apply B. apply set_blob_holder; auto.
Qed.

(* a put of x itself is never refused by the metabase of a protected shard *)
Lemma meta_put_x_ok : forall s e r, good s -> alive e -> mk r = KReg -> exists s', meta_put s e x r = inr s'.
Proof.
  intros s e r G Ha Hk. unfold meta_put, meta_exists. rewrite (good_status_x s e G Ha).
  destruct (has x (s_meta s)); [eauto|]. rewrite Hk. eauto.
Qed.

Lemma sh_put_state_good : forall s e a r b', good s -> alive e -> wf_put a r b' ->
  good (sh_put_state s e a r b') /\ (holder s -> holder (sh_put_state s e a r b')).
Proof.
  intros s e a r b' G Ha W. unfold sh_put_state.
  destruct (sh_put s e a r b') as [err|s'] eqn:Hp.
  2: { eapply sh_put_good; eauto. }
  destruct (s_ro s || s_fwr s) eqn:Hro; [auto|].
  apply orb_false_iff in Hro. destruct Hro as [Hr Hw].
  assert (Wb : a = x -> b' = b) by (intros E; destruct W as [W _]; destruct (W E); auto).
  assert (G1 : good (with_blob s (set a b' (s_blob s)))).
  { apply with_blob_good; auto. apply set_blob_x; auto. apply G. }
  assert (Hax : a <> x).
  { intros ->. unfold sh_put in Hp. rewrite Hr, Hw in Hp. destruct (s_deg s); try discriminate.
    destruct W as [W _]. destruct (W eq_refl) as [_ Hk].
    destruct (meta_put_x_ok _ e r G1 Ha Hk) as [s2 Hs2]. rewrite Hs2 in Hp. discriminate. }
  destruct (meta_exists (with_blob s (set a b' (s_blob s))) 0 a) as [[|]| | | |].
  1: { split; auto. intros; apply set_blob_holder; auto. }
  all: split; [apply with_blob_good; auto; intros b''; rewrite lookup_remove_neq by auto; apply G
              | intros [Hb Hm]; unfold holder, with_blob; cbn [s_meta s_blob]; rewrite lookup_remove_neq by auto; auto].
Qed.

Lemma sh_delete_good : forall s a s', good s -> a <> x -> a <> l -> sh_delete s a = inr s' ->
  good s' /\ (holder s -> holder s').
Proof.
  intros s a s' (G1 & G2 & G3 & G4 & G5 & G6 & G7) Hx Hl H. unfold sh_delete in H.
  destruct (s_ro s); try discriminate. destruct (s_deg s); try discriminate. inversion H; subst; clear H.
  unfold good, holder; cbn [s_meta s_garb s_blob s_frd]. rewrite !lookup_remove_neq by auto.
  split.
  - split; [exact G1|]. split; [exact G2|]. split; [apply tomb_remove; auto|].
    split; [exact G4|]. split; [apply tomb_remove; auto|]. split; [exact G6 | exact G7].
  - intros [Hb Hm]; split; auto. unfold has in *. rewrite lookup_remove_neq by auto. auto.
Qed.

Lemma delete_all_good : forall ids s, good s -> ~ In x ids -> ~ In l ids ->
  good (delete_all s ids) /\ (holder s -> holder (delete_all s ids)).
Proof.
  induction ids as [|a r IH]; intros s G Hx Hl; simpl; auto.
  destruct (sh_delete s a) as [err|s'] eqn:Hd; auto.
  assert (Hax : a <> x) by (intros ->; apply Hx; left; auto).
  assert (Hal : a <> l) by (intros ->; apply Hl; left; auto).
  destruct (sh_delete_good s a s' G Hax Hal Hd) as [A B].
  assert (Hx' : ~ In x r) by (intros H; apply Hx; right; auto).
  assert (Hl' : ~ In l r) by (intros H; apply Hl; right; auto).
  destruct (IH s' A Hx' Hl') as [C D]. split; auto.
Qed.

(* ------------------------------------------------------------------ lists of shards *)

Definition Inv (st : list shard) : Prop := Forall good st /\ Exists holder st.

Lemma Forall_upd {A} (P : A -> Prop) : forall (st : list A) i s', Forall P st -> P s' -> Forall P (upd i s' st).
Proof.
  induction st as [|y st IH]; intros i s' F G; destruct i; simpl; auto; inversion F; subst; constructor; auto.
Qed.

Lemma Exists_upd {A} (P : A -> Prop) : forall (st : list A) i s s', nth_error st i = Some s ->
  (P s -> P s') -> Exists P st -> Exists P (upd i s' st).
Proof.
  induction st as [|y st IH]; intros i s s' Hn Hh E; destruct i; simpl in *; try discriminate.
  - inversion Hn; subst. inversion E; subst; [left; auto | right; auto].
  - inversion E; subst; [left; auto | right; eapply IH; eauto].
Qed.

Lemma Inv_upd : forall st i s s', nth_error st i = Some s -> good s' -> (holder s -> holder s') ->
  Inv st -> Inv (upd i s' st).
Proof.
  intros st i s s' Hn G Hh [F E]. split; [apply Forall_upd; auto | eapply Exists_upd; eauto].
Qed.

Lemma Forall_evolves : forall st st', Forall2 evolves st st' -> Forall good st -> Forall good st'.
Proof.
  intros st st' H; induction H; intros F; [constructor|]. inversion F; subst.
  constructor; [eapply good_evolves; eauto | auto].
Qed.

Lemma Exists_evolves : forall st st', Forall2 evolves st st' -> Exists holder st -> Exists holder st'.
Proof.
  intros st st' H; induction H; intros E; inversion E; subst;
    [left; eapply holder_evolves; eauto | right; auto].
Qed.

Lemma Inv_evolves : forall st st', Forall2 evolves st st' -> Inv st -> Inv st'.
Proof. intros st st' H [F E]. split; [eapply Forall_evolves | eapply Exists_evolves]; eauto. Qed.

Lemma Inv_report : forall t i st, Inv st -> Inv (report t i st).
Proof. intros. eapply Inv_evolves; [apply report_evolves | auto]. Qed.

Lemma Inv_nth_good : forall st i s, Inv st -> nth_error st i = Some s -> good s.
Proof. intros st i s [F _] H. rewrite Forall_forall in F. eauto using nth_error_In. Qed.

(* ------------------------------------------------------------------ engine operations *)

Lemma exists_physical_inv : forall t e a ord st, Inv st -> Inv (snd (exists_physical t e a ord st)).
Proof.
  induction ord as [|i r IH]; intros st HI; simpl; auto.
  destruct (nth_error st i) as [s|]; auto.
  destruct (sh_exists s e a false) as [[|]| | | |]; simpl; auto. apply IH. apply Inv_report; auto.
Qed.

Lemma sh_exists_l : forall s e, good s -> alive e ->
  sh_exists s e l false = ExOk true \/ (s_deg s = true /\ exists v, sh_exists s e l false = ExOk v).
Proof.
  intros s e G Ha. unfold sh_exists. destruct (s_deg s).
  - right. split; auto. destruct G as (_ & _ & _ & _ & _ & G6 & _). rewrite G6. eauto.
  - left. unfold meta_exists. rewrite (good_status_l s e G Ha). unfold has.
    destruct G as (G1 & _). rewrite G1. reflexivity.
Qed.

Lemma sh_put_deg_not_fatal : forall s e a r b' err, s_deg s = true -> sh_put s e a r b' = inl err -> pe_fatal err = false.
Proof.
  intros s e a r b' err Hd H. unfold sh_put in H. destruct (s_ro s); [inversion H; auto|].
  destruct (s_fwr s); [inversion H; auto|]. rewrite Hd in H. discriminate.
Qed.

Definition not_fatal (p : ptres) : Prop := match p with PtErr q => pe_fatal q = false | _ => True end.

Lemma put_to_shard_inv : forall t e i a r b' st, Inv st -> alive e -> wf_put a r b' ->
  Inv (snd (put_to_shard t e i a r b' st)) /\ (a = l -> not_fatal (fst (put_to_shard t e i a r b' st))).
Proof.
  intros t e i a r b' st HI Ha W. unfold put_to_shard.
  destruct (nth_error st i) as [s|] eqn:Hs; [|simpl; auto].
  pose proof (Inv_nth_good _ _ _ HI Hs) as G.
  destruct (sh_exists s e a false) as [[|]| | | |] eqn:Hex; simpl; auto.
  - (* not there: shard put *)
    destruct (sh_put s e a r b') as [err|s'] eqn:Hp; simpl.
    + destruct (sh_put_state_good s e a r b' G Ha W) as [A B].
      assert (HI1 : Inv (upd i (sh_put_state s e a r b') st)) by (eapply Inv_upd; eauto).
      split; [destruct (pe_logic err); auto using Inv_report|].
      intros ->. destruct (sh_exists_l s e G Ha) as [H1|[Hd _]]; [congruence|].
      eapply sh_put_deg_not_fatal; eauto.
    + destruct (sh_put_good s e a r b' s' G Ha W Hp) as [A B]. split; auto. eapply Inv_upd; eauto.
  - split; auto. intros ->. destruct (sh_exists_l s e G Ha) as [H1|[_ [v H1]]]; congruence.
Qed.

Lemma put_regular_inv : forall t e a r b' ord st last, Inv st -> alive e -> wf_put a r b' ->
  Inv (snd (put_regular t e a r b' ord st last)).
Proof.
  induction ord as [|i rest IH]; intros st last HI Ha W; simpl; auto.
  destruct (put_to_shard_inv t e i a r b' st HI Ha W) as [A _].
  destruct (put_to_shard t e i a r b' st) as [[| |p] st']; simpl in *; auto.
Qed.

Lemma bcast_inv : forall t e a r b' ord st gd last, Inv st -> alive e -> wf_put a r b' ->
  Inv (fst (fst (fst (bcast t e a r b' ord st gd last)))) /\
  (a = l -> snd (bcast t e a r b' ord st gd last) = false).
Proof.
  induction ord as [|i rest IH]; intros st gd last HI Ha W; simpl; auto.
  destruct (put_to_shard_inv t e i a r b' st HI Ha W) as [A B].
  destruct (put_to_shard t e i a r b' st) as [[| |p] st'] eqn:Hp; simpl in *; auto.
  destruct (pe_fatal p) eqn:Hf; simpl; auto.
Qed.

Lemma rollback_inv : forall a gd st, a <> x -> a <> l -> Inv st -> Inv (rollback a gd st).
Proof.
  induction gd as [|i r IH]; intros st Hx Hl HI; simpl; auto.
  destruct (nth_error st i) as [s|] eqn:Hs; auto.
  destruct (sh_delete s a) as [err|s'] eqn:Hd; auto.
  destruct (sh_delete_good s a s' (Inv_nth_good _ _ _ HI Hs) Hx Hl Hd) as [A B].
  apply IH; auto. eapply Inv_upd; eauto.
Qed.

Lemma broadcast_inv : forall t e a r b' ord st, Inv st -> alive e -> wf_put a r b' -> a <> x ->
  Inv (snd (broadcast t e a r b' ord st)).
Proof.
  intros t e a r b' ord st HI Ha W Hx. unfold broadcast.
  destruct (bcast_inv t e a r b' ord st [] None HI Ha W) as [A B].
  destruct (bcast t e a r b' ord st [] None) as [[[st1 gd] last] fatal]. simpl in *.
  assert (HI2 : Inv (if fatal then rollback a gd st1 else st1)).
  { destruct fatal; auto. apply rollback_inv; auto. intros E. specialize (B E). discriminate. }
  destruct (fatal || match gd with [] => true | _ => false end); simpl; auto.
Qed.

Lemma engine_put_inv : forall t e a r b' ox op ob st, Inv st -> alive e -> wf_put a r b' ->
  Inv (snd (engine_put t e a r b' ox op ob st)).
Proof.
  intros t e a r b' ox op ob st HI Ha W. unfold engine_put.
  pose proof (exists_physical_inv t e a ox st HI) as H1.
  destruct (exists_physical t e a ox st) as [[| | |] st1]; simpl in *; auto.
  destruct (is_regular r) eqn:Hr.
  - destruct op as [|n op']; [simpl; auto|]. cbv beta iota. apply put_regular_inv; auto.
  - apply broadcast_inv; auto. intros ->. destruct W as [W _]. destruct (W eq_refl) as [_ Hk].
    unfold is_regular in Hr. rewrite Hk in Hr. discriminate.
Qed.

Lemma engine_get_evolves : forall t e a ord st, Forall2 evolves st (snd (engine_get t e a ord st)).
Proof.
  intros. unfold engine_get. pose proof (scan1_evolves t e a ord st false None) as H.
  destruct (scan1 t e a ord st false None) as [[[r st1] hd] wm]. simpl in H.
  destruct r; simpl; auto.
  destruct hd; [|destruct wm as [[j lg]|]]; simpl; auto;
    destruct (scan2 e a ord st1); simpl; auto;
    try destruct wm as [[j [|]]|]; try destruct lg; simpl; auto;
    eapply Forall2_trans; eauto using evolves_trans, report_evolves.
Qed.

Lemma engine_head_evolves : forall t e a ord st, Forall2 evolves st (snd (engine_head t e a ord st)).
Proof.
  induction ord as [|i r IH]; intros st; simpl; [apply Forall2_refl, evolves_refl|].
  destruct (nth_error st i) as [s|]; auto.
  destruct (sh_head s e a); simpl; auto; try (apply Forall2_refl, evolves_refl).
  eapply Forall2_trans; [apply evolves_trans | apply report_evolves | apply IH].
Qed.

Lemma engine_drop_inv : forall t e a ord st, a <> x -> a <> l -> Inv st ->
  Inv (snd (engine_delete t e DDrop a ord st)).
Proof.
  induction ord as [|i r IH]; intros st Hx Hl HI; simpl; auto.
  destruct (nth_error st i) as [s|] eqn:Hs; auto.
  destruct (sh_exists s e a true) as [[|]| | | |]; simpl; auto.
  - destruct (sh_delete s a) as [err|s'] eqn:Hd; simpl; auto.
    destruct (sh_delete_good s a s' (Inv_nth_good _ _ _ HI Hs) Hx Hl Hd) as [A B].
    apply IH; auto. eapply Inv_upd; eauto.
  - apply IH; auto. apply Inv_report; auto.
Qed.

(* ------------------------------------------------------------------ GC *)

Lemma cand_spec : forall s ge rank id, In id (expired_candidates s ge rank) ->
  exists r x', lookup id (s_meta s) = Some r /\ mexp r = Some x' /\ x' < ge /\ locked s ge id = false.
Proof.
  intros s ge rank id H. unfold expired_candidates in H. apply in_flat_map in H.
  destruct H as (xe & Hxe & Hf). apply filter_In in Hf. destruct Hf as [_ Hf].
  destruct (lookup id (s_meta s)) as [r|]; try discriminate.
  destruct (mexp r) as [x'|] eqn:Hm; try discriminate.
  apply andb_prop in Hf. destruct Hf as [H1 H2]. apply N.eqb_eq in H1. subst xe.
  apply negb_true_iff in H2. exists r, x'. repeat split; auto.
  apply in_map_iff in Hxe. destruct Hxe as (k & Hk & Hin). apply in_seq in Hin. lia.
Qed.

Lemma cand_not_x : forall s ge rank, good s -> alive ge -> ~ In x (expired_candidates s ge rank).
Proof.
  intros s ge rank G Ha H. apply cand_spec in H. destruct H as (r & x' & _ & _ & _ & HL).
  rewrite (good_locked s ge G Ha) in HL. discriminate.
Qed.

Lemma cand_not_l : forall s ge rank, good s -> alive ge -> ~ In l (expired_candidates s ge rank).
Proof.
  intros s ge rank G Ha H. apply cand_spec in H. destruct H as (r & x' & Hl & Hm & Hlt & _).
  destruct G as (G1 & _). rewrite G1 in Hl. inversion Hl; subst r. unfold lockrec in Hm. simpl in Hm.
  unfold alive in Ha. rewrite Hm in Ha. lia.
Qed.

Lemma process_expired_inv : forall t e outc ords addrs st st',
  (forall a, In a addrs -> a <> x /\ a <> l) -> Inv st ->
  process_expired t e outc ords addrs st = Some st' -> Inv st'.
Proof.
  induction addrs as [|a r IH]; intros st st' Hn HI H; simpl in H.
  - inversion H; subst; auto.
  - destruct (lock_outcome_ok st e a (outc a)); try discriminate.
    assert (Hr : forall a0, In a0 r -> a0 <> x /\ a0 <> l) by (intros; apply Hn; right; auto).
    destruct (outc a =? 1); [eapply IH; eauto|].
    eapply IH; [exact Hr| |exact H]. destruct (Hn a (or_introl eq_refl)). apply engine_drop_inv; auto.
Qed.

Lemma gc_garbage_inv : forall i st, Inv st -> Inv (gc_garbage i st).
Proof.
  intros i st HI. unfold gc_garbage. destruct (nth_error st i) as [s|] eqn:Hs; auto.
  pose proof (Inv_nth_good _ _ _ HI Hs) as G. unfold sh_gc_garbage.
  destruct (s_ro s || s_deg s).
  - eapply Inv_upd; eauto.
  - destruct (delete_all_good (map fst (s_garb s)) s G) as [A B];
      try (apply lookup_None_not_In; apply G). eapply Inv_upd; eauto.
Qed.

Lemma gc_pass_inv : forall t e i rank outc ords st gcs st' gcs',
  Inv st -> Forall (fun g => alive (g_cur g)) gcs ->
  gc_pass t e i rank outc ords st gcs = Some (st', gcs') ->
  Inv st' /\ Forall (fun g => alive (g_cur g)) gcs'.
Proof.
  intros t e i rank outc ords st gcs st' gcs' HI HG H. unfold gc_pass in H.
  destruct (nth_error st i) as [s|] eqn:Hs; [|inversion H; subst; auto].
  destruct (nth_error gcs i) as [g|] eqn:Hg; [|inversion H; subst; auto].
  destruct (s_ro s || s_deg s); [inversion H; subst; auto|].
  pose proof (Inv_nth_good _ _ _ HI Hs) as G.
  assert (Hag : alive (g_cur g)) by (rewrite Forall_forall in HG; eauto using nth_error_In).
  assert (HG1 : Forall (fun g0 => alive (g_cur g0)) (upd i (set_done g) gcs)) by (apply Forall_upd; auto).
  destruct (g_done g =? g_cur g).
  { inversion H; subst. split; auto using gc_garbage_inv. }
  destruct (g_cur g <? g_done g).
  { inversion H; subst. split; auto using gc_garbage_inv. }
  set (cands := expired_candidates s (g_cur g) rank) in *.
  destruct (process_expired t e outc ords (filter (fun a => negb (is_ts s a)) cands)
              (upd i (delete_all s (filter (is_ts s) cands)) st)) as [st2|] eqn:Hpe; try discriminate.
  inversion H; subst; clear H.
  assert (Hnx : ~ In x cands) by (apply cand_not_x; auto).
  assert (Hnl : ~ In l cands) by (apply cand_not_l; auto).
  split.
  - apply gc_garbage_inv. eapply process_expired_inv; [| |exact Hpe].
    + intros a Ha. apply filter_In in Ha. destruct Ha as [Ha _]. split; intros ->; contradiction.
    + destruct (delete_all_good (filter (is_ts s) cands) s G) as [A B].
      * intros Hin. apply filter_In in Hin. tauto.
      * intros Hin. apply filter_In in Hin. tauto.
      * eapply Inv_upd; eauto.
  - destruct cands; auto.
Qed.

(* ------------------------------------------------------------------ histories *)

Variable u : universe.
Hypothesis Hu : forall i, wf_put (oid_of i) (rec_of u i) (bytes_of i).

Definition op_ok (o : eop8) : Prop :=
  match o with
  | O8 (ODel _ _ _) | O8 (ODrop _ _) | O8 OAddShard => False
  | O8 (OFault _ frd _) => frd = false
  | O8 (OEpoch e') | ONewEpoch e' => alive e'
  | _ => True
  end.

Definition Inv8 (s : state8) : Prop :=
  Inv (shards (s8_en s)) /\ alive (epoch (s8_en s)) /\ Forall (fun g => alive (g_cur g)) (s8_gc s).

Lemma good_same_data : forall s s', s_meta s' = s_meta s -> s_garb s' = s_garb s -> s_blob s' = s_blob s ->
  s_frd s' = false -> good s -> good s' /\ (holder s -> holder s').
Proof.
  intros s s' H1 H2 H3 H4 G. unfold good, holder in *. rewrite H1, H2, H3, H4.
  destruct G as (G1 & G2 & G3 & G4 & G5 & G6 & G7). auto 10.
Qed.

Lemma step8_inv : forall rank s o c tg s', Inv8 s -> op_ok o ->
  step8 u rank s o = Some (c, tg, s') -> Inv8 s'.
Proof.
  intros rank [en gcs] o c tg s' (HI & Ha & HG) Hok H. simpl in *.
  destruct o as [o'|e'|i outc ords]; simpl in H.
  - destruct en as [st e t]. simpl in *.
    destruct o' as [i ox op ob|i ord|i ord|i red ord|i ord|sh ro deg reset|sh frd fwr|e'|sh|]; simpl in *;
      try contradiction.
    + pose proof (engine_put_inv t e (oid_of i) (rec_of u i) (bytes_of i) ox op ob st HI Ha (Hu i)) as HP.
      destruct (engine_put t e (oid_of i) (rec_of u i) (bytes_of i) ox op ob st) as [r st1].
      inversion H; subst. unfold Inv8; simpl in *. auto.
    + pose proof (engine_get_evolves t e (oid_of i) ord st) as HE.
      destruct (engine_get t e (oid_of i) ord st) as [g st1]. destruct (code_of_gres g).
      inversion H; subst. simpl in *. split; [eapply Inv_evolves; eauto | auto].
    + pose proof (engine_head_evolves t e (oid_of i) ord st) as HE.
      destruct (engine_head t e (oid_of i) ord st) as [g st1]. destruct (code_of_gres g).
      inversion H; subst. simpl in *. split; [eapply Inv_evolves; eauto | auto].
    + inversion H; subst. unfold Inv8; simpl. split; [|auto]. unfold engine_set_mode.
      destruct (nth_error st sh) as [s0|] eqn:Hs; [|exact HI].
      pose proof (Inv_nth_good _ _ _ HI Hs) as G.
      assert (G6 : s_frd s0 = false) by apply G.
      destruct reset.
      * destruct (good_same_data s0 (set_mode (Shard (s_ro s0) (s_deg s0) (s_meta s0) (s_garb s0) (s_blob s0) (s_frd s0) (s_fwr s0) 0) ro deg)
                    eq_refl eq_refl eq_refl G6 G) as [A B].
        eapply Inv_upd; eauto.
      * destruct (good_same_data s0 (set_mode s0 ro deg) eq_refl eq_refl eq_refl G6 G) as [A B].
        eapply Inv_upd; eauto.
    + subst frd. inversion H; subst. unfold Inv8; simpl. split; [|auto]. unfold set_fault.
      destruct (nth_error st sh) as [s0|] eqn:Hs; [|exact HI].
      pose proof (Inv_nth_good _ _ _ HI Hs) as G.
      destruct (good_same_data s0 (Shard (s_ro s0) (s_deg s0) (s_meta s0) (s_garb s0) (s_blob s0) false fwr (s_err s0))
                  eq_refl eq_refl eq_refl eq_refl G) as [A B].
      eapply Inv_upd; eauto.
    + inversion H; subst. unfold Inv8; simpl. auto.
    + inversion H; subst. unfold Inv8; simpl. split; auto. apply gc_garbage_inv; auto.
  - inversion H; subst. simpl. split; [auto|]. split; [auto|].
    clear - Hok. induction gcs; simpl; constructor; auto.
  - destruct (gc_pass (thr en) (epoch en) i rank (nthN outc) (nthL ords) (shards en) gcs) as [[st' gcs']|] eqn:Hgc;
      try discriminate.
    inversion H; subst. destruct (gc_pass_inv _ _ _ _ _ _ _ _ _ _ HI HG Hgc). unfold Inv8; simpl. auto.
Qed.

(* running a history *)
Fixpoint run8 (rank : list oid) (s : state8) (ops : list eop8) : option state8 :=
  match ops with
  | [] => Some s
  | o :: r => match step8 u rank s o with
              | Some (_, _, s') => run8 rank s' r
              | None => None
              end
  end.

Lemma run8_inv : forall rank ops s s', Inv8 s -> Forall op_ok ops -> run8 rank s ops = Some s' -> Inv8 s'.
Proof.
  induction ops as [|o r IH]; intros s s' HI Hok H; simpl in H.
  - inversion H; subst; auto.
  - inversion Hok; subst. destruct (step8 u rank s o) as [[[c tg] s1]|] eqn:Hs; try discriminate.
    apply (IH s1 s'); auto. eapply step8_inv; eauto.
Qed.

(* the protected object is retrievable in every state satisfying the invariant *)
Lemma inv_get : forall t st e ord, Inv st -> alive e -> Permutation ord (seq 0 (length st)) ->
  fst (engine_get t e x ord st) = GFound b.
Proof.
  intros t st e ord [F E] Ha Hp. apply error_does_not_hide; auto.
  - (* coherent *)
    unfold coherent. apply forallb_forall. intros s Hs. apply forallb_forall. intros s' Hs'.
    rewrite Forall_forall in F.
    destruct (lookup x (s_blob s)) as [b1|] eqn:H1; auto. destruct (lookup x (s_blob s')) as [b2|] eqn:H2; auto.
    destruct (F s Hs) as (_ & _ & _ & _ & _ & _ & G7). destruct (F s' Hs') as (_ & _ & _ & _ & _ & _ & G7').
    rewrite (G7 _ H1), (G7' _ H2). apply N.eqb_refl.
  - (* not removed *)
    unfold removedb. destruct (existsb (fun s => removed_on s e x) st) eqn:Hr; auto.
    apply existsb_exists in Hr. destruct Hr as (s & Hs & Hr). rewrite Forall_forall in F.
    unfold removed_on in Hr. rewrite (good_status_x s e (F s Hs) Ha) in Hr. discriminate.
  - (* stored on a readable shard *)
    unfold stored_readable. apply existsb_exists. apply Exists_exists in E. destruct E as (s & Hs & Hb & Hm).
    exists s. split; auto. rewrite Forall_forall in F. destruct (F s Hs) as (_ & _ & _ & _ & _ & G6 & _).
    unfold holdsb. rewrite (blob_is_true _ _ _ Hb), G6, Hm. simpl. apply orb_true_r.
Qed.

Theorem locked_retrievable_partial : forall rank ops s s' ord,
  Inv8 s -> Forall op_ok ops -> run8 rank s ops = Some s' ->
  Permutation ord (seq 0 (length (shards (s8_en s')))) ->
  fst (engine_get (thr (s8_en s')) (epoch (s8_en s')) x ord (shards (s8_en s'))) = GFound b.
Proof.
  intros rank ops s s' ord HI Hok Hr Hp. destruct (run8_inv rank ops s s' HI Hok Hr) as (A & B & _).
  apply inv_get; auto.
Qed.

End Protected.

(* the boolean premise evaluated by the check (Engine/Check8.v c08_inv) implies the invariant *)
Lemma c08_inv_Inv : forall st x l ex b, c08_inv st x l ex b = true -> Inv x l ex b st.
Proof.
  intros st x l ex b H. unfold c08_inv in H.
  apply andb_prop in H. destruct H as [H Hsb]. apply andb_prop in H. destruct H as [H Hrf].
  apply andb_prop in H. destruct H as [H Hh]. apply andb_prop in H. destruct H as [Hle Hum].
  unfold lock_everywhere, unmarked, held, no_read_faults, same_bytes in *.
  rewrite forallb_forall in Hle, Hum, Hrf, Hsb. split.
  - apply Forall_forall. intros s Hs.
    specialize (Hle s Hs). specialize (Hum s Hs). specialize (Hrf s Hs). specialize (Hsb s Hs).
    apply andb_prop in Hle. destruct Hle as [Hle Htl]. apply andb_prop in Hle. destruct Hle as [Hlr Hgl].
    apply andb_prop in Hum. destruct Hum as [Hgx Htx].
    apply negb_true_iff in Htl, Hgl, Hgx, Htx, Hrf. unfold has in Hgl, Hgx.
    unfold good. repeat split.
    + unfold lockrec. destruct (lookup l (s_meta s)) as [[[|t|t] ex']|]; try discriminate.
      apply andb_prop in Hlr. destruct Hlr as [Ht He]. apply N.eqb_eq in Ht. subst t.
      destruct ex as [a|], ex' as [c|]; try discriminate; auto. apply N.eqb_eq in He. subst; auto.
    + destruct (lookup l (s_garb s)); auto; discriminate.
    + exact Htl.
    + destruct (lookup x (s_garb s)); auto; discriminate.
    + exact Htx.
    + exact Hrf.
    + intros b' Hb. rewrite Hb in Hsb. apply N.eqb_eq in Hsb. auto.
  - apply existsb_exists in Hh. destruct Hh as (s & Hs & Hb). apply Exists_exists. exists s. split; auto.
    apply andb_prop in Hb. destruct Hb as [Hb Hm]. split; auto. apply blob_is_inv; auto.
Qed.
