(* Engine family: reference predicates (right-hand sides of the C20 theorems), all
   defined from shard contents and modes only -- no scan order, no engine code. *)
From Coq Require Import List NArith Bool.
Import ListNotations.
From NV Require Import Engine.Model.
Local Open Scope N_scope.

(* the shard's metadata says "a is removed": tombstoned, marked for GC (default mark) or
   expired -- whatever the shard's mode is (the metadata of a degraded shard still
   records the removal although the engine cannot read it) *)
Definition removed_on (s : shard) (e : N) (a : oid) : bool :=
  negb (status_eqb (obj_status s e a) StAvail).
Definition removedb (st : list shard) (e : N) (a : oid) : bool :=
  existsb (fun s => removed_on s e a) st.

(* shard s is readable and holds a with bytes b: the blob is there, reads do not fail,
   and the shard can serve it (degraded: blob only; otherwise metadata is present) *)
Definition blob_is (s : shard) (a : oid) (b : bytes) : bool :=
  match lookup a (s_blob s) with Some b' => b' =? b | None => false end.
Definition holdsb (s : shard) (a : oid) (b : bytes) : bool :=
  blob_is s a b && negb (s_frd s) && (s_deg s || has a (s_meta s)).
Definition stored_readable (st : list shard) (a : oid) (b : bytes) : bool :=
  existsb (fun s => holdsb s a b) st.

(* one address, one byte string (object IDs are content hashes) *)
Definition coherent (st : list shard) (a : oid) : bool :=
  forallb (fun s => forallb (fun s' =>
    match lookup a (s_blob s), lookup a (s_blob s') with
    | Some b, Some b' => b =? b'
    | _, _ => true
    end) st) st.

(* --- the input classes on which the engine is known to deviate (see notes/C20.md) --- *)

(* K3: a healthy shard holds a blob its metabase does not know (written in degraded
   read-write mode and never resynchronised) *)
Definition no_orphan (st : list shard) (a : oid) : bool :=
  forallb (fun s => s_deg s || negb (has a (s_blob s)) || has a (s_meta s)) st.

(* K0/K1: the removal is recorded, but some shard holding the bytes does not know it
   (K0: its own metabase says "available" -- e.g. the tombstone broadcast skipped a
   read-only shard) or cannot know it (K1: the holder is degraded and is read without
   metadata) *)
Definition holders_know (st : list shard) (e : N) (a : oid) : bool :=
  forallb (fun s => negb (has a (s_blob s)) || (negb (s_deg s) && removed_on s e a)) st.

Definition consistent (st : list shard) (e : N) (a : oid) : bool :=
  coherent st a && no_orphan st a && (negb (removedb st e a) || holders_know st e a).

(* the reference answer of a read: Found b iff stored on a readable shard and not removed *)
Definition ref_found (st : list shard) (e : N) (a : oid) (b : bytes) : bool :=
  stored_readable st a b && negb (removedb st e a).
