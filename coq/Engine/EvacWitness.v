(* Engine family (C19): reachable witnesses (refutations of the unrestricted statements) and a
   non-trivial example inside the classes of the partial theorems.  Everything by vm_compute. *)
From Coq Require Import List NArith Bool Arith.
Import ListNotations.
From NV Require Import Engine.Model Engine.Spec Engine.Check Engine.Evac Engine.EvacSpec.
Local Open Scope N_scope.

Definition all_orders (l : list nat) : oid -> list nat := fun _ => l.

(* ---- W1: a garbage-marked object kept alive by a lock is not listed, hence not evacuated ----
   object 0 is stored on shard 0 (shard 1 read-only meanwhile), marked as garbage (default
   mark), then locked (lock 1 reaches both shards): shard 0 serves it again.  Evacuating shard 0
   succeeds and the remaining shard does not have the object. *)
Definition uni_w1 : universe := [MRec KReg None; MRec (KLock 0) None].
Definition ops_w1 : list eop :=
  [OMode 1 true false false; OPut 0 [0;1]%nat [0;1]%nat [0;1]%nat; OMode 1 false false false;
   ODel 0 false [0;1]%nat; OPut 1 [0;1]%nat [0;1]%nat [0;1]%nat; OMode 0 true false false].
Definition en_w1 := run_ops uni_w1 (init_engine 2 0) ops_w1.
Definition ev_w1 := evacuate 0 (epoch en_w1) [0%nat] false None [0; 1] (all_orders [0;1]%nat) (shards en_w1).

Lemma w1_witness :
  fst ev_w1 = EvOk /\
  (exists s, nth_error (shards en_w1) 0 = Some s /\ fst (sh_get s (epoch en_w1) 0 false) = SFound 1) /\
  coherent (shards en_w1) 0 = true /\
  forallb (fun s => serves s 0) (rem_shards [0%nat] (shards en_w1)) = true /\
  ev_handed (snd ev_w1) = [] /\
  fst (engine_get 0 (epoch en_w1) 0 (remaining [0%nat] 2) (ev_st (snd ev_w1))) = GNotFound.
Proof. vm_compute. repeat split; eauto. Qed.

(* ---- W2: an expired object and the lock that keeps it are re-put on different shards ----
   object 0 (expires after epoch 1) and its lock 1 are stored while only shard 0 accepts writes;
   at epoch 2 shard 0 still serves the object (locked).  Evacuating shard 0: the object goes to
   shard 1 (its HRW order), the lock to shard 2 (its own HRW order); shard 1 answers "expired". *)
Definition uni_w2 : universe := [MRec KReg (Some 1); MRec (KLock 0) None].
Definition ops_w2 : list eop :=
  [OMode 1 true false false; OMode 2 true false false;
   OPut 0 [0;1;2]%nat [0;1;2]%nat [0;1;2]%nat; OPut 1 [0;2;1]%nat [0;2;1]%nat [0;1;2]%nat;
   OMode 1 false false false; OMode 2 false false false; OEpoch 2; OMode 0 true false false].
Definition en_w2 := run_ops uni_w2 (init_engine 3 0) ops_w2.
Definition ords_w2 : oid -> list nat := fun a => if a =? 0 then [0;1;2]%nat else [0;2;1]%nat.
Definition ev_w2 := evacuate 0 (epoch en_w2) [0%nat] false None [0; 1] ords_w2 (shards en_w2).

Lemma w2_witness :
  fst ev_w2 = EvOk /\
  (exists s, nth_error (shards en_w2) 0 = Some s /\ fst (sh_get s (epoch en_w2) 0 false) = SFound 1) /\
  coherent (shards en_w2) 0 = true /\
  forallb (fun s => serves s 0) (rem_shards [0%nat] (shards en_w2)) = true /\
  ev_handed (snd ev_w2) = [] /\
  fst (engine_get 0 (epoch en_w2) 0 [1;2]%nat (ev_st (snd ev_w2))) = GNotFound /\
  fst (engine_get 0 (epoch en_w2) 0 [2;1]%nat (ev_st (snd ev_w2))) = GNotFound.
Proof. vm_compute. repeat split; eauto. Qed.

(* ---- W3: ignoreErrors loses a tombstone and still reports success ----
   tombstone 1 (for object 0, the tombstone object itself expires after epoch 1) is stored on
   shard 0 only (shard 1 was read-only).  At epoch 2 the listing of shard 0 returns it, reading it
   fails ("expired"), ignoreErrors skips it: object 0 is recorded as removed before, not after. *)
Definition uni_w3 : universe := [MRec KReg None; MRec (KTS 0) (Some 1)].
Definition ops_w3 : list eop :=
  [OMode 1 true false false; OPut 1 [0;1]%nat [0;1]%nat [0;1]%nat; OMode 1 false false false;
   OEpoch 2; OMode 0 true false false].
Definition en_w3 := run_ops uni_w3 (init_engine 2 0) ops_w3.
Definition ev_w3 := evacuate 0 (epoch en_w3) [0%nat] true None [0; 1] (all_orders [0;1]%nat) (shards en_w3).

Lemma w3_witness :
  fst ev_w3 = EvOk /\ tombstonedb (shards en_w3) 0 = true /\
  tombstonedb (rem_shards [0%nat] (ev_st (snd ev_w3))) 0 = false.
Proof. vm_compute. repeat split; eauto. Qed.

(* ---- a non-trivial state inside the classes: objects, a lock and a tombstone spread over three
   shards, two of them evacuated, one target refusing writes ---- *)
Definition uni_ok : universe :=
  [MRec KReg None; MRec KReg (Some 9); MRec (KLock 0) None; MRec (KTS 1) None; MRec KReg None].
Definition ops_ok : list eop :=
  [OPut 0 [0;1;2;3]%nat [0;1;2;3]%nat [0;1;2;3]%nat; OPut 1 [1;0;2;3]%nat [1;0;2;3]%nat [0;1;2;3]%nat;
   OPut 4 [1;2;0;3]%nat [1;2;0;3]%nat [0;1;2;3]%nat;
   OPut 2 [0;1;2;3]%nat [0;1;2;3]%nat [3;2;1;0]%nat; OPut 3 [0;1;2;3]%nat [0;1;2;3]%nat [2;0;1;3]%nat;
   OFault 2 false true; OMode 0 true false false; OMode 1 true false false].
Definition en_ok := run_ops uni_ok (init_engine 4 2) ops_ok.
Definition ords_ok : oid -> list nat := fun a => if a =? 4 then [1;2;0;3]%nat else [0;1;2;3]%nat.
Definition ev_ok := evacuate 2 (epoch en_ok) [1;0]%nat false None [3; 0; 4; 1; 2] ords_ok (shards en_ok).

Lemma ok_example :
  fst ev_ok = EvOk /\ ev_cnt (snd ev_ok) = 2 /\
  (exists s, nth_error (shards en_ok) 0 = Some s /\ sh_get s (epoch en_ok) 0 false = (SFound 1, false)) /\
  (exists s, nth_error (shards en_ok) 1 = Some s /\ sh_get s (epoch en_ok) 4 false = (SFound 5, false)) /\
  c19_good (shards en_ok) (epoch en_ok) [1;0]%nat 0 = true /\
  c19_good (shards en_ok) (epoch en_ok) [1;0]%nat 4 = true /\
  fst (engine_get 2 (epoch en_ok) 0 [3;2]%nat (ev_st (snd ev_ok))) = GFound 1 /\
  fst (engine_get 2 (epoch en_ok) 4 [2;3]%nat (ev_st (snd ev_ok))) = GFound 5 /\
  tombstonedb (shards en_ok) 1 = true /\ tombstonedb (rem_shards [1;0]%nat (ev_st (snd ev_ok))) 1 = true /\
  lockedb (shards en_ok) (epoch en_ok) 0 = true /\
  lockedb (rem_shards [1;0]%nat (ev_st (snd ev_ok))) (epoch en_ok) 0 = true.
Proof. vm_compute. repeat split; eauto. Qed.
