(* Engine family (C19): proofs about the evacuation model.
   - the paged listing is the filter of the raw-ordered IDs (any positive page size);
   - a characterisation of what one putToShard can do to a shard (used by all invariants);
   - a generic invariant rule for the whole evacuation loop;
   - C19_sources_unchanged, C19_moved, C19_preserved_partial. *)
From Coq Require Import List NArith Bool Arith Lia Permutation.
Import ListNotations.
From NV Require Import Engine.Model Engine.Spec Engine.GetProofs Engine.LockProofs
                       Gen.EngineConsts Engine.Evac Engine.EvacSpec.
Local Open Scope N_scope.

(* ------------------------------------------------------------------ listing *)

Lemma list_page_spec : forall s rest n l c, list_page s n rest = (l, c) ->
  filter (listed s) rest = l ++ filter (listed s) c /\
  (l <> [] -> (length c < length rest)%nat) /\
  (l = [] -> (0 < n)%nat -> filter (listed s) rest = []).
Proof.
  induction rest as [|a r IH]; intros n l c H; simpl in H.
  - inversion H; subst. simpl. repeat split; auto. intros; congruence.
  - destruct n as [|n'].
    + inversion H; subst. simpl. repeat split; auto; intros; try congruence; lia.
    + destruct (listed s a) eqn:Hl.
      * destruct (list_page s n' r) as [l' c'] eqn:Hp. inversion H; subst.
        destruct (IH _ _ _ Hp) as (E1 & E2 & E3). simpl. rewrite Hl. rewrite E1. repeat split; auto.
        -- intros _. destruct l' as [|y l''].
           ++ clear E2 E3 E1. revert Hp. clear. revert n' c.
              induction r as [|z r IH]; intros n' c Hp; simpl in Hp.
              ** inversion Hp; subst; simpl; lia.
              ** destruct n'; [inversion Hp; subst; simpl; lia|].
                 destruct (listed s z); [destruct (list_page s n' r); inversion Hp|].
                 apply IH in Hp. simpl. lia.
           ++ assert (length c < length r)%nat by (apply E2; congruence). simpl; lia.
        -- intros; congruence.
      * destruct (IH _ _ _ H) as (E1 & E2 & E3). simpl. rewrite Hl. repeat split; auto.
        intros Hn. specialize (E2 Hn). lia.
Qed.

Lemma list_pages_spec : forall s n, (0 < n)%nat -> forall fuel rest, (length rest < fuel)%nat ->
  concat (list_pages fuel s n rest) = filter (listed s) rest.
Proof.
  intros s n Hn. induction fuel as [|f IH]; intros rest Hf; [lia|]. simpl.
  destruct (list_page s n rest) as [l c] eqn:Hp.
  destruct (list_page_spec _ _ _ _ _ Hp) as (E1 & E2 & E3).
  destruct l as [|y l'].
  - simpl. symmetry. apply E3; auto.
  - simpl. rewrite IH; [rewrite E1; reflexivity|].
    assert (length c < length rest)%nat by (apply E2; congruence). lia.
Qed.

Lemma batch_size_positive : (0 < evacuate_batch_size)%nat.
Proof. apply Nat.ltb_lt. vm_compute. reflexivity. Qed.

Theorem listing_is_filter : forall s rank, listing s rank = filter (listed s) rank.
Proof. intros. unfold listing. apply list_pages_spec; [apply batch_size_positive | lia]. Qed.

(* ------------------------------------------------------------------ one putToShard *)

Lemma is_src_In : forall srcs j, is_src srcs j = true <-> In j srcs.
Proof.
  intros. unfold is_src. rewrite existsb_exists. split.
  - intros (x & Hx & He). apply Nat.eqb_eq in He. subst; auto.
  - intros H. exists j. split; auto. apply Nat.eqb_refl.
Qed.

(* what the put path can do to the data of a shard (modes / counters aside) *)
Inductive trans (e : N) (a : oid) (r : mrec) (b : bytes) (s s1 : shard) : Prop :=
| TSame : s1 = s -> trans e a r b s s1
| TDeg : s_deg s = true -> s1 = with_blob s (set a b (s_blob s)) -> trans e a r b s s1
| TKnown : s_deg s = false -> has a (s_meta s) = true -> s1 = with_blob s (set a b (s_blob s)) ->
           trans e a r b s s1
| TAdd : forall g, s_deg s = false ->
           s1 = Shard (s_ro s) (s_deg s) (set a r (s_meta s)) g (set a b (s_blob s)) (s_frd s) (s_fwr s) (s_err s) ->
           (g = s_garb s \/ exists t, mk r = KTS t /\ g = set t MDefault (s_garb s)) ->
           trans e a r b s s1
| TRefused : s_deg s = false -> s1 = with_blob s (remove a (s_blob s)) ->
             meta_exists s 0 a <> ExOk true -> trans e a r b s s1.

Lemma meta_exists_with_blob : forall s bl e a, meta_exists (with_blob s bl) e a = meta_exists s e a.
Proof. intros. reflexivity. Qed.

Lemma meta_exists_true_has : forall s e a, meta_exists s e a = ExOk true -> has a (s_meta s) = true.
Proof.
  intros s e a H. unfold meta_exists in H. destruct (obj_status s e a); try discriminate. inversion H; auto.
Qed.

Lemma meta_put_shape : forall s e a r s', meta_put s e a r = inr s' ->
  (s' = s /\ has a (s_meta s) = true) \/
  exists g, s' = Shard (s_ro s) (s_deg s) (set a r (s_meta s)) g (s_blob s) (s_frd s) (s_fwr s) (s_err s)
            /\ (g = s_garb s \/ exists t, mk r = KTS t /\ g = set t MDefault (s_garb s)).
Proof.
  intros s e a r s' H. unfold meta_put in H.
  destruct (meta_exists s e a) as [[|]| | | |] eqn:Hm; try discriminate.
  - inversion H; subst. left. split; auto. eapply meta_exists_true_has; eauto.
  - right. destruct (mk r) as [|t|t] eqn:Hk.
    + inversion H; subst. eexists; split; eauto.
    + destruct (lookup t (s_meta s)) as [[[|?|?] ?]|]; try discriminate;
        destruct (locked s e t); try discriminate; inversion H; subst; eexists; split; eauto.
    + destruct (lookup t (s_meta s)) as [[[|?|?] ?]|]; try discriminate;
        destruct (status_eqb (obj_status s e t) StTS); try discriminate; inversion H; subst; eexists; split; eauto.
  - right. destruct (mk r) as [|t|t] eqn:Hk.
    + inversion H; subst. eexists; split; eauto.
    + destruct (lookup t (s_meta s)) as [[[|?|?] ?]|]; try discriminate;
        destruct (locked s e t); try discriminate; inversion H; subst; eexists; split; eauto.
    + destruct (lookup t (s_meta s)) as [[[|?|?] ?]|]; try discriminate;
        destruct (status_eqb (obj_status s e t) StTS); try discriminate; inversion H; subst; eexists; split; eauto.
Qed.

(* a successful Shard.Put *)
Lemma sh_put_trans : forall s e a r b s', sh_put s e a r b = inr s' ->
  trans e a r b s s' /\ (s_deg s = true \/ has a (s_meta s') = true) /\ lookup a (s_blob s') = Some b.
Proof.
  intros s e a r b s' H. unfold sh_put in H.
  destruct (s_ro s); try discriminate. destruct (s_fwr s); try discriminate.
  destruct (s_deg s) eqn:Hd.
  - inversion H; subst. split; [eapply TDeg; eauto|]. split; auto. simpl. apply lookup_set_eq.
  - destruct (meta_put (with_blob s (set a b (s_blob s))) e a r) as [err|s2] eqn:Hm; try discriminate.
    inversion H; subst. apply meta_put_shape in Hm. destruct Hm as [[-> Hh]|(g & -> & Hg)].
    + split; [eapply TKnown; eauto|]. split; auto. simpl. apply lookup_set_eq.
    + simpl. split; [eapply TAdd; eauto|]. split; [right; unfold has; rewrite lookup_set_eq; auto|].
      apply lookup_set_eq.
Qed.

(* the state a failed Shard.Put leaves behind *)
Lemma sh_put_state_trans : forall s e a r b err, sh_put s e a r b = inl err ->
  trans e a r b s (sh_put_state s e a r b).
Proof.
  intros s e a r b err H. unfold sh_put_state. rewrite H.
  destruct (s_ro s || s_fwr s) eqn:Hrf; [apply TSame; auto|].
  assert (Hd : s_deg s = false).
  { unfold sh_put in H. apply orb_false_elim in Hrf. destruct Hrf as [Hr Hw]. rewrite Hr, Hw in H.
    destruct (s_deg s); auto. discriminate. }
  rewrite meta_exists_with_blob.
  destruct (meta_exists s 0 a) as [[|]| | | |] eqn:Hm;
    try (eapply TRefused; eauto; rewrite Hm; discriminate).
  eapply TKnown; eauto. eapply meta_exists_true_has; eauto.
Qed.

Lemma trans_modes : forall e a r b s s1, trans e a r b s s1 ->
  s_deg s1 = s_deg s /\ s_frd s1 = s_frd s /\ s_ro s1 = s_ro s.
Proof. intros e a r b s s1 H. destruct H; subst; simpl; auto. Qed.

Lemma Forall2_nth_error_l {A} (R : A -> A -> Prop) :
  forall l1 l2 i x, Forall2 R l1 l2 -> nth_error l1 i = Some x -> exists y, nth_error l2 i = Some y /\ R x y.
Proof.
  intros l1 l2 i x H; revert i; induction H; intros i Hn; destruct i; simpl in *; try discriminate.
  - inversion Hn; subst; eauto.
  - eauto.
Qed.

Lemma report_nth : forall t j st s, nth_error st j = Some s ->
  exists s', nth_error (report t j st) j = Some s' /\ evolves s s'.
Proof. intros. eapply Forall2_nth_error_l; eauto using report_evolves. Qed.

(* one putToShard on shard j: the other shards are untouched; shard j makes a data transition
   followed by a possible counter / mode change *)
Lemma put_to_shard_step : forall t e j a r b st res st',
  put_to_shard t e j a r b st = (res, st') ->
  (forall i, i <> j -> nth_error st' i = nth_error st i) /\
  (nth_error st j = None -> st' = st) /\
  (forall s, nth_error st j = Some s ->
     exists s1 s', nth_error st' j = Some s' /\ trans e a r b s s1 /\ evolves s1 s' /\
       (res = PtOk -> (s_deg s = true \/ has a (s_meta s1) = true) /\ lookup a (s_blob s1) = Some b) /\
       (res = PtExists -> s1 = s /\ (sh_exists s e a false = ExExpired \/ sh_exists s e a false = ExOk true))).
Proof.
  intros t e j a r b st res st' H. unfold put_to_shard in H.
  destruct (nth_error st j) as [s|] eqn:Hs.
  2:{ inversion H; subst. repeat split; auto. intros; discriminate. }
  assert (Hsame : forall res0, (res0, st) = (res, st') -> res0 <> PtOk ->
            (res0 = PtExists -> sh_exists s e a false = ExExpired \/ sh_exists s e a false = ExOk true) ->
          (forall i, i <> j -> nth_error st' i = nth_error st i) /\
          (Some s = None -> st' = st) /\
          (forall s0, Some s = Some s0 ->
             exists s1 s', nth_error st' j = Some s' /\ trans e a r b s0 s1 /\ evolves s1 s' /\
               (res = PtOk -> (s_deg s0 = true \/ has a (s_meta s1) = true) /\ lookup a (s_blob s1) = Some b) /\
               (res = PtExists -> s1 = s0 /\ (sh_exists s0 e a false = ExExpired \/ sh_exists s0 e a false = ExOk true)))).
  { intros res0 E Hn Hx. inversion E; subst. repeat split; auto; try discriminate.
    intros s0 E0; inversion E0; subst. exists s0, s0. repeat split; auto using evolves_refl;
      try (apply TSame; reflexivity); try (intros; congruence). }
  destruct (sh_exists s e a false) as [[|]| | | |] eqn:Hx.
  - apply (Hsame PtExists); auto; discriminate.
  - destruct (sh_put s e a r b) as [err|s2] eqn:Hp.
    + pose proof (sh_put_state_trans _ _ _ _ _ _ Hp) as Ht.
      set (s1 := sh_put_state s e a r b) in *.
      assert (Hs1 : nth_error (upd j s1 st) j = Some s1) by (eapply nth_error_upd_eq; eauto).
      destruct (pe_logic err); inversion H; subst.
      * repeat split; try discriminate.
        -- intros; apply nth_error_upd_neq; auto.
        -- intros s0 E0; inversion E0; subst. exists s1, s1. split; [exact Hs1|]. split; [exact Ht|]. split; [apply evolves_refl|]. split; intros; discriminate.
      * repeat split; try discriminate.
        -- intros i Hi. rewrite report_other by auto. apply nth_error_upd_neq; auto.
        -- intros s0 E0; inversion E0; subst.
           destruct (report_nth t j _ _ Hs1) as (s' & Hs' & Hev).
           exists s1, s'. split; [exact Hs'|]. split; [exact Ht|]. split; [exact Hev|]. split; intros; discriminate.
    + inversion H; subst. destruct (sh_put_trans _ _ _ _ _ _ Hp) as (Ht & Hh & Hb).
      repeat split; try discriminate.
      * intros; apply nth_error_upd_neq; auto.
      * intros s0 E0; inversion E0; subst. exists s2, s2.
        split; [eapply nth_error_upd_eq; eauto|]. split; [exact Ht|]. split; [apply evolves_refl|].
        split; [intros _; split; assumption | intros; discriminate].
  - apply (Hsame (PtErr PeNotFound)); auto; discriminate.
  - apply (Hsame (PtErr PeRemoved)); auto; discriminate.
  - apply (Hsame PtExists); auto; discriminate.
  - apply (Hsame (PtErr PeIO)); auto; discriminate.
Qed.

Lemma precheck_not_ok : forall srcs st, precheck srcs st <> Some EvOk.
Proof.
  induction srcs as [|i r IH]; intros st; simpl; try discriminate.
  destruct (nth_error st i) as [s|]; try discriminate. destruct (s_ro s); auto. discriminate.
Qed.

(* ------------------------------------------------------------------ the evacuation loop *)

Section Loop.
Variables (t e : N) (srcs : list nat) (ign : bool) (fh : option (list oid)) (rank : list oid)
          (ords : oid -> list nat).

(* source shards are never written *)
Lemma try_targets_src : forall a r b ord st i, is_src srcs i = true ->
  nth_error (snd (try_targets t e srcs a r b ord st)) i = nth_error st i.
Proof.
  induction ord as [|j rest IH]; intros st i Hi; simpl; auto.
  destruct (is_src srcs j) eqn:Hj; auto.
  destruct (put_to_shard t e j a r b st) as [res st'] eqn:Hp.
  destruct (put_to_shard_step _ _ _ _ _ _ _ _ _ Hp) as (Ho & _ & _).
  assert (i <> j) by (intro; subst; congruence).
  destruct res; simpl; auto. rewrite IH; auto.
Qed.

Lemma evac_obj_src : forall s a x i, is_src srcs i = true ->
  nth_error (ev_st (snd (evac_obj t e srcs ign fh ords s a x))) i = nth_error (ev_st x) i.
Proof.
  intros s a x i Hi. unfold evac_obj.
  destruct (sh_get s e a false) as [[b| | | |] m]; try (destruct ign; reflexivity).
  destruct (lookup a (s_meta s)) as [r|]; try (destruct ign; reflexivity).
  pose proof (try_targets_src a r b (ords a) (ev_st x) i Hi) as Ht.
  destruct (try_targets t e srcs a r b (ords a) (ev_st x)) as [[[|]|] st']; simpl in *; auto.
  destruct fh as [acc|]; simpl; auto. destruct (fh_accepts acc a); simpl; auto.
Qed.

Lemma evac_objs_src : forall s l x i, is_src srcs i = true ->
  nth_error (ev_st (snd (evac_objs t e srcs ign fh ords s l x))) i = nth_error (ev_st x) i.
Proof.
  induction l as [|a r IH]; intros x i Hi; simpl; auto.
  pose proof (evac_obj_src s a x i Hi) as Ho.
  destruct (evac_obj t e srcs ign fh ords s a x) as [c x1]; simpl in *.
  destruct c; simpl; auto. rewrite IH; auto.
Qed.

Lemma evac_source_src : forall i0 x i, is_src srcs i = true ->
  nth_error (ev_st (snd (evac_source t e srcs ign fh rank ords i0 x))) i = nth_error (ev_st x) i.
Proof.
  intros i0 x i Hi. unfold evac_source. destruct (nth_error (ev_st x) i0) as [s|]; auto.
  destruct (s_deg s); auto. apply evac_objs_src; auto.
Qed.

Lemma evac_sources_src : forall todo x i, is_src srcs i = true ->
  nth_error (ev_st (snd (evac_sources t e srcs ign fh rank ords todo x))) i = nth_error (ev_st x) i.
Proof.
  induction todo as [|i0 r IH]; intros x i Hi; simpl; auto.
  pose proof (evac_source_src i0 x i Hi) as Ho.
  destruct (evac_source t e srcs ign fh rank ords i0 x) as [c x1]; simpl in *.
  destruct c; simpl; auto. rewrite IH; auto.
Qed.

Theorem sources_unchanged : forall st i, In i srcs ->
  nth_error (ev_st (snd (evacuate t e srcs ign fh rank ords st))) i = nth_error st i.
Proof.
  intros st i Hi. apply is_src_In in Hi. unfold evacuate.
  destruct (precheck srcs st); auto.
  destruct ((length st <=? length srcs)%nat && no_handler fh); auto.
  rewrite evac_sources_src; auto.
Qed.

(* the handed list only grows *)
Lemma evac_obj_handed : forall s a x y, In y (ev_handed x) ->
  In y (ev_handed (snd (evac_obj t e srcs ign fh ords s a x))).
Proof.
  intros s a x y Hy. unfold evac_obj.
  destruct (sh_get s e a false) as [[b| | | |] m]; try (destruct ign; exact Hy).
  destruct (lookup a (s_meta s)) as [r|]; try (destruct ign; exact Hy).
  destruct (try_targets t e srcs a r b (ords a) (ev_st x)) as [[[|]|] st']; simpl in *; auto.
  destruct fh as [acc|]; simpl; auto. destruct (fh_accepts acc a); simpl; auto.
Qed.
Lemma evac_objs_handed : forall s l x y, In y (ev_handed x) ->
  In y (ev_handed (snd (evac_objs t e srcs ign fh ords s l x))).
Proof.
  induction l as [|a r IH]; intros x y Hy; simpl; auto.
  pose proof (evac_obj_handed s a x y Hy) as Ho.
  destruct (evac_obj t e srcs ign fh ords s a x) as [c x1]; simpl in *.
  destruct c; simpl; auto.
Qed.
Lemma evac_source_handed : forall i0 x y, In y (ev_handed x) ->
  In y (ev_handed (snd (evac_source t e srcs ign fh rank ords i0 x))).
Proof.
  intros i0 x y Hy. unfold evac_source. destruct (nth_error (ev_st x) i0) as [s|]; auto.
  destruct (s_deg s); auto. apply evac_objs_handed; auto.
Qed.
Lemma evac_sources_handed : forall todo x y, In y (ev_handed x) ->
  In y (ev_handed (snd (evac_sources t e srcs ign fh rank ords todo x))).
Proof.
  induction todo as [|i0 r IH]; intros x y Hy; simpl; auto.
  pose proof (evac_source_handed i0 x y Hy) as Ho.
  destruct (evac_source t e srcs ign fh rank ords i0 x) as [c x1]; simpl in *.
  destruct c; simpl; auto.
Qed.

(* ---- generic invariant rule ----
   P: invariant of the shard list; Q: what is known about an object taken from a source.
   H: a per-shard fact about one tracked address a (with bytes b) that a successful /
   "already exists" putToShard establishes and that no later step destroys. *)
Variable P : list shard -> Prop.
Variable Q : oid -> mrec -> bytes -> Prop.
Hypothesis P_step : forall j a r b st, is_src srcs j = false -> P st -> Q a r b ->
  P (snd (put_to_shard t e j a r b st)).
Hypothesis P_src : forall st i s a r b m, P st -> is_src srcs i = true -> nth_error st i = Some s ->
  s_deg s = false -> sh_get s e a false = (SFound b, m) -> lookup a (s_meta s) = Some r -> Q a r b.

Lemma try_targets_P : forall a r b ord st, P st -> Q a r b -> P (snd (try_targets t e srcs a r b ord st)).
Proof.
  induction ord as [|j rest IH]; intros st HP HQ; simpl; auto.
  destruct (is_src srcs j) eqn:Hj; auto.
  pose proof (P_step j a r b st Hj HP HQ) as HP'.
  destruct (put_to_shard t e j a r b st) as [res st']; simpl in *.
  destruct res; simpl; auto.
Qed.

Lemma evac_obj_P : forall i s a x, is_src srcs i = true -> nth_error (ev_st x) i = Some s -> s_deg s = false ->
  P (ev_st x) -> P (ev_st (snd (evac_obj t e srcs ign fh ords s a x))).
Proof.
  intros i s a x Hi Hs Hd HP. unfold evac_obj.
  destruct (sh_get s e a false) as [[b| | | |] m] eqn:Hg; try (destruct ign; exact HP).
  destruct (lookup a (s_meta s)) as [r|] eqn:Hl; try (destruct ign; exact HP).
  pose proof (try_targets_P a r b (ords a) (ev_st x) HP (P_src _ _ _ _ _ _ _ HP Hi Hs Hd Hg Hl)) as Ht.
  destruct (try_targets t e srcs a r b (ords a) (ev_st x)) as [[[|]|] st']; simpl in *; auto.
  destruct fh as [acc|]; simpl; auto. destruct (fh_accepts acc a); simpl; auto.
Qed.

Lemma evac_objs_P : forall i s l x, is_src srcs i = true -> nth_error (ev_st x) i = Some s -> s_deg s = false ->
  P (ev_st x) -> P (ev_st (snd (evac_objs t e srcs ign fh ords s l x))).
Proof.
  induction l as [|a r IH]; intros x Hi Hs Hd HP; simpl; auto.
  pose proof (evac_obj_P i s a x Hi Hs Hd HP) as Ho.
  pose proof (evac_obj_src s a x i Hi) as Hsrc.
  destruct (evac_obj t e srcs ign fh ords s a x) as [c x1]; simpl in *.
  destruct c; simpl; auto. apply IH; auto. congruence.
Qed.

Lemma evac_source_P : forall i x, is_src srcs i = true -> P (ev_st x) ->
  P (ev_st (snd (evac_source t e srcs ign fh rank ords i x))).
Proof.
  intros i x Hi HP. unfold evac_source. destruct (nth_error (ev_st x) i) as [s|] eqn:Hs; auto.
  destruct (s_deg s) eqn:Hd; auto. eapply evac_objs_P; eauto.
Qed.

Lemma evac_sources_P : forall todo x, (forall i, In i todo -> is_src srcs i = true) -> P (ev_st x) ->
  P (ev_st (snd (evac_sources t e srcs ign fh rank ords todo x))).
Proof.
  induction todo as [|i r IH]; intros x Hin HP; simpl; auto.
  pose proof (evac_source_P i x (Hin i (or_introl eq_refl)) HP) as Ho.
  destruct (evac_source t e srcs ign fh rank ords i x) as [c x1]; simpl in *.
  destruct c; simpl; try assumption. apply IH; [intros; apply Hin; right; assumption | assumption..].
Qed.

Theorem evacuate_P : forall st, P st -> P (ev_st (snd (evacuate t e srcs ign fh rank ords st))).
Proof.
  intros st HP. unfold evacuate. destruct (precheck srcs st); auto.
  destruct ((length st <=? length srcs)%nat && no_handler fh); auto.
  apply evac_sources_P; auto. intros; apply is_src_In; auto.
Qed.

(* ---- the tracked address ---- *)
Variables (a : oid) (b : bytes).
Variable H : shard -> Prop.
Hypothesis H_new : forall j r st res st' s, P st -> Q a r b -> is_src srcs j = false ->
  nth_error st j = Some s -> put_to_shard t e j a r b st = (res, st') -> res = PtOk \/ res = PtExists ->
  exists s', nth_error st' j = Some s' /\ H s'.
Hypothesis H_step : forall j' a' r' b' st j s, P st -> Q a' r' b' -> is_src srcs j' = false ->
  nth_error st j = Some s -> H s ->
  exists s', nth_error (snd (put_to_shard t e j' a' r' b' st)) j = Some s' /\ H s'.

Definition HeldH (st : list shard) : Prop :=
  exists j s, is_src srcs j = false /\ nth_error st j = Some s /\ H s.
Definition Goal (x : evst) : Prop := In a (ev_handed x) \/ HeldH (ev_st x).

Lemma try_targets_Held : forall a' r' b' ord st, P st -> Q a' r' b' -> HeldH st ->
  HeldH (snd (try_targets t e srcs a' r' b' ord st)).
Proof.
  induction ord as [|j rest IH]; intros st HP HQ HH; simpl; auto.
  destruct (is_src srcs j) eqn:Hj; auto.
  pose proof (P_step j a' r' b' st Hj HP HQ) as HP'.
  assert (HH' : HeldH (snd (put_to_shard t e j a' r' b' st))).
  { destruct HH as (j0 & s0 & Hn & Hs0 & Hh).
    destruct (H_step j a' r' b' st j0 s0 HP HQ Hj Hs0 Hh) as (s' & Hs' & Hh'). exists j0, s'. auto. }
  destruct (put_to_shard t e j a' r' b' st) as [res st']; simpl in *.
  destruct res; simpl; auto.
Qed.

Lemma evac_obj_Goal : forall i s a' x, is_src srcs i = true -> nth_error (ev_st x) i = Some s -> s_deg s = false ->
  P (ev_st x) -> Goal x -> Goal (snd (evac_obj t e srcs ign fh ords s a' x)).
Proof.
  intros i s a' x Hi Hs Hd HP [Hg|Hg].
  - left. apply evac_obj_handed; auto.
  - unfold evac_obj.
    destruct (sh_get s e a' false) as [[b'| | | |] m] eqn:Hgt; try (destruct ign; right; exact Hg).
    destruct (lookup a' (s_meta s)) as [r|] eqn:Hl; try (destruct ign; right; exact Hg).
    pose proof (try_targets_Held a' r b' (ords a') (ev_st x) HP (P_src _ _ _ _ _ _ _ HP Hi Hs Hd Hgt Hl) Hg) as Ht.
    destruct (try_targets t e srcs a' r b' (ords a') (ev_st x)) as [[[|]|] st']; simpl in *; try (right; exact Ht).
    destruct fh as [acc|]; simpl; try (right; exact Ht). destruct (fh_accepts acc a'); simpl; right; exact Ht.
Qed.

Lemma evac_objs_Goal : forall i s l x, is_src srcs i = true -> nth_error (ev_st x) i = Some s -> s_deg s = false ->
  P (ev_st x) -> Goal x -> Goal (snd (evac_objs t e srcs ign fh ords s l x)).
Proof.
  induction l as [|a' r IH]; intros x Hi Hs Hd HP HG; simpl; auto.
  pose proof (evac_obj_P i s a' x Hi Hs Hd HP) as Ho.
  pose proof (evac_obj_src s a' x i Hi) as Hsrc.
  pose proof (evac_obj_Goal i s a' x Hi Hs Hd HP HG) as HG'.
  destruct (evac_obj t e srcs ign fh ords s a' x) as [c x1]; simpl in *.
  destruct c; simpl; auto. apply IH; auto. congruence.
Qed.

Lemma evac_source_Goal : forall i x, is_src srcs i = true -> P (ev_st x) -> Goal x ->
  Goal (snd (evac_source t e srcs ign fh rank ords i x)).
Proof.
  intros i x Hi HP HG. unfold evac_source. destruct (nth_error (ev_st x) i) as [s|] eqn:Hs; auto.
  destruct (s_deg s) eqn:Hd; auto. eapply evac_objs_Goal; eauto.
Qed.

Lemma evac_sources_Goal : forall todo x, (forall i, In i todo -> is_src srcs i = true) -> P (ev_st x) -> Goal x ->
  Goal (snd (evac_sources t e srcs ign fh rank ords todo x)).
Proof.
  induction todo as [|i r IH]; intros x Hin HP HG; simpl; auto.
  pose proof (evac_source_P i x (Hin i (or_introl eq_refl)) HP) as Ho.
  pose proof (evac_source_Goal i x (Hin i (or_introl eq_refl)) HP HG) as HG'.
  destruct (evac_source t e srcs ign fh rank ords i x) as [c x1]; simpl in *.
  destruct c; simpl; try assumption. apply IH; [intros; apply Hin; right; assumption | assumption..].
Qed.

(* the tracked address is processed: afterwards it is handed or held *)
Lemma try_targets_new : forall r ord st m st', P st -> Q a r b ->
  try_targets t e srcs a r b ord st = (Some m, st') -> HeldH st'.
Proof.
  induction ord as [|j rest IH]; intros st m st' HP HQ Ht; simpl in Ht; try discriminate.
  destruct (is_src srcs j) eqn:Hj; [eapply IH; eauto|].
  pose proof (P_step j a r b st Hj HP HQ) as HP'.
  destruct (put_to_shard t e j a r b st) as [res st1] eqn:Hp; simpl in *.
  destruct (nth_error st j) as [s|] eqn:Hs.
  - destruct res.
    + inversion Ht; subst. destruct (H_new j r st PtOk st' s HP HQ Hj Hs Hp (or_introl eq_refl)) as (s' & Hs' & Hh).
      exists j, s'. auto.
    + inversion Ht; subst. destruct (H_new j r st PtExists st' s HP HQ Hj Hs Hp (or_intror eq_refl)) as (s' & Hs' & Hh).
      exists j, s'. auto.
    + eapply IH; eauto.
  - unfold put_to_shard in Hp. rewrite Hs in Hp. inversion Hp; subst. eapply IH; eauto.
Qed.

Lemma evac_obj_new : forall i s x x' m, is_src srcs i = true -> nth_error (ev_st x) i = Some s -> s_deg s = false ->
  P (ev_st x) -> sh_get s e a false = (SFound b, m) -> has a (s_meta s) = true ->
  evac_obj t e srcs ign fh ords s a x = (EvOk, x') -> Goal x'.
Proof.
  intros i s x x' m Hi Hs Hd HP Hg Hh Hev. unfold evac_obj in Hev. rewrite Hg in Hev.
  unfold has in Hh. destruct (lookup a (s_meta s)) as [r|] eqn:Hl; try discriminate.
  pose proof (P_src _ _ _ _ _ _ _ HP Hi Hs Hd Hg Hl) as HQ.
  destruct (try_targets t e srcs a r b (ords a) (ev_st x)) as [[[|]|] st'] eqn:Ht.
  - inversion Hev; subst. right. simpl. eapply try_targets_new; eauto.
  - inversion Hev; subst. right. simpl. eapply try_targets_new; eauto.
  - destruct fh as [acc|]; try discriminate. destruct (fh_accepts acc a); try discriminate.
    inversion Hev; subst. left. simpl. auto.
Qed.

Lemma evac_objs_new : forall i s l x x' m, is_src srcs i = true -> nth_error (ev_st x) i = Some s -> s_deg s = false ->
  P (ev_st x) -> sh_get s e a false = (SFound b, m) -> has a (s_meta s) = true -> In a l ->
  evac_objs t e srcs ign fh ords s l x = (EvOk, x') -> Goal x'.
Proof.
  induction l as [|a' r IH]; intros x x' m Hi Hs Hd HP Hg Hh Hin Hev; simpl in *; try contradiction.
  pose proof (evac_obj_P i s a' x Hi Hs Hd HP) as Ho.
  pose proof (evac_obj_src s a' x i Hi) as Hsrc.
  destruct (evac_obj t e srcs ign fh ords s a' x) as [c x1] eqn:Hob; simpl in *.
  destruct c; try (inversion Hev; discriminate).
  destruct Hin as [->|Hin].
  - pose proof (evac_obj_new i s x x1 m Hi Hs Hd HP Hg Hh Hob) as HG.
    assert (Hs1 : nth_error (ev_st x1) i = Some s) by congruence.
    pose proof (evac_objs_Goal i s r x1 Hi Hs1 Hd Ho HG) as HG'. rewrite Hev in HG'. exact HG'.
  - assert (Hs1 : nth_error (ev_st x1) i = Some s) by congruence.
    eapply (IH x1 x' m); eauto.
Qed.

Lemma evac_sources_new : forall todo x x' i s m, (forall i, In i todo -> is_src srcs i = true) ->
  P (ev_st x) -> In i todo -> nth_error (ev_st x) i = Some s ->
  sh_get s e a false = (SFound b, m) -> listed s a = true -> In a rank ->
  evac_sources t e srcs ign fh rank ords todo x = (EvOk, x') -> Goal x'.
Proof.
  induction todo as [|i0 r IH]; intros x x' i s m Hall HP Hin Hs Hg Hl Hr Hev; simpl in *; try contradiction.
  assert (Hi0 : is_src srcs i0 = true) by (apply Hall; auto).
  pose proof (evac_source_P i0 x Hi0 HP) as Ho.
  destruct (evac_source t e srcs ign fh rank ords i0 x) as [c x1] eqn:Hsrc; simpl in *.
  destruct c; try (inversion Hev; discriminate).
  assert (Hall' : forall i, In i r -> is_src srcs i = true) by (intros; apply Hall; auto).
  destruct Hin as [->|Hin].
  - unfold evac_source in Hsrc. rewrite Hs in Hsrc.
    destruct (s_deg s) eqn:Hd; try discriminate.
    assert (Hla : In a (listing s rank)) by (rewrite listing_is_filter; apply filter_In; auto).
    unfold listed in Hl. apply andb_prop in Hl. destruct Hl as [Hh _].
    pose proof (evac_objs_new i s (listing s rank) x x1 m (Hall i (or_introl eq_refl)) Hs Hd HP Hg Hh Hla Hsrc) as HG.
    pose proof (evac_sources_Goal r x1 Hall' Ho HG) as HG'. rewrite Hev in HG'. exact HG'.
  - eapply (IH x1 x' i s m); eauto.
    pose proof (evac_source_src i0 x i (Hall i (or_intror Hin))) as E. rewrite Hsrc in E. simpl in E. congruence.
Qed.

Theorem moved_gen : forall st x' i s m, P st ->
  evacuate t e srcs ign fh rank ords st = (EvOk, x') ->
  In i srcs -> nth_error st i = Some s -> sh_get s e a false = (SFound b, m) -> listed s a = true -> In a rank ->
  Goal x'.
Proof.
  intros st x' i s m HP Hev Hi Hs Hg Hl Hr. unfold evacuate in Hev.
  pose proof (precheck_not_ok srcs st) as Hpc.
  destruct (precheck srcs st) as [c|]; [inversion Hev; subst; congruence|].
  destruct ((length st <=? length srcs)%nat && no_handler fh); try (inversion Hev; discriminate).
  eapply (evac_sources_new srcs (EvSt st 0 []) x' i s m); eauto.
  intros; apply is_src_In; auto.
Qed.

End Loop.

(* ------------------------------------------------------------------ C19_moved *)

Lemma has_set {A} : forall a a' (v : A) l, has a l = true -> has a (set a' v l) = true.
Proof.
  intros a a' v l H. unfold has in *. destruct (N.eq_dec a a') as [->|Hn].
  - rewrite lookup_set_eq. reflexivity.
  - rewrite lookup_set_neq by auto. exact H.
Qed.
Lemma has_set_eq {A} : forall a (v : A) l, has a (set a v l) = true.
Proof. intros. unfold has. rewrite lookup_set_eq. reflexivity. Qed.
Lemma lookup_remove_eq {A} : forall k (l : list (oid * A)), lookup k (remove k l) = None.
Proof.
  induction l as [|[k' v] r IH]; simpl; auto. destruct (k =? k') eqn:E; auto. simpl. rewrite E. exact IH.
Qed.

(* a shard holds the address: its metabase lists it, or it has no metabase and stores the data *)
Definition held_by (a : oid) (s : shard) : Prop :=
  has a (s_meta s) = true \/ (s_deg s = true /\ has a (s_blob s) = true).

Lemma held_trans : forall e a a' r b s s1, trans e a' r b s s1 -> held_by a s -> held_by a s1.
Proof.
  intros e a a' r b s s1 Ht Hh. destruct Ht as [-> | Hd -> | Hd Hm -> | g Hd -> Hg | Hd -> Hm]; auto.
  - destruct Hh as [Hh|[_ Hh]]; [left; exact Hh|]. right. simpl. split; auto. apply has_set; auto.
  - destruct Hh as [Hh|[Hd' _]]; [left; exact Hh | congruence].
  - destruct Hh as [Hh|[Hd' _]]; [left; simpl; apply has_set; auto | congruence].
  - destruct Hh as [Hh|[Hd' _]]; [left; exact Hh | congruence].
Qed.

Lemma held_evolves : forall a s s', evolves s s' -> held_by a s -> held_by a s'.
Proof.
  intros a s s' (E1 & E2 & E3 & E4 & E5) [Hh|[Hd Hh]]; unfold held_by.
  - left. rewrite E1. exact Hh.
  - right. rewrite E3. auto.
Qed.

Lemma exists_held : forall s e a, sh_exists s e a false = ExExpired \/ sh_exists s e a false = ExOk true ->
  held_by a s.
Proof.
  intros s e a Hx. unfold sh_exists in Hx. destruct (s_deg s) eqn:Hd.
  - destruct (s_frd s); [destruct Hx; discriminate|]. right. split; auto.
    destruct Hx as [Hx|Hx]; [discriminate | inversion Hx; auto].
  - left. unfold meta_exists in Hx. destruct (obj_status s e a) eqn:Hst; destruct Hx as [Hx|Hx]; try discriminate.
    + inversion Hx; auto.
    + unfold obj_status in Hst. unfold is_expired in Hst. unfold has.
      destruct (lookup a (s_meta s)); auto.
      unfold in_garbage in Hst.
      destruct (tombstoned s a); destruct (lookup a (s_garb s)) as [[|]|]; simpl in Hst;
        destruct (locked s e a); simpl in Hst; discriminate.
Qed.

Section Moved.
Variables (t e : N) (srcs : list nat) (ign : bool) (fh : option (list oid)) (rank : list oid)
          (ords : oid -> list nat).

Theorem moved : forall st x' i s a b m,
  evacuate t e srcs ign fh rank ords st = (EvOk, x') ->
  In i srcs -> nth_error st i = Some s -> sh_get s e a false = (SFound b, m) -> listed s a = true -> In a rank ->
  In a (ev_handed x') \/
  exists j s', is_src srcs j = false /\ nth_error (ev_st x') j = Some s' /\ held_by a s'.
Proof.
  intros st x' i s a b m Hev Hi Hs Hg Hl Hr.
  apply (moved_gen t e srcs ign fh rank ords (fun _ => True) (fun _ _ _ => True)) with
    (a := a) (b := b) (H := held_by a) (st := st) (i := i) (s := s) (m := m); auto.
  - (* H_new *)
    intros j r st0 res st' s0 _ _ Hj Hs0 Hp Hres.
    destruct (put_to_shard_step _ _ _ _ _ _ _ _ _ Hp) as (_ & _ & Hstep).
    destruct (Hstep s0 Hs0) as (s1 & s' & Hs' & Ht & Hevv & Hok & Hex).
    exists s'. split; auto. eapply held_evolves; eauto.
    destruct Hres as [->| ->].
    + destruct (Hok eq_refl) as [[Hd|Hm] Hb].
      * right. destruct (trans_modes _ _ _ _ _ _ Ht) as (E & _). split; [congruence|]. unfold has. rewrite Hb. auto.
      * left. exact Hm.
    + destruct (Hex eq_refl) as [-> Hx]. eapply exists_held; eauto.
  - (* H_step *)
    intros j' a' r' b' st0 j s0 _ _ Hj' Hs0 Hh.
    destruct (put_to_shard t e j' a' r' b' st0) as [res st'] eqn:Hp. simpl.
    destruct (put_to_shard_step _ _ _ _ _ _ _ _ _ Hp) as (Ho & _ & Hstep).
    destruct (Nat.eq_dec j j') as [->|Hn].
    + destruct (Hstep s0 Hs0) as (s1 & s' & Hs' & Ht & Hevv & _). exists s'. split; auto.
      eapply held_evolves; eauto. eapply held_trans; eauto.
    + exists s0. rewrite Ho by auto. auto.
Qed.
End Moved.
