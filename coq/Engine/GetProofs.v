(* C20: proofs about engine_get / engine_head of Engine/Model.v against the reference
   predicates of Engine/Spec.v. *)
From Coq Require Import List NArith Bool Arith Permutation Lia.
Import ListNotations.
From NV Require Import Engine.Model Engine.Spec.
Local Open Scope N_scope.

(* ------------------------------------------------------------------ lists *)

Lemma nth_error_upd_neq {A} : forall (l : list A) i j x, i <> j -> nth_error (upd i x l) j = nth_error l j.
Proof.
  induction l as [|y l IH]; intros i j x Hij; destruct i, j; simpl; try reflexivity.
  - congruence.
  - apply IH. congruence.
Qed.

Lemma nth_error_upd_eq {A} : forall (l : list A) i x y, nth_error l i = Some y -> nth_error (upd i x l) i = Some x.
Proof.
  induction l as [|z l IH]; intros i x y H; destruct i; simpl in *; try discriminate; try reflexivity.
  eapply IH; eauto.
Qed.

Lemma Forall2_refl {A} (R : A -> A -> Prop) : (forall x, R x x) -> forall l, Forall2 R l l.
Proof. intros H l; induction l; constructor; auto. Qed.

Lemma Forall2_upd {A} (R : A -> A -> Prop) :
  (forall x, R x x) ->
  forall (l : list A) i s x, nth_error l i = Some s -> R s x -> Forall2 R l (upd i x l).
Proof.
  intros Hrefl. induction l as [|y l IH]; intros i s x H HR; destruct i; simpl in *; try discriminate.
  - inversion H; subst. constructor; [exact HR | apply Forall2_refl; exact Hrefl].
  - constructor; [apply Hrefl | eapply IH; eauto].
Qed.

Lemma Forall2_trans {A} (R : A -> A -> Prop) :
  (forall x y z, R x y -> R y z -> R x z) ->
  forall l1 l2 l3, Forall2 R l1 l2 -> Forall2 R l2 l3 -> Forall2 R l1 l3.
Proof.
  intros Ht l1 l2 l3 H12; revert l3; induction H12; intros l3 H23; inversion H23; subst; constructor; eauto.
Qed.

Lemma Forall2_nth_error_r {A} (R : A -> A -> Prop) :
  forall l1 l2 i y, Forall2 R l1 l2 -> nth_error l2 i = Some y -> exists x, nth_error l1 i = Some x /\ R x y.
Proof.
  intros l1 l2 i y H; revert i; induction H; intros i Hn; destruct i; simpl in *; try discriminate.
  - inversion Hn; subst; eauto.
  - eauto.
Qed.

Lemma In_nth_error_lt {A} : forall (l : list A) x, In x l -> exists i, (i < length l)%nat /\ nth_error l i = Some x.
Proof.
  intros l x H. apply In_nth_error in H. destruct H as [i Hi]. exists i; split; auto.
  apply nth_error_Some. congruence.
Qed.

(* ------------------------------------------------------------------ shard data *)

(* what `report` (error counter / move to degraded) may change: nothing but the mode and the
   counter, and the mode only towards "degraded" *)
Definition evolves (s s1 : shard) : Prop :=
  s_meta s1 = s_meta s /\ s_garb s1 = s_garb s /\ s_blob s1 = s_blob s /\ s_frd s1 = s_frd s /\
  (s_deg s = true -> s_deg s1 = true).

Lemma evolves_refl : forall s, evolves s s.
Proof. intros; repeat split; auto. Qed.
Lemma evolves_trans : forall a b c, evolves a b -> evolves b c -> evolves a c.
Proof.
  intros a b c (A1 & A2 & A3 & A4 & A5) (B1 & B2 & B3 & B4 & B5); repeat split; try congruence; auto.
Qed.

Lemma status_data : forall s s1 e a, s_meta s1 = s_meta s -> s_garb s1 = s_garb s ->
  obj_status s1 e a = obj_status s e a.
Proof.
  intros s s1 e a H1 H2. unfold obj_status, is_expired, locked, in_garbage, tombstoned.
  rewrite H1, H2. reflexivity.
Qed.

Lemma meta_exists_data : forall s s1 e a, evolves s s1 -> meta_exists s1 e a = meta_exists s e a.
Proof.
  intros s s1 e a (H1 & H2 & _). unfold meta_exists. rewrite (status_data s s1 e a H1 H2), H1. reflexivity.
Qed.

Lemma blob_read_data : forall s s1 a, evolves s s1 -> blob_read s1 a = blob_read s a.
Proof. intros s s1 a (_ & _ & H3 & H4 & _). unfold blob_read. rewrite H3, H4. reflexivity. Qed.

Lemma report_other : forall t i st j, i <> j -> nth_error (report t i st) j = nth_error st j.
Proof.
  intros t i st j Hij. unfold report. destruct (nth_error st i); auto. apply nth_error_upd_neq; auto.
Qed.

Lemma report_evolves : forall t i st, Forall2 evolves st (report t i st).
Proof.
  intros t i st. unfold report. destruct (nth_error st i) as [s|] eqn:Hs.
  - eapply Forall2_upd; eauto using evolves_refl.
    destruct (negb (t =? 0) && (t <=? s_err s + 1)); unfold evolves, set_mode; simpl; repeat split; auto.
  - apply Forall2_refl, evolves_refl.
Qed.

(* ------------------------------------------------------------------ one shard *)

(* what the engine gets from shard s when it visits it in its current mode *)
Definition sget (s : shard) (e : N) (a : oid) : sres := fst (sh_get s e a (s_deg s)).

Lemma sh_head_sget : forall s e a, sh_head s e a = sget s e a.
Proof.
  intros. unfold sh_head, sget, sh_get. rewrite orb_diag. destruct (s_deg s); simpl; auto.
  destruct (meta_exists s e a) as [[|]| | | |]; simpl; auto. destruct (blob_read s a); reflexivity.
Qed.

Lemma blob_read_found : forall s a b, blob_read s a = SFound b -> s_frd s = false /\ lookup a (s_blob s) = Some b.
Proof.
  unfold blob_read; intros s a b H. destruct (s_frd s); try discriminate.
  destruct (lookup a (s_blob s)); inversion H; auto.
Qed.

Lemma blob_read_not_removed : forall s a, blob_read s a <> SRemoved /\ blob_read s a <> SExpired.
Proof. unfold blob_read; intros; destruct (s_frd s); [|destruct (lookup a (s_blob s))]; split; discriminate. Qed.

Lemma meta_exists_ok : forall s e a x, meta_exists s e a = ExOk x ->
  removed_on s e a = false /\ x = has a (s_meta s).
Proof.
  unfold meta_exists, removed_on; intros s e a x H. destruct (obj_status s e a); inversion H; auto.
Qed.

Lemma meta_exists_avail : forall s e a, removed_on s e a = false -> meta_exists s e a = ExOk (has a (s_meta s)).
Proof.
  unfold meta_exists, removed_on; intros s e a H. destruct (obj_status s e a); simpl in H; try discriminate; auto.
Qed.

Lemma blob_is_true : forall s a b, lookup a (s_blob s) = Some b -> blob_is s a b = true.
Proof. unfold blob_is; intros s a b H; rewrite H; apply N.eqb_refl. Qed.

Lemma blob_is_inv : forall s a b, blob_is s a b = true -> lookup a (s_blob s) = Some b.
Proof.
  unfold blob_is; intros s a b H. destruct (lookup a (s_blob s)); try discriminate.
  apply N.eqb_eq in H; subst; auto.
Qed.

(* a shard answers Found only if it is a readable holder, and then it is degraded or does
   not record a removal *)
Lemma sget_found : forall s e a b, sget s e a = SFound b ->
  holdsb s a b = true /\ has a (s_blob s) = true /\ (s_deg s = true \/ removed_on s e a = false).
Proof.
  intros s e a b. unfold sget, sh_get, holdsb, has. rewrite orb_diag. destruct (s_deg s) eqn:Hd; simpl.
  - intros H. apply blob_read_found in H. destruct H as [Hf Hl]. rewrite (blob_is_true _ _ _ Hl), Hf, Hl. auto.
  - destruct (meta_exists s e a) as [[|]| | | |] eqn:Hm; simpl; try discriminate.
    destruct (blob_read s a) eqn:Hb; simpl; try discriminate. intros H; inversion H; subst.
    apply blob_read_found in Hb. destruct Hb as [Hf Hl]. apply meta_exists_ok in Hm. destruct Hm as [Hr Hx].
    rewrite (blob_is_true _ _ _ Hl), Hf, Hl. unfold has in Hx. rewrite <- Hx. auto.
Qed.

Lemma sget_removed : forall s e a, sget s e a = SRemoved \/ sget s e a = SExpired ->
  s_deg s = false /\ removed_on s e a = true.
Proof.
  intros s e a. unfold sget, sh_get. rewrite orb_diag. destruct (s_deg s); simpl.
  - intros [H|H]; destruct (blob_read_not_removed s a); contradiction.
  - destruct (blob_read_not_removed s a) as [N1 N2].
    unfold meta_exists, removed_on. destruct (obj_status s e a); simpl.
    + destruct (has a (s_meta s)); simpl.
      * destruct (blob_read s a) eqn:Hb; simpl; intros [H|H]; try discriminate; congruence.
      * intros [H|H]; discriminate.
    + intros [H|H]; discriminate.
    + intros _; auto.
    + intros _; auto.
Qed.

(* a readable holder that records no removal answers Found *)
Lemma sget_holds : forall s e a b, removed_on s e a = false -> holdsb s a b = true -> sget s e a = SFound b.
Proof.
  intros s e a b Hr Hh. unfold holdsb in Hh. apply andb_prop in Hh. destruct Hh as [Hh Hm].
  apply andb_prop in Hh. destruct Hh as [Hb Hf]. apply blob_is_inv in Hb. apply negb_true_iff in Hf.
  unfold sget, sh_get. rewrite orb_diag. destruct (s_deg s) eqn:Hd; simpl.
  - unfold blob_read. rewrite Hf, Hb. reflexivity.
  - simpl in Hm. rewrite (meta_exists_avail _ _ _ Hr), Hm. unfold blob_read. rewrite Hf, Hb. reflexivity.
Qed.

(* ------------------------------------------------------------------ the first scan *)

Fixpoint scan_res (e : N) (a : oid) (ord : list nat) (st : list shard) : option gres :=
  match ord with
  | [] => None
  | i :: r =>
    match nth_error st i with
    | None => scan_res e a r st
    | Some s =>
      match sget s e a with
      | SFound b => Some (GFound b)
      | SNotFound | SIO => scan_res e a r st
      | SRemoved => Some GRemoved
      | SExpired => Some GNotFound
      end
    end
  end.

Lemma scan_res_ext : forall e a ord st st',
  (forall j, In j ord -> nth_error st j = nth_error st' j) -> scan_res e a ord st = scan_res e a ord st'.
Proof.
  induction ord as [|i r IH]; intros st st' H; simpl; auto.
  rewrite <- (H i) by (left; auto). rewrite (IH st st') by (intros; apply H; right; auto). reflexivity.
Qed.

Lemma scan1_res : forall t e a ord st hd wm, NoDup ord ->
  fst (fst (fst (scan1 t e a ord st hd wm))) = scan_res e a ord st.
Proof.
  induction ord as [|i r IH]; intros st hd wm Hnd; simpl; auto.
  inversion Hnd; subst. destruct (nth_error st i) as [s|] eqn:Hs; auto.
  unfold sget. destruct (sh_get s e a (s_deg s)) as [res mno] eqn:Hg. simpl.
  destruct res; simpl; auto.
  rewrite IH by auto. apply scan_res_ext. intros j Hj. apply report_other. intro; subst; contradiction.
Qed.

Lemma scan1_evolves : forall t e a ord st hd wm,
  Forall2 evolves st (snd (fst (fst (scan1 t e a ord st hd wm)))).
Proof.
  induction ord as [|i r IH]; intros st hd wm; simpl.
  - apply Forall2_refl, evolves_refl.
  - destruct (nth_error st i) as [s|] eqn:Hs; auto.
    destruct (sh_get s e a (s_deg s)) as [res mno] eqn:Hg.
    destruct res; simpl; auto; try (apply Forall2_refl, evolves_refl).
    eapply Forall2_trans; [apply evolves_trans | apply report_evolves | apply IH].
Qed.

(* what the possible outcomes of the first scan say about the shards *)
Lemma scan_res_found : forall e a ord st b, scan_res e a ord st = Some (GFound b) ->
  exists i s, nth_error st i = Some s /\ sget s e a = SFound b.
Proof.
  induction ord as [|i r IH]; intros st b H; simpl in H; try discriminate.
  destruct (nth_error st i) as [s|] eqn:Hs; auto.
  destruct (sget s e a) eqn:Hg; auto; try discriminate. inversion H; subst. eauto.
Qed.

Lemma scan_res_stopped : forall e a ord st, scan_res e a ord st = Some GRemoved \/ scan_res e a ord st = Some GNotFound ->
  exists i s, nth_error st i = Some s /\ s_deg s = false /\ removed_on s e a = true.
Proof.
  induction ord as [|i r IH]; intros st H; simpl in H; try (destruct H; discriminate).
  destruct (nth_error st i) as [s|] eqn:Hs; auto.
  destruct (sget s e a) eqn:Hg; auto.
  - destruct H; discriminate.
  - destruct (sget_removed s e a) as [? ?]; eauto 6.
  - destruct (sget_removed s e a) as [? ?]; eauto 6.
Qed.

(* completeness of the scan: nothing recorded as removed, shard i0 of the order holds b *)
Lemma scan_res_complete : forall e a ord st b i0 s0,
  (forall i s, nth_error st i = Some s -> removed_on s e a = false) ->
  (forall i s b', nth_error st i = Some s -> lookup a (s_blob s) = Some b' -> b' = b) ->
  In i0 ord -> nth_error st i0 = Some s0 -> holdsb s0 a b = true ->
  scan_res e a ord st = Some (GFound b).
Proof.
  induction ord as [|i r IH]; intros st b i0 s0 Hnr Hcoh Hin Hs0 Hh; simpl in *; try contradiction.
  destruct (nth_error st i) as [s|] eqn:Hs.
  - destruct (sget s e a) eqn:Hg.
    + destruct (sget_found _ _ _ _ Hg) as (Hh' & _ & _).
      unfold holdsb in Hh'. apply andb_prop in Hh'. destruct Hh' as [Hh' _]. apply andb_prop in Hh'. destruct Hh' as [Hb _].
      apply blob_is_inv in Hb. rewrite (Hcoh i s b0 Hs Hb). reflexivity.
    + destruct Hin as [->|Hin]; [|eapply IH; eauto].
      rewrite Hs in Hs0; inversion Hs0; subst. rewrite (sget_holds _ _ _ _ (Hnr _ _ Hs) Hh) in Hg. discriminate.
    + destruct (sget_removed s e a) as [_ Hr]; auto. rewrite (Hnr _ _ Hs) in Hr. discriminate.
    + destruct (sget_removed s e a) as [_ Hr]; auto. rewrite (Hnr _ _ Hs) in Hr. discriminate.
    + destruct Hin as [->|Hin]; [|eapply IH; eauto].
      rewrite Hs in Hs0; inversion Hs0; subst. rewrite (sget_holds _ _ _ _ (Hnr _ _ Hs) Hh) in Hg. discriminate.
  - destruct Hin as [->|Hin]; [congruence|eapply IH; eauto].
Qed.

(* ------------------------------------------------------------------ the second scan *)

Lemma scan2_found : forall e a ord st b, scan2 e a ord st = Some b ->
  exists i s, nth_error st i = Some s /\ s_deg s = false /\
              (exists x, meta_exists s e a = ExOk x) /\ blob_read s a = SFound b.
Proof.
  induction ord as [|i r IH]; intros st b H; simpl in H; try discriminate.
  destruct (nth_error st i) as [s|] eqn:Hs; auto.
  destruct (s_deg s) eqn:Hd; auto.
  destruct (meta_exists s e a) eqn:Hm; auto.
  destruct (blob_read s a) eqn:Hb; auto. inversion H; subst. exists i, s. eauto 8.
Qed.

(* ------------------------------------------------------------------ reference predicates *)

Lemma removedb_false : forall st e a, removedb st e a = false ->
  forall i s, nth_error st i = Some s -> removed_on s e a = false.
Proof.
  intros st e a H i s Hs. unfold removedb in H.
  destruct (removed_on s e a) eqn:Hr; auto.
  assert (existsb (fun s => removed_on s e a) st = true) by (apply existsb_exists; exists s; split; eauto using nth_error_In).
  congruence.
Qed.

Lemma removedb_true : forall st e a i s, nth_error st i = Some s -> removed_on s e a = true -> removedb st e a = true.
Proof. intros. apply existsb_exists. exists s; split; eauto using nth_error_In. Qed.

Lemma coherent_spec : forall st a, coherent st a = true ->
  forall i s j s' b b', nth_error st i = Some s -> nth_error st j = Some s' ->
    lookup a (s_blob s) = Some b -> lookup a (s_blob s') = Some b' -> b = b'.
Proof.
  intros st a H i s j s' b b' Hs Hs' Hb Hb'. unfold coherent in H.
  rewrite forallb_forall in H. specialize (H s (nth_error_In _ _ Hs)).
  rewrite forallb_forall in H. specialize (H s' (nth_error_In _ _ Hs')).
  rewrite Hb, Hb' in H. apply N.eqb_eq in H. auto.
Qed.

Lemma stored_readable_spec : forall st a b, stored_readable st a b = true <->
  exists i s, nth_error st i = Some s /\ holdsb s a b = true.
Proof.
  intros. unfold stored_readable. rewrite existsb_exists. split.
  - intros (s & Hin & Hh). apply In_nth_error in Hin. destruct Hin as [i Hi]. eauto.
  - intros (i & s & Hs & Hh). exists s; split; eauto using nth_error_In.
Qed.

(* consistent, removal recorded  ==>  no shard holding the bytes may answer Found *)
Lemma holders_know_spec : forall st e a, holders_know st e a = true ->
  forall i s, nth_error st i = Some s -> has a (s_blob s) = true -> s_deg s = false /\ removed_on s e a = true.
Proof.
  intros st e a H i s Hs Hb. unfold holders_know in H. rewrite forallb_forall in H.
  specialize (H s (nth_error_In _ _ Hs)). rewrite Hb in H. simpl in H.
  apply andb_prop in H. destruct H as [H1 H2]. apply negb_true_iff in H1. auto.
Qed.

Lemma no_orphan_spec : forall st a, no_orphan st a = true ->
  forall i s, nth_error st i = Some s -> s_deg s = false -> has a (s_blob s) = true -> has a (s_meta s) = true.
Proof.
  intros st a H i s Hs Hd Hb. unfold no_orphan in H. rewrite forallb_forall in H.
  specialize (H s (nth_error_In _ _ Hs)). rewrite Hd, Hb in H. simpl in H. auto.
Qed.

Lemma perm_facts : forall (st : list shard) ord, Permutation ord (seq 0 (length st)) ->
  NoDup ord /\ forall i, (i < length st)%nat -> In i ord.
Proof.
  intros st ord H. split.
  - eapply Permutation_NoDup; [apply Permutation_sym; eauto | apply seq_NoDup].
  - intros i Hi. eapply Permutation_in; [apply Permutation_sym; eauto|]. apply in_seq. lia.
Qed.

(* ------------------------------------------------------------------ soundness of a Found answer *)

Lemma found_sound_scan : forall st e a ord b,
  consistent st e a = true -> scan_res e a ord st = Some (GFound b) ->
  stored_readable st a b = true /\ removedb st e a = false.
Proof.
  intros st e a ord b Hc H. apply scan_res_found in H. destruct H as (i & s & Hs & Hg).
  destruct (sget_found _ _ _ _ Hg) as (Hh & Hb & Hor).
  split; [apply stored_readable_spec; eauto|].
  unfold consistent in Hc. apply andb_prop in Hc. destruct Hc as [_ Hc].
  destruct (removedb st e a) eqn:Hr; auto. simpl in Hc.
  destruct (holders_know_spec _ _ _ Hc _ _ Hs Hb) as [Hd Hro]. destruct Hor; congruence.
Qed.

Lemma get_found_sound : forall t st e a ord b,
  NoDup ord -> consistent st e a = true ->
  fst (engine_get t e a ord st) = GFound b ->
  stored_readable st a b = true /\ removedb st e a = false.
Proof.
  intros t st e a ord b Hnd Hc H. unfold engine_get in H.
  pose proof (scan1_res t e a ord st false None Hnd) as Hres.
  pose proof (scan1_evolves t e a ord st false None) as Hev.
  destruct (scan1 t e a ord st false None) as [[[r st1] hd] wm]. simpl in Hres, Hev.
  destruct r as [g|].
  - simpl in H. subst g. eapply found_sound_scan; eauto.
  - assert (Hsc : forall b', scan2 e a ord st1 = Some b' ->
                    stored_readable st a b' = true /\ removedb st e a = false).
    { intros b' H2. apply scan2_found in H2. destruct H2 as (i & s1 & Hs1 & Hd1 & (x & Hm1) & Hb1).
      destruct (Forall2_nth_error_r _ _ _ _ _ Hev Hs1) as (s & Hs & Hevs).
      rewrite (meta_exists_data _ _ e a Hevs) in Hm1. rewrite (blob_read_data _ _ a Hevs) in Hb1.
      assert (Hd : s_deg s = false).
      { destruct (s_deg s) eqn:Hd; auto. destruct Hevs as (_ & _ & _ & _ & Hm). rewrite Hm in Hd1; auto. }
      apply meta_exists_ok in Hm1. destruct Hm1 as [Hr _].
      apply blob_read_found in Hb1. destruct Hb1 as [Hf Hl].
      assert (Hhb : has a (s_blob s) = true) by (unfold has; rewrite Hl; auto).
      unfold consistent in Hc. apply andb_prop in Hc. destruct Hc as [Hc1 Hc2].
      apply andb_prop in Hc1. destruct Hc1 as [_ Hno].
      split.
      - apply stored_readable_spec. exists i, s. split; auto. unfold holdsb.
        rewrite (blob_is_true _ _ _ Hl), Hf, Hd, (no_orphan_spec _ _ Hno _ _ Hs Hd Hhb). reflexivity.
      - destruct (removedb st e a) eqn:Hrm; auto. simpl in Hc2.
        destruct (holders_know_spec _ _ _ Hc2 _ _ Hs Hhb) as [_ Hro]. congruence. }
    destruct hd; [|destruct wm as [[j lg]|]]; simpl in H;
      try (destruct (scan2 e a ord st1) as [b'|] eqn:H2; simpl in H; inversion H; subst; apply Hsc; reflexivity).
    all: try discriminate.
Qed.

(* ------------------------------------------------------------------ completeness *)

Lemma scan_complete_st : forall st e a ord b,
  (forall i, (i < length st)%nat -> In i ord) ->
  coherent st a = true -> removedb st e a = false -> stored_readable st a b = true ->
  scan_res e a ord st = Some (GFound b).
Proof.
  intros st e a ord b Hin Hcoh Hr Hst. apply stored_readable_spec in Hst. destruct Hst as (i0 & s0 & Hs0 & Hh).
  apply (scan_res_complete e a ord st b i0 s0).
  - intros i s Hs. eapply removedb_false; eauto.
  - intros i s b' Hs Hl. unfold holdsb in Hh. apply andb_prop in Hh. destruct Hh as [Hh _].
    apply andb_prop in Hh. destruct Hh as [Hb _]. apply blob_is_inv in Hb.
    exact (coherent_spec st a Hcoh i s i0 s0 b' b Hs Hs0 Hl Hb).
  - apply Hin. apply nth_error_Some. congruence.
  - exact Hs0.
  - exact Hh.
Qed.

Lemma get_complete : forall t st e a ord b,
  Permutation ord (seq 0 (length st)) ->
  coherent st a = true -> removedb st e a = false -> stored_readable st a b = true ->
  fst (engine_get t e a ord st) = GFound b.
Proof.
  intros t st e a ord b Hp Hcoh Hr Hst. destruct (perm_facts _ _ Hp) as [Hnd Hin].
  unfold engine_get.
  pose proof (scan1_res t e a ord st false None Hnd) as Hres.
  destruct (scan1 t e a ord st false None) as [[[r st1] hd] wm]. simpl in Hres.
  rewrite (scan_complete_st st e a ord b Hin Hcoh Hr Hst) in Hres. subst r. reflexivity.
Qed.

(* ------------------------------------------------------------------ the C20 statements *)

Theorem get_iff_partial : forall t st e a ord b,
  Permutation ord (seq 0 (length st)) -> consistent st e a = true ->
  (fst (engine_get t e a ord st) = GFound b <->
   stored_readable st a b = true /\ removedb st e a = false).
Proof.
  intros t st e a ord b Hp Hc. split.
  - intros H. destruct (perm_facts _ _ Hp) as [Hnd _]. eapply get_found_sound; eauto.
  - intros [Hs Hr]. apply get_complete; auto.
    unfold consistent in Hc. apply andb_prop in Hc. destruct Hc as [Hc _].
    apply andb_prop in Hc. destruct Hc; auto.
Qed.

(* an error, a fault or any mode of other shards never hides a readable copy of an object
   that is not removed *)
Theorem error_does_not_hide : forall t st e a ord b,
  Permutation ord (seq 0 (length st)) -> coherent st a = true ->
  removedb st e a = false -> stored_readable st a b = true ->
  fst (engine_get t e a ord st) = GFound b.
Proof. intros; apply get_complete; auto. Qed.

Theorem removed_stays_removed_partial : forall t st e a ord b,
  Permutation ord (seq 0 (length st)) -> consistent st e a = true ->
  removedb st e a = true -> fst (engine_get t e a ord st) <> GFound b.
Proof.
  intros t st e a ord b Hp Hc Hr H. destruct (perm_facts _ _ Hp) as [Hnd _].
  destruct (get_found_sound t st e a ord b Hnd Hc H) as [_ H']. congruence.
Qed.

(* Head: one scan, same answers per shard *)
Lemma head_res : forall t e a ord st, NoDup ord ->
  fst (engine_head t e a ord st) = match scan_res e a ord st with Some g => g | None => GNotFound end.
Proof.
  induction ord as [|i r IH]; intros st Hnd; simpl; auto.
  inversion Hnd; subst. destruct (nth_error st i) as [s|] eqn:Hs; auto.
  rewrite sh_head_sget. destruct (sget s e a); simpl; auto.
  rewrite IH by auto. rewrite (scan_res_ext e a r (report t i st) st); auto.
  intros j Hj. apply report_other. intro; subst; contradiction.
Qed.

Theorem head_iff_partial : forall t st e a ord b,
  Permutation ord (seq 0 (length st)) -> consistent st e a = true ->
  (fst (engine_head t e a ord st) = GFound b <->
   stored_readable st a b = true /\ removedb st e a = false).
Proof.
  intros t st e a ord b Hp Hc. destruct (perm_facts _ _ Hp) as [Hnd Hin].
  rewrite head_res by auto. split.
  - intros H. destruct (scan_res e a ord st) as [g|] eqn:Hsr; try discriminate. subst g.
    eapply found_sound_scan; eauto.
  - intros [Hs Hr]. rewrite (scan_complete_st st e a ord b); auto.
    unfold consistent in Hc. apply andb_prop in Hc. destruct Hc as [Hc _].
    apply andb_prop in Hc. destruct Hc; auto.
Qed.
