(* Engine family (C08): histories with locks, tombstones, GC passes and epochs:
   correspondence with the model and the reference check "an accepted lock keeps its
   object retrievable until it expires". *)
From Coq Require Import List NArith Bool Arith.
Import ListNotations.
From NV Require Import Engine.Model Engine.Spec Engine.Check Engine.Gc.
Local Open Scope N_scope.

Inductive eop8 :=
| O8 (o : eop)                                           (* the operations of Check.v *)
| ONewEpoch (e : N)                                      (* engine epoch + every shard's GC epoch *)
| OGcx (s : nat) (outc : list N) (ords : list (list nat)). (* GC pass incl. expired processing *)

Record state8 := St8 { s8_en : engine; s8_gc : list gcst }.

Definition init8 (n : nat) (t : N) : state8 := St8 (init_engine n t) (repeat (GcSt 0 0) n).

Definition nthN (l : list N) (a : oid) : N := nth (N.to_nat a) l 0.
Definition nthL (l : list (list nat)) (a : oid) : list nat := nth (N.to_nat a) l [].

(* result code, tag, new state; None = impossible observation *)
Definition step8 (u : universe) (rank : list oid) (s : state8) (o : eop8) : option (N * N * state8) :=
  let en := s8_en s in
  match o with
  | O8 o' => let '(c, tg, en') := step u en o' in Some (c, tg, St8 en' (s8_gc s))
  | ONewEpoch e =>
    Some (0, 0, St8 (Engine (shards en) e (thr en)) (map (fun g => GcSt e (g_done g)) (s8_gc s)))
  | OGcx i outc ords =>
    match gc_pass (thr en) (epoch en) i rank (nthN outc) (nthL ords) (shards en) (s8_gc s) with
    | Some (st', gcs') => Some (0, 0, St8 (Engine st' (epoch en) (thr en)) gcs')
    | None => None
    end
  end.

Definition hist8 := (nat * N * universe * list oid * list (eop8 * obs))%type.

Fixpoint first_mismatch8 (u : universe) (rank : list oid) (s : state8) (k : nat)
         (ops : list (eop8 * obs)) : option nat :=
  match ops with
  | [] => None
  | (o, ob) :: r =>
    match step8 u rank s o with
    | None => Some k
    | Some (c, tg, s') =>
      if obs_ok c tg (s8_en s') ob then first_mismatch8 u rank s' (S k) r else Some k
    end
  end.

Definition hist_mismatch8 (h : hist8) : option nat :=
  let '(n, t, u, rank, ops) := h in first_mismatch8 u rank (init8 n t) 0 ops.

Fixpoint model_mismatches8_from (j : N) (hs : list hist8) : list N :=
  match hs with
  | [] => []
  | h :: r => match hist_mismatch8 h with
              | Some k => (j * 1000 + N.of_nat k) :: model_mismatches8_from (j + 1) r
              | None => model_mismatches8_from (j + 1) r
              end
  end.
Definition model_mismatches8 := model_mismatches8_from 0.

(* ---------------- reference: accepted lock => target stays retrievable ---------------- *)

(* The premise of the partial theorem, evaluated on the state right after the lock was
   accepted: the lock record reached every shard and is effective there, the object
   carries no garbage mark / tombstone anywhere, a readable copy with metadata exists. *)
Definition lock_everywhere (st : list shard) (x l : oid) (ex : option N) : bool :=
  forallb (fun s =>
    match lookup l (s_meta s) with
    | Some (MRec (KLock t) ex') => (t =? x) && match ex, ex' with
                                             | Some a, Some b => a =? b
                                             | None, None => true
                                             | _, _ => false end
    | _ => false
    end
    && negb (has l (s_garb s)) && negb (tombstoned s l)) st.
Definition unmarked (st : list shard) (x : oid) : bool :=
  forallb (fun s => negb (has x (s_garb s)) && negb (tombstoned s x)) st.
Definition held (st : list shard) (x : oid) (b : bytes) : bool :=
  existsb (fun s => blob_is s x b && has x (s_meta s)) st.
Definition no_read_faults (st : list shard) : bool := forallb (fun s => negb (s_frd s)) st.
Definition same_bytes (st : list shard) (x : oid) (b : bytes) : bool :=
  forallb (fun s => match lookup x (s_blob s) with Some b' => b' =? b | None => true end) st.

Definition c08_inv (st : list shard) (x l : oid) (ex : option N) (b : bytes) : bool :=
  lock_everywhere st x l ex && unmarked st x && held st x b && no_read_faults st && same_bytes st x b.

(* obligation: target index, lock index, lock expiration, premise held at acceptance,
   armed (the target was read successfully after the acceptance) *)
Record oblig := Ob { ob_x : nat; ob_l : nat; ob_ex : option N; ob_inv : bool; ob_armed : bool }.

Definition lock_alive (e : N) (ex : option N) : bool :=
  match ex with Some x => e <=? x | None => true end.

(* deviation classes: 1 = the premise of the partial theorem held (must not happen);
   20 = the lock did not reach every shard / the object was already marked *)
Definition read_obligs (e : N) (x : nat) (found : bool) (obs : list oblig) : list oblig * list nat :=
  fold_right (fun o acc =>
    let '(keep, devs) := acc in
    if negb ((ob_x o =? x)%nat) then (o :: keep, devs)
    else if negb (lock_alive e (ob_ex o)) then (keep, devs)           (* expired: obligation over *)
    else if ob_armed o then
      (if found then (o :: keep, devs)
       else (keep, (if ob_inv o then 1%nat else 20%nat) :: devs))
    else (if found then (Ob (ob_x o) (ob_l o) (ob_ex o) (ob_inv o) true :: keep, devs)
          else (keep, devs))) ([], []) obs.

Definition lock_target (u : universe) (i : nat) : option (nat * option N) :=
  match nth_error u i with
  | Some (MRec (KLock t) ex) => Some (N.to_nat t, ex)
  | _ => None
  end.

Fixpoint ref_devs8 (u : universe) (rank : list oid) (s : state8) (obls : list oblig) (k : nat)
         (ops : list (eop8 * obs)) : list (nat * nat) :=
  match ops with
  | [] => []
  | (o, ob) :: r =>
    match step8 u rank s o with
    | None => []
    | Some (_, _, s') =>
      let e := epoch (s8_en s') in
      let '(obls1, devs) :=
        match o with
        | O8 (OGet x _) | O8 (OHead x _) => read_obligs e x (o_res ob =? 0) obls
        | O8 (OPut i _ _ _) =>
          match lock_target u i with
          | Some (x, ex) =>
            if (o_res ob =? 0) && lock_alive e ex
               && negb (existsb (fun o' => (ob_l o' =? i)%nat) obls) then
              (Ob x i ex (c08_inv (shards (s8_en s')) (oid_of x) (oid_of i) ex (bytes_of x)) false :: obls, [])
            else (obls, [])
          | None => (obls, [])
          end
        | _ => (obls, [])
        end in
      map (fun c => (k, c)) devs ++ ref_devs8 u rank s' obls1 (S k) r
    end
  end.

Definition hist_devs8 (h : hist8) : list (nat * nat) :=
  let '(n, t, u, rank, ops) := h in ref_devs8 u rank (init8 n t) [] 0 ops.

Fixpoint all_devs8_from (j : N) (hs : list hist8) : list N :=
  match hs with
  | [] => []
  | h :: r =>
    map (fun p => (j * 1000 + N.of_nat (fst p)) * 100 + N.of_nat (snd p)) (hist_devs8 h)
    ++ all_devs8_from (j + 1) r
  end.
Definition all_devs8 := all_devs8_from 0.

(* coverage: number of armed obligations checked at reads, with / without the premise *)
Fixpoint count_obl8 (u : universe) (rank : list oid) (s : state8) (obls : list oblig)
         (ops : list (eop8 * obs)) : N * N :=
  match ops with
  | [] => (0, 0)
  | (o, ob) :: r =>
    match step8 u rank s o with
    | None => (0, 0)
    | Some (_, _, s') =>
      let e := epoch (s8_en s') in
      let here :=
        match o with
        | O8 (OGet x _) | O8 (OHead x _) =>
          let act := filter (fun o' => (ob_x o' =? x)%nat && ob_armed o' && lock_alive e (ob_ex o')) obls in
          (N.of_nat (length (filter ob_inv act)), N.of_nat (length act))
        | _ => (0, 0)
        end in
      let obls1 :=
        match o with
        | O8 (OGet x _) | O8 (OHead x _) => fst (read_obligs e x (o_res ob =? 0) obls)
        | O8 (OPut i _ _ _) =>
          match lock_target u i with
          | Some (x, ex) =>
            if (o_res ob =? 0) && lock_alive e ex
               && negb (existsb (fun o' => (ob_l o' =? i)%nat) obls) then
              Ob x i ex (c08_inv (shards (s8_en s')) (oid_of x) (oid_of i) ex (bytes_of x)) false :: obls
            else obls
          | None => obls
          end
        | _ => obls
        end in
      let '(a, b) := count_obl8 u rank s' obls1 r in (fst here + a, snd here + b)
    end
  end.
Definition obl_stats8 (hs : list hist8) : list N :=
  let l := map (fun h : hist8 => let '(n, t, u, rank, ops) := h in count_obl8 u rank (init8 n t) [] ops) hs in
  [fold_right (fun p acc => fst p + acc) 0 l; fold_right (fun p acc => snd p + acc) 0 l].
