(* Engine family (C19): histories with an evacuation: correspondence of the real engine with the
   model (every operation, a per-shard probe of every address before and after) and the
   reference checks of the three C19 statements on the implementation's observations. *)
From Coq Require Import List NArith Bool Arith.
Import ListNotations.
From NV Require Import Engine.Model Engine.Spec Engine.Check Engine.Gc Engine.Check8
                       Engine.Evac Engine.EvacSpec.
Local Open Scope N_scope.

Inductive eop19 :=
| E19 (o : eop)                                   (* the operations of Check.v *)
| OEvac (srcs : list nat) (ign : bool) (fh : option (list oid)) (ords : list (list nat))
| OProbe                                          (* every shard asked for every address *)
| OIsLocked (i : nat) (rem : list nat)            (* StorageEngine.IsLocked over the shards rem *)
| ODetach (srcs : list nat).                      (* source shards removed from the engine *)

Record obs19 := Obs19 { o19 : obs; o19_extra : list N }.

Definition code_of_ev (c : evcode) : N :=
  match c with EvOk => 0 | EvNoShard => 1 | EvNotRO => 2 | EvNoSpare => 3 | EvDegraded => 4
             | EvGet => 5 | EvPut => 6 | EvHandler => 7 end.

(* probe of one address on one shard: Shard.Get class (0 not found, 1 removed, 2 expired, 3 I/O
   error, 4 + bytes tag when found), Shard.IsLocked (0 on a shard without metabase), data
   present in the blob storage *)
Definition probe_code (s : shard) (e : N) (a : oid) : N :=
  let g := match fst (sh_get s e a false) with
           | SNotFound => 0 | SRemoved => 1 | SExpired => 2 | SIO => 3 | SFound b => 4 + b end in
  g * 4 + (if negb (s_deg s) && locked s e a then 2 else 0) + (if has a (s_blob s) then 1 else 0).

Definition probe_vec (u : universe) (en : engine) : list N :=
  flat_map (fun s => map (fun i => probe_code s (epoch en) (oid_of i)) (seq 0 (length u))) (shards en).

Definition pick (st : list shard) (idx : list nat) : list shard :=
  flat_map (fun j => match nth_error st j with Some s => [s] | None => [] end) idx.

(* one step: result code, tag, extra, new engine; None = impossible observation *)
Definition step19 (u : universe) (rank : list oid) (en : engine) (o : eop19) (ob : obs19)
  : option (N * N * list N * engine) :=
  match o with
  | E19 o' => let '(c, tg, en') := step u en o' in Some (c, tg, [], en')
  | OEvac srcs ign fh ords =>
    let '(c, x) := evacuate (thr en) (epoch en) srcs ign fh rank (nthL ords) (shards en) in
    Some (code_of_ev c, ev_cnt x, rev (ev_handed x), Engine (ev_st x) (epoch en) (thr en))
  | OProbe => Some (0, 0, probe_vec u en, en)
  | OIsLocked i rem =>
    if lock_outcome_ok (pick (shards en) rem) (epoch en) (oid_of i) (o_res (o19 ob))
    then Some (o_res (o19 ob), 0, [], en) else None
  | ODetach _ => Some (0, 0, [], en)
  end.

Definition obs19_ok (c tg : N) (ex : list N) (en : engine) (ob : obs19) : bool :=
  obs_ok c tg en (o19 ob) && list_N_eqb ex (o19_extra ob).

Definition hist19 := (nat * N * universe * list oid * list (eop19 * obs19))%type.

Fixpoint first_mismatch19 (u : universe) (rank : list oid) (en : engine) (k : nat)
         (ops : list (eop19 * obs19)) : option nat :=
  match ops with
  | [] => None
  | (o, ob) :: r =>
    match step19 u rank en o ob with
    | None => Some k
    | Some (c, tg, ex, en') =>
      if obs19_ok c tg ex en' ob then first_mismatch19 u rank en' (S k) r else Some k
    end
  end.

Definition hist_mismatch19 (h : hist19) : option nat :=
  let '(n, t, u, rank, ops) := h in first_mismatch19 u rank (init_engine n t) 0 ops.

Fixpoint model_mismatches19_from (j : N) (hs : list hist19) : list N :=
  match hs with
  | [] => []
  | h :: r => match hist_mismatch19 h with
              | Some k => (j * 1000 + N.of_nat k) :: model_mismatches19_from (j + 1) r
              | None => model_mismatches19_from (j + 1) r
              end
  end.
Definition model_mismatches19 := model_mismatches19_from 0.

(* the model's observation at operation k (replay files): [code; tag] ++ extra *)
Fixpoint model_obs19_at (u : universe) (rank : list oid) (en : engine) (k : nat)
         (ops : list (eop19 * obs19)) : list N :=
  match ops with
  | [] => []
  | (o, ob) :: r =>
    match step19 u rank en o ob with
    | None => [999]
    | Some (c, tg, ex, en') =>
      match k with
      | O => [c; tg] ++ ex
      | S k' => model_obs19_at u rank en' k' r
      end
    end
  end.
Definition hist_obs19_at (h : hist19) (k : nat) : list N :=
  let '(n, t, u, rank, ops) := h in model_obs19_at u rank (init_engine n t) k ops.

(* ---------------- reference checks ---------------- *)

(* what is remembered about the last evacuation: sources, shards and epoch before, the
   implementation's result code and handed addresses, the implementation's last probe before *)
Record evinfo := EvInfo { ei_srcs : list nat; ei_before : list shard; ei_e : N;
                          ei_res : N; ei_handed : list N; ei_probe : list N }.

(* bytes with which a is available on some source shard before the evacuation *)
Definition src_avail (inf : evinfo) (a : oid) : option bytes :=
  fold_right (fun s acc => match fst (sh_get s (ei_e inf) a false) with SFound b => Some b | _ => acc end)
             None (src_shards (ei_srcs inf) (ei_before inf)).

(* class of a lost object (C19_preserved): 1 = inside the class of the partial theorem (must not
   happen); 30 = kept by a lock on the source but hidden from the listing by its garbage mark /
   tombstone; 31 = expired and kept by a lock on the source; 32 = recorded as removed on another
   shard; 39 = a remaining shard fails reads or has metadata without data (nothing can be
   promised); 14 = different bytes under one address *)
Definition lost_class (inf : evinfo) (a : oid) : nat :=
  let st := ei_before inf in let e := ei_e inf in let srcs := ei_srcs inf in
  if c19_good st e srcs a then 1%nat
  else if negb (forallb (fun s => serves s a) (rem_shards srcs st)) then 39%nat
  else if existsb (fun s => match fst (sh_get s e a false) with
                            | SFound _ => negb (status_eqb (in_garbage s a) StAvail) | _ => false end)
                  (src_shards srcs st) then 30%nat
  else if existsb (fun s => match fst (sh_get s e a false) with
                            | SFound _ => is_expired s e a | _ => false end)
                  (src_shards srcs st) then 31%nat
  else if negb (forallb (fun s => plain_ok s e a) st) then 32%nat
  else 14%nat.

(* class of a changed status: 2 / 3 = lock / tombstone status changed inside the class of the
   partial theorem or was created (must not happen); 40 = lost outside the class (the system
   object was skipped by ignoreErrors, handed to the fault handler, is itself in garbage, or a
   remaining shard has no metabase) *)
Definition status_class (inf : evinfo) (x : oid) (created : bool) (base : nat) : nat :=
  if created then base
  else if c19_status_good (ei_before inf) (ei_e inf) (ei_srcs inf) (ei_handed inf) x then base
  else 40%nat.

Definition sub_probe (u : universe) (j : nat) (p : list N) : list N :=
  firstn (length u) (skipn (j * length u) p).

Fixpoint ref_devs19 (u : universe) (rank : list oid) (en : engine) (last_probe : list N)
         (inf : option evinfo) (k : nat) (ops : list (eop19 * obs19)) : list (nat * nat) :=
  match ops with
  | [] => []
  | (o, ob) :: r =>
    match step19 u rank en o ob with
    | None => []
    | Some (_, _, _, en') =>
      let here : list nat :=
        match o, inf with
        | OEvac srcs _ _ _, _ =>
          (* tombstone status: all shards before against the remaining shards after (model states,
             tied by the probes) *)
          if o_res (o19 ob) =? 0 then
            let inf' := EvInfo srcs (shards en) (epoch en) 0 (o19_extra ob) last_probe in
            flat_map (fun i =>
              let x := oid_of i in
              let before := tombstonedb (shards en) x in
              let after := tombstonedb (rem_shards srcs (shards en')) x in
              if Bool.eqb before after then [] else [status_class inf' x after 3%nat])
              (seq 0 (length u))
          else []
        | OProbe, Some inf' =>
          (* sources unchanged: the implementation's probes of the source shards before / after *)
          if forallb (fun j => list_N_eqb (sub_probe u j (ei_probe inf')) (sub_probe u j (o19_extra ob)))
                     (ei_srcs inf') then [] else [4%nat]
        | E19 (OGet i ord), Some inf' =>
          if (ei_res inf' =? 0) && forallb (fun j => negb (is_src (ei_srcs inf') j)) ord then
            let a := oid_of i in
            match src_avail inf' a with
            | Some b =>
              if existsb (N.eqb a) (ei_handed inf') then []
              else if (o_res (o19 ob) =? 0) && (o_tag (o19 ob) =? b) then []
              else [lost_class inf' a]
            | None => []
            end
          else []
        | OIsLocked i rem, Some inf' =>
          if (ei_res inf' =? 0) && negb (o_res (o19 ob) =? 2)
             && forallb (fun j => negb (is_src (ei_srcs inf') j)) rem then
            let x := oid_of i in
            let before := lockedb (ei_before inf') (ei_e inf') x in
            let after := (o_res (o19 ob) =? 1) in
            if Bool.eqb before after then [] else [status_class inf' x after 2%nat]
          else []
        | _, _ => []
        end in
      let inf1 :=
        match o with
        | OEvac srcs _ _ _ => Some (EvInfo srcs (shards en) (epoch en) (o_res (o19 ob)) (o19_extra ob) last_probe)
        | E19 (OGet _ _) | E19 (OHead _ _) | OProbe | OIsLocked _ _ | ODetach _ => inf
        | E19 _ => None          (* any other engine operation ends the comparison window *)
        end in
      let lp := match o with OProbe => o19_extra ob | _ => last_probe end in
      map (fun c => (k, c)) here ++ ref_devs19 u rank en' lp inf1 (S k) r
    end
  end.

Definition hist_devs19 (h : hist19) : list (nat * nat) :=
  let '(n, t, u, rank, ops) := h in ref_devs19 u rank (init_engine n t) [] None 0 ops.

Fixpoint all_devs19_from (j : N) (hs : list hist19) : list N :=
  match hs with
  | [] => []
  | h :: r =>
    map (fun p => (j * 1000 + N.of_nat (fst p)) * 100 + N.of_nat (snd p)) (hist_devs19 h)
    ++ all_devs19_from (j + 1) r
  end.
Definition all_devs19 := all_devs19_from 0.

(* coverage: per history [successful evacuation?; addresses available on a source before;
   of these inside the class of the partial theorem; addresses inside the status class] *)
Fixpoint cov19 (u : universe) (rank : list oid) (en : engine) (ops : list (eop19 * obs19)) : list N :=
  match ops with
  | [] => [0; 0; 0; 0]
  | (o, ob) :: r =>
    match step19 u rank en o ob with
    | None => [0; 0; 0; 0]
    | Some (_, _, _, en') =>
      match o with
      | OEvac srcs _ _ _ =>
        let inf := EvInfo srcs (shards en) (epoch en) (o_res (o19 ob)) (o19_extra ob) [] in
        let av := filter (fun i => match src_avail inf (oid_of i) with Some _ => true | None => false end)
                         (seq 0 (length u)) in
        [if o_res (o19 ob) =? 0 then 1 else 0;
         N.of_nat (length av);
         N.of_nat (length (filter (fun i => c19_good (shards en) (epoch en) srcs (oid_of i)) av));
         N.of_nat (length (filter (fun i => c19_status_good (shards en) (epoch en) srcs (o19_extra ob) (oid_of i))
                                  (seq 0 (length u))))]
      | _ => cov19 u rank en' r
      end
    end
  end.
Definition cov19_all (hs : list hist19) : list N :=
  let l := map (fun h : hist19 => let '(n, t, u, rank, ops) := h in cov19 u rank (init_engine n t) ops) hs in
  map (fun k => fold_right (fun v acc => nth k v 0 + acc) 0 l) [0; 1; 2; 3]%nat.
