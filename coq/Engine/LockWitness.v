(* C08: the history on which the unrestricted statement fails (recorded finding
   lock-missed-shard), and a non-vacuity example for the restricted one. *)
From Coq Require Import List NArith Bool Arith Permutation.
Import ListNotations.
From NV Require Import Engine.Model Engine.Spec Engine.Check Engine.Gc Engine.Check8 Engine.LockProofs.
Local Open Scope N_scope.

(* object 0, its lock 1 (never expires), its tombstone 2 *)
Definition uni8 : universe := [MRec KReg None; MRec (KLock 0) None; MRec (KTS 0) None].
Definition rank8 : list oid := [0; 1; 2].

(* X is put on shard 1.  While the lock is broadcast, puts to shard 1 fail, so the lock is
   stored on shard 0 only -- the engine accepts it.  Then a tombstone for X is broadcast in
   the order [1;0]: shard 1 (no lock there) accepts it and marks X as garbage, shard 0
   answers "locked", the broadcast is rolled back: the tombstone is deleted from shard 1,
   the garbage mark of X is not.  X is not retrievable any more; a GC pass of shard 1
   deletes it physically. *)
Definition ops_lock : list eop8 :=
  [O8 (OPut 0 [1;0]%nat [1;0]%nat [1;0]%nat); O8 (OFault 1 false true);
   O8 (OPut 1 [0;1]%nat [0;1]%nat [0;1]%nat); O8 (OFault 1 false false)].
Definition ops_ts : list eop8 := [O8 (OPut 2 [0;1]%nat [0;1]%nat [1;0]%nat)].
Definition ops_gc : list eop8 := [OGcx 1 [0;0;0] [[1;0]%nat; [0;1]%nat; [0;1]%nat]].

Definition get_x (s : option state8) : option gres :=
  match s with
  | Some s => Some (fst (engine_get (thr (s8_en s)) (epoch (s8_en s)) 0 [1;0]%nat (shards (s8_en s))))
  | None => None
  end.
Definition blob_x_on (s : option state8) (i : nat) : option bytes :=
  match s with
  | Some s => match nth_error (shards (s8_en s)) i with Some sh => lookup 0 (s_blob sh) | None => None end
  | None => None
  end.

Lemma lock_witness :
  let s1 := run8 uni8 rank8 (init8 2 0) ops_lock in
  let s2 := run8 uni8 rank8 (init8 2 0) (ops_lock ++ ops_ts) in
  let s3 := run8 uni8 rank8 (init8 2 0) (ops_lock ++ ops_ts ++ ops_gc) in
  (* the lock put is accepted (result class 0) and X is retrievable *)
  (match s1 with Some s => option_map (fun r => fst (fst r)) (step8 uni8 rank8 s (O8 (OGet 0 [1;0]%nat))) | None => None end
   = Some 0) /\
  get_x s1 = Some (GFound 1) /\
  (* the tombstone is refused as "locked" ... *)
  (match s1 with Some s => option_map (fun r => fst (fst r)) (step8 uni8 rank8 s (O8 (OPut 2 [0;1]%nat [0;1]%nat [1;0]%nat))) | None => None end
   = Some 2) /\
  (* ... and X is gone although its lock never expires *)
  get_x s2 = Some GNotFound /\ blob_x_on s2 1 = Some 1 /\
  get_x s3 = Some GNotFound /\ blob_x_on s3 1 = None.
Proof. vm_compute. repeat split; reflexivity. Qed.

(* non-vacuity of the restricted statement: three shards, the lock reached all of them; the
   history then contains a refused tombstone, an epoch advance within the lock's life, a
   degraded shard, put failures and GC passes on every shard *)
Definition uni8b : universe := [MRec KReg (Some 2); MRec (KLock 0) (Some 5); MRec (KTS 0) None; MRec KReg (Some 1)].
Definition rank8b : list oid := [3; 0; 2; 1].
Definition pre8b : list eop8 :=
  [O8 (OPut 0 [2;0;1]%nat [2;0;1]%nat [2;0;1]%nat); O8 (OPut 3 [0;1;2]%nat [0;1;2]%nat [0;1;2]%nat);
   O8 (OPut 1 [0;1;2]%nat [0;1;2]%nat [1;2;0]%nat)].
Definition ops8b : list eop8 :=
  [O8 (OPut 2 [0;1;2]%nat [0;1;2]%nat [2;0;1]%nat); ONewEpoch 4; O8 (OMode 1 true true false);
   O8 (OFault 0 false true); O8 (OPut 2 [0;1;2]%nat [0;1;2]%nat [0;1;2]%nat);
   OGcx 0 [0;0;0;2] [[2;0;1]%nat; [0;1;2]%nat; [0;1;2]%nat; [0;1;2]%nat];
   OGcx 2 [0;0;0;0] [[2;0;1]%nat; [0;1;2]%nat; [0;1;2]%nat; [0;1;2]%nat]; O8 (OMode 1 false false true)].

Definition st8b := match run8 uni8b rank8b (init8 3 2) pre8b with Some s => s | None => init8 0 0 end.

Lemma ok8_example :
  c08_inv (shards (s8_en st8b)) 0 1 (Some 5) 1 = true /\
  (match run8 uni8b rank8b st8b ops8b with
   | Some s' => fst (engine_get (thr (s8_en s')) (epoch (s8_en s')) 0 [2;0;1]%nat (shards (s8_en s'))) = GFound 1
                /\ epoch (s8_en s') = 4
                (* the other expired object was collected meanwhile *)
                /\ fst (engine_get (thr (s8_en s')) (epoch (s8_en s')) 3 [0;1;2]%nat (shards (s8_en s'))) = GNotFound
   | None => False
   end).
Proof. vm_compute. repeat split; reflexivity. Qed.
