(* Engine family (C08): one GC pass of a shard, including the expired-object processing
   that calls back into the engine.  Definitions only.
   Source: shard/gc.go (removeGarbage, collectExpiredObjects), metabase/iterators.go
   (iterateExpired), metabase/graveyard.go (GetGarbage), engine/inhume.go
   (processExpiredObjects, isLocked). *)
From Coq Require Import List NArith Bool.
Import ListNotations.
From NV Require Import Engine.Model.
Local Open Scope N_scope.

(* per shard: the epoch announced to its GC and the last epoch whose expired objects
   were found to be fully processed *)
Record gcst := GcSt { g_cur : N; g_done : N }.

(* IterateExpired: objects with expiration < epoch that are not locked (at that epoch),
   by increasing expiration epoch, then by object ID (rank = IDs in raw-ID order) *)
Definition expired_candidates (s : shard) (ge : N) (rank : list oid) : list oid :=
  flat_map (fun x =>
    filter (fun id => match lookup id (s_meta s) with
                      | Some r => match mexp r with
                                  | Some x' => (x' =? x) && negb (locked s ge id)
                                  | None => false
                                  end
                      | None => false
                      end) rank)
    (map N.of_nat (seq 0 (N.to_nat ge))).

Definition is_ts (s : shard) (a : oid) : bool :=
  match lookup a (s_meta s) with Some (MRec (KTS _) _) => true | _ => false end.

(* StorageEngine.isLocked visits the shards in map order and stops at the first shard
   that locks the object or fails (degraded shards fail).  The observed outcome c:
   0 = nobody locks it, 1 = kept as locked, 2 = a shard error cut the check short (the
   object is processed without a full lock check).  Which of 1 / 2 happens when both a
   locking and a degraded shard exist depends on the map order: both are allowed. *)
Definition lock_outcome_ok (st : list shard) (e : N) (a : oid) (c : N) : bool :=
  if c =? 0 then forallb (fun s => negb (s_deg s) && negb (locked s e a)) st
  else if c =? 1 then existsb (fun s => negb (s_deg s) && locked s e a) st
  else existsb s_deg st.

(* processExpiredObjects *)
Fixpoint process_expired (t e : N) (outc : oid -> N) (ords : oid -> list nat)
         (addrs : list oid) (st : list shard) : option (list shard) :=
  match addrs with
  | [] => Some st
  | a :: r =>
    if lock_outcome_ok st e a (outc a) then
      if outc a =? 1 then process_expired t e outc ords r st
      else process_expired t e outc ords r (snd (engine_delete t e DDrop a (ords a) st))
    else None
  end.

Definition set_done (g : gcst) : gcst := GcSt (g_cur g) (g_cur g).

(* one pass of Shard.removeGarbage on shard i.  None = the observed lock-check outcomes
   are impossible in the model state. *)
Definition gc_pass (t e : N) (i : nat) (rank : list oid) (outc : oid -> N) (ords : oid -> list nat)
           (st : list shard) (gcs : list gcst) : option (list shard * list gcst) :=
  match nth_error st i, nth_error gcs i with
  | Some s, Some g =>
    if s_ro s || s_deg s then Some (st, gcs)
    else
      let phase1 :=
        if g_done g =? g_cur g then Some (st, gcs)
        else if g_cur g <? g_done g then Some (st, upd i (set_done g) gcs)
        else
          let cands := expired_candidates s (g_cur g) rank in
          let gcs1 := match cands with [] => upd i (set_done g) gcs | _ => gcs end in
          let tss := filter (is_ts s) cands in
          let others := filter (fun a => negb (is_ts s a)) cands in
          let st1 := upd i (delete_all s tss) st in
          match process_expired t e outc ords others st1 with
          | Some st2 => Some (st2, gcs1)
          | None => None
          end in
      match phase1 with
      | None => None
      | Some (st2, gcs2) => Some (gc_garbage i st2, gcs2)
      end
  | _, _ => Some (st, gcs)
  end.
