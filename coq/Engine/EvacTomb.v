(* Engine family (C19): the "not lost" direction of the removal status, for tombstone objects that
   can be moved: a tombstone object a source lists and serves is handed to the fault handler or
   stored WITH ITS RECORD by a shard that is not evacuated, provided no remaining shard is in a
   degraded read-write mode or stores the tombstone's data without its record, and the
   tombstone's ID carries one header on every shard. *)
From Coq Require Import List NArith Bool Arith Lia.
Import ListNotations.
From NV Require Import Engine.Model Engine.Spec Engine.GetProofs Engine.LockProofs
                       Engine.Evac Engine.EvacSpec Engine.EvacProofs.
Local Open Scope N_scope.

(* a shard without metabase that is read-only is never touched by putToShard *)
Lemma put_to_shard_frozen : forall t e j a r b st s, nth_error st j = Some s ->
  s_deg s = true -> s_ro s = true -> nth_error (snd (put_to_shard t e j a r b st)) j = Some s.
Proof.
  intros t e j a r b st s Hs Hd Hr. unfold put_to_shard. rewrite Hs.
  destruct (sh_exists s e a false) as [[|]| | | |]; simpl; auto.
  unfold sh_put, sh_put_state, sh_put. rewrite Hr. simpl. eapply nth_error_upd_eq; eauto.
Qed.

(* "no metabase => read-only" is kept by putToShard (the engine degrades to read-only) *)
Lemma put_to_shard_modes : forall t e j a r b st s, nth_error st j = Some s ->
  (s_deg s = true -> s_ro s = true) ->
  exists s', nth_error (snd (put_to_shard t e j a r b st)) j = Some s' /\ (s_deg s' = true -> s_ro s' = true).
Proof.
  intros t e j a r b st s Hs Hm. unfold put_to_shard. rewrite Hs.
  destruct (sh_exists s e a false) as [[|]| | | |]; simpl; eauto.
  destruct (sh_put s e a r b) as [err|s2] eqn:Hp.
  - pose proof (sh_put_state_trans _ _ _ _ _ _ Hp) as Ht.
    destruct (trans_modes _ _ _ _ _ _ Ht) as (M1 & _ & M3).
    set (s1 := sh_put_state s e a r b) in *.
    assert (Hs1 : nth_error (upd j s1 st) j = Some s1) by (eapply nth_error_upd_eq; eauto).
    destruct (pe_logic err); simpl.
    + exists s1. split; auto. rewrite M1, M3. exact Hm.
    + unfold report. rewrite Hs1.
      match goal with |- context [upd j ?X (upd j s1 st)] => exists X end.
      split; [eapply nth_error_upd_eq; eauto|].
      destruct (negb (t =? 0) && (t <=? s_err s1 + 1)); simpl; auto. rewrite M1, M3. exact Hm.
  - simpl. destruct (sh_put_trans _ _ _ _ _ _ Hp) as (Ht & _).
    destruct (trans_modes _ _ _ _ _ _ Ht) as (M1 & _ & M3).
    exists s2. split; [eapply nth_error_upd_eq; eauto|]. rewrite M1, M3. exact Hm.
Qed.

Section Tomb.
Variables (t e : N) (srcs : list nat) (ign : bool) (fh : option (list oid)) (rank : list oid)
          (ords : oid -> list nat).
Variables (T x : oid) (r : mrec) (b : bytes).
Hypothesis Hkind : mk r = KTS x.

Definition PT (st : list shard) : Prop :=
  (forall j s, nth_error st j = Some s -> forall r', lookup T (s_meta s) = Some r' -> r' = r) /\
  (forall j s, is_src srcs j = false -> nth_error st j = Some s ->
     (s_deg s = true -> s_ro s = true) /\ (has T (s_blob s) = true -> has T (s_meta s) = true)).
Definition QT (a' : oid) (r' : mrec) (b' : bytes) : Prop := a' = T -> r' = r.
Definition HT (s : shard) : Prop := lookup T (s_meta s) = Some r.

Lemma rec_trans_T : forall a' r' b' s s1, trans e a' r' b' s s1 -> QT a' r' b' ->
  (forall r0, lookup T (s_meta s) = Some r0 -> r0 = r) ->
  (forall r0, lookup T (s_meta s1) = Some r0 -> r0 = r) /\ (HT s -> HT s1).
Proof.
  intros a' r' b' s s1 Ht HQ Hc.
  destruct Ht as [-> | Hd -> | Hd Hm -> | g Hd -> Hg | Hd -> Hm]; auto.
  unfold HT. cbn [s_meta]. destruct (N.eq_dec T a') as [E|E].
  - subst a'. rewrite lookup_set_eq. split; [intros r0 E0; inversion E0; subst; apply HQ; auto|].
    intros _. f_equal. apply HQ; auto.
  - rewrite lookup_set_neq by auto. auto.
Qed.

Lemma blob_meta_trans : forall a' r' b' s s1, trans e a' r' b' s s1 -> s_deg s = false ->
  (has T (s_blob s) = true -> has T (s_meta s) = true) ->
  (has T (s_blob s1) = true -> has T (s_meta s1) = true).
Proof.
  intros a' r' b' s s1 Ht Hnd Hc.
  destruct Ht as [-> | Hd -> | Hd Hm -> | g Hd -> Hg | Hd -> Hm]; auto; try congruence; cbn [s_meta s_blob with_blob].
  - intros Hb. destruct (N.eq_dec T a') as [E|E]; [subst; exact Hm|].
    apply Hc. unfold has in *. rewrite lookup_set_neq in Hb by auto. exact Hb.
  - intros Hb. destruct (N.eq_dec T a') as [E|E]; [subst; apply has_set_eq|].
    apply has_set. apply Hc. unfold has in *. rewrite lookup_set_neq in Hb by auto. exact Hb.
  - intros Hb. destruct (N.eq_dec T a') as [E|E].
    + subst a'. unfold has in Hb. rewrite lookup_remove_eq in Hb. discriminate.
    + apply Hc. unfold has in *. rewrite lookup_remove_neq in Hb by auto. exact Hb.
Qed.

Lemma PT_step : forall j a' r' b' st, is_src srcs j = false -> PT st -> QT a' r' b' ->
  PT (snd (put_to_shard t e j a' r' b' st)).
Proof.
  intros j a' r' b' st Hj [P1 P2] HQ.
  destruct (nth_error st j) as [s0|] eqn:Hs0.
  2:{ unfold put_to_shard. rewrite Hs0. simpl. split; auto. }
  destruct (P2 j s0 Hj Hs0) as [Hm0 Hb0].
  destruct (s_deg s0) eqn:Hd0.
  - (* frozen *)
    pose proof (put_to_shard_frozen t e j a' r' b' st s0 Hs0 Hd0 (Hm0 eq_refl)) as Hfr.
    destruct (put_to_shard t e j a' r' b' st) as [res st'] eqn:Hp. simpl in *.
    destruct (put_to_shard_step _ _ _ _ _ _ _ _ _ Hp) as (Ho & _ & _).
    split.
    + intros i s Hs. destruct (Nat.eq_dec i j) as [->|Hn]; [rewrite Hfr in Hs; inversion Hs; subst; eauto|].
      rewrite Ho in Hs by auto. eauto.
    + intros i s Hi Hs. destruct (Nat.eq_dec i j) as [->|Hn]; [rewrite Hfr in Hs; inversion Hs; subst; eauto|].
      rewrite Ho in Hs by auto. eauto.
  - assert (Hm0' : s_deg s0 = true -> s_ro s0 = true) by (intros; congruence).
    destruct (put_to_shard_modes t e j a' r' b' st s0 Hs0 Hm0') as (sm & Hsm & Hmm).
    destruct (put_to_shard t e j a' r' b' st) as [res st'] eqn:Hp. simpl in *.
    destruct (put_to_shard_step _ _ _ _ _ _ _ _ _ Hp) as (Ho & _ & Hsome).
    destruct (Hsome s0 Hs0) as (s1 & s2 & Hs2 & Ht & (E1 & E2 & E3 & E4 & E5) & _).
    rewrite Hs2 in Hsm. inversion Hsm; subst sm.
    destruct (rec_trans_T _ _ _ _ _ Ht HQ (P1 j s0 Hs0)) as [Hc1 _].
    pose proof (blob_meta_trans _ _ _ _ _ Ht Hd0 Hb0) as Hbm.
    split.
    + intros i s Hs. destruct (Nat.eq_dec i j) as [->|Hn]; [|rewrite Ho in Hs by auto; eauto].
      rewrite Hs2 in Hs. inversion Hs; subst. rewrite E1. exact Hc1.
    + intros i s Hi Hs. destruct (Nat.eq_dec i j) as [->|Hn]; [|rewrite Ho in Hs by auto; eauto].
      rewrite Hs2 in Hs. inversion Hs; subst. split; auto. rewrite E1, E3. exact Hbm.
Qed.

Lemma PT_src : forall st i s a' r' b' m, PT st -> is_src srcs i = true -> nth_error st i = Some s ->
  s_deg s = false -> sh_get s e a' false = (SFound b', m) -> lookup a' (s_meta s) = Some r' -> QT a' r' b'.
Proof. intros st i s a' r' b' m [P1 _] Hi Hs Hd Hg Hl ->. eapply P1; eauto. Qed.

Theorem tombstone_kept_partial : forall st x' i s m,
  PT st ->
  evacuate t e srcs ign fh rank ords st = (EvOk, x') ->
  In i srcs -> nth_error st i = Some s -> lookup T (s_meta s) = Some r ->
  sh_get s e T false = (SFound b, m) -> listed s T = true -> In T rank ->
  In T (ev_handed x') \/
  exists j s', is_src srcs j = false /\ nth_error (ev_st x') j = Some s' /\ tombstoned s' x = true.
Proof.
  intros st x' i s m HP Hev Hi Hs Hl Hg Hls Hr.
  destruct (moved_gen t e srcs ign fh rank ords PT QT PT_step PT_src T b HT)
    with (st := st) (x' := x') (i := i) (s := s) (m := m) as [Hh|Hh]; auto.
  - (* H_new *)
    intros j r0 st0 res st' s0 HP0 HQ Hj Hs0 Hp Hres.
    pose proof (PT_step j T r0 b st0 Hj HP0 HQ) as HP'. rewrite Hp in HP'. simpl in HP'.
    destruct (put_to_shard_step _ _ _ _ _ _ _ _ _ Hp) as (_ & _ & Hstep).
    destruct (Hstep s0 Hs0) as (s1 & s' & Hs' & Ht & Hevv & Hok & Hex).
    exists s'. split; auto.
    assert (Hheld : held_by T s').
    { eapply held_evolves; eauto. destruct Hres as [->| ->].
      - destruct (Hok eq_refl) as [[Hd|Hm] Hb].
        + right. destruct (trans_modes _ _ _ _ _ _ Ht) as (E & _). split; [congruence|]. unfold has. rewrite Hb. auto.
        + left. exact Hm.
      - destruct (Hex eq_refl) as [-> Hx]. eapply exists_held; eauto. }
    destruct HP' as [P1' P2']. destruct (P2' j s' Hj Hs') as [_ Hbm].
    assert (Hhm : has T (s_meta s') = true) by (destruct Hheld as [Hh|[_ Hh]]; auto).
    unfold HT. unfold has in Hhm. destruct (lookup T (s_meta s')) as [r1|] eqn:Hl1; try discriminate.
    f_equal. eapply P1'; eauto.
  - (* H_step *)
    intros j' a' r' b' st0 j s0 HP0 HQ Hj' Hs0 Hh.
    pose proof (PT_step j' a' r' b' st0 Hj' HP0 HQ) as HP'.
    destruct HP0 as [P1 P2].
    destruct (Nat.eq_dec j j') as [->|Hn].
    + destruct (P2 j' s0 Hj' Hs0) as [Hm0 _].
      destruct (s_deg s0) eqn:Hd0.
      * exists s0. split; auto. apply put_to_shard_frozen; auto.
      * destruct (put_to_shard t e j' a' r' b' st0) as [res st'] eqn:Hp. simpl in *.
        destruct (put_to_shard_step _ _ _ _ _ _ _ _ _ Hp) as (_ & _ & Hsome).
        destruct (Hsome s0 Hs0) as (s1 & s2 & Hs2 & Ht & (E1 & _) & _).
        exists s2. split; auto. destruct (rec_trans_T _ _ _ _ _ Ht HQ (P1 j' s0 Hs0)) as [_ Hk].
        unfold HT in *. rewrite E1. apply Hk. exact Hh.
    + destruct (put_to_shard t e j' a' r' b' st0) as [res st'] eqn:Hp. simpl in *.
      destruct (put_to_shard_step _ _ _ _ _ _ _ _ _ Hp) as (Ho & _ & _).
      exists s0. rewrite Ho by auto. auto.
  - right. destruct Hh as (j & s' & Hj & Hs' & Hht). exists j, s'. repeat split; auto.
    unfold tombstoned. apply existsb_exists. exists (T, r). split; [apply lookup_In; exact Hht|].
    simpl. rewrite Hkind. apply N.eqb_refl.
Qed.

End Tomb.
