(* Engine family (C19): the "not lost" direction of the LOCK status, for lock objects that can be
   moved.  A lock object L (record r, mk r = KLock x) a source lists and serves is handed to the
   fault handler or, after a successful evacuation, a remaining shard stores it with its record
   and reports x as locked (Model.locked = objectLocked), provided
     - PT: L carries the header r on every shard, a remaining shard without metabase is read-only,
       no remaining shard stores L's data without its record (as for tombstones, EvacTomb.v),
     - no shard stores a tombstone for L and no remaining shard default-marks L (the garbage
       status of the lock object: shown here to be kept "available" through all re-puts),
     - the lock is not expired at the epoch of the evacuation. *)
From Coq Require Import List NArith Bool Arith Lia.
Import ListNotations.
From NV Require Import Engine.Model Engine.Spec Engine.GetProofs Engine.LockProofs
                       Engine.Evac Engine.EvacSpec Engine.EvacProofs Engine.EvacStatus Engine.EvacTomb.
Local Open Scope N_scope.

Section Lock.
Variables (t e : N) (srcs : list nat) (ign : bool) (fh : option (list oid)) (rank : list oid)
          (ords : oid -> list nat).
Variables (L : oid) (r : mrec) (b : bytes).

(* the record of a movable object is kept: EvacTomb.tombstone_kept_partial without the kind *)
Theorem record_kept : forall st x' i s m,
  PT srcs L r st ->
  evacuate t e srcs ign fh rank ords st = (EvOk, x') ->
  In i srcs -> nth_error st i = Some s -> lookup L (s_meta s) = Some r ->
  sh_get s e L false = (SFound b, m) -> listed s L = true -> In L rank ->
  In L (ev_handed x') \/
  exists j s', is_src srcs j = false /\ nth_error (ev_st x') j = Some s' /\ lookup L (s_meta s') = Some r.
Proof.
  intros st x' i s m HP Hev Hi Hs Hl Hg Hls Hr.
  destruct (moved_gen t e srcs ign fh rank ords (PT srcs L r) (QT L r) (PT_step t e srcs L r) (PT_src e srcs L r)
              L b (HT L r))
    with (st := st) (x' := x') (i := i) (s := s) (m := m) as [Hh|Hh]; auto.
  - (* H_new *)
    intros j r0 st0 res st' s0 HP0 HQ Hj Hs0 Hp Hres.
    pose proof (PT_step t e srcs L r j L r0 b st0 Hj HP0 HQ) as HP'. rewrite Hp in HP'. simpl in HP'.
    destruct (put_to_shard_step _ _ _ _ _ _ _ _ _ Hp) as (_ & _ & Hstep).
    destruct (Hstep s0 Hs0) as (s1 & s' & Hs' & Ht & Hevv & Hok & Hex).
    exists s'. split; auto.
    assert (Hheld : held_by L s').
    { eapply held_evolves; eauto. destruct Hres as [->| ->].
      - destruct (Hok eq_refl) as [[Hd|Hm] Hb].
        + right. destruct (trans_modes _ _ _ _ _ _ Ht) as (E & _). split; [congruence|]. unfold has. rewrite Hb. auto.
        + left. exact Hm.
      - destruct (Hex eq_refl) as [-> Hx]. eapply exists_held; eauto. }
    destruct HP' as [P1' P2']. destruct (P2' j s' Hj Hs') as [_ Hbm].
    assert (Hhm : has L (s_meta s') = true) by (destruct Hheld as [Hh|[_ Hh]]; auto).
    unfold HT. unfold has in Hhm. destruct (lookup L (s_meta s')) as [r1|] eqn:Hl1; try discriminate.
    f_equal. eapply P1'; eauto.
  - (* H_step *)
    intros j' a' r' b' st0 j s0 HP0 HQ Hj' Hs0 Hh.
    pose proof (PT_step t e srcs L r j' a' r' b' st0 Hj' HP0 HQ) as HP'.
    destruct HP0 as [P1 P2].
    destruct (Nat.eq_dec j j') as [->|Hn].
    + destruct (P2 j' s0 Hj' Hs0) as [Hm0 _].
      destruct (s_deg s0) eqn:Hd0.
      * exists s0. split; auto. apply put_to_shard_frozen; auto.
      * destruct (put_to_shard t e j' a' r' b' st0) as [res st'] eqn:Hp. simpl in *.
        destruct (put_to_shard_step _ _ _ _ _ _ _ _ _ Hp) as (_ & _ & Hsome).
        destruct (Hsome s0 Hs0) as (s1 & s2 & Hs2 & Ht & (E1 & _) & _).
        exists s2. split; auto. destruct (rec_trans_T _ _ _ _ _ _ _ _ Ht HQ (P1 j' s0 Hs0)) as [_ Hk].
        unfold HT in *. rewrite E1. apply Hk. exact Hh.
    + destruct (put_to_shard t e j' a' r' b' st0) as [res st'] eqn:Hp. simpl in *.
      destruct (put_to_shard_step _ _ _ _ _ _ _ _ _ Hp) as (Ho & _ & _).
      exists s0. rewrite Ho by auto. auto.
Qed.

(* ---- the garbage status of L stays "available" on the remaining shards ---- *)
Variable st0 : list shard.
Hypothesis Hnt : tombstonedb st0 L = false.

Definition GInv (st : list shard) : Prop :=
  RecInv st0 st /\
  forall j s, is_src srcs j = false -> nth_error st j = Some s -> lookup L (s_garb s) <> Some MDefault.

Lemma no_ts_from_before : forall a r', from_before st0 (a, r') -> mk r' <> KTS L.
Proof.
  intros a r' (k & s0 & Hs0 & Hin) Hk.
  assert (Ht : tombstonedb st0 L = true); [|congruence].
  unfold tombstonedb. apply existsb_exists. exists s0. split; [eapply nth_error_In; eauto|].
  unfold tombstoned. apply existsb_exists. exists (a, r'). split; auto. simpl. rewrite Hk. apply N.eqb_refl.
Qed.

Lemma garb_trans : forall a r' b' s s1, trans e a r' b' s s1 -> mk r' <> KTS L ->
  lookup L (s_garb s) <> Some MDefault -> lookup L (s_garb s1) <> Some MDefault.
Proof.
  intros a r' b' s s1 Ht Hk Hg.
  destruct Ht as [-> | Hd -> | Hd Hm -> | g Hd -> Hgg | Hd -> Hm]; auto.
  cbn [s_garb]. destruct Hgg as [-> | (t' & Hkt & ->)]; auto.
  destruct (N.eq_dec L t') as [E|E]; [subst; contradiction|].
  rewrite lookup_set_neq by auto. exact Hg.
Qed.

Lemma GInv_step : forall j a r' b' st, is_src srcs j = false -> GInv st -> from_before st0 (a, r') ->
  GInv (snd (put_to_shard t e j a r' b' st)).
Proof.
  intros j a r' b' st Hj [HR HG] HQ. split; [apply (RecInv_step t e srcs); auto|].
  destruct (put_to_shard t e j a r' b' st) as [res st'] eqn:Hp. simpl.
  destruct (put_to_shard_step _ _ _ _ _ _ _ _ _ Hp) as (Ho & Hnone & Hsome).
  intros i s' Hi Hs'. destruct (Nat.eq_dec i j) as [->|Hn]; [|rewrite Ho in Hs' by auto; eauto].
  destruct (nth_error st j) as [s0|] eqn:Hs0.
  - destruct (Hsome s0 eq_refl) as (s1 & s2 & Hs2 & Ht & (_ & E2 & _) & _). rewrite Hs' in Hs2. inversion Hs2; subst.
    rewrite E2. eapply garb_trans; eauto. eapply no_ts_from_before; eauto.
  - rewrite Hnone in Hs' by auto. rewrite Hs' in Hs0. discriminate.
Qed.

Lemma GInv_final :
  (forall j s, is_src srcs j = false -> nth_error st0 j = Some s -> lookup L (s_garb s) <> Some MDefault) ->
  GInv (ev_st (snd (evacuate t e srcs ign fh rank ords st0))).
Proof.
  intros H0.
  apply (evacuate_P t e srcs ign fh rank ords GInv (fun a r' _ => from_before st0 (a, r'))).
  - intros; apply GInv_step; auto.
  - intros st i s a r' b' m [HP _] Hi Hs Hd Hg Hl. eapply HP; eauto. apply lookup_In; auto.
  - split; auto. intros j s Hs p Hp. exists j, s. auto.
Qed.

(* the lock status is not lost *)
Theorem lock_kept_partial : forall x x' i s m,
  mk r = KLock x ->
  PT srcs L r st0 ->
  (forall j s0, is_src srcs j = false -> nth_error st0 j = Some s0 -> lookup L (s_garb s0) <> Some MDefault) ->
  (0 <? e) && rec_expired e r = false ->
  evacuate t e srcs ign fh rank ords st0 = (EvOk, x') ->
  In i srcs -> nth_error st0 i = Some s -> lookup L (s_meta s) = Some r ->
  sh_get s e L false = (SFound b, m) -> listed s L = true -> In L rank ->
  In L (ev_handed x') \/
  exists j s', is_src srcs j = false /\ nth_error (ev_st x') j = Some s' /\ locked s' e x = true.
Proof.
  intros x x' i s m Hk HP H0 Hexp Hev Hi Hs Hl Hg Hls Hr.
  destruct (record_kept st0 x' i s m HP Hev Hi Hs Hl Hg Hls Hr) as [Hh|(j & s' & Hj & Hs' & Hrec)]; [left; exact Hh|].
  right. exists j, s'. repeat split; auto.
  pose proof (GInv_final H0) as [_ HG]. rewrite Hev in HG. simpl in HG.
  assert (Hts : tombstoned s' L = false).
  { destruct (tombstoned s' L) eqn:E; auto.
    pose proof (tombstone_not_created t e srcs ign fh rank ords st0 j s' L) as Hc. rewrite Hev in Hc. simpl in Hc.
    rewrite (Hc Hs' E) in Hnt. discriminate. }
  unfold locked. apply existsb_exists. exists (L, r). split; [apply lookup_In; exact Hrec|].
  cbn [fst snd]. rewrite Hk, N.eqb_refl, Hexp. cbn [negb andb].
  unfold in_garbage. rewrite Hts. specialize (HG j s' Hj Hs').
  destruct (lookup L (s_garb s')) as [[|]|]; try reflexivity. contradiction.
Qed.

End Lock.
