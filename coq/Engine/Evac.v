(* Engine family (C19): executable model of StorageEngine.Evacuate.  Definitions only.

   Source: pkg/local_object_storage/engine/evacuate.go (Evacuate), engine/put.go (putToShard,
   = Model.put_to_shard), shard/list.go + metabase/list.go (ListWithCursor / selectNFromBucket).

   Evacuate(shardIDs, ignoreErrors, faultHandler):
     - every named shard must exist and be read-only; at least one spare shard unless a fault
       handler is given;
     - per source shard (in the order given, duplicates included): the metabase is listed in pages
       of [evacuate_batch_size] (constant regenerated from the code, Gen/EngineConsts.v); listing
       visits the physically stored IDs in raw-ID order and skips those that are tombstoned or
       carry the DEFAULT garbage mark (metabase inGarbage: locks and expiration are NOT consulted,
       the REDUNDANT mark does not hide an object);
     - every listed address is read with Shard.Get(addr, false); a failure aborts the evacuation
       unless ignoreErrors is set (then the object is skipped silently);
     - the shards are sorted by HRW for the object (by the parent ID for EC parts; the order is an
       input of the model), source shards are skipped, the object is handed to putToShard of each
       candidate until one accepts (count+1) or reports "already exists" (no count);
     - when no shard accepts: without a handler the evacuation fails, otherwise the handler
       decides (nil: count+1 and go on, error: abort).
   A source shard without metabase (degraded) makes the evacuation fail (repaired code, see
   notes/C19.md; the original code skipped such a shard silently and reported success).

   The source shards are read-only for the whole call, so the model reads a source shard once
   when its loop starts (C19_sources_unchanged shows that nothing the evacuation does changes
   them; the correspondence check compares the sources before and after on the real engine). *)
From Coq Require Import List NArith Bool Arith.
Import ListNotations.
From NV Require Import Engine.Model Gen.EngineConsts.
Local Open Scope N_scope.

(* selectNFromBucket: physical object, inGarbage = available *)
Definition listed (s : shard) (a : oid) : bool :=
  has a (s_meta s) && status_eqb (in_garbage s a) StAvail.

(* one ListWithCursor(n, cursor) call.  The cursor is represented by the raw-ordered IDs that
   follow the last visited one.  Go: the cursor moves over every visited ID (listed or not) and
   the loop stops *before* visiting the next ID once n results are collected. *)
Fixpoint list_page (s : shard) (n : nat) (rest : list oid) : list oid * list oid :=
  match rest with
  | [] => ([], [])
  | a :: r =>
    match n with
    | O => ([], rest)
    | S n' => if listed s a then let '(l, c) := list_page s n' r in (a :: l, c)
              else list_page s n r
    end
  end.

(* the for-loop around ListWithCursor: an empty page is ErrEndOfListing *)
Fixpoint list_pages (fuel : nat) (s : shard) (n : nat) (rest : list oid) : list (list oid) :=
  match fuel with
  | O => []
  | S f => match list_page s n rest with
           | ([], _) => []
           | (l, c) => l :: list_pages f s n c
           end
  end.

Definition listing (s : shard) (rank : list oid) : list oid :=
  concat (list_pages (S (length rank)) s evacuate_batch_size rank).

Inductive evcode := EvOk | EvNoShard | EvNotRO | EvNoSpare | EvDegraded | EvGet | EvPut | EvHandler.

(* engine state, number of moved objects, addresses accepted by the fault handler (latest first) *)
Record evst := EvSt { ev_st : list shard; ev_cnt : N; ev_handed : list oid }.

Definition is_src (srcs : list nat) (j : nat) : bool := existsb (Nat.eqb j) srcs.

(* the HRW loop: Some true = stored on a shard, Some false = some shard already has it *)
Fixpoint try_targets (t e : N) (srcs : list nat) (a : oid) (r : mrec) (b : bytes) (ord : list nat)
         (st : list shard) : option bool * list shard :=
  match ord with
  | [] => (None, st)
  | j :: rest =>
    if is_src srcs j then try_targets t e srcs a r b rest st
    else match put_to_shard t e j a r b st with
         | (PtOk, st') => (Some true, st')
         | (PtExists, st') => (Some false, st')
         | (PtErr _, st') => try_targets t e srcs a r b rest st'
         end
  end.

Definition fh_accepts (acc : list oid) (a : oid) : bool := existsb (N.eqb a) acc.

(* one listed address of source shard s.  fh: None = no fault handler, Some acc = a handler
   that accepts exactly the addresses of acc *)
Definition evac_obj (t e : N) (srcs : list nat) (ign : bool) (fh : option (list oid))
           (ords : oid -> list nat) (s : shard) (a : oid) (x : evst) : evcode * evst :=
  match sh_get s e a false, lookup a (s_meta s) with
  | (SFound b, _), Some r =>
    match try_targets t e srcs a r b (ords a) (ev_st x) with
    | (Some true, st') => (EvOk, EvSt st' (ev_cnt x + 1) (ev_handed x))
    | (Some false, st') => (EvOk, EvSt st' (ev_cnt x) (ev_handed x))
    | (None, st') =>
      match fh with
      | None => (EvPut, EvSt st' (ev_cnt x) (ev_handed x))
      | Some acc => if fh_accepts acc a then (EvOk, EvSt st' (ev_cnt x + 1) (a :: ev_handed x))
                    else (EvHandler, EvSt st' (ev_cnt x) (ev_handed x))
      end
    end
  | _, _ => if ign then (EvOk, x) else (EvGet, x)
  end.

Fixpoint evac_objs (t e : N) (srcs : list nat) (ign : bool) (fh : option (list oid))
         (ords : oid -> list nat) (s : shard) (l : list oid) (x : evst) : evcode * evst :=
  match l with
  | [] => (EvOk, x)
  | a :: r => match evac_obj t e srcs ign fh ords s a x with
              | (EvOk, x') => evac_objs t e srcs ign fh ords s r x'
              | bad => bad
              end
  end.

(* one iteration of mainLoop *)
Definition evac_source (t e : N) (srcs : list nat) (ign : bool) (fh : option (list oid))
           (rank : list oid) (ords : oid -> list nat) (i : nat) (x : evst) : evcode * evst :=
  match nth_error (ev_st x) i with
  | None => (EvOk, x)
  | Some s => if s_deg s then (EvDegraded, x)
              else evac_objs t e srcs ign fh ords s (listing s rank) x
  end.

Fixpoint evac_sources (t e : N) (srcs : list nat) (ign : bool) (fh : option (list oid))
         (rank : list oid) (ords : oid -> list nat) (todo : list nat) (x : evst) : evcode * evst :=
  match todo with
  | [] => (EvOk, x)
  | i :: r => match evac_source t e srcs ign fh rank ords i x with
              | (EvOk, x') => evac_sources t e srcs ign fh rank ords r x'
              | bad => bad
              end
  end.

Fixpoint precheck (srcs : list nat) (st : list shard) : option evcode :=
  match srcs with
  | [] => None
  | i :: r => match nth_error st i with
              | None => Some EvNoShard
              | Some s => if s_ro s then precheck r st else Some EvNotRO
              end
  end.

Definition no_handler (fh : option (list oid)) : bool := match fh with None => true | Some _ => false end.

Definition evacuate (t e : N) (srcs : list nat) (ign : bool) (fh : option (list oid))
           (rank : list oid) (ords : oid -> list nat) (st : list shard) : evcode * evst :=
  let x0 := EvSt st 0 [] in
  match precheck srcs st with
  | Some c => (c, x0)
  | None =>
    if (length st <=? length srcs)%nat && no_handler fh then (EvNoSpare, x0)
    else evac_sources t e srcs ign fh rank ords srcs x0
  end.

(* the engine restricted to the shards that are not evacuated = visiting orders over these *)
Definition remaining (srcs : list nat) (n : nat) : list nat :=
  filter (fun j => negb (is_src srcs j)) (seq 0 n).
