(* C20: reachable states of the model on which the unrestricted statement fails
   (the recorded findings), and a non-vacuity example for the restricted one. *)
From Coq Require Import List NArith Bool Arith Permutation.
Import ListNotations.
From NV Require Import Engine.Model Engine.Spec Engine.Check.
Local Open Scope N_scope.

Definition uni : universe := [MRec KReg None; MRec (KTS 0) None].

(* K0 "removal-missed-holder": X is put on shard 1; shard 1 is read-only while the tombstone
   of X is broadcast, so only shard 0 records the removal; Get X in the order [1;0] still
   returns X (and answers "already removed" in the order [0;1]). *)
Definition ops_k0 : list eop :=
  [OPut 0 [1;0]%nat [1;0]%nat [1;0]%nat; OMode 1 true false false;
   OPut 1 [0;1]%nat [0;1]%nat [0;1]%nat; OMode 1 false false false].
Definition en_k0 := run_ops uni (init_engine 2 0) ops_k0.

Lemma k0_witness :
  Permutation [1;0]%nat (seq 0 (length (shards en_k0))) /\
  coherent (shards en_k0) 0 = true /\
  removedb (shards en_k0) (epoch en_k0) 0 = true /\
  fst (engine_get 0 (epoch en_k0) 0 [1;0]%nat (shards en_k0)) = GFound 1 /\
  fst (engine_get 0 (epoch en_k0) 0 [0;1]%nat (shards en_k0)) = GRemoved.
Proof. split; [apply perm_swap | vm_compute; auto]. Qed.

(* K1 "degraded-holder-ignores-removal": X and its tombstone are on the only shard (the blob is
   not collected yet); the shard becomes degraded; Get X returns X. *)
Definition ops_k1 : list eop :=
  [OPut 0 [0]%nat [0]%nat [0]%nat; OPut 1 [0]%nat [0]%nat [0]%nat; OMode 0 true true false].
Definition en_k1 := run_ops uni (init_engine 1 0) ops_k1.

Lemma k1_witness :
  Permutation [0]%nat (seq 0 (length (shards en_k1))) /\
  coherent (shards en_k1) 0 = true /\
  removedb (shards en_k1) (epoch en_k1) 0 = true /\
  fst (engine_get 0 (epoch en_k1) 0 [0]%nat (shards en_k1)) = GFound 1 /\
  (* before the mode change the answer was "already removed" *)
  fst (engine_get 0 0 0 [0]%nat (shards (run_ops uni (init_engine 1 0) (firstn 2 ops_k1)))) = GRemoved.
Proof. split; [apply Permutation_refl | vm_compute; auto]. Qed.

(* K3 "orphan-blob": X is put while shard 0 is in degraded read-write mode (blob only), the shard
   returns to read-write; Get X does not find it -- unless another shard is degraded, which
   triggers the scan that ignores metadata. *)
Definition ops_k3 : list eop :=
  [OMode 0 false true false; OPut 0 [0;1]%nat [0;1]%nat [0;1]%nat; OMode 0 false false false].
Definition en_k3 := run_ops uni (init_engine 2 0) ops_k3.
Definition en_k3' := run_ops uni en_k3 [OMode 1 true true false].

Lemma k3_witness :
  Permutation [0;1]%nat (seq 0 (length (shards en_k3))) /\
  removedb (shards en_k3) 0 0 = false /\
  fst (engine_get 0 0 0 [0;1]%nat (shards en_k3)) = GNotFound /\
  fst (engine_get 0 0 0 [0;1]%nat (shards en_k3')) = GFound 1 /\
  stored_readable (shards en_k3') 0 1 = false.
Proof. split; [apply Permutation_refl | vm_compute; auto]. Qed.

(* non-vacuity of the restricted statement: a consistent state with a removal on one shard,
   a second object readable on a read-only shard next to a degraded, failing one *)
Definition uni2 : universe := [MRec KReg None; MRec (KTS 0) None; MRec KReg (Some 5)].
Definition ops_ok : list eop :=
  [OPut 0 [1;0;2]%nat [1;0;2]%nat [1;0;2]%nat; OPut 2 [2;1;0]%nat [2;1;0]%nat [2;1;0]%nat;
   OPut 1 [0;1;2]%nat [0;1;2]%nat [2;0;1]%nat; OMode 2 true false false;
   OMode 0 true true false; OFault 0 true false].
Definition en_ok := run_ops uni2 (init_engine 3 2) ops_ok.

Lemma ok_example :
  consistent (shards en_ok) 0 0 = true /\ consistent (shards en_ok) 0 2 = true /\
  removedb (shards en_ok) 0 0 = true /\
  fst (engine_get 2 0 0 [0;1;2]%nat (shards en_ok)) = GRemoved /\
  stored_readable (shards en_ok) 2 3 = true /\
  fst (engine_get 2 0 2 [0;1;2]%nat (shards en_ok)) = GFound 3.
Proof. vm_compute; auto 10. Qed.
