(* Engine family (C19): the evacuation creates no removal status -- every metabase record a
   shard holds afterwards was held by some shard before (records are only copied from the
   sources), so a tombstone seen on a remaining shard afterwards was seen on some shard before. *)
From Coq Require Import List NArith Bool Arith Lia.
Import ListNotations.
From NV Require Import Engine.Model Engine.Spec Engine.GetProofs Engine.LockProofs
                       Engine.Evac Engine.EvacSpec Engine.EvacProofs.
Local Open Scope N_scope.

Section Status.
Variables (t e : N) (srcs : list nat) (ign : bool) (fh : option (list oid)) (rank : list oid)
          (ords : oid -> list nat).
Variable st0 : list shard.

Definition from_before (p : oid * mrec) : Prop :=
  exists k s0, nth_error st0 k = Some s0 /\ In p (s_meta s0).
Definition RecInv (st : list shard) : Prop :=
  forall j s, nth_error st j = Some s -> forall p, In p (s_meta s) -> from_before p.

Lemma rec_trans : forall a r b s s1, trans e a r b s s1 -> from_before (a, r) ->
  forall p, In p (s_meta s1) -> In p (s_meta s) \/ from_before p.
Proof.
  intros a r b s s1 Ht Hq p Hp.
  destruct Ht as [-> | Hd -> | Hd Hm -> | g Hd -> Hg | Hd -> Hm]; auto.
  cbn [s_meta] in Hp. unfold set in Hp. destruct Hp as [<-|Hp]; auto. left. eapply In_remove; eauto.
Qed.

Lemma RecInv_step : forall j a r b st, is_src srcs j = false -> RecInv st -> from_before (a, r) ->
  RecInv (snd (put_to_shard t e j a r b st)).
Proof.
  intros j a r b st Hj HP HQ.
  destruct (put_to_shard t e j a r b st) as [res st'] eqn:Hp. simpl.
  destruct (put_to_shard_step _ _ _ _ _ _ _ _ _ Hp) as (Ho & Hnone & Hsome).
  intros i s' Hs' p Hin. destruct (Nat.eq_dec i j) as [->|Hn]; [|rewrite Ho in Hs' by auto; eauto].
  destruct (nth_error st j) as [s0|] eqn:Hs0.
  - destruct (Hsome s0 eq_refl) as (s1 & s2 & Hs2 & Ht & (E1 & _) & _). rewrite Hs' in Hs2. inversion Hs2; subst.
    rewrite E1 in Hin. destruct (rec_trans _ _ _ _ _ Ht HQ p Hin) as [Hold|Hnew]; eauto.
  - rewrite Hnone in Hs' by auto. rewrite Hs' in Hs0. discriminate.
Qed.

Theorem records_from_before :
  RecInv (ev_st (snd (evacuate t e srcs ign fh rank ords st0))).
Proof.
  apply (evacuate_P t e srcs ign fh rank ords RecInv (fun a r _ => from_before (a, r))).
  - intros; apply RecInv_step; auto.
  - intros st i s a r b m HP Hi Hs Hd Hg Hl. eapply HP; eauto. apply lookup_In; auto.
  - intros j s Hs p Hp. exists j, s. auto.
Qed.

(* no tombstone status is created: on any shard afterwards (remaining or not) *)
Theorem tombstone_not_created : forall j s x,
  nth_error (ev_st (snd (evacuate t e srcs ign fh rank ords st0))) j = Some s ->
  tombstoned s x = true -> tombstonedb st0 x = true.
Proof.
  intros j s x Hs Ht. unfold tombstoned in Ht. apply existsb_exists in Ht. destruct Ht as (p & Hin & Hp).
  destruct (records_from_before j s Hs p Hin) as (k & s0 & Hs0 & Hin0).
  unfold tombstonedb. apply existsb_exists. exists s0. split; [eapply nth_error_In; eauto|].
  unfold tombstoned. apply existsb_exists. exists p. auto.
Qed.

(* nor a lock record: every lock record afterwards was a record of some shard before *)
Theorem lock_record_not_created : forall j s l r,
  nth_error (ev_st (snd (evacuate t e srcs ign fh rank ords st0))) j = Some s ->
  In (l, r) (s_meta s) -> exists k s0, nth_error st0 k = Some s0 /\ In (l, r) (s_meta s0).
Proof. intros j s l r Hs Hin. exact (records_from_before j s Hs (l, r) Hin). Qed.

End Status.
