(* Engine family (C19): reference predicates of the evacuation theorems, defined from shard
   contents only (no evacuation code), and the boolean input classes of the partial theorems.
   Definitions only. *)
From Coq Require Import List NArith Bool Arith.
Import ListNotations.
From NV Require Import Engine.Model Engine.Spec Engine.Evac.
Local Open Scope N_scope.

(* the shards that are not evacuated *)
Definition rem_shards (srcs : list nat) (st : list shard) : list shard :=
  map snd (filter (fun p => negb (is_src srcs (fst p))) (combine (seq 0 (length st)) st)).
Definition src_shards (srcs : list nat) (st : list shard) : list shard :=
  map snd (filter (fun p => is_src srcs (fst p)) (combine (seq 0 (length st)) st)).

(* "available on shard s with bytes b": the shard itself serves it (Shard.Get) *)
Definition avail_on (s : shard) (e : N) (a : oid) (b : bytes) : bool :=
  match fst (sh_get s e a false) with SFound b' => b' =? b | _ => false end.

(* removal status: some shard stores a tombstone for a (what makes the engine answer "already
   removed"); lock status: some shard holds an effective lock of a (what IsLocked reports) *)
Definition tombstonedb (st : list shard) (a : oid) : bool := existsb (fun s => tombstoned s a) st.
Definition lockedb (st : list shard) (e : N) (a : oid) : bool := existsb (fun s => locked s e a) st.

(* ---- input class of C19_preserved_partial ---- *)

(* a is not recorded as removed on s and does not owe its availability to a lock *)
Definition plain_ok (s : shard) (e : N) (a : oid) : bool :=
  status_eqb (in_garbage s a) StAvail && negb (is_expired s e a).

(* a remaining shard can serve what it claims to have: reads do not fail, metadata of a comes
   with its data *)
Definition serves (s : shard) (a : oid) : bool :=
  negb (s_frd s) && (s_deg s || negb (has a (s_meta s)) || has a (s_blob s)).

Definition c19_good (st : list shard) (e : N) (srcs : list nat) (a : oid) : bool :=
  forallb (fun s => plain_ok s e a) st && coherent st a
  && forallb (fun s => serves s a) (rem_shards srcs st).

(* ---- input class of C19_status_unchanged_partial ---- *)

(* one object ID carries one header on every shard (IDs are content hashes) *)
Definition rec_eqb (r r' : mrec) : bool :=
  match mk r, mk r' with
  | KReg, KReg => true
  | KTS t, KTS t' | KLock t, KLock t' => t =? t'
  | _, _ => false
  end
  && match mexp r, mexp r' with
     | None, None => true
     | Some x, Some y => x =? y
     | _, _ => false
     end.
Definition rec_coherent (st : list shard) : bool :=
  forallb (fun s => forallb (fun p =>
    forallb (fun s' => match lookup (fst p) (s_meta s') with
                       | Some r' => rec_eqb (snd p) r'
                       | None => true end) st) (s_meta s)) st.

Definition targets (r : mrec) (x : oid) : bool :=
  match mk r with KTS t | KLock t => t =? x | KReg => false end.

(* every tombstone / lock object for x that a source shard stores can be moved: it is listed and
   readable there, was not handed to the fault handler, and is not itself in garbage anywhere *)
Definition movable (st : list shard) (e : N) (handed : list oid) (s : shard) (l : oid) : bool :=
  listed s l && (match fst (sh_get s e l false) with SFound _ => true | _ => false end)
  && negb (existsb (N.eqb l) handed)
  && forallb (fun s' => status_eqb (in_garbage s' l) StAvail) st.

Definition c19_status_good (st : list shard) (e : N) (srcs : list nat) (handed : list oid) (x : oid) : bool :=
  rec_coherent st
  && forallb (fun s => negb (s_deg s)) (rem_shards srcs st)
  && forallb (fun s => forallb (fun p => negb (targets (snd p) x) || movable st e handed s (fst p)) (s_meta s))
             (src_shards srcs st).
