(* Engine family: executable comparison of harness histories with the model
   (correspondence) and with the reference predicates (C20). *)
From Coq Require Import List NArith Bool Arith.
Import ListNotations.
From NV Require Import Engine.Model Engine.Spec.
Local Open Scope N_scope.

Inductive eop :=
| OPut (i : nat) (ordx ordp ordb : list nat)
| OGet (i : nat) (ord : list nat)
| OHead (i : nat) (ord : list nat)
| ODel (i : nat) (redundant : bool) (ord : list nat)
| ODrop (i : nat) (ord : list nat)
| OMode (s : nat) (ro deg reset : bool)
| OFault (s : nat) (frd fwr : bool)
| OEpoch (e : N)
| OGC (s : nat)
| OAddShard.

(* observation: result class, tag of returned bytes, modes (ro + 2*deg) and error
   counters of the shards after the operation *)
Record obs := Obs { o_res : N; o_tag : N; o_modes : list N; o_errs : list N }.

Definition universe := list mrec.
Definition oid_of (i : nat) : oid := N.of_nat i.
Definition bytes_of (i : nat) : bytes := N.of_nat i + 1.
Definition rec_of (u : universe) (i : nat) : mrec := nth i u (MRec KReg None).

Definition code_of_ores (r : ores) : N :=
  match r with ROk => 0 | RRemoved => 1 | RLocked => 2 | RNotFound => 3 | ROther => 4 end.
Definition code_of_gres (g : gres) : N * N :=
  match g with GFound b => (0, b) | GNotFound => (3, 0) | GRemoved => (1, 0) end.

(* one step of the model: result code, tag, new engine *)
Definition step (u : universe) (en : engine) (o : eop) : N * N * engine :=
  let st := shards en in let e := epoch en in let t := thr en in
  let mk st' := Engine st' e t in
  match o with
  | OPut i ox op ob =>
    let '(r, st') := engine_put t e (oid_of i) (rec_of u i) (bytes_of i) ox op ob st in
    (code_of_ores r, 0, mk st')
  | OGet i ord =>
    let '(g, st') := engine_get t e (oid_of i) ord st in
    let '(c, tg) := code_of_gres g in (c, tg, mk st')
  | OHead i ord =>
    let '(g, st') := engine_head t e (oid_of i) ord st in
    let '(c, tg) := code_of_gres g in (c, tg, mk st')
  | ODel i red ord =>
    let '(r, st') := engine_delete t e (DMark (if red then MRedundant else MDefault)) (oid_of i) ord st in
    (code_of_ores r, 0, mk st')
  | ODrop i ord =>
    let '(r, st') := engine_delete t e DDrop (oid_of i) ord st in
    (code_of_ores r, 0, mk st')
  | OMode s ro deg reset => (0, 0, mk (engine_set_mode s ro deg reset st))
  | OFault s frd fwr => (0, 0, mk (set_fault s frd fwr st))
  | OEpoch e' => (0, 0, Engine st e' t)
  | OGC s => (0, 0, mk (gc_garbage s st))
  | OAddShard => (0, 0, mk (st ++ [empty_shard]))
  end.

Definition mode_code (s : shard) : N := (if s_ro s then 1 else 0) + (if s_deg s then 2 else 0).

Definition list_N_eqb (a b : list N) : bool :=
  (length a =? length b)%nat && forallb (fun p => fst p =? snd p) (combine a b).

Definition obs_ok (c tg : N) (en : engine) (o : obs) : bool :=
  (c =? o_res o) && (tg =? o_tag o)
  && list_N_eqb (map mode_code (shards en)) (o_modes o)
  && list_N_eqb (map s_err (shards en)) (o_errs o).

Definition init_engine (n : nat) (t : N) : engine := Engine (repeat empty_shard n) 0 t.

(* a history: initial shard count, threshold, universe, operations with observations *)
Definition hist := (nat * N * universe * list (eop * obs))%type.

(* index of the first operation whose observation differs from the model *)
Fixpoint first_mismatch (u : universe) (en : engine) (k : nat) (ops : list (eop * obs)) : option nat :=
  match ops with
  | [] => None
  | (o, ob) :: r =>
    let '(c, tg, en') := step u en o in
    if obs_ok c tg en' ob then first_mismatch u en' (S k) r else Some k
  end.

Definition hist_mismatch (h : hist) : option nat :=
  let '(n, t, u, ops) := h in first_mismatch u (init_engine n t) 0 ops.

(* encoded as history index * 1000 + operation index *)
Fixpoint model_mismatches_from (j : N) (hs : list hist) : list N :=
  match hs with
  | [] => []
  | h :: r => match hist_mismatch h with
              | Some k => (j * 1000 + N.of_nat k) :: model_mismatches_from (j + 1) r
              | None => model_mismatches_from (j + 1) r
              end
  end.
Definition model_mismatches := model_mismatches_from 0.

(* ---- reference check of the reads (C20).  The reference is evaluated on the model
   state before the read (the state is tied to the real engine by the correspondence
   of all operations before it). ---- *)

(* class of a deviation: 0 = none; 1 = unexpected (the state is consistent, so the
   theorem promises agreement); 10.. = the known classes *)
Definition dev_class (st : list shard) (e : N) (a : oid) : nat :=
  if negb (coherent st a) then 14%nat
  else if negb (no_orphan st a) then 13%nat
  else if negb (removedb st e a) then 1%nat
  else if negb (holders_know st e a) then
         (if existsb (fun s => has a (s_blob s) && s_deg s) st then 11%nat else 10%nat)
  else 1%nat.

(* the implementation's answer (c, tag) against the reference *)
Definition read_dev (st : list shard) (e : N) (i : nat) (c tg : N) : nat :=
  let a := oid_of i in
  let found := (c =? 0) in
  let want := ref_found st e a (bytes_of i) in
  let tag_ok := negb found || (tg =? bytes_of i) in
  if Bool.eqb found want && tag_ok then 0%nat else dev_class st e a.

(* Get and Head are both checked (C20_get_iff_partial, C20_head_iff_partial) *)
Fixpoint ref_devs (u : universe) (en : engine) (k : nat) (ops : list (eop * obs))
  : list (nat * nat) :=
  match ops with
  | [] => []
  | (o, ob) :: r =>
    let here :=
      match o with
      | OGet i _ | OHead i _ => read_dev (shards en) (epoch en) i (o_res ob) (o_tag ob)
      | _ => 0%nat
      end in
    let '(_, _, en') := step u en o in
    if (here =? 0)%nat then ref_devs u en' (S k) r else (k, here) :: ref_devs u en' (S k) r
  end.

Definition hist_devs (h : hist) : list (nat * nat) :=
  let '(n, t, u, ops) := h in ref_devs u (init_engine n t) 0 ops.

(* all deviations, encoded as (history index * 1000 + operation index) * 100 + class *)
Fixpoint all_devs_from (j : N) (hs : list hist) : list N :=
  match hs with
  | [] => []
  | h :: r =>
    map (fun p => (j * 1000 + N.of_nat (fst p)) * 100 + N.of_nat (snd p)) (hist_devs h)
    ++ all_devs_from (j + 1) r
  end.
Definition all_devs := all_devs_from 0.

(* how many reads were evaluated in a consistent state / per class (coverage) *)
Fixpoint count_reads (u : universe) (en : engine) (ops : list (eop * obs)) : nat * nat :=
  match ops with
  | [] => (0, 0)%nat
  | (o, ob) :: r =>
    let '(_, _, en') := step u en o in
    let '(c, n) := count_reads u en' r in
    match o with
    | OGet i _ | OHead i _ => ((if consistent (shards en) (epoch en) (oid_of i) then S c else c), S n)
    | _ => (c, n)
    end
  end.
Definition reads_stats (hs : list hist) : list N :=
  let l := map (fun h : hist => let '(n, t, u, ops) := h in count_reads u (init_engine n t) ops) hs in
  [fold_right (fun p acc => N.of_nat (fst p) + acc) 0 l; fold_right (fun p acc => N.of_nat (snd p) + acc) 0 l].

(* the model's observation at operation k of a history (for replay files):
   [code; tag] ++ modes ++ [999] ++ error counters *)
Fixpoint model_obs_at_from (u : universe) (en : engine) (k : nat) (ops : list (eop * obs)) : list N :=
  match ops with
  | [] => []
  | (o, _) :: r =>
    let '(c, tg, en') := step u en o in
    match k with
    | O => [c; tg] ++ map mode_code (shards en') ++ [999] ++ map s_err (shards en')
    | S k' => model_obs_at_from u en' k' r
    end
  end.
Definition model_obs_at (h : hist) (k : nat) : list N :=
  let '(n, t, u, ops) := h in model_obs_at_from u (init_engine n t) k ops.

(* run a list of operations on the model (reachability witnesses) *)
Fixpoint run_ops (u : universe) (en : engine) (ops : list eop) : engine :=
  match ops with
  | [] => en
  | o :: r => run_ops u (snd (step u en o)) r
  end.
