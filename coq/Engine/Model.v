(* Engine family (C20, C08, C19): executable model of the storage engine over several
   shards.  Definitions only (no proofs) so that cases can be evaluated even when a
   proof breaks.

   A shard is abstracted to what the engine can observe:
     - mode (read-only bit, degraded = "no metabase" bit),
     - metabase records  id -> (kind, expiration epoch)      (s_meta)
     - garbage marks     id -> Default | Redundant           (s_garb)
     - blob storage      id -> bytes                          (s_blob)
     - fault oracle: blob reads fail / blob writes fail       (s_frd, s_fwr)
     - the engine's error counter for the shard               (s_err)
   One container; object bytes are an abstract value (the harness checks byte equality).
   Not modelled: split/EC parent relations (EC parts are regular objects that are
   *placed* by their parent's ID), write-cache, container GC marks.

   Source: pkg/local_object_storage/engine/{get,head,exists,put,delete,inhume,shards,
   engine}.go, shard/{get,head,exists,put,delete,inhume,gc,mode}.go,
   metabase/{exists,put,delete,inhume,lock,graveyard}.go. *)
From Coq Require Import List NArith Bool.
Import ListNotations.
Local Open Scope N_scope.

Definition oid := N.
Definition bytes := N.

Inductive kind := KReg | KTS (t : oid) | KLock (t : oid).
Record mrec := MRec { mk : kind; mexp : option N }.
Inductive mark := MDefault | MRedundant.

Record shard := Shard {
  s_ro : bool; s_deg : bool;
  s_meta : list (oid * mrec);
  s_garb : list (oid * mark);
  s_blob : list (oid * bytes);
  s_frd : bool; s_fwr : bool;
  s_err : N }.

Definition empty_shard := Shard false false [] [] [] false false 0.

(* ---- association lists ---- *)
Fixpoint lookup {A} (k : oid) (l : list (oid * A)) : option A :=
  match l with
  | [] => None
  | (k', v) :: r => if k =? k' then Some v else lookup k r
  end.
Fixpoint remove {A} (k : oid) (l : list (oid * A)) : list (oid * A) :=
  match l with
  | [] => []
  | (k', v) :: r => if k =? k' then remove k r else (k', v) :: remove k r
  end.
Definition set {A} (k : oid) (v : A) (l : list (oid * A)) := (k, v) :: remove k l.
Definition has {A} (k : oid) (l : list (oid * A)) : bool :=
  match lookup k l with Some _ => true | None => false end.

(* ---- metabase status (metabase/exists.go objectStatusDirect, lock.go) ---- *)
Inductive status := StAvail | StGC | StTS | StExpired.
Definition status_eqb (a b : status) : bool :=
  match a, b with
  | StAvail, StAvail | StGC, StGC | StTS, StTS | StExpired, StExpired => true
  | _, _ => false
  end.

(* isExpired: currEpoch > expiration; with currEpoch = 0 nothing is expired *)
Definition rec_expired (e : N) (r : mrec) : bool :=
  match mexp r with Some x => x <? e | None => false end.
Definition is_expired (s : shard) (e : N) (a : oid) : bool :=
  match lookup a (s_meta s) with Some r => rec_expired e r | None => false end.

(* a TOMBSTONE object associated with a is stored (expiration ignored: currEpoch 0) *)
Definition tombstoned (s : shard) (a : oid) : bool :=
  existsb (fun p => match mk (snd p) with KTS t => t =? a | _ => false end) (s_meta s).

(* inGarbage *)
Definition in_garbage (s : shard) (a : oid) : status :=
  if tombstoned s a then StTS
  else match lookup a (s_garb s) with Some MDefault => StGC | _ => StAvail end.

(* objectLocked: a stored LOCK associated with a that is not expired (unless e = 0)
   and is not itself tombstoned / default-marked *)
Definition locked (s : shard) (e : N) (a : oid) : bool :=
  existsb (fun p => match mk (snd p) with
                    | KLock t => (t =? a) && negb ((0 <? e) && rec_expired e (snd p))
                                 && status_eqb (in_garbage s (fst p)) StAvail
                    | _ => false end) (s_meta s).

Definition obj_status (s : shard) (e : N) (a : oid) : status :=
  if is_expired s e a then (if locked s e a then StAvail else StExpired)
  else let g := in_garbage s a in
       if negb (status_eqb g StAvail) && locked s e a then StAvail else g.

(* ---- shard operations ---- *)
Inductive exres := ExOk (b : bool) | ExNotFound | ExRemoved | ExExpired | ExIO.

(* metabase Exists *)
Definition meta_exists (s : shard) (e : N) (a : oid) : exres :=
  match obj_status s e a with
  | StGC => ExNotFound
  | StTS => ExRemoved
  | StExpired => ExExpired
  | StAvail => ExOk (has a (s_meta s))
  end.

(* shard.Exists(addr, ignoreExpiration) *)
Definition sh_exists (s : shard) (e : N) (a : oid) (ign : bool) : exres :=
  if s_deg s then (if s_frd s then ExIO else ExOk (has a (s_blob s)))
  else meta_exists s (if ign then 0 else e) a.

Inductive sres := SFound (b : bytes) | SNotFound | SRemoved | SExpired | SIO.

Definition blob_read (s : shard) (a : oid) : sres :=
  if s_frd s then SIO
  else match lookup a (s_blob s) with Some b => SFound b | None => SNotFound end.

(* shard.Get(addr, skipMeta): result and "got meta, but no object" flag *)
Definition sh_get (s : shard) (e : N) (a : oid) (skip : bool) : sres * bool :=
  if skip || s_deg s then (blob_read s a, false)
  else match meta_exists s e a with
       | ExNotFound => (SNotFound, false)
       | ExRemoved => (SRemoved, false)
       | ExExpired => (SExpired, false)
       | ExIO => (SIO, false)
       | ExOk false => (SNotFound, false)
       | ExOk true => match blob_read s a with
                      | SFound b => (SFound b, false)
                      | r => (r, true)
                      end
       end.

(* shard.Head(addr, raw=false) *)
Definition sh_head (s : shard) (e : N) (a : oid) : sres :=
  if s_deg s then blob_read s a
  else match meta_exists s e a with
       | ExNotFound => SNotFound
       | ExRemoved => SRemoved
       | ExExpired => SExpired
       | ExIO => SIO
       | ExOk false => SNotFound
       | ExOk true => blob_read s a
       end.

(* errors of a shard put; [pe_logic]: business-logic errors are not counted by
   reportShardError *)
Inductive perr := PeRO | PeIO | PeRemoved | PeExpired | PeLocked | PeLockNonReg
                | PeLockRemoval | PeTSonTS | PeNotFound.
Definition pe_logic (p : perr) : bool :=
  match p with PeIO | PeLocked | PeTSonTS => false | _ => true end.
Definition pe_fatal (p : perr) : bool :=
  match p with PeLockNonReg | PeLocked | PeRemoved => true | _ => false end.

(* metabase put (db.put): Some error, or the new shard *)
Definition meta_put (s : shard) (e : N) (a : oid) (r : mrec) : perr + shard :=
  let add s' := Shard (s_ro s') (s_deg s') (set a r (s_meta s')) (s_garb s') (s_blob s')
                      (s_frd s') (s_fwr s') (s_err s') in
  match meta_exists s e a with
  | ExRemoved => inl PeRemoved
  | ExExpired => inl PeExpired
  | ExIO => inl PeIO
  | ExOk true => inr s
  | ExOk false | ExNotFound =>
    match mk r with
    | KReg => inr (add s)
    | KLock t =>
      match lookup t (s_meta s) with
      | Some (MRec KReg _) | None =>
        if status_eqb (obj_status s e t) StTS then inl PeRemoved else inr (add s)
      | Some _ => inl PeLockNonReg
      end
    | KTS t =>
      match lookup t (s_meta s) with
      | Some (MRec (KTS _) _) => inl PeTSonTS
      | Some (MRec (KLock _) _) => inl PeLockRemoval
      | _ =>
        if locked s e t then inl PeLocked
        else inr (add (Shard (s_ro s) (s_deg s) (s_meta s) (set t MDefault (s_garb s))
                             (s_blob s) (s_frd s) (s_fwr s) (s_err s)))
      end
    end
  end.

Definition with_blob (s : shard) (bl : list (oid * bytes)) : shard :=
  Shard (s_ro s) (s_deg s) (s_meta s) (s_garb s) bl (s_frd s) (s_fwr s) (s_err s).

(* shard.Put *)
Definition sh_put (s : shard) (e : N) (a : oid) (r : mrec) (b : bytes) : perr + shard :=
  if s_ro s then inl PeRO
  else if s_fwr s then inl PeIO
  else
    let s1 := with_blob s (set a b (s_blob s)) in
    if s_deg s then inr s1
    else match meta_put s1 e a r with
         | inl err => inl err   (* blob deleted again: the caller keeps the old shard
                                   with the blob removed, see sh_put_state *)
         | inr s2 => inr s2
         end.
(* state after a failed put: nothing was written when the blob write itself failed;
   when the metabase refused, the blob write is undone by blobStor.Delete *)
Definition sh_put_state (s : shard) (e : N) (a : oid) (r : mrec) (b : bytes) : shard :=
  match sh_put s e a r b with
  | inr s' => s'
  | inl err =>
    if s_ro s || s_fwr s then s
    else
      (* the metabase refused: the written data is dropped again, unless the metabase
         already knows the object (Exists with expiration ignored) *)
      let s1 := with_blob s (set a b (s_blob s)) in
      match meta_exists s1 0 a with
      | ExOk true => s1
      | _ => with_blob s (remove a (s_blob s))
      end
  end.

(* shard.Delete / deleteObjs for one id *)
Inductive derr := DeRO | DeDeg.
Definition sh_delete (s : shard) (a : oid) : derr + shard :=
  if s_ro s then inl DeRO else if s_deg s then inl DeDeg
  else inr (Shard (s_ro s) (s_deg s) (remove a (s_meta s)) (remove a (s_garb s))
                  (remove a (s_blob s)) (s_frd s) (s_fwr s) (s_err s)).

(* shard.MarkGarbage for one id *)
Definition sh_mark (s : shard) (a : oid) (m : mark) : derr + shard :=
  if s_ro s then inl DeRO else if s_deg s then inl DeDeg
  else
    let g := match lookup a (s_garb s), m with
             | Some MRedundant, MDefault => set a MDefault (s_garb s)
             | Some _, _ => s_garb s
             | None, _ => set a m (s_garb s)
             end in
    inr (Shard (s_ro s) (s_deg s) (s_meta s) g (s_blob s) (s_frd s) (s_fwr s) (s_err s)).

(* garbage part of Shard.removeGarbage: every id with a garbage mark is deleted *)
Fixpoint delete_all (s : shard) (ids : list oid) : shard :=
  match ids with
  | [] => s
  | a :: r => match sh_delete s a with inr s' => delete_all s' r | inl _ => s end
  end.
Definition sh_gc_garbage (s : shard) : shard :=
  if s_ro s || s_deg s then s else delete_all s (map fst (s_garb s)).

(* ---- engine ---- *)
Record engine := Engine { shards : list shard; epoch : N; thr : N }.

Fixpoint upd {A} (i : nat) (x : A) (l : list A) : list A :=
  match l, i with
  | [], _ => []
  | _ :: r, O => x :: r
  | y :: r, S j => y :: upd j x r
  end.

Definition set_mode (s : shard) (ro deg : bool) : shard :=
  Shard ro deg (s_meta s) (s_garb s) (s_blob s) (s_frd s) (s_fwr s) (s_err s).

(* reportShardError for a non-logical error: count, and move to degraded-read-only
   at the threshold *)
Definition report (t : N) (i : nat) (st : list shard) : list shard :=
  match nth_error st i with
  | None => st
  | Some s =>
    let c := s_err s + 1 in
    let s1 := Shard (s_ro s) (s_deg s) (s_meta s) (s_garb s) (s_blob s) (s_frd s) (s_fwr s) c in
    upd i (if negb (t =? 0) && (t <=? c) then set_mode s1 true true else s1) st
  end.

Inductive gres := GFound (b : bytes) | GNotFound | GRemoved.

(* first scan of StorageEngine.get: result if the scan returned, hasDegraded, and the
   last shard that answered "meta, but no object" with whether its error is logical *)
Fixpoint scan1 (t e : N) (a : oid) (ord : list nat) (st : list shard) (hasdeg : bool)
         (wm : option (nat * bool)) : option gres * list shard * bool * option (nat * bool) :=
  match ord with
  | [] => (None, st, hasdeg, wm)
  | i :: r =>
    match nth_error st i with
    | None => scan1 t e a r st hasdeg wm
    | Some s =>
      let nometa := s_deg s in
      let hd := hasdeg || nometa in
      let '(res, mno) := sh_get s e a nometa in
      let wm' := if mno then Some (i, match res with SIO => false | _ => true end) else wm in
      match res with
      | SFound b => (Some (GFound b), st, hd, wm')
      | SNotFound => scan1 t e a r st hd wm'
      | SRemoved => (Some GRemoved, st, hd, wm')
      | SExpired => (Some GNotFound, st, hd, wm')
      | SIO => scan1 t e a r (report t i st) hd wm'
      end
    end
  end.

(* second scan: blobs of the non-degraded shards read directly, unless the shard's
   metabase knows the object as removed / expired (Exists returns an error) *)
Fixpoint scan2 (e : N) (a : oid) (ord : list nat) (st : list shard) : option bytes :=
  match ord with
  | [] => None
  | i :: r =>
    match nth_error st i with
    | None => scan2 e a r st
    | Some s =>
      if s_deg s then scan2 e a r st
      else match meta_exists s e a with
           | ExOk _ =>
             match blob_read s a with
             | SFound b => Some b
             | _ => scan2 e a r st
             end
           | _ => scan2 e a r st
           end
    end
  end.

Definition engine_get (t e : N) (a : oid) (ord : list nat) (st : list shard) : gres * list shard :=
  match scan1 t e a ord st false None with
  | (Some g, st1, _, _) => (g, st1)
  | (None, st1, hasdeg, wm) =>
    match hasdeg, wm with
    | false, None => (GNotFound, st1)
    | _, _ =>
      match scan2 e a ord st1 with
      | Some b =>
        (GFound b, match wm with
                   | Some (j, false) => report t j st1
                   | _ => st1
                   end)
      | None => (GNotFound, st1)
      end
    end
  end.

(* StorageEngine.Head *)
Fixpoint engine_head (t e : N) (a : oid) (ord : list nat) (st : list shard) : gres * list shard :=
  match ord with
  | [] => (GNotFound, st)
  | i :: r =>
    match nth_error st i with
    | None => engine_head t e a r st
    | Some s =>
      match sh_head s e a with
      | SFound b => (GFound b, st)
      | SNotFound => engine_head t e a r st
      | SRemoved => (GRemoved, st)
      | SExpired => (GNotFound, st)
      | SIO => engine_head t e a r (report t i st)
      end
    end
  end.

(* existsPhysical: Some true / Some false, or an error class *)
Inductive xres := XYes | XNo | XRemoved | XNotFound.
Fixpoint exists_physical (t e : N) (a : oid) (ord : list nat) (st : list shard) : xres * list shard :=
  match ord with
  | [] => (XNo, st)
  | i :: r =>
    match nth_error st i with
    | None => exists_physical t e a r st
    | Some s =>
      match sh_exists s e a false with
      | ExExpired => (XYes, st)
      | ExRemoved => (XRemoved, st)
      | ExNotFound => (XNotFound, st)
      | ExIO => exists_physical t e a r (report t i st)
      | ExOk true => (XYes, st)
      | ExOk false => exists_physical t e a r st
      end
    end
  end.

(* putToShard: outcome and new shard list *)
Inductive ptres := PtOk | PtExists | PtErr (p : perr).
Definition put_to_shard (t e : N) (i : nat) (a : oid) (r : mrec) (b : bytes) (st : list shard)
  : ptres * list shard :=
  match nth_error st i with
  | None => (PtErr PeIO, st)
  | Some s =>
    match sh_exists s e a false with
    | ExExpired => (PtExists, st)
    | ExRemoved => (PtErr PeRemoved, st)
    | ExNotFound => (PtErr PeNotFound, st)
    | ExIO => (PtErr PeIO, st)
    | ExOk true => (PtExists, st)
    | ExOk false =>
      match sh_put s e a r b with
      | inr s' => (PtOk, upd i s' st)
      | inl err =>
        let st1 := upd i (sh_put_state s e a r b) st in
        (PtErr err, if pe_logic err then st1 else report t i st1)
      end
    end
  end.

(* result classes of engine operations (shared with the harness) *)
Inductive ores := ROk | RRemoved | RLocked | RNotFound | ROther.
Definition ores_of_perr (p : perr) : ores :=
  match p with
  | PeRemoved => RRemoved | PeLocked => RLocked | PeNotFound => RNotFound | _ => ROther
  end.

(* Put of a regular object: first shard of the placement order that accepts *)
Fixpoint put_regular (t e : N) (a : oid) (r : mrec) (b : bytes) (ord : list nat)
         (st : list shard) (last : ores) : ores * list shard :=
  match ord with
  | [] => (last, st)
  | i :: rest =>
    match put_to_shard t e i a r b st with
    | (PtOk, st') | (PtExists, st') => (ROk, st')
    | (PtErr p, st') => put_regular t e a r b rest st' (ores_of_perr p)
    end
  end.

(* broadcastObject: visit in the given order; good shards; fatal stops; rollback *)
Fixpoint bcast (t e : N) (a : oid) (r : mrec) (b : bytes) (ord : list nat) (st : list shard)
         (good : list nat) (last : option perr) : list shard * list nat * option perr * bool :=
  match ord with
  | [] => (st, good, last, false)
  | i :: rest =>
    match put_to_shard t e i a r b st with
    | (PtOk, st') | (PtExists, st') => bcast t e a r b rest st' (good ++ [i]) last
    | (PtErr p, st') =>
      if pe_fatal p then (st', good, Some p, true)
      else bcast t e a r b rest st' good (Some p)
    end
  end.

Fixpoint rollback (a : oid) (good : list nat) (st : list shard) : list shard :=
  match good with
  | [] => st
  | i :: r =>
    match nth_error st i with
    | None => rollback a r st
    | Some s => match sh_delete s a with
                | inr s' => rollback a r (upd i s' st)
                | inl _ => rollback a r st
                end
    end
  end.

Definition broadcast (t e : N) (a : oid) (r : mrec) (b : bytes) (ord : list nat) (st : list shard)
  : ores * list shard :=
  let '(st1, good, last, fatal) := bcast t e a r b ord st [] None in
  let st2 := if fatal then rollback a good st1 else st1 in
  if fatal || match good with [] => true | _ => false end then
    (match last with Some p => ores_of_perr p | None => ROther end, st2)
  else (ROk, st2).

Definition is_regular (r : mrec) : bool := match mk r with KReg => true | _ => false end.

(* StorageEngine.Put.  ordx: HRW order of the object's ID (existsPhysical), ordp: order
   used for placement (parent ID for EC parts), ordb: broadcast visiting order *)
Definition engine_put (t e : N) (a : oid) (r : mrec) (b : bytes) (ordx ordp ordb : list nat)
           (st : list shard) : ores * list shard :=
  match exists_physical t e a ordx st with
  | (XYes, st1) => (ROk, st1)
  | (XRemoved, st1) => (RRemoved, st1)
  | (XNotFound, st1) => (RNotFound, st1)
  | (XNo, st1) =>
    if is_regular r then
      match ordp with
      | [] => (ROther, st1)
      | _ => put_regular t e a r b ordp st1 ROther
      end
    else broadcast t e a r b ordb st1
  end.

(* processAddrDeleteOnShards for a non-root object.  f = MarkGarbage mark | Delete *)
Inductive delop := DMark (m : mark) | DDrop.
Definition apply_del (d : delop) (s : shard) (a : oid) : derr + shard :=
  match d with DMark m => sh_mark s a m | DDrop => sh_delete s a end.

Fixpoint engine_delete (t e : N) (d : delop) (a : oid) (ord : list nat) (st : list shard)
  : ores * list shard :=
  match ord with
  | [] => (ROk, st)
  | i :: r =>
    match nth_error st i with
    | None => engine_delete t e d a r st
    | Some s =>
      match sh_exists s e a true with
      | ExNotFound => engine_delete t e d a r st
      | ExRemoved => (ROk, st)
      | ExExpired => engine_delete t e d a r st     (* cannot happen: epoch 0 *)
      | ExIO => engine_delete t e d a r (report t i st)
      | ExOk false => engine_delete t e d a r st
      | ExOk true =>
        match apply_del d s a with
        | inr s' => engine_delete t e d a r (upd i s' st)
        | inl _ => (ROther, st)
        end
      end
    end
  end.

(* SetShardMode *)
Definition engine_set_mode (i : nat) (ro deg reset : bool) (st : list shard) : list shard :=
  match nth_error st i with
  | None => st
  | Some s =>
    let s1 := if reset then Shard (s_ro s) (s_deg s) (s_meta s) (s_garb s) (s_blob s)
                                  (s_frd s) (s_fwr s) 0 else s in
    upd i (set_mode s1 ro deg) st
  end.

Definition set_fault (i : nat) (frd fwr : bool) (st : list shard) : list shard :=
  match nth_error st i with
  | None => st
  | Some s => upd i (Shard (s_ro s) (s_deg s) (s_meta s) (s_garb s) (s_blob s) frd fwr (s_err s)) st
  end.

Definition gc_garbage (i : nat) (st : list shard) : list shard :=
  match nth_error st i with
  | None => st
  | Some s => upd i (sh_gc_garbage s) st
  end.
