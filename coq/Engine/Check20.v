(* Engine family (C20): histories that also contain DATA LOSS -- the data of one object
   disappears from the BLOB storage of one shard while the shard's metabase still lists
   the object (lost / removed files: the storage then answers "not found", not an I/O
   error).  The state "metadata without data" is covered by the model (sh_get's
   "got meta, but no object" flag) and by the theorems (they quantify over all shard
   contents), but no engine operation produces it, so the histories of Check.v never
   reached it.  Definitions only.

   The wrapper keeps Check.eop unchanged (the C08 / C19 proofs do case analysis on it). *)
From Coq Require Import List NArith Bool Arith.
Import ListNotations.
From NV Require Import Engine.Model Engine.Spec Engine.Check.
Local Open Scope N_scope.

Inductive eop20 :=
| E20 (o : eop)                  (* the operations of Check.v; every read flavour of
                                    StorageEngine.get (Get, GetBytes, GetStream) is an OGet *)
| OLose (s : nat) (i : nat).     (* the data of object i vanishes from shard s's BLOB storage *)

Definition lose (s : nat) (a : oid) (st : list shard) : list shard :=
  match nth_error st s with
  | None => st
  | Some sh => upd s (with_blob sh (remove a (s_blob sh))) st
  end.

Definition step20 (u : universe) (en : engine) (o : eop20) : N * N * engine :=
  match o with
  | E20 o' => step u en o'
  | OLose s i => (0, 0, Engine (lose s (oid_of i) (shards en)) (epoch en) (thr en))
  end.

Definition hist20 := (nat * N * universe * list (eop20 * obs))%type.

Fixpoint first_mismatch20 (u : universe) (en : engine) (k : nat) (ops : list (eop20 * obs)) : option nat :=
  match ops with
  | [] => None
  | (o, ob) :: r =>
    let '(c, tg, en') := step20 u en o in
    if obs_ok c tg en' ob then first_mismatch20 u en' (S k) r else Some k
  end.

Definition hist_mismatch20 (h : hist20) : option nat :=
  let '(n, t, u, ops) := h in first_mismatch20 u (init_engine n t) 0 ops.

(* encoded as history index * 1000 + operation index *)
Fixpoint model_mismatches20_from (j : N) (hs : list hist20) : list N :=
  match hs with
  | [] => []
  | h :: r => match hist_mismatch20 h with
              | Some k => (j * 1000 + N.of_nat k) :: model_mismatches20_from (j + 1) r
              | None => model_mismatches20_from (j + 1) r
              end
  end.
Definition model_mismatches20 := model_mismatches20_from 0.

(* reference check of the reads, as Check.ref_devs *)
Fixpoint ref_devs20 (u : universe) (en : engine) (k : nat) (ops : list (eop20 * obs))
  : list (nat * nat) :=
  match ops with
  | [] => []
  | (o, ob) :: r =>
    let here :=
      match o with
      | E20 (OGet i _) | E20 (OHead i _) => read_dev (shards en) (epoch en) i (o_res ob) (o_tag ob)
      | _ => 0%nat
      end in
    let '(_, _, en') := step20 u en o in
    if (here =? 0)%nat then ref_devs20 u en' (S k) r else (k, here) :: ref_devs20 u en' (S k) r
  end.

Definition hist_devs20 (h : hist20) : list (nat * nat) :=
  let '(n, t, u, ops) := h in ref_devs20 u (init_engine n t) 0 ops.

(* (history index * 1000 + operation index) * 100 + class *)
Fixpoint all_devs20_from (j : N) (hs : list hist20) : list N :=
  match hs with
  | [] => []
  | h :: r =>
    map (fun p => (j * 1000 + N.of_nat (fst p)) * 100 + N.of_nat (snd p)) (hist_devs20 h)
    ++ all_devs20_from (j + 1) r
  end.
Definition all_devs20 := all_devs20_from 0.

(* metadata without data: some healthy shard lists a while its blob is gone *)
Definition meta_no_data (st : list shard) (a : oid) : bool :=
  existsb (fun s => negb (s_deg s) && has a (s_meta s) && negb (has a (s_blob s))) st.

(* coverage: reads in a consistent state; reads; reads with "metadata without data" on some
   shard; of those, reads whose reference answer is Found (a copy survives elsewhere) *)
Fixpoint count_reads20 (u : universe) (en : engine) (ops : list (eop20 * obs)) : nat * nat * nat * nat :=
  match ops with
  | [] => (0, 0, 0, 0)%nat
  | (o, ob) :: r =>
    let '(_, _, en') := step20 u en o in
    let '(c, n, l, lf) := count_reads20 u en' r in
    match o with
    | E20 (OGet i _) | E20 (OHead i _) =>
      let a := oid_of i in
      let lost := meta_no_data (shards en) a in
      ((if consistent (shards en) (epoch en) a then S c else c), S n,
       (if lost then S l else l),
       (if lost && ref_found (shards en) (epoch en) a (bytes_of i) then S lf else lf))
    | _ => (c, n, l, lf)
    end
  end.
Definition reads_stats20 (hs : list hist20) : list N :=
  let l := map (fun h : hist20 => let '(n, t, u, ops) := h in count_reads20 u (init_engine n t) ops) hs in
  let sum f := fold_right (fun p acc => N.of_nat (f p) + acc) 0 l in
  [sum (fun p => fst (fst (fst p))); sum (fun p => snd (fst (fst p))); sum (fun p => snd (fst p)); sum (fun p => snd p)].

(* the model's observation at operation k (for replay files):
   [code; tag] ++ modes ++ [999] ++ error counters *)
Fixpoint model_obs_at20_from (u : universe) (en : engine) (k : nat) (ops : list (eop20 * obs)) : list N :=
  match ops with
  | [] => []
  | (o, _) :: r =>
    let '(c, tg, en') := step20 u en o in
    match k with
    | O => [c; tg] ++ map mode_code (shards en') ++ [999] ++ map s_err (shards en')
    | S k' => model_obs_at20_from u en' k' r
    end
  end.
Definition model_obs_at20 (h : hist20) (k : nat) : list N :=
  let '(n, t, u, ops) := h in model_obs_at20_from u (init_engine n t) k ops.
