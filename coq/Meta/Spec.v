(* Reference rules of C01 / C02, written from the property text, without the
   index machinery of the implementation.  Everything is a boolean / computable
   function of the abstract content of a container bucket (stored headers,
   garbage marks, container mark) so that it can be evaluated on the state
   dumped from the real database.  Definitions only. *)
From Coq Require Import List NArith Bool.
Import ListNotations.
From NV Require Import Gen.MetaConsts Meta.SMap Meta.Model.
Local Open Scope N_scope.

Inductive status := Available | NotFound | Removed | Expired.

(* "worse" follows the order of the implementation's status constants (Gen) *)
Definition rank (s : status) : N :=
  match s with
  | Available => st_available | NotFound => st_gc_marked
  | Removed => st_tombstoned | Expired => st_expired
  end.
Definition worse (a b : status) : status := if rank a <? rank b then b else a.

Definition status_eqb (a b : status) : bool :=
  match a, b with
  | Available, Available | NotFound, NotFound | Removed, Removed | Expired, Expired => true
  | _, _ => false
  end.

Definition is_type (t : otype) (e : entry) : bool := otype_eqb (h_typ (e_hdr e)) t.
Definition targets (o : oid) (e : entry) : bool := opt_eqb (h_assoc (e_hdr e)) (Some o).

(* a tombstone object stored in the container targets o *)
Definition tombstoned (b : cstate) (o : oid) : bool :=
  existsb (fun kv => is_type TTombstone (snd kv) && targets o (snd kv)) (objs b).

(* o carries a garbage mark that makes it unavailable (redundant copies stay readable) *)
Definition marked (b : cstate) (o : oid) : bool :=
  match sm_get o (garb b) with Some MDefault => true | _ => false end.

(* o carries any garbage mark *)
Definition any_mark (b : cstate) (o : oid) : bool := sm_mem o (garb b).

(* o is stored with an expiration epoch that has passed at epoch e *)
Definition expired (b : cstate) (e : N) (o : oid) : bool :=
  match sm_get o (objs b) with
  | Some en => match h_exp (e_hdr en) with Some x => x <? e | None => false end
  | None => false
  end.

(* a lock object l is live at e: not expired, not removed itself *)
Definition lock_live (b : cstate) (e : N) (l : oid) : bool :=
  negb (expired b e l) && negb (tombstoned b l) && negb (marked b l).

(* some live lock object targets o *)
Definition live_lock (b : cstate) (e : N) (o : oid) : bool :=
  existsb (fun kv => is_type TLock (snd kv) && targets o (snd kv) && lock_live b e (fst kv)) (objs b).

(* status of o by itself.  A live lock overrides expiry and garbage marks; a
   tombstone is not overridden.  When several rules apply the worst one wins. *)
Definition direct (b : cstate) (e : N) (o : oid) : status :=
  let locked := live_lock b e o in
  let s1 := if marked b o && negb locked then NotFound else Available in
  let s2 := if tombstoned b o then worse Removed s1 else s1 in
  if expired b e o && negb locked then worse Expired s2 else s2.

(* the parent of o: the one o names itself, else the one named by the least
   sibling (same first-part ID, else same split ID) that names a parent *)
Definition names_parent (e : entry) : bool :=
  match h_parent (e_hdr e) with Some _ => true | None => false end.
Definition sibling_parent (b : cstate) (same : entry -> bool) : option oid :=
  match find (fun kv => same (snd kv) && names_parent (snd kv)) (objs b) with
  | Some kv => h_parent (e_hdr (snd kv))
  | None => None
  end.
Definition parent_of (b : cstate) (o : oid) : option oid :=
  match sm_get o (objs b) with
  | None => None
  | Some en =>
      match h_parent (e_hdr en), h_first (e_hdr en), h_split (e_hdr en) with
      | Some p, _, _ => Some p
      | None, Some f, _ => sibling_parent b (fun e' => opt_eqb (h_first (e_hdr e')) (Some f))
      | None, None, Some sp => sibling_parent b (fun e' => opt_eqb (h_split (e_hdr e')) (Some sp))
      | None, None, None => None
      end
  end.

(* a child that is still available / merely not found inherits a worse status
   of its parent, up to k generations *)
Fixpoint status_k (k : nat) (b : cstate) (e : N) (o : oid) : status :=
  let d := direct b e o in
  match d with
  | Removed | Expired => d
  | _ => match parent_of b o, k with
         | Some p, S k' => worse (status_k k' b e p) d
         | _, _ => d
         end
  end.

(* the reference status of address (c, o) at epoch e *)
Definition status_in (b : cstate) (e : N) (o : oid) : status :=
  if cgc b then NotFound else status_k max_nesting b e o.

Definition status_at (s : state) (e : N) (c : cid) (o : oid) : status :=
  match sm_get c (cnrs s) with
  | None => Available       (* nothing known about the container: nothing removes o *)
  | Some b => status_in b e o
  end.

(* ---- the known class of C01 (known_findings.txt, key tombstone-and-live-lock):
   the object, or an ancestor it inherits from, is both tombstoned and
   protected by a live lock.  The implementation reports such an object as
   available, the statement says a lock overrides expiry and garbage marks only. *)
Definition tomb_locked (b : cstate) (e : N) (o : oid) : bool := tombstoned b o && live_lock b e o.

Fixpoint excluded_k (k : nat) (b : cstate) (e : N) (o : oid) : bool :=
  tomb_locked b e o ||
  match direct b e o with
  | Removed | Expired => false
  | _ => match parent_of b o, k with
         | Some p, S k' => excluded_k k' b e p
         | _, _ => false
         end
  end.

Definition excluded (s : state) (e : N) (c : cid) (o : oid) : bool :=
  match sm_get c (cnrs s) with
  | Some b => negb (cgc b) && excluded_k max_nesting b e o
  | None => false
  end.

(* ---- listing: omits exactly the objects marked for removal *)
Definition marked_for_removal (b : cstate) (o : oid) : bool := tombstoned b o || marked b o.

Definition listed_in (b : cstate) : list (oid * otype) :=
  if cgc b then [] else
  flat_map (fun kv : oid * entry =>
              if e_phy (snd kv) && negb (marked_for_removal b (fst kv))
              then [(fst kv, h_typ (e_hdr (snd kv)))] else []) (objs b).
Definition listed (s : state) : list (cid * oid * otype) :=
  flat_map (fun cb : cid * cstate => map (fun it => (fst cb, fst it, snd it)) (listed_in (snd cb))) (cnrs s).

(* ---- expired-object iteration: expired, unlocked objects of live containers *)
Definition expired_unlocked_in (b : cstate) (e : N) : list (oid * otype) :=
  if cgc b then [] else
  flat_map (fun kv : oid * entry =>
              if expired b e (fst kv) && negb (live_lock b e (fst kv))
              then [(fst kv, h_typ (e_hdr (snd kv)))] else []) (objs b).
Definition expired_unlocked (s : state) (e : N) : list (cid * oid * otype) :=
  flat_map (fun cb : cid * cstate => map (fun it => (fst cb, fst it, snd it)) (expired_unlocked_in (snd cb) e)) (cnrs s).

(* ---- search: the stored objects whose status is Available *)
Definition search_in (b : cstate) (e : N) : list oid :=
  if cgc b then [] else
  filter (fun o => status_eqb (status_k max_nesting b e o) Available) (sm_keys (objs b)).

(* ---- C02: recount *)
Definition count_objs (p : entry -> bool) (b : cstate) : N :=
  N.of_nat (length (filter (fun kv => p (snd kv)) (objs b))).

(* for size estimation an object is out as soon as it carries any removal mark *)
Definition out_for_estimation (b : cstate) (o : oid) : bool := tombstoned b o || any_mark b o.

Record recount_t := mkRecount {
  r_phy : N; r_root : N; r_ts : N; r_lock : N; r_link : N;
  r_objects : N;   (* container info: objects number *)
  r_size : N       (* container info: storage size *)
}.

(* objects of a removed container are not counted *)
Definition recount (b : cstate) : recount_t :=
  if cgc b then mkRecount 0 0 0 0 0 0 0 else
  mkRecount (count_objs e_phy b) (count_objs e_root b)
            (count_objs (is_type TTombstone) b) (count_objs (is_type TLock) b) (count_objs (is_type TLink) b)
            (N.of_nat (length (filter (fun kv => e_phy (snd kv) && negb (out_for_estimation b (fst kv))) (objs b))))
            (fold_right (fun kv acc => if e_phy (snd kv) && negb (out_for_estimation b (fst kv))
                                       then h_size (e_hdr (snd kv)) + acc else acc) 0 (objs b)).

(* what DB.ObjectCounters / DB.GetContainerInfo report for one bucket vs the recount *)
Definition typed_ok (b : cstate) : bool :=
  let r := recount b in let n := cnt b in
  (c_phy n =? r_phy r) && (c_root n =? r_root r) && (c_ts n =? r_ts r) && (c_lock n =? r_lock r) && (c_link n =? r_link r).
Definition info_of (b : cstate) : N * N :=
  if cgc b then (0, 0) else
  (c_payload (cnt b), if c_gc (cnt b) <? c_phy (cnt b) then c_phy (cnt b) - c_gc (cnt b) else 0).
Definition info_ok (b : cstate) : bool :=
  let r := recount b in (fst (info_of b) =? r_size r) && (snd (info_of b) =? r_objects r).
Definition counters_ok (s : state) : bool :=
  forallb (fun cb : cid * cstate => typed_ok (snd cb) && info_ok (snd cb)) (cnrs s).

(* no counter can have wrapped: object count and total payload stay below 2^64 *)
Definition fits (s : state) : bool :=
  forallb (fun cb : cid * cstate =>
             N.of_nat (length (objs (snd cb))) + fold_right (fun kv acc => h_size (e_hdr (snd kv)) + acc) 0 (objs (snd cb))
             <? 18446744073709551616) (cnrs s).

(* ---- C02: the fragment of histories on which the counters are proved exact.
   An operation outside it is one of the known drift classes (reason code):
     2 relations           objects with family relations (parent/first/split/EC), see notes/C02.md
     3 put-on-marked-id    Put of an ID that carries a garbage mark or a tombstone
     4 tombstone-target    tombstone whose target is not a stored, unmarked, regular object
     5 mark-unstored       garbage mark for an ID that is not stored
     6 revive-multi-tomb   revival of an object with more than one tombstone
     7 (not a defect)      the state no longer fits 64-bit counters *)
Definition simple_hdr (h : hdr) : bool :=
  match h_parent h, h_first h, h_split h, h_ecr h, h_eci h with
  | None, None, None, None, None => true
  | _, _, _, _, _ => false
  end.
Definition simple_obj (o : obj) : bool :=
  simple_hdr (o_hdr o) && match o_par o with None => true | Some _ => false end.

Definition count_tombs (b : cstate) (o : oid) : nat :=
  length (filter (fun kv => is_type TTombstone (snd kv) && targets o (snd kv)) (objs b)).

Definition unclean_put (b : cstate) (o : obj) : N :=
  if negb (simple_obj o) then 2
  else if any_mark b (o_id o) || tombstoned b (o_id o) then 3
  else match h_typ (o_hdr o), h_assoc (o_hdr o) with
       | TTombstone, Some x =>
           match sm_get x (objs b) with
           | Some en => if is_type TRegular en && negb (out_for_estimation b x) && negb (x =? o_id o) then 0 else 4
           | None => 4
           end
       | _, _ => 0
       end.

Definition unclean_op (s : state) (o : op) : N :=
  match o with
  | OPut c ob => unclean_put (bucket_or_new s c) ob
  | OBatch os =>
      (fix go (s : state) (l : list (cid * obj)) : N :=
         match l with
         | [] => 0
         | (c, ob) :: r =>
             let u := unclean_put (bucket_or_new s c) ob in
             if u =? 0 then go (fst (step s (OPut c ob))) r else u
         end) s os
  | OMark c ids _ =>
      match sm_get c (cnrs s) with
      | Some b => if cgc b then 0 else if forallb (fun id => sm_mem id (objs b)) ids then 0 else 5
      | None => 0
      end
  | ORevive c id =>
      match sm_get c (cnrs s) with
      | Some b => if cgc b then 0 else if Nat.leb 2 (count_tombs b id) then 6 else 0
      | None => 0
      end
  | _ => 0
  end.

(* first operation of a history outside the fragment: (index, reason) *)
Fixpoint first_unclean (k : nat) (s : state) (h : list op) : option (nat * N) :=
  match h with
  | [] => None
  | o :: r => let u := unclean_op s o in
              if u =? 0 then
                let s' := fst (step s o) in
                if fits s' then first_unclean (S k) s' r else Some (k, 7)
              else Some (k, u)
  end.
Definition clean_hist (h : list op) : bool :=
  match first_unclean 0 state0 h with None => true | Some _ => false end.
