(* Every reachable state is well formed: all index lists stay strictly sorted. *)
From Coq Require Import List NArith ZArith Bool Lia.
Import ListNotations.
From NV Require Import Gen.MetaConsts Meta.SMap Meta.SMapProofs Meta.Model Meta.Spec Meta.StatusProofs.
Local Open Scope N_scope.

Definition wf_state (s : state) : Prop :=
  sm_wf (cnrs s) = true /\ forall c b, In (c, b) (cnrs s) -> wfc b.

Local Opaque collect_children cc_fuel dm_fuel.

Ltac wfc_t := unfold wfc in *; simpl in *; intuition auto using sm_wf_put, sm_wf_del.

Lemma wfc_cstate0 : wfc cstate0.
Proof. split; reflexivity. Qed.

Lemma wfc_set_cnt b n : wfc b -> wfc (set_cnt b n).
Proof. wfc_t. Qed.
Lemma wfc_put_garb b k m : wfc b -> wfc (set_garb b (sm_put k m (garb b))).
Proof. wfc_t. Qed.
Lemma wfc_del_garb b k : wfc b -> wfc (set_garb b (sm_del k (garb b))).
Proof. wfc_t. Qed.

Lemma wfc_ts_loop cur ids : forall b i p, wfc b -> wfc (fst (fst (ts_loop cur b ids i p))).
Proof.
  induction ids as [|id r IH]; intros b i p W; simpl; auto.
  destruct (get_raw_ok b id); apply IH; now apply wfc_put_garb.
Qed.

Lemma wfc_handle_assoc cur b d o : wfc b -> wfc (fst (fst (handle_assoc cur b d o))).
Proof.
  intros W. unfold handle_assoc. destruct (h_assoc (o_hdr o)); simpl; auto.
  destruct (h_typ (o_hdr o)); simpl; auto.
  - destruct (type_of b o0) as [[| | |]|]; simpl; auto.
    + destruct (object_locked cur b o0); simpl; auto.
      pose proof (wfc_ts_loop cur (collect_children (cc_fuel b) b o0 ++ [o0]) b 0%Z (d_payload d) W) as H.
      destruct (ts_loop cur b (collect_children (cc_fuel b) b o0 ++ [o0]) 0%Z (d_payload d)) as [[c' i] p]. exact H.
    + destruct (object_locked cur b o0); simpl; auto.
      pose proof (wfc_ts_loop cur (collect_children (cc_fuel b) b o0 ++ [o0]) b 0%Z (d_payload d) W) as H.
      destruct (ts_loop cur b (collect_children (cc_fuel b) b o0 ++ [o0]) 0%Z (d_payload d)) as [[c' i] p]. exact H.
    + destruct (object_locked cur b o0); simpl; auto.
      pose proof (wfc_ts_loop cur (collect_children (cc_fuel b) b o0 ++ [o0]) b 0%Z (d_payload d) W) as H.
      destruct (ts_loop cur b (collect_children (cc_fuel b) b o0 ++ [o0]) 0%Z (d_payload d)) as [[c' i] p]. exact H.
  - destruct (type_of b o0) as [[| | |]|]; simpl; auto;
      destruct ((object_status b o0 cur =? st_tombstoned) || (in_garbage b o0 =? st_tombstoned)); simpl; auto.
Qed.

Lemma wfc_put_metadata b o phy : wfc b -> wfc (put_metadata b o phy).
Proof. intros W. unfold put_metadata. destruct (get_entry b (o_id o)); wfc_t. Qed.

Lemma wfc_put_obj n : forall top cur b o, wfc b -> wfc (fst (fst (put_obj n top cur b o))).
Proof.
  induction n; intros top cur b o W.
  - simpl. destruct (cgc b); simpl; auto.
    destruct (object_status b (o_id o) cur =? st_tombstoned); simpl; auto.
    destruct (object_status b (o_id o) cur =? st_expired); simpl; auto.
    destruct ((object_status b (o_id o) cur =? st_available) && stored b (o_id o)); simpl; auto.
    destruct (o_par o); simpl; auto.
    destruct (h_typ (o_hdr o)); simpl.
    + apply wfc_put_metadata. now apply wfc_set_cnt.
    + pose proof (wfc_handle_assoc cur b (if top then mkDiff 0 0 0 0 0 0 (Z.of_N (h_size (o_hdr o))) else diff0) o W) as H.
      destruct (handle_assoc cur b _ o) as [[c2 d] e]. simpl in *.
      destruct e; simpl; auto. apply wfc_put_metadata. now apply wfc_set_cnt.
    + pose proof (wfc_handle_assoc cur b (if top then mkDiff 0 0 0 0 0 0 (Z.of_N (h_size (o_hdr o))) else diff0) o W) as H.
      destruct (handle_assoc cur b _ o) as [[c2 d] e]. simpl in *.
      destruct e; simpl; auto. apply wfc_put_metadata. now apply wfc_set_cnt.
    + apply wfc_put_metadata. now apply wfc_set_cnt.
  - simpl. destruct (cgc b); simpl; auto.
    destruct (object_status b (o_id o) cur =? st_tombstoned); simpl; auto.
    destruct (object_status b (o_id o) cur =? st_expired); simpl; auto.
    destruct ((object_status b (o_id o) cur =? st_available) && stored b (o_id o)); simpl; auto.
    assert (Hp : forall c1 e1, (match o_par o with
                    | None => (b, EOk)
                    | Some p => let '(c', _, e) := put_obj n false cur b p in (c', e)
                    end) = (c1, e1) -> wfc c1).
    { intros c1 e1. destruct (o_par o) as [p|].
      - pose proof (IHn false cur b p W) as H. destruct (put_obj n false cur b p) as [[c' d'] e'].
        simpl in H. intros E; inversion E; subst; auto.
      - intros E; inversion E; subst; auto. }
    destruct (match o_par o with
              | None => (b, EOk)
              | Some p => let '(c', _, e) := put_obj n false cur b p in (c', e)
              end) as [c1 e1] eqn:E.
    specialize (Hp c1 e1 eq_refl).
    destruct e1; simpl; auto.
    destruct (h_typ (o_hdr o)); simpl.
    + apply wfc_put_metadata. now apply wfc_set_cnt.
    + pose proof (wfc_handle_assoc cur c1 (if top then mkDiff 0 0 0 0 0 0 (Z.of_N (h_size (o_hdr o))) else diff0) o Hp) as H.
      destruct (handle_assoc cur c1 _ o) as [[c2 d] e]. simpl in *.
      destruct e; simpl; auto. apply wfc_put_metadata. now apply wfc_set_cnt.
    + pose proof (wfc_handle_assoc cur c1 (if top then mkDiff 0 0 0 0 0 0 (Z.of_N (h_size (o_hdr o))) else diff0) o Hp) as H.
      destruct (handle_assoc cur c1 _ o) as [[c2 d] e]. simpl in *.
      destruct e; simpl; auto. apply wfc_put_metadata. now apply wfc_set_cnt.
    + apply wfc_put_metadata. now apply wfc_set_cnt.
Qed.

Lemma wfc_mark_loop ids m : forall b ng pay, wfc b -> wfc (fst (fst (mark_loop b ids m ng pay))).
Proof.
  induction ids as [|id r IH]; intros b ng pay W; simpl; auto.
  destruct (sm_get id (garb b)) as [old|].
  - apply IH. destruct m, old; auto using wfc_put_garb.
  - apply IH. now apply wfc_put_garb.
Qed.

Lemma wfc_mark_garbage b ids m : wfc b -> wfc (fst (fst (mark_garbage b ids m))).
Proof.
  intros W. unfold mark_garbage.
  pose proof (wfc_mark_loop (flat_map (fun id => id :: collect_children (cc_fuel b) b id) ids) m b 0%Z 0%Z W) as H.
  destruct (mark_loop b _ m 0%Z 0%Z) as [[c' ng] pay]. simpl in *. now apply wfc_set_cnt.
Qed.

Lemma wfc_inhume b : wfc b -> wfc (fst (inhume_container b)).
Proof. wfc_t. Qed.

Lemma wfc_delete_metadata f : forall b id p, wfc b -> wfc (fst (delete_metadata f b id p)).
Proof.
  induction f; intros b id p W; simpl; auto.
  destruct (get_entry b id) as [e|].
  - destruct (negb p && negb (e_phy e)); simpl; auto.
    set (c1 := mkC (sm_del id (objs b)) (sm_del id (garb b)) (cgc b) (cnt b)).
    assert (W1 : wfc c1) by (unfold c1; wfc_t).
    destruct (h_parent (e_hdr e)) as [par|].
    + destruct (is_parent c1 par); simpl.
      * destruct (negb (negb (e_phy e)) && negb (sm_mem id (garb b))); auto.
      * pose proof (IHf c1 par true W1) as H.
        destruct (delete_metadata f c1 par true) as [c' pd]. simpl in *.
        destruct (negb (negb (e_phy e)) && negb (sm_mem id (garb b))); auto.
    + simpl. destruct (negb (negb (e_phy e)) && negb (sm_mem id (garb b))); auto.
  - destruct (sm_mem id (garb b)); simpl; auto. now apply wfc_del_garb.
Qed.

Lemma wfc_delete_loop ids : forall b d, wfc b -> wfc (fst (delete_loop b ids d)).
Proof.
  induction ids as [|id r IH]; intros b d W; simpl; auto.
  pose proof (wfc_delete_metadata (dm_fuel b) b id false W) as H.
  destruct (delete_metadata (dm_fuel b) b id false) as [c' d']. apply IH. exact H.
Qed.

Lemma wfc_delete_group b ids : wfc b -> wfc (fst (fst (delete_group b ids))).
Proof.
  intros W. unfold delete_group.
  pose proof (wfc_delete_loop (supplement b ids) b diff0 W) as H.
  destruct (delete_loop b (supplement b ids) diff0) as [c' d]. simpl in *. now apply wfc_set_cnt.
Qed.

Lemma wfc_revive_counters b id : wfc b -> wfc (revive_counters b id).
Proof. intros W. unfold revive_counters. destruct (get_entry b id); [now apply wfc_set_cnt|exact W]. Qed.

Lemma wfc_revive b id : wfc b -> wfc (fst (revive b id)).
Proof.
  intros W. unfold revive. destruct (cgc b); simpl; auto.
  destruct (in_garbage b id =? st_available); simpl; auto.
  assert (H : forall c1 r, (if in_garbage b id =? st_tombstoned
             then match assoc_typed 0 b id TTombstone with
                  | Some t => let '(c', d) := delete_metadata (dm_fuel b) b t false in
                              (set_cnt c' (apply_diff (cnt c') d), RGraveyard t)
                  | None => (b, RGarbage)
                  end else (b, RGarbage)) = (c1, r) -> wfc c1).
  { intros c1 r. destruct (in_garbage b id =? st_tombstoned).
    - destruct (assoc_typed 0 b id TTombstone) as [t|].
      + pose proof (wfc_delete_metadata (dm_fuel b) b t false W) as H.
        destruct (delete_metadata (dm_fuel b) b t false) as [c' d]. simpl in H.
        intros E; inversion E; subst. now apply wfc_set_cnt.
      + intros E; inversion E; subst; auto.
    - intros E; inversion E; subst; auto. }
  destruct (if in_garbage b id =? st_tombstoned then _ else _) as [c1 r] eqn:E.
  specialize (H c1 r eq_refl). simpl.
  apply wfc_del_garb. apply wfc_revive_counters. now apply wfc_set_cnt.
Qed.

(* ---- whole state *)
Lemma sm_put_in {A} k (v : A) m x : In x (sm_put k v m) -> x = (k, v) \/ In x m.
Proof.
  induction m as [|[k' v'] r IH]; simpl.
  - intros [H|[]]; auto.
  - destruct (k =? k').
    + simpl. intros [H|H]; auto.
    + destruct (k <? k'); simpl.
      * intros [H|[H|H]]; auto.
      * intros [H|H]; auto. destruct (IH H); auto.
Qed.

Lemma sm_del_in {A} k (m : smap A) x : In x (sm_del k m) -> In x m.
Proof.
  induction m as [|[k' v'] r IH]; simpl; auto.
  destruct (k =? k'); auto. destruct (k <? k'); simpl; auto.
  intros [H|H]; auto.
Qed.

Lemma wf_bucket s c b : wf_state s -> bucket s c = Some b -> wfc b.
Proof. intros [_ H] E. apply (H c). now apply sm_get_some_in. Qed.

Lemma wf_bucket_or_new s c : wf_state s -> wfc (bucket_or_new s c).
Proof.
  intros W. unfold bucket_or_new. destruct (bucket s c) eqn:E.
  - eapply wf_bucket; eauto.
  - apply wfc_cstate0.
Qed.

Lemma wf_set_bucket s c b : wf_state s -> wfc b -> wf_state (set_bucket s c b).
Proof.
  intros [W1 W2] Wb. split; simpl.
  - now apply sm_wf_put.
  - intros c' b' Hin. apply sm_put_in in Hin as [E|Hin].
    + inversion E; subst; auto.
    + eapply W2; eauto.
Qed.

Lemma wf_state0 : wf_state state0.
Proof. split; [reflexivity|]. intros c b []. Qed.

Lemma wf_batch_loop os : forall s, wf_state s ->
  match batch_loop s os with inl s' => wf_state s' | inr _ => True end.
Proof.
  induction os as [|[c o] r IH]; intros s W; simpl; auto.
  pose proof (wfc_put_obj max_nesting true (epoch s) (bucket_or_new s c) o (wf_bucket_or_new s c W)) as H.
  unfold put_top. destruct (put_obj max_nesting true (epoch s) (bucket_or_new s c) o) as [[b d] e]. simpl in H.
  destruct e; simpl; auto; try (apply IH; now apply wf_set_bucket);
    try (apply IH; destruct (bucket s c); [now apply wf_set_bucket|];
         destruct (objs b); auto; now apply wf_set_bucket).
Qed.

Lemma wf_step s o : wf_state s -> wf_state (fst (step s o)).
Proof.
  intros W. destruct o; simpl.
  - pose proof (wfc_put_obj max_nesting true (epoch s) (bucket_or_new s c) o (wf_bucket_or_new s c W)) as H.
    unfold put_top. destruct (put_obj max_nesting true (epoch s) (bucket_or_new s c) o) as [[b d] e]. simpl in H.
    destruct e; simpl; auto. now apply wf_set_bucket.
  - destruct os as [|x r]; [simpl; auto|].
    pose proof (wf_batch_loop (x :: r) s W) as H. cbv beta iota.
    destruct (batch_loop s (x :: r)); simpl; auto.
  - destruct (bucket s c) as [b|] eqn:E; simpl; auto.
    destruct (cgc b); simpl; auto.
    pose proof (wfc_mark_garbage b ids m (wf_bucket s c b W E)) as H.
    destruct (mark_garbage b ids m) as [[b' ng] pay]. simpl in *. now apply wf_set_bucket.
  - apply wf_set_bucket; auto. pose proof (wf_bucket_or_new s c W). wfc_t.
  - destruct (bucket s c) as [b|] eqn:E; simpl; auto.
    pose proof (wfc_delete_group b ids (wf_bucket s c b W E)) as H.
    destruct (delete_group b ids) as [[b' rem] d]. simpl in *. now apply wf_set_bucket.
  - destruct (bucket s c) as [b|] eqn:E; simpl; auto.
    pose proof (wfc_revive b id (wf_bucket s c b W E)) as H.
    destruct (revive b id) as [b' r]. simpl in *.
    destruct r; simpl; auto; now apply wf_set_bucket.
  - destruct W as [W1 W2]. split; simpl; auto.
  - destruct W as [W1 W2]. split; simpl.
    + now apply sm_wf_del.
    + intros c' b' Hin. apply sm_del_in in Hin. eapply W2; eauto.
Qed.

Lemma wf_fold h : forall s, wf_state s -> wf_state (fold_left (fun s o => fst (step s o)) h s).
Proof. induction h; simpl; intros s W; auto. apply IHh. now apply wf_step. Qed.

Theorem wf_run h : wf_state (run h).
Proof. apply wf_fold. apply wf_state0. Qed.
