(* C06, shard level, part 1: selectNFromBucket (Model.select_n) on one bucket. *)
From Coq Require Import List NArith ZArith Bool Lia Sorted.
Import ListNotations.
From NV Require Import Gen.MetaConsts Meta.SMap Meta.SMapProofs Meta.Model Meta.Spec Meta.StatusProofs
     Meta.WfProofs Meta.ListModel.
Local Open Scope N_scope.

(* ---- generic list facts *)
Lemma filter_flat_map {A B} (p : B -> bool) (f : A -> list B) l :
  filter p (flat_map f l) = flat_map (fun x => filter p (f x)) l.
Proof. induction l; simpl; auto. now rewrite filter_app, IHl. Qed.

Lemma filter_map_comm {A B} (p : B -> bool) (f : A -> B) l :
  filter p (map f l) = map f (filter (fun x => p (f x)) l).
Proof. induction l; simpl; auto. destruct (p (f a)); simpl; now rewrite IHl. Qed.

Lemma flat_map_filter_nil {A B} (p : A -> bool) (g h : A -> list B) l :
  (forall x, In x l -> p x = false -> g x = []) -> (forall x, In x l -> p x = true -> g x = h x) ->
  flat_map g l = flat_map h (filter p l).
Proof.
  induction l; simpl; intros H1 H2; auto.
  destruct (p a) eqn:E; simpl.
  - rewrite (H2 a), IHl; auto.
  - rewrite (H1 a), IHl; auto.
Qed.

Lemma SS_filter {A} (R : A -> A -> Prop) p l : StronglySorted R l -> StronglySorted R (filter p l).
Proof.
  induction 1; simpl; [constructor|].
  destruct (p a); auto. constructor; auto.
  rewrite Forall_forall in *. intros x Hx. apply filter_In in Hx. now apply H0.
Qed.

Lemma sm_sorted_SS {A} lo (m : smap A) : sm_sorted_from lo m = true -> StronglySorted N.lt (map fst m).
Proof.
  revert lo. induction m as [|[k v] r IH]; simpl; intros lo H; [constructor|].
  apply andb_true_iff in H as [_ H]. constructor; [eapply IH; eauto|].
  rewrite Forall_forall. intros x Hx. apply in_map_iff in Hx as [[k' v'] [E Hin]]. simpl in E; subst.
  eapply sorted_from_lb; eauto.
Qed.

Lemma sm_wf_SS {A} (m : smap A) : sm_wf m = true -> StronglySorted N.lt (map fst m).
Proof. apply sm_sorted_SS. Qed.

Lemma SS_map_filter {A} (q : N * A -> bool) (m : smap A) :
  StronglySorted N.lt (map fst m) -> StronglySorted N.lt (map fst (filter q m)).
Proof.
  induction m as [|kv r IH]; simpl; intros H; [constructor|].
  inversion H; subst. destruct (q kv); simpl; auto. constructor; auto.
  rewrite Forall_forall in *. intros x Hx. apply in_map_iff in Hx as [y [E Hy]]. apply filter_In in Hy as [Hy _].
  apply H3. apply in_map_iff. eauto.
Qed.

Lemma ids_where_SS p b : wfc b -> StronglySorted N.lt (ids_where p b).
Proof. intros [W _]. unfold ids_where. apply SS_map_filter. now apply sm_wf_SS. Qed.

Lemma filter_all {A} (p : A -> bool) l : (forall x, In x l -> p x = true) -> filter p l = l.
Proof. induction l; simpl; intros H; auto. rewrite (H a); auto. now rewrite IHl; auto. Qed.

Lemma filter_none {A} (p : A -> bool) l : (forall x, In x l -> p x = false) -> filter p l = [].
Proof. induction l; simpl; intros H; auto. rewrite (H a); auto. Qed.

(* ---- the items selectNFromBucket appends while it walks over [ids] *)
Definition good1 (b : cstate) (id : oid) : list (oid * otype) :=
  if in_garbage b id =? st_available then match type_of b id with Some t => [(id, t)] | None => [] end else [].
Definition good (b : cstate) (ids : list oid) : list (oid * otype) := flat_map (good1 b) ids.

Lemma select_n_zero b ids last acc : select_n b ids 0 last acc = (acc, last, 0%nat).
Proof. destruct ids; reflexivity. Qed.

Lemma select_n_spec b : forall ids room last acc,
  fst (fst (select_n b ids room last acc)) = acc ++ firstn room (good b ids) /\
  snd (select_n b ids room last acc) = (room - length (good b ids))%nat.
Proof.
  induction ids as [|a r IH]; intros room last acc; simpl.
  - rewrite firstn_nil, app_nil_r. split; auto. lia.
  - destruct room as [|room]; simpl; [rewrite app_nil_r; auto|].
    unfold good1. destruct (in_garbage b a =? st_available); simpl; [|apply IH].
    destruct (type_of b a); simpl; [|apply IH].
    destruct (IH room a (acc ++ [(a, o)])) as [E1 E2]. rewrite E1, E2. split; auto.
    now rewrite <- app_assoc.
Qed.

Lemma select_n_last_in b : forall ids room last acc,
  snd (fst (select_n b ids room last acc)) = last \/ In (snd (fst (select_n b ids room last acc))) ids.
Proof.
  induction ids as [|a r IH]; intros room last acc; simpl; auto.
  destruct room; simpl; auto.
  destruct (in_garbage b a =? st_available); [destruct (type_of b a)|];
    match goal with |- context [select_n b r ?n a ?ac] => destruct (IH n a ac) as [E|E]; rewrite ?E; auto end.
Qed.

Lemma select_n_last_in1 b ids room last acc :
  ids <> [] -> (1 <= room)%nat -> In (snd (fst (select_n b ids room last acc))) ids.
Proof.
  destruct ids as [|a r]; [congruence|]. destruct room; [lia|]. intros _ _. simpl.
  destruct (in_garbage b a =? st_available); [destruct (type_of b a)|];
    match goal with |- context [select_n b r ?n a ?ac] => destruct (select_n_last_in b r n a ac) as [E|E]; rewrite ?E; auto end.
Qed.

(* after a call that wanted at least one item, the items of this bucket after the
   returned lastObjectID are exactly the ones not returned *)
Lemma select_n_after b : forall ids room last acc,
  StronglySorted N.lt ids -> (1 <= room)%nat ->
  good b (filter (fun id => snd (fst (select_n b ids room last acc)) <? id) ids) = skipn room (good b ids).
Proof.
  induction ids as [|a r IH]; intros room last acc SS Hr; simpl.
  - now rewrite skipn_nil.
  - inversion SS as [|x y SSr Fa]; subst. rewrite Forall_forall in Fa.
    destruct room as [|room]; [lia|]. simpl.
    assert (Hge : forall n ac, (snd (fst (select_n b r n a ac)) <? a) = false).
    { intros n ac. apply N.ltb_ge. destruct (select_n_last_in b r n a ac) as [E|E]; [rewrite E; lia|].
      apply Fa in E. lia. }
    unfold good1. destruct (in_garbage b a =? st_available) eqn:G; simpl.
    + destruct (type_of b a) eqn:T; simpl.
      * rewrite Hge. destruct room as [|room].
        -- rewrite select_n_zero. simpl. f_equal. apply filter_all. intros x Hx. apply N.ltb_lt. now apply Fa.
        -- apply IH; auto. lia.
      * rewrite Hge. apply IH; auto.
    + rewrite Hge. apply IH; auto.
Qed.

Lemma good_filter b p ids : good b (filter p ids) = filter (fun it => p (fst it)) (good b ids).
Proof.
  induction ids as [|a r IH]; simpl; auto.
  rewrite filter_app, <- IH. destruct (p a) eqn:E; simpl; f_equal.
  - unfold good1. destruct (in_garbage b a =? st_available); auto. destruct (type_of b a); simpl; auto. now rewrite E.
  - unfold good1. destruct (in_garbage b a =? st_available); auto. destruct (type_of b a); simpl; auto. now rewrite E.
Qed.

(* walking over all physical IDs of a live bucket yields Spec.listed_in *)
Lemma good_phy_listed b : wfc b -> cgc b = false -> good b (ids_where e_phy b) = listed_in b.
Proof.
  intros W C. unfold listed_in, ids_where. rewrite C.
  assert (H : forall m, (forall kv, In kv m -> In kv (objs b)) ->
            good b (map fst (filter (fun kv => e_phy (snd kv)) m)) =
            flat_map (fun kv : oid * entry => if e_phy (snd kv) && negb (marked_for_removal b (fst kv))
                                              then [(fst kv, h_typ (e_hdr (snd kv)))] else []) m).
  { induction m as [|[k e] r IH]; simpl; intros Hin; auto.
    destruct (e_phy e) eqn:P; simpl.
    - rewrite IH by auto. f_equal. unfold good1.
      rewrite (type_of_in b k e W) by auto. rewrite (in_garbage_avail b k W).
      unfold marked_for_removal. rewrite negb_orb. now destruct (negb (tombstoned b k) && negb (marked b k)).
    - apply IH; auto. }
  apply H; auto.
Qed.

Lemma good_fst_in b ids it : In it (good b ids) -> In (fst it) ids.
Proof.
  unfold good. intros H. apply in_flat_map in H as [id [Hid H]]. unfold good1 in H.
  destruct (in_garbage b id =? st_available); [|contradiction]. destruct (type_of b id); [|contradiction].
  destruct H as [E|[]]. now subst.
Qed.
