(* L1 model of pkg/local_object_storage/metabase (definitions only, executable).

   One container bucket = [cstate]: stored headers ([objs], one entry per
   0x00-ID key together with its 0x03 attributes), garbage keys ([garb], 0x05),
   the container mark ([cgc], 0x04) and the seven counters (0x06..0x0C).
   Index iterations of the Go code (iterAttrVal / iterPrefixedIDs) are
   iterations over [objs]/[garb] in increasing ID order, which is the list order
   of the sorted association lists.  Every function below mirrors the control
   flow of the Go function named in its comment. *)
From Coq Require Import List NArith ZArith Bool.
Import ListNotations.
From NV Require Import Base.U64 Gen.MetaConsts Meta.SMap.
Local Open Scope N_scope.

Definition oid := N.
Definition cid := N.

Inductive otype := TRegular | TTombstone | TLock | TLink.
Inductive gmark := MDefault | MRedundant.

Definition otype_eqb (a b : otype) : bool :=
  match a, b with
  | TRegular, TRegular | TTombstone, TTombstone | TLock, TLock | TLink, TLink => true
  | _, _ => false
  end.

Definition opt_eqb (a b : option N) : bool :=
  match a, b with
  | Some x, Some y => x =? y
  | None, None => true
  | _, _ => false
  end.

(* header fields the metabase indexes and the properties depend on *)
Record hdr := mkHdr {
  h_typ : otype;
  h_size : N;
  h_exp : option N;       (* __NEOFS__EXPIRATION_EPOCH, canonical decimal *)
  h_assoc : option oid;   (* __NEOFS__ASSOCIATE *)
  h_parent : option oid;  (* $Object:split.parent *)
  h_first : option oid;   (* $Object:split.first *)
  h_split : option N;     (* $Object:split.splitID *)
  h_ecr : option N;       (* __NEOFS__EC_RULE_IDX *)
  h_eci : option N        (* __NEOFS__EC_PART_IDX *)
}.

Record entry := mkEntry { e_hdr : hdr; e_phy : bool; e_root : bool }.

(* an object handed to Put: header plus the optional embedded parent header *)
Inductive obj := Obj (id : oid) (h : hdr) (par : option obj).
Definition o_id (o : obj) := let 'Obj i _ _ := o in i.
Definition o_hdr (o : obj) := let 'Obj _ h _ := o in h.
Definition o_par (o : obj) := let 'Obj _ _ p := o in p.

Record counters := mkCnt {
  c_phy : N; c_root : N; c_ts : N; c_lock : N; c_link : N; c_gc : N; c_payload : N }.
Definition cnt0 := mkCnt 0 0 0 0 0 0 0.

(* CountersDiff *)
Record cdiff := mkDiff {
  d_phy : Z; d_root : Z; d_ts : Z; d_lock : Z; d_link : Z; d_gc : Z; d_payload : Z }.
Definition diff0 := mkDiff 0 0 0 0 0 0 0.
Definition diff_add (a b : cdiff) : cdiff :=
  mkDiff (d_phy a + d_phy b) (d_root a + d_root b) (d_ts a + d_ts b) (d_lock a + d_lock b)
         (d_link a + d_link b) (d_gc a + d_gc b) (d_payload a + d_payload b).

Record cstate := mkC {
  objs : smap entry;
  garb : smap gmark;
  cgc : bool;
  cnt : counters }.
Definition cstate0 := mkC [] [] false cnt0.

Record state := mkS { cnrs : smap cstate; epoch : N }.
Definition state0 := mkS [] 0.

(* ---------------------------------------------------------------- counters *)

(* updateCounter: uint64 add wraps, subtraction is floored at zero *)
Definition upd_counter (c : N) (delta : Z) : N :=
  if (0 <=? delta)%Z then add64 c (Z.to_N delta)
  else c - N.min c (Z.to_N (- delta)).

(* applyDiff *)
Definition apply_diff (c : counters) (d : cdiff) : counters :=
  mkCnt (upd_counter (c_phy c) (d_phy d)) (upd_counter (c_root c) (d_root d))
        (upd_counter (c_ts c) (d_ts d)) (upd_counter (c_lock c) (d_lock d))
        (upd_counter (c_link c) (d_link d)) (upd_counter (c_gc c) (d_gc d))
        (upd_counter (c_payload c) (d_payload d)).

Definition set_cnt (c : cstate) (n : counters) := mkC (objs c) (garb c) (cgc c) n.
Definition set_objs (c : cstate) (o : smap entry) := mkC o (garb c) (cgc c) (cnt c).
Definition set_garb (c : cstate) (g : smap gmark) := mkC (objs c) g (cgc c) (cnt c).

(* ---------------------------------------------------------------- lookups *)

Definition get_entry (c : cstate) (id : oid) : option entry := sm_get id (objs c).
Definition stored (c : cstate) (id : oid) : bool := sm_mem id (objs c).

(* fetchTypeForID *)
Definition type_of (c : cstate) (id : oid) : option otype :=
  match get_entry c id with Some e => Some (h_typ (e_hdr e)) | None => None end.

(* iterAttrVal: IDs (increasing) of stored headers satisfying p *)
Definition ids_where (p : entry -> bool) (c : cstate) : list oid :=
  map fst (filter (fun kv => p (snd kv)) (objs c)).

(* isExpired: currEpoch > expiration *)
Definition is_expired (c : cstate) (id : oid) (cur : N) : bool :=
  match get_entry c id with
  | Some e => match h_exp (e_hdr e) with Some x => x <? cur | None => false end
  | None => false
  end.

(* associatedWithTypedObject *)
Definition assoc_typed (cur : N) (c : cstate) (id : oid) (t : otype) : option oid :=
  find (fun a => match type_of c a with
                 | Some t' => otype_eqb t' t && negb ((0 <? cur) && is_expired c a cur)
                 | None => false
                 end)
       (ids_where (fun e => opt_eqb (h_assoc (e_hdr e)) (Some id)) c).

(* inGarbage *)
Definition in_garbage (c : cstate) (id : oid) : N :=
  match assoc_typed 0 c id TTombstone with
  | Some _ => st_tombstoned
  | None => match sm_get id (garb c) with
            | Some MDefault => st_gc_marked
            | _ => st_available
            end
  end.

(* objectLocked: some associated, non-expired LOCK object that is not removed itself *)
Definition object_locked (cur : N) (c : cstate) (id : oid) : bool :=
  existsb (fun a => match type_of c a with
                    | Some TLock => negb ((0 <? cur) && is_expired c a cur) && (in_garbage c a =? st_available)
                    | _ => false
                    end)
          (ids_where (fun e => opt_eqb (h_assoc (e_hdr e)) (Some id)) c).

(* objectStatusDirect *)
Definition status_direct (c : cstate) (id : oid) (cur : N) : N :=
  if is_expired c id cur then
    (if object_locked cur c id then st_available else st_expired)
  else
    let g := in_garbage c id in
    if negb (g =? st_available) && object_locked cur c id then st_available else g.

(* seekForParentViaAttribute *)
Definition seek_parent (p : entry -> bool) (c : cstate) : option oid :=
  match find (fun kv => p (snd kv) && match h_parent (e_hdr (snd kv)) with Some _ => true | None => false end) (objs c) with
  | Some kv => h_parent (e_hdr (snd kv))
  | None => None
  end.

(* findParent *)
Definition find_parent (c : cstate) (id : oid) : option oid :=
  match get_entry c id with
  | None => None
  | Some e =>
      match h_parent (e_hdr e) with
      | Some p => Some p
      | None =>
          match h_first (e_hdr e) with
          | Some f => seek_parent (fun e' => opt_eqb (h_first (e_hdr e')) (Some f)) c
          | None =>
              match h_split (e_hdr e) with
              | Some s => seek_parent (fun e' => opt_eqb (h_split (e_hdr e')) (Some s)) c
              | None => None
              end
          end
      end
  end.

(* objectStatusNested; n = maxObjectNestingLevel - nestingLevel *)
Fixpoint status_n (n : nat) (c : cstate) (id : oid) (cur : N) : N :=
  let s := status_direct c id cur in
  if (s =? st_available) || (s =? st_gc_marked) then
    match find_parent c id, n with
    | Some p, S n' => N.max (status_n n' c p cur) s
    | _, _ => s
    end
  else s.

(* objectStatus *)
Definition object_status (c : cstate) (id : oid) (cur : N) : N := status_n max_nesting c id cur.

(* ---------------------------------------------------------------- parents *)

Inductive pinfo :=
| PNone
| PEC (parts : list oid)
| PSplit (first : option oid) (split : option N) (link : option oid) (last : option oid).

Definition has_ec (e : entry) : bool :=
  match h_ecr (e_hdr e), h_eci (e_hdr e) with None, None => false | _, _ => true end.

Definition children_of (c : cstate) (parent : oid) : list (oid * entry) :=
  filter (fun kv => opt_eqb (h_parent (e_hdr (snd kv))) (Some parent)) (objs c).

(* getParentInfo *)
Definition parent_info (c : cstate) (parent : oid) : pinfo :=
  let ch := children_of c parent in
  match ch with
  | [] => PNone
  | _ =>
      let ec := filter (fun kv => has_ec (snd kv)) ch in
      match ec with
      | _ :: _ => PEC (map fst ec)
      | [] =>
          fold_left
            (fun acc kv =>
               match acc with
               | PSplit fi sp li la =>
                   let h := e_hdr (snd kv) in
                   let is_link := otype_eqb (h_typ h) TLink in
                   let is_v1 := match h_split h with Some _ => true | None => false end in
                   let is_empty := h_size h =? 0 in
                   let fi' := match h_first h with Some f => Some f | None => fi end in
                   let sp' := match h_split h with Some s => Some s | None => sp end in
                   let li' := if is_link || (is_v1 && is_empty) then Some (fst kv) else li in
                   let la' := if (is_v1 && negb is_empty) || (negb is_v1 && negb is_link) then Some (fst kv) else la in
                   PSplit fi' sp' li' la'
               | x => x
               end)
            ch (PSplit None None None None)
      end
  end.

Definition is_parent (c : cstate) (id : oid) : bool :=
  match parent_info c id with PNone => false | _ => true end.

(* collectChildren *)
Fixpoint collect_children (fuel : nat) (c : cstate) (parent : oid) : list oid :=
  match fuel with
  | O => []
  | S f =>
      match parent_info c parent with
      | PNone => []
      | PEC parts => parts
      | PSplit fi sp li la =>
          let res :=
            match fi, sp with
            | Some fid, _ => fid :: ids_where (fun e => opt_eqb (h_first (e_hdr e)) (Some fid)) c
            | None, Some s => ids_where (fun e => opt_eqb (h_split (e_hdr e)) (Some s)) c
            | None, None =>
                (match li with Some l => [l] | None => [] end) ++
                (match la with Some l => [l] | None => [] end)
            end in
          res ++ flat_map (collect_children f c) res
      end
  end.

Definition cc_fuel (c : cstate) : nat := S (length (objs c)).

(* get(metaCursor, addr, checkStatus=false, raw=true): succeeds iff the header is
   stored and the object is not a parent of stored objects *)
Definition get_raw_ok (c : cstate) (id : oid) : option entry :=
  if is_parent c id then None else get_entry c id.

(* ---------------------------------------------------------------- put *)

Inductive perr := EOk | EAlreadyRemoved | EExpired | ELocked | ELockNonRegular | ELockRemoval | EOther.

Definition has_parent_hdr (o : obj) : bool :=
  let h := o_hdr o in
  match h_parent h, h_first h, h_split h, o_par o with
  | None, None, None, None => false
  | _, _, _, _ => true
  end.

(* the tombstone loop of handleObjectWithAssociation *)
Fixpoint ts_loop (cur : N) (c : cstate) (ids : list oid) (inhumed : Z) (pay : Z) : cstate * Z * Z :=
  match ids with
  | [] => (c, inhumed, pay)
  | id :: r =>
      let '(inh', pay') :=
        match get_raw_ok c id with
        | Some e =>
            ((if in_garbage c id =? st_available then (inhumed + 1)%Z else inhumed),
             (if otype_eqb (h_typ (e_hdr e)) TRegular then (pay - Z.of_N (h_size (e_hdr e)))%Z else pay))
        | None => (inhumed, pay)
        end in
      ts_loop cur (set_garb c (sm_put id MDefault (garb c))) r inh' pay'
  end.

(* handleObjectWithAssociation *)
Definition handle_assoc (cur : N) (c : cstate) (d : cdiff) (o : obj) : cstate * cdiff * perr :=
  let h := o_hdr o in
  match h_assoc h with
  | None => (c, d, EOther)
  | Some target =>
      let tt := type_of c target in
      match h_typ h with
      | TLock =>
          match tt with
          | Some TRegular | None =>
              (* a tombstone of the target forbids the lock even when the overall status hides it
                 (expired target, or target protected by another lock) *)
              if (object_status c target cur =? st_tombstoned) || (in_garbage c target =? st_tombstoned)
              then (c, d, EAlreadyRemoved)
              else (c, mkDiff (d_phy d + 1) (d_root d) (d_ts d) (d_lock d + 1) (d_link d) (d_gc d) (d_payload d), EOk)
          | Some _ => (c, d, ELockNonRegular)
          end
      | TTombstone =>
          match tt with
          | Some TTombstone => (c, d, EOther)
          | Some TLock => (c, d, ELockRemoval)
          | _ =>
              if object_locked cur c target then (c, d, ELocked)
              else
                let ids := collect_children (cc_fuel c) c target ++ [target] in
                let '(c', inh, pay) := ts_loop cur c ids 0%Z (d_payload d) in
                (c', mkDiff (d_phy d + 1) (d_root d) (d_ts d + 1) (d_lock d) (d_link d) (d_gc d + inh) pay, EOk)
          end
      | _ => (c, d, EOk)
      end
  end.

(* PutMetadataForObject: attribute keys are only ever added *)
Definition put_metadata (c : cstate) (o : obj) (phy : bool) : cstate :=
  let root := negb (has_parent_hdr o) && otype_eqb (h_typ (o_hdr o)) TRegular in
  let e := match get_entry c (o_id o) with
           | Some old => mkEntry (o_hdr o) (e_phy old || phy) (e_root old || root)
           | None => mkEntry (o_hdr o) phy root
           end in
  set_objs c (sm_put (o_id o) e (objs c)).

(* db.put; lvl = nestingLevel, n = maxObjectNestingLevel - nestingLevel.
   Returns the (possibly partially updated) bucket, the diff of this object
   and the error class. *)
Fixpoint put_obj (n : nat) (top : bool) (cur : N) (c : cstate) (o : obj) : cstate * cdiff * perr :=
  if cgc c then (c, diff0, EAlreadyRemoved) else
  let st := object_status c (o_id o) cur in
  if st =? st_tombstoned then (c, diff0, EAlreadyRemoved) else
  if st =? st_expired then (c, diff0, EExpired) else
  if (st =? st_available) && stored c (o_id o) then (c, diff0, EOk) else
  let par_res :=
    match o_par o with
    | None => (c, EOk)
    | Some p =>
        match n with
        | O => (c, EOther)
        | S n' => let '(c', _, e) := put_obj n' false cur c p in (c', e)
        end
    end in
  match par_res with
  | (c1, EOk) =>
      let h := o_hdr o in
      let d0 := if top then mkDiff 0 0 0 0 0 0 (Z.of_N (h_size h)) else diff0 in
      let '(c2, d, e) :=
        match h_typ h with
        | TLink => (c1, mkDiff (d_phy d0 + 1) (d_root d0) (d_ts d0) (d_lock d0) (d_link d0 + 1) (d_gc d0) (d_payload d0), EOk)
        | TTombstone | TLock => handle_assoc cur c1 d0 o
        | TRegular =>
            (c1, mkDiff (if top then d_phy d0 + 1 else d_phy d0)%Z
                        (if has_parent_hdr o then d_root d0 else d_root d0 + 1)%Z
                        (d_ts d0) (d_lock d0) (d_link d0) (d_gc d0) (d_payload d0), EOk)
        end in
      match e with
      | EOk => (put_metadata (set_cnt c2 (apply_diff (cnt c2) d)) o top, d, EOk)
      | _ => (c2, d, e)
      end
  | (c1, e) => (c1, diff0, e)
  end.

Definition put_top (cur : N) (c : cstate) (o : obj) := put_obj max_nesting true cur c o.

(* ---------------------------------------------------------------- garbage marks *)

(* markGarbageInContainer *)
Fixpoint mark_loop (c : cstate) (ids : list oid) (m : gmark) (ng : Z) (pay : Z) : cstate * Z * Z :=
  match ids with
  | [] => (c, ng, pay)
  | id :: r =>
      match sm_get id (garb c) with
      | Some old =>
          let c' := match m, old with
                    | MDefault, MRedundant => set_garb c (sm_put id MDefault (garb c))
                    | _, _ => c
                    end in
          mark_loop c' r m ng pay
      | None =>
          let pay' :=
            match get_raw_ok c id with
            | Some e => if (in_garbage c id =? st_available) && e_phy e then (pay - Z.of_N (h_size (e_hdr e)))%Z else pay
            | None => pay
            end in
          mark_loop (set_garb c (sm_put id m (garb c))) r m (ng + 1)%Z pay'
      end
  end.

(* DB.MarkGarbage on an existing, live bucket *)
Definition mark_garbage (c : cstate) (ids : list oid) (m : gmark) : cstate * Z * Z :=
  let all := flat_map (fun id => id :: collect_children (cc_fuel c) c id) ids in
  let '(c', ng, pay) := mark_loop c all m 0%Z 0%Z in
  let n := cnt c' in
  (set_cnt c' (mkCnt (c_phy n) (c_root n) (c_ts n) (c_lock n) (c_link n)
                     (upd_counter (c_gc n) ng) (upd_counter (c_payload n) pay)), ng, pay).

(* DB.InhumeContainer: resetContainerCounters(phy) *)
Definition inhume_container (c : cstate) : cstate * cdiff :=
  let n := cnt c in
  (mkC (objs c) (garb c) true (mkCnt 0 0 0 0 0 (c_phy n) 0),
   mkDiff (- Z.of_N (c_phy n)) (- Z.of_N (c_root n)) (- Z.of_N (c_ts n)) (- Z.of_N (c_lock n))
          (- Z.of_N (c_link n)) (Z.of_N (c_phy n) - Z.of_N (c_gc n)) (- Z.of_N (c_payload n))).

(* ---------------------------------------------------------------- delete *)

(* deleteMetadata *)
Fixpoint delete_metadata (fuel : nat) (c : cstate) (id : oid) (is_par : bool) : cstate * cdiff :=
  match fuel with
  | O => (c, diff0)
  | S f =>
      let ent := get_entry c id in
      let non_phy := match ent with Some e => negb (e_phy e) | None => true end in
      match ent with
      | Some e =>
          if negb is_par && non_phy then (c, diff0)
          else
            let garbage := sm_mem id (garb c) in
            let c1 := mkC (sm_del id (objs c)) (sm_del id (garb c)) (cgc c) (cnt c) in
            let h := e_hdr e in
            let d1 := mkDiff (if non_phy then 0 else -1)%Z
                             (if otype_eqb (h_typ h) TRegular && e_root e then -1 else 0)%Z
                             (if otype_eqb (h_typ h) TTombstone then -1 else 0)%Z
                             (if otype_eqb (h_typ h) TLock then -1 else 0)%Z
                             (if otype_eqb (h_typ h) TLink then -1 else 0)%Z
                             (if garbage then -1 else 0)%Z 0%Z in
            let '(c2, d2) :=
              match h_parent h with
              | Some p =>
                  if is_parent c1 p then (c1, d1)
                  else let '(c', pd) := delete_metadata f c1 p true in (c', diff_add d1 pd)
              | None => (c1, d1)
              end in
            (c2, if negb non_phy && negb garbage
                 then mkDiff (d_phy d2) (d_root d2) (d_ts d2) (d_lock d2) (d_link d2) (d_gc d2) (d_payload d2 - Z.of_N (h_size h))
                 else d2)
      | None =>
          if sm_mem id (garb c)
          then (set_garb c (sm_del id (garb c)), mkDiff 0 0 0 0 0 (-1) 0)
          else (c, diff0)
      end
  end.

Definition dm_fuel (c : cstate) : nat := S (S (length (objs c))).

(* supplementRemovedObjects *)
Definition supplement (c : cstate) (ids : list oid) : list oid :=
  ids ++ flat_map (fun parent =>
                     map fst (filter (fun kv => has_ec (snd kv) && negb (existsb (N.eqb (fst kv)) ids))
                                     (children_of c parent))) ids.

Fixpoint delete_loop (c : cstate) (ids : list oid) (d : cdiff) : cstate * cdiff :=
  match ids with
  | [] => (c, d)
  | id :: r => let '(c', d') := delete_metadata (dm_fuel c) c id false in delete_loop c' r (diff_add d d')
  end.

(* deleteGroup on an existing bucket *)
Definition delete_group (c : cstate) (ids : list oid) : cstate * list oid * cdiff :=
  let rem := supplement c ids in
  let '(c', d) := delete_loop c rem diff0 in
  (set_cnt c' (apply_diff (cnt c') d), rem, d).

(* ---------------------------------------------------------------- revive *)

Inductive rres := RGraveyard (tomb : oid) | RGarbage | RNotRemoved | RCnrGarbage.

(* reviveCounters: only the payload size is restored *)
Definition revive_counters (c : cstate) (id : oid) : cstate :=
  match get_entry c id with
  | None => c
  | Some e =>
      let n := cnt c in
      set_cnt c (mkCnt (c_phy n) (c_root n) (c_ts n) (c_lock n) (c_link n) (c_gc n)
                       (upd_counter (c_payload n) (Z.of_N (h_size (e_hdr e)))))
  end.

(* DB.ReviveObject on an existing bucket *)
Definition revive (c : cstate) (id : oid) : cstate * rres :=
  if cgc c then (c, RCnrGarbage) else
  let st := in_garbage c id in
  if st =? st_available then (c, RNotRemoved) else
  let '(c1, r) :=
    if st =? st_tombstoned then
      match assoc_typed 0 c id TTombstone with
      | Some t =>
          let '(c', d) := delete_metadata (dm_fuel c) c t false in
          (set_cnt c' (apply_diff (cnt c') d), RGraveyard t)
      | None => (c, RGarbage)
      end
    else (c, RGarbage) in
  let n := cnt c1 in
  let c2 := set_cnt c1 (mkCnt (c_phy n) (c_root n) (c_ts n) (c_lock n) (c_link n) (upd_counter (c_gc n) (-1)) (c_payload n)) in
  let c3 := revive_counters c2 id in
  (set_garb c3 (sm_del id (garb c3)), r).

(* ---------------------------------------------------------------- operations *)

Inductive op :=
| OPut (c : cid) (o : obj)
| OBatch (os : list (cid * obj))
| OMark (c : cid) (ids : list oid) (m : gmark)
| OInhumeCnr (c : cid)
| ODelete (c : cid) (ids : list oid)
| ORevive (c : cid) (id : oid)
| OEpoch (e : N)
| ODeleteCnr (c : cid).

(* result of an operation as the harness projects it: class :: numbers *)
Definition perr_code (e : perr) : Z :=
  match e with EOk => 0 | EAlreadyRemoved => 1 | EExpired => 2 | ELocked => 3
             | ELockNonRegular => 4 | ELockRemoval => 5 | EOther => 6 end%Z.

Definition diff_list (d : cdiff) : list Z :=
  [d_phy d; d_root d; d_ts d; d_lock d; d_link d; d_gc d; d_payload d].

Definition bucket (s : state) (c : cid) : option cstate := sm_get c (cnrs s).
Definition bucket_or_new (s : state) (c : cid) : cstate :=
  match bucket s c with Some b => b | None => cstate0 end.
Definition set_bucket (s : state) (c : cid) (b : cstate) : state := mkS (sm_put c b (cnrs s)) (epoch s).

Definition skippable (e : perr) : bool :=
  match e with EAlreadyRemoved | EExpired | ELocked => true | _ => false end.

(* PutBatch body: inl state' or inr error when the whole batch is rolled back *)
Fixpoint batch_loop (s : state) (os : list (cid * obj)) : state + perr :=
  match os with
  | [] => inl s
  | (c, o) :: r =>
      let '(b, _, e) := put_top (epoch s) (bucket_or_new s c) o in
      match e with
      | EOk => batch_loop (set_bucket s c b) r
      | _ => if skippable e
             then batch_loop (match bucket s c, objs b with
                              | None, [] => s      (* nothing was created before the failure *)
                              | _, _ => set_bucket s c b
                              end) r
             else inr e
      end
  end.

Definition step (s : state) (o : op) : state * list Z :=
  match o with
  | OPut c ob =>
      let '(b, d, e) := put_top (epoch s) (bucket_or_new s c) ob in
      match e with
      | EOk => (set_bucket s c b, perr_code e :: diff_list d)
      | _ => (s, perr_code e :: diff_list d)
      end
  | OBatch os =>
      match os with
      | [] => (s, [0%Z])
      | _ => match batch_loop s os with
             | inl s' => (s', [0%Z])
             | inr e => (s, [perr_code e])
             end
      end
  | OMark c ids m =>
      match bucket s c with
      | None => (s, [0; 0; 0]%Z)
      | Some b =>
          if cgc b then (s, [0; 0; 0]%Z)
          else let '(b', ng, pay) := mark_garbage b ids m in (set_bucket s c b', [0%Z; ng; pay])
      end
  | OInhumeCnr c =>
      let '(b', d) := inhume_container (bucket_or_new s c) in
      (set_bucket s c b', 0%Z :: diff_list d)
  | ODelete c ids =>
      match bucket s c with
      | None => (s, 0%Z :: diff_list diff0)
      | Some b =>
          let '(b', rem, d) := delete_group b ids in
          (set_bucket s c b', (0%Z :: diff_list d) ++ map Z.of_N rem)
      end
  | ORevive c id =>
      match bucket s c with
      | None => (s, [1; 2; 0]%Z)
      | Some b =>
          let '(b', r) := revive b id in
          match r with
          | RGraveyard t => (set_bucket s c b', [0%Z; Z.of_N revive_status_graveyard; Z.of_N t])
          | RGarbage => (set_bucket s c b', [0%Z; Z.of_N revive_status_garbage; 0%Z])
          | RNotRemoved => (s, [1%Z; Z.of_N revive_status_error; 0%Z])
          | RCnrGarbage => (s, [2%Z; Z.of_N revive_status_error; 0%Z])
          end
      end
  | OEpoch e => (mkS (cnrs s) e, [])
  | ODeleteCnr c => (mkS (sm_del c (cnrs s)) (epoch s), [0%Z])
  end.

Definition run (h : list op) : state := fold_left (fun s o => fst (step s o)) h state0.

(* ---------------------------------------------------------------- views *)

(* view classes as the harness projects them *)
Definition v_absent : N := 0.
Definition v_ok : N := 1.
Definition v_notfound : N := 2.
Definition v_removed : N := 3.
Definition v_expired : N := 4.
Definition v_split : N := 5.
Definition v_ecparent : N := 6.

Definition status_class (st : N) : option N :=
  if st =? st_gc_marked then Some v_notfound
  else if st =? st_tombstoned then Some v_removed
  else if st =? st_expired then Some v_expired
  else None.

Definition pinfo_class (p : pinfo) : option N :=
  match p with PNone => None | PEC _ => Some v_ecparent | PSplit _ _ _ _ => Some v_split end.

(* DB.Exists (ignoreExpiration = view at epoch 0) *)
Definition view_exists (s : state) (ignore_exp : bool) (c : cid) (id : oid) : N :=
  match bucket s c with
  | None => v_absent
  | Some b =>
      if cgc b then v_notfound else
      match status_class (object_status b id (if ignore_exp then 0 else epoch s)) with
      | Some cl => cl
      | None => match pinfo_class (parent_info b id) with
                | Some cl => cl
                | None => if stored b id then v_ok else v_absent
                end
      end
  end.

(* DB.Get *)
Definition view_get (s : state) (raw : bool) (c : cid) (id : oid) : N :=
  match bucket s c with
  | None => v_notfound
  | Some b =>
      if cgc b then v_notfound else
      match status_class (object_status b id (epoch s)) with
      | Some cl => cl
      | None =>
          match (if raw then pinfo_class (parent_info b id) else None) with
          | Some cl => cl
          | None => if stored b id then v_ok else v_notfound
          end
      end
  end.

(* DB.IsLocked *)
Definition view_locked (s : state) (c : cid) (id : oid) : bool :=
  match bucket s c with
  | None => false
  | Some b => if cgc b then false else object_locked (epoch s) b id
  end.

(* searchUnfiltered *)
Definition view_search (s : state) (c : cid) : list oid :=
  match bucket s c with
  | None => []
  | Some b => if cgc b then [] else
      filter (fun id => object_status b id (epoch s) =? st_available) (sm_keys (objs b))
  end.

(* search with the ROOT filter *)
Definition view_search_root (s : state) (c : cid) : list oid :=
  match bucket s c with
  | None => []
  | Some b => if cgc b then [] else
      filter (fun id => object_status b id (epoch s) =? st_available) (ids_where e_root b)
  end.

(* resolveECPartInMetaBucket; idx = None stands for a negative part index *)
Inductive ecres := ECOk (id : oid) | ECErr (cl : N) | ECSplit (link last : option oid).

Fixpoint ec_loop (b : cstate) (ch : list (oid * entry)) (rule : N) (idx : option N)
         (last : option oid) (found : option (N * oid)) : ecres + (option oid * option (N * oid)) :=
  match ch with
  | [] => inr (last, found)
  | (id, e) :: r =>
      let h := e_hdr e in
      if negb (opt_eqb (h_ecr h) (Some rule)) then
        if otype_eqb (h_typ h) TLink then inl (ECSplit (Some id) last)
        else
          let last' := match last, h_first h with
                       | None, Some _ => Some id
                       | _, _ => last
                       end in
          ec_loop b r rule idx last' found
      else
        match idx, h_eci h with
        | Some i, Some pi => if pi =? i then inl (ECOk id) else ec_loop b r rule idx last found
        | Some _, None => ec_loop b r rule idx last found
        | None, Some pi =>
            let found' := match found with
                          | None => Some (pi, id)
                          | Some (m, fid) => if pi <? m then Some (pi, id) else found
                          end in
            ec_loop b r rule idx last found'
        | None, None => ec_loop b r rule idx last found
        end
  end.

Definition view_ec (s : state) (c : cid) (parent : oid) (rule : N) (idx : option N) : ecres :=
  match bucket s c with
  | None => ECErr v_notfound
  | Some b =>
      if cgc b then ECErr v_notfound else
      match status_class (object_status b parent (epoch s)) with
      | Some cl => ECErr cl
      | None =>
          let ch := children_of b parent in
          match ec_loop b ch rule idx None None with
          | inl r => r
          | inr (last, found) =>
              match idx, found with
              | None, Some (_, fid) => ECOk fid
              | _, _ =>
                  let own := match ch, type_of b parent with
                             | [], Some TTombstone | [], Some TLock | [], Some TLink => true
                             | _, _ => false
                             end in
                  if own then ECOk parent
                  else match last with
                       | Some l => ECSplit None (Some l)
                       | None => ECErr v_notfound
                       end
              end
          end
      end
  end.

(* selectNFromBucket: returns appended items and the last visited ID *)
Fixpoint select_n (b : cstate) (ids : list oid) (room : nat) (last : oid) (acc : list (oid * otype)) : list (oid * otype) * oid * nat :=
  match ids with
  | [] => (acc, last, room)
  | id :: r =>
      match room with
      | O => (acc, last, room)
      | S room' =>
          if in_garbage b id =? st_available then
            match type_of b id with
            | Some t => select_n b r room' id (acc ++ [(id, t)])
            | None => select_n b r room id acc
            end
          else select_n b r room id acc
      end
  end.

(* listWithCursor. cursor = (container, last object), (0,0) = nil cursor.
   Result: items (container, id, type) and the new cursor. *)
Fixpoint list_buckets (bs : list (cid * cstate)) (room : nat) (cur_c : cid) (cur_o : oid)
         (acc : list (cid * oid * otype)) : list (cid * oid * otype) * (cid * oid) :=
  match bs with
  | [] => (acc, (cur_c, cur_o))
  | (c, b) :: r =>
      let o0 := if c =? cur_c then cur_o else 0 in
      if cgc b then
        (match room with O => (acc, (c, o0)) | _ => list_buckets r room c o0 acc end)
      else
        let ids := if o0 =? 0 then ids_where e_phy b   (* zero offset: from the beginning *)
                   else filter (fun id => o0 <? id) (ids_where e_phy b) in
        let '(items, last, room') := select_n b ids room o0 [] in
        let acc' := acc ++ map (fun it => (c, fst it, snd it)) items in
        match room' with
        | O => (acc', (c, last))
        | _ => list_buckets r room' c last acc'
        end
  end.

Definition view_list (s : state) (count : nat) (cursor : cid * oid) : list (cid * oid * otype) * (cid * oid) :=
  let bs := filter (fun kv => fst cursor <=? fst kv) (cnrs s) in
  list_buckets bs count (fst cursor) (snd cursor) [].

(* repeated ListWithCursor(count) until ErrEndOfListing *)
Fixpoint list_pages (fuel : nat) (s : state) (count : nat) (cursor : cid * oid) : list (list (cid * oid * otype)) :=
  match fuel with
  | O => []
  | S f =>
      let '(items, cur') := view_list s count cursor in
      match items with
      | [] => []
      | _ => items :: list_pages f s count cur'
      end
  end.

(* insertion sort by (expiration, id) = order of the integer attribute index *)
Fixpoint ins_exp (x : N * oid) (l : list (N * oid)) : list (N * oid) :=
  match l with
  | [] => [x]
  | y :: r => if (fst x <? fst y) || ((fst x =? fst y) && (snd x <=? snd y)) then x :: l else y :: ins_exp x r
  end.
Definition sort_exp (l : list (N * oid)) := fold_right ins_exp [] l.

(* iterateExpired *)
Definition view_expired (s : state) (e : N) : list (cid * oid * otype) :=
  flat_map (fun cb : cid * cstate =>
              let '(c, b) := cb in
              if cgc b then [] else
              let exps := flat_map (fun kv : oid * entry =>
                                      match h_exp (e_hdr (snd kv)) with
                                      | Some x => if x <? e then [(x, fst kv)] else []
                                      | None => []
                                      end) (objs b) in
              flat_map (fun xi : N * oid =>
                          if object_locked e b (snd xi) then []
                          else match type_of b (snd xi) with
                               | Some t => [(c, snd xi, t)]
                               | None => []
                               end) (sort_exp exps))
           (cnrs s).

(* GetGarbage(limit), limit > 0 *)
Fixpoint garbage_loop (bs : list (cid * cstate)) (limit : nat) (num : nat) : list (cid * list oid) :=
  match bs with
  | [] => []
  | (c, b) :: r =>
      let ids := firstn limit (if cgc b then sm_keys (objs b) else sm_keys (garb b)) in
      match ids with
      | _ :: _ =>
          let num' := (num + length ids)%nat in
          if Nat.leb limit num' then [(c, ids)] else (c, ids) :: garbage_loop r limit num'
      | [] => if cgc b then (c, []) :: garbage_loop r limit num else garbage_loop r limit num
      end
  end.
Definition view_garbage (s : state) (limit : nat) : list (cid * list oid) :=
  match limit with O => [] | _ => garbage_loop (cnrs s) limit 0 end.

(* ---------------------------------------------------------------- counter views *)

Definition cnt_add (a b : counters) : counters :=
  mkCnt (add64 (c_phy a) (c_phy b)) (add64 (c_root a) (c_root b)) (add64 (c_ts a) (c_ts b))
        (add64 (c_lock a) (c_lock b)) (add64 (c_link a) (c_link b)) (add64 (c_gc a) (c_gc b))
        (add64 (c_payload a) (c_payload b)).

(* DB.ObjectCounters *)
Definition view_counters (s : state) : counters :=
  fold_left (fun acc kv => cnt_add acc (cnt (snd kv))) (cnrs s) cnt0.

(* DB.GetContainerInfo: (storage size, objects number) *)
Definition view_info (s : state) (c : cid) : N * N :=
  match bucket s c with
  | None => (0, 0)
  | Some b => if cgc b then (0, 0) else
      (c_payload (cnt b), if c_gc (cnt b) <? c_phy (cnt b) then c_phy (cnt b) - c_gc (cnt b) else 0)
  end.

Definition count_where (p : entry -> bool) (b : cstate) : N := N.of_nat (length (ids_where p b)).

(* syncContainerCounters(force) *)
Definition sync_counters (b : cstate) : counters :=
  let phy := count_where e_phy b in
  if cgc b then mkCnt 0 0 0 0 0 phy 0 else
  mkCnt phy (count_where e_root b)
        (count_where (fun e => otype_eqb (h_typ (e_hdr e)) TTombstone) b)
        (count_where (fun e => otype_eqb (h_typ (e_hdr e)) TLock) b)
        (count_where (fun e => otype_eqb (h_typ (e_hdr e)) TLink) b)
        (N.of_nat (length (garb b)))
        (fold_left (fun acc kv => if e_phy (snd kv) && (in_garbage b (fst kv) =? st_available)
                                  then acc + h_size (e_hdr (snd kv)) else acc) (objs b) 0).
