(* Sorted association lists keyed by N: the L1 stand-in for a bbolt bucket
   index.  Iteration order of a bucket cursor = list order.  Definitions only. *)
From Coq Require Import List NArith Bool.
Import ListNotations.
Local Open Scope N_scope.

Definition smap (A : Type) := list (N * A).

Fixpoint sm_get {A} (k : N) (m : smap A) : option A :=
  match m with
  | [] => None
  | (k', v) :: r => if k =? k' then Some v else if k <? k' then None else sm_get k r
  end.

Fixpoint sm_put {A} (k : N) (v : A) (m : smap A) : smap A :=
  match m with
  | [] => [(k, v)]
  | (k', v') :: r =>
      if k =? k' then (k, v) :: r
      else if k <? k' then (k, v) :: (k', v') :: r
      else (k', v') :: sm_put k v r
  end.

Fixpoint sm_del {A} (k : N) (m : smap A) : smap A :=
  match m with
  | [] => []
  | (k', v') :: r =>
      if k =? k' then r
      else if k <? k' then m
      else (k', v') :: sm_del k r
  end.

Definition sm_mem {A} (k : N) (m : smap A) : bool :=
  match sm_get k m with Some _ => true | None => false end.

Definition sm_keys {A} (m : smap A) : list N := map fst m.

(* keys strictly increasing *)
Fixpoint sm_sorted_from {A} (lo : option N) (m : smap A) : bool :=
  match m with
  | [] => true
  | (k, _) :: r =>
      (match lo with None => true | Some l => l <? k end) && sm_sorted_from (Some k) r
  end.
Definition sm_wf {A} (m : smap A) : bool := sm_sorted_from None m.
