(* C06, engine level, part 1: mergeListResults (ListModel.merge_list_results) and the
   fold over the shards (ListModel.engine_merge) against the declarative reference
   ListModel.eng_listed: one page of StorageEngine.ListWithCursor = the first n entries
   of the sorted duplicate-free union with exactly the listing shards as ShardIDs. *)
From Coq Require Import List NArith ZArith Bool Lia Sorted.
Import ListNotations.
From NV Require Import Gen.MetaConsts Meta.SMap Meta.SMapProofs Meta.Model Meta.Spec Meta.StatusProofs
     Meta.WfProofs Meta.ListModel Meta.ListProofs Meta.ListProofs2 Meta.ListProofs3.
Local Open Scope N_scope.

(* ---- the address order *)
Lemma addr_ltb_lt x y : addr_ltb x y = true <-> addr_lt x y.
Proof. unfold addr_ltb, addr_lt. rewrite orb_true_iff, andb_true_iff, !N.ltb_lt, N.eqb_eq. tauto. Qed.

Lemma addr_eqb_eq x y : addr_eqb x y = true <-> x = y.
Proof.
  destruct x, y; unfold addr_eqb; simpl. rewrite andb_true_iff, !N.eqb_eq.
  split; [intros [? ?]; subst; auto | inversion 1; auto].
Qed.

Lemma addr_eqb_refl x : addr_eqb x x = true.
Proof. now apply addr_eqb_eq. Qed.

Lemma addr_eqb_sym x y : addr_eqb x y = addr_eqb y x.
Proof. unfold addr_eqb. now rewrite (N.eqb_sym (fst x)), (N.eqb_sym (snd x)). Qed.

Lemma addr_lt_trans x y z : addr_lt x y -> addr_lt y z -> addr_lt x z.
Proof. unfold addr_lt. lia. Qed.

Lemma addr_lt_neq x y : addr_lt x y -> x <> y.
Proof. intros H E. subst. now apply addr_lt_irrefl in H. Qed.

Lemma addr_lt_ltb_false x y : addr_lt x y -> addr_ltb y x = false.
Proof.
  intros H. destruct (addr_ltb y x) eqn:E; auto. apply addr_ltb_lt in E.
  exfalso. apply (addr_lt_irrefl x). eapply addr_lt_trans; eauto.
Qed.

Lemma addr_lt_eqb_false x y : addr_lt x y -> addr_eqb x y = false /\ addr_eqb y x = false.
Proof.
  intros H. rewrite (addr_eqb_sym y x). assert (E : addr_eqb x y = false); [|auto].
  destruct (addr_eqb x y) eqn:E; auto. apply addr_eqb_eq in E. now apply addr_lt_neq in H.
Qed.

Lemma addr_total x y : addr_ltb y x = false -> addr_eqb x y = false -> addr_lt x y.
Proof.
  destruct x as [a b], y as [c d]. unfold addr_ltb, addr_eqb, addr_lt. simpl.
  destruct (N.ltb_spec c a), (N.eqb_spec c a), (N.eqb_spec a c), (N.ltb_spec d b), (N.eqb_spec b d);
    simpl; intros; try discriminate; lia.
Qed.

(* ---- the untruncated merge *)
Fixpoint mg (sid : N) (a : list eitem) : list item -> list eitem :=
  fix mgb (b : list item) : list eitem :=
    match a, b with
    | [], [] => []
    | [], y :: b' => (y, [sid]) :: mgb b'
    | x :: a', [] => x :: mg sid a' []
    | x :: a', y :: b' =>
        if addr_ltb (item_addr y) (eitem_addr x) then (y, [sid]) :: mgb b'
        else if addr_eqb (eitem_addr x) (item_addr y) then (fst x, snd x ++ [sid]) :: mg sid a' b'
        else x :: mg sid a' b
    end.

Lemma mg_nil_nil sid : mg sid [] [] = [].
Proof. reflexivity. Qed.
Lemma mg_nil_cons sid y b : mg sid [] (y :: b) = (y, [sid]) :: mg sid [] b.
Proof. reflexivity. Qed.
Lemma mg_cons_nil sid x a : mg sid (x :: a) [] = x :: mg sid a [].
Proof. reflexivity. Qed.
Lemma mg_cons_cons sid x a y b :
  mg sid (x :: a) (y :: b) =
  if addr_ltb (item_addr y) (eitem_addr x) then (y, [sid]) :: mg sid (x :: a) b
  else if addr_eqb (eitem_addr x) (item_addr y) then (fst x, snd x ++ [sid]) :: mg sid a b
  else x :: mg sid a (y :: b).
Proof. reflexivity. Qed.

Lemma mg_nil_r sid a : mg sid a [] = a.
Proof. induction a as [|x a IH]; [reflexivity|]. now rewrite mg_cons_nil, IH. Qed.

Lemma mg_nil_l sid b : mg sid [] b = map (fun y => (y, [sid])) b.
Proof. induction b as [|y b IH]; [reflexivity|]. now rewrite mg_nil_cons, IH. Qed.

Lemma merge_loop_mg sid : forall fuel a b room,
  (length a + length b <= fuel)%nat -> merge_loop fuel a b sid room = firstn room (mg sid a b).
Proof.
  induction fuel as [|f IH]; intros a b room Hf.
  - destruct a, b; simpl in Hf; try lia. simpl. now rewrite firstn_nil.
  - destruct room as [|room]; [reflexivity|].
    destruct a as [|x a], b as [|y b]; simpl in Hf.
    + reflexivity.
    + rewrite mg_nil_cons. simpl. f_equal. apply IH. simpl. lia.
    + rewrite mg_cons_nil. simpl. f_equal. apply IH. simpl. lia.
    + rewrite mg_cons_cons. simpl.
      destruct (addr_ltb (item_addr y) (eitem_addr x)); [|destruct (addr_eqb (eitem_addr x) (item_addr y))];
        simpl; f_equal; apply IH; simpl; lia.
Qed.

Lemma merge_list_results_mg sid a b count :
  merge_list_results a b sid count = firstn count (mg sid a b).
Proof.
  unfold merge_list_results. destruct a as [|x a].
  - rewrite mg_nil_l. now rewrite firstn_map.
  - apply merge_loop_mg. lia.
Qed.

(* truncating the inputs to at least n entries does not change the first n merged entries *)
Lemma mg_trunc sid : forall n i j A B, (n <= i)%nat -> (n <= j)%nat ->
  firstn n (mg sid (firstn i A) (firstn j B)) = firstn n (mg sid A B).
Proof.
  induction n as [|n IH]; intros i j A B Hi Hj; [reflexivity|].
  destruct i as [|i]; [lia|]. destruct j as [|j]; [lia|].
  destruct A as [|x A], B as [|y B]; cbn [firstn].
  - reflexivity.
  - rewrite !mg_nil_cons. cbn [firstn]. f_equal.
    exact (IH (S i) j [] B ltac:(lia) ltac:(lia)).
  - rewrite !mg_cons_nil. cbn [firstn]. f_equal.
    exact (IH i (S j) A [] ltac:(lia) ltac:(lia)).
  - rewrite !mg_cons_cons.
    destruct (addr_ltb (item_addr y) (eitem_addr x)); [|destruct (addr_eqb (eitem_addr x) (item_addr y))];
      cbn [firstn]; f_equal.
    + exact (IH (S i) j (x :: A) B ltac:(lia) ltac:(lia)).
    + apply IH; lia.
    + exact (IH i (S j) A (y :: B) ltac:(lia) ltac:(lia)).
Qed.

(* ---- the engine fold without truncation *)
Definition eu (cur : cursor) (shards : list shard) : list eitem :=
  fold_left (fun U (sh : shard) => mg (fst sh) U (listed_after (snd sh) cur)) shards [].

Definition shards_ok (shards : list shard) : Prop :=
  forall sh, In sh shards -> wf_state (snd sh) /\ oids_pos (snd sh).

Lemma engine_merge_eu_gen count cur : forall shards, shards_ok shards -> forall U,
  fold_left (fun acc (sh : shard) =>
               match fst (view_list (snd sh) count cur) with
               | [] => acc
               | res => merge_list_results acc res (fst sh) count
               end) shards (firstn count U) =
  firstn count (fold_left (fun U (sh : shard) => mg (fst sh) U (listed_after (snd sh) cur)) shards U).
Proof.
  induction shards as [|sh r IH]; intros OK U; [reflexivity|].
  cbn [fold_left]. rewrite <- IH by (intros s Hs; apply OK; now right). f_equal.
  destruct (OK sh (or_introl eq_refl)) as [W P].
  rewrite (c06_any_cursor (snd sh) count cur W P).
  destruct (firstn count (listed_after (snd sh) cur)) as [|i0 l0] eqn:E.
  - destruct count as [|count]; [reflexivity|].
    destruct (listed_after (snd sh) cur); [|discriminate]. now rewrite mg_nil_r.
  - transitivity (firstn count (mg (fst sh) (firstn count U) (firstn count (listed_after (snd sh) cur)))).
    + rewrite E. apply merge_list_results_mg.
    + apply mg_trunc; lia.
Qed.

Lemma engine_merge_eu shards count cur :
  shards_ok shards -> engine_merge shards count cur = firstn count (eu cur shards).
Proof.
  intros OK. unfold engine_merge, eu. rewrite <- engine_merge_eu_gen by auto. now rewrite firstn_nil.
Qed.

(* ---- address-sorted item lists and ins_item *)
Definition srt (l : list item) : Prop := StronglySorted addr_lt (map item_addr l).

Lemma srt_inv x l : srt (x :: l) -> srt l /\ (forall z, In z l -> addr_lt (item_addr x) (item_addr z)).
Proof.
  unfold srt. simpl. intros H. inversion H as [|a b S F]; subst. split; auto.
  rewrite Forall_forall in F. intros z Hz. apply F. now apply in_map.
Qed.

Lemma srt_cons x l : srt l -> (forall z, In z l -> addr_lt (item_addr x) (item_addr z)) -> srt (x :: l).
Proof.
  unfold srt. simpl. intros S F. constructor; auto. rewrite Forall_forall. intros a Ha.
  apply in_map_iff in Ha as [z [E Hz]]. subst. now apply F.
Qed.

Lemma not_in_addrs a (l : list item) : (forall z, In z l -> item_addr z <> a) -> ~ In a (map item_addr l).
Proof. intros H Hin. apply in_map_iff in Hin as [z [E Hz]]. now apply (H z). Qed.

Definition insall (L U : list item) : list item := fold_left (fun acc x => ins_item x acc) L U.

Lemma ins_item_in x l z : In z (ins_item x l) -> z = x \/ In z l.
Proof.
  induction l as [|y r IH]; simpl.
  - intros [H|[]]; auto.
  - destruct (addr_ltb (item_addr x) (item_addr y)); [|destruct (addr_eqb (item_addr x) (item_addr y))]; simpl; intros H.
    + destruct H as [H|[H|H]]; auto.
    + auto.
    + destruct H as [H|H]; auto. apply IH in H as [H|H]; auto.
Qed.

Lemma ins_item_addr x l a :
  In a (map item_addr l) \/ a = item_addr x -> In a (map item_addr (ins_item x l)).
Proof.
  induction l as [|y r IH]; simpl.
  - intros [[]|H]; auto.
  - destruct (addr_ltb (item_addr x) (item_addr y)) eqn:E1; [|destruct (addr_eqb (item_addr x) (item_addr y)) eqn:E2]; simpl; intros H.
    + destruct H as [[H|H]|H]; auto.
    + destruct H as [H|H]; auto. apply addr_eqb_eq in E2. left. congruence.
    + destruct H as [[H|H]|H]; auto.
Qed.

Lemma ins_item_srt x l : srt l -> srt (ins_item x l).
Proof.
  induction l as [|y r IH]; simpl; intros S.
  - apply srt_cons; [constructor|]. intros z [].
  - destruct (srt_inv _ _ S) as [Sr Fr].
    destruct (addr_ltb (item_addr x) (item_addr y)) eqn:E1; [|destruct (addr_eqb (item_addr x) (item_addr y)) eqn:E2]; auto.
    + apply addr_ltb_lt in E1. apply srt_cons; auto. intros z [Hz|Hz]; [now subst|].
      eapply addr_lt_trans; eauto.
    + apply srt_cons; auto. intros z Hz. apply ins_item_in in Hz as [Hz|Hz]; auto. subst.
      apply addr_total; auto. now rewrite addr_eqb_sym.
Qed.

Lemma insall_srt L : forall U, srt U -> srt (insall L U).
Proof. induction L as [|y L IH]; intros U S; simpl; auto. apply IH. now apply ins_item_srt. Qed.

Lemma insall_in L : forall U z, In z (insall L U) -> In z L \/ In z U.
Proof.
  induction L as [|y L IH]; intros U z; simpl; auto.
  intros H. apply IH in H as [H|H]; auto. apply ins_item_in in H as [H|H]; auto.
Qed.

Lemma insall_addr L : forall U a,
  In a (map item_addr U) \/ In a (map item_addr L) -> In a (map item_addr (insall L U)).
Proof.
  induction L as [|y L IH]; intros U a; simpl.
  - intros [H|[]]; auto.
  - intros H. apply IH. destruct H as [H|[H|H]]; auto; left; apply ins_item_addr; auto.
Qed.

Lemma insall_lt_head : forall L x U,
  (forall y, In y L -> addr_lt (item_addr x) (item_addr y)) -> insall L (x :: U) = x :: insall L U.
Proof.
  induction L as [|a L IH]; intros x U F; [reflexivity|].
  simpl. pose proof (F a (or_introl eq_refl)) as Ha.
  rewrite (addr_lt_ltb_false _ _ Ha). destruct (addr_lt_eqb_false _ _ Ha) as [_ E]. rewrite E.
  apply IH. intros y Hy. apply F. now right.
Qed.

Definition dec (f : cursor -> list N) (it : item) : eitem := (it, f (item_addr it)).

(* merging the decorated union so far with the next shard's sorted list =
   inserting that list, holders extended by the shard where it lists the address *)
Lemma mg_spec sid f g : forall U, srt U -> forall L, srt L ->
  (forall y, In y L -> ~ In (item_addr y) (map item_addr U) -> g (item_addr y) = [sid]) ->
  (forall x, In x U -> ~ In (item_addr x) (map item_addr L) -> g (item_addr x) = f (item_addr x)) ->
  (forall x, In x U -> In (item_addr x) (map item_addr L) -> g (item_addr x) = f (item_addr x) ++ [sid]) ->
  mg sid (map (dec f) U) L = map (dec g) (insall L U).
Proof.
  induction U as [|x U IHU]; intros SU; induction L as [|y L IHL]; intros SL H1 H2 H3.
  - reflexivity.
  - destruct (srt_inv _ _ SL) as [SL' FL].
    cbn [map]. rewrite mg_nil_cons. simpl insall. rewrite insall_lt_head by auto.
    cbn [map]. f_equal.
    + unfold dec. f_equal. symmetry. apply H1; simpl; auto.
    + apply IHL; auto; try (intros x' []; fail). intros y' Hy' _. apply H1; simpl; auto.
  - cbn [map]. rewrite mg_cons_nil, mg_nil_r. simpl insall. cbn [map]. f_equal.
    + unfold dec. f_equal. symmetry. apply H2; simpl; auto.
    + apply map_ext_in. intros z Hz. unfold dec. f_equal. symmetry. apply H2; simpl; auto.
  - destruct (srt_inv _ _ SU) as [SU' FU]. destruct (srt_inv _ _ SL) as [SL' FL].
    cbn [map]. rewrite mg_cons_cons. change (eitem_addr (dec f x)) with (item_addr x).
    destruct (addr_ltb (item_addr y) (item_addr x)) eqn:E1; [|destruct (addr_eqb (item_addr x) (item_addr y)) eqn:E2].
    + (* y first *)
      apply addr_ltb_lt in E1.
      assert (Hyx : forall z, In z (x :: U) -> addr_lt (item_addr y) (item_addr z)).
      { intros z [Hz|Hz]; [now subst|]. eapply addr_lt_trans; eauto. }
      simpl insall. rewrite (proj2 (addr_ltb_lt _ _) E1). rewrite insall_lt_head by auto.
      cbn [map]. f_equal.
      * unfold dec. f_equal. symmetry. apply H1; [now left|].
        apply not_in_addrs. intros z Hz. apply not_eq_sym. apply addr_lt_neq. auto.
      * change (dec f x :: map (dec f) U) with (map (dec f) (x :: U)). apply IHL; auto.
        -- intros y' Hy'. apply H1. now right.
        -- intros x' Hx' Hn. apply H2; auto. simpl. intros [E|E]; [|auto].
           apply Hyx in Hx'. rewrite E in Hx'. now apply addr_lt_irrefl in Hx'.
        -- intros x' Hx' Hi. apply H3; auto. now right.
    + (* same address *)
      apply addr_eqb_eq in E2.
      assert (Ei : ins_item y (x :: U) = x :: U).
      { simpl. rewrite E1. now rewrite (proj2 (addr_eqb_eq _ _) (eq_sym E2)). }
      change (insall (y :: L) (x :: U)) with (insall L (ins_item y (x :: U))). rewrite Ei.
      rewrite insall_lt_head by (intros z Hz; rewrite E2; auto).
      cbn [map]. f_equal.
      * unfold dec. f_equal. symmetry. apply H3; [now left|]. left. auto.
      * apply IHU; auto.
        -- intros y' Hy' Hn. apply H1; [now right|]. simpl. intros [E|E]; [|auto].
           apply FL in Hy'. rewrite <- E, E2 in Hy'. now apply addr_lt_irrefl in Hy'.
        -- intros x' Hx' Hn. apply H2; [now right|]. simpl. intros [E|E]; [|auto].
           apply FU in Hx'. rewrite <- E, E2 in Hx'. now apply addr_lt_irrefl in Hx'.
        -- intros x' Hx' Hi. apply H3; [now right|]. now right.
    + (* x first *)
      pose proof (addr_total _ _ E1 E2) as Lt.
      assert (Hxy : forall z, In z (y :: L) -> addr_lt (item_addr x) (item_addr z)).
      { intros z [Hz|Hz]; [now subst|]. eapply addr_lt_trans; eauto. }
      rewrite insall_lt_head by auto. cbn [map]. f_equal.
      * unfold dec. f_equal. symmetry. apply H2; [now left|].
        apply not_in_addrs. intros z Hz. apply not_eq_sym. apply addr_lt_neq. auto.
      * apply IHU; auto.
        -- intros y' Hy' Hn. apply H1; auto. simpl. intros [E|E]; [|auto].
           apply Hxy in Hy'. rewrite E in Hy'. now apply addr_lt_irrefl in Hy'.
        -- intros x' Hx'. apply H2. now right.
        -- intros x' Hx'. apply H3. now right.
Qed.

(* ---- the fold over the shards = the declarative reference *)
Lemma union_items_snoc shards sh cur :
  union_items (shards ++ [sh]) cur = insall (listed_after (snd sh) cur) (union_items shards cur).
Proof.
  unfold union_items, insall. rewrite flat_map_app, rev_app_distr, fold_right_app. simpl flat_map. rewrite app_nil_r.
  apply (fold_left_rev_right ins_item).
Qed.

Lemma holders_snoc shards sh cur a :
  holders (shards ++ [sh]) cur a = holders shards cur a ++ (if lists_addr cur a sh then [fst sh] else []).
Proof. unfold holders. rewrite filter_app, map_app. simpl. now destruct (lists_addr cur a sh). Qed.

Lemma eu_snoc shards sh cur : eu cur (shards ++ [sh]) = mg (fst sh) (eu cur shards) (listed_after (snd sh) cur).
Proof. unfold eu. now rewrite fold_left_app. Qed.

Lemma lists_addr_true cur a sh :
  lists_addr cur a sh = true <-> In a (map item_addr (listed_after (snd sh) cur)).
Proof.
  unfold lists_addr. rewrite existsb_exists, in_map_iff. split.
  - intros [it [Hin E]]. apply addr_eqb_eq in E. eauto.
  - intros [it [E Hin]]. exists it. split; auto. now apply addr_eqb_eq.
Qed.

Lemma union_items_srt cur : forall shards, srt (union_items shards cur).
Proof.
  intros shards. induction shards as [|sh r IH] using rev_ind.
  - constructor.
  - rewrite union_items_snoc. now apply insall_srt.
Qed.

(* an address appears in the union iff some shard lists it *)
Lemma union_items_addr cur a : forall shards,
  In a (map item_addr (union_items shards cur)) <->
  exists sh, In sh shards /\ In a (map item_addr (listed_after (snd sh) cur)).
Proof.
  intros shards. induction shards as [|sh r IH] using rev_ind.
  - simpl. split; [intros [] | intros [sh [[] _]]].
  - rewrite union_items_snoc. split.
    + intros H. apply in_map_iff in H as [z [E Hz]]. apply insall_in in Hz as [Hz|Hz].
      * exists sh. split; [apply in_or_app; right; now left|]. subst. now apply in_map.
      * destruct (proj1 IH) as [sh' [Hs Ha]]; [subst; now apply in_map|].
        exists sh'. split; auto. apply in_or_app. now left.
    + intros [sh' [Hs Ha]]. apply insall_addr. apply in_app_or in Hs as [Hs|[Hs|[]]].
      * left. apply IH. eauto.
      * subst. now right.
Qed.

Lemma holders_nil shards cur a :
  ~ In a (map item_addr (union_items shards cur)) -> holders shards cur a = [].
Proof.
  intros H. unfold holders. rewrite filter_none; auto.
  intros sh Hs. destruct (lists_addr cur a sh) eqn:E; auto.
  exfalso. apply H. apply union_items_addr. exists sh. split; auto. now apply lists_addr_true.
Qed.

Definition shards_srt (shards : list shard) (cur : cursor) : Prop :=
  forall sh, In sh shards -> srt (listed_after (snd sh) cur).

Lemma eu_eng_listed cur : forall shards, shards_srt shards cur -> eu cur shards = eng_listed shards cur.
Proof.
  intros shards. induction shards as [|sh r IH] using rev_ind; intros SS; [reflexivity|].
  rewrite eu_snoc, IH by (intros s Hs; apply SS; apply in_or_app; now left).
  unfold eng_listed. rewrite union_items_snoc.
  apply (mg_spec (fst sh) (holders r cur) (holders (r ++ [sh]) cur)).
  - apply union_items_srt.
  - apply SS. apply in_or_app. right. now left.
  - intros y Hy Hn. rewrite holders_snoc, holders_nil by auto.
    rewrite (proj2 (lists_addr_true cur (item_addr y) sh)); [reflexivity|now apply in_map].
  - intros x Hx Hn. rewrite holders_snoc.
    destruct (lists_addr cur (item_addr x) sh) eqn:E; [|now rewrite app_nil_r].
    apply lists_addr_true in E. contradiction.
  - intros x Hx Hi. rewrite holders_snoc. now rewrite (proj2 (lists_addr_true cur (item_addr x) sh)).
Qed.

Lemma listed_after_srt s cur : wf_state s -> srt (listed_after s cur).
Proof.
  intros W. unfold srt, listed_after.
  pose proof (listed_sorted s W) as S. revert S. generalize (listed s). intros l.
  induction l as [|x l IH]; simpl; intros S; [constructor|].
  inversion S as [|a b S' F]; subst. destruct (after cur (item_addr x)); simpl; auto.
  constructor; auto. rewrite Forall_forall in *. intros a Ha. apply in_map_iff in Ha as [z [E Hz]].
  apply filter_In in Hz as [Hz _]. apply F. subst. now apply in_map.
Qed.

Lemma shards_ok_srt shards cur : shards_ok shards -> shards_srt shards cur.
Proof. intros OK sh Hs. apply listed_after_srt. now apply OK. Qed.

(* one page of the engine listing *)
Lemma engine_page shards n cur :
  shards_ok shards -> fst (engine_list shards n cur) = firstn n (eng_listed shards cur).
Proof.
  intros OK. unfold engine_list. rewrite engine_merge_eu, eu_eng_listed by (auto using shards_ok_srt).
  now destruct (firstn n (eng_listed shards cur)).
Qed.

(* ---- restricting every shard's list by a predicate on addresses restricts the union *)
Lemma ins_item_lt_all x l : (forall z, In z l -> addr_lt (item_addr x) (item_addr z)) -> ins_item x l = x :: l.
Proof.
  destruct l as [|y r]; intros F; [reflexivity|]. simpl.
  now rewrite (proj2 (addr_ltb_lt _ _) (F y (or_introl eq_refl))).
Qed.

Definition paddr (p : cursor -> bool) (it : item) : bool := p (item_addr it).

Section Restrict.
  Variable p : cursor -> bool.
  Local Notation pp := (paddr p).

  Lemma ins_filter_false x l : pp x = false -> filter pp (ins_item x l) = filter pp l.
  Proof.
    intros Px. induction l as [|y r IH]; simpl.
    - now rewrite Px.
    - destruct (addr_ltb (item_addr x) (item_addr y)); [|destruct (addr_eqb (item_addr x) (item_addr y))]; simpl.
      + now rewrite Px.
      + reflexivity.
      + now rewrite IH.
  Qed.

  Lemma ins_filter_true x l : srt l -> pp x = true -> ins_item x (filter pp l) = filter pp (ins_item x l).
  Proof.
    intros S Px. induction l as [|y r IH]; simpl.
    - now rewrite Px.
    - destruct (srt_inv _ _ S) as [Sr Fr].
      destruct (addr_ltb (item_addr x) (item_addr y)) eqn:E1; [|destruct (addr_eqb (item_addr x) (item_addr y)) eqn:E2].
      + simpl. rewrite Px. destruct (pp y) eqn:Py.
        * simpl. now rewrite E1.
        * apply ins_item_lt_all. intros z Hz. apply filter_In in Hz as [Hz _].
          apply addr_ltb_lt in E1. eapply addr_lt_trans; eauto.
      + apply addr_eqb_eq in E2. simpl. assert (Py : pp y = true) by (unfold paddr in *; now rewrite <- E2).
        rewrite Py. simpl. rewrite E1, E2. now rewrite addr_eqb_refl.
      + simpl. destruct (pp y) eqn:Py.
        * simpl. rewrite E1, E2. now rewrite IH.
        * now apply IH.
  Qed.

  Lemma insall_filter : forall L U, srt U -> insall (filter pp L) (filter pp U) = filter pp (insall L U).
  Proof.
    induction L as [|y L IH]; intros U S; [reflexivity|].
    simpl. destruct (pp y) eqn:Py.
    - simpl. rewrite ins_filter_true by auto. apply IH. now apply ins_item_srt.
    - rewrite <- IH by (now apply ins_item_srt). now rewrite ins_filter_false.
  Qed.

  Lemma existsb_filter_addr a l : p a = true ->
    existsb (fun it => addr_eqb (item_addr it) a) (filter pp l) = existsb (fun it => addr_eqb (item_addr it) a) l.
  Proof.
    intros Pa. induction l as [|y r IH]; simpl; auto.
    destruct (pp y) eqn:Py; simpl; [now rewrite IH|]. rewrite IH.
    destruct (addr_eqb (item_addr y) a) eqn:E; auto. apply addr_eqb_eq in E. unfold paddr in Py. congruence.
  Qed.

  Lemma eng_listed_filter cur cur' : forall shards,
    shards_srt shards cur ->
    (forall sh, In sh shards -> listed_after (snd sh) cur' = filter pp (listed_after (snd sh) cur)) ->
    eng_listed shards cur' = filter (fun e => p (eitem_addr e)) (eng_listed shards cur).
  Proof.
    intros shards SS HL.
    assert (HU : union_items shards cur' = filter pp (union_items shards cur)).
    { revert SS HL. induction shards as [|sh r IH] using rev_ind; intros SS HL; [reflexivity|].
      rewrite !union_items_snoc, IH.
      - rewrite HL by (apply in_or_app; right; now left). apply insall_filter. apply union_items_srt.
      - intros s Hs. apply SS. apply in_or_app. now left.
      - intros s Hs. apply HL. apply in_or_app. now left. }
    unfold eng_listed. rewrite HU, filter_map_comm.
    change (fun x : item => p (eitem_addr (x, holders shards cur (item_addr x)))) with pp.
    apply map_ext_in. intros it Hit. apply filter_In in Hit as [_ Pit]. f_equal.
    unfold holders. f_equal. apply filter_ext_in. intros sh Hs. unfold lists_addr.
    rewrite (HL sh Hs). now apply existsb_filter_addr.
  Qed.
End Restrict.

(* ---- in a strictly sorted list the entries above the last one of the first n are the rest *)
Lemma last_cons_irrel {A} (l : list A) : forall a d, last (a :: l) d = last l a.
Proof.
  induction l as [|b l IH]; intros a d; [reflexivity|].
  change (last (a :: b :: l) d) with (last (b :: l) d). now rewrite !IH.
Qed.

Lemma last_in {A} (l : list A) : forall a, In (last l a) (a :: l).
Proof.
  induction l as [|b l IH]; intros a; [now left|].
  rewrite last_cons_irrel. right. apply IH.
Qed.

Definition esrt (l : list eitem) : Prop := StronglySorted addr_lt (map eitem_addr l).

Lemma sorted_above_last : forall (l : list eitem) n x r, esrt l ->
  firstn n l = x :: r ->
  filter (fun e => addr_ltb (eitem_addr (last r x)) (eitem_addr e)) l = skipn n l.
Proof.
  induction l as [|x0 l IH]; intros n x r S E.
  - now rewrite firstn_nil in E.
  - destruct n as [|m]; [discriminate|]. cbn [firstn] in E. inversion E; subst x r. clear E.
    unfold esrt in S. simpl in S. inversion S as [|a b S' F]; subst. rewrite Forall_forall in F.
    assert (Fl : forall z, In z l -> addr_lt (eitem_addr x0) (eitem_addr z)) by (intros z Hz; apply F; now apply in_map).
    cbn [skipn]. destruct (firstn m l) as [|x1 r1] eqn:E1.
    + simpl.
      assert (Hx : addr_ltb (eitem_addr x0) (eitem_addr x0) = false).
      { destruct (addr_ltb (eitem_addr x0) (eitem_addr x0)) eqn:Q; auto. apply addr_ltb_lt in Q. now apply addr_lt_irrefl in Q. }
      rewrite Hx. rewrite filter_all by (intros z Hz; apply addr_ltb_lt; auto).
      destruct m; [reflexivity|]. destruct l; [reflexivity|discriminate].
    + rewrite last_cons_irrel.
      assert (Hin : In (last r1 x1) l).
      { apply (firstn_incl m). rewrite E1. apply last_in. }
      simpl. rewrite (addr_lt_ltb_false _ _ (Fl _ Hin)). now apply IH.
Qed.

(* ---- the engine cursor *)
Lemma listed_oid_pos s it : oids_pos s -> In it (listed s) -> snd (item_addr it) <> 0.
Proof.
  destruct it as [[c o] t]. intros P H. apply listed_char in H as [b [e [Hc [_ [Ho _]]]]].
  simpl. exact (P c b Hc o e Ho).
Qed.

Lemma after_ltb (c a : cursor) : snd c <> 0 -> after c a = addr_ltb c a.
Proof. intros H. unfold after, addr_ltb. apply N.eqb_neq in H. now rewrite H. Qed.

Lemma after_trans cur c a : after cur c = true -> addr_ltb c a = true -> after cur a = true.
Proof.
  unfold after, addr_ltb. destruct cur as [c1 o1], c as [c2 o2], a as [c3 o3]; simpl.
  rewrite !orb_true_iff, !andb_true_iff, !orb_true_iff, !N.ltb_lt, !N.eqb_eq. lia.
Qed.

Lemma listed_after_restrict s cur c : after cur c = true -> snd c <> 0 ->
  listed_after s c = filter (paddr (addr_ltb c)) (listed_after s cur).
Proof.
  intros A Z. unfold listed_after. rewrite filter_filter_imp.
  - apply filter_ext. intros it. unfold paddr. now apply after_ltb.
  - intros it _ H. unfold paddr in H. eapply after_trans; eauto.
Qed.

Lemma eng_listed_esrt shards cur : esrt (eng_listed shards cur).
Proof. unfold esrt, eng_listed. rewrite map_map. exact (union_items_srt cur shards). Qed.

Lemma engine_next shards n cur : shards_ok shards -> (1 <= n)%nat ->
  eng_listed shards (match snd (engine_list shards n cur) with Some c => c | None => cur end) =
  skipn n (eng_listed shards cur).
Proof.
  intros OK Hn. unfold engine_list. rewrite engine_merge_eu, eu_eng_listed by (auto using shards_ok_srt).
  destruct (firstn n (eng_listed shards cur)) as [|x r] eqn:F; cbn [snd].
  - destruct (eng_listed shards cur); [now rewrite skipn_nil|]. destruct n; [lia|discriminate].
  - set (c' := eitem_addr (last r x)).
    assert (Hin : In (last r x) (eng_listed shards cur)).
    { apply (firstn_incl n). rewrite F. apply last_in. }
    assert (Hc : exists sh it, In sh shards /\ In it (listed_after (snd sh) cur) /\ item_addr it = c').
    { assert (Ha : In c' (map item_addr (union_items shards cur))).
      { unfold eng_listed in Hin. apply in_map_iff in Hin as [it [E Hit]]. unfold c'. rewrite <- E.
        apply in_map_iff. exists it. split; auto. }
      apply union_items_addr in Ha as [sh [Hs Ha]]. apply in_map_iff in Ha as [it [E Hit]]. eauto. }
    destruct Hc as [sh [it [Hs [Hit Eit]]]].
    unfold listed_after in Hit. apply filter_In in Hit as [Hl Ha]. rewrite Eit in Ha.
    assert (Z : snd c' <> 0).
    { rewrite <- Eit. eapply listed_oid_pos; eauto. now apply OK. }
    rewrite (eng_listed_filter (addr_ltb c') cur c' shards (shards_ok_srt shards cur OK)).
    + apply sorted_above_last; auto. apply eng_listed_esrt.
    + intros sh' _. now apply listed_after_restrict.
Qed.

(* ---- the client loop over the engine *)
Definition elister (shards : list shard) (n : nat) (cur : cursor) : list eitem * cursor :=
  (fst (engine_list shards n cur), match snd (engine_list shards n cur) with Some c => c | None => cur end).

Lemma engine_pages_gpages shards : forall sizes cur,
  engine_pages_from shards sizes cur = gpages (elister shards) sizes cur.
Proof.
  induction sizes as [|n r IH]; intros cur; [reflexivity|].
  simpl. unfold elister, engine_list. destruct (engine_merge shards n cur) as [|x l]; cbn [fst snd]; [reflexivity|].
  now rewrite IH.
Qed.

Lemma c06_engine_chain shards sizes cur :
  shards_ok shards -> Forall (fun n => (1 <= n)%nat) sizes ->
  concat (fst (engine_pages_from shards sizes cur)) = firstn (list_sum sizes) (eng_listed shards cur) /\
  match snd (engine_pages_from shards sizes cur) with
  | Some cur' =>
      eng_listed shards cur' = skipn (list_sum sizes) (eng_listed shards cur) /\
      ((length (eng_listed shards cur) <= list_sum sizes)%nat -> forall n, engine_list shards n cur' = ([], None))
  | None => concat (fst (engine_pages_from shards sizes cur)) = eng_listed shards cur
  end.
Proof.
  intros OK F.
  pose proof (gpages_spec (A:=eitem) (elister shards) (eng_listed shards)
                (fun n c => engine_page shards n c OK) (fun n c Hn => engine_next shards n c OK Hn) sizes cur F) as HS.
  rewrite <- engine_pages_gpages in HS.
  destruct (engine_pages_from shards sizes cur) as [ps e]. cbn [fst snd] in *. destruct HS as [H1 H2].
  split; auto. destruct e as [cur'|]; auto. split; auto.
  intros Hl n. unfold engine_list. rewrite engine_merge_eu, eu_eng_listed by (auto using shards_ok_srt).
  rewrite H2, skipn_all2 by lia. now rewrite firstn_nil.
Qed.

(* ---- what the reference eng_listed is: strictly sorted by address (hence duplicate free),
   an address is present iff some shard lists it, and its ShardIDs are exactly the listing shards *)
Lemma c06_engine_reference shards cur :
  StronglySorted addr_lt (map eitem_addr (eng_listed shards cur)) /\
  (forall a, In a (map eitem_addr (eng_listed shards cur)) <->
             exists sh, In sh shards /\ In a (map item_addr (listed_after (snd sh) cur))) /\
  (forall e, In e (eng_listed shards cur) ->
             snd e = map fst (filter (fun sh : shard => existsb (fun it => addr_eqb (item_addr it) (eitem_addr e))
                                                               (listed_after (snd sh) cur)) shards)).
Proof.
  split; [apply eng_listed_esrt|]. split.
  - intros a. rewrite <- union_items_addr. unfold eng_listed. rewrite map_map. reflexivity.
  - intros e He. unfold eng_listed in He. apply in_map_iff in He as [it [E _]]. subst e. reflexivity.
Qed.

(* shards given by histories *)
Definition shards_of (hs : list (N * list op)) : list shard := map (fun p => (fst p, run (snd p))) hs.

Lemma shards_of_ok hs : Forall (fun sh : shard => oids_pos (snd sh)) (shards_of hs) -> shards_ok (shards_of hs).
Proof.
  intros F sh Hs. rewrite Forall_forall in F. split; auto.
  unfold shards_of in Hs. apply in_map_iff in Hs as [p [E _]]. subst sh. apply wf_run.
Qed.

(* decidable form of the premise, for examples *)
Definition oids_posb (s : state) : bool :=
  forallb (fun cb : cid * cstate => forallb (fun oe : oid * entry => negb (fst oe =? 0)) (objs (snd cb))) (cnrs s).

Lemma oids_posb_ok s : oids_posb s = true -> oids_pos s.
Proof.
  unfold oids_posb. rewrite forallb_forall. intros H c b Hc o e Ho.
  specialize (H (c, b) Hc). simpl in H. rewrite forallb_forall in H. specialize (H (o, e) Ho). simpl in H.
  apply negb_true_iff in H. now apply N.eqb_neq in H.
Qed.
