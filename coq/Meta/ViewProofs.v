(* C01: every view of the model reports the reference status (Spec) on every
   well-formed state, hence after every history. *)
From Coq Require Import List NArith ZArith Bool Lia.
Import ListNotations.
From NV Require Import Gen.MetaConsts Meta.SMap Meta.SMapProofs Meta.Model Meta.Spec Meta.Check
     Meta.StatusProofs Meta.WfProofs.
Local Open Scope N_scope.

Lemma status_class_rank (st : Spec.status) :
  status_class (rank st) = if status_eqb st Available then None else Some (class_of_status st).
Proof. destruct st; reflexivity. Qed.

(* ---- Exists *)
Theorem exists_status s (ign : bool) c o :
  wf_state s -> excluded s (if ign then 0 else epoch s) c o = false ->
  status_of_class (view_exists s ign c o) = Some (status_at s (if ign then 0 else epoch s) c o).
Proof.
  intros W X. unfold view_exists, status_at, excluded, bucket in *.
  destruct (sm_get c (cnrs s)) as [b|] eqn:E; [|reflexivity].
  assert (Wb : wfc b) by (eapply wf_bucket; eauto).
  unfold status_in. destruct (cgc b); [reflexivity|]. simpl in X.
  rewrite (object_status_spec b _ o Wb X), status_class_rank.
  destruct (status_k max_nesting b (if ign then 0 else epoch s) o); try reflexivity.
  destruct (parent_info b o); simpl; try reflexivity. destruct (stored b o); reflexivity.
Qed.

(* ---- Get *)
Theorem get_status s raw c o :
  wf_state s -> excluded s (epoch s) c o = false ->
  class_ok true (status_at s (epoch s) c o) (bucket_stored s c o) (view_get s raw c o) = true.
Proof.
  intros W X. unfold view_get, status_at, excluded, bucket_stored, bucket in *.
  destruct (sm_get c (cnrs s)) as [b|] eqn:E; [|reflexivity].
  assert (Wb : wfc b) by (eapply wf_bucket; eauto).
  unfold status_in. destruct (cgc b); [reflexivity|]. simpl in X.
  rewrite (object_status_spec b _ o Wb X), status_class_rank.
  destruct (status_k max_nesting b (epoch s) o); try reflexivity.
  unfold stored. destruct raw.
  - destruct (parent_info b o); simpl; try reflexivity. destruct (sm_mem o (objs b)); reflexivity.
  - destruct (sm_mem o (objs b)); reflexivity.
Qed.

(* ---- ResolveECPart: a status other than Available is reported as such, an
   available parent is never reported removed / expired *)
Definition ec_agrees (st : status) (r : ecres) : bool :=
  match st, r with
  | Available, ECOk _ => true
  | Available, ECSplit _ _ => true
  | Available, ECErr cl => cl =? v_notfound
  | _, ECErr cl => cl =? class_of_status st
  | _, _ => false
  end.

Lemma ec_loop_inl b rule idx ch : forall last found r,
  ec_loop b ch rule idx last found = inl r -> ec_agrees Available r = true.
Proof.
  induction ch as [|[id en] ch IH]; intros l f r; simpl; [discriminate|].
  destruct (negb (opt_eqb (h_ecr (e_hdr en)) (Some rule))).
  - destruct (otype_eqb (h_typ (e_hdr en)) TLink).
    + intros H; inversion H; reflexivity.
    + apply IH.
  - destruct idx as [i|]; destruct (h_eci (e_hdr en)) as [pi|]; try apply IH.
    destruct (pi =? i); [intros H; inversion H; reflexivity|apply IH].
Qed.

Theorem ec_status s c o rule idx :
  wf_state s -> excluded s (epoch s) c o = false ->
  ec_agrees (match bucket s c with None => NotFound | Some _ => status_at s (epoch s) c o end)
            (view_ec s c o rule idx) = true.
Proof.
  intros W X. unfold view_ec, status_at, excluded, bucket in *.
  destruct (sm_get c (cnrs s)) as [b|] eqn:E; [|reflexivity].
  assert (Wb : wfc b) by (eapply wf_bucket; eauto).
  unfold status_in. destruct (cgc b); [reflexivity|]. simpl in X.
  rewrite (object_status_spec b _ o Wb X), status_class_rank.
  destruct (status_k max_nesting b (epoch s) o); try reflexivity. simpl.
  destruct (ec_loop b (children_of b o) rule idx None None) as [r|[last found]] eqn:L.
  - eapply ec_loop_inl; eauto.
  - destruct idx as [i|]; destruct found as [[m fid]|]; simpl; try reflexivity;
      destruct (children_of b o), (type_of b o) as [[| | |]|], last; reflexivity.
Qed.

(* ---- IsLocked *)
Theorem locked_status s c o :
  wf_state s ->
  view_locked s c o = match bucket s c with
                      | Some b => negb (cgc b) && live_lock b (epoch s) o
                      | None => false
                      end.
Proof.
  intros W. unfold view_locked. destruct (bucket s c) as [b|] eqn:E; [|reflexivity].
  assert (Wb : wfc b) by (eapply wf_bucket; eauto).
  destruct (cgc b); [reflexivity|]. simpl. now apply locked_spec.
Qed.

(* ---- Search (unfiltered) *)
Lemma filter_ext_in' {A} (f g : A -> bool) l :
  (forall x, In x l -> f x = g x) -> filter f l = filter g l.
Proof.
  induction l as [|a l IH]; intros H; [reflexivity|]. simpl.
  rewrite (H a (or_introl eq_refl)), IH; auto. intros x Hx. apply H. now right.
Qed.

Theorem search_status s c :
  wf_state s -> (forall o, excluded s (epoch s) c o = false) ->
  view_search s c = match bucket s c with Some b => search_in b (epoch s) | None => [] end.
Proof.
  intros W X. unfold view_search, search_in. destruct (bucket s c) as [b|] eqn:E; [|reflexivity].
  assert (Wb : wfc b) by (eapply wf_bucket; eauto).
  destruct (cgc b) eqn:G; [reflexivity|].
  apply filter_ext_in'. intros o _. specialize (X o). unfold excluded in X. unfold bucket in E. rewrite E, G in X. simpl in X.
  rewrite (object_status_spec b _ o Wb X). destruct (status_k max_nesting b (epoch s) o); reflexivity.
Qed.

(* ---- expired-object iteration *)
Lemma in_ins_exp x y l : In x (ins_exp y l) <-> x = y \/ In x l.
Proof.
  induction l as [|z r IH]; simpl.
  - intuition.
  - destruct ((fst y <? fst z) || ((fst y =? fst z) && (snd y <=? snd z))); simpl; rewrite ?IH; intuition.
Qed.

Lemma in_sort_exp x l : In x (sort_exp l) <-> In x l.
Proof.
  unfold sort_exp. induction l as [|y r IH]; simpl; [tauto|].
  rewrite in_ins_exp, IH. intuition.
Qed.

Theorem expired_iter_exact s e x :
  wf_state s -> (In x (view_expired s e) <-> In x (expired_unlocked s e)).
Proof.
  intros W. unfold view_expired, expired_unlocked. rewrite !in_flat_map.
  split; intros [[c b] [Hin H]]; exists (c, b); split; auto; cbn [fst snd] in *;
    assert (Wb : wfc b) by (destruct W as [_ W2]; eapply W2; eauto).
  - unfold expired_unlocked_in. destruct (cgc b); [destruct H|].
    apply in_flat_map in H as [[ex o] [H1 H2]]. rewrite in_sort_exp in H1.
    apply in_flat_map in H1 as [[o' en] [H3 H4]]. simpl in *.
    destruct (h_exp (e_hdr en)) as [x0|] eqn:EX; [|destruct H4].
    destruct (x0 <? e) eqn:LT; [|destruct H4]. destruct H4 as [H4|[]]. inversion H4; subst.
    rewrite (locked_spec b e o Wb) in H2. destruct (live_lock b e o) eqn:LL; [destruct H2|].
    rewrite (type_of_in b o en Wb H3) in H2. destruct H2 as [H2|[]]. subst x.
    apply in_map_iff. exists (o, h_typ (e_hdr en)). split; auto.
    apply in_flat_map. exists (o, en). split; auto. simpl.
    unfold expired. destruct Wb as [Wo _]. rewrite (sm_get_in _ _ _ Wo H3), EX, LT, LL. simpl. now left.
  - unfold expired_unlocked_in in H. destruct (cgc b); [destruct H|].
    apply in_map_iff in H as [[o t] [H1 H2]]. subst x.
    apply in_flat_map in H2 as [[o' en] [H3 H4]]. simpl in *.
    destruct (expired b e o') eqn:EX; [|destruct H4]. destruct (live_lock b e o') eqn:LL; [destruct H4|].
    simpl in H4. destruct H4 as [H4|[]]. inversion H4; subst.
    unfold expired in EX. destruct Wb as [Wo Wg]. rewrite (sm_get_in _ _ _ Wo H3) in EX.
    destruct (h_exp (e_hdr en)) as [x0|] eqn:EX2; [|discriminate].
    apply in_flat_map. exists (x0, o). split.
    + rewrite in_sort_exp. apply in_flat_map. exists (o, en). split; auto. simpl. rewrite EX2, EX. now left.
    + simpl. rewrite (locked_spec b e o (conj Wo Wg)), LL.
      rewrite (type_of_in b o en (conj Wo Wg) H3). now left.
Qed.
