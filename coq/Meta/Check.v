(* Executable comparison for the correspondence checks of C01 / C02.

   A history case = list of (operation, observed result, optional observation).
   An observation = the abstract state dumped from the real database + the
   projected views as sections of numbers.  [model_mismatches] replays the
   operations on the model and compares result, state and every view section;
   [ref_mismatches] evaluates the reference rules of Spec.v on the *dumped*
   state and compares them with the views the implementation reported.
   Mismatch code = (history * 1000 + step) * 100 + section. *)
From Coq Require Import List NArith ZArith Bool.
Import ListNotations.
From NV Require Import Base.U64 Gen.MetaConsts Meta.SMap Meta.Model Meta.Spec.
Local Open Scope N_scope.

(* ---- universe and probes (mirrors harness/cmd/meta/main.go) *)
Definition u_cnrs : list cid := [1; 2; 3].
Definition u_oids : list oid := [1; 2; 3; 4; 5; 6; 7; 8; 9; 10].
Definition ec_probes : list (N * option N) := [(0, Some 0); (0, Some 1); (0, None); (1, Some 0)].
Definition page_size : nat := 4.
Definition list_all : nat := 10000.
Definition exp_probes (e : N) : list N := [e; e + 2; 100].
Definition garb_limits : list nat := [10000%nat; 3%nat].

(* ---- encodings *)
Definition otype_code (t : otype) : N :=
  match t with TRegular => 0 | TTombstone => 1 | TLock => 2 | TLink => 3 end.
Definition b2n (b : bool) : N := if b then 1 else 0.
Definition opt_code (o : option N) : N := match o with Some x => x + 1 | None => 0 end.

Fixpoint list_eqb {A} (eqb : A -> A -> bool) (a b : list A) : bool :=
  match a, b with
  | [], [] => true
  | x :: r, y :: s => eqb x y && list_eqb eqb r s
  | _, _ => false
  end.

Definition enc_cnt (c : counters) : list N :=
  [c_phy c; c_root c; c_ts c; c_lock c; c_link c; c_gc c; c_payload c].

Definition enc_entry (kv : oid * entry) : list N :=
  let h := e_hdr (snd kv) in
  [fst kv; otype_code (h_typ h); h_size h; opt_code (h_exp h); opt_code (h_assoc h); opt_code (h_parent h);
   opt_code (h_first h); opt_code (h_split h); opt_code (h_ecr h); opt_code (h_eci h);
   b2n (e_phy (snd kv)); b2n (e_root (snd kv))].

Definition enc_cstate (cb : cid * cstate) : list N :=
  let b := snd cb in
  [fst cb; b2n (cgc b); N.of_nat (length (objs b))] ++ flat_map enc_entry (objs b) ++
  [N.of_nat (length (garb b))] ++ flat_map (fun kv : oid * gmark => [fst kv; match snd kv with MDefault => 0 | MRedundant => 1 end]) (garb b) ++
  enc_cnt (cnt b).

Definition enc_state (s : state) : list N :=
  epoch s :: N.of_nat (length (cnrs s)) :: flat_map enc_cstate (cnrs s).

(* ---- digest: the per-step case literal is one number (Coq reads numerals slowly) *)
Definition hash_p : N := 2305843009213693951.  (* 2^61 - 1 *)
Definition hash_list (l : list N) : N :=
  fold_left (fun acc x => (acc * 1000003 + x + 1) mod hash_p) l 7.

(* ---- decoder of enc_state (for the dumped state of the real database) *)
Definition code_otype (n : N) : otype :=
  if n =? 1 then TTombstone else if n =? 2 then TLock else if n =? 3 then TLink else TRegular.
Definition code_opt (n : N) : option N := if n =? 0 then None else Some (n - 1).

Fixpoint dec_entries (n : nat) (l : list N) : list (oid * entry) * list N :=
  match n with
  | O => ([], l)
  | S n' =>
      match l with
      | id :: t :: sz :: ex :: a :: p :: fi :: sp :: er :: ei :: phy :: root :: r =>
          let '(es, rest) := dec_entries n' r in
          ((id, mkEntry (mkHdr (code_otype t) sz (code_opt ex) (code_opt a) (code_opt p) (code_opt fi)
                               (code_opt sp) (code_opt er) (code_opt ei)) (negb (phy =? 0)) (negb (root =? 0))) :: es, rest)
      | _ => ([], [])
      end
  end.
Fixpoint dec_garb (n : nat) (l : list N) : list (oid * gmark) * list N :=
  match n with
  | O => ([], l)
  | S n' =>
      match l with
      | id :: m :: r => let '(gs, rest) := dec_garb n' r in ((id, if m =? 0 then MDefault else MRedundant) :: gs, rest)
      | _ => ([], [])
      end
  end.
Fixpoint dec_cnrs (n : nat) (l : list N) : list (cid * cstate) :=
  match n with
  | O => []
  | S n' =>
      match l with
      | c :: g :: no :: r =>
          let '(es, r1) := dec_entries (N.to_nat no) r in
          match r1 with
          | ng :: r2 =>
              let '(gs, r3) := dec_garb (N.to_nat ng) r2 in
              match r3 with
              | a :: b :: c3 :: d :: e :: f :: h :: r4 =>
                  (c, mkC es gs (negb (g =? 0)) (mkCnt a b c3 d e f h)) :: dec_cnrs n' r4
              | _ => []
              end
          | [] => []
          end
      | _ => []
      end
  end.
Definition dec_state (l : list N) : state :=
  match l with
  | e :: n :: r => mkS (dec_cnrs (N.to_nat n) r) e
  | _ => state0
  end.

Definition enc_triples (l : list (cid * oid * otype)) : list N :=
  N.of_nat (length l) :: flat_map (fun t : cid * oid * otype => [fst (fst t); snd (fst t); otype_code (snd t)]) l.

Definition opt_raw (x : option N) : N := match x with Some y => y | None => 0 end.
Definition enc_ec (r : ecres) : N :=
  match r with
  | ECOk id => v_ok * 1000000 + id * 10000
  | ECErr cl => cl * 1000000
  | ECSplit li la => v_split * 1000000 + opt_raw li * 100 + opt_raw la
  end.

Definition per_addr (f : cid -> oid -> N) : list N :=
  flat_map (fun c => map (f c) u_oids) u_cnrs.

(* sections of an observation, in this order *)
Definition sec_total := 0%nat.
Definition sec_info := 1%nat.
Definition sec_recount := 2%nat.
Definition sec_exists := 3%nat.
Definition sec_existsi := 4%nat.
Definition sec_get := 5%nat.
Definition sec_getraw := 6%nat.
Definition sec_locked := 7%nat.
Definition sec_search := 8%nat.
Definition sec_searchr := 9%nat.
Definition sec_ec := 10%nat.
Definition sec_list := 11%nat.
Definition sec_pages := 12%nat.
Definition sec_expired := 13%nat.
Definition sec_garbage := 14%nat.
(* extra codes used in mismatch reports *)
Definition sec_result := 20%nat.
Definition sec_state := 21%nat.

Definition model_views (s : state) : list (list N) :=
  [ enc_cnt (view_counters s);
    flat_map (fun c => let '(sz, n) := view_info s c in [sz; n]) u_cnrs;
    flat_map (fun c => match bucket s c with Some b => enc_cnt (sync_counters b) | None => enc_cnt cnt0 end) u_cnrs;
    per_addr (view_exists s false);
    per_addr (view_exists s true);
    per_addr (view_get s false);
    per_addr (view_get s true);
    per_addr (fun c o => b2n (view_locked s c o));
    flat_map (fun c => let l := view_search s c in N.of_nat (length l) :: l) u_cnrs;
    flat_map (fun c => let l := view_search_root s c in N.of_nat (length l) :: l) u_cnrs;
    flat_map (fun c => flat_map (fun o => map (fun p : N * option N => enc_ec (view_ec s c o (fst p) (snd p))) ec_probes) u_oids) u_cnrs;
    enc_triples (fst (view_list s list_all (0, 0)));
    (let ps := list_pages 200 s page_size (0, 0) in N.of_nat (length ps) :: flat_map enc_triples ps);
    flat_map (fun e => enc_triples (view_expired s e)) (exp_probes (epoch s));
    flat_map (fun lim => let bins := view_garbage s lim in
                         N.of_nat (length bins) :: flat_map (fun b : cid * list oid => fst b :: N.of_nat (length (snd b)) :: snd b) bins)
             garb_limits ].

(* ---- cases *)
(* pass 1: per observed step only the digest of (dumped state, all view sections) *)
Definition digest (st : list N) (views : list (list N)) : N :=
  hash_list (st ++ flat_map (fun l => N.of_nat (length l) :: l) views).
Record stepc := mkStep { sc_op : op; sc_res : list Z; sc_obs : option N }.
Definition hist := list stepc.
Definition sec_digest := 30%nat.

Fixpoint diff_sections (i : nat) (a b : list (list N)) : list nat :=
  match a, b with
  | [], [] => []
  | x :: r, y :: s => (if list_eqb N.eqb x y then [] else [i]) ++ diff_sections (S i) r s
  | _, _ => [i]
  end.

Definition code (h k sec : nat) : N := (N.of_nat h * 1000 + N.of_nat k) * 100 + N.of_nat sec.

(* model vs implementation, pass 1 *)
Fixpoint model_hist (h k : nat) (s : state) (l : hist) : list N :=
  match l with
  | [] => []
  | st :: r =>
      let '(s', res) := step s (sc_op st) in
      (if list_eqb Z.eqb res (sc_res st) then [] else [code h k sec_result]) ++
      (match sc_obs st with
       | None => []
       | Some d => if digest (enc_state s') (model_views s') =? d then [] else [code h k sec_digest]
       end) ++
      model_hist h (S k) s' r
  end.

Fixpoint mism_from {A} (f : nat -> A -> list N) (i : nat) (l : list A) : list N :=
  match l with [] => [] | x :: r => f i x ++ mism_from f (S i) r end.

Definition model_mismatches (cases : list hist) : list N :=
  mism_from (fun i h => model_hist i 0 state0 h) 0 cases.

(* ---- reference vs implementation (on the dumped state) *)

Definition status_of_class (cl : N) : option status :=
  if cl =? v_notfound then Some NotFound
  else if cl =? v_removed then Some Removed
  else if cl =? v_expired then Some Expired
  else if (cl =? v_absent) || (cl =? v_ok) || (cl =? v_split) || (cl =? v_ecparent) then Some Available
  else None.

Definition class_of_status (st : status) : N :=
  match st with Available => v_ok | NotFound => v_notfound | Removed => v_removed | Expired => v_expired end.

Definition bucket_stored (s : state) (c : cid) (o : oid) : bool :=
  match sm_get c (cnrs s) with Some b => sm_mem o (objs b) | None => false end.

(* does an observed class agree with the reference status?  [nf_absent]: the
   view reports "not found" for an address that is simply not stored *)
Definition class_ok (nf_absent : bool) (st : status) (is_stored : bool) (cl : N) : bool :=
  match st with
  | Available =>
      if (cl =? v_notfound) then nf_absent && negb is_stored
      else match status_of_class cl with Some Available => true | _ => false end
  | _ => cl =? class_of_status st
  end.

Fixpoint zip_ok {A} (f : A -> N -> bool) (a : list A) (b : list N) : bool :=
  match a, b with
  | [], [] => true
  | x :: r, y :: s => f x y && zip_ok f r s
  | _, _ => false
  end.

Definition addrs : list (cid * oid) := flat_map (fun c => map (fun o => (c, o)) u_oids) u_cnrs.

Definition ref_status_section (s : state) (e : N) (nf_absent : bool) (l : list N) : bool :=
  zip_ok (fun (a : cid * oid) cl => class_ok nf_absent (status_at s e (fst a) (snd a)) (bucket_stored s (fst a) (snd a)) cl) addrs l.

(* the same, ignoring addresses of the known class *)
Definition ref_status_section_m (s : state) (e : N) (nf_absent : bool) (l : list N) : bool :=
  zip_ok (fun (a : cid * oid) cl => excluded s e (fst a) (snd a) ||
            class_ok nf_absent (status_at s e (fst a) (snd a)) (bucket_stored s (fst a) (snd a)) cl) addrs l.

Definition ref_ec_section (s : state) (l : list N) : bool :=
  zip_ok (fun (a : cid * oid * (N * option N)) x =>
            let cl := x / 1000000 in
            let st := match sm_get (fst (fst a)) (cnrs s) with
                      | None => NotFound   (* ResolveECPart: no bucket = not found *)
                      | Some _ => status_at s (epoch s) (fst (fst a)) (snd (fst a))
                      end in
            match st with
            | Available => (cl =? v_ok) || (cl =? v_notfound) || (cl =? v_split)
            | _ => cl =? class_of_status st
            end)
         (flat_map (fun a => map (fun p => (a, p)) ec_probes) addrs) l.

Definition ref_ec_section_m (s : state) (l : list N) : bool :=
  zip_ok (fun (a : cid * oid * (N * option N)) x =>
            let cl := x / 1000000 in
            let st := match sm_get (fst (fst a)) (cnrs s) with
                      | None => NotFound
                      | Some _ => status_at s (epoch s) (fst (fst a)) (snd (fst a))
                      end in
            excluded s (epoch s) (fst (fst a)) (snd (fst a)) ||
            match st with
            | Available => (cl =? v_ok) || (cl =? v_notfound) || (cl =? v_split)
            | _ => cl =? class_of_status st
            end)
         (flat_map (fun a => map (fun p => (a, p)) ec_probes) addrs) l.

Definition ref_locked_section (s : state) (l : list N) : bool :=
  zip_ok (fun (a : cid * oid) x =>
            N.eqb x (b2n (match sm_get (fst a) (cnrs s) with
                          | Some b => negb (cgc b) && live_lock b (epoch s) (snd a)
                          | None => false
                          end))) addrs l.

Definition ref_search_section (s : state) (l : list N) : bool :=
  list_eqb N.eqb l
    (flat_map (fun c => let r := match sm_get c (cnrs s) with Some b => search_in b (epoch s) | None => [] end in
                        N.of_nat (length r) :: r) u_cnrs).

(* search, ignoring IDs of the known class on both sides *)
Fixpoint dec_lists (fuel : nat) (l : list N) : list (list N) :=
  match fuel with
  | O => []
  | S f => match l with
           | [] => []
           | n :: r => firstn (N.to_nat n) r :: dec_lists f (skipn (N.to_nat n) r)
           end
  end.
Definition ref_search_section_m (s : state) (l : list N) : bool :=
  list_eqb (list_eqb N.eqb)
    (map (fun cl : cid * list N => filter (fun o => negb (excluded s (epoch s) (fst cl) o)) (snd cl))
         (combine u_cnrs (dec_lists (length u_cnrs) l)))
    (map (fun c => filter (fun o => negb (excluded s (epoch s) c o))
                          (match sm_get c (cnrs s) with Some b => search_in b (epoch s) | None => [] end)) u_cnrs).

(* set equality of two duplicate-free triple lists given in arbitrary order *)
Definition triple_eqb (a b : cid * oid * otype) : bool :=
  (fst (fst a) =? fst (fst b)) && (snd (fst a) =? snd (fst b)) && otype_eqb (snd a) (snd b).
Definition subset_t (a b : list (cid * oid * otype)) : bool :=
  forallb (fun x => existsb (triple_eqb x) b) a.
Fixpoint nodup_t (a : list (cid * oid * otype)) : bool :=
  match a with [] => true | x :: r => negb (existsb (triple_eqb x) r) && nodup_t r end.

(* decode consecutive length-prefixed triple lists *)
Fixpoint take_triples (n : nat) (l : list N) : list (cid * oid * otype) * list N :=
  match n with
  | O => ([], l)
  | S n' => match l with
            | c :: o :: t :: r => let '(ts, rest) := take_triples n' r in ((c, o, code_otype t) :: ts, rest)
            | _ => ([], [])
            end
  end.
Fixpoint dec_triple_lists (fuel : nat) (l : list N) : list (list (cid * oid * otype)) :=
  match fuel with
  | O => []
  | S f => match l with
           | [] => []
           | n :: r => let '(ts, rest) := take_triples (N.to_nat n) r in ts :: dec_triple_lists f rest
           end
  end.

Definition ref_list_section (s : state) (l : list N) : bool :=
  list_eqb N.eqb l (enc_triples (listed s)).

Definition ref_pages_section (s : state) (l : list N) : bool :=
  match l with
  | [] => false
  | n :: r => list_eqb triple_eqb (concat (dec_triple_lists (N.to_nat n) r)) (listed s)
  end.

Fixpoint ref_expired_go (s : state) (es : list N) (ls : list (list (cid * oid * otype))) : bool :=
  match es, ls with
  | [], [] => true
  | e :: er, x :: lr =>
      let want := expired_unlocked s e in
      nodup_t x && subset_t x want && subset_t want x && ref_expired_go s er lr
  | _, _ => false
  end.
Definition ref_expired_section (s : state) (l : list N) : bool :=
  ref_expired_go s (exp_probes (epoch s)) (dec_triple_lists 3 l).

Definition ref_counters_ok (s : state) (views : list (list N)) : bool :=
  (* typed counters of ObjectCounters = sum of the per-container recounts; container info per container *)
  let rs := map (fun c => match sm_get c (cnrs s) with Some b => recount b | None => mkRecount 0 0 0 0 0 0 0 end) u_cnrs in
  let all := map (fun cb : cid * cstate => recount (snd cb)) (cnrs s) in
  let sum f := fold_right (fun r acc => f r + acc) 0 all in
  match nth_error views sec_total, nth_error views sec_info with
  | Some [phy; root; ts; lk; li; _; _], Some info =>
      (phy =? sum r_phy) && (root =? sum r_root) && (ts =? sum r_ts) && (lk =? sum r_lock) && (li =? sum r_link) &&
      list_eqb N.eqb info (flat_map (fun r => [r_size r; r_objects r]) rs)
  | _, _ => false
  end.

(* sections the reference has an opinion on; returns the failing ones *)
Definition ref_obs (s : state) (v : list (list N)) : list nat :=
  let sec i := match nth_error v i with Some l => l | None => [] end in
  (if ref_counters_ok s v then [] else [sec_total]) ++
  (if ref_status_section s (epoch s) false (sec sec_exists) then [] else [sec_exists]) ++
  (if ref_status_section s 0 false (sec sec_existsi) then [] else [sec_existsi]) ++
  (if ref_status_section s (epoch s) true (sec sec_get) then [] else [sec_get]) ++
  (if ref_status_section s (epoch s) true (sec sec_getraw) then [] else [sec_getraw]) ++
  (if ref_locked_section s (sec sec_locked) then [] else [sec_locked]) ++
  (if ref_search_section s (sec sec_search) then [] else [sec_search]) ++
  (if ref_ec_section s (sec sec_ec) then [] else [sec_ec]) ++
  (if ref_list_section s (sec sec_list) then [] else [sec_list]) ++
  (if ref_pages_section s (sec sec_pages) then [] else [sec_pages]) ++
  (if ref_expired_section s (sec sec_expired) then [] else [sec_expired]).

(* failing sections after ignoring addresses of the known class of C01 *)
Definition ref_obs_masked (s : state) (v : list (list N)) : list nat :=
  let sec i := match nth_error v i with Some l => l | None => [] end in
  (if ref_status_section_m s (epoch s) false (sec sec_exists) then [] else [sec_exists]) ++
  (if ref_status_section_m s 0 false (sec sec_existsi) then [] else [sec_existsi]) ++
  (if ref_status_section_m s (epoch s) true (sec sec_get) then [] else [sec_get]) ++
  (if ref_status_section_m s (epoch s) true (sec sec_getraw) then [] else [sec_getraw]) ++
  (if ref_search_section_m s (sec sec_search) then [] else [sec_search]) ++
  (if ref_ec_section_m s (sec sec_ec) then [] else [sec_ec]).

(* pass 1: reference rules against the views of the model state.  Where the
   digests agree these are the dumped state and the views the implementation
   reported. *)
Fixpoint ref_hist (h k : nat) (s : state) (l : hist) : list N :=
  match l with
  | [] => []
  | st :: r =>
      let s' := fst (step s (sc_op st)) in
      (match sc_obs st with
       | None => []
       | Some _ => map (code h k) (ref_obs s' (model_views s'))
       end) ++ ref_hist h (S k) s' r
  end.

Definition ref_mismatches (cases : list hist) : list N :=
  mism_from (fun i h => ref_hist i 0 state0 h) 0 cases.

(* model and reference comparison in one replay; reference codes are offset by 50 *)
Fixpoint both_hist (h k : nat) (s : state) (l : hist) : list N :=
  match l with
  | [] => []
  | st :: r =>
      let '(s', res) := step s (sc_op st) in
      (if list_eqb Z.eqb res (sc_res st) then [] else [code h k sec_result]) ++
      (match sc_obs st with
       | None => []
       | Some d =>
           let v := model_views s' in
           (if digest (enc_state s') v =? d then [] else [code h k sec_digest]) ++
           (let r := ref_obs s' v in
            map (fun sec => code h k (50 + sec)) r ++
            match r with [] => [] | _ => map (fun sec => code h k (70 + sec)) (ref_obs_masked s' v) end)
       end) ++
      both_hist h (S k) s' r
  end.
(* code 90 + reason at the first operation outside the C02 fragment *)
Definition unclean_code (h : nat) (l : hist) : list N :=
  match first_unclean 0 state0 (map sc_op l) with
  | Some (k, r) => [code h k (90 + N.to_nat r)]
  | None => []
  end.
Definition both_mismatches (cases : list hist) : list N :=
  mism_from (fun i h => both_hist i 0 state0 h ++ unclean_code i h) 0 cases.

(* pass 2 (diagnosis of a failing step): operations up to the step, the dumped
   state (enc_state encoding) and the reported sections in full. *)
Record fullc := mkFull { fc_ops : list op; fc_state : list N; fc_views : list (list N) }.

Definition full_model (i : nat) (f : fullc) : list N :=
  let s := run (fc_ops f) in
  (if list_eqb N.eqb (enc_state s) (fc_state f) then [] else [code i 0 sec_state]) ++
  map (code i 0) (diff_sections 0 (model_views s) (fc_views f)).
Definition full_ref (i : nat) (f : fullc) : list N :=
  map (code i 0) (ref_obs (dec_state (fc_state f)) (fc_views f)).
Definition full_ref_masked (i : nat) (f : fullc) : list N :=
  map (code i 0) (ref_obs_masked (dec_state (fc_state f)) (fc_views f)).
Definition full_ref_masked_mismatches (l : list fullc) : list N := mism_from full_ref_masked 0 l.
Definition full_model_mismatches (l : list fullc) : list N := mism_from full_model 0 l.
Definition full_ref_mismatches (l : list fullc) : list N := mism_from full_ref 0 l.
