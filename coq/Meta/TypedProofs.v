(* C02, first sentence: the per-type counters equal the number of such indexed
   objects after every history of the clean fragment. *)
From Coq Require Import List NArith ZArith Bool Lia.
Import ListNotations.
From NV Require Import Base.U64 Gen.MetaConsts Meta.SMap Meta.SMapProofs Meta.Model Meta.Spec
     Meta.StatusProofs Meta.WfProofs.
Local Open Scope N_scope.

Definition b2 (b : bool) : N := if b then 1 else 0.
Definition cnt_p (p : entry -> bool) (m : smap entry) : N :=
  N.of_nat (length (filter (fun kv => p (snd kv)) m)).

Lemma count_objs_cnt p b : count_objs p b = cnt_p p (objs b).
Proof. reflexivity. Qed.

Lemma cnt_p_cons p k e m : cnt_p p ((k, e) :: m) = b2 (p e) + cnt_p p m.
Proof. unfold cnt_p. simpl. destruct (p e); simpl length; rewrite ?Nat2N.inj_succ; simpl b2; lia. Qed.

Lemma cnt_p_put_fresh p k e m : sm_get k m = None -> cnt_p p (sm_put k e m) = cnt_p p m + b2 (p e).
Proof.
  induction m as [|[k' v'] r IH]; simpl; intros H.
  - rewrite cnt_p_cons. unfold cnt_p; simpl. lia.
  - destruct (k =? k'); [discriminate|]. destruct (k <? k').
    + rewrite !cnt_p_cons. lia.
    + rewrite !cnt_p_cons, IH; auto. lia.
Qed.

Lemma cnt_p_del p k e m : sm_get k m = Some e -> cnt_p p m = cnt_p p (sm_del k m) + b2 (p e).
Proof.
  induction m as [|[k' v'] r IH]; simpl; intros H; [discriminate|].
  destruct (k =? k').
  - inversion H; subst. rewrite cnt_p_cons. lia.
  - destruct (k <? k'); [discriminate|]. rewrite !cnt_p_cons, (IH H). lia.
Qed.

Lemma sm_del_none {A} k (m : smap A) : sm_get k m = None -> sm_del k m = m.
Proof.
  induction m as [|[k' v'] r IH]; simpl; intros H; auto.
  destruct (k =? k'); [discriminate|]. destruct (k <? k'); auto. now rewrite IH.
Qed.

Lemma cnt_p_le p m : cnt_p p m <= N.of_nat (length m).
Proof.
  induction m as [|[k e] r IH]; [unfold cnt_p; simpl; lia|].
  rewrite cnt_p_cons. simpl length. rewrite Nat2N.inj_succ. destruct (p e); simpl b2; lia.
Qed.

Lemma length_put_fresh {A} k (e : A) m : sm_get k m = None -> length (sm_put k e m) = S (length m).
Proof.
  induction m as [|[k' v'] r IH]; simpl; intros H; auto.
  destruct (k =? k'); [discriminate|]. destruct (k <? k'); simpl; auto.
Qed.

(* ---- buckets of the clean fragment: every stored header is simple and physical *)
Definition SInv (b : cstate) : Prop :=
  forall k e, In (k, e) (objs b) ->
    e_phy e = true /\ simple_hdr (e_hdr e) = true /\ e_root e = is_type TRegular e.

Lemma simple_fields h : simple_hdr h = true ->
  h_parent h = None /\ h_first h = None /\ h_split h = None /\ h_ecr h = None /\ h_eci h = None.
Proof.
  unfold simple_hdr. destruct (h_parent h), (h_first h), (h_split h), (h_ecr h), (h_eci h); try discriminate; auto.
Qed.

Lemma sinv_children b x : SInv b -> children_of b x = [].
Proof.
  intros S. unfold children_of.
  assert (H : forall l, (forall k e, In (k, e) l -> h_parent (e_hdr e) = None) ->
                        filter (fun kv : oid * entry => opt_eqb (h_parent (e_hdr (snd kv))) (Some x)) l = []).
  { induction l as [|[k e] r IH]; intros Hl; simpl; auto.
    rewrite (Hl k e (or_introl eq_refl)). simpl. apply IH. intros k' e' Hin. eapply Hl; right; eauto. }
  apply H. intros k e Hin. destruct (S k e Hin) as (_ & Hs & _). now destruct (simple_fields _ Hs).
Qed.

Lemma sinv_parent_info b x : SInv b -> parent_info b x = PNone.
Proof. intros S. unfold parent_info. now rewrite (sinv_children b x S). Qed.

Lemma sinv_collect b x f : SInv b -> collect_children f b x = [].
Proof. intros S. destruct f; simpl; auto. now rewrite (sinv_parent_info b x S). Qed.

Lemma sinv_find_parent b id : wfc b -> SInv b -> find_parent b id = None.
Proof.
  intros W S. unfold find_parent. destruct (get_entry b id) as [e|] eqn:E; auto.
  unfold get_entry in E. apply sm_get_some_in in E. destruct (S id e E) as (_ & Hs & _).
  destruct (simple_fields _ Hs) as (H1 & H2 & H3 & _). now rewrite H1, H2, H3.
Qed.

Lemma sinv_status b id cur n : wfc b -> SInv b -> status_n n b id cur = status_direct b id cur.
Proof.
  intros W S. destruct n; simpl; rewrite (sinv_find_parent b id W S);
    destruct ((status_direct b id cur =? st_available) || (status_direct b id cur =? st_gc_marked)); reflexivity.
Qed.

(* status of an ID without mark and tombstone *)
Lemma clean_status b id cur : wfc b -> SInv b -> any_mark b id = false -> tombstoned b id = false ->
  object_status b id cur = st_available \/ object_status b id cur = st_expired.
Proof.
  intros W S M T. unfold object_status. rewrite (sinv_status b id cur _ W S).
  unfold status_direct. rewrite (in_garbage_spec b id W), T.
  assert (Hm : marked b id = false).
  { unfold marked. unfold any_mark, sm_mem in M. destruct (sm_get id (garb b)); [discriminate|reflexivity]. }
  rewrite Hm. destruct (is_expired b id cur); destruct (object_locked cur b id); simpl; auto.
Qed.

(* ---- counters: only the typed part matters here *)
Definition typed (n : counters) : N * N * N * N * N := (c_phy n, c_root n, c_ts n, c_lock n, c_link n).
Definition dtyped (d : cdiff) : Z * Z * Z * Z * Z := (d_phy d, d_root d, d_ts d, d_lock d, d_link d).

Lemma typed_apply n n' d d' : typed n = typed n' -> dtyped d = dtyped d' ->
  typed (apply_diff n d) = typed (apply_diff n' d').
Proof. unfold typed, dtyped, apply_diff. simpl. intros H1 H2. inversion H1; inversion H2. congruence. Qed.

(* the tombstone loop and the mark loop touch garbage keys only *)
Lemma ts_loop_same cur ids : forall b i p,
  let r := fst (fst (ts_loop cur b ids i p)) in objs r = objs b /\ cgc r = cgc b /\ cnt r = cnt b.
Proof.
  induction ids as [|id r IH]; intros b i p; simpl; auto.
  destruct (get_raw_ok b id); simpl;
    match goal with |- context [ts_loop cur ?b' r ?i' ?p'] => destruct (IH b' i' p') as (H1 & H2 & H3) end;
    simpl in *; rewrite H1, H2, H3; auto.
Qed.

Lemma mark_loop_same ids m : forall b ng pay,
  let r := fst (fst (mark_loop b ids m ng pay)) in objs r = objs b /\ cgc r = cgc b /\ cnt r = cnt b.
Proof.
  induction ids as [|id r IH]; intros b ng pay; simpl; auto.
  destruct (sm_get id (garb b)) as [old|]; simpl.
  - match goal with |- context [mark_loop ?b' r m ng pay] => destruct (IH b' ng pay) as (H1 & H2 & H3) end.
    simpl in *. rewrite H1, H2, H3. destruct m, old; auto.
  - match goal with |- context [mark_loop ?b' r m ?n' ?p'] => destruct (IH b' n' p') as (H1 & H2 & H3) end.
    simpl in *. rewrite H1, H2, H3. auto.
Qed.

Definition dtyp (t : otype) : Z * Z * Z * Z * Z :=
  (1, if otype_eqb t TRegular then 1 else 0, if otype_eqb t TTombstone then 1 else 0,
   if otype_eqb t TLock then 1 else 0, if otype_eqb t TLink then 1 else 0)%Z.

Lemma handle_assoc_ok cur b d0 o b2 d :
  (h_typ (o_hdr o) = TTombstone \/ h_typ (o_hdr o) = TLock) ->
  dtyped d0 = (0, 0, 0, 0, 0)%Z ->
  handle_assoc cur b d0 o = (b2, d, EOk) ->
  objs b2 = objs b /\ cgc b2 = cgc b /\ cnt b2 = cnt b /\ dtyped d = dtyp (h_typ (o_hdr o)).
Proof.
  intros Ht Hd. unfold handle_assoc.
  assert (PRTLK : d_phy d0 = 0%Z /\ d_root d0 = 0%Z /\ d_ts d0 = 0%Z /\ d_lock d0 = 0%Z /\ d_link d0 = 0%Z)
    by (unfold dtyped in Hd; inversion Hd; repeat split; congruence).
  destruct PRTLK as (P & R & T & L & K).
  destruct (h_assoc (o_hdr o)) as [x|]; [|discriminate].
  destruct Ht as [Ht|Ht]; rewrite Ht.
  - assert (G : forall ids, (let '(c', inh, pay) := ts_loop cur b ids 0%Z (d_payload d0) in
                  (c', mkDiff (d_phy d0 + 1) (d_root d0) (d_ts d0 + 1) (d_lock d0) (d_link d0) (d_gc d0 + inh) pay, EOk)) = (b2, d, EOk) ->
                 objs b2 = objs b /\ cgc b2 = cgc b /\ cnt b2 = cnt b /\ dtyped d = dtyp TTombstone).
    { intros ids. pose proof (ts_loop_same cur ids b 0%Z (d_payload d0)) as S.
      destruct (ts_loop cur b ids 0%Z (d_payload d0)) as [[c' inh] pay]. simpl in S.
      intros E. inversion E; subst. destruct S as (S1 & S2 & S3). repeat split; auto.
      unfold dtyped, dtyp. simpl. rewrite P, R, T, L, K. reflexivity. }
    destruct (type_of b x) as [[| | |]|]; try discriminate;
      (destruct (object_locked cur b x); [discriminate|apply G]).
  - destruct (type_of b x) as [[| | |]|]; try discriminate;
      (destruct ((object_status b x cur =? st_tombstoned) || (in_garbage b x =? st_tombstoned)); [discriminate|]);
      intros E; inversion E; subst; repeat split; auto;
      unfold dtyped, dtyp; simpl; rewrite P, R, T, L, K; reflexivity.
Qed.

(* Put of a simple object on a clean ID: either nothing changes or a fresh physical entry
   is added and the typed counters move by the object's type *)
Lemma put_simple cur b o b' d :
  wfc b -> SInv b -> simple_obj o = true -> any_mark b (o_id o) = false -> tombstoned b (o_id o) = false ->
  put_top cur b o = (b', d, EOk) ->
  b' = b \/
  (sm_get (o_id o) (objs b) = None /\ cgc b = false /\ cgc b' = false /\
   objs b' = sm_put (o_id o) (mkEntry (o_hdr o) true (otype_eqb (h_typ (o_hdr o)) TRegular)) (objs b) /\
   exists d', dtyped d' = dtyp (h_typ (o_hdr o)) /\ typed (cnt b') = typed (apply_diff (cnt b) d')).
Proof.
  intros W S So M T. unfold put_top, max_nesting. simpl put_obj.
  unfold simple_obj in So. apply andb_true_iff in So as [Sh Sp].
  destruct (o_par o) eqn:Par; [discriminate|].
  destruct (cgc b) eqn:G; [discriminate|].
  destruct (clean_status b (o_id o) cur W S M T) as [St|St]; rewrite St.
  2:{ replace (st_expired =? st_tombstoned) with false by reflexivity.
      replace (st_expired =? st_expired) with true by reflexivity. discriminate. }
  replace (st_available =? st_tombstoned) with false by reflexivity.
  replace (st_available =? st_expired) with false by reflexivity.
  replace (st_available =? st_available) with true by reflexivity. simpl andb.
  unfold stored, sm_mem. destruct (sm_get (o_id o) (objs b)) eqn:Get.
  { intros E; inversion E; subst. now left. }
  assert (Hpm : forall c2, objs c2 = objs b -> cgc c2 = cgc b ->
            objs (put_metadata c2 o true) = sm_put (o_id o) (mkEntry (o_hdr o) true (otype_eqb (h_typ (o_hdr o)) TRegular)) (objs b)
            /\ cgc (put_metadata c2 o true) = false /\ cnt (put_metadata c2 o true) = cnt c2).
  { intros c2 H1 H2. unfold put_metadata, get_entry. rewrite H1, Get. simpl. rewrite H2, G.
    repeat split; auto. unfold has_parent_hdr. rewrite Par.
    destruct (simple_fields _ Sh) as (F1 & F2 & F3 & _). rewrite F1, F2, F3. reflexivity. }
  destruct (h_typ (o_hdr o)) eqn:Ty.
  - (* regular *)
    intros E; inversion E; subst. right.
    match goal with |- context [put_metadata ?c2 o true] => destruct (Hpm c2 eq_refl eq_refl) as (P1 & P2 & P3) end.
    repeat split; auto. eexists. split; [|rewrite P3; simpl cnt; apply typed_apply; [reflexivity|reflexivity]].
    unfold dtyped, dtyp, has_parent_hdr. rewrite Par.
    destruct (simple_fields _ Sh) as (F1 & F2 & F3 & _). rewrite F1, F2, F3. reflexivity.
  - (* tombstone *)
    destruct (handle_assoc cur b (mkDiff 0 0 0 0 0 0 (Z.of_N (h_size (o_hdr o)))) o) as [[c2 d2] e2] eqn:HA.
    destruct e2; try discriminate.
    destruct (handle_assoc_ok cur b (mkDiff 0 0 0 0 0 0 (Z.of_N (h_size (o_hdr o)))) o c2 d2 (or_introl Ty) eq_refl HA) as (A1 & A2 & A3 & A4).
    intros E; inversion E; subst. right.
    destruct (Hpm (set_cnt c2 (apply_diff (cnt c2) d)) A1 A2) as (P1 & P2 & P3).
    repeat split; auto. exists d. split; [now rewrite A4, Ty|]. rewrite P3. simpl. now rewrite A3.
  - (* lock *)
    destruct (handle_assoc cur b (mkDiff 0 0 0 0 0 0 (Z.of_N (h_size (o_hdr o)))) o) as [[c2 d2] e2] eqn:HA.
    destruct e2; try discriminate.
    destruct (handle_assoc_ok cur b (mkDiff 0 0 0 0 0 0 (Z.of_N (h_size (o_hdr o)))) o c2 d2 (or_intror Ty) eq_refl HA) as (A1 & A2 & A3 & A4).
    intros E; inversion E; subst. right.
    destruct (Hpm (set_cnt c2 (apply_diff (cnt c2) d)) A1 A2) as (P1 & P2 & P3).
    repeat split; auto. exists d. split; [now rewrite A4, Ty|]. rewrite P3. simpl. now rewrite A3.
  - (* link *)
    intros E; inversion E; subst. right.
    match goal with |- context [put_metadata ?c2 o true] => destruct (Hpm c2 eq_refl eq_refl) as (P1 & P2 & P3) end.
    repeat split; auto. eexists. split; [|rewrite P3; simpl cnt; apply typed_apply; [reflexivity|reflexivity]].
    reflexivity.
Qed.

(* ---- delete *)
Definition bz (b : bool) : Z := if b then (-1)%Z else 0%Z.

Lemma dm_simple f b id :
  wfc b -> SInv b ->
  let r := delete_metadata (S f) b id false in
  cgc (fst r) = cgc b /\ cnt (fst r) = cnt b /\
  match sm_get id (objs b) with
  | Some e => objs (fst r) = sm_del id (objs b) /\
              dtyped (snd r) = (-1, bz (e_root e), bz (is_type TTombstone e), bz (is_type TLock e), bz (is_type TLink e))%Z
  | None => objs (fst r) = objs b /\ dtyped (snd r) = (0, 0, 0, 0, 0)%Z
  end.
Proof.
  intros W S. simpl. unfold get_entry. destruct (sm_get id (objs b)) as [e|] eqn:G.
  - destruct (S id e (sm_get_some_in _ _ _ G)) as (Hp & Hs & Hr).
    rewrite Hp. simpl. destruct (simple_fields _ Hs) as (F1 & _). rewrite F1. simpl.
    repeat split; auto.
    unfold dtyped, is_type in *. rewrite Hr.
    destruct (sm_mem id (garb b)); destruct (h_typ (e_hdr e)); reflexivity.
  - destruct (sm_mem id (garb b)); simpl; auto.
Qed.

Local Opaque delete_metadata.

Lemma sinv_del b id : SInv b -> forall b', objs b' = sm_del id (objs b) -> SInv b'.
Proof. intros S b' E k e Hin. rewrite E in Hin. apply sm_del_in in Hin. exact (S k e Hin). Qed.

Definition ceq (p : entry -> bool) (z : Z) (m0 m : smap entry) : Prop :=
  (z <= 0)%Z /\ cnt_p p m0 = cnt_p p m + Z.to_N (- z).

Definition DRel (m0 m : smap entry) (d : cdiff) : Prop :=
  ceq e_phy (d_phy d) m0 m /\ ceq e_root (d_root d) m0 m /\ ceq (is_type TTombstone) (d_ts d) m0 m /\
  ceq (is_type TLock) (d_lock d) m0 m /\ ceq (is_type TLink) (d_link d) m0 m.

Lemma ceq_step p z m0 m id e : ceq p z m0 m -> sm_get id m = Some e ->
  ceq p (z + bz (p e)) m0 (sm_del id m).
Proof.
  intros [Hz He] G. unfold ceq. rewrite He, (cnt_p_del p id e m G).
  destruct (p e); simpl bz; simpl b2; split; try lia.
Qed.

Lemma delete_loop_rel ids : forall b d m0,
  wfc b -> SInv b -> DRel m0 (objs b) d ->
  let r := delete_loop b ids d in
  wfc (fst r) /\ SInv (fst r) /\ cgc (fst r) = cgc b /\ cnt (fst r) = cnt b /\ DRel m0 (objs (fst r)) (snd r).
Proof.
  induction ids as [|id r IH]; intros b d m0 W Sv R; simpl; auto.
  unfold dm_fuel. pose proof (dm_simple (S (length (objs b))) b id W Sv) as H.
  pose proof (wfc_delete_metadata (S (S (length (objs b)))) b id false W) as W'.
  destruct (delete_metadata (S (S (length (objs b)))) b id false) as [b' d'] eqn:E. simpl in H, W'.
  destruct H as (H1 & H2 & H3).
  assert (S' : SInv b' /\ DRel m0 (objs b') (diff_add d d')).
  { destruct (sm_get id (objs b)) as [e|] eqn:G.
    - destruct H3 as (H3 & H4). split; [eapply sinv_del; eauto|].
      destruct (Sv id e (sm_get_some_in _ _ _ G)) as (Hp & _ & _).
      unfold dtyped in H4. inversion H4 as [[D1 D2 D3 D4 D5]].
      destruct R as (R1 & R2 & R3 & R4 & R5). rewrite H3. unfold DRel, diff_add. simpl.
      rewrite D1, D2, D3, D4, D5.
      replace (-1)%Z with (bz (e_phy e)) by (rewrite Hp; reflexivity).
      split; [apply ceq_step; assumption|].
      split; [apply ceq_step; assumption|].
      split; [apply ceq_step; assumption|].
      split; apply ceq_step; assumption.
    - destruct H3 as (H3 & H4). split; [intros k e Hin; rewrite H3 in Hin; exact (Sv k e Hin)|].
      assert (DD : d_phy d' = 0%Z /\ d_root d' = 0%Z /\ d_ts d' = 0%Z /\ d_lock d' = 0%Z /\ d_link d' = 0%Z)
        by (unfold dtyped in H4; inversion H4; repeat split; congruence).
      destruct DD as (D1 & D2 & D3 & D4 & D5).
      destruct R as (R1 & R2 & R3 & R4 & R5). rewrite H3. unfold DRel, diff_add. simpl.
      rewrite D1, D2, D3, D4, D5, !Z.add_0_r.
      split; [exact R1|split; [exact R2|split; [exact R3|split; [exact R4|exact R5]]]]. }
  destruct S' as [S' R'].
  destruct (IH b' (diff_add d d') m0 W' S' R') as (I1 & I2 & I3 & I4 & I5).
  split; [exact I1|split; [exact I2|split; [congruence|split; [congruence|exact I5]]]].
Qed.

Lemma upd_neg c c' z : c < two64 -> (z <= 0)%Z -> c = c' + Z.to_N (- z) -> upd_counter c z = c'.
Proof.
  intros Hc Hz E. unfold upd_counter. destruct (0 <=? z)%Z eqn:Z0.
  - apply Z.leb_le in Z0. assert (z = 0%Z) by lia. subst z. simpl in *. unfold add64.
    rewrite N.add_0_r in *. rewrite wrap64_small; lia.
  - apply Z.leb_gt in Z0. lia.
Qed.

Lemma upd_zero z : (z <= 0)%Z -> upd_counter 0 z = 0.
Proof.
  intros Hz. unfold upd_counter. destruct (0 <=? z)%Z eqn:Z0.
  - apply Z.leb_le in Z0. assert (z = 0%Z) by lia. subst. reflexivity.
  - reflexivity.
Qed.

(* ---- the per-bucket invariant of the typed counters *)
Definition typed_cnt (m : smap entry) : N * N * N * N * N :=
  (cnt_p e_phy m, cnt_p e_root m, cnt_p (is_type TTombstone) m, cnt_p (is_type TLock) m, cnt_p (is_type TLink) m).

Definition TInv (b : cstate) : Prop :=
  wfc b /\ SInv b /\ typed (cnt b) = if cgc b then (0, 0, 0, 0, 0) else typed_cnt (objs b).

Definition small (b : cstate) : Prop := N.of_nat (length (objs b)) < two64.

Lemma t5 {A B C D E} (a a' : A) (b b' : B) (c c' : C) (d d' : D) (e e' : E) :
  (a, b, c, d, e) = (a', b', c', d', e') -> a = a' /\ b = b' /\ c = c' /\ d = d' /\ e = e'.
Proof. intros H. inversion H. auto. Qed.

Lemma upd_add c z k : z = Z.of_N k -> c + k < two64 -> upd_counter c z = c + k.
Proof.
  intros -> H. unfold upd_counter. replace (0 <=? Z.of_N k)%Z with true by (symmetry; apply Z.leb_le; lia).
  rewrite N2Z.id. unfold add64. apply wrap64_small. exact H.
Qed.

Lemma tinv_typed_ok b : TInv b -> typed_ok b = true.
Proof.
  intros (_ & _ & H). unfold typed_ok, recount. unfold typed in H.
  destruct (cgc b); apply t5 in H; destruct H as (H1 & H2 & H3 & H4 & H5); simpl;
    rewrite H1, H2, H3, H4, H5, ?N.eqb_refl; reflexivity.
Qed.

Lemma T_put cur b o b' d :
  TInv b -> simple_obj o = true -> any_mark b (o_id o) = false -> tombstoned b (o_id o) = false ->
  put_top cur b o = (b', d, EOk) -> small b' -> TInv b'.
Proof.
  intros (W & Sv & Ht) So M T E Sm.
  pose proof (wfc_put_obj max_nesting true cur b o W) as W'. unfold put_top in E. rewrite E in W'. simpl in W'.
  destruct (put_simple cur b o b' d W Sv So M T E) as [->|(G & C & C' & O & d' & D1 & D2)].
  { split; [exact W|split; [exact Sv|exact Ht]]. }
  assert (So' := So). unfold simple_obj in So'. apply andb_true_iff in So' as [Sh _].
  split; [exact W'|]. split.
  - intros k e Hin. rewrite O in Hin. apply sm_put_in in Hin as [Eq|Hin]; [|exact (Sv k e Hin)].
    inversion Eq; subst. simpl. repeat split; auto.
  - rewrite C'. rewrite C in Ht. rewrite D2. unfold typed, apply_diff. simpl.
    unfold typed in Ht. apply t5 in Ht. destruct Ht as (H1 & H2 & H3 & H4 & H5).
    unfold dtyped in D1. unfold small in Sm. rewrite O, (length_put_fresh _ _ _ G), Nat2N.inj_succ in Sm.
    unfold typed_cnt. rewrite O, !(cnt_p_put_fresh _ _ _ _ G). rewrite H1, H2, H3, H4, H5.
    pose proof (cnt_p_le e_phy (objs b)). pose proof (cnt_p_le e_root (objs b)).
    pose proof (cnt_p_le (is_type TTombstone) (objs b)). pose proof (cnt_p_le (is_type TLock) (objs b)).
    pose proof (cnt_p_le (is_type TLink) (objs b)).
    unfold dtyp in D1. unfold is_type. simpl e_phy. simpl e_root. simpl e_hdr.
    destruct (h_typ (o_hdr o)); simpl in D1; apply t5 in D1; destruct D1 as (E1 & E2 & E3 & E4 & E5);
      rewrite E1, E2, E3, E4, E5; simpl otype_eqb; simpl b2;
      repeat (f_equal; try (apply upd_add; [reflexivity|lia])).
  all: apply upd_add; [reflexivity|unfold is_type in *; lia].
Qed.

Lemma tinv_same b b' : TInv b -> wfc b' -> objs b' = objs b -> cgc b' = cgc b ->
  typed (cnt b') = typed (cnt b) -> TInv b'.
Proof.
  intros (W & Sv & Ht) W' O C T. split; [exact W'|]. split.
  - intros k e Hin. rewrite O in Hin. exact (Sv k e Hin).
  - rewrite T, C, O. exact Ht.
Qed.

Lemma ceq_refl p m : ceq p 0 m m.
Proof. split; [lia|]. simpl. lia. Qed.

Lemma drel_refl m : DRel m m diff0.
Proof. repeat split; simpl; try lia. Qed.

Lemma tinv_del b b'' c' d :
  TInv b -> small b -> wfc b'' -> objs b'' = objs c' -> cgc b'' = cgc b ->
  SInv c' -> DRel (objs b) (objs c') d ->
  typed (cnt b'') = typed (apply_diff (cnt b) d) -> TInv b''.
Proof.
  intros (W & Sv & Ht) Sm W'' O C Sub (R1 & R2 & R3 & R4 & R5) T.
  split; [exact W''|]. split.
  - intros k e Hin. rewrite O in Hin. exact (Sub k e Hin).
  - rewrite T, C, O. unfold typed, apply_diff. simpl. unfold typed in Ht.
    unfold small in Sm.
    pose proof (cnt_p_le e_phy (objs b)) as L1. pose proof (cnt_p_le e_root (objs b)) as L2.
    pose proof (cnt_p_le (is_type TTombstone) (objs b)) as L3. pose proof (cnt_p_le (is_type TLock) (objs b)) as L4.
    pose proof (cnt_p_le (is_type TLink) (objs b)) as L5.
    destruct R1 as [Z1 E1], R2 as [Z2 E2], R3 as [Z3 E3], R4 as [Z4 E4], R5 as [Z5 E5].
    destruct (cgc b); apply t5 in Ht; destruct Ht as (H1 & H2 & H3 & H4 & H5); rewrite H1, H2, H3, H4, H5.
    + rewrite !upd_zero by assumption. reflexivity.
    + unfold typed_cnt. repeat f_equal; apply upd_neg; try assumption; lia.
Qed.

Lemma T_mark b ids m : TInv b -> TInv (fst (fst (mark_garbage b ids m))).
Proof.
  intros T. pose proof (wfc_mark_garbage b ids m (proj1 T)) as W'. unfold mark_garbage in *.
  pose proof (mark_loop_same (flat_map (fun id => id :: collect_children (cc_fuel b) b id) ids) m b 0%Z 0%Z) as H.
  destruct (mark_loop b _ m 0%Z 0%Z) as [[c' ng] pay]. simpl in *. destruct H as (H1 & H2 & H3).
  apply (tinv_same b); auto. simpl. rewrite H3. reflexivity.
Qed.

Lemma T_inhume b : TInv b -> TInv (fst (inhume_container b)).
Proof.
  intros (W & Sv & Ht). pose proof (wfc_inhume b W) as W'. simpl in *.
  split; [exact W'|]. split; [exact Sv|reflexivity].
Qed.

Lemma T_delete b ids : TInv b -> small b -> TInv (fst (fst (delete_group b ids))).
Proof.
  intros T Sm. pose proof (wfc_delete_group b ids (proj1 T)) as W'. unfold delete_group in *.
  destruct T as (W & Sv & Ht).
  pose proof (delete_loop_rel (supplement b ids) b diff0 (objs b) W Sv (drel_refl _)) as H.
  destruct (delete_loop b (supplement b ids) diff0) as [c' d]. simpl in *.
  destruct H as (I1 & I2 & I3 & I4 & I5).
  apply (tinv_del b _ c' d); auto.
  - split; [exact W|split; [exact Sv|exact Ht]].
  - simpl. rewrite I4. reflexivity.
Qed.

Lemma dm_rel b t :
  wfc b -> SInv b ->
  let r := delete_metadata (dm_fuel b) b t false in
  wfc (fst r) /\ SInv (fst r) /\ cgc (fst r) = cgc b /\ cnt (fst r) = cnt b /\ DRel (objs b) (objs (fst r)) (snd r).
Proof.
  intros W Sv. pose proof (delete_loop_rel [t] b diff0 (objs b) W Sv (drel_refl _)) as H. simpl in H.
  destruct (delete_metadata (dm_fuel b) b t false) as [c' d']. simpl in *.
  destruct H as (I1 & I2 & I3 & I4 & (R1 & R2 & R3 & R4 & R5)).
  repeat (split; [assumption|]). unfold DRel, diff_add in *. simpl in *. auto.
Qed.

Lemma T_revive b id : TInv b -> small b -> TInv (fst (revive b id)).
Proof.
  intros T Sm. pose proof (wfc_revive b id (proj1 T)) as W'. unfold revive in *.
  destruct (cgc b) eqn:C; [exact T|].
  destruct (in_garbage b id =? st_available); [exact T|].
  destruct (in_garbage b id =? st_tombstoned).
  - destruct (assoc_typed 0 b id TTombstone) as [t|].
    + destruct T as (W & Sv & Ht).
      pose proof (dm_rel b t W Sv) as H.
      destruct (delete_metadata (dm_fuel b) b t false) as [c' d']. simpl in *.
      destruct H as (I1 & I2 & I3 & I4 & I5).
      apply (tinv_del b _ c' d'); auto.
      * split; [exact W|split; [exact Sv|exact Ht]].
      * unfold revive_counters. simpl. destruct (get_entry _ id); reflexivity.
      * unfold revive_counters. simpl. destruct (get_entry _ id); simpl; congruence.
      * unfold revive_counters. simpl. destruct (get_entry _ id); simpl; rewrite I4; reflexivity.
    + simpl in *. apply (tinv_same b); auto.
      * unfold revive_counters. simpl. destruct (get_entry _ id); reflexivity.
      * unfold revive_counters. simpl. destruct (get_entry _ id); reflexivity.
      * unfold revive_counters. simpl. destruct (get_entry _ id); reflexivity.
  - simpl in *. apply (tinv_same b); auto.
    + unfold revive_counters. simpl. destruct (get_entry _ id); reflexivity.
    + unfold revive_counters. simpl. destruct (get_entry _ id); reflexivity.
    + unfold revive_counters. simpl. destruct (get_entry _ id); reflexivity.
Qed.

(* ---- whole states and histories *)
Definition TInvS (s : state) : Prop := wf_state s /\ forall c b, In (c, b) (cnrs s) -> TInv b.

Lemma tinv_cstate0 : TInv cstate0.
Proof. split; [apply wfc_cstate0|]. split; [intros k e []|reflexivity]. Qed.

Lemma tinvs_bucket_or_new s c : TInvS s -> TInv (bucket_or_new s c).
Proof.
  intros [W H]. unfold bucket_or_new, bucket. destruct (sm_get c (cnrs s)) eqn:E; [|apply tinv_cstate0].
  apply (H c). now apply sm_get_some_in.
Qed.

Lemma tinvs_set s c b : TInvS s -> TInv b -> TInvS (set_bucket s c b).
Proof.
  intros [W H] T. split; [apply wf_set_bucket; [exact W|exact (proj1 T)]|].
  intros c' b' Hin. simpl in Hin. apply sm_put_in in Hin as [E|Hin]; [inversion E; subst; exact T|exact (H c' b' Hin)].
Qed.

Lemma fits_small s c b : fits s = true -> In (c, b) (cnrs s) -> small b.
Proof.
  unfold fits. rewrite forallb_forall. intros H Hin. specialize (H (c, b) Hin). simpl in H.
  apply N.ltb_lt in H. unfold small, two64. lia.
Qed.

Lemma in_set_bucket s c b : In (c, b) (cnrs (set_bucket s c b)).
Proof. simpl. apply sm_get_some_in. apply sm_get_put_eq. Qed.

Definition is_batch (o : op) : bool := match o with OBatch _ => true | _ => false end.

Lemma unclean_put_0 b o : unclean_put b o = 0 ->
  simple_obj o = true /\ any_mark b (o_id o) = false /\ tombstoned b (o_id o) = false.
Proof.
  unfold unclean_put. destruct (simple_obj o); simpl; [|discriminate].
  destruct (any_mark b (o_id o)); simpl; [discriminate|].
  destruct (tombstoned b (o_id o)); simpl; [discriminate|]. auto.
Qed.

Lemma T_step s o :
  TInvS s -> fits s = true -> is_batch o = false -> unclean_op s o = 0 ->
  fits (fst (step s o)) = true -> TInvS (fst (step s o)).
Proof.
  intros T F NB U F'. destruct o; simpl in *; try discriminate.
  - (* put *)
    destruct (unclean_put_0 _ _ U) as (U1 & U2 & U3).
    destruct (put_top (epoch s) (bucket_or_new s c) o) as [[b' d] e] eqn:E.
    destruct e; simpl in *; try exact T.
    apply tinvs_set; [exact T|].
    apply (T_put (epoch s) (bucket_or_new s c) o b' d); auto.
    + now apply tinvs_bucket_or_new.
    + eapply fits_small; [exact F'|apply in_set_bucket].
  - (* mark *)
    unfold bucket in *. destruct (sm_get c (cnrs s)) as [b|] eqn:E; simpl; [|exact T].
    destruct (cgc b); simpl; [exact T|].
    pose proof (T_mark b ids m (proj2 T c b (sm_get_some_in _ _ _ E))) as H.
    destruct (mark_garbage b ids m) as [[b' ng] pay]. simpl in *. apply tinvs_set; [exact T|exact H].
  - (* inhume container *)
    apply tinvs_set; [exact T|]. exact (T_inhume (bucket_or_new s c) (tinvs_bucket_or_new s c T)).
  - (* delete *)
    unfold bucket in *. destruct (sm_get c (cnrs s)) as [b|] eqn:E; simpl; [|exact T].
    pose proof (T_delete b ids (proj2 T c b (sm_get_some_in _ _ _ E))
                         (fits_small s c b F (sm_get_some_in _ _ _ E))) as H.
    destruct (delete_group b ids) as [[b' rem] d]. simpl in *. apply tinvs_set; [exact T|exact H].
  - (* revive *)
    unfold bucket in *. destruct (sm_get c (cnrs s)) as [b|] eqn:E; simpl; [|exact T].
    pose proof (T_revive b id (proj2 T c b (sm_get_some_in _ _ _ E))
                         (fits_small s c b F (sm_get_some_in _ _ _ E))) as H.
    destruct (revive b id) as [b' r]. simpl in *. destruct r; simpl; try exact T; (apply tinvs_set; [exact T|exact H]).
  - (* epoch *)
    destruct T as [[W1 W2] H]. split; [split; assumption|exact H].
  - (* delete container *)
    destruct T as [[W1 W2] H]. split.
    + split; simpl; [now apply sm_wf_del|]. intros c' b' Hin. apply sm_del_in in Hin. eapply W2; eauto.
    + intros c' b' Hin. simpl in Hin. apply sm_del_in in Hin. eapply H; eauto.
Qed.

Lemma T_fold h : forall k s,
  TInvS s -> fits s = true -> forallb (fun o => negb (is_batch o)) h = true ->
  first_unclean k s h = None -> TInvS (fold_left (fun s o => fst (step s o)) h s).
Proof.
  induction h as [|o r IH]; intros k s T F NB U; simpl in *; [exact T|].
  apply andb_true_iff in NB as [NB1 NB2]. apply negb_true_iff in NB1.
  destruct (unclean_op s o =? 0) eqn:U0; [|discriminate].
  destruct (fits (fst (step s o))) eqn:F'; [|discriminate].
  apply N.eqb_eq in U0. apply (IH (S k)); auto. now apply T_step.
Qed.

Lemma tinvs_state0 : TInvS state0.
Proof. split; [apply wf_state0|intros c b []]. Qed.

Theorem typed_counters_exact h :
  forallb (fun o => negb (is_batch o)) h = true -> clean_hist h = true ->
  forall c b, In (c, b) (cnrs (run h)) -> typed_ok b = true.
Proof.
  intros NB C c b Hin. unfold clean_hist in C.
  destruct (first_unclean 0 state0 h) eqn:U; [discriminate|].
  pose proof (T_fold h 0%nat state0 tinvs_state0 eq_refl NB U) as [_ H].
  apply tinv_typed_ok. exact (H c b Hin).
Qed.
