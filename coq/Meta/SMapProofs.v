(* Facts about sorted association lists. *)
From Coq Require Import List NArith Bool Lia.
Import ListNotations.
From NV Require Import Meta.SMap.
Local Open Scope N_scope.

Lemma sm_get_some_in {A} k (v : A) m : sm_get k m = Some v -> In (k, v) m.
Proof.
  induction m as [|[k' v'] r IH]; simpl; [discriminate|].
  destruct (k =? k') eqn:E.
  - intros H; inversion H; subst. apply N.eqb_eq in E; subst. now left.
  - destruct (k <? k'); [discriminate|]. intros H. right. now apply IH.
Qed.

Lemma sorted_from_lb {A} lo (m : smap A) k v :
  sm_sorted_from (Some lo) m = true -> In (k, v) m -> lo < k.
Proof.
  revert lo. induction m as [|[k' v'] r IH]; simpl; intros lo H Hin; [contradiction|].
  apply andb_true_iff in H as [H1 H2]. apply N.ltb_lt in H1.
  destruct Hin as [E|Hin].
  - inversion E; subst; assumption.
  - specialize (IH _ H2 Hin). lia.
Qed.

Lemma sorted_from_weaken {A} lo (m : smap A) :
  sm_sorted_from lo m = true -> sm_sorted_from None m = true.
Proof.
  destruct m as [|[k v] r]; simpl; auto. intros H. apply andb_true_iff in H as [_ H]. exact H.
Qed.

Lemma sorted_tail {A} lo k (v : A) r :
  sm_sorted_from lo ((k, v) :: r) = true -> sm_sorted_from (Some k) r = true.
Proof. simpl. intros H. apply andb_true_iff in H as [_ H]. exact H. Qed.

Lemma sm_get_in {A} (m : smap A) k v : sm_wf m = true -> In (k, v) m -> sm_get k m = Some v.
Proof.
  unfold sm_wf. generalize (@None N) as lo.
  induction m as [|[k' v'] r IH]; simpl; intros lo H Hin; [contradiction|].
  apply andb_true_iff in H as [_ H2].
  destruct Hin as [E|Hin].
  - inversion E; subst. now rewrite N.eqb_refl.
  - pose proof (sorted_from_lb _ _ _ _ H2 Hin) as Hlt.
    replace (k =? k') with false by (symmetry; apply N.eqb_neq; lia).
    replace (k <? k') with false by (symmetry; apply N.ltb_ge; lia).
    eapply IH; eauto.
Qed.

Lemma sm_get_iff {A} (m : smap A) k v : sm_wf m = true -> (sm_get k m = Some v <-> In (k, v) m).
Proof. intros H; split; [apply sm_get_some_in | now apply sm_get_in]. Qed.

Lemma sm_wf_tail {A} k (v : A) r : sm_wf ((k, v) :: r) = true -> sm_wf r = true.
Proof. unfold sm_wf. intros H. apply sorted_tail in H. now apply sorted_from_weaken in H. Qed.

Lemma sm_mem_in {A} (m : smap A) k : sm_wf m = true -> (sm_mem k m = true <-> exists v, In (k, v) m).
Proof.
  intros H. unfold sm_mem. split.
  - destruct (sm_get k m) eqn:E; [|discriminate]. intros _. exists a. now apply sm_get_some_in.
  - intros [v Hin]. now rewrite (sm_get_in _ _ _ H Hin).
Qed.

(* sm_put / sm_del keep the list sorted *)
Lemma sorted_put {A} lo k (v : A) m :
  sm_sorted_from lo m = true ->
  (match lo with None => True | Some l => l < k end) ->
  sm_sorted_from lo (sm_put k v m) = true.
Proof.
  revert lo. induction m as [|[k' v'] r IH]; intros lo H Hlo.
  - simpl. destruct lo; simpl; auto. apply andb_true_iff; split; auto. now apply N.ltb_lt.
  - simpl in H. apply andb_true_iff in H as [H1 H2]. simpl.
    destruct (k =? k') eqn:E.
    + apply N.eqb_eq in E; subst. simpl. now rewrite H1, H2.
    + destruct (k <? k') eqn:L.
      * simpl. rewrite L, H2. simpl. destruct lo; simpl; auto.
        apply andb_true_iff; split; auto. now apply N.ltb_lt.
      * simpl. rewrite H1. simpl. apply IH; auto.
        apply N.eqb_neq in E. apply N.ltb_ge in L. lia.
Qed.

Lemma sm_wf_put {A} k (v : A) m : sm_wf m = true -> sm_wf (sm_put k v m) = true.
Proof. intros H. now apply sorted_put. Qed.

Lemma sorted_from_lower {A} lo lo' (m : smap A) :
  sm_sorted_from (Some lo) m = true -> lo' <= lo -> sm_sorted_from (Some lo') m = true.
Proof.
  destruct m as [|[k v] r]; simpl; auto. intros H Hle.
  apply andb_true_iff in H as [H1 H2]. rewrite H2, andb_true_r.
  apply N.ltb_lt in H1. apply N.ltb_lt. lia.
Qed.

Lemma sorted_del {A} lo k (m : smap A) :
  sm_sorted_from lo m = true -> sm_sorted_from lo (sm_del k m) = true.
Proof.
  revert lo. induction m as [|[k' v'] r IH]; simpl; intros lo H; auto.
  apply andb_true_iff in H as [H1 H2].
  destruct (k =? k') eqn:E.
  - destruct lo as [l|].
    + apply (sorted_from_lower k' l); auto. apply N.ltb_lt in H1. lia.
    + now apply sorted_from_weaken in H2.
  - destruct (k <? k'); simpl; rewrite H1; simpl; auto.
Qed.

Lemma sm_wf_del {A} k (m : smap A) : sm_wf m = true -> sm_wf (sm_del k m) = true.
Proof. intros H. now apply sorted_del. Qed.

(* lookups after updates *)
Lemma sm_get_put_eq {A} k (v : A) m : sm_get k (sm_put k v m) = Some v.
Proof.
  induction m as [|[k' v'] r IH]; simpl.
  - now rewrite N.eqb_refl.
  - destruct (k =? k') eqn:E; simpl.
    + now rewrite N.eqb_refl.
    + destruct (k <? k') eqn:L; simpl.
      * now rewrite N.eqb_refl.
      * now rewrite E, L.
Qed.

Lemma sm_get_put_ne {A} k k2 (v : A) m : k2 <> k -> sm_get k2 (sm_put k v m) = sm_get k2 m.
Proof.
  intros Hne. induction m as [|[k' v'] r IH]; simpl.
  - replace (k2 =? k) with false by (symmetry; now apply N.eqb_neq).
    destruct (k2 <? k); reflexivity.
  - destruct (k =? k') eqn:E; simpl.
    + apply N.eqb_eq in E; subst.
      replace (k2 =? k') with false by (symmetry; now apply N.eqb_neq). reflexivity.
    + destruct (k <? k') eqn:L; simpl.
      * replace (k2 =? k) with false by (symmetry; now apply N.eqb_neq).
        destruct (k2 <? k) eqn:L2.
        -- apply N.ltb_lt in L, L2.
           replace (k2 =? k') with false by (symmetry; apply N.eqb_neq; lia).
           replace (k2 <? k') with true by (symmetry; apply N.ltb_lt; lia). reflexivity.
        -- reflexivity.
      * destruct (k2 =? k'); auto. destruct (k2 <? k'); auto.
Qed.
