(* C06, shard level, part 2: listWithCursor over the buckets (Model.list_buckets /
   view_list) = the listed objects after the cursor; the returned cursor resumes
   exactly after the returned items. *)
From Coq Require Import List NArith ZArith Bool Lia Sorted.
Import ListNotations.
From NV Require Import Gen.MetaConsts Meta.SMap Meta.SMapProofs Meta.Model Meta.Spec Meta.StatusProofs
     Meta.WfProofs Meta.ListModel Meta.ListProofs.
Local Open Scope N_scope.

Ltac nlia := unfold item, cursor, cid, oid in *; lia.

(* no stored object has the zero ID (the Go code reads a zero ID as "unset") *)
Definition oids_pos_b (b : cstate) : Prop := forall o e, In (o, e) (objs b) -> o <> 0.
Definition oids_pos (s : state) : Prop := forall c b, In (c, b) (cnrs s) -> oids_pos_b b.

(* the listed items of one bucket after the cursor (cc, co) *)
Definition bsel (cc co c : N) (it : oid * otype) : bool := negb (c =? cc) || (co =? 0) || (co <? fst it).
Definition bitems (cc co : N) (cb : cid * cstate) : list item :=
  map (fun it : oid * otype => (fst cb, fst it, snd it)) (filter (bsel cc co (fst cb)) (listed_in (snd cb))).
Definition X (bs : list (cid * cstate)) (cc co : N) : list item := flat_map (bitems cc co) bs.

Lemma bitems_other cc co cc' co' (cb : cid * cstate) : fst cb <> cc -> fst cb <> cc' -> bitems cc co cb = bitems cc' co' cb.
Proof.
  intros H1 H2. unfold bitems. f_equal. apply filter_ext. intros it. unfold bsel.
  apply N.eqb_neq in H1, H2. now rewrite H1, H2.
Qed.

Lemma X_other bs cc co cc' co' :
  (forall kv, In kv bs -> fst kv <> cc) -> (forall kv, In kv bs -> fst kv <> cc') -> X bs cc co = X bs cc' co'.
Proof.
  intros H1 H2. unfold X. induction bs as [|kv r IH]; simpl; auto.
  rewrite (bitems_other cc co cc' co' kv), IH; auto; intros; auto using in_cons, in_eq.
Qed.

Lemma bitems_self cc co (c : cid) (b : cstate) :
  bitems c (if c =? cc then co else 0) (c, b) = bitems cc co (c, b).
Proof.
  unfold bitems. simpl. f_equal. apply filter_ext. intros it. unfold bsel. rewrite N.eqb_refl.
  destruct (c =? cc); reflexivity.
Qed.

Lemma bitems_cgc cc co (cb : cid * cstate) : cgc (snd cb) = true -> bitems cc co cb = [].
Proof. intros H. unfold bitems, listed_in. now rewrite H. Qed.

Lemma listed_after_X s cc co :
  listed_after s (cc, co) = X (filter (fun kv => cc <=? fst kv) (cnrs s)) cc co.
Proof.
  unfold listed_after, listed, X. rewrite filter_flat_map.
  apply flat_map_filter_nil.
  - intros [c b] _ H. simpl in *. apply N.leb_gt in H. rewrite filter_map_comm.
    rewrite filter_none; auto. intros it _. unfold after, item_addr. simpl.
    replace (cc <? c) with false by (symmetry; apply N.ltb_ge; nlia).
    replace (cc =? c) with false by (symmetry; apply N.eqb_neq; nlia). reflexivity.
  - intros [c b] _ H. simpl in *. apply N.leb_le in H. rewrite filter_map_comm. unfold bitems. simpl. f_equal.
    apply filter_ext. intros it. unfold after, item_addr, bsel. simpl.
    destruct (N.eqb_spec c cc) as [E|E].
    + subst. rewrite N.ltb_irrefl, N.eqb_refl. reflexivity.
    + replace (cc <? c) with true by (symmetry; apply N.ltb_lt; nlia). reflexivity.
Qed.

(* one live bucket: the IDs the loop walks over and what it selects from them *)
Lemma bucket_good c b cc co :
  wfc b -> cgc b = false ->
  let o0 := if c =? cc then co else 0 in
  let ids := if o0 =? 0 then ids_where e_phy b else filter (fun id => o0 <? id) (ids_where e_phy b) in
  StronglySorted N.lt ids /\
  map (fun it : oid * otype => (c, fst it, snd it)) (good b ids) = bitems cc co (c, b).
Proof.
  intros W C o0 ids. split.
  - subst ids. destruct (o0 =? 0); [|apply SS_filter]; now apply ids_where_SS.
  - unfold bitems. simpl. f_equal. subst ids o0. unfold bsel.
    destruct (c =? cc) eqn:Ec; simpl.
    + destruct (co =? 0) eqn:E0; simpl.
      * rewrite good_phy_listed by auto. symmetry. now apply filter_all.
      * rewrite good_filter, good_phy_listed by auto. reflexivity.
    + rewrite good_phy_listed by auto. symmetry. now apply filter_all.
Qed.

Lemma firstn_app_le {A} n (l1 l2 : list A) : (n <= length l1)%nat -> firstn n (l1 ++ l2) = firstn n l1.
Proof. intros H. rewrite firstn_app. replace (n - length l1)%nat with 0%nat by nlia. simpl. now rewrite app_nil_r. Qed.
Lemma skipn_app_le {A} n (l1 l2 : list A) : (n <= length l1)%nat -> skipn n (l1 ++ l2) = skipn n l1 ++ l2.
Proof. intros H. rewrite skipn_app. replace (n - length l1)%nat with 0%nat by nlia. reflexivity. Qed.
Lemma firstn_app_gt {A} n (l1 l2 : list A) : (length l1 <= n)%nat -> firstn n (l1 ++ l2) = l1 ++ firstn (n - length l1) l2.
Proof. intros H. rewrite firstn_app. now rewrite firstn_all2 by nlia. Qed.
Lemma skipn_app_gt {A} n (l1 l2 : list A) : (length l1 <= n)%nat -> skipn n (l1 ++ l2) = skipn (n - length l1) l2.
Proof. intros H. rewrite skipn_app. now rewrite skipn_all2 by nlia. Qed.

Lemma firstn_app_eq {A} n m (l1 l2 : list A) : n = (length l1 + m)%nat -> firstn n (l1 ++ l2) = l1 ++ firstn m l2.
Proof. intros ->. rewrite firstn_app_gt by lia. f_equal. f_equal. lia. Qed.
Lemma skipn_app_eq {A} n m (l1 l2 : list A) : n = (length l1 + m)%nat -> skipn n (l1 ++ l2) = skipn m l2.
Proof. intros ->. rewrite skipn_app_gt by lia. f_equal. lia. Qed.

(* items of a bucket after a non-zero ID [l] that is not below the start [o0] *)
Lemma bitems_after_last c b cc co l ids0 :
  wfc b -> cgc b = false -> oids_pos_b b ->
  let o0 := if c =? cc then co else 0 in
  ids0 = (if o0 =? 0 then ids_where e_phy b else filter (fun id => o0 <? id) (ids_where e_phy b)) ->
  In l ids0 ->
  bitems c l (c, b) = map (fun it : oid * otype => (c, fst it, snd it)) (good b (filter (fun id => l <? id) ids0)).
Proof.
  intros W C P o0 E Hl. unfold bitems. simpl. f_equal. unfold bsel. rewrite N.eqb_refl. simpl.
  assert (Hl0 : l <> 0).
  { assert (In l (ids_where e_phy b)) as H.
    { subst ids0. destruct (o0 =? 0); auto. now apply filter_In in Hl as [Hl _]. }
    unfold ids_where in H. apply in_map_iff in H as [[k e] [Ek Hk]]. apply filter_In in Hk as [Hk _]. simpl in Ek. subst.
    eapply P; eauto. }
  replace (l =? 0) with false by (symmetry; now apply N.eqb_neq). simpl.
  rewrite good_filter. subst ids0. destruct (o0 =? 0) eqn:E0.
  - now rewrite good_phy_listed.
  - rewrite good_filter, good_phy_listed by auto.
    apply filter_In in Hl as [_ Hl]. apply N.ltb_lt in Hl.
    induction (listed_in b) as [|it r IH]; simpl; auto.
    destruct (l <? fst it) eqn:E1; simpl.
    + replace (o0 <? fst it) with true by (symmetry; apply N.ltb_lt; apply N.ltb_lt in E1; nlia). simpl. rewrite E1. now f_equal.
    + destruct (o0 <? fst it); simpl; auto. now rewrite E1.
Qed.

(* the main lemma about listWithCursor's bucket loop *)
Lemma list_buckets_spec : forall bs cc,
  StronglySorted N.lt (map fst bs) ->
  (forall kv, In kv bs -> wfc (snd kv)) ->
  (forall kv, In kv bs -> oids_pos_b (snd kv)) ->
  (forall kv, In kv bs -> cc <= fst kv) ->
  forall room co acc,
    let r := list_buckets bs room cc co acc in
    fst r = acc ++ firstn room (X bs cc co) /\
    ((1 <= room)%nat ->
     X (filter (fun kv => fst (snd r) <=? fst kv) bs) (fst (snd r)) (snd (snd r)) = skipn room (X bs cc co)) /\
    ((bs = [] /\ snd r = (cc, co)) \/ In (fst (snd r)) (map fst bs)).
Proof.
  induction bs as [|[c b] rest IH]; intros cc SS WF POS GE room co acc.
  - simpl. rewrite firstn_nil, skipn_nil, app_nil_r. repeat split; auto.
  - inversion SS as [|x y SSr Fc]; subst. rewrite Forall_forall in Fc.
    assert (Hgt : forall kv, In kv rest -> c < fst kv).
    { intros kv Hkv. apply Fc. apply in_map_iff. eauto. }
    assert (Hcc : cc <= c) by (apply (GE (c, b)); now left).
    assert (Hne_cc : forall kv, In kv rest -> fst kv <> cc) by (intros kv Hkv; apply Hgt in Hkv; nlia).
    assert (Hne_c : forall kv, In kv rest -> fst kv <> c) by (intros kv Hkv; apply Hgt in Hkv; nlia).
    assert (WFr : forall kv, In kv rest -> wfc (snd kv)) by (intros; apply WF; now right).
    assert (POSr : forall kv, In kv rest -> oids_pos_b (snd kv)) by (intros; apply POS; now right).
    assert (GEr : forall kv, In kv rest -> c <= fst kv) by (intros kv Hkv; apply Hgt in Hkv; nlia).
    assert (Wb : wfc b) by (apply (WF (c, b)); now left).
    assert (Pb : oids_pos_b b) by (apply (POS (c, b)); now left).
    assert (Hkeep : forall c', In c' (map fst rest) ->
              filter (fun kv => c' <=? fst kv) ((c, b) :: rest) = filter (fun kv => c' <=? fst kv) rest).
    { intros c' Hc'. simpl. apply Fc in Hc'. replace (c' <=? c) with false by (symmetry; apply N.leb_gt; nlia). reflexivity. }
    simpl list_buckets. set (o0 := if c =? cc then co else 0).
    destruct (cgc b) eqn:C.
    + (* removed container: contributes nothing, the cursor moves onto it *)
      assert (EX : forall cc' co', X ((c, b) :: rest) cc' co' = X rest cc' co').
      { intros. unfold X. simpl. now rewrite bitems_cgc. }
      rewrite EX. rewrite (X_other rest cc co c o0) by auto.
      destruct room as [|room].
      * simpl. rewrite app_nil_r. repeat split; auto. nlia.
      * specialize (IH c SSr WFr POSr GEr (S room) o0 acc). cbv zeta in IH.
        destruct (list_buckets rest (S room) c o0 acc) as [res [c' o']] eqn:ER. simpl in *.
        destruct IH as [I1 [I2 I3]]. repeat split; auto.
        -- intros _. rewrite <- I2 by nlia.
           destruct I3 as [[Er Ecur]|Hin].
           ++ subst rest. inversion Ecur; subst. simpl. rewrite N.leb_refl. unfold X. simpl. now rewrite bitems_cgc.
           ++ now rewrite Hkeep.
        -- destruct I3 as [[Er Ecur]|Hin]; [inversion Ecur; subst; right; now left|right; now right].
    + (* live bucket *)
      set (ids := if o0 =? 0 then ids_where e_phy b else filter (fun id => o0 <? id) (ids_where e_phy b)).
      destruct (bucket_good c b cc co Wb C) as [SSi EG]. fold o0 in SSi, EG. fold ids in SSi, EG.
      destruct (select_n b ids room o0 []) as [[items lst] room'] eqn:ES. cbv beta iota zeta.
      pose proof (select_n_spec b ids room o0 []) as [S1 S2]. rewrite ES in S1, S2. simpl in S1, S2.
      set (G := good b ids) in *.
      assert (EX : X ((c, b) :: rest) cc co = map (fun it : oid * otype => (c, fst it, snd it)) G ++ X rest c lst).
      { unfold X at 1. simpl. fold (X rest cc co). rewrite <- EG. f_equal. now apply X_other. }
      rewrite EX. set (MG := map (fun it : oid * otype => (c, fst it, snd it)) G) in *.
      assert (LMG : length MG = length G) by (unfold MG; now rewrite map_length).
      set (MI := map _ items).
      assert (Eit : MI = firstn room MG).
      { subst MI items. unfold MG. now rewrite firstn_map. }
      clearbody MI. subst MI.
      (* what remains of this bucket after lst *)
      assert (Hrem : (1 <= room)%nat -> ids <> [] -> bitems c lst (c, b) = skipn room MG).
      { intros Hr Hne. pose proof (select_n_last_in1 b ids room o0 [] Hne Hr) as Hin. rewrite ES in Hin. simpl in Hin.
        rewrite (bitems_after_last c b cc co lst ids Wb C Pb eq_refl Hin).
        pose proof (select_n_after b ids room o0 [] SSi Hr) as HA. rewrite ES in HA. simpl in HA. rewrite HA.
        unfold MG. now rewrite skipn_map. }
      assert (Hrem0 : ids = [] -> lst = o0 /\ MG = []).
      { intros E. rewrite E in ES. simpl in ES. inversion ES; subst. split; auto. unfold MG, G. now rewrite E. }
      assert (Dids : ids = [] \/ ids <> []) by (destruct ids; [left; reflexivity|right; discriminate]).
      destruct room' as [|room'].
      * (* page filled inside this bucket *)
        simpl. assert (Hlen : (room <= length MG)%nat) by nlia.
        rewrite firstn_app_le by auto. repeat split; auto.
        intros Hr. rewrite N.leb_refl. unfold X at 1. simpl.
        assert (Ef : filter (fun kv => c <=? fst kv) rest = rest).
        { apply filter_all. intros kv Hkv. apply N.leb_le. apply Hgt in Hkv. nlia. }
        rewrite Ef. fold (X rest c lst). rewrite skipn_app_le by auto. f_equal.
        destruct Dids as [Ei|Ei].
        -- destruct (Hrem0 Ei) as [_ E]. rewrite E in Hlen. simpl in Hlen. nlia.
        -- apply Hrem; auto.
      * (* bucket exhausted, go on with the next one *)
        assert (Hlen : (length MG < room)%nat) by nlia.
        specialize (IH c SSr WFr POSr GEr (S room') lst (acc ++ firstn room MG)). cbv zeta in IH.
        destruct (list_buckets rest (S room') c lst (acc ++ firstn room MG)) as [res [c' o']] eqn:ER. simpl fst in *; simpl snd in *.
        destruct IH as [I1 [I2 I3]].
        rewrite firstn_all2 in I1 by nlia.
        repeat split.
        -- rewrite I1. rewrite (firstn_app_eq room (S room')) by nlia. now rewrite <- app_assoc.
        -- intros Hr. rewrite (skipn_app_eq room (S room')) by nlia.
           rewrite <- I2 by nlia.
           destruct I3 as [[Er Ecur]|Hin].
           ++ subst rest. inversion Ecur; subst. simpl. rewrite N.leb_refl. unfold X. simpl. rewrite app_nil_r.
              destruct Dids as [Ei|Ei].
              ** destruct (Hrem0 Ei) as [El E]. subst lst. unfold o0. rewrite bitems_self.
                 etransitivity; [symmetry; exact EG|exact E].
              ** rewrite Hrem; auto. apply skipn_all2. nlia.
           ++ now rewrite Hkeep.
        -- destruct I3 as [[Er Ecur]|Hin]; [inversion Ecur; subst; right; now left|right; now right].
Qed.
