(* C02: refutation witnesses for every drift class (the faithful model drifts
   exactly like the implementation) and the exactness theorem for the clean
   fragment. *)
From Coq Require Import List NArith ZArith Bool Lia.
Import ListNotations.
From NV Require Import Base.U64 Gen.MetaConsts Meta.SMap Meta.SMapProofs Meta.Model Meta.Spec
     Meta.StatusProofs Meta.WfProofs.
Local Open Scope N_scope.

Definition hs (t : otype) (sz : N) (a : option oid) : hdr := mkHdr t sz None a None None None None None.
Definition reg (id sz : N) : obj := Obj id (hs TRegular sz None) None.
Definition tomb (id x : N) : obj := Obj id (hs TTombstone 0 (Some x)) None.

(* Put of an object that is stored and carries a garbage mark counts it twice *)
Definition w_put_on_marked : list op := [OPut 1 (reg 1 5); OMark 1 [1] MDefault; OPut 1 (reg 1 5)].
Lemma refuted_put_on_marked :
  first_unclean 0 state0 w_put_on_marked = Some (2%nat, 3) /\ counters_ok (run w_put_on_marked) = false /\
  c_phy (view_counters (run w_put_on_marked)) = 2.
Proof. vm_compute. auto. Qed.

(* tombstone for an object that is already marked: its payload is subtracted twice *)
Definition w_tomb_target : list op :=
  [OPut 1 (reg 1 5); OPut 1 (reg 2 5); OMark 1 [1] MDefault; OPut 1 (tomb 3 1)].
Lemma refuted_tombstone_target :
  first_unclean 0 state0 w_tomb_target = Some (3%nat, 4) /\ counters_ok (run w_tomb_target) = false /\
  view_info (run w_tomb_target) 1 = (0, 2).
Proof. vm_compute. auto. Qed.

(* tombstone for an unstored object, later deleted: the garbage counter loses a stored object *)
Definition w_tomb_unstored : list op :=
  [OPut 1 (reg 3 5); OMark 1 [3] MDefault; OPut 1 (tomb 2 1); ODelete 1 [1]].
Lemma refuted_tombstone_unstored :
  first_unclean 0 state0 w_tomb_unstored = Some (2%nat, 4) /\ counters_ok (run w_tomb_unstored) = false /\
  view_info (run w_tomb_unstored) 1 = (0, 2).
Proof. vm_compute. auto. Qed.

(* garbage mark for an ID that is not stored hides a stored object from the container info *)
Definition w_mark_unstored : list op := [OPut 1 (reg 1 5); OMark 1 [9] MDefault].
Lemma refuted_mark_unstored :
  first_unclean 0 state0 w_mark_unstored = Some (1%nat, 5) /\ counters_ok (run w_mark_unstored) = false /\
  view_info (run w_mark_unstored) 1 = (5, 0).
Proof. vm_compute. auto. Qed.

(* EC object removed through a tombstone while other garbage exists: the parent's
   mark is un-counted when it goes away with its last part *)
Definition ecp (id par idx : N) : obj :=
  Obj id (mkHdr TRegular 3 None None (Some par) None None (Some 0) (Some idx)) (Some (reg par 6)).
Definition w_relations : list op :=
  [OPut 1 (reg 3 5); OMark 1 [3] MDefault; OPut 1 (ecp 7 1 0); OPut 1 (ecp 8 1 1); OPut 1 (tomb 9 1); ODelete 1 [7; 8]].
Lemma refuted_relations :
  first_unclean 0 state0 w_relations = Some (2%nat, 2) /\ counters_ok (run w_relations) = false /\
  view_info (run w_relations) 1 = (0, 2).
Proof. vm_compute. auto. Qed.
