(* C06, shard level, part 3: the theorems about view_list / pages_from. *)
From Coq Require Import List NArith ZArith Bool Lia Sorted.
Import ListNotations.
From NV Require Import Gen.MetaConsts Meta.SMap Meta.SMapProofs Meta.Model Meta.Spec Meta.StatusProofs
     Meta.WfProofs Meta.ListModel Meta.ListProofs Meta.ListProofs2.
Local Open Scope N_scope.

Lemma filter_filter_imp {A} (p q : A -> bool) l :
  (forall x, In x l -> p x = true -> q x = true) -> filter p (filter q l) = filter p l.
Proof.
  induction l as [|a r IH]; simpl; intros H; auto.
  destruct (q a) eqn:Q; simpl.
  - destruct (p a); rewrite IH; auto.
  - destruct (p a) eqn:P; [rewrite (H a) in Q; auto; discriminate|]. apply IH; auto.
Qed.

Lemma view_list_spec s n cc co :
  wf_state s -> oids_pos s ->
  fst (view_list s n (cc, co)) = firstn n (listed_after s (cc, co)) /\
  ((1 <= n)%nat -> listed_after s (snd (view_list s n (cc, co))) = skipn n (listed_after s (cc, co))).
Proof.
  intros [W1 W2] P. unfold view_list. simpl fst. simpl snd.
  set (bs := filter (fun kv => cc <=? fst kv) (cnrs s)).
  assert (Hin : forall kv, In kv bs -> In kv (cnrs s)) by (intros kv H; now apply filter_In in H).
  pose proof (list_buckets_spec bs cc) as H.
  specialize (H (SS_map_filter _ _ (sm_wf_SS _ W1))).
  assert (WF : forall kv, In kv bs -> wfc (snd kv)) by (intros [c b] Hk; apply (W2 c); now apply Hin).
  assert (PS : forall kv, In kv bs -> oids_pos_b (snd kv)) by (intros [c b] Hk; apply (P c); now apply Hin).
  assert (GE : forall kv, In kv bs -> cc <= fst kv).
  { intros kv Hk. apply filter_In in Hk as [_ Hk]. now apply N.leb_le. }
  specialize (H WF PS GE n co []). cbv zeta in H.
  destruct (list_buckets bs n cc co []) as [res [c' o']]. simpl in H. destruct H as [H1 [H2 H3]].
  rewrite listed_after_X. fold bs. simpl. split; auto.
  intros Hn. rewrite listed_after_X, <- H2 by auto. f_equal.
  symmetry. apply filter_filter_imp. intros kv _ Hk. apply N.leb_le in Hk. apply N.leb_le.
  destruct H3 as [[_ E]|E].
  - inversion E; subst. assumption.
  - apply in_map_iff in E as [kv' [E Hk']]. apply GE in Hk'. rewrite E in Hk'. unfold cid in *. lia.
Qed.

Lemma listed_after_nil s : listed_after s nil_cursor = listed s.
Proof.
  unfold listed_after. apply filter_all. intros it _. unfold after, nil_cursor. simpl.
  destruct (fst (fst it)); reflexivity.
Qed.

(* ---- the client loop, generically: any lister with the two properties above *)
Section Chain.
  Context {A : Type}.
  Variable lister : nat -> cursor -> list A * cursor.
  Variable L : cursor -> list A.
  Hypothesis lister_items : forall n cur, fst (lister n cur) = firstn n (L cur).
  Hypothesis lister_next : forall n cur, (1 <= n)%nat -> L (snd (lister n cur)) = skipn n (L cur).

  Fixpoint gpages (sizes : list nat) (cur : cursor) : list (list A) * option cursor :=
    match sizes with
    | [] => ([], Some cur)
    | n :: r =>
        let '(items, cur') := lister n cur in
        match items with
        | [] => ([], None)
        | _ => let '(ps, e) := gpages r cur' in (items :: ps, e)
        end
    end.

  Lemma firstn_plus n m (l : list A) : firstn (n + m) l = firstn n l ++ firstn m (skipn n l).
  Proof. revert l. induction n; intros l; simpl; auto. destruct l; simpl; [now rewrite firstn_nil|]. now rewrite IHn. Qed.

  Lemma skipn_plus n m (l : list A) : skipn m (skipn n l) = skipn (n + m) l.
  Proof. revert l. induction n; intros l; simpl; auto. destruct l; simpl; [now rewrite skipn_nil|]. apply IHn. Qed.

  Lemma gpages_spec : forall sizes cur,
    Forall (fun n => (1 <= n)%nat) sizes ->
    concat (fst (gpages sizes cur)) = firstn (list_sum sizes) (L cur) /\
    match snd (gpages sizes cur) with
    | Some cur' => L cur' = skipn (list_sum sizes) (L cur)
    | None => concat (fst (gpages sizes cur)) = L cur
    end.
  Proof.
    induction sizes as [|n r IH]; intros cur F; simpl.
    - auto.
    - inversion F as [|n' r' Hn Hr]; subst.
      pose proof (lister_items n cur) as H1. pose proof (lister_next n cur Hn) as HN.
      destruct (lister n cur) as [items cur']. simpl in H1, HN.
      destruct items as [|i0 ir].
      + simpl. assert (E : L cur = []).
        { destruct (L cur); auto. destruct n; [lia|]. simpl in H1. discriminate. }
        rewrite E, firstn_nil. auto.
      + specialize (IH cur' Hr). destruct (gpages r cur') as [ps e]. cbn [fst snd] in *. destruct IH as [I1 I2].
        change (concat ((i0 :: ir) :: ps)) with ((i0 :: ir) ++ concat ps).
        rewrite H1, I1, HN. split.
        * now rewrite firstn_plus.
        * destruct e as [cur''|].
          -- rewrite I2, HN. apply skipn_plus.
          -- rewrite <- HN, <- I1, I2, HN. apply firstn_skipn.
  Qed.
End Chain.

Lemma pages_from_gpages s : forall sizes cur, pages_from s sizes cur = gpages (A:=item) (view_list s) sizes cur.
Proof.
  induction sizes as [|n r IH]; intros cur; simpl; auto.
  destruct (view_list s n cur) as [items cur']. destruct items; auto. now rewrite IH.
Qed.

(* C06_any_cursor *)
Lemma c06_any_cursor s n cur :
  wf_state s -> oids_pos s -> fst (view_list s n cur) = firstn n (listed_after s cur).
Proof. intros W P. destruct cur as [cc co]. now apply view_list_spec. Qed.

Lemma c06_next_cursor s n cur :
  wf_state s -> oids_pos s -> (1 <= n)%nat ->
  listed_after s (snd (view_list s n cur)) = skipn n (listed_after s cur).
Proof. intros W P. destruct cur as [cc co]. now apply view_list_spec. Qed.

(* C06_shard_chain *)
Lemma c06_shard_chain s sizes cur :
  wf_state s -> oids_pos s -> Forall (fun n => (1 <= n)%nat) sizes ->
  concat (fst (pages_from s sizes cur)) = firstn (list_sum sizes) (listed_after s cur) /\
  match snd (pages_from s sizes cur) with
  | Some cur' =>
      listed_after s cur' = skipn (list_sum sizes) (listed_after s cur) /\
      ((length (listed_after s cur) <= list_sum sizes)%nat -> forall n, fst (view_list s n cur') = [])
  | None => concat (fst (pages_from s sizes cur)) = listed_after s cur
  end.
Proof.
  intros W P F.
  pose proof (gpages_spec (A:=item) (view_list s) (listed_after s)
                (fun n c => c06_any_cursor s n c W P) (fun n c => c06_next_cursor s n c W P) sizes cur F) as HS.
  rewrite <- pages_from_gpages in HS.
  destruct (pages_from s sizes cur) as [ps e]. cbn [fst snd] in *. destruct HS as [H1 H2].
  split; auto. destruct e as [cur'|]; auto.
  split; auto. intros Hl n. rewrite (c06_any_cursor s n cur' W P), H2, skipn_all2 by lia. apply firstn_nil.
Qed.

(* ---- the listed objects are strictly sorted by address: no duplicates *)
Definition addr_lt (x y : cursor) : Prop := fst x < fst y \/ (fst x = fst y /\ snd x < snd y).

Lemma SS_app {A} (R : A -> A -> Prop) l1 l2 :
  StronglySorted R l1 -> StronglySorted R l2 -> (forall x y, In x l1 -> In y l2 -> R x y) -> StronglySorted R (l1 ++ l2).
Proof.
  induction 1; simpl; intros S2 H12; auto.
  constructor.
  - apply IHStronglySorted; auto; intros; apply H12; auto; now right.
  - rewrite Forall_forall in *. intros x Hx. apply in_app_iff in Hx as [Hx|Hx]; auto; apply H12; auto; now left.
Qed.

Lemma listed_in_SS b : wfc b -> StronglySorted N.lt (map fst (listed_in b)).
Proof.
  intros [W _]. unfold listed_in. destruct (cgc b); [constructor|].
  generalize (sm_wf_SS _ W). generalize (objs b). intros m.
  induction m as [|[k e] r IH]; intros S; simpl; [constructor|].
  inversion S; subst. destruct (e_phy e && negb (marked_for_removal b k)); simpl; auto.
  constructor; auto. rewrite Forall_forall in *. intros x Hx. apply in_map_iff in Hx as [[o t] [E Hx]]. simpl in E; subst.
  apply in_flat_map in Hx as [[k' e'] [Hk Hx]]. simpl in Hx.
  destruct (e_phy e' && negb (marked_for_removal b k')); [|contradiction]. destruct Hx as [Hx|[]]. inversion Hx; subst.
  apply H2. apply in_map_iff. exists (x, e'). auto.
Qed.

Lemma listed_sorted s : wf_state s -> StronglySorted addr_lt (map item_addr (listed s)).
Proof.
  intros [W1 W2]. unfold listed. revert W2. generalize (sm_wf_SS _ W1). generalize (cnrs s). intros m.
  induction m as [|[c b] r IH]; intros S W2; simpl; [constructor|].
  inversion S; subst. rewrite map_app. apply SS_app.
  - pose proof (listed_in_SS b (W2 c b (or_introl eq_refl))) as Sb. rewrite map_map.
    induction (listed_in b) as [|[o t] l IHl]; simpl; [constructor|]. inversion Sb; subst.
    constructor; auto. rewrite Forall_forall in *. intros x Hx. apply in_map_iff in Hx as [[o' t'] [E Hx]]. subst.
    right. simpl. split; auto. apply H4. apply in_map_iff. exists (o', t'). auto.
  - apply IH; auto. intros c' b' Hin. apply (W2 c' b'). now right.
  - intros x y Hx Hy. apply in_map_iff in Hx as [[[c1 o1] t1] [E1 Hx]]. apply in_map_iff in Hy as [[[c2 o2] t2] [E2 Hy]]. subst.
    apply in_map_iff in Hx as [[o t] [E Hx]]. inversion E; subst.
    apply in_flat_map in Hy as [[c' b'] [Hc Hy]]. apply in_map_iff in Hy as [[o' t'] [E' Hy]]. inversion E'; subst.
    left. simpl. rewrite Forall_forall in H2. apply H2. apply in_map_iff. exists (c2, b'). auto.
Qed.

Lemma addr_lt_irrefl x : ~ addr_lt x x.
Proof. unfold addr_lt. lia. Qed.

Lemma SS_NoDup {A} (R : A -> A -> Prop) l : (forall x, ~ R x x) -> StronglySorted R l -> NoDup l.
Proof.
  intros Irr. induction 1; constructor; auto.
  intros Hin. rewrite Forall_forall in H0. apply (Irr a). now apply H0.
Qed.

Lemma listed_nodup s : wf_state s -> NoDup (map item_addr (listed s)).
Proof. intros W. eapply SS_NoDup; [apply addr_lt_irrefl|now apply listed_sorted]. Qed.

(* ---- C06_never_lists_removed *)
Lemma listed_char s c o t :
  In (c, o, t) (listed s) ->
  exists b e, In (c, b) (cnrs s) /\ cgc b = false /\ In (o, e) (objs b) /\ e_phy e = true /\
              tombstoned b o = false /\ marked b o = false /\ t = h_typ (e_hdr e).
Proof.
  unfold listed. intros H. apply in_flat_map in H as [[c' b] [Hc H]]. apply in_map_iff in H as [[o' t'] [E H]].
  inversion E; subst. simpl in *. unfold listed_in in H. destruct (cgc b) eqn:C; [contradiction|].
  apply in_flat_map in H as [[k e] [Hk H]]. simpl in H.
  destruct (e_phy e) eqn:P; simpl in H; [|contradiction].
  destruct (marked_for_removal b k) eqn:M; simpl in H; [contradiction|]. destruct H as [H|[]]. inversion H; subst.
  unfold marked_for_removal in M. apply orb_false_iff in M as [M1 M2].
  exists b, e. repeat split; auto.
Qed.

Lemma firstn_incl {A} n (l : list A) x : In x (firstn n l) -> In x l.
Proof. revert l. induction n; intros l; simpl; [contradiction|]. destruct l; simpl; auto. intros [H|H]; auto. Qed.

Lemma c06_never_lists_removed s n cur it :
  wf_state s -> oids_pos s -> In it (fst (view_list s n cur)) -> In it (listed s).
Proof.
  intros W P H. rewrite (c06_any_cursor s n cur W P) in H. apply firstn_incl in H.
  unfold listed_after in H. now apply filter_In in H as [H _].
Qed.
