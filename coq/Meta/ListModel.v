(* C06 -- cursor listing: definitions only (executable).

   The shard-level listing itself (listWithCursor / selectNFromBucket /
   iterPrefixedIDs) is Model.view_list; this file adds
     - the cursor order the code implements ("strictly after the cursor"),
     - the client loop: pages requested with a sequence of page sizes, each call
       continuing from the cursor the previous one returned, until
       ErrEndOfListing ([pages_from]),
     - the engine: StorageEngine.ListWithCursor over a list of shards (the
       visiting order of unsortedShards is the list order: an input) with
       mergeListResults ([merge_list_results]) and the engine cursor,
     - the declarative reference of the engine listing ([eng_listed]). *)
From Coq Require Import List NArith Bool.
Import ListNotations.
From NV Require Import Gen.MetaConsts Meta.SMap Meta.Model Meta.Spec.
Local Open Scope N_scope.

Definition item := (cid * oid * otype)%type.      (* what ListWithCursor returns per object *)
Definition cursor := (cid * oid)%type.            (* Cursor{containerID, lastObjectID} *)
Definition nil_cursor : cursor := (0, 0).         (* nil *Cursor / new(Cursor) *)
Definition item_addr (it : item) : cursor := (fst (fst it), snd (fst it)).

(* lexicographic order of addresses = oid.Address.Compare on the universe of the model *)
Definition addr_ltb (x y : cursor) : bool :=
  (fst x <? fst y) || ((fst x =? fst y) && (snd x <? snd y)).
Definition addr_eqb (x y : cursor) : bool := (fst x =? fst y) && (snd x =? snd y).

(* "after the cursor" exactly as the code resumes: containers from the cursor's
   one on (Seek), inside the cursor's container the objects strictly after
   lastObjectID, a zero lastObjectID meaning "from the beginning"
   (iterPrefixedIDs: offset.IsZero()).  For non-zero object IDs this is
   addr_ltb (ListProofs.after_lt). *)
Definition after (cur a : cursor) : bool :=
  (fst cur <? fst a) || ((fst cur =? fst a) && ((snd cur =? 0) || (snd cur <? snd a))).

(* reference: the listed objects (Spec.listed: physical, not tombstoned, no
   default garbage mark, container not removed) after the cursor *)
Definition listed_after (s : state) (cur : cursor) : list item :=
  filter (fun it => after cur (item_addr it)) (listed s).

(* the client loop.  Result: the non-empty pages and Some cursor to continue
   with, or None once a call answered ErrEndOfListing (empty result). *)
Fixpoint pages_from (s : state) (sizes : list nat) (cur : cursor) : list (list item) * option cursor :=
  match sizes with
  | [] => ([], Some cur)
  | n :: r =>
      let '(items, cur') := view_list s n cur in
      match items with
      | [] => ([], None)
      | _ => let '(ps, e) := pages_from s r cur' in (items :: ps, e)
      end
  end.

(* ---------------------------------------------------------------- engine *)

Definition shard := (N * state)%type.                 (* shard ID, metabase state *)
Definition eitem := (item * list N)%type.             (* AddressWithAttributes{Address, Type, ShardIDs} *)
Definition eitem_addr (x : eitem) : cursor := item_addr (fst x).

(* the loop of mergeListResults (a non-empty): both inputs sorted by address *)
Fixpoint merge_loop (fuel : nat) (a : list eitem) (b : list item) (sid : N) (room : nat) : list eitem :=
  match fuel, room with
  | O, _ => []
  | _, O => []
  | S f, S room' =>
      match a, b with
      | [], [] => []
      | [], y :: b' => (y, [sid]) :: merge_loop f [] b' sid room'
      | x :: a', [] => x :: merge_loop f a' [] sid room'
      | x :: a', y :: b' =>
          if addr_ltb (item_addr y) (eitem_addr x) then (y, [sid]) :: merge_loop f a b' sid room'   (* cmp > 0 *)
          else if addr_eqb (eitem_addr x) (item_addr y)
               then (fst x, snd x ++ [sid]) :: merge_loop f a' b' sid room'                        (* cmp = 0 *)
               else x :: merge_loop f a' b sid room'                                                (* cmp < 0 *)
      end
  end.

(* mergeListResults *)
Definition merge_list_results (a : list eitem) (b : list item) (sid : N) (count : nat) : list eitem :=
  match a with
  | [] => map (fun y => (y, [sid])) (firstn count b)
  | _ => merge_loop (length a + length b) a b sid count
  end.

(* StorageEngine.ListWithCursor: every shard is asked for count items after the
   same cursor; shards that fail or return nothing are skipped; the new cursor
   is the address of the last merged item; empty result = ErrEndOfListing *)
Definition engine_merge (shards : list shard) (count : nat) (cur : cursor) : list eitem :=
  fold_left (fun acc (sh : shard) =>
               match fst (view_list (snd sh) count cur) with
               | [] => acc
               | res => merge_list_results acc res (fst sh) count
               end) shards [].

Definition engine_list (shards : list shard) (count : nat) (cur : cursor) : list eitem * option cursor :=
  let res := engine_merge shards count cur in
  match res with
  | [] => ([], None)
  | x :: r => (res, Some (eitem_addr (last r x)))
  end.

Fixpoint engine_pages_from (shards : list shard) (sizes : list nat) (cur : cursor) : list (list eitem) * option cursor :=
  match sizes with
  | [] => ([], Some cur)
  | n :: r =>
      match engine_list shards n cur with
      | (_, None) => ([], None)
      | (items, Some cur') => let '(ps, e) := engine_pages_from shards r cur' in (items :: ps, e)
      end
  end.

(* ---- reference for the engine: every address listed by at least one shard,
   once, in address order, with exactly the shards that list it (in the order
   the shards are given); the type is the one the first such shard reports *)
Definition lists_addr (cur : cursor) (a : cursor) (sh : shard) : bool :=
  existsb (fun it => addr_eqb (item_addr it) a) (listed_after (snd sh) cur).
Definition holders (shards : list shard) (cur : cursor) (a : cursor) : list N :=
  map fst (filter (lists_addr cur a) shards).

(* insertion of an item into an address-sorted, duplicate-free item list *)
Fixpoint ins_item (x : item) (l : list item) : list item :=
  match l with
  | [] => [x]
  | y :: r => if addr_ltb (item_addr x) (item_addr y) then x :: l
              else if addr_eqb (item_addr x) (item_addr y) then l
              else y :: ins_item x r
  end.
(* all items of all shards after the cursor, sorted, one per address (the first shard's:
   items are inserted in shard order and an address already present is kept) *)
Definition union_items (shards : list shard) (cur : cursor) : list item :=
  fold_right ins_item [] (rev (flat_map (fun sh : shard => listed_after (snd sh) cur) shards)).
Definition eng_listed (shards : list shard) (cur : cursor) : list eitem :=
  map (fun it => (it, holders shards cur (item_addr it))) (union_items shards cur).
