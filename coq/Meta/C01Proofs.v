(* C01 over histories: corollaries of ViewProofs for run h, the rules of the
   reference as lemmas, the refutation of the full-strength statement. *)
From Coq Require Import List NArith ZArith Bool Lia.
Import ListNotations.
From NV Require Import Gen.MetaConsts Meta.SMap Meta.SMapProofs Meta.Model Meta.Spec Meta.Check
     Meta.StatusProofs Meta.WfProofs Meta.ViewProofs.
Local Open Scope N_scope.

Lemma c01_exists h (ign : bool) c o :
  let s := run h in let e := if ign then 0 else epoch s in
  excluded s e c o = false -> status_of_class (view_exists s ign c o) = Some (status_at s e c o).
Proof. intros s e. apply exists_status. apply wf_run. Qed.

Lemma c01_get h raw c o :
  let s := run h in
  excluded s (epoch s) c o = false ->
  class_ok true (status_at s (epoch s) c o) (bucket_stored s c o) (view_get s raw c o) = true.
Proof. intros s. apply get_status. apply wf_run. Qed.

Lemma c01_ec h c o rule idx :
  let s := run h in
  excluded s (epoch s) c o = false ->
  ec_agrees (match bucket s c with None => NotFound | Some _ => status_at s (epoch s) c o end)
            (view_ec s c o rule idx) = true.
Proof. intros s. apply ec_status. apply wf_run. Qed.

Lemma c01_search h c :
  let s := run h in
  (forall o, excluded s (epoch s) c o = false) ->
  view_search s c = match bucket s c with Some b => search_in b (epoch s) | None => [] end.
Proof. intros s. apply search_status. apply wf_run. Qed.

Lemma c01_locked h c o :
  let s := run h in
  view_locked s c o = match bucket s c with
                      | Some b => negb (cgc b) && live_lock b (epoch s) o
                      | None => false
                      end.
Proof. intros s. apply locked_status. apply wf_run. Qed.

Lemma c01_expired h e x :
  In x (view_expired (run h) e) <-> In x (expired_unlocked (run h) e).
Proof. apply expired_iter_exact. apply wf_run. Qed.

(* all status views agree on one address *)
Lemma c01_views_agree h raw c o rule idx :
  let s := run h in
  excluded s (epoch s) c o = false ->
  exists st, st = status_at s (epoch s) c o /\
    status_of_class (view_exists s false c o) = Some st /\
    class_ok true st (bucket_stored s c o) (view_get s raw c o) = true /\
    (bucket s c <> None -> ec_agrees st (view_ec s c o rule idx) = true).
Proof.
  intros s X. exists (status_at s (epoch s) c o). split; [reflexivity|]. split; [|split].
  - apply (c01_exists h false c o X).
  - apply (c01_get h raw c o X).
  - intros B. pose proof (c01_ec h c o rule idx X) as H. fold s in H.
    destruct (bucket s c); [exact H|congruence].
Qed.

(* ---- the rules of the statement, as facts about the reference *)
Lemma ref_container_removed b e o : cgc b = true -> status_in b e o = NotFound.
Proof. intros H. unfold status_in. now rewrite H. Qed.

Lemma ref_tombstone_removed b e o :
  tombstoned b o = true -> direct b e o = Removed \/ direct b e o = Expired.
Proof.
  intros T. unfold direct. rewrite T.
  destruct (expired b e o), (live_lock b e o), (marked b o); simpl; auto.
Qed.

Lemma ref_marked_not_found b e o :
  tombstoned b o = false -> marked b o = true -> live_lock b e o = false -> expired b e o = false ->
  direct b e o = NotFound.
Proof. intros T M L X. unfold direct. now rewrite T, M, L, X. Qed.

Lemma ref_expired b e o :
  expired b e o = true -> live_lock b e o = false -> direct b e o = Expired.
Proof.
  intros X L. unfold direct. rewrite X, L. destruct (tombstoned b o), (marked b o); reflexivity.
Qed.

Lemma ref_lock_overrides_expiry_and_marks b e o :
  live_lock b e o = true -> tombstoned b o = false -> direct b e o = Available.
Proof. intros L T. unfold direct. rewrite L, T. destruct (expired b e o), (marked b o); reflexivity. Qed.

Lemma ref_available_otherwise b e o :
  tombstoned b o = false -> marked b o = false -> expired b e o = false -> direct b e o = Available.
Proof. intros T M X. unfold direct. now rewrite T, M, X. Qed.

Lemma ref_child_inherits_worse k b e o p :
  parent_of b o = Some p -> (direct b e o = Available \/ direct b e o = NotFound) ->
  status_k (S k) b e o = worse (status_k k b e p) (direct b e o).
Proof. intros P [D|D]; simpl; now rewrite D, P. Qed.

(* ---- refutation of the full-strength statement: a lock that is revived after
   a tombstone for its target was accepted *)
Definition hR (t : otype) (a : option oid) : hdr := mkHdr t 1 None a None None None None None.
Definition h_refute : list op :=
  [ OPut 1 (Obj 1 (hR TRegular None) None);
    OPut 1 (Obj 2 (hR TLock (Some 1)) None);
    OMark 1 [2] MDefault;
    OPut 1 (Obj 3 (hR TTombstone (Some 1)) None);
    ORevive 1 2 ].

Lemma c01_exists_refuted :
  exists h c o, status_of_class (view_exists (run h) false c o) <> Some (status_at (run h) (epoch (run h)) c o).
Proof. exists h_refute, 1, 1. vm_compute. discriminate. Qed.

Lemma c01_refuted_is_excluded : excluded (run h_refute) (epoch (run h_refute)) 1 1 = true.
Proof. vm_compute. reflexivity. Qed.
