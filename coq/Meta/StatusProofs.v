(* C01 core: the status computed the way the Go code does (Model) is the
   reference status (Spec) on every well-formed bucket, except in the known
   class "a tombstone and a live lock on the same object". *)
From Coq Require Import List NArith ZArith Bool Lia.
Import ListNotations.
From NV Require Import Gen.MetaConsts Meta.SMap Meta.SMapProofs Meta.Model Meta.Spec.
Local Open Scope N_scope.

Definition wfc (b : cstate) : Prop := sm_wf (objs b) = true /\ sm_wf (garb b) = true.

(* ---- generic list facts *)
Lemma find_existsb {A} (P : A -> bool) l :
  (match find P l with Some _ => true | None => false end) = existsb P l.
Proof. induction l; simpl; auto. destruct (P a); auto. Qed.

Lemma existsb_ext_in {A} (f g : A -> bool) l :
  (forall x, In x l -> f x = g x) -> existsb f l = existsb g l.
Proof.
  induction l as [|a l IHl]; intros H; [reflexivity|].
  simpl. rewrite (H a (or_introl eq_refl)). f_equal. apply IHl. intros x Hx. apply H. now right.
Qed.

Lemma existsb_map_filter {A B} (f : A -> B) (Q : A -> bool) (P : B -> bool) l :
  existsb P (map f (filter Q l)) = existsb (fun x => Q x && P (f x)) l.
Proof. induction l; simpl; auto. destruct (Q a); simpl; rewrite IHl; auto. Qed.

Lemma existsb_ids_where (Q : entry -> bool) (P : oid -> bool) b :
  existsb P (ids_where Q b) = existsb (fun kv => Q (snd kv) && P (fst kv)) (objs b).
Proof. unfold ids_where. apply existsb_map_filter. Qed.

(* ---- lookups *)
Lemma get_entry_in b a e : wfc b -> In (a, e) (objs b) -> get_entry b a = Some e.
Proof. intros [H _] Hin. unfold get_entry. now apply sm_get_in. Qed.

Lemma type_of_in b a e : wfc b -> In (a, e) (objs b) -> type_of b a = Some (h_typ (e_hdr e)).
Proof. intros H Hin. unfold type_of. now rewrite (get_entry_in _ _ _ H Hin). Qed.

Lemma is_expired_spec b o e : is_expired b o e = expired b e o.
Proof. reflexivity. Qed.

Lemma expired_zero b o : expired b 0 o = false.
Proof.
  unfold expired. destruct (sm_get o (objs b)); auto. destruct (h_exp (e_hdr e)); auto.
  apply N.ltb_ge. lia.
Qed.

Lemma expired_guard b o e : (0 <? e) && expired b e o = expired b e o.
Proof.
  destruct (0 <? e) eqn:E; simpl; auto. apply N.ltb_ge in E.
  assert (e = 0) by lia. subst. symmetry. apply expired_zero.
Qed.

(* ---- tombstones and marks *)
Lemma tomb_spec b o : wfc b ->
  (match assoc_typed 0 b o TTombstone with Some _ => true | None => false end) = tombstoned b o.
Proof.
  intros W. unfold assoc_typed. rewrite find_existsb.
  etransitivity; [apply existsb_ids_where|].
  unfold tombstoned. apply existsb_ext_in. intros [a e] Hin. simpl.
  rewrite (type_of_in _ _ _ W Hin). unfold is_type, targets.
  simpl. rewrite andb_true_r. apply andb_comm.
Qed.

Lemma in_garbage_spec b o : wfc b ->
  in_garbage b o = if tombstoned b o then st_tombstoned else if marked b o then st_gc_marked else st_available.
Proof.
  intros W. unfold in_garbage. rewrite <- (tomb_spec b o W).
  destruct (assoc_typed 0 b o TTombstone); auto.
  unfold marked. destruct (sm_get o (garb b)) as [[|]|]; auto.
Qed.

Lemma in_garbage_avail b o : wfc b ->
  (in_garbage b o =? st_available) = negb (tombstoned b o) && negb (marked b o).
Proof.
  intros W. rewrite (in_garbage_spec b o W).
  destruct (tombstoned b o); destruct (marked b o); reflexivity.
Qed.

(* ---- locks *)
Lemma locked_spec b e o : wfc b -> object_locked e b o = live_lock b e o.
Proof.
  intros W. unfold object_locked. etransitivity; [apply existsb_ids_where|]. unfold live_lock.
  apply existsb_ext_in. intros [a en] Hin. simpl.
  rewrite (type_of_in _ _ _ W Hin). unfold is_type, targets, lock_live.
  rewrite is_expired_spec, expired_guard, (in_garbage_avail b a W).
  destruct (h_typ (e_hdr en)); simpl; rewrite ?andb_false_r; auto.
  destruct (opt_eqb (h_assoc (e_hdr en)) (Some o)); simpl; auto.
  now rewrite andb_assoc.
Qed.

(* ---- status of one object *)
Lemma rank_worse a c : rank (worse a c) = N.max (rank a) (rank c).
Proof. destruct a, c; reflexivity. Qed.

Lemma direct_spec b e o : wfc b -> tomb_locked b e o = false ->
  status_direct b o e = rank (direct b e o).
Proof.
  intros W X. unfold status_direct, direct, tomb_locked in *.
  rewrite is_expired_spec, (locked_spec b e o W), (in_garbage_spec b o W).
  destruct (expired b e o); destruct (live_lock b e o); destruct (tombstoned b o);
    destruct (marked b o); simpl in *; try discriminate; reflexivity.
Qed.

(* ---- parents *)
Lemma seek_parent_spec P b : seek_parent P b = sibling_parent b P.
Proof. reflexivity. Qed.

Lemma find_parent_spec b o : find_parent b o = parent_of b o.
Proof.
  unfold find_parent, parent_of, get_entry. destruct (sm_get o (objs b)) as [en|]; [|reflexivity].
  destruct (h_parent (e_hdr en)), (h_first (e_hdr en)), (h_split (e_hdr en)); reflexivity.
Qed.

Lemma status_n_spec n : forall b e o, wfc b -> excluded_k n b e o = false ->
  status_n n b o e = rank (status_k n b e o).
Proof.
  induction n; intros b e o W X; simpl in *; apply orb_false_iff in X as [X1 X2];
    rewrite (direct_spec b e o W X1), find_parent_spec.
  - destruct (direct b e o); simpl; destruct (parent_of b o); reflexivity.
  - destruct (direct b e o) eqn:D; simpl; try reflexivity.
    + destruct (parent_of b o) as [p|]; [|reflexivity].
      rewrite (IHn b e p W X2), rank_worse. reflexivity.
    + destruct (parent_of b o) as [p|]; [|reflexivity].
      rewrite (IHn b e p W X2), rank_worse. reflexivity.
Qed.

Lemma object_status_spec b e o : wfc b -> excluded_k max_nesting b e o = false ->
  object_status b o e = rank (status_k max_nesting b e o).
Proof. apply status_n_spec. Qed.

Lemma rank_inj a c : rank a = rank c -> a = c.
Proof. destruct a, c; simpl; intros H; try reflexivity; discriminate H. Qed.
