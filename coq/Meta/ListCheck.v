(* Executable comparison for the correspondence check of C06 (definitions only).

   A configuration = the dumped abstract state of every shard's metabase
   (Check.enc_state encoding) + queries.  A query = level (metabase / shard:
   one shard; engine: all shards), page sizes (cycled), start cursor, the pages
   the implementation returned until ErrEndOfListing.  [list_mismatches]
   evaluates the model (Model.view_list, ListModel.engine_list) and the
   reference (ListModel.listed_after / eng_listed) on the decoded states.
   Code = (config * 1000 + query) * 10 + kind; kind 0: model pages differ,
   1: end-of-listing differs, 2: reference differs, 3: duplicate address. *)
From Coq Require Import List NArith ZArith Bool.
Import ListNotations.
From NV Require Import Gen.MetaConsts Meta.SMap Meta.Model Meta.Spec Meta.Check Meta.ListModel.
Local Open Scope N_scope.

Record lquery := mkLQ {
  lq_engine : bool; lq_shard : nat; lq_sizes : list nat; lq_cur : cursor;
  lq_pages : list (list (list N)); lq_ended : bool }.
Record lconfig := mkLC { lc_states : list (list N); lc_queries : list lquery }.

Definition enc_item (it : item) : list N := [fst (fst it); snd (fst it); otype_code (snd it)].
Definition enc_eitem (x : eitem) : list N := enc_item (fst x) ++ snd x.

Definition size_at (sizes : list nat) (p : nat) : nat := nth (Nat.modulo p (length sizes)) sizes 1%nat.

Fixpoint shard_pages (fuel p : nat) (s : state) (sizes : list nat) (cur : cursor) : list (list item) * bool :=
  match fuel with
  | O => ([], false)
  | S f =>
      let '(items, cur') := view_list s (size_at sizes p) cur in
      match items with
      | [] => ([], true)
      | _ => let '(ps, e) := shard_pages f (S p) s sizes cur' in (items :: ps, e)
      end
  end.

Fixpoint eng_pages (fuel p : nat) (shards : list shard) (sizes : list nat) (cur : cursor) : list (list eitem) * bool :=
  match fuel with
  | O => ([], false)
  | S f =>
      match engine_list shards (size_at sizes p) cur with
      | (_, None) => ([], true)
      | (items, Some cur') => let '(ps, e) := eng_pages f (S p) shards sizes cur' in (items :: ps, e)
      end
  end.

Definition pages_eqb (a b : list (list (list N))) : bool := list_eqb (list_eqb (list_eqb N.eqb)) a b.

Fixpoint nodup_addr (l : list (list N)) : bool :=
  match l with
  | [] => true
  | x :: r => negb (existsb (fun y => list_eqb N.eqb (firstn 2 x) (firstn 2 y)) r) && nodup_addr r
  end.

Definition shards_of (states : list state) : list shard := combine (map N.of_nat (seq 1 (length states))) states.

Definition query_mismatch (states : list state) (q : lquery) : list nat :=
  let obs := concat (lq_pages q) in
  let '(model, ended, ref) :=
    if lq_engine q then
      let sh := shards_of states in
      let '(ps, e) := eng_pages 400 0 sh (lq_sizes q) (lq_cur q) in
      (map (map enc_eitem) ps, e, map enc_eitem (eng_listed sh (lq_cur q)))
    else
      let s := nth (lq_shard q) states state0 in
      let '(ps, e) := shard_pages 400 0 s (lq_sizes q) (lq_cur q) in
      (map (map enc_item) ps, e, map enc_item (listed_after s (lq_cur q))) in
  (if pages_eqb model (lq_pages q) then [] else [0%nat]) ++
  (if Bool.eqb ended (lq_ended q) then [] else [1%nat]) ++
  (if list_eqb (list_eqb N.eqb) obs ref && lq_ended q then [] else [2%nat]) ++
  (if nodup_addr obs then [] else [3%nat]).

Definition config_mismatches (i : nat) (c : lconfig) : list N :=
  let states := map dec_state (lc_states c) in
  mism_from (fun k q => map (fun kind => (N.of_nat i * 1000 + N.of_nat k) * 10 + N.of_nat kind) (query_mismatch states q))
            0 (lc_queries c).

Definition list_mismatches (cases : list lconfig) : list N := mism_from config_mismatches 0 cases.
