(* Cheaper per-step digest for the correspondence checks of the metabase family.

   Check.digest reduces modulo the prime 2^61-1 with N.modulo, which costs about
   50 ms per observed step under vm_compute (binary long division on [positive]
   for each of the ~1000 numbers of an observation).  The digest below masks to 61 bits
   instead (N.land): multiplication by the odd constant is a bijection modulo
   2^61, so a difference in any number still changes the accumulator.  Same
   replay functions as Check.both_hist / both_mismatches, only the digest
   differs; props/_meta.py computes the same function on the observation of the
   real database.  Definitions only. *)
From Coq Require Import List NArith ZArith Bool.
Import ListNotations.
From NV Require Import Base.U64 Gen.MetaConsts Meta.SMap Meta.Model Meta.Spec Meta.Check.
Local Open Scope N_scope.

Definition hash_mask : N := 2305843009213693951.  (* 2^61 - 1 *)
Definition hash_list_f (l : list N) : N :=
  fold_left (fun acc x => N.land (acc * 1000003 + x + 1) hash_mask) l 7.

Definition digest_f (st : list N) (views : list (list N)) : N :=
  hash_list_f (st ++ flat_map (fun l => N.of_nat (length l) :: l) views).

(* model and reference comparison in one replay (codes as in Check.both_hist) *)
Fixpoint both_hist_f (h k : nat) (s : state) (l : hist) : list N :=
  match l with
  | [] => []
  | st :: r =>
      let '(s', res) := step s (sc_op st) in
      (if list_eqb Z.eqb res (sc_res st) then [] else [code h k sec_result]) ++
      (match sc_obs st with
       | None => []
       | Some d =>
           let v := model_views s' in
           (if digest_f (enc_state s') v =? d then [] else [code h k sec_digest]) ++
           (let r := ref_obs s' v in
            map (fun sec => code h k (50 + sec)) r ++
            match r with [] => [] | _ => map (fun sec => code h k (70 + sec)) (ref_obs_masked s' v) end)
       end) ++
      both_hist_f h (S k) s' r
  end.

Definition both_mismatches_f (cases : list hist) : list N :=
  mism_from (fun i h => both_hist_f i 0 state0 h ++ unclean_code i h) 0 cases.
