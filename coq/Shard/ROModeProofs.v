(* C14 -- proofs *)
From Coq Require Import List NArith Bool.
Import ListNotations.
From NV Require Import Gen.ShardModeConsts Shard.ROMode.

Lemma ro_not_rw m : read_only m = true -> (m =? ReadWrite)%N = false.
Proof.
  unfold read_only, ReadWrite. intros H. destruct (N.eqb_spec m 0) as [->|]; [|reflexivity].
  simpl in H. discriminate.
Qed.

(* in a read-only mode no guard of a modifying operation or job lets it through *)
Lemma guard_ro_not_done m wc o :
  read_only m = true -> modifying o = true -> guard m wc o <> Done.
Proof.
  intros H Hm. pose proof (ro_not_rw m H) as Hrw.
  destruct o; simpl in *; try discriminate; rewrite ?H, ?Hrw;
    try (destruct wc; simpl); try (destruct (no_metabase m)); discriminate.
Qed.

Section St.
  Variable St : Type.
  Variable apply : op -> St -> St.

  Theorem step_ro_state_unchanged : forall m wc s o,
    read_only m = true -> fst (step St apply m wc s o) = s.
  Proof.
    intros m wc s o H. unfold step.
    destruct (modifying o) eqn:Hm.
    - pose proof (guard_ro_not_done m wc o H Hm). destruct (guard m wc o); try reflexivity. congruence.
    - destruct (guard m wc o); reflexivity.
  Qed.

  Theorem run_ro_state_unchanged : forall m wc ops s,
    read_only m = true -> fst (run St apply m wc s ops) = s.
  Proof.
    intros m wc ops. induction ops as [|o r IH]; intros s H; [reflexivity|].
    cbn [run]. pose proof (step_ro_state_unchanged m wc s o H) as E.
    destruct (step St apply m wc s o) as [s1 x]. simpl in E. subst s1.
    specialize (IH s H). destruct (run St apply m wc s r) as [s2 xs]. exact IH.
  Qed.

  (* every modifying request is answered with a mode error (FlushWriteCache without a
     write-cache: "write-cache is disabled"), every background job returns untouched *)
  Theorem step_ro_result : forall m wc s o,
    read_only m = true -> ref_result_ok m wc o (snd (step St apply m wc s o)) = true.
  Proof.
    intros m wc s o H. pose proof (ro_not_rw m H) as Hrw. unfold step, ref_result_ok.
    destruct o; cbn [guard modifying background]; rewrite ?H, ?Hrw; cbn;
      try (destruct wc; cbn); try (destruct (no_metabase m); cbn); reflexivity.
  Qed.
End St.
