(* C14 -- what every shard operation and background job does as a function of the
   reported mode.  DEFINITIONS ONLY.

   Go sources transcribed (the mode guard at the head of each function):
   put.go Put, delete.go deleteObjs, inhume.go MarkGarbage / InhumeContainer,
   container.go DeleteContainer, restore.go Restore, revive.go ReviveObject,
   writecache.go FlushWriteCache, gc.go removeGarbage / setEpochEventHandler,
   and the read paths get.go, exists.go, list.go, dump.go (docs/shard-modes.md).
   A mode is its bit set (mode/mode.go): ReadOnly = bit 1, Degraded = bit 2. *)
From Coq Require Import List NArith Bool.
Import ListNotations.
From NV Require Import Gen.ShardModeConsts.

Definition mode := N.
Definition read_only (m : mode) : bool := negb (N.land m mode_read_only_bit =? 0)%N.
Definition no_metabase (m : mode) : bool := negb (N.land m mode_degraded_bit =? 0)%N.
Definition ReadWrite : mode := 0%N.
Definition ReadOnly : mode := mode_read_only_bit.
Definition DegradedReadOnly : mode := N.lor mode_read_only_bit mode_degraded_bit.

Inductive op :=
| Put | Delete | MarkGarbage | InhumeContainer | DeleteContainer | Restore | Revive | FlushWC
| GCPass | EpochEvent                      (* background jobs *)
| Get | Exists | ListObjs | Dump.          (* reads *)

Definition modifying (o : op) : bool :=
  match o with Get | Exists | ListObjs | Dump => false | _ => true end.
Definition background (o : op) : bool :=
  match o with GCPass | EpochEvent => true | _ => false end.

(* outcome class of a call *)
Inductive res :=
| Done            (* the guard let it through: the operation runs *)
| ErrReadOnly     (* shard.ErrReadOnlyMode *)
| ErrDegraded     (* shard.ErrDegradedMode *)
| ErrNoWC         (* FlushWriteCache without a write-cache *)
| Skipped.        (* background job returned without touching anything *)

(* guard m wc o: what the head of the Go function answers in mode m (wc = shard has a write-cache) *)
Definition guard (m : mode) (wc : bool) (o : op) : res :=
  match o with
  | Put | Restore | DeleteContainer =>
      if read_only m then ErrReadOnly else Done
  | Delete | MarkGarbage | InhumeContainer | Revive =>
      if read_only m then ErrReadOnly else if no_metabase m then ErrDegraded else Done
  | FlushWC =>
      if negb wc then ErrNoWC
      else if read_only m then ErrReadOnly else if no_metabase m then ErrDegraded else Done
  | GCPass => if (m =? ReadWrite)%N then Done else Skipped
  | EpochEvent =>
      (* stores the epoch number in memory, then: payments off -> return;
         ListContainers (ErrDegradedMode without metabase) -> return;
         DeleteContainer per unpaid container -> guarded as above *)
      if no_metabase m then Skipped else if read_only m then Skipped else Done
  | Get | Dump => Done
  | Exists => Done
  | ListObjs => if no_metabase m then ErrDegraded else Done
  end.

Section Step.
  Variable St : Type.                       (* persisted state: blobs, metadata, write-cache *)
  Variable apply : op -> St -> St.          (* effect of an operation that runs *)
  (* reads that run do not change the persisted state (they only read) *)
  Definition step (m : mode) (wc : bool) (s : St) (o : op) : St * res :=
    match guard m wc o with
    | Done => ((if modifying o then apply o s else s), Done)
    | r => (s, r)
    end.
  Fixpoint run (m : mode) (wc : bool) (s : St) (ops : list op) : St * list res :=
    match ops with
    | [] => (s, [])
    | o :: r => let '(s1, x) := step m wc s o in
                let '(s2, xs) := run m wc s1 r in (s2, x :: xs)
    end.
End Step.

(* ---- reference: the mode table of docs/shard-modes.md for the read-only modes ---- *)
Definition is_mode_error (r : res) : bool := match r with ErrReadOnly | ErrDegraded => true | _ => false end.
Definition ref_result_ok (m : mode) (wc : bool) (o : op) (r : res) : bool :=
  if background o then match r with Skipped => true | _ => false end
  else if modifying o then
    match o, wc with
    | FlushWC, false => match r with ErrNoWC => true | _ => is_mode_error r end
    | _, _ => is_mode_error r
    end
  else (* reads: work in read-only; listing needs the metabase *)
    match o with
    | ListObjs => if no_metabase m then is_mode_error r else match r with Done => true | _ => false end
    | _ => match r with Done => true | _ => false end
    end.
