(* C43 -- executable comparison of the real shard's observations with the model (Mode43.v)
   and with the reference (what the reported mode allows).  A case: write-cache?, and per step
   the step itself plus what the harness observed after it: result class, object handed out,
   reported mode, mode of every component, where the objects of the case are. *)
From Coq Require Import List NArith Bool Arith.
Import ListNotations.
From NV Require Import Gen.ShardModeConsts Shard.Mode43.

Record obs := mkObs {
  o_cls : nat;                 (* 0 done, 1 ErrReadOnlyMode, 2 ErrDegradedMode, 3 write-cache disabled, 4 other error, 9 panic *)
  o_found : bool;
  o_rep : N;                   (* raw mode.Mode values, decoded with the regenerated bits *)
  o_wc_md : N; o_wc_ro : bool;
  o_blob_ro : bool;
  o_mb_md : N; o_mb_open : nat;      (* 0 nil, 1 read-only, 2 read-write *)
  o_wset : list nat; o_bset : list nat
}.
Record case := mkCase { c_wc : bool; c_steps : list (step * obs) }.

Definition cls_of (r : res) : nat :=
  match r with Done => 0 | ErrRO => 1 | ErrDG => 2 | ErrNoWC => 3 | Other => 4 | Panic => 9 end.
Definition dec (n : N) : option md :=
  if (n =? enc RW)%N then Some RW else if (n =? enc RO)%N then Some RO
  else if (n =? enc DG)%N then Some DG else if (n =? enc DGRO)%N then Some DGRO else None.
Definition md_is (n : N) (m : md) : bool := match dec n with Some k => md_eqb k m | None => false end.
Definition open_code (o : option bool) : nat := match o with None => 0 | Some true => 1 | Some false => 2 end.

Definition subset (a b : list nat) : bool := forallb (fun x => mem x b) a.
Definition same_set (a b : list nat) : bool := subset a b && subset b a.

Definition reads_object (x : step) : bool := match x with SGet _ | SExists _ => true | _ => false end.

Definition modes_match (s : st) (o : obs) : bool :=
  md_is (o_rep o) (rep s)
  && (negb (has_wc s) || (md_is (o_wc_md o) (wc_md s) && Bool.eqb (o_wc_ro o) (wc_ro s)))
  && Bool.eqb (o_blob_ro o) (blob_ro s)
  && md_is (o_mb_md o) (fst (mbm s)) && Nat.eqb (o_mb_open o) (open_code (snd (mbm s))).
Definition sets_match (s : st) (o : obs) : bool :=
  same_set (in_wc s) (o_wset o) && same_set (in_blob s) (o_bset o).
Definition result_match (x : step) (r : res) (fnd : bool) (o : obs) : bool :=
  Nat.eqb (cls_of r) (o_cls o) && (negb (reads_object x) || Bool.eqb fnd (o_found o)).

(* objects the model still has in the write-cache but the real cache does not: candidates for a
   background flush (the flush workers run on a one-second tick of the real clock) *)
Definition gone (s : st) (o : obs) : list nat := filter (fun x => negb (mem x (o_wset o))) (in_wc s).

(* one observed step: Some next-model-state, or None on a disagreement.  The model is
   deterministic except for the background flush, which is accepted only as the model's own
   SBg step (so only where the flush workers are allowed to move objects) right after or
   right before the step *)
Definition check_step (s : st) (xo : step * obs) : option st :=
  let '(x, o) := xo in
  let '(s1, r, fnd) := do_step s x in
  if result_match x r fnd o && modes_match s1 o then
    if sets_match s1 o then Some s1
    else let s2 := do_bg (gone s1 o) s1 in
         if sets_match s2 o then Some s2
         else let s0 := do_bg (gone s o) s in
              let '(s3, r3, fnd3) := do_step s0 x in
              if result_match x r3 fnd3 o && modes_match s3 o && sets_match s3 o then Some s3 else None
  else
    let s0 := do_bg (gone s o) s in
    let '(s3, r3, fnd3) := do_step s0 x in
    if result_match x r3 fnd3 o && modes_match s3 o && sets_match s3 o then Some s3 else None.

(* index of the first disagreeing step *)
Fixpoint first_bad (s : st) (j : nat) (l : list (step * obs)) : option nat :=
  match l with
  | [] => None
  | xo :: r => match check_step s xo with Some s1 => first_bad s1 (S j) r | None => Some j end
  end.

(* results are flat lists of pairs: case index, step index *)
Fixpoint model_mism_from (i : nat) (cs : list case) : list nat :=
  match cs with
  | [] => []
  | c :: r => match first_bad (init (c_wc c)) 0 (c_steps c) with
              | None => model_mism_from (S i) r
              | Some j => i :: j :: model_mism_from (S i) r
              end
  end.
Definition model_mismatches := model_mism_from 0.

(* ---- reference: uses the observations only.  An operation must answer as the mode the shard
   REPORTS allows (mode table); a switch must report the target mode iff it succeeded *)
Definition ref_step_ok (wc : bool) (prev_rep : N) (xo : step * obs) : bool :=
  let '(x, o) := xo in
  match x with
  | SSet m _ => if Nat.eqb (o_cls o) 0 then md_is (o_rep o) m
                else Nat.eqb (o_cls o) 4 && (o_rep o =? prev_rep)%N
  | SHmf _ _ => if Nat.eqb (o_cls o) 0 then md_is (o_rep o) RO || md_is (o_rep o) DGRO
                else Nat.eqb (o_cls o) 4 && (o_rep o =? prev_rep)%N
  | SBg _ => true
  | _ => (o_rep o =? prev_rep)%N &&
         match dec (o_rep o) with
         | Some m => Nat.eqb (cls_of (ref_res m wc x)) (o_cls o)
         | None => false
         end
  end.
Fixpoint ref_bad (wc : bool) (prev : N) (i j : nat) (l : list (step * obs)) : list nat :=
  match l with
  | [] => []
  | xo :: r => (if ref_step_ok wc prev xo then [] else [i; j]) ++ ref_bad wc (o_rep (snd xo)) i (S j) r
  end.
Fixpoint ref_mism_from (i : nat) (cs : list case) : list nat :=
  match cs with
  | [] => []
  | c :: r => ref_bad (c_wc c) (enc RW) i 0 (c_steps c) ++ ref_mism_from (S i) r
  end.
Definition ref_mismatches := ref_mism_from 0.

(* ---- steps that lie in the excluded class of C43_consistent_partial (last_switch_failed: the
   most recent mode switch before the step failed).  Evaluated on the OBSERVED result classes of
   the switches; where model_mismatches is empty these are the model's, i.e. the flag `run` computes *)
Fixpoint known_steps (settled : bool) (i j : nat) (l : list (step * obs)) : list nat :=
  match l with
  | [] => []
  | xo :: r => (if settled then [] else [i; j])
               ++ known_steps (if is_switch (fst xo) then Nat.eqb (o_cls (snd xo)) 0 else settled) i (S j) r
  end.
Fixpoint known_from (i : nat) (cs : list case) : list nat :=
  match cs with
  | [] => []
  | c :: r => known_steps true i 0 (c_steps c) ++ known_from (S i) r
  end.
Definition known_class := known_from 0.
