(* C46 -- proofs about the dump/restore model of Dump.v *)
From Coq Require Import List NArith Arith Bool Lia ZArith.
Import ListNotations.
From NV Require Import Gen.ShardDumpConsts Shard.Dump.

Ltac Zify.zify_post_hook ::= Z.div_mod_to_equations.

(* ------------------------------------------------------------------ size field *)
Lemma de32_le32 n : (n < two32)%N -> de32 (le32 n) = n.
Proof.
  unfold two32, de32, le32. intros H.
  replace (n / 65536)%N with (n / 256 / 256)%N by (now rewrite N.div_div by discriminate).
  replace (n / 16777216)%N with (n / 256 / 256 / 256)%N by (now rewrite !N.div_div by discriminate).
  pose proof (N.div_mod n 256 ltac:(discriminate)) as E0.
  pose proof (N.div_mod (n / 256) 256 ltac:(discriminate)) as E1.
  pose proof (N.div_mod (n / 256 / 256) 256 ltac:(discriminate)) as E2.
  assert (n / 256 / 256 / 256 < 256)%N as L3.
  { rewrite !N.div_div by discriminate. apply N.div_lt_upper_bound; [discriminate|]. simpl. lia. }
  rewrite (N.mod_small _ _ L3).
  set (q1 := (n / 256)%N) in *. set (q2 := (q1 / 256)%N) in *. set (q3 := (q2 / 256)%N) in *.
  set (r0 := (n mod 256)%N) in *. set (r1 := (q1 mod 256)%N) in *. set (r2 := (q2 mod 256)%N) in *.
  clearbody q1 q2 q3 r0 r1 r2. lia.
Qed.

Lemma le32_length n : length (le32 n) = dump_size_len.
Proof. reflexivity. Qed.

Lemma magic_length : length dump_magic = 4.
Proof. reflexivity. Qed.

(* ------------------------------------------------------------------ list helpers *)
Lemma app_split_le {A} (c x pre rest : list A) :
  c ++ x = pre ++ rest -> length c <= length pre ->
  exists pre', pre = c ++ pre' /\ x = pre' ++ rest.
Proof.
  revert pre. induction c as [|a c IH]; intros pre H L.
  - exists pre. split; auto.
  - destruct pre as [|b pre]; [simpl in L; lia|].
    simpl in H. injection H as -> H. simpl in L.
    destruct (IH pre H ltac:(lia)) as [p' [-> ->]]. exists p'. split; auto.
Qed.

Lemma app_split_gt {A} (c x pre rest : list A) :
  c ++ x = pre ++ rest -> length pre < length c ->
  exists c2, c = pre ++ c2 /\ rest = c2 ++ x.
Proof.
  revert c. induction pre as [|b pre IH]; intros c H L.
  - exists c. split; auto.
  - destruct c as [|a c]; [simpl in L; lia|].
    simpl in H. injection H as -> H. simpl in L.
    destruct (IH c H ltac:(lia)) as [c2 [-> ->]]. exists c2. split; auto.
Qed.

(* ------------------------------------------------------------------ ReadFull *)
(* ReadFull returns exactly the next n bytes of the stream, however it is chunked *)
Lemma read_full_cons n c (r : reader) : 0 < n ->
  read_full n (c :: r) =
  if length c <=? n then
    let '(d, cs', e) := read_full (n - length c) r in (c ++ d, cs', e)
  else (firstn n c, skipn n c :: r, false).
Proof. destruct n; [lia|reflexivity]. Qed.

Lemma read_full_app : forall (cs : reader) (pre rest : bytes),
  concat cs = pre ++ rest ->
  exists cs', read_full (length pre) cs = (pre, cs', false) /\ concat cs' = rest.
Proof.
  induction cs as [|c r IH]; intros pre rest H.
  - simpl in H. symmetry in H. apply app_eq_nil in H as [-> ->].
    exists []. split; reflexivity.
  - destruct (Nat.eq_dec (length pre) 0) as [Z|NZ].
    + apply length_zero_iff_nil in Z. subst pre.
      exists (c :: r). split; [reflexivity|exact H].
    + rewrite read_full_cons by lia. cbn [concat] in H.
      destruct (length c <=? length pre) eqn:Ele.
      * apply Nat.leb_le in Ele.
        destruct (app_split_le _ _ _ _ H Ele) as [p' [Hp Hx]].
        destruct (IH p' rest Hx) as [cs' [Hr Hc]].
        assert (length pre - length c = length p') as ->
          by (rewrite Hp, app_length; lia).
        rewrite Hr. exists cs'. split; [now rewrite Hp|exact Hc].
      * apply Nat.leb_gt in Ele.
        destruct (app_split_gt _ _ _ _ H Ele) as [c2 [Hc Hrest]].
        exists (c2 :: r). split.
        -- rewrite Hc. rewrite firstn_app, firstn_all, Nat.sub_diag. simpl.
           rewrite app_nil_r. rewrite skipn_app, skipn_all, Nat.sub_diag. reflexivity.
        -- simpl. now rewrite Hrest.
Qed.

Lemma read_full_eof : forall (cs : reader) n,
  concat cs = [] -> read_full (S n) cs = ([], [], true).
Proof.
  induction cs as [|c r IH]; intros n H; [reflexivity|].
  simpl in H. apply app_eq_nil in H as [-> Hr].
  simpl. rewrite (IH n Hr). reflexivity.
Qed.

(* the bytes ReadFull hands back are always a prefix of the stream *)
Lemma read_full_data : forall (cs : reader) n,
  fst (fst (read_full n cs)) = firstn n (concat cs).
Proof.
  induction cs as [|c r IH]; intros n.
  - destruct n; reflexivity.
  - destruct n as [|m]; [reflexivity|].
    rewrite read_full_cons by lia. cbn [concat].
    destruct (length c <=? S m) eqn:Ele.
    + apply Nat.leb_le in Ele. specialize (IH (S m - length c)).
      destruct (read_full (S m - length c) r) as [[d cs'] e].
      cbn [fst] in *. rewrite IH. rewrite firstn_app.
      rewrite (firstn_all2 c) by lia. reflexivity.
    + apply Nat.leb_gt in Ele. cbn [fst].
      rewrite firstn_app. replace (S m - length c) with 0 by lia.
      rewrite firstn_O, app_nil_r. reflexivity.
Qed.

(* ------------------------------------------------------------------ Restore *)
Definition small (o : bytes) : Prop := (N.of_nat (length o) < two32)%N.

Lemma records_length (recs : list bytes) :
  length recs <= length (concat (map record recs)).
Proof.
  induction recs as [|d r IH]; [simpl; lia|].
  cbn [map concat length]. rewrite app_length.
  assert (E : length (record d) = 4 + length d)
    by (unfold record; rewrite app_length; reflexivity).
  rewrite E. lia.
Qed.

Section Framed.
  Variable unm : bytes -> option nat.
  Variable sink : bytes -> sres.

  Lemma loop_framed : forall ign (recs : list bytes) fuel (cs : reader) acc cnt fl,
    Forall small recs ->
    concat cs = concat (map record recs) ->
    length recs < fuel ->
    restore_loop unm sink body_full fuel ign cs acc cnt fl
    = ref_restore unm sink ign recs acc cnt fl.
  Proof.
    intros ign. induction recs as [|d r IH]; intros fuel cs acc cnt fl Hs Hc Hf.
    - destruct fuel as [|f]; [simpl in Hf; lia|].
      simpl in Hc. cbn [restore_loop]. unfold dump_size_len.
      rewrite (read_full_eof cs 3 Hc). reflexivity.
    - destruct fuel as [|f]; [simpl in Hf; lia|].
      inversion Hs as [|? ? Hd Hr]; subst.
      cbn [map concat] in Hc. unfold record in Hc. rewrite <- !app_assoc in Hc.
      cbn [restore_loop].
      destruct (read_full_app cs _ _ Hc) as [cs1 [R1 C1]].
      rewrite le32_length in R1. rewrite R1.
      rewrite de32_le32 by (unfold u32; apply N.mod_lt; discriminate).
      unfold u32. rewrite N.mod_small by exact Hd.
      rewrite N.min_l by (rewrite C1, app_length; lia). rewrite Nat2N.id.
      destruct (read_full_app cs1 _ _ C1) as [cs2 [R2 C2]].
      unfold body_full. rewrite R2. cbn [andb].
      cbn [ref_restore].
      destruct (unm d).
      + destruct ign; try reflexivity. apply IH; auto; simpl in Hf; lia.
      + destruct (sink d); try reflexivity; apply IH; auto; simpl in Hf; lia.
  Qed.

  Theorem restore_framed : forall ign (recs : list bytes) (cs : reader),
    Forall small recs ->
    concat cs = dump recs ->
    restore unm sink ign cs = ref_restore unm sink ign recs [] 0 0.
  Proof.
    intros ign recs cs Hs Hc. unfold restore, restore_with.
    unfold dump in Hc.
    destruct (read_full_app cs _ _ Hc) as [cs1 [R1 C1]].
    rewrite R1. unfold bytes_eqb.
    destruct (list_eq_dec N.eq_dec dump_magic dump_magic) as [_|N]; [|congruence].
    apply loop_framed; auto.
    rewrite Hc, app_length. pose proof (records_length recs). lia.
  Qed.

  Theorem restore_bad_magic : forall ign (cs : reader),
    firstn (length dump_magic) (concat cs) <> dump_magic ->
    restore unm sink ign cs = mkRes [] 0 0 EMagic.
  Proof.
    intros ign cs H. unfold restore, restore_with.
    pose proof (read_full_data cs (length dump_magic)) as D.
    destruct (read_full (length dump_magic) cs) as [[m cs1] e]. simpl in D. subst m.
    unfold bytes_eqb.
    destruct (list_eq_dec N.eq_dec _ dump_magic) as [E|_]; [contradiction|reflexivity].
  Qed.

  (* ---- consequences of the reference semantics ---- *)
  Definition decodes (o : bytes) : bool := match unm o with None => true | Some _ => false end.
  Definition good (o : bytes) : Prop := unm o = None /\ sink o = Stored.
  Definition is_stored (o : bytes) : bool :=
    decodes o && match sink o with Stored => true | _ => false end.
  Definition not_failed (o : bytes) : Prop := unm o = None -> forall c, sink o <> Failed c.

  Lemma ref_all_good : forall ign objs acc cnt fl,
    Forall good objs ->
    ref_restore unm sink ign objs acc cnt fl
    = mkRes (rev acc ++ objs) (cnt + length objs) fl ENone.
  Proof.
    intros ign. induction objs as [|o r IH]; intros acc cnt fl H.
    - simpl. now rewrite app_nil_r, Nat.add_0_r.
    - inversion H as [|? ? [Hu Hk] Hr]; subst. cbn [ref_restore]. rewrite Hu, Hk.
      rewrite IH by auto. f_equal; [cbn [rev]; rewrite <- app_assoc; reflexivity|simpl; lia].
  Qed.

  Lemma ref_skip : forall recs acc cnt fl,
    Forall not_failed recs ->
    ref_restore unm sink true recs acc cnt fl
    = mkRes (rev acc ++ filter is_stored recs)
            (cnt + length (filter decodes recs))
            (fl + length (filter (fun o => negb (decodes o)) recs)) ENone.
  Proof.
    induction recs as [|o r IH]; intros acc cnt fl H.
    - simpl. now rewrite app_nil_r, !Nat.add_0_r.
    - inversion H as [|? ? Hnf Hr]; subst. cbn [ref_restore]. unfold not_failed in Hnf.
      destruct (unm o) eqn:Hu.
      + assert (D : decodes o = false) by (unfold decodes; now rewrite Hu).
        assert (S0 : is_stored o = false) by (unfold is_stored; now rewrite D).
        cbn [filter]. rewrite D, S0. cbn [negb]. rewrite IH by auto.
        f_equal; simpl; lia.
      + assert (D : decodes o = true) by (unfold decodes; now rewrite Hu).
        cbn [filter]. rewrite D. cbn [negb]. unfold is_stored at 1. rewrite D. cbn [andb].
        destruct (sink o) eqn:Hk.
        * rewrite IH by auto.
          f_equal; [cbn [rev]; rewrite <- app_assoc; reflexivity|simpl; lia].
        * rewrite IH by auto. f_equal; simpl; lia.
        * exfalso. now apply (Hnf eq_refl c).
  Qed.

  Lemma ref_report : forall goods bad c rest acc cnt fl,
    Forall (fun o => unm o = None /\ forall c, sink o <> Failed c) goods ->
    unm bad = Some c ->
    ref_restore unm sink false (goods ++ bad :: rest) acc cnt fl
    = mkRes (rev acc ++ filter is_stored goods) (cnt + length goods) fl (EOther c).
  Proof.
    induction goods as [|o r IH]; intros bad c rest acc cnt fl H Hb.
    - simpl. rewrite Hb. now rewrite app_nil_r, Nat.add_0_r.
    - inversion H as [|? ? [Hu Hnf] Hr]; subst.
      assert (D : decodes o = true) by (unfold decodes; now rewrite Hu).
      cbn [app ref_restore filter]. unfold is_stored at 1. rewrite D, Hu.
      cbn [andb].
      destruct (sink o) eqn:Hk.
      + rewrite (IH bad c) by auto. f_equal; [cbn [rev]; rewrite <- app_assoc; reflexivity|simpl; lia].
      + rewrite (IH bad c) by auto. f_equal; simpl; lia.
      + exfalso. now apply (Hnf c0).
  Qed.
End Framed.

(* ------------------------------------------------------------------ properties *)
Theorem roundtrip : forall unm sink ign (objs : list bytes) (cs : reader),
  Forall small objs -> Forall (good unm sink) objs ->
  concat cs = dump objs ->
  restore unm sink ign cs = mkRes objs (length objs) 0 ENone.
Proof.
  intros. rewrite (restore_framed unm sink ign objs cs) by auto.
  rewrite ref_all_good by auto. reflexivity.
Qed.

Theorem corrupt_skipped : forall unm sink (recs : list bytes) (cs : reader),
  Forall small recs -> Forall (not_failed unm sink) recs ->
  concat cs = dump recs ->
  restore unm sink true cs
  = mkRes (filter (is_stored unm sink) recs) (length (filter (decodes unm) recs))
          (length (filter (fun o => negb (decodes unm o)) recs)) ENone.
Proof.
  intros. rewrite (restore_framed unm sink true recs cs) by auto.
  rewrite ref_skip by auto. reflexivity.
Qed.

Theorem corrupt_reported : forall unm sink (goods : list bytes) bad c rest (cs : reader),
  Forall small (goods ++ bad :: rest) ->
  Forall (fun o => unm o = None /\ forall c, sink o <> Failed c) goods -> unm bad = Some c ->
  concat cs = dump (goods ++ bad :: rest) ->
  restore unm sink false cs
  = mkRes (filter (is_stored unm sink) goods) (length goods) 0 (EOther c).
Proof.
  intros. rewrite (restore_framed unm sink false (goods ++ bad :: rest) cs) by assumption.
  rewrite (ref_report unm sink goods bad c) by auto. reflexivity.
Qed.

(* chunk sizes really produce a chunking of the stream *)
Lemma concat_chunk : forall sizes s, concat (chunk sizes s) = s.
Proof.
  induction sizes as [|n r IH]; intros s.
  - destruct s; simpl; [reflexivity|now rewrite app_nil_r].
  - destruct s as [|b s']; [reflexivity|].
    cbn [chunk concat]. rewrite IH. apply firstn_skipn.
Qed.

Theorem roundtrip_chunked : forall unm sink ign (objs : list bytes) (sizes : list nat),
  Forall small objs -> Forall (good unm sink) objs ->
  restore unm sink ign (chunk sizes (dump objs)) = mkRes objs (length objs) 0 ENone.
Proof.
  intros. apply roundtrip; auto. apply concat_chunk.
Qed.

(* ---- the code before the fix (single Read for the body) does not have the property ---- *)
Theorem single_read_refuted : forall unm sink ign,
  exists (objs : list bytes) (cs : reader),
    Forall small objs /\ concat cs = dump objs /\
    (Forall (good unm sink) objs ->
     restore_old unm sink ign cs <> mkRes objs (length objs) 0 ENone).
Proof.
  intros unm sink ign.
  exists [[1; 1]%N], [dump_magic ++ [2; 0; 0; 0; 1]%N; [1]%N].
  split; [repeat constructor|]. split; [reflexivity|].
  intros _. vm_compute.
  destruct (unm [1; 0]%N); [destruct ign|destruct (sink [1; 0]%N)]; discriminate.
Qed.
