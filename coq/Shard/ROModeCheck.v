(* C14 -- executable comparison.  A case: mode, write-cache?, and per step the operation,
   the result class the real shard gave, and whether the on-disk snapshot changed. *)
From Coq Require Import List NArith Bool Arith.
Import ListNotations.
From NV Require Import Gen.ShardModeConsts Shard.ROMode.

Definition op_of (n : nat) : op :=
  match n with
  | 0 => Put | 1 => Delete | 2 => MarkGarbage | 3 => InhumeContainer | 4 => DeleteContainer
  | 5 => Restore | 6 => Revive | 7 => FlushWC | 8 => GCPass | 9 => EpochEvent
  | 10 => Get | 11 => Exists | 12 => ListObjs | _ => Dump
  end.
(* harness classes: 0 ok / returned, 1 ErrReadOnlyMode, 2 ErrDegradedMode, 3 write-cache disabled, 4 other error *)
Definition class_of (o : op) (r : res) : nat :=
  match r with
  | Done => 0 | Skipped => 0 | ErrReadOnly => 1 | ErrDegraded => 2 | ErrNoWC => 3
  end.
Definition res_of_class (o : op) (c : nat) : option res :=
  match c with
  | 0 => Some (if background o then Skipped else Done)
  | 1 => Some ErrReadOnly | 2 => Some ErrDegraded | 3 => Some ErrNoWC | _ => None
  end.

Record case := mkCase { c_mode : N; c_wc : bool; c_steps : list (nat * nat * bool) }.

(* model: same result class, and the model says the state is unchanged (unit state: the
   theorem is parametric in the state) -- so any observed change is a mismatch *)
Definition step_ok (m : N) (wc : bool) (st : nat * nat * bool) : bool :=
  let '(o, cls, changed) := st in
  Nat.eqb (class_of (op_of o) (guard m wc (op_of o))) cls && negb changed.
Definition model_ok (c : case) : bool := forallb (step_ok (c_mode c) (c_wc c)) (c_steps c).

Definition step_ref_ok (m : N) (wc : bool) (st : nat * nat * bool) : bool :=
  let '(o, cls, changed) := st in
  negb changed &&
  match res_of_class (op_of o) cls with
  | Some r => ref_result_ok m wc (op_of o) r
  | None => false
  end.
Definition ref_ok (c : case) : bool :=
  read_only (c_mode c) && forallb (step_ref_ok (c_mode c) (c_wc c)) (c_steps c).

Fixpoint mism_from (i : nat) (f : case -> bool) (cs : list case) : list nat :=
  match cs with
  | [] => []
  | c :: r => if f c then mism_from (S i) f r else i :: mism_from (S i) f r
  end.
Definition model_mismatches := mism_from 0 model_ok.
Definition ref_mismatches := mism_from 0 ref_ok.
