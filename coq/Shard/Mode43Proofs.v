(* C43 -- proofs about the model Shard/Mode43.v *)
From Coq Require Import List NArith Bool Arith Lia.
Import ListNotations.
From NV Require Import Gen.ShardModeConsts Shard.Mode43.
From NV Require Shard.ROMode.

(* ---------------------------------------------------------------- small facts *)
Lemma md_eqb_eq a b : md_eqb a b = true <-> a = b.
Proof. destruct a, b; cbn; split; intro H; try reflexivity; try discriminate; auto. Qed.
Lemma md_eqb_refl a : md_eqb a a = true.
Proof. destruct a; reflexivity. Qed.
Lemma res_eqb_eq a b : res_eqb a b = true <-> a = b.
Proof. destruct a, b; cbn; split; intro H; try reflexivity; try discriminate; auto. Qed.

Lemma mem_In x l : mem x l = true <-> In x l.
Proof.
  unfold mem. rewrite existsb_exists. split.
  - intros [y [Hy E]]. apply Nat.eqb_eq in E. subst. exact Hy.
  - intros H. exists x. split; [exact H | apply Nat.eqb_refl].
Qed.
Lemma In_add x y l : In x (add y l) <-> x = y \/ In x l.
Proof.
  unfold add. destruct (mem y l) eqn:E.
  - apply mem_In in E. split; [auto | intros [->|H]; auto].
  - cbn. split; intros [H|H]; auto.
Qed.
Lemma In_union x a b : In x (union a b) <-> In x a \/ In x b.
Proof.
  induction a as [|y a IH]; cbn.
  - tauto.
  - rewrite In_add, IH. intuition (subst; auto).
Qed.

(* ---------------------------------------------------------------- invariants of the components *)
(* the metabase never claims a mode its bolt handle does not back *)
Definition mb_inv (x : md * option bool) : bool := mb_in (fst x) x.
(* the remembered storage mode, when there is one, is the storage's real one *)
Definition bl_inv (x : option md * bool) : bool :=
  match fst x with Some k => Bool.eqb (snd x) (ro k) | None => true end.
Definition inv (s : st) : bool := mb_inv (mbm s) && bl_inv (blm s).

Lemma mb_switch_spec m f x x' ok :
  mb_inv x = true -> mb_switch m f x = (x', ok) ->
  mb_inv x' = true /\ (ok = true -> mb_in m x' = true).
Proof.
  destruct x as [cur o]. unfold mb_switch, mb_inv.
  destruct m, f, cur, o as [[]|]; cbn; intros H E; inversion E; subst; cbn; split; auto; try discriminate.
Qed.

Lemma bl_switch_spec m f x x' ok :
  bl_inv x = true -> bl_switch m f x = (x', ok) ->
  bl_inv x' = true /\ (ok = true -> bl_in m x' = true).
Proof.
  destruct x as [k b]. unfold bl_switch, bl_inv, bl_in.
  destruct m, f, k as [[]|], b; cbn; intros H E; inversion E; subst; cbn; split; auto; try discriminate.
Qed.

Lemma wc_switch_spec m f x x' ok :
  wc_switch m f x = (x', ok) -> ok = true -> wc_in m x' = true.
Proof.
  destruct x as [cur b]. unfold wc_switch, wc_in.
  destruct m, f, cur, b; cbn; intros E; inversion E; subst; cbn; auto; try discriminate.
Qed.

(* ---------------------------------------------------------------- frames *)
(* what a mode switch never touches, and what it keeps as a set *)
Definition keeps (s s' : st) : Prop :=
  has_wc s' = has_wc s /\ in_meta s' = in_meta s
  /\ (forall x, In x (in_blob s) -> In x (in_blob s'))
  /\ (forall x, In x (in_wc s) -> In x (in_wc s') \/ In x (in_blob s'))
  /\ (forall x, In x (in_wc s') \/ In x (in_blob s') -> In x (in_wc s) \/ In x (in_blob s)).
Lemma keeps_refl s : keeps s s.
Proof. unfold keeps. repeat split; auto. Qed.
Lemma keeps_trans a b c : keeps a b -> keeps b c -> keeps a c.
Proof.
  unfold keeps. intros (A1 & A2 & A3 & A4 & A5) (B1 & B2 & B3 & B4 & B5).
  split; [congruence|]. split; [congruence|]. split; [auto|]. split.
  - intros x H. destruct (A4 x H) as [H1|H1]; auto.
  - intros x H. apply A5, B5, H.
Qed.
Lemma keeps_same s s' :
  has_wc s' = has_wc s -> in_meta s' = in_meta s -> in_wc s' = in_wc s -> in_blob s' = in_blob s -> keeps s s'.
Proof. unfold keeps. intros -> -> -> ->. repeat split; auto. Qed.

Lemma wc_flush_spec s s1 :
  wc_flush s = Some s1 ->
  rep s1 = rep s /\ wcm s1 = wcm s /\ blm s1 = blm s /\ mbm s1 = mbm s /\ keeps s s1.
Proof.
  unfold wc_flush. destruct (in_wc s) as [|y l] eqn:E.
  - intros H. inversion H; subst. repeat split; auto; apply keeps_refl.
  - destruct (blob_ro s); [discriminate|]. intros H. inversion H; subst; clear H.
    destruct (wc_ro s); cbn; (split; [reflexivity|]); (split; [reflexivity|]); (split; [reflexivity|]); (split; [reflexivity|]);
      unfold keeps; cbn; (split; [reflexivity|]); (split; [reflexivity|]); rewrite ?E; repeat split; intros x; rewrite ?In_add, ?In_union; cbn; intuition (subst; auto).
Qed.

Lemma comp_switch_spec c m f s s' ok :
  inv s = true -> comp_switch c m f s = (s', ok) ->
  rep s' = rep s /\ keeps s s' /\ inv s' = true
  /\ match c with
     | CMb => wcm s' = wcm s /\ blm s' = blm s /\ (ok = true -> mb_in m (mbm s') = true)
     | CBlob => wcm s' = wcm s /\ mbm s' = mbm s /\ (ok = true -> bl_in m (blm s') = true)
     | CWc => blm s' = blm s /\ mbm s' = mbm s /\ (ok = true -> wc_in m (wcm s') = true)
     end.
Proof.
  unfold inv. intros Hi. apply andb_prop in Hi. destruct Hi as [Hm Hb].
  destruct c; cbn [comp_switch].
  - destruct (mb_switch m f (mbm s)) as [x o] eqn:E. intros H. inversion H; subst; clear H.
    destruct (mb_switch_spec _ _ _ _ _ Hm E) as [I1 I2].
    split; [reflexivity|]. split; [apply keeps_same; reflexivity|].
    split; [cbn; now rewrite I1, Hb|]. cbn. auto.
  - destruct (bl_switch m f (blm s)) as [x o] eqn:E. intros H. inversion H; subst; clear H.
    destruct (bl_switch_spec _ _ _ _ _ Hb E) as [I1 I2].
    split; [reflexivity|]. split; [apply keeps_same; reflexivity|].
    split; [cbn; now rewrite I1, Hm|]. cbn. auto.
  - destruct (if nometa m && negb (nometa (wc_md s)) then wc_flush s else Some s) as [s1|] eqn:F.
    + assert (rep s1 = rep s /\ wcm s1 = wcm s /\ blm s1 = blm s /\ mbm s1 = mbm s /\ keeps s s1) as (R1 & R2 & R3 & R4 & R5).
      { destruct (nometa m && negb (nometa (wc_md s))).
        - apply wc_flush_spec. exact F.
        - inversion F; subst. repeat split; auto using keeps_refl. }
      destruct (wc_switch m f (wcm s1)) as [x o] eqn:E. intros H. inversion H; subst; clear H.
      split; [exact R1|].
      split; [eapply keeps_trans; [exact R5 | apply keeps_same; reflexivity]|].
      split; [cbn; now rewrite R3, R4, Hm, Hb|].
      cbn. split; [exact R3|]. split; [exact R4|]. intros Ho. eapply wc_switch_spec; eauto.
    + intros H. inversion H; subst; clear H.
      split; [reflexivity|]. split; [apply keeps_refl|]. split; [now rewrite Hm, Hb|].
      split; [reflexivity|]. split; [reflexivity|]. discriminate.
Qed.

Definition comp_in (c : comp) (m : md) (s : st) : bool :=
  match c with CMb => mb_in m (mbm s) | CBlob => bl_in m (blm s) | CWc => wc_in m (wcm s) end.

Lemma comp_switch_in c m f s s' :
  inv s = true -> comp_switch c m f s = (s', true) -> comp_in c m s' = true.
Proof.
  intros Hi E. pose proof (comp_switch_spec _ _ _ _ _ _ Hi E) as (_ & _ & _ & S).
  destruct c; cbn; destruct S as (_ & _ & C); exact (C eq_refl).
Qed.

Lemma comp_keeps_other c c2 m f s s' ok :
  inv s = true -> comp_switch c2 m f s = (s', ok) -> c <> c2 -> comp_in c m s' = comp_in c m s.
Proof.
  intros Hi E N. pose proof (comp_switch_spec _ _ _ _ _ _ Hi E) as (_ & _ & _ & S).
  destruct c, c2; try (exfalso; apply N; reflexivity); cbn; destruct S as (A & B & _); rewrite ?A, ?B; reflexivity.
Qed.

Lemma comp_eq_dec (a b : comp) : {a = b} + {a <> b}.
Proof. decide equality. Qed.

Lemma run_comps_spec cs m f : forall s s' ok,
  inv s = true -> run_comps cs m f s = (s', ok) ->
  rep s' = rep s /\ keeps s s' /\ inv s' = true
  /\ (ok = true -> forall c, (In c cs \/ comp_in c m s = true) -> comp_in c m s' = true).
Proof.
  induction cs as [|c cs IH]; intros s s' ok Hi; cbn [run_comps].
  - intros H. inversion H; subst.
    split; [reflexivity|]. split; [apply keeps_refl|]. split; [exact Hi|].
    intros _ c [[]|H1]. exact H1.
  - destruct (comp_switch c m f s) as [s1 o] eqn:E.
    pose proof (comp_switch_spec _ _ _ _ _ _ Hi E) as (R & K & I & _).
    destruct o.
    + intros H. destruct (IH _ _ _ I H) as (R2 & K2 & I2 & P).
      split; [congruence|]. split; [eapply keeps_trans; eauto|]. split; [exact I2|].
      intros Ho c0 Hc. apply P; [exact Ho|].
      destruct (comp_eq_dec c0 c) as [->|N].
      * right. exact (comp_switch_in _ _ _ _ _ Hi E).
      * destruct Hc as [[Hc|Hc]|Hc].
        -- exfalso. apply N. symmetry. exact Hc.
        -- left. exact Hc.
        -- right. rewrite (comp_keeps_other _ _ _ _ _ _ _ Hi E N). exact Hc.
    + intros H. inversion H; subst.
      split; [exact R|]. split; [exact K|]. split; [exact I|]. discriminate.
Qed.

Lemma comps_has m wc : In CMb (comps m wc) /\ In CBlob (comps m wc) /\ (wc = true -> In CWc (comps m wc)).
Proof. unfold comps. destruct (md_eqb m RW), wc; cbn; repeat split; auto; discriminate. Qed.

(* ---------------------------------------------------------------- set_mode *)
Theorem set_mode_spec m f s s' ok :
  inv s = true -> set_mode m f s = (s', ok) ->
  keeps s s' /\ inv s' = true
  /\ rep s' = (if ok then m else rep s)
  /\ (ok = true -> consistent s' = true).
Proof.
  intros Hi. unfold set_mode.
  destruct (run_comps (comps m (has_wc s)) m f s) as [s1 o] eqn:E.
  destruct (run_comps_spec _ _ _ _ _ _ Hi E) as (R & K & I & P).
  destruct o; intros H; inversion H; subst; clear H.
  - split; [eapply keeps_trans; [exact K | apply keeps_same; reflexivity]|].
    split; [exact I|]. split; [reflexivity|].
    intros _. unfold consistent. cbn.
    destruct (comps_has m (has_wc s)) as (C1 & C2 & C3).
    pose proof (P eq_refl CMb (or_introl C1)) as P1. pose proof (P eq_refl CBlob (or_introl C2)) as P2.
    cbn in P1, P2. rewrite P1, P2. cbn.
    destruct K as (Kw & _). rewrite Kw. destruct (has_wc s) eqn:W; [|reflexivity].
    cbn. exact (P eq_refl CWc (or_introl (C3 eq_refl))).
  - split; [exact K|]. split; [exact I|]. split; [exact R|]. discriminate.
Qed.

Lemma hmf_spec f1 f2 s s' ok :
  inv s = true -> handle_mb_failure f1 f2 s = (s', ok) ->
  keeps s s' /\ inv s' = true
  /\ (ok = false -> rep s' = rep s)
  /\ (ok = true -> consistent s' = true /\ (rep s' = RO \/ rep s' = DGRO)).
Proof.
  intros Hi. unfold handle_mb_failure.
  destruct (set_mode RO f1 s) as [s1 o] eqn:E.
  destruct (set_mode_spec _ _ _ _ _ Hi E) as (K & I & R & C).
  cbn in R. destruct o.
  - intros H. inversion H; subst.
    split; [exact K|]. split; [exact I|]. split; [discriminate|].
    intros _. split; [apply C; reflexivity | left; exact R].
  - intros H. destruct (set_mode_spec _ _ _ _ _ I H) as (K2 & I2 & R2 & C2).
    split; [eapply keeps_trans; eauto|]. split; [exact I2|]. split.
    + intros ->. cbn in R2. congruence.
    + intros ->. cbn in R2. split; [apply C2; reflexivity | right; exact R2].
Qed.

(* ---------------------------------------------------------------- operations keep the modes *)
Definition modes (s : st) := (rep s, has_wc s, wcm s, blm s, mbm s).
Lemma consistent_modes s s' : modes s' = modes s -> consistent s' = consistent s.
Proof. unfold modes, consistent. intros H. inversion H. congruence. Qed.
Lemma inv_modes s s' : modes s' = modes s -> inv s' = inv s.
Proof. unfold modes, inv. intros H. inversion H. congruence. Qed.

Lemma wc_del_modes id s : modes (wc_del id s) = modes s.
Proof. unfold wc_del. destruct (wc_writable s); reflexivity. Qed.
Lemma blob_del_modes id s : modes (blob_del id s) = modes s.
Proof. unfold blob_del. destruct (blob_ro s); reflexivity. Qed.

Lemma op_modes s x : is_switch x = false -> modes (fst (fst (do_step s x))) = modes s.
Proof.
  destruct x; cbn [is_switch do_step]; try discriminate; intros _.
  - (* put *) unfold do_put.
    repeat match goal with
           | |- context [if ?b then _ else _] => destruct b
           | |- context [match ?b with MOk => _ | MErr => _ | MPanic => _ end] => destruct b
           end; cbn; rewrite ?blob_del_modes, ?wc_del_modes; reflexivity.
  - destruct (do_get id s); reflexivity.
  - unfold do_del.
    repeat match goal with
           | |- context [if ?b then _ else _] => destruct b
           | |- context [match ?b with MOk => _ | MErr => _ | MPanic => _ end] => destruct b
           end; cbn; rewrite ?blob_del_modes, ?wc_del_modes; reflexivity.
  - destruct (do_exists id s); reflexivity.
  - reflexivity.
  - unfold do_flush. destruct (has_wc s); cbn; [|reflexivity].
    destruct (ro (rep s)); cbn; [reflexivity|]. destruct (nometa (rep s)); cbn; [reflexivity|].
    destruct (wc_flush s) as [s1|] eqn:E; cbn; [|reflexivity].
    destruct (wc_flush_spec _ _ E) as (A & B & C & D & (K & _)). unfold modes. congruence.
  - cbn. unfold do_bg.
    destruct (ro (wc_md s) || blob_ro s || negb (has_wc s)); [reflexivity|].
    destruct (wc_ro s); reflexivity.
Qed.

(* ---------------------------------------------------------------- consistent states answer as the reported mode says *)
Lemma consistent_fields s :
  consistent s = true ->
  mb_in (rep s) (mbm s) = true /\ bl_in (rep s) (blm s) = true /\ (has_wc s = true -> wc_in (rep s) (wcm s) = true).
Proof.
  unfold consistent. intros H. apply andb_prop in H. destruct H as [H H3]. apply andb_prop in H. destruct H as [H1 H2].
  repeat split; auto. intros W. rewrite W in H3. exact H3.
Qed.

Theorem consistent_ref s x :
  consistent s = true -> is_op x = true ->
  snd (fst (do_step s x)) = ref_res (rep s) (has_wc s) x.
Proof.
  intros C Hop. destruct (consistent_fields _ C) as (M & B & W). clear C.
  destruct s as [r w [wmd wro] [sm bro] [mmd mop] iw ib im]. cbn in M, B, W.
  unfold mb_in in M. unfold bl_in in B. cbn in M, B.
  apply andb_prop in M. destruct M as [M1 M2]. apply md_eqb_eq in M1. subst mmd.
  apply eqb_prop in B. subst bro.
  assert (T : forall (b : bool) (A : Type) (u : A), (if b then u else u) = u) by (intros []; reflexivity).
  destruct w.
  - specialize (W eq_refl). unfold wc_in in W. cbn in W. apply andb_prop in W. destruct W as [W1 W2].
    apply md_eqb_eq in W1. subst wmd.
    destruct r, mop as [[]|]; cbn in M2; try discriminate; destruct wro; cbn in W2; try discriminate;
      destruct x; try discriminate; cbn -[mem add del union]; try reflexivity;
      try (destruct (mem id im); reflexivity); destruct iw; reflexivity.
  - clear W.
    destruct r, mop as [[]|]; cbn in M2; try discriminate;
      destruct x; try discriminate; cbn -[mem add del union]; try reflexivity;
      try (destruct (mem id im); reflexivity); destruct iw; reflexivity.
Qed.

(* ---------------------------------------------------------------- histories *)
Lemma do_step_inv s x : inv s = true -> inv (fst (fst (do_step s x))) = true.
Proof.
  intros Hi. destruct (is_switch x) eqn:S.
  - destruct x; try discriminate; cbn [do_step].
    + destruct (set_mode m f s) as [s1 o] eqn:E. cbn. now destruct (set_mode_spec _ _ _ _ _ Hi E) as (_ & I & _).
    + destruct (handle_mb_failure f1 f2 s) as [s1 o] eqn:E. cbn. now destruct (hmf_spec _ _ _ _ _ Hi E) as (_ & I & _).
  - rewrite (inv_modes _ _ (op_modes s x S)). exact Hi.
Qed.

Lemma do_step_has_wc s x : inv s = true -> has_wc (fst (fst (do_step s x))) = has_wc s.
Proof.
  intros Hi. destruct (is_switch x) eqn:S.
  - destruct x; try discriminate; cbn [do_step].
    + destruct (set_mode m f s) as [s1 o] eqn:E. cbn. now destruct (set_mode_spec _ _ _ _ _ Hi E) as ((K & _) & _).
    + destruct (handle_mb_failure f1 f2 s) as [s1 o] eqn:E. cbn. now destruct (hmf_spec _ _ _ _ _ Hi E) as ((K & _) & _).
  - pose proof (op_modes s x S) as Hm. unfold modes in Hm. inversion Hm. reflexivity.
Qed.

Lemma run_spec h : forall s settled s' settled',
  inv s = true -> (settled = true -> consistent s = true) ->
  run s settled h = (s', settled') ->
  inv s' = true /\ has_wc s' = has_wc s /\ (settled' = true -> consistent s' = true).
Proof.
  induction h as [|x h IH]; intros s settled s' settled' Hi Hc; cbn [run].
  - intros H. inversion H; subst. auto.
  - destruct (do_step s x) as [[s1 rs] b] eqn:E.
    pose proof (do_step_inv s x Hi) as I1. rewrite E in I1. cbn in I1.
    pose proof (do_step_has_wc s x Hi) as W1. rewrite E in W1. cbn in W1.
    intros H. rewrite <- W1. revert H.
    apply IH; [exact I1|].
    destruct (is_switch x) eqn:S.
    + intros Hr. apply res_eqb_eq in Hr. subst rs.
      destruct x; try discriminate; cbn [do_step] in E.
      * destruct (set_mode m f s) as [s2 o] eqn:E2. destruct o; inversion E; subst.
        now destruct (set_mode_spec _ _ _ _ _ Hi E2) as (_ & _ & _ & C); auto.
      * destruct (handle_mb_failure f1 f2 s) as [s2 o] eqn:E2. destruct o; inversion E; subst.
        now destruct (hmf_spec _ _ _ _ _ Hi E2) as (_ & _ & _ & C); apply C.
    + intros Hs. pose proof (op_modes s x S) as Hm. rewrite E in Hm. cbn in Hm.
      rewrite (consistent_modes _ _ Hm). auto.
Qed.

Lemma init_inv wc : inv (init wc) = true /\ consistent (init wc) = true.
Proof. destruct wc; split; reflexivity. Qed.

(* the state after a history *)
Definition after (wc : bool) (h : list step) : st := fst (run (init wc) true h).

Lemma after_inv wc h : inv (after wc h) = true /\ has_wc (after wc h) = wc.
Proof.
  unfold after. destruct (run (init wc) true h) as [s b] eqn:E.
  destruct (init_inv wc) as [I C]. destruct (run_spec h _ _ _ _ I (fun _ => C) E) as (A & B & _).
  split; [exact A | exact B].
Qed.

(* clause 1, for histories outside the excluded class *)
Theorem consistent_partial wc h x :
  last_switch_failed wc h = false -> is_op x = true ->
  snd (fst (do_step (after wc h) x)) = ref_res (rep (after wc h)) wc x.
Proof.
  intros Hb Hop. destruct (after_inv wc h) as [_ W].
  assert (Hc : consistent (after wc h) = true).
  { unfold last_switch_failed in Hb. unfold after. destruct (run (init wc) true h) as [s b] eqn:E. cbn in *.
    apply negb_false_iff in Hb. subst b.
    destruct (init_inv wc) as [I C]. destruct (run_spec h _ _ _ _ I (fun _ => C) E) as (_ & _ & C2). auto. }
  pose proof (consistent_ref _ x Hc Hop) as R. rewrite W in R. exact R.
Qed.

(* ---------------------------------------------------------------- clause 1 is false in general *)
(* no write-cache; put an object; SetMode(read-only) with the metabase impossible to reopen: the
   storage is read-only already, the shard still reports read-write -> a put is refused, a get fails *)
Definition refuting_history : list step := [SPut 0; SSet RO FMbOpen].
Theorem consistent_refuted :
  exists wc h x, is_op x = true /\ last_switch_failed wc h = true
    /\ ref_res (rep (after wc h)) wc x = Done
    /\ snd (fst (do_step (after wc h) x)) <> ref_res (rep (after wc h)) wc x.
Proof.
  exists false, refuting_history, (SPut 1). vm_compute. repeat split; discriminate.
Qed.
Theorem consistent_refuted_get :
  snd (fst (do_step (after false refuting_history) (SGet 0))) = Other
  /\ ref_res (rep (after false refuting_history)) false (SGet 0) = Done.
Proof. vm_compute. split; reflexivity. Qed.

(* ---------------------------------------------------------------- a successful switch *)
Theorem switch_success_consistent wc h m f s' :
  set_mode m f (after wc h) = (s', true) ->
  rep s' = m /\ consistent s' = true /\ forall x, is_op x = true -> snd (fst (do_step s' x)) = ref_res m wc x.
Proof.
  intros E. destruct (after_inv wc h) as [I W].
  destruct (set_mode_spec _ _ _ _ _ I E) as ((Kw & _) & I2 & R & C). cbn in R.
  split; [exact R|]. split; [auto|].
  intros x Hop. rewrite (consistent_ref s' x (C eq_refl) Hop), R, Kw, W. reflexivity.
Qed.

Lemma held_keeps s s' id : keeps s s' -> held id s = true -> held id s' = true.
Proof.
  intros (Kw & _ & K3 & K4 & _). unfold held. rewrite Kw. intros H.
  apply orb_true_iff in H. apply orb_true_iff. destruct H as [H|H].
  - apply andb_prop in H. destruct H as [H1 H2]. rewrite H1. apply mem_In in H2.
    destruct (K4 _ H2) as [H3|H3]; [left | right]; cbn; apply mem_In; exact H3.
  - right. apply mem_In. apply K3. apply mem_In. exact H.
Qed.

(* no mode switch, successful or not, loses an object or a metadata record *)
Theorem contents_intact wc h :
  (forall m f, let s := after wc h in let s' := fst (set_mode m f s) in
     in_meta s' = in_meta s /\ forall id, held id s = true -> held id s' = true)
  /\ (forall f1 f2, let s := after wc h in let s' := fst (handle_mb_failure f1 f2 s) in
     in_meta s' = in_meta s /\ forall id, held id s = true -> held id s' = true).
Proof.
  destruct (after_inv wc h) as [I _]. split.
  - intros m f. cbn. destruct (set_mode m f (after wc h)) as [s' o] eqn:E. cbn.
    destruct (set_mode_spec _ _ _ _ _ I E) as (K & _). split; [apply K|]. intros id. apply held_keeps. exact K.
  - intros f1 f2. cbn. destruct (handle_mb_failure f1 f2 (after wc h)) as [s' o] eqn:E. cbn.
    destruct (hmf_spec _ _ _ _ _ I E) as (K & _). split; [apply K|]. intros id. apply held_keeps. exact K.
Qed.

(* clause 2: after ANY history (failed switches included) a successful switch to read-write
   leaves every component read-write, every operation answers as in read-write mode (all accepted;
   FlushWriteCache without a write-cache says so), and every object that had metadata and data
   before the switch is handed out *)
Theorem back_to_rw wc h f s' :
  set_mode RW f (after wc h) = (s', true) ->
  rep s' = RW /\ mbm s' = (RW, Some false) /\ blob_ro s' = false /\ (wc = true -> wcm s' = (RW, false))
  /\ (forall x, is_op x = true ->
        snd (fst (do_step s' x)) = (if negb wc then match x with SFlush => ErrNoWC | _ => Done end else Done))
  /\ (forall id, mem id (in_meta (after wc h)) = true -> held id (after wc h) = true -> do_get id s' = (Done, true)).
Proof.
  intros E. destruct (after_inv wc h) as [I W].
  destruct (switch_success_consistent _ _ _ _ _ E) as (R & C & Ops).
  destruct (set_mode_spec _ _ _ _ _ I E) as (K & I2 & _ & _).
  destruct (consistent_fields _ C) as (M & B & Wc). rewrite R in M, B, Wc.
  assert (Hm : mbm s' = (RW, Some false)).
  { destruct (mbm s') as [[] [[]|]]; cbn in M; try discriminate; reflexivity. }
  assert (Hb : blob_ro s' = false).
  { unfold bl_in in B. unfold blob_ro. destruct (snd (blm s')); cbn in B; [discriminate | reflexivity]. }
  split; [exact R|]. split; [exact Hm|]. split; [exact Hb|]. split.
  { intros ->. destruct K as (Kw & _). rewrite W in Kw. specialize (Wc Kw).
    destruct (wcm s') as [[] []]; cbn in Wc; try discriminate; reflexivity. }
  split.
  { intros x Hop. rewrite (Ops x Hop). destruct wc, x; try discriminate; reflexivity. }
  intros id Hmeta Hheld.
  pose proof (held_keeps _ _ id K Hheld) as H2. destruct K as (_ & Km & _). rewrite <- Km in Hmeta.
  unfold do_get, mb_read. rewrite R, Hm. cbn. rewrite Hmeta, H2. reflexivity.
Qed.

(* the reported mode is the target exactly when the switch succeeded, else it is unchanged *)
Theorem reported_mode wc h m f :
  rep (fst (set_mode m f (after wc h))) = if snd (set_mode m f (after wc h)) then m else rep (after wc h).
Proof.
  destruct (after_inv wc h) as [I _]. destruct (set_mode m f (after wc h)) as [s' o] eqn:E. cbn.
  now destruct (set_mode_spec _ _ _ _ _ I E) as (_ & _ & R & _).
Qed.

(* no reachable state makes an operation dereference a closed metabase *)
Lemma no_panic_inv s x : inv s = true -> snd (fst (do_step s x)) <> Panic.
Proof.
  intros Hi. destruct x; cbn [do_step].
  - destruct (set_mode m f s) as [s1 []]; cbn; discriminate.
  - destruct (handle_mb_failure f1 f2 s) as [s1 []]; cbn; discriminate.
  - destruct s as [r w [wmd wro] [sm bro] [mmd mop] iw ib im]. unfold inv in Hi. cbn in Hi.
    apply andb_prop in Hi. destruct Hi as [Hi _]. unfold mb_inv, mb_in in Hi. cbn in Hi.
    destruct mmd, mop as [[]|]; cbn in Hi; try discriminate; unfold do_put; cbn -[mem add del union];
      repeat (match goal with |- context [if ?b then _ else _] => destruct b end; cbn -[mem add del union]); discriminate.
  - destruct s as [r w [wmd wro] [sm bro] [mmd mop] iw ib im]. unfold inv in Hi. cbn in Hi.
    apply andb_prop in Hi. destruct Hi as [Hi _]. unfold mb_inv, mb_in in Hi. cbn in Hi.
    destruct mmd, mop as [[]|]; cbn in Hi; try discriminate; unfold do_get; cbn -[mem add del union held];
      repeat (match goal with |- context [if ?b then _ else _] => destruct b end; cbn -[mem add del union held]); discriminate.
  - destruct s as [r w [wmd wro] [sm bro] [mmd mop] iw ib im]. unfold inv in Hi. cbn in Hi.
    apply andb_prop in Hi. destruct Hi as [Hi _]. unfold mb_inv, mb_in in Hi. cbn in Hi.
    destruct mmd, mop as [[]|]; cbn in Hi; try discriminate; unfold do_del; cbn -[mem add del union];
      repeat (match goal with |- context [if ?b then _ else _] => destruct b end; cbn -[mem add del union]); discriminate.
  - destruct s as [r w [wmd wro] [sm bro] [mmd mop] iw ib im]. unfold inv in Hi. cbn in Hi.
    apply andb_prop in Hi. destruct Hi as [Hi _]. unfold mb_inv, mb_in in Hi. cbn in Hi.
    destruct mmd, mop as [[]|]; cbn in Hi; try discriminate; unfold do_exists; cbn -[mem add del union];
      repeat (match goal with |- context [if ?b then _ else _] => destruct b end; cbn -[mem add del union]); discriminate.
  - destruct s as [r w [wmd wro] [sm bro] [mmd mop] iw ib im]. unfold inv in Hi. cbn in Hi.
    apply andb_prop in Hi. destruct Hi as [Hi _]. unfold mb_inv, mb_in in Hi. cbn in Hi.
    destruct mmd, mop as [[]|]; cbn in Hi; try discriminate; unfold do_list; cbn;
      repeat (match goal with |- context [if ?b then _ else _] => destruct b end; cbn); discriminate.
  - unfold do_flush. destruct (has_wc s); cbn; [|discriminate].
    destruct (ro (rep s)); cbn; [discriminate|]. destruct (nometa (rep s)); cbn; [discriminate|].
    destruct (wc_flush s); cbn; discriminate.
  - cbn. discriminate.
Qed.
Theorem no_crash wc h x : snd (fst (do_step (after wc h) x)) <> Panic.
Proof. apply no_panic_inv. apply after_inv. Qed.

(* the repairs make a failed switch recoverable: from any reachable state a switch to a mode with
   a metabase in which no component call fails succeeds (so SetMode(read-write) brings back full
   service, by back_to_rw) *)
Theorem failed_switch_recoverable wc h m :
  nometa m = false -> snd (set_mode m FNone (after wc h)) = true.
Proof.
  intros Hm. generalize (after wc h). intros s.
  destruct s as [r w [wmd wro] [sm bro] [mmd mop] iw ib im]. unfold set_mode, comps. cbn [has_wc].
  destruct m; try discriminate; destruct w, mmd, sm as [[]|]; reflexivity.
Qed.
