(* C46 -- executable comparison functions for the correspondence check.
   A case is what the Go harness did with real shards: objects put, the bytes Shard.Dump
   wrote, the (possibly damaged) stream and chunking given to Shard.Restore, the
   observed counts / error class / contents of the target shard, and the oracle table
   for the two functions the model leaves abstract (object.Unmarshal, Put class). *)
From Coq Require Import List NArith Arith Bool.
Import ListNotations.
From NV Require Import Gen.ShardDumpConsts Shard.Dump.

Record case := mkCase {
  c_tbl : list (nat * nat * nat);   (* byte strings of the case: (0, off, len) = slice of the dump,
                                       (1, off, len) = slice of the stream, (2, k, _) = k-th extra *)
  c_extra : list bytes;
  c_dumprecs : list nat;            (* put objects in the order the dump lists them (tbl idx) *)
  c_dump : bytes;                   (* bytes written by Shard.Dump *)
  c_dump_count : nat;               (* count returned by Shard.Dump *)
  c_kind : nat;                     (* 0 clean, 1 bodies damaged, 2 bad magic, 3 framing damaged *)
  c_recs : list nat;                (* kind 0/1: record bodies of the stream (tbl idx) *)
  c_stream : option bytes;          (* None = the dump itself *)
  c_sizes : list nat;
  c_ign : bool;
  c_oracle : list (nat * nat * nat);    (* tbl idx, class of the Unmarshal error (0 = accepted),
                                           Put: 0 stored, 1 ignored, 2+k failed with error class k *)
  c_count : nat; c_fail : nat; c_err : nat;
  c_stored : list nat               (* contents of the target shard (tbl idx) *)
}.

(* Lossless run-length notation for the byte strings of a case: the driver writes the
   REAL bytes (dump, stream, stored objects) as literal pieces and runs `Rep n b` (n times
   the byte b).  Objects at the size-class boundaries (64 KiB, 1 MiB, ...) have low-entropy
   payloads, so their dump is a few hundred literal bytes plus some runs; `unrle` gives
   back exactly the bytes the implementation produced. *)
Inductive seg := Lit (b : bytes) | Rep (n : N) (b : N).
Fixpoint unrle (l : list seg) : bytes :=
  match l with
  | [] => []
  | Lit b :: r => b ++ unrle r
  | Rep n b :: r => repeat b (N.to_nat n) ++ unrle r
  end.

Definition stream_of (c : case) : bytes :=
  match c_stream c with Some s => s | None => c_dump c end.

Definition slice (off len : nat) (s : bytes) : bytes := firstn len (skipn off s).

Definition get (c : case) (i : nat) : bytes :=
  match nth i (c_tbl c) (2, 0, 0) with
  | (0, off, len) => slice off len (c_dump c)
  | (1, off, len) => slice off len (stream_of c)
  | (_, k, _) => nth k (c_extra c) []
  end.

(* byte-string equality for table lookups (N.eqb; same relation as Dump.bytes_eqb) *)
Fixpoint beqb (a b : bytes) : bool :=
  match a, b with
  | [], [] => true
  | x :: a', y :: b' => N.eqb x y && beqb a' b'
  | _, _ => false
  end.

(* all byte strings of a case, cut out of the dump / stream once (they can be a megabyte long) *)
Definition strings (c : case) : list bytes := map (get c) (seq 0 (length (c_tbl c))).
Definition str (t : list bytes) (i : nat) : bytes := nth i t [].

(* oracle table with the byte strings looked up: (body, Unmarshal class, Put class) *)
Definition oracle (c : case) (t : list bytes) : list (bytes * nat * nat) :=
  map (fun e => let '(i, u, s) := e in (str t i, u, s)) (c_oracle c).

(* a body that is not in the oracle table is "rejected with class 98": the comparison
   then fails and the case is looked at *)
Definition unm_of (o : list (bytes * nat * nat)) (d : bytes) : option nat :=
  match find (fun e => let '(b, _, _) := e in beqb d b) o with
  | Some (_, 0, _) => None
  | Some (_, u, _) => Some u
  | None => Some 98
  end.

Definition sink_of (o : list (bytes * nat * nat)) (d : bytes) : sres :=
  match find (fun e => let '(b, _, _) := e in beqb d b) o with
  | Some (_, _, 0) => Stored
  | Some (_, _, 1) => Ignored
  | Some (_, _, S (S k)) => Failed k
  | None => Failed 98
  end.

Definition err_code (e : rerr) : nat :=
  match e with ENone => 0 | EMagic => 1 | EEof => 2 | EUnexpected => 3 | EOther c => c | EFuel => 99 end.

Definition set_eq (a b : list bytes) : bool :=
  forallb (fun x => existsb (beqb x) b) a && forallb (fun x => existsb (beqb x) a) b.

Definition res_eq (r : result) (c : case) (t : list bytes) : bool :=
  Nat.eqb (count r) (c_count c) && Nat.eqb (failc r) (c_fail c)
  && Nat.eqb (err_code (err r)) (c_err c)
  && set_eq (delivered r) (map (str t) (c_stored c)).

(* Shard.Dump wrote magic ++ records of exactly the listed byte strings (that these are
   byte-for-byte the objects put into the source shard is compared by the driver) *)
Definition dump_ok_t (c : case) (t : list bytes) : bool :=
  beqb (dump (map (str t) (c_dumprecs c))) (c_dump c)
  && Nat.eqb (length (c_dumprecs c)) (c_dump_count c).

(* implementation = model *)
Definition model_ok_t (c : case) (t : list bytes) : bool :=
  let o := oracle c t in
  res_eq (restore (unm_of o) (sink_of o) (c_ign c) (chunk (c_sizes c) (stream_of c))) c t.

(* implementation = right-hand sides of the theorems (no reader, no chunking) *)
Definition ref_ok_t (c : case) (t : list bytes) : bool :=
  let o := oracle c t in
  match c_kind c with
  | 0 => res_eq (mkRes (map (str t) (c_dumprecs c)) (length (c_dumprecs c)) 0 ENone) c t
  | 1 => beqb (dump (map (str t) (c_recs c))) (stream_of c)
         && res_eq (ref_restore (unm_of o) (sink_of o) (c_ign c) (map (str t) (c_recs c)) [] 0 0) c t
  | 2 => negb (beqb (firstn (length dump_magic) (stream_of c)) dump_magic)
         && res_eq (mkRes [] 0 0 EMagic) c t
  | _ => true
  end.

Definition dump_ok (c : case) : bool := dump_ok_t c (strings c).
Definition model_ok (c : case) : bool := model_ok_t c (strings c).
Definition ref_ok (c : case) : bool := ref_ok_t c (strings c).

Fixpoint mism_from (i : nat) (f : case -> bool) (cs : list case) : list nat :=
  match cs with
  | [] => []
  | c :: r => if f c then mism_from (S i) f r else i :: mism_from (S i) f r
  end.
Definition dump_mismatches := mism_from 0 dump_ok.
Definition model_mismatches := mism_from 0 model_ok.
Definition ref_mismatches := mism_from 0 ref_ok.

(* the three comparisons in one pass (the byte strings of a case are cut out once):
   3*i = dump, 3*i+1 = model, 3*i+2 = reference mismatch of case i *)
Fixpoint all_from (i : nat) (cs : list case) : list nat :=
  match cs with
  | [] => []
  | c :: r =>
    let t := strings c in
    (if dump_ok_t c t then [] else [3 * i])
    ++ (if model_ok_t c t then [] else [3 * i + 1])
    ++ (if ref_ok_t c t then [] else [3 * i + 2])
    ++ all_from (S i) r
  end.
Definition all_mismatches := all_from 0.
