(* C47 -- when does a storage node discard a container's objects.  DEFINITIONS ONLY.

   Three paths (Go sources transcribed):
   * shard new-epoch handler, pkg/local_object_storage/shard/gc.go setEpochEventHandler:
       if PaymentsDisabled() { return }
       for each container: unpaidSince, err := UnpaidSince(c); if err != nil { continue }
         if unpaidSince < 0 { continue }
         if <cond>(ne.epoch, unpaidSince) { DeleteContainer(c) }
     <cond> before the repair:  ne.epoch-uint64(unpaidSince) >= maxUnpaidEpochDelay
     <cond> after the repair:   uint64(unpaidSince) <= ne.epoch && (the same)
   * engine start-up, engine/container.go deleteNotFoundContainers:
       errors.As(err, new(apistatus.ContainerNotFound)) => InhumeContainer
   * policer, services/policer/check.go: containercore.IsErrNotFound(err) => delete local object

   uint64 values are N below 2^64, int64 values are Z in [-2^63, 2^63); arithmetic wraps
   exactly as Go's (Base/U64.v). *)
From Coq Require Import NArith ZArith Bool.
From NV Require Import Base.U64 Gen.ShardGcConsts.

Definition is_i64 (x : Z) : Prop := (- 9223372036854775808 <= x < 9223372036854775808)%Z.

(* ne.epoch - uint64(unpaidSince) >= maxUnpaidEpochDelay, on uint64 *)
Definition cond_old (epoch : N) (unpaid : Z) : bool :=
  (max_unpaid_epoch_delay <=? sub64 epoch (u64_of_i64 unpaid))%N.

(* uint64(unpaidSince) <= ne.epoch && ne.epoch - uint64(unpaidSince) >= maxUnpaidEpochDelay *)
Definition cond_new (epoch : N) (unpaid : Z) : bool :=
  (u64_of_i64 unpaid <=? epoch)%N && cond_old epoch unpaid.

Section Handler.
  Variable cond : N -> Z -> bool.
  (* one container in the new-epoch handler: is DeleteContainer called? *)
  Definition epoch_discard (disabled check_err : bool) (epoch : N) (unpaid : Z) : bool :=
    if disabled then false
    else if check_err then false
    else if (unpaid <? 0)%Z then false
    else cond epoch unpaid.
End Handler.

(* answer of the container source, as the code classifies it *)
Inductive src := Found | NotFound | Transient.
(* engine start-up cleanup and policer branch: discard iff the error is ContainerNotFound *)
Definition source_discard (s : src) : bool := match s with NotFound => true | _ => false end.

(* ---- reference (right-hand side of the property) ---- *)
(* "unpaid for at least the grace period (three epochs)": the property's own constant;
   UnpaidProofs.delay_is_grace ties the constant scraped from gc.go to it *)
Definition grace : N := 3%N.
Definition ref_epoch_discard (disabled check_err : bool) (epoch : N) (unpaid : Z) : bool :=
  negb disabled && negb check_err && (0 <=? unpaid)%Z
  && (unpaid + Z.of_N grace <=? Z.of_N epoch)%Z.
