(* C43 -- a shard and the modes of its components.  DEFINITIONS ONLY (executable).

   Go sources transcribed:
     shard/mode.go      SetMode / setMode (component order by target mode, stop at the first
                        failure, reported mode written only after all components switched),
                        setModeStorage (skip iff the storage is known to be in the target mode;
                        storageMode = Disabled while a switch is incomplete)
     shard/control.go   handleMetabaseFailure (read-only, else degraded-read-only)
     metabase/mode.go   SetMode (same-mode short-cut, Close, Open(ro) / nil,
                        a failed reopen leaves a closed database that claims `degraded`)
     writecache/mode.go SetMode (flush when the metabase goes away, store reopened only for
                        modes with a metabase, no same-mode short-cut)
     shard/put.go get.go exists.go delete.go list.go writecache.go  -- what each operation
                        consults: first the REPORTED mode (s.info.Mode), then every component
                        consults ITS OWN mode (cache.mode + its FSTree flag, the FSTree flag of
                        the BLOB storage, metabase db.mode + whether boltDB is open).
   Objects are natural numbers; a component's content is the list of objects it holds. *)
From Coq Require Import List NArith Bool Arith.
Import ListNotations.
From NV Require Import Gen.ShardModeConsts.
From NV Require Shard.ROMode.

(* ---------------------------------------------------------------- modes *)
Inductive md := RW | RO | DG | DGRO.      (* read-write, read-only, degraded, degraded-read-only *)
Definition ro (m : md) : bool := match m with RO | DGRO => true | _ => false end.
Definition nometa (m : md) : bool := match m with DG | DGRO => true | _ => false end.
Definition md_eqb (a b : md) : bool :=
  match a, b with RW, RW | RO, RO | DG, DG | DGRO, DGRO => true | _, _ => false end.
(* the bit-set value of shard/mode/mode.go (bits regenerated from the code) *)
Definition enc (m : md) : N :=
  match m with
  | RW => 0%N | RO => mode_read_only_bit | DG => mode_degraded_bit
  | DGRO => N.lor mode_read_only_bit mode_degraded_bit
  end.

(* ---------------------------------------------------------------- faults *)
(* which call of the switch is made to fail (at most one matters: the switch stops there);
   it fires only if the code really makes that call *)
Inductive fault :=
| FNone
| FWc                                   (* write-cache openStore *)
| FBlobClose | FBlobOpen | FBlobInit    (* BLOB storage Close / Open / Init *)
| FMbOpen.                              (* metabase Open (bolt); Init(common.ID{}) inside a switch is a no-op:
                                           db.init returns at once under the old (not read-write) db.mode and
                                           ensureShardID does nothing for the zero ID *)
Definition fault_eqb (a b : fault) : bool :=
  match a, b with
  | FNone, FNone | FWc, FWc | FBlobClose, FBlobClose | FBlobOpen, FBlobOpen
  | FBlobInit, FBlobInit | FMbOpen, FMbOpen => true
  | _, _ => false
  end.

(* ---------------------------------------------------------------- state *)
Record st := mkSt {
  rep : md;                    (* s.info.Mode -- what GetMode reports *)
  has_wc : bool;
  wcm : md * bool;             (* cache.mode, cache.fsTree opened read-only *)
  blm : option md * bool;      (* shard.storageMode (None = Disabled marker), blobStor opened read-only *)
  mbm : md * option bool;      (* metabase db.mode, boltDB (None = nil, Some ro) *)
  in_wc : list nat;
  in_blob : list nat;
  in_meta : list nat
}.
Definition init (wc : bool) : st := mkSt RW wc (RW, false) (Some RW, false) (RW, Some false) [] [] [].

Definition set_rep s x := mkSt x (has_wc s) (wcm s) (blm s) (mbm s) (in_wc s) (in_blob s) (in_meta s).
Definition set_wcm s x := mkSt (rep s) (has_wc s) x (blm s) (mbm s) (in_wc s) (in_blob s) (in_meta s).
Definition set_blm s x := mkSt (rep s) (has_wc s) (wcm s) x (mbm s) (in_wc s) (in_blob s) (in_meta s).
Definition set_mbm s x := mkSt (rep s) (has_wc s) (wcm s) (blm s) x (in_wc s) (in_blob s) (in_meta s).
Definition set_in_wc s x := mkSt (rep s) (has_wc s) (wcm s) (blm s) (mbm s) x (in_blob s) (in_meta s).
Definition set_in_blob s x := mkSt (rep s) (has_wc s) (wcm s) (blm s) (mbm s) (in_wc s) x (in_meta s).
Definition set_in_meta s x := mkSt (rep s) (has_wc s) (wcm s) (blm s) (mbm s) (in_wc s) (in_blob s) x.

Definition mem (x : nat) (l : list nat) : bool := existsb (Nat.eqb x) l.
Definition add (x : nat) (l : list nat) : list nat := if mem x l then l else x :: l.
Definition del (x : nat) (l : list nat) : list nat := filter (fun y => negb (Nat.eqb x y)) l.
Definition union (a b : list nat) : list nat := fold_right add b a.

Definition blob_ro (s : st) : bool := snd (blm s).
Definition wc_md (s : st) : md := fst (wcm s).
Definition wc_ro (s : st) : bool := snd (wcm s).

(* ---------------------------------------------------------------- component switches *)
(* metabase/mode.go SetMode *)
Definition mb_switch (m : md) (f : fault) (x : md * option bool) : (md * option bool) * bool :=
  let '(cur, _) := x in
  if md_eqb cur m then (x, true)
  else (* Close of an open database: does not fail here *)
  if nometa m then ((m, None), true)
  else if fault_eqb f FMbOpen then ((DG, None), false)
  else ((m, Some (ro m)), true).

(* shard/mode.go setModeStorage *)
Definition bl_switch (m : md) (f : fault) (x : option md * bool) : (option md * bool) * bool :=
  let '(known, flag) := x in
  if match known with Some k => md_eqb k m | None => false end then (x, true)
  else if fault_eqb f FBlobClose then ((None, flag), false)
  else if fault_eqb f FBlobOpen then ((None, flag), false)     (* the flag is set by a successful Open *)
  else if fault_eqb f FBlobInit then ((None, ro m), false)
  else ((Some m, ro m), true).

(* writecache/mode.go SetMode, the part after the flush *)
Definition wc_switch (m : md) (f : fault) (x : md * bool) : (md * bool) * bool :=
  let '(cur, flag) := x in
  if nometa m then ((m, flag), true)              (* store not reopened *)
  else if fault_eqb f FWc then (x, false)
  else ((m, ro m), true).

(* cache.flush: every object of the cache is put to the BLOB storage and then removed from the
   cache's tree; the first failing put aborts the iteration *)
Definition wc_flush (s : st) : option st :=
  match in_wc s with
  | [] => Some s
  | _ => if blob_ro s then None
         else let s1 := set_in_blob s (union (in_wc s) (in_blob s)) in
              Some (if wc_ro s then s1 else set_in_wc s1 [])
  end.

Inductive comp := CMb | CBlob | CWc.
Definition comp_switch (c : comp) (m : md) (f : fault) (s : st) : st * bool :=
  match c with
  | CMb => let '(x, ok) := mb_switch m f (mbm s) in (set_mbm s x, ok)
  | CBlob => let '(x, ok) := bl_switch m f (blm s) in (set_blm s x, ok)
  | CWc =>
      let flushed := if nometa m && negb (nometa (wc_md s)) then wc_flush s else Some s in
      match flushed with
      | None => (s, false)
      | Some s1 => let '(x, ok) := wc_switch m f (wcm s1) in (set_wcm s1 x, ok)
      end
  end.

(* the order of shard/mode.go: to read-write  metabase -> blobstor -> write-cache,
   to every other mode  write-cache -> blobstor -> metabase *)
Definition comps (m : md) (wc : bool) : list comp :=
  if md_eqb m RW then [CMb; CBlob] ++ (if wc then [CWc] else [])
  else (if wc then [CWc] else []) ++ [CBlob; CMb].

Fixpoint run_comps (cs : list comp) (m : md) (f : fault) (s : st) : st * bool :=
  match cs with
  | [] => (s, true)
  | c :: r => let '(s1, ok) := comp_switch c m f s in
              if ok then run_comps r m f s1 else (s1, false)
  end.

Definition set_mode (m : md) (f : fault) (s : st) : st * bool :=
  let '(s1, ok) := run_comps (comps m (has_wc s)) m f s in
  if ok then (set_rep s1 m, true) else (s1, false).

(* control.go handleMetabaseFailure *)
Definition handle_mb_failure (f1 f2 : fault) (s : st) : st * bool :=
  let '(s1, ok) := set_mode RO f1 s in
  if ok then (s1, true) else set_mode DGRO f2 s1.

(* ---------------------------------------------------------------- operations *)
Inductive res := Done | ErrRO | ErrDG | ErrNoWC | Other | Panic.
Definition res_eqb (a b : res) : bool :=
  match a, b with
  | Done, Done | ErrRO, ErrRO | ErrDG, ErrDG | ErrNoWC, ErrNoWC | Other, Other | Panic, Panic => true
  | _, _ => false
  end.

Inductive mres := MOk | MErr | MPanic.
(* metabase reads (Exists, Containers/Select): db.mode.NoMetabase() -> ErrDegradedMode, else boltDB.View *)
Definition mb_read (s : st) : mres :=
  let '(m, o) := mbm s in
  if nometa m then MErr else match o with None => MPanic | Some _ => MOk end.
(* metabase writes (PutCounted, Delete): NoMetabase -> ErrDegradedMode, ReadOnly -> ErrReadOnlyMode, else boltDB.Batch *)
Definition mb_write (s : st) : mres :=
  let '(m, o) := mbm s in
  if nometa m then MErr else if ro m then MErr
  else match o with None => MPanic | Some true => MErr | Some false => MOk end.

(* cache.Put: ErrReadOnly by cache.mode, then FSTree.Put (ErrReadOnly by the tree's flag) *)
Definition wc_writable (s : st) : bool := negb (ro (wc_md s)) && negb (wc_ro s).
Definition wc_del (id : nat) (s : st) : st := if wc_writable s then set_in_wc s (del id (in_wc s)) else s.
Definition blob_del (id : nat) (s : st) : st := if blob_ro s then s else set_in_blob s (del id (in_blob s)).
Definition held (id : nat) (s : st) : bool := (has_wc s && mem id (in_wc s)) || mem id (in_blob s).

Inductive step :=
| SSet (m : md) (f : fault)
| SHmf (f1 f2 : fault)
| SPut (id : nat) | SGet (id : nat) | SDel (id : nat) | SExists (id : nat) | SList | SFlush
| SBg (ids : list nat).          (* background flush workers moved these objects (environment step) *)

Definition is_switch (x : step) : bool := match x with SSet _ _ | SHmf _ _ => true | _ => false end.
Definition is_op (x : step) : bool := match x with SSet _ _ | SHmf _ _ | SBg _ => false | _ => true end.

(* put.go *)
Definition do_put (id : nat) (s : st) : st * res :=
  if ro (rep s) then (s, ErrRO)
  else
    let cached := has_wc s && wc_writable s in
    if negb cached && blob_ro s then (s, Other)
    else
      let s1 := if cached then set_in_wc s (add id (in_wc s)) else set_in_blob s (add id (in_blob s)) in
      if nometa (rep s) then (s1, Done)
      else match mb_write s1 with
           | MOk => (set_in_meta s1 (add id (in_meta s1)), Done)
           | MPanic => (s1, Panic)
           | MErr =>
               (* known, _ := metaBase.Exists(addr) *)
               match mb_read s1 with
               | MPanic => (s1, Panic)
               | MOk => if mem id (in_meta s1) then (s1, Other)
                        else (blob_del id (if cached then wc_del id s1 else s1), Other)
               | MErr => (blob_del id (if cached then wc_del id s1 else s1), Other)
               end
           end.

(* get.go Get(addr, skipMeta = false) / fetchObjectData; second component: object handed out *)
Definition do_get (id : nat) (s : st) : res * bool :=
  if nometa (rep s) then (Done, held id s)
  else match mb_read s with
       | MErr => (Other, false)            (* the metabase's own ErrDegradedMode is returned *)
       | MPanic => (Panic, false)
       | MOk => (Done, mem id (in_meta s) && held id s
                       || (has_wc s && mem id (in_wc s)))   (* the write-cache is asked before `exists` is consulted *)
       end.

(* exists.go *)
Definition do_exists (id : nat) (s : st) : res * bool :=
  if nometa (rep s) then (Done, mem id (in_blob s))
  else match mb_read s with
       | MErr => (Other, false) | MPanic => (Panic, false)
       | MOk => (Done, mem id (in_meta s))
       end.

(* list.go List *)
Definition do_list (s : st) : res :=
  if nometa (rep s) then ErrDG
  else match mb_read s with MErr => Other | MPanic => Panic | MOk => Done end.

(* delete.go: metabase first, then write-cache, then BLOB storage (errors of the last two are logged) *)
Definition do_del (id : nat) (s : st) : st * res :=
  if ro (rep s) then (s, ErrRO) else if nometa (rep s) then (s, ErrDG)
  else match mb_write s with
       | MErr => (s, Other) | MPanic => (s, Panic)
       | MOk => if mem id (in_meta s)
                then let s1 := set_in_meta s (del id (in_meta s)) in
                     (blob_del id (if has_wc s then wc_del id s1 else s1), Done)
                else (s, Done)
       end.

(* writecache.go FlushWriteCache *)
Definition do_flush (s : st) : st * res :=
  if negb (has_wc s) then (s, ErrNoWC)
  else if ro (rep s) then (s, ErrRO) else if nometa (rep s) then (s, ErrDG)
  else match wc_flush s with None => (s, Other) | Some s1 => (s1, Done) end.

(* flush workers: skipped when cache.mode is read-only; a put refused by the BLOB storage leaves the object *)
Definition do_bg (ids : list nat) (s : st) : st :=
  if ro (wc_md s) || blob_ro s || negb (has_wc s) then s
  else let moved := filter (fun x => mem x (in_wc s)) ids in
       let s1 := set_in_blob s (union moved (in_blob s)) in
       if wc_ro s then s1 else set_in_wc s1 (filter (fun x => negb (mem x moved)) (in_wc s)).

(* one step: new state, result class, object handed out / reported present (reads only) *)
Definition do_step (s : st) (x : step) : st * res * bool :=
  match x with
  | SSet m f => let '(s1, ok) := set_mode m f s in (s1, if ok then Done else Other, false)
  | SHmf f1 f2 => let '(s1, ok) := handle_mb_failure f1 f2 s in (s1, if ok then Done else Other, false)
  | SPut id => let '(s1, r) := do_put id s in (s1, r, false)
  | SGet id => let '(r, b) := do_get id s in (s, r, b)
  | SDel id => let '(s1, r) := do_del id s in (s1, r, false)
  | SExists id => let '(r, b) := do_exists id s in (s, r, b)
  | SList => (s, do_list s, false)
  | SFlush => let '(s1, r) := do_flush s in (s1, r, false)
  | SBg ids => (do_bg ids s, Done, false)
  end.

(* a history; the flag says whether the most recent mode switch (if any) succeeded *)
Fixpoint run (s : st) (settled : bool) (h : list step) : st * bool :=
  match h with
  | [] => (s, settled)
  | x :: r => let '(s1, rs, _) := do_step s x in
              run s1 (if is_switch x then res_eqb rs Done else settled) r
  end.

(* the excluded input class of the partial theorem, as a boolean predicate on histories:
   the last mode switch of the history failed (known finding `failed-switch-partial-transition`) *)
Definition last_switch_failed (wc : bool) (h : list step) : bool := negb (snd (run (init wc) true h)).

(* ---------------------------------------------------------------- reference *)
(* what the REPORTED mode allows: the mode table of docs/shard-modes.md as transcribed and proved
   for C14 (Shard/ROMode.v guard), extended by it to the two writable modes *)
Definition ref_op (x : step) : option ROMode.op :=
  match x with
  | SPut _ => Some ROMode.Put | SGet _ => Some ROMode.Get | SDel _ => Some ROMode.Delete
  | SExists _ => Some ROMode.Exists | SList => Some ROMode.ListObjs | SFlush => Some ROMode.FlushWC
  | _ => None
  end.
Definition of_ro_res (r : ROMode.res) : res :=
  match r with
  | ROMode.Done | ROMode.Skipped => Done | ROMode.ErrReadOnly => ErrRO
  | ROMode.ErrDegraded => ErrDG | ROMode.ErrNoWC => ErrNoWC
  end.
Definition ref_res (m : md) (wc : bool) (x : step) : res :=
  match ref_op x with
  | Some o => of_ro_res (ROMode.guard (enc m) wc o)
  | None => Done
  end.
(* accepted = the call did its job *)
Definition accepted (r : res) : bool := res_eqb r Done.

(* all components are in the reported mode *)
Definition mb_in (m : md) (x : md * option bool) : bool :=
  md_eqb (fst x) m &&
  match snd x with None => nometa m | Some b => negb (nometa m) && Bool.eqb b (ro m) end.
Definition bl_in (m : md) (x : option md * bool) : bool := Bool.eqb (snd x) (ro m).
Definition wc_in (m : md) (x : md * bool) : bool :=
  md_eqb (fst x) m && (nometa m || Bool.eqb (snd x) (ro m)).
Definition consistent (s : st) : bool :=
  mb_in (rep s) (mbm s) && bl_in (rep s) (blm s) && (negb (has_wc s) || wc_in (rep s) (wcm s)).
