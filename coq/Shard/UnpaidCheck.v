(* C47 -- executable comparison for the correspondence check.
   path 0: shard new-epoch handler (disabled, check_err, epoch, unpaid are meaningful)
   path 1: engine start-up cleanup, path 2: containercore.IsErrNotFound as the policer uses it
           (src is meaningful: 0 found / no error, 1 not found, 2 transient) *)
From Coq Require Import List NArith ZArith Bool.
Import ListNotations.
From NV Require Import Base.U64 Gen.ShardGcConsts Shard.Unpaid.

Record case := mkCase {
  c_path : nat; c_disabled : bool; c_check_err : bool; c_epoch : N; c_unpaid : Z;
  c_src : nat; c_discarded : bool }.

Definition src_of (n : nat) : src := match n with 0 => Found | 1 => NotFound | _ => Transient end.

Definition model_ok (c : case) : bool :=
  match c_path c with
  | 0 => Bool.eqb (epoch_discard cond_new (c_disabled c) (c_check_err c) (c_epoch c) (c_unpaid c)) (c_discarded c)
  | _ => Bool.eqb (source_discard (src_of (c_src c))) (c_discarded c)
  end.

Definition ref_ok (c : case) : bool :=
  match c_path c with
  | 0 => Bool.eqb (ref_epoch_discard (c_disabled c) (c_check_err c) (c_epoch c) (c_unpaid c)) (c_discarded c)
  | _ => Bool.eqb (Nat.eqb (c_src c) 1) (c_discarded c)
  end.

Fixpoint mism_from (i : nat) (f : case -> bool) (cs : list case) : list nat :=
  match cs with
  | [] => []
  | c :: r => if f c then mism_from (S i) f r else i :: mism_from (S i) f r
  end.
Definition model_mismatches := mism_from 0 model_ok.
Definition ref_mismatches := mism_from 0 ref_ok.
