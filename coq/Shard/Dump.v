(* C46 -- model of the shard dump format and of Shard.Restore reading it from an
   arbitrary io.Reader.  DEFINITIONS ONLY (executable); proofs are in DumpProofs.v.

   Go sources transcribed: pkg/local_object_storage/shard/dump.go (Dump: magic, then
   for every object `uint32 LE length ++ bytes`), restore.go (Restore: ReadFull magic,
   loop { ReadFull size; EOF => done; read body; Unmarshal; Put }).

   Bytes are N (the size field arithmetic needs numbers; the payload bytes are opaque).
   A reader is the list of chunks it is going to hand out: one Read(p) returns at most the
   rest of the current chunk (Go io.Reader contract: "Read reads up to len(p) bytes");
   an empty chunk is a Read returning (0, nil). *)
From Coq Require Import List NArith Arith Bool.
Import ListNotations.
From NV Require Import Gen.ShardDumpConsts.

Definition bytes := list N.

(* ---- encoding of the size field: binary.LittleEndian.PutUint32 / Uint32 ---- *)
Definition two32 : N := 4294967296.
Definition u32 (n : N) : N := (n mod two32)%N.          (* uint32(len(data)) *)
Definition le32 (n : N) : bytes :=
  [n mod 256; (n / 256) mod 256; (n / 65536) mod 256; (n / 16777216) mod 256]%N.
Definition de32 (b : bytes) : N :=
  match b with
  | [b0; b1; b2; b3] => (b0 + 256 * b1 + 65536 * b2 + 16777216 * b3)%N
  | _ => 0%N
  end.

(* ---- Dump ---- *)
Definition record (o : bytes) : bytes := le32 (u32 (N.of_nat (length o))) ++ o.
Definition dump (objs : list bytes) : bytes := dump_magic ++ concat (map record objs).

(* ---- readers ---- *)
Definition reader := list bytes.

(* one Read(p) with len(p) = n: (data, rest of the reader, eof).  Mirrors the harness'
   chunk reader: copy min(n, len chunk) bytes; the chunk is dropped when used up. *)
Definition read_once (n : nat) (cs : reader) : bytes * reader * bool :=
  match cs with
  | [] => ([], [], true)
  | c :: r => if length c <=? n then (c, r, false)
              else (firstn n c, skipn n c :: r, false)
  end.

(* io.ReadFull(r, buf) with len(buf) = n: loops Read until n bytes or EOF.
   Result: (bytes read, rest of the reader, hit EOF before n bytes).
   With n = 0 no Read is issued at all (io.ReadAtLeast loop condition). *)
Fixpoint read_full (n : nat) (cs : reader) {struct cs} : bytes * reader * bool :=
  match n with
  | 0 => ([], cs, false)
  | S _ =>
    match cs with
    | [] => ([], [], true)
    | c :: r =>
      if length c <=? n then
        let '(d, cs', e) := read_full (n - length c) r in (c ++ d, cs', e)
      else (firstn n c, skipn n c :: r, false)
    end
  end.

(* ---- Restore ---- *)
(* Failed c / rejection c: c is the class of the error value Put / Unmarshal returned,
   as the harness projects it (it is handed through to the caller unchanged) *)
Inductive sres := Stored | Ignored | Failed (c : nat).
(* error class returned by Restore *)
Inductive rerr :=
| ENone          (* nil *)
| EMagic         (* ErrInvalidMagic *)
| EEof           (* io.EOF (body of a record missing entirely) *)
| EUnexpected    (* io.ErrUnexpectedEOF (size field or body cut) *)
| EOther (c : nat) (* Unmarshal error (ignoreErrors = false) or Put error, class c *)
| EFuel.         (* model artefact: never produced, see restore_fuel_enough *)

Record result := mkRes { delivered : list bytes; count : nat; failc : nat; err : rerr }.

Definition bytes_eqb (a b : bytes) : bool := if list_eq_dec N.eq_dec a b then true else false.

Section Restore.
  (* outside the repo / outside this property: does object.Unmarshal accept the bytes,
     and what does Shard.Put answer (nil / expired-or-already-removed / other error) *)
  Variable unm : bytes -> option nat.   (* None = accepted, Some c = rejected with error class c *)
  Variable sink : bytes -> sres.

  (* body_read = how the record body is read: read_full (repaired code, io.ReadFull) or
     read_body_once (code before the fix: a single r.Read) *)
  Variable body_read : nat -> reader -> bytes * reader * bool * bool.
  (* result: data, rest, error-with-no-data (EOF), error-with-some-data *)

  Fixpoint restore_loop (fuel : nat) (ign : bool) (cs : reader)
           (acc : list bytes) (cnt fl : nat) : result :=
    match fuel with
    | 0 => mkRes (rev acc) cnt fl EFuel
    | S f =>
      let '(sz, cs1, e) := read_full dump_size_len cs in
      if e then
        match sz with
        | [] => mkRes (rev acc) cnt fl ENone            (* errors.Is(err, io.EOF) => break *)
        | _ => mkRes (rev acc) cnt fl EUnexpected
        end
      else
        (* the request is capped at one byte more than the reader still holds: asking for
           more hits EOF with exactly the same data, so the result is unchanged; the cap
           only keeps the unary length small when a damaged size field announces gigabytes *)
        let want := N.to_nat (N.min (de32 sz) (N.of_nat (S (length (concat cs1))))) in
        let '(d, cs2, e0, e1) := body_read want cs1 in
        if e0 then mkRes (rev acc) cnt fl EEof
        else if e1 then mkRes (rev acc) cnt fl EUnexpected
        else match unm d with
        | None =>
          match sink d with
          | Stored => restore_loop f ign cs2 (d :: acc) (S cnt) fl
          | Ignored => restore_loop f ign cs2 acc (S cnt) fl
          | Failed c => mkRes (rev acc) cnt fl (EOther c)
          end
        | Some c =>
          if ign then restore_loop f ign cs2 acc cnt (S fl)
          else mkRes (rev acc) cnt fl (EOther c)
        end
    end.

  Definition restore_with (ign : bool) (cs : reader) : result :=
    let '(m, cs1, _) := read_full (length dump_magic) cs in
    if bytes_eqb m dump_magic
    then restore_loop (S (length (concat cs))) ign cs1 [] 0 0
    else mkRes [] 0 0 EMagic.
End Restore.

(* repaired code: _, err = io.ReadFull(r, data) *)
Definition body_full (n : nat) (cs : reader) : bytes * reader * bool * bool :=
  let '(d, cs', e) := read_full n cs in
  (d, cs', e && match d with [] => true | _ => false end,
           e && match d with [] => false | _ => true end).

(* code before the fix: _, err = r.Read(data) into a zeroed buffer of n bytes (first
   record; later records reuse the buffer, which this historical model does not track:
   it is used for the refutation witness only) *)
Definition body_once (n : nat) (cs : reader) : bytes * reader * bool * bool :=
  let '(d, cs', e) := read_once n cs in
  (d ++ repeat 0%N (n - length d), cs', e, false).

Definition restore (unm : bytes -> option nat) (sink : bytes -> sres) := restore_with unm sink body_full.
Definition restore_old (unm : bytes -> option nat) (sink : bytes -> sres) := restore_with unm sink body_once.

(* ---- reference: what restoring a list of records should do (right-hand side) ---- *)
Section Ref.
  Variable unm : bytes -> option nat.
  Variable sink : bytes -> sres.
  Fixpoint ref_restore (ign : bool) (recs : list bytes) (acc : list bytes) (cnt fl : nat) : result :=
    match recs with
    | [] => mkRes (rev acc) cnt fl ENone
    | d :: r =>
      match unm d with
      | None =>
        match sink d with
        | Stored => ref_restore ign r (d :: acc) (S cnt) fl
        | Ignored => ref_restore ign r acc (S cnt) fl
        | Failed c => mkRes (rev acc) cnt fl (EOther c)
        end
      | Some c =>
        if ign then ref_restore ign r acc cnt (S fl)
        else mkRes (rev acc) cnt fl (EOther c)
      end
    end.
End Ref.

(* chunking of a flat stream by a list of sizes (the harness' reader); whatever is left
   after the sizes are used up forms the last chunk *)
Fixpoint chunk (sizes : list nat) (s : bytes) : reader :=
  match sizes with
  | [] => match s with [] => [] | _ => [s] end
  | n :: r => match s with
              | [] => []
              | _ => firstn n s :: chunk r (skipn n s)
              end
  end.
