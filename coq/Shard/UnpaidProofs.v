(* C47 -- proofs *)
From Coq Require Import NArith ZArith Bool Lia.
From NV Require Import Base.U64 Gen.ShardGcConsts Shard.Unpaid.

Lemma u64_of_nonneg (x : Z) : (0 <= x)%Z -> is_i64 x -> u64_of_i64 x = Z.to_N x.
Proof.
  intros H0 [_ H1]. unfold u64_of_i64. f_equal. apply Z.mod_small. unfold two64. simpl. lia.
Qed.

Lemma delay_is_grace : max_unpaid_epoch_delay = grace.
Proof. reflexivity. Qed.

Lemma cond_new_spec (epoch : N) (unpaid : Z) :
  is_u64 epoch -> is_i64 unpaid -> (0 <= unpaid)%Z ->
  cond_new epoch unpaid = (unpaid + Z.of_N grace <=? Z.of_N epoch)%Z.
Proof.
  intros He Hu H0. unfold cond_new, cond_old. rewrite (u64_of_nonneg _ H0 Hu).
  set (u := Z.to_N unpaid). assert (Eu : Z.of_N u = unpaid) by (unfold u; rewrite Z2N.id; lia).
  assert (Hu64 : (u < two64)%N). { destruct Hu as [_ Hu]. unfold two64. lia. }
  rewrite delay_is_grace. unfold grace in *.
  destruct (N.leb_spec u epoch) as [L|L].
  - rewrite sub64_ge by assumption. cbn [andb].
    destruct (N.leb_spec 3 (epoch - u)); destruct (Z.leb_spec (unpaid + Z.of_N 3) (Z.of_N epoch)); try reflexivity; lia.
  - cbn [andb]. destruct (Z.leb_spec (unpaid + Z.of_N 3) (Z.of_N epoch)); try reflexivity; lia.
Qed.

Theorem discard_iff : forall disabled check_err (epoch : N) (unpaid : Z),
  is_u64 epoch -> is_i64 unpaid ->
  epoch_discard cond_new disabled check_err epoch unpaid
  = ref_epoch_discard disabled check_err epoch unpaid.
Proof.
  intros d c epoch unpaid He Hu. unfold epoch_discard, ref_epoch_discard.
  destruct d; [reflexivity|]. destruct c; [reflexivity|]. cbn [negb andb].
  destruct (Z.ltb_spec unpaid 0) as [L|L].
  - destruct (Z.leb_spec 0 unpaid); [lia|reflexivity].
  - destruct (Z.leb_spec 0 unpaid); [|lia]. cbn [andb]. apply cond_new_spec; assumption.
Qed.

(* the statement in the words of the property *)
Theorem discard_iff_prop : forall disabled check_err (epoch : N) (unpaid : Z),
  is_u64 epoch -> is_i64 unpaid ->
  (epoch_discard cond_new disabled check_err epoch unpaid = true <->
   disabled = false /\ check_err = false /\ (0 <= unpaid)%Z
   /\ (unpaid + Z.of_N grace <= Z.of_N epoch)%Z).
Proof.
  intros d c epoch unpaid He Hu. rewrite discard_iff by assumption. unfold ref_epoch_discard.
  rewrite !andb_true_iff, !negb_true_iff, !Z.leb_le. tauto.
Qed.

(* never for a mark newer than the processed epoch *)
Theorem newer_mark_never : forall disabled check_err (epoch : N) (unpaid : Z),
  is_u64 epoch -> is_i64 unpaid -> (Z.of_N epoch < unpaid)%Z ->
  epoch_discard cond_new disabled check_err epoch unpaid = false.
Proof.
  intros d c epoch unpaid He Hu H. rewrite discard_iff by assumption. unfold ref_epoch_discard.
  destruct (Z.leb_spec (unpaid + Z.of_N grace) (Z.of_N epoch)) as [L|L].
  - unfold grace in L. lia.
  - now rewrite !andb_false_r.
Qed.

Theorem source_discard_iff : forall s, source_discard s = true <-> s = NotFound.
Proof. intros []; simpl; split; congruence. Qed.

(* the code before the repair discards on a mark newer than the processed epoch *)
Theorem old_cond_refuted :
  exists (epoch : N) (unpaid : Z), is_u64 epoch /\ is_i64 unpaid /\ (Z.of_N epoch < unpaid)%Z /\
    epoch_discard cond_old false false epoch unpaid = true.
Proof.
  exists 4%N, 5%Z. repeat split; try (unfold is_u64, is_i64, two64; lia). 
Qed.
