(* Fixed-width integer arithmetic as Go computes it, on N / Z.
   Definitions only (plus small lemmas); used by models whose property is about
   wrap-around.  uint64 values are N below 2^64; int64 values are Z in
   [-2^63, 2^63). *)
From Coq Require Import NArith ZArith Lia.
Local Open Scope N_scope.

Definition two64 : N := 18446744073709551616.
Definition wrap64 (x : N) : N := x mod two64.
Definition add64 (a b : N) : N := wrap64 (a + b).
Definition sub64 (a b : N) : N := wrap64 (a + two64 - wrap64 b).
Definition mul64 (a b : N) : N := wrap64 (a * b).
Definition is_u64 (x : N) : Prop := x < two64.

(* uint64(x) for an int64 x *)
Definition u64_of_i64 (x : Z) : N := Z.to_N (x mod (Z.of_N two64))%Z.
(* int64(x) for a uint64 x *)
Definition i64_of_u64 (x : N) : Z :=
  if x <? 9223372036854775808 then Z.of_N x else (Z.of_N x - Z.of_N two64)%Z.

Lemma wrap64_lt x : wrap64 x < two64.
Proof. unfold wrap64. apply N.mod_lt. discriminate. Qed.

Lemma wrap64_small x : x < two64 -> wrap64 x = x.
Proof. intros H. unfold wrap64. apply N.mod_small. exact H. Qed.

Lemma sub64_ge a b : b <= a -> a < two64 -> sub64 a b = a - b.
Proof.
  intros Hle Ha. unfold sub64. rewrite (wrap64_small b) by lia.
  unfold wrap64. replace (a + two64 - b) with ((a - b) + 1 * two64) by lia.
  rewrite N.mod_add by discriminate. apply N.mod_small. lia.
Qed.

Lemma sub64_lt a b : a < b -> b < two64 -> sub64 a b = a + two64 - b.
Proof.
  intros Hlt Hb. unfold sub64. rewrite (wrap64_small b) by lia.
  unfold wrap64. apply N.mod_small. lia.
Qed.
