(* The link discipline of the fstree writers (FS.v) and what readers see under it.
   [linked_ok]: every name in the tree is either a temporary name (contains '#') or the path of
   an address whose inode SERVES that address: a plain file holding a stored form of the
   object, or a file of records (followed by anything) whose first record with the object's
   ID holds one.  [safe]: the side conditions under which a syscall keeps [linked_ok]
   (a path is linked only to a complete file/record; only unnamed, temporary or record files
   are appended to).  [exec_ok]: safe calls keep the invariant -- hence so does every prefix of
   a safe trace, torn last write included (C12) and every complete history (C10).
   PROOF FILE. *)
From Coq Require Import List NArith ZArith Arith Bool Lia.
Import ListNotations.
From NV Require Import Gen.FSTreeConsts FSTree.Wire FSTree.WireProofs FSTree.Range FSTree.Combined
  FSTree.CombinedProofs FSTree.FS.

(* ---- paths ------------------------------------------------------------------------------ *)

Lemma path_eqb_eq a : forall b, path_eqb a b = true <-> a = b.
Proof.
  induction a as [|x a IH]; destruct b as [|y b]; simpl; split; intros H; try discriminate; auto.
  - apply andb_true_iff in H. destruct H as [H1 H2]. apply bytes_eqb_eq in H1. apply IH in H2. congruence.
  - inversion H; subst. rewrite bytes_eqb_refl. simpl. apply IH. reflexivity.
Qed.

Lemma path_eqb_refl a : path_eqb a a = true.
Proof. apply path_eqb_eq. reflexivity. Qed.

Lemma path_eqb_neq a b : a <> b -> path_eqb a b = false.
Proof. intros H. destruct (path_eqb a b) eqn:E; [apply path_eqb_eq in E; contradiction|reflexivity]. Qed.

Lemma tree_path_concat d : forall n, concat (tree_path d n) = n.
Proof.
  induction d as [|d IH]; intros n; cbn [tree_path concat].
  - apply app_nil_r.
  - rewrite IH. apply firstn_skipn.
Qed.

Lemma tree_path_length d : forall n, length (tree_path d n) = S d.
Proof. induction d as [|d IH]; intros n; cbn [tree_path length]; [reflexivity|]. rewrite IH. reflexivity. Qed.

Lemma tree_path_inj d n1 n2 : tree_path d n1 = tree_path d n2 -> n1 = n2.
Proof. intros H. rewrite <- (tree_path_concat d n1), <- (tree_path_concat d n2), H. reflexivity. Qed.

Lemma has_hash_tmp n k : has_hash (tmp_name n k) = true.
Proof.
  unfold has_hash, tmp_name. rewrite existsb_app. apply orb_true_iff. right. reflexivity.
Qed.

(* ---- links -------------------------------------------------------------------------------- *)

Definition linked (s : fs) (p : path) : Prop := In p (map fst (links s)).

Lemma lookup_cons q j l p : lookup p ((q, j) :: l) = if path_eqb q p then Some j else lookup p l.
Proof. unfold lookup. simpl. destruct (path_eqb q p); reflexivity. Qed.

Lemma lookup_some l p i : lookup p l = Some i -> In (p, i) l.
Proof.
  induction l as [|[q j] l IH]; [discriminate|]. rewrite lookup_cons.
  destruct (path_eqb q p) eqn:E.
  - intros H. inversion H; subst. apply path_eqb_eq in E. subst. left. reflexivity.
  - intros H. right. auto.
Qed.

Lemma lookup_none l p : lookup p l = None <-> ~ In p (map fst l).
Proof.
  induction l as [|[q j] l IH]; [simpl; tauto|]. rewrite lookup_cons. simpl.
  destruct (path_eqb q p) eqn:E.
  - apply path_eqb_eq in E. subst. split; [discriminate|]. intros H. exfalso. apply H. left. reflexivity.
  - rewrite IH. split.
    + intros H [H1|H1]; [subst; rewrite path_eqb_refl in E; discriminate|contradiction].
    + intros H H1. apply H. right. exact H1.
Qed.

Lemma lookup_is_some l p : (exists i, lookup p l = Some i) <-> In p (map fst l).
Proof.
  split.
  - intros [i H]. apply lookup_some in H. apply in_map_iff. exists (p, i). auto.
  - intros H. destruct (lookup p l) eqn:E; [eauto|]. apply lookup_none in E. contradiction.
Qed.

Lemma in_remove l p e : In e (remove p l) <-> In e l /\ fst e <> p.
Proof.
  unfold remove. rewrite filter_In. split; intros [H1 H2]; split; auto.
  - intros E. rewrite E, path_eqb_refl in H2. discriminate.
  - rewrite path_eqb_neq by assumption. reflexivity.
Qed.

Lemma NoDup_remove l p : NoDup (map fst l) -> NoDup (map fst (remove p l)).
Proof.
  induction l as [|e l IH]; simpl; intros H; [constructor|]. inversion H; subst.
  destruct (negb (path_eqb (fst e) p)); simpl; auto. constructor; auto.
  intros HI. apply H2. apply in_map_iff in HI. destruct HI as [e' [E1 E2]]. apply in_remove in E2.
  apply in_map_iff. exists e'. tauto.
Qed.

Lemma in_map_remove l p q : In q (map fst (remove p l)) <-> In q (map fst l) /\ q <> p.
Proof.
  rewrite !in_map_iff. split.
  - intros [e [E1 E2]]. apply in_remove in E2. destruct E2. subst. split; eauto.
  - intros [[e [E1 E2]] N]. exists e. split; auto. apply in_remove. subst. auto.
Qed.

Lemma app_at_length i d l : length (app_at i d l) = length l.
Proof. revert i. induction l as [|x l IH]; intros [|i]; simpl; auto. Qed.

Lemma app_at_same i d : forall l, i < length l -> nth i (app_at i d l) [] = nth i l [] ++ d.
Proof. induction i as [|i IH]; intros [|x l] H; simpl in *; try lia; auto. apply IH. lia. Qed.

Lemma app_at_other i j d : forall l, j <> i -> nth j (app_at i d l) [] = nth j l [].
Proof.
  revert j. induction i as [|i IH]; intros j [|x l] H; simpl; auto.
  - destruct j; [lia|reflexivity].
  - destruct j; [reflexivity|]. apply IH. lia.
Qed.

Lemma run_trace_app s t1 t2 : run_trace s (t1 ++ t2) = run_trace (run_trace s t1) t2.
Proof. apply fold_left_app. Qed.

(* how each call changes the set of names *)
Lemma linked_link s i p q : linked (exec s (ScLink i p)) q <-> linked s q \/ q = p.
Proof.
  unfold linked. simpl. destruct (lookup p (links s)) eqn:E.
  - split; [tauto|]. intros [H|H]; [exact H|]. subst. apply lookup_is_some. eauto.
  - simpl. split; intros [H|H]; auto.
Qed.

Lemma linked_excl s p q : linked (exec s (ScOpenExcl p)) q <-> linked s q \/ q = p.
Proof. unfold linked. simpl. split; intros [H|H]; auto. Qed.

Lemma linked_unlink s p q : linked (exec s (ScUnlink p)) q <-> linked s q /\ q <> p.
Proof. unfold linked. simpl. apply in_map_remove. Qed.

Lemma linked_rename s p q i r : lookup p (links s) = Some i ->
  (linked (exec s (ScRename p q)) r <-> r = q \/ (linked s r /\ r <> p /\ r <> q)).
Proof.
  intros E. unfold linked. simpl. rewrite E. simpl. rewrite !in_map_remove. split.
  - intros [H|[[H1 H2] H3]]; auto.
  - intros [H|[H1 [H2 H3]]]; auto.
Qed.

Section Discipline.
Variable dec : bytes -> option bytes.
Variable nm : naming.
Variable c : cfg.
Variable content : nat -> bytes.   (* the object binary an address stands for *)

Hypothesis parse_str : forall a, parse nm (str nm a) = Some a.
Hypothesis parse_inv : forall n a, parse nm n = Some a -> n = str nm a.
Hypothesis parse_hash : forall n, has_hash n = true -> parse nm n = None.
Hypothesis oid_len : forall a, length (oidb nm a) = oid_size.
Hypothesis oid_inj : forall a b, oidb nm a = oidb nm b -> a = b.

Notation tpa := (tp nm c).

Lemma str_no_hash a : has_hash (str nm a) = false.
Proof.
  destruct (has_hash (str nm a)) eqn:E; [|reflexivity]. apply parse_hash in E. rewrite parse_str in E. discriminate.
Qed.

Lemma tp_inj a b : tpa a = tpa b -> a = b.
Proof.
  intros H. apply tree_path_inj in H. assert (E : parse nm (str nm a) = parse nm (str nm b)) by (rewrite H; reflexivity).
  rewrite !parse_str in E. congruence.
Qed.

(* a stored form of the object of address a: non-empty, decompresses to it, fits a record *)
Definition good (a : nat) (D : bytes) : Prop :=
  D <> [] /\ decompress dec D = Some (content a) /\ (N.of_nat (length D) < 4294967296)%N.

Definition recs_good (rs : list (bytes * bytes)) : Prop :=
  Forall wf_rec rs /\ forall r, In r rs -> exists a, fst r = oidb nm a /\ good a (snd r).

Definition servesP (b : bytes) (a : nat) : Prop := good a b /\ no_prefix b = true.
Definition servesC (b : bytes) (a : nat) : Prop :=
  exists rs tail, recs_good rs /\ b = records rs ++ tail /\ exists r, find_rec (oidb nm a) rs = Some r.
Definition serves (b : bytes) (a : nat) : Prop := servesP b a \/ servesC b a.

(* KEY LEMMA: appending anything (more records, a torn record) never changes what an
   earlier ID resolves to *)
Lemma servesC_app b a x : servesC b a -> servesC (b ++ x) a.
Proof.
  intros (rs & tail & G & E & F). exists rs, (tail ++ x). split; [exact G|]. split; [|exact F].
  rewrite E, app_assoc. reflexivity.
Qed.

Lemma servesC_found b a : servesC b a ->
  exists rs tail r, Forall wf_rec rs /\ b = records rs ++ tail /\ find_rec (oidb nm a) rs = Some r /\ good a (snd r).
Proof.
  intros (rs & tail & [W G] & E & r & F). exists rs, tail, r. repeat split; auto; unfold find_rec in F;
    pose proof (find_some _ _ F) as [I Q]; apply bytes_eqb_eq in Q; destruct (G r I) as (a' & E' & G');
    rewrite E' in Q; apply oid_inj in Q; subst a'; apply G'.
Qed.

Lemma records_app r1 r2 : records (r1 ++ r2) = records r1 ++ records r2.
Proof. unfold records. apply flat_map_app. Qed.

Lemma no_prefix_records rs tail : rs <> [] -> no_prefix (records rs ++ tail) = false.
Proof.
  destruct rs as [|[id d] rs]; [congruence|]. intros _.
  change (records ((id, d) :: rs)) with (record id d ++ records rs). unfold record. reflexivity.
Qed.

(* a file of records is never a plain file of some address *)
Lemma records_not_plain rs a : ~ servesP (records rs) a.
Proof.
  intros [[NE _] NP]. destruct rs as [|r rs]; [apply NE; reflexivity|].
  rewrite <- (app_nil_r (records (r :: rs))) in NP. rewrite no_prefix_records in NP; [discriminate|congruence].
Qed.

(* ---- what the readers return for a serving file --------------------------------------------- *)

Lemma serves_get b a : serves b a -> extract_combined_object dec (oidb nm a) b = GOk (content a).
Proof.
  intros [[[NE [D L]] NP]|H].
  - rewrite extract_plain by assumption. rewrite D. reflexivity.
  - destruct (servesC_found b a H) as (rs & tail & r & W & E & F & [NE [D L]]).
    rewrite E, (extract_records dec _ rs tail r W F NE), D. reflexivity.
Qed.

Lemma serves_header b a cap : 2 * npfbl <= cap -> serves b a ->
  exists D, (exists i st, read_header cap (oidb nm a) b = HOk i st /\ head_split D i st) /\
            decompress dec D = Some (content a).
Proof.
  intros Hc [[[NE [D L]] NP]|H].
  - exists b. split; [apply read_header_plain; assumption|assumption].
  - destruct (servesC_found b a H) as (rs & tail & r & W & E & F & [NE [D L]]).
    exists (snd r). split; [|assumption]. rewrite E. apply read_header_combined; assumption.
Qed.

Lemma serves_stream b a : serves b a ->
  stream_all (read_object_ dec (chunk c) (2 * npfbl) (oidb nm a) b) = GOk (content a).
Proof.
  intros H. destruct (serves_header b a (2 * npfbl) (le_n _) H) as (D & HH & HD).
  destruct (read_object__ok dec (chunk c) _ _ _ D _ (le_n _) HH HD) as (i & st & E & T).
  rewrite E. unfold stream_all. unfold delivered in T. rewrite T. reflexivity.
Qed.

Lemma serves_read_obj b a cap : 2 * npfbl <= cap -> serves b a ->
  stream_all (read_object dec (chunk c) cap (oidb nm a) b) = GOk (content a).
Proof.
  intros Hc H. destruct (serves_header b a cap Hc H) as (D & HH & HD).
  destruct (read_object_ok dec (chunk c) _ _ _ D _ Hc HH HD) as (i & st & E & T).
  rewrite E. unfold stream_all. unfold delivered in T. rewrite T. reflexivity.
Qed.

(* ---- the invariant and the safe calls --------------------------------------------------------- *)

Definition name_ok (s : fs) (p : path) (i : nat) (comb_only : bool) : Prop :=
  exists n, p = tree_path (depth c) n /\
    (has_hash n = true \/
     exists a, n = str nm a /\ (if comb_only then servesC (nth i (inodes s) []) a else serves (nth i (inodes s) []) a)).

Definition linked_ok (s : fs) : Prop :=
  NoDup (map fst (links s)) /\
  forall p i, In (p, i) (links s) -> i < length (inodes s) /\ name_ok s p i false.

Definition safe (s : fs) (x : sc) : Prop :=
  match x with
  | ScWrite i _ => forall p, In (p, i) (links s) -> name_ok s p i true
  | ScLink i p => i < length (inodes s) /\ exists a, p = tpa a /\ serves (nth i (inodes s) []) a
  | ScOpenExcl p => lookup p (links s) = None /\ exists n, p = tree_path (depth c) n /\ has_hash n = true
  | ScRename p q => exists i a, lookup p (links s) = Some i /\ q = tpa a /\ servesP (nth i (inodes s) []) a
  | _ => True
  end.

Fixpoint safe_trace (s : fs) (t : list sc) : Prop :=
  match t with
  | [] => True
  | x :: r => safe s x /\ safe_trace (exec s x) r
  end.

Lemma name_ok_weaken s p i : name_ok s p i true -> name_ok s p i false.
Proof. intros (n & E & [H|(a & E' & H)]); exists n; split; auto. right. exists a. split; auto. right. exact H. Qed.

Lemma name_ok_inodes s s' p i b : nth i (inodes s') [] = nth i (inodes s) [] -> name_ok s p i b -> name_ok s' p i b.
Proof. intros E (n & E1 & [H|(a & E' & H)]); exists n; split; auto. right. exists a. rewrite E. auto. Qed.

Theorem exec_ok s x : linked_ok s -> safe s x -> linked_ok (exec s x).
Proof.
  intros [ND OK] S. unfold linked_ok. destruct x as [|i d|i p|p|p q|p| |]; simpl in *.
  - (* open O_TMPFILE *)
    split; [exact ND|]. intros p i I. destruct (OK p i I) as [L N]. split; [rewrite app_length; lia|].
    eapply name_ok_inodes; [|exact N]. simpl. apply app_nth1. exact L.
  - (* write *)
    split; [exact ND|]. intros p j I. destruct (OK p j I) as [L N]. split; [rewrite app_at_length; exact L|].
    destruct (Nat.eq_dec j i) as [->|NE].
    + destruct (S p I) as (n & E & [H|(a & E' & H)]); exists n; split; auto.
      right. exists a. split; auto. right. simpl. rewrite app_at_same by exact L. apply servesC_app. exact H.
    + eapply name_ok_inodes; [|exact N]. simpl. apply app_at_other. exact NE.
  - (* linkat *)
    destruct (lookup p (links s)) eqn:E; [split; assumption|].
    destruct S as [L (a & Ep & Sv)]. split; simpl.
    + constructor; [apply lookup_none; exact E|exact ND].
    + intros p' j [I|I]; [|apply OK; exact I]. inversion I; subst. split; [exact L|].
      exists (str nm a). split; [reflexivity|]. right. exists a. split; [reflexivity|exact Sv].
  - (* open O_EXCL *)
    destruct S as [E (n & Ep & Hh)]. split; simpl.
    + constructor; [apply lookup_none; exact E|exact ND].
    + intros p' j [I|I].
      * inversion I; subst. split; [rewrite app_length; simpl; lia|]. exists n. auto.
      * destruct (OK p' j I) as [L N]. split; [rewrite app_length; lia|].
        eapply name_ok_inodes; [|exact N]. simpl. apply app_nth1. exact L.
  - (* rename *)
    destruct S as (i & a & E & Eq & Sv). rewrite E. split; simpl.
    + constructor; [|apply NoDup_remove, NoDup_remove; exact ND].
      intros H. apply in_map_remove in H. destruct H as [_ H]. apply H. reflexivity.
    + intros p' j [I|I].
      * inversion I; subst. split; [apply (OK p j), lookup_some; exact E|].
        exists (str nm a). split; [reflexivity|]. right. exists a. split; [reflexivity|left; exact Sv].
      * apply in_remove in I. destruct I as [I _]. apply in_remove in I. destruct I as [I _]. apply OK. exact I.
  - (* unlink *)
    split; [apply NoDup_remove; exact ND|]. intros p' j I. apply in_remove in I. apply OK. tauto.
  - split; assumption.
  - split; assumption.
Qed.

Theorem trace_ok t : forall s, linked_ok s -> safe_trace s t -> linked_ok (run_trace s t).
Proof.
  induction t as [|x t IH]; intros s L S; simpl; [exact L|]. destruct S as [S1 S2].
  apply IH; [apply exec_ok; assumption|exact S2].
Qed.

Lemma safe_trace_app t1 t2 s : safe_trace s (t1 ++ t2) <-> safe_trace s t1 /\ safe_trace (run_trace s t1) t2.
Proof.
  revert s. induction t1 as [|x t1 IH]; intros s; simpl; [tauto|]. rewrite IH. tauto.
Qed.

(* ---- what readers see in a state that satisfies the invariant ---------------------------------- *)

Lemma linked_file s a i : linked_ok s -> lookup (tpa a) (links s) = Some i -> serves (nth i (inodes s) []) a.
Proof.
  intros [_ OK] E. apply lookup_some in E. destruct (OK _ _ E) as [_ (n & En & [H|(a' & E' & H)])].
  - apply tree_path_inj in En. subst n. rewrite str_no_hash in H. discriminate.
  - subst n. apply tp_inj in En. subst a'. exact H.
Qed.

Theorem reads_ok s a : linked_ok s ->
  let v := if exists_ nm c s a then GOk (content a) else GNotFound in
  get_bytes dec nm c s a = v /\ get_stream dec nm c s a = v /\
  forall cap, 2 * npfbl <= cap -> read_obj dec nm c s a cap = v.
Proof.
  intros L. unfold exists_, get_bytes, get_stream, read_obj, file_of.
  destruct (lookup (tpa a) (links s)) as [i|] eqn:E; [|auto].
  pose proof (linked_file s a i L E) as Sv. split; [apply serves_get; exact Sv|].
  split; [apply serves_stream; exact Sv|]. intros cap Hc. apply serves_read_obj; assumption.
Qed.

(* iteration: exactly the linked addresses, each once, with its bytes; temporary names never *)
Lemma iter_links_ok s : linked_ok s -> forall l, incl l (links s) -> NoDup (map fst l) ->
  exists r, iter_links dec nm c s l = Some r /\ NoDup (map fst r) /\
            forall a x, In (a, x) r <-> (x = content a /\ In (tpa a) (map fst l)).
Proof.
  intros [_ OK]. induction l as [|[p i] l IH]; intros I ND.
  - exists []. split; [reflexivity|]. split; [constructor|]. simpl. tauto.
  - inversion ND as [|? ? NI ND']; subst. destruct (IH (fun e H => I e (or_intror H)) ND') as (r & E & NDr & Sp).
    destruct (OK p i (I _ (or_introl eq_refl))) as [_ (n & En & H)]. subst p.
    cbn [iter_links]. rewrite tree_path_length, Nat.eqb_refl, tree_path_concat.
    destruct H as [H|(a & Ea & Sv)].
    + rewrite (parse_hash n H). exists r. split; [exact E|]. split; [exact NDr|].
      intros a x. rewrite Sp. simpl. split; [tauto|]. intros [Hx [Hp|Hp]]; [|tauto].
      exfalso. unfold tp in Hp. apply tree_path_inj in Hp. subst n. rewrite str_no_hash in H. discriminate.
    + subst n. rewrite parse_str. rewrite (serves_get _ _ Sv), E. eexists. split; [reflexivity|].
      change (tree_path (depth c) (str nm a)) with (tpa a) in *. split.
      * simpl. constructor; [|exact NDr]. intros HI. apply in_map_iff in HI. destruct HI as [[a' x'] [E1 E2]].
        simpl in E1. subst a'. apply Sp in E2. destruct E2 as [_ E2]. apply NI. exact E2.
      * intros a' x. simpl. rewrite Sp. split.
        -- intros [H|H]; [inversion H; subst; auto|tauto].
        -- intros [Hx [Hp|Hp]]; [left; apply tp_inj in Hp; subst; reflexivity|right; auto].
Qed.

Theorem iterate_ok s : linked_ok s ->
  exists r, iterate dec nm c s = Some r /\ NoDup (map fst r) /\
            forall a x, In (a, x) r <-> (x = content a /\ exists_ nm c s a = true).
Proof.
  intros L. destruct (iter_links_ok s L (links s) (fun _ H => H) (proj1 L)) as (r & E & ND & Sp).
  exists r. split; [exact E|]. split; [exact ND|]. intros a x. rewrite Sp. unfold exists_.
  split; intros [H1 H2]; split; auto.
  - apply lookup_is_some in H2. destruct H2 as [i H2]. rewrite H2. reflexivity.
  - destruct (lookup (tpa a) (links s)) eqn:E'; [|discriminate]. apply lookup_is_some. eauto.
Qed.


(* ---- the writers keep the discipline ------------------------------------------------------------- *)

Definition no_tmp (s : fs) : Prop := forall p i, In (p, i) (links s) -> exists a, p = tpa a.

(* the open combined batch is a file of good records *)
Definition cur_ok (s : fs) (cu : option (nat * nat * nat)) : Prop :=
  match cu with
  | None => True
  | Some (i, _, _) => i < length (inodes s) /\ exists rs, recs_good rs /\ nth i (inodes s) [] = records rs
  end.

Lemma cur_ok_pres s s' cu : length (inodes s) <= length (inodes s') ->
  (forall i cnt sz, cu = Some (i, cnt, sz) -> i < length (inodes s) -> nth i (inodes s') [] = nth i (inodes s) []) ->
  cur_ok s cu -> cur_ok s' cu.
Proof.
  intros L E. destruct cu as [[[i cnt] sz]|]; simpl; [|auto]. intros [Hi (rs & G & Er)].
  split; [lia|]. exists rs. split; [exact G|]. rewrite (E i cnt sz eq_refl Hi). exact Er.
Qed.

Lemma exists_linked s a : exists_ nm c s a = true <-> linked s (tpa a).
Proof.
  unfold exists_, linked. rewrite <- lookup_is_some. destruct (lookup (tpa a) (links s)); split; eauto; try discriminate.
  intros [i H]. discriminate.
Qed.

Lemma exec_link_inodes s i p : inodes (exec s (ScLink i p)) = inodes s.
Proof. simpl. destruct (lookup p (links s)); reflexivity. Qed.

Lemma exec_link_in s i p e : In e (links (exec s (ScLink i p))) -> e = (p, i) \/ In e (links s).
Proof. simpl. destruct (lookup p (links s)); simpl; intros H; [auto|]. destruct H; auto. Qed.

Lemma comb_write_safe s i d rs : linked_ok s -> nth i (inodes s) [] = records rs -> safe s (ScWrite i d).
Proof.
  intros [_ OK] E p I. destruct (OK p i I) as [_ (n & En & [H|(a & Ea & [H|H])])]; exists n; split; auto.
  - exfalso. rewrite E in H. exact (records_not_plain rs a H).
  - right. exists a. auto.
Qed.

Lemma fresh_write_safe s i d : linked_ok s -> length (inodes s) <= i -> safe s (ScWrite i d).
Proof. intros [_ OK] L p I. destruct (OK p i I) as [H _]. lia. Qed.

Lemma find_rec_app id rs r0 : bytes_eqb (fst r0) id = true -> exists r, find_rec id (rs ++ [r0]) = Some r.
Proof.
  unfold find_rec. intros H. induction rs as [|x rs IH]; simpl; [rewrite H; eauto|].
  destruct (bytes_eqb (fst x) id); eauto.
Qed.

Lemma recs_good_nil : recs_good [].
Proof. split; [constructor|]. intros r []. Qed.

Lemma recs_good_snoc rs a d : recs_good rs -> good a d -> recs_good (rs ++ [(oidb nm a, d)]).
Proof.
  intros [W G] Gd. split.
  - apply Forall_app. split; [exact W|]. constructor; [|constructor]. split; simpl; [apply oid_len|apply Gd].
  - intros r I. apply in_app_iff in I. destruct I as [I|[I|[]]]; [auto|]. subst. exists a. auto.
Qed.

(* syncBatch.write on a file of records: the record is complete before its name appears *)
Lemma record_step s i a d rs :
  linked_ok s -> i < length (inodes s) -> nth i (inodes s) [] = records rs -> recs_good rs -> good a d ->
  let s' := run_trace s (t_record nm c i a d) in
  safe_trace s (t_record nm c i a d) /\ length (inodes s') = length (inodes s) /\
  nth i (inodes s') [] = records (rs ++ [(oidb nm a, d)]) /\
  (forall p, linked s' p <-> linked s p \/ p = tpa a) /\ (no_tmp s -> no_tmp s') /\
  (forall j, j <> i -> nth j (inodes s') [] = nth j (inodes s) []).
Proof.
  intros L Hi E G Gd. unfold t_record. cbn [run_trace fold_left safe_trace].
  set (rc := record (oidb nm a) d). set (s1 := exec s (ScWrite i rc)).
  assert (S1 : safe s (ScWrite i rc)) by (eapply comb_write_safe; eauto).
  assert (E1 : nth i (inodes s1) [] = records (rs ++ [(oidb nm a, d)])).
  { unfold s1. simpl. rewrite app_at_same by exact Hi. rewrite E, records_app. unfold records at 2. simpl.
    rewrite app_nil_r. reflexivity. }
  assert (L1 : length (inodes s1) = length (inodes s)) by (unfold s1; simpl; apply app_at_length).
  assert (S2 : safe s1 (ScLink i (tpa a))).
  { cbn [safe]. split; [rewrite L1; exact Hi|]. exists a. split; [reflexivity|]. right. rewrite E1.
    exists (rs ++ [(oidb nm a, d)]), []. split; [apply recs_good_snoc; assumption|]. split; [rewrite app_nil_r; reflexivity|].
    apply find_rec_app. simpl. apply bytes_eqb_refl. }
  split; [tauto|]. rewrite !exec_link_inodes.
  assert (O : forall j, j <> i -> nth j (inodes s1) [] = nth j (inodes s) []) by (intros j NE; unfold s1; simpl; apply app_at_other; exact NE).
  split; [exact L1|split; [exact E1|split; [|split; [|exact O]]]].
  - intros p. rewrite linked_link. unfold linked, s1. simpl. tauto.
  - intros NT p' j I. apply exec_link_in in I. destruct I as [I|I]; [inversion I; eauto|]. apply (NT p' j). exact I.
Qed.

Lemma exec_close s : exec s ScClose = s. Proof. reflexivity. Qed.
Lemma exec_sync s : exec s ScSync = s. Proof. reflexivity. Qed.

Lemma no_link_to_new s p : linked_ok s -> ~ In (p, length (inodes s)) (links s).
Proof. intros [_ OK] I. destruct (OK _ _ I) as [H _]. lia. Qed.

Lemma new_inode_nth s d j : j < length (inodes s) ->
  nth j (app_at (length (inodes s)) d (inodes s ++ [[]])) [] = nth j (inodes s) [].
Proof. intros H. rewrite app_at_other by lia. apply app_nth1. exact H. Qed.

Lemma new_inode_self s d : nth (length (inodes s)) (app_at (length (inodes s)) d (inodes s ++ [[]])) [] = d.
Proof.
  rewrite app_at_same by (rewrite app_length; simpl; lia). rewrite app_nth2, Nat.sub_diag by lia. reflexivity.
Qed.

(* linuxWriter.writeFile: the name appears when the file is complete *)
Lemma single_step s a d : linked_ok s -> good a d -> no_prefix d = true ->
  let t := t_single s (tpa a) d in let s' := run_trace s t in
  safe_trace s t /\ length (inodes s) <= length (inodes s') /\
  (forall j, j < length (inodes s) -> nth j (inodes s') [] = nth j (inodes s) []) /\
  (forall p, linked s' p <-> linked s p \/ p = tpa a) /\ (no_tmp s -> no_tmp s').
Proof.
  intros L G NP. unfold t_single. cbn [run_trace fold_left safe_trace]. rewrite exec_close.
  set (n := length (inodes s)). set (s1 := exec s ScOpenTmp). set (s2 := exec s1 (ScWrite n d)).
  assert (S1 : safe s1 (ScWrite n d)) by (intros p I; exfalso; exact (no_link_to_new s p L I)).
  assert (E2 : nth n (inodes s2) [] = d) by apply new_inode_self.
  assert (Len2 : length (inodes s2) = S n) by (unfold s2, s1; simpl; rewrite app_at_length, app_length; simpl; lia).
  assert (S2 : safe s2 (ScLink n (tpa a))).
  { cbn [safe]. split; [rewrite Len2; lia|]. exists a. split; [reflexivity|]. left. rewrite E2. split; assumption. }
  split; [exact (conj I (conj S1 (conj S2 (conj I I))))|]. rewrite !exec_link_inodes.
  split; [rewrite Len2; lia|]. split; [intros j Hj; apply new_inode_nth; exact Hj|]. split.
  - intros p. rewrite linked_link. unfold linked, s2, s1. simpl. tauto.
  - intros NT p' j I. apply exec_link_in in I. destruct I as [I|I]; [inversion I; eauto|]. apply (NT p' j). exact I.
Qed.

Lemma tmp_not_linked s a k : no_tmp s -> lookup (tmpp nm c a k) (links s) = None.
Proof.
  intros NT. apply lookup_none. intros I. apply in_map_iff in I. destruct I as [[p i] [E I]]. simpl in E. subst p.
  destruct (NT _ _ I) as [a' E]. unfold tmpp, tp in E. apply tree_path_inj in E.
  pose proof (has_hash_tmp (str nm a) k) as H. rewrite E, str_no_hash in H. discriminate.
Qed.

Lemma free_tmp_0 s a : no_tmp s -> free_tmp nm c s a = Some 0.
Proof. intros NT. unfold free_tmp. simpl. rewrite tmp_not_linked by exact NT. reflexivity. Qed.

(* genericWriter.writeData: the data is complete under the temporary name before the rename *)
Lemma generic_step s a d : linked_ok s -> no_tmp s -> good a d -> no_prefix d = true ->
  let t := t_generic nm c s a 0 d in let s' := run_trace s t in
  safe_trace s t /\ length (inodes s) <= length (inodes s') /\
  (forall j, j < length (inodes s) -> nth j (inodes s') [] = nth j (inodes s) []) /\
  (forall p, linked s' p <-> linked s p \/ p = tpa a) /\ no_tmp s'.
Proof.
  intros L NT G NP. unfold t_generic. cbn [run_trace fold_left safe_trace]. rewrite exec_close.
  set (n := length (inodes s)). set (tmp := tmpp nm c a 0).
  set (s1 := exec s (ScOpenExcl tmp)). set (s2 := exec s1 (ScWrite n d)).
  pose proof (tmp_not_linked s a 0 NT) as TN. fold tmp in TN.
  assert (S0 : safe s (ScOpenExcl tmp)).
  { cbn [safe]. split; [exact TN|]. exists (tmp_name (str nm a) 0). split; [reflexivity|apply has_hash_tmp]. }
  assert (S1 : safe s1 (ScWrite n d)).
  { intros p I. simpl in I. destruct I as [I|I]; [|exfalso; exact (no_link_to_new s p L I)].
    inversion I; subst p. exists (tmp_name (str nm a) 0). split; [reflexivity|left; apply has_hash_tmp]. }
  assert (Lk2 : lookup tmp (links s2) = Some n) by (unfold s2, s1; simpl; rewrite lookup_cons, path_eqb_refl; reflexivity).
  assert (E2 : nth n (inodes s2) [] = d) by apply new_inode_self.
  assert (S2 : safe s2 (ScRename tmp (tpa a))).
  { cbn [safe]. exists n, a. split; [exact Lk2|]. split; [reflexivity|]. rewrite E2. split; assumption. }
  split; [exact (conj S0 (conj S1 (conj I (conj S2 I))))|].
  assert (Ein : inodes (exec s2 (ScRename tmp (tpa a))) = inodes s2) by (cbn [exec]; rewrite Lk2; reflexivity).
  rewrite Ein.
  split; [unfold s2, s1; simpl; rewrite app_at_length, app_length; lia|].
  split; [intros j Hj; apply new_inode_nth; exact Hj|]. split.
  - intros p. rewrite (linked_rename s2 tmp (tpa a) n p Lk2).
    assert (Ls2 : linked s2 p <-> linked s p \/ p = tmp) by (unfold linked, s2, s1; simpl; intuition).
    rewrite Ls2. assert (TL : ~ linked s tmp) by (apply lookup_none; exact TN).
    split.
    + intros [H|[[H|H] [H1 H2]]]; [auto|auto|contradiction].
    + intros [H|H]; [|auto]. destruct (path_eqb p (tpa a)) eqn:Q; [apply path_eqb_eq in Q; auto|].
      right. split; [auto|]. split; [intros Q'; subst p; contradiction|].
      intros Q'. subst p. rewrite path_eqb_refl in Q. discriminate.
  - intros p' j I. cbn [exec] in I. rewrite Lk2 in I. cbn [links] in I. destruct I as [I|I]; [inversion I; eauto|].
    apply in_remove in I. destruct I as [I _]. apply in_remove in I. destruct I as [I NE].
    unfold s2, s1 in I. simpl in I. destruct I as [I|I]; [inversion I as [[Q1 Q2]]; simpl in NE; congruence|]. apply (NT p' j). exact I.
Qed.

Definition igood (o : nat * bytes) : Prop := good (fst o) (snd o) /\ no_prefix (snd o) = true.

(* a run of syncBatch.write calls on one file of records *)
Lemma records_run i : forall items s rs, linked_ok s -> i < length (inodes s) -> nth i (inodes s) [] = records rs ->
  recs_good rs -> Forall igood items ->
  let t := flat_map (fun o => t_record nm c i (fst o) (snd o)) items in let s' := run_trace s t in
  safe_trace s t /\ length (inodes s') = length (inodes s) /\
  (forall j, j <> i -> nth j (inodes s') [] = nth j (inodes s) []) /\
  (forall p, linked s' p <-> linked s p \/ exists o, In o items /\ p = tpa (fst o)) /\ (no_tmp s -> no_tmp s').
Proof.
  induction items as [|[a d] items IH]; intros s rs L Hi E G F; cbn [flat_map].
  - simpl. repeat split; auto. intros [H|(o & [] & _)]. exact H.
  - inversion F as [|? ? [F1 _] F2]; subst. simpl in F1.
    destruct (record_step s i a d rs L Hi E G F1) as (S1 & Len & E1 & Lk & NT & O).
    set (s1 := run_trace s (t_record nm c i a d)) in *.
    assert (L1 : linked_ok s1) by (apply trace_ok; assumption).
    assert (Hi1 : i < length (inodes s1)) by lia.
    destruct (IH s1 (rs ++ [(oidb nm a, d)]) L1 Hi1 E1 (recs_good_snoc rs a d G F1) F2) as (S2 & Len2 & O2 & Lk2 & NT2).
    cbn [fst snd]. rewrite run_trace_app. fold s1.
    split; [apply safe_trace_app; split; assumption|]. split; [lia|].
    split; [intros j NE; rewrite O2, O by exact NE; reflexivity|]. split; [|auto].
    intros p. rewrite Lk2, Lk. split.
    + intros [[H|H]|(o & I & H)]; [auto|right; exists (a, d); split; [left; reflexivity|exact H]|right; exists o; split; [right; exact I|exact H]].
    + intros [H|(o & [I|I] & H)]; [auto|subst o; left; right; exact H|right; exists o; auto].
Qed.

Lemma generic_batch_run : forall items s, linked_ok s -> no_tmp s -> Forall igood items ->
  let t := fst (t_generic_batch nm c s items) in let s' := run_trace s t in
  snd (t_generic_batch nm c s items) = true /\ safe_trace s t /\ length (inodes s) <= length (inodes s') /\
  (forall j, j < length (inodes s) -> nth j (inodes s') [] = nth j (inodes s) []) /\
  (forall p, linked s' p <-> linked s p \/ exists o, In o items /\ p = tpa (fst o)) /\ no_tmp s'.
Proof.
  induction items as [|[a d] items IH]; intros s L NT F; cbn [t_generic_batch].
  - simpl. repeat split; auto. intros [H|(o & [] & _)]. exact H.
  - inversion F as [|? ? [F1 F1'] F2]; subst. simpl in F1, F1'. rewrite free_tmp_0 by exact NT.
    destruct (generic_step s a d L NT F1 F1') as (S1 & Len & O & Lk & NT1).
    set (t1 := t_generic nm c s a 0 d) in *. set (s1 := run_trace s t1) in *.
    assert (L1 : linked_ok s1) by (apply trace_ok; assumption).
    destruct (IH s1 L1 NT1 F2) as (Ok & S2 & Len2 & O2 & Lk2 & NT2).
    destruct (t_generic_batch nm c s1 items) as [t2 ok2] eqn:TB. cbn [fst snd] in *.
    rewrite run_trace_app. fold s1.
    split; [exact Ok|]. split; [apply safe_trace_app; split; assumption|]. split; [lia|].
    split; [intros j Hj; rewrite O2 by lia; apply O; exact Hj|]. split; [|exact NT2].
    intros p. rewrite Lk2, Lk. split.
    + intros [[H|H]|(o & I & H)]; [auto|right; exists (a, d); split; [left; reflexivity|exact H]|right; exists o; split; [right; exact I|exact H]].
    + intros [H|(o & [I|I] & H)]; [auto|subst o; left; right; exact H|right; exists o; auto].
Qed.

(* ---- C10: refinement to a map ------------------------------------------------------------------- *)

Definition fmap := nat -> option bytes.
Definition upd (M : fmap) (a : nat) (v : option bytes) : fmap := fun x => if Nat.eqb x a then v else M x.

(* results of the same operations on the map; the map of the moment for an iteration *)
Inductive rres := QPut (ok : bool) | QDel (found : bool) | QGet (v : option bytes) | QExists (b : bool)
                | QIter (M : fmap) | QNone.

Definition is_some {A} (o : option A) : bool := match o with Some _ => true | None => false end.

Definition ref_put (M : fmap) (o : nat * bytes) : fmap := upd M (fst o) (decompress dec (snd o)).

Definition ref_step (M : fmap) (o : op) : fmap * rres :=
  match o with
  | OPut a d => if is_nil d then (M, QPut false) else (ref_put M (a, d), QPut true)
  | OBatch l => (fold_left ref_put (nonempty l) M, QPut true)
  | OSync => (M, QNone)
  | ODelete a => (upd M a None, QDel (is_some (M a)))
  | OGetBytes a => (M, QGet (M a))
  | OStream a => (M, QGet (M a))
  | OReadObj a _ => (M, QGet (M a))
  | OExists a => (M, QExists (is_some (M a)))
  | OIterate => (M, QIter M)
  end.

Fixpoint ref_run (M : fmap) (ops : list op) : fmap * list rres :=
  match ops with
  | [] => (M, [])
  | o :: r => let '(M1, x) := ref_step M o in let '(M2, xs) := ref_run M1 r in (M2, x :: xs)
  end.

Definition res_match (r : res) (q : rres) : Prop :=
  match r, q with
  | RPut x, QPut y => x = y
  | RDel x, QDel y => x = y
  | RGet g, QGet v => g = match v with Some x => GOk x | None => GNotFound end
  | RExists x, QExists y => x = y
  | RIter (Some l), QIter M => NoDup (map fst l) /\ forall a x, In (a, x) l <-> M a = Some x
  | RNone, QNone => True
  | _, _ => False
  end.

Definition item_ok (o : nat * bytes) : Prop := snd o = [] \/ igood o.

Definition op_ok (o : op) : Prop :=
  match o with
  | OPut a d => item_ok (a, d)
  | OBatch l => Forall item_ok l
  | OReadObj _ cap => 2 * npfbl <= cap
  | _ => True
  end.

Definition agrees (M : fmap) (s : fs) : Prop :=
  forall a, M a = if exists_ nm c s a then Some (content a) else None.

Definition Inv (w : wst) (M : fmap) : Prop :=
  linked_ok (fsys w) /\ no_tmp (fsys w) /\ cur_ok (fsys w) (cur w) /\ agrees M (fsys w).

Lemma bool_eq_iff (b1 b2 : bool) : (b1 = true <-> b2 = true) -> b1 = b2.
Proof. destruct b1, b2; intros [H1 H2]; try reflexivity; [symmetry; apply H1; reflexivity|apply H2; reflexivity]. Qed.

Lemma agrees_put M s s' a : agrees M s -> (forall p, linked s' p <-> linked s p \/ p = tpa a) ->
  agrees (upd M a (Some (content a))) s'.
Proof.
  intros A Lk a'. unfold upd. destruct (Nat.eqb a' a) eqn:E.
  - apply Nat.eqb_eq in E. subst a'. replace (exists_ nm c s' a) with true; [reflexivity|].
    symmetry. apply exists_linked, Lk. auto.
  - rewrite A. replace (exists_ nm c s' a') with (exists_ nm c s a'); [reflexivity|].
    apply bool_eq_iff. rewrite !exists_linked, Lk. split; [auto|]. intros [H|H]; [exact H|].
    apply tp_inj in H. subst. rewrite Nat.eqb_refl in E. discriminate.
Qed.

Lemma fold_ref_put items : Forall igood items -> forall M a',
  fold_left ref_put items M a' = if existsb (fun o => Nat.eqb a' (fst o)) items then Some (content a') else M a'.
Proof.
  induction 1 as [|[a d] items [[_ [D _]] _] _ IH]; intros M a'; simpl; [reflexivity|]. simpl in D.
  rewrite IH. unfold ref_put, upd. simpl. rewrite D.
  destruct (existsb (fun o => Nat.eqb a' (fst o)) items); [rewrite orb_true_r; reflexivity|]. rewrite orb_false_r.
  destruct (Nat.eqb a' a) eqn:E; [apply Nat.eqb_eq in E; subst; reflexivity|reflexivity].
Qed.

Lemma agrees_batch M s s' items : Forall igood items -> agrees M s ->
  (forall p, linked s' p <-> linked s p \/ exists o, In o items /\ p = tpa (fst o)) ->
  agrees (fold_left ref_put items M) s'.
Proof.
  intros F A Lk a'. rewrite fold_ref_put by exact F. rewrite A.
  assert (E : exists_ nm c s' a' = exists_ nm c s a' || existsb (fun o => Nat.eqb a' (fst o)) items).
  { apply bool_eq_iff. rewrite orb_true_iff, !exists_linked, Lk, existsb_exists. split.
    - intros [H|(o & I & H)]; [auto|]. right. exists o. split; [exact I|]. apply tp_inj in H. subst. apply Nat.eqb_refl.
    - intros [H|(o & I & H)]; [auto|]. right. exists o. split; [exact I|]. apply Nat.eqb_eq in H. subst. reflexivity. }
  rewrite E. destruct (existsb (fun o => Nat.eqb a' (fst o)) items); [rewrite orb_true_r; reflexivity|].
  rewrite orb_false_r. reflexivity.
Qed.

Lemma nonempty_good l : Forall item_ok l -> Forall igood (nonempty l).
Proof.
  induction 1 as [|[a d] l [H|H] _ IH]; simpl; [constructor| |].
  - simpl in H. subst d. simpl. exact IH.
  - destruct H as [[NE G] NP]. simpl in NE. destruct d; [congruence|]. simpl. constructor; [|exact IH].
    split; [split; [discriminate|exact G]|exact NP].
Qed.

(* one operation: the invariant is kept, the result is the map's, the syscalls were safe *)
Lemma step_refines w M o : Inv w M -> op_ok o ->
  Inv (fst (step dec nm c w o)) (fst (ref_step M o)) /\
  res_match (snd (step dec nm c w o)) (snd (ref_step M o)) /\
  safe_trace (fsys w) (fst (fst (op_trace dec nm c w o))).
Proof.
  intros (L & NT & CU & A) OK. destruct w as [s cu]. simpl in L, NT, CU, A.
  destruct o as [a d|l| |a|a|a|a cap|a|]; unfold step; cbn [op_trace ref_step].
  - (* Put *)
    simpl in OK. unfold t_put. cbn [fsys cur]. destruct OK as [OK|[G NP]].
    { simpl in OK. subst d. simpl. split; [exact (conj L (conj NT (conj CU A)))|split; [reflexivity|exact I]]. }
    simpl in G, NP. assert (NN : is_nil d = false) by (destruct G as [NE _]; destruct d; [congruence|reflexivity]).
    rewrite NN. unfold ref_put. cbn [fst snd]. destruct G as [NE [D LD]]. rewrite D.
    assert (G : good a d) by (split; [exact NE|split; assumption]).
    destruct (generic c) eqn:GEN.
    { rewrite free_tmp_0 by exact NT. destruct (generic_step s a d L NT G NP) as (S1 & Len & O & Lk & NT1).
      cbn [fst snd fsys cur]. split; [|split; [reflexivity|exact S1]].
      split; [apply trace_ok; assumption|]. split; [exact NT1|]. split; [|eapply agrees_put; eassumption].
      eapply cur_ok_pres; [exact Len| |exact CU]. intros i cnt sz _ Hi. apply O. exact Hi. }
    destruct (goes_single c d) eqn:GS.
    { destruct (single_step s a d L G NP) as (S1 & Len & O & Lk & NT1).
      cbn [fst snd fsys cur]. split; [|split; [reflexivity|exact S1]].
      split; [apply trace_ok; assumption|]. split; [auto|]. split; [|eapply agrees_put; eassumption].
      eapply cur_ok_pres; [exact Len| |exact CU]. intros i cnt sz _ Hi. apply O. exact Hi. }
    (* combined *)
    assert (CB : forall (s0 : fs) (i : nat) (rs : list (bytes * bytes)) (pre : list sc),
               s0 = run_trace s pre -> safe_trace s pre -> linked_ok s0 -> (no_tmp s0) ->
               (forall p, linked s0 p <-> linked s p) ->
               i < length (inodes s0) -> nth i (inodes s0) [] = records rs -> recs_good rs ->
               forall suffix cu', (forall x, In x suffix -> x = ScSync \/ x = ScClose) ->
               (cu' = None \/ exists cnt sz, cu' = Some (i, cnt, sz)) ->
               let t := pre ++ t_record nm c i a d ++ suffix in
               Inv {| fsys := run_trace s t; cur := cu' |} (upd M a (Some (content a))) /\ safe_trace s t).
    { intros s0 i rs pre E0 Sp L0 NT0 Lk0 Hi Ei Gr suffix cu' Suf Cu' t. unfold t.
      destruct (record_step s0 i a d rs L0 Hi Ei Gr G) as (S1 & Len & E1 & Lk & NT1 & O).
      rewrite !run_trace_app, <- E0. set (s1 := run_trace s0 (t_record nm c i a d)) in *.
      assert (Esuf : forall s2, run_trace s2 suffix = s2 /\ safe_trace s2 suffix).
      { clear - Suf. induction suffix as [|x r IH]; intros s2; simpl; [auto|].
        destruct (Suf x (or_introl eq_refl)) as [->| ->]; simpl; (split; [|split; [exact I|]]); apply IH; intros y Hy; apply Suf; right; exact Hy. }
      rewrite (proj1 (Esuf s1)).
      split.
      - split; [apply trace_ok; assumption|]. split; [auto|]. split.
        + destruct Cu' as [->|(cnt & sz & ->)]; simpl; [exact I|]. split; [lia|].
          exists (rs ++ [(oidb nm a, d)]). split; [apply recs_good_snoc; assumption|exact E1].
        + eapply agrees_put; [exact A|]. intros p. rewrite Lk, Lk0. reflexivity.
      - apply safe_trace_app. split; [exact Sp|]. rewrite <- E0. apply safe_trace_app. split; [exact S1|]. apply Esuf. }
    destruct cu as [[[i cnt] sz]|]; cbn [fst snd fsys cur].
    + destruct CU as [Hi (rs & Gr & Ei)].
      destruct ((climit c <=? S cnt) || (slimit c <=? sz + combined_data_off + length d)).
      * destruct (CB s i rs [] eq_refl I L NT (fun p => iff_refl _) Hi Ei Gr [ScSync; ScClose] None) as [H1 H2];
          [intros x [<-|[<-|[]]]; auto|auto|]. simpl app in *. cbn [fst snd fsys cur]. split; [exact H1|split; [reflexivity|exact H2]].
      * destruct (CB s i rs [] eq_refl I L NT (fun p => iff_refl _) Hi Ei Gr [] (Some (i, S cnt, sz + combined_data_off + length d))) as [H1 H2];
          [intros x []|eauto|]. simpl app in *. cbn [fst snd fsys cur]. split; [exact H1|split; [reflexivity|exact H2]].
    + set (n := length (inodes s)).
      assert (L0 : linked_ok (exec s ScOpenTmp)) by (apply exec_ok; [exact L|exact I]).
      assert (Hn : n < length (inodes (exec s ScOpenTmp))) by (simpl; rewrite app_length; simpl; unfold n; lia).
      assert (En : nth n (inodes (exec s ScOpenTmp)) [] = records []) by (simpl; unfold n; rewrite app_nth2, Nat.sub_diag by lia; reflexivity).
      destruct ((climit c <=? 1) || (slimit c <=? 0 + combined_data_off + length d)).
      * destruct (CB (exec s ScOpenTmp) n [] [ScOpenTmp] eq_refl (conj I I) L0 NT (fun p => iff_refl _) Hn En recs_good_nil [ScSync; ScClose] None) as [H1 H2];
          [intros x [<-|[<-|[]]]; auto|auto|]. cbn [fst snd fsys cur]. split; [exact H1|split; [reflexivity|exact H2]].
      * destruct (CB (exec s ScOpenTmp) n [] [ScOpenTmp] eq_refl (conj I I) L0 NT (fun p => iff_refl _) Hn En recs_good_nil [] (Some (n, 1, 0 + combined_data_off + length d))) as [H1 H2];
          [intros x []|eauto|]. simpl app in *. cbn [fst snd fsys cur]. split; [exact H1|split; [reflexivity|exact H2]].
  - (* PutBatch *)
    simpl in OK. pose proof (nonempty_good l OK) as F. unfold t_batch. cbn [fsys cur]. destruct (generic c).
    + destruct (generic_batch_run (nonempty l) s L NT F) as (Ok & S1 & Len & O & Lk & NT1).
      destruct (t_generic_batch nm c s (nonempty l)) as [t ok] eqn:TB. cbn [fst snd fsys cur] in *.
      split; [|split; [exact Ok|exact S1]].
      split; [apply trace_ok; assumption|]. split; [exact NT1|]. split; [|eapply agrees_batch; eassumption].
      eapply cur_ok_pres; [exact Len| |exact CU]. intros i cnt sz _ Hi. apply O. exact Hi.
    + cbn [fst snd fsys cur]. set (n := length (inodes s)).
      assert (L0 : linked_ok (exec s ScOpenTmp)) by (apply exec_ok; [exact L|exact I]).
      assert (Hn : n < length (inodes (exec s ScOpenTmp))) by (simpl; rewrite app_length; simpl; unfold n; lia).
      assert (En : nth n (inodes (exec s ScOpenTmp)) [] = records []) by (simpl; unfold n; rewrite app_nth2, Nat.sub_diag by lia; reflexivity).
      destruct (records_run n (nonempty l) (exec s ScOpenTmp) [] L0 Hn En recs_good_nil F) as (S1 & Len & O & Lk & NT1).
      change (ScOpenTmp :: ?x ++ [ScSync; ScClose]) with ([ScOpenTmp] ++ x ++ [ScSync; ScClose]).
      rewrite !run_trace_app. change (run_trace s [ScOpenTmp]) with (exec s ScOpenTmp).
      set (s1 := run_trace (exec s ScOpenTmp) _) in *. change (run_trace s1 [ScSync; ScClose]) with s1. cbn [fsys cur].
      split; [|split; [reflexivity|]].
      * split; [apply trace_ok; assumption|]. split; [apply NT1; exact NT|]. split.
        -- eapply cur_ok_pres; [| |exact CU]; [cbn [fsys]; rewrite Len; simpl; rewrite app_length; lia|].
           intros i cnt sz _ Hi. cbn [fsys] in *. rewrite O by (unfold n; lia). simpl. apply app_nth1. exact Hi.
        -- eapply agrees_batch; [exact F|exact A|]. intros p. rewrite Lk. unfold linked. simpl. reflexivity.
      * apply safe_trace_app. split; [simpl; auto|]. apply safe_trace_app. split; [exact S1|]. simpl. auto.
  - (* timer *)
    cbn [fst snd fsys cur]. unfold t_sync. cbn [cur].
    assert (E : run_trace s (match cu with Some _ => [ScSync; ScClose] | None => [] end) = s) by (destruct cu; reflexivity).
    rewrite E. split; [exact (conj L (conj NT (conj I A)))|]. split; [exact I|]. destruct cu; simpl; auto.
  - (* Delete *)
    cbn [fsys cur]. rewrite (A a). destruct (exists_ nm c s a) eqn:E; cbn [fst snd fsys cur is_some].
    + split; [|split; [reflexivity|simpl; auto]]. unfold Inv. cbn [fsys cur]. change (run_trace s [ScUnlink (tpa a)]) with (exec s (ScUnlink (tpa a))).
      split; [apply exec_ok; [exact L|exact I]|]. split; [|split].
      * intros p i I. simpl in I. apply in_remove in I. apply (NT p i). tauto.
      * eapply cur_ok_pres; [| |exact CU]; simpl; auto.
      * intros a'. unfold upd. destruct (Nat.eqb a' a) eqn:Q.
        -- apply Nat.eqb_eq in Q. subst. replace (exists_ nm c (exec s (ScUnlink (tpa a))) a) with false; [reflexivity|].
           symmetry. apply not_true_is_false. rewrite exists_linked, linked_unlink. tauto.
        -- rewrite A. replace (exists_ nm c (exec s (ScUnlink (tpa a))) a') with (exists_ nm c s a'); [reflexivity|].
           apply bool_eq_iff. rewrite !exists_linked, linked_unlink. split; [|tauto]. intros H. split; [exact H|].
           intros Q'. apply tp_inj in Q'. subst. rewrite Nat.eqb_refl in Q. discriminate.
    + split; [|split; [reflexivity|simpl; auto]]. unfold Inv. cbn [fsys cur run_trace fold_left]. split; [exact L|]. split; [exact NT|]. split; [exact CU|].
      intros a'. unfold upd. destruct (Nat.eqb a' a) eqn:Q; [|apply A]. apply Nat.eqb_eq in Q. subst. rewrite E. reflexivity.
  - (* Get / GetBytes *)
    cbn [fst snd fsys cur]. split; [exact (conj L (conj NT (conj CU A)))|]. split; [|simpl; auto].
    simpl. rewrite (proj1 (reads_ok s a L)), (A a). destruct (exists_ nm c s a); reflexivity.
  - (* Head / GetStream *)
    cbn [fst snd fsys cur]. split; [exact (conj L (conj NT (conj CU A)))|]. split; [|simpl; auto].
    simpl. rewrite (proj1 (proj2 (reads_ok s a L))), (A a). destruct (exists_ nm c s a); reflexivity.
  - (* ReadObject / ReadHeader *)
    cbn [fst snd fsys cur]. split; [exact (conj L (conj NT (conj CU A)))|]. split; [|simpl; auto].
    simpl. rewrite (proj2 (proj2 (reads_ok s a L)) cap OK), (A a). destruct (exists_ nm c s a); reflexivity.
  - (* Exists *)
    cbn [fst snd fsys cur]. split; [exact (conj L (conj NT (conj CU A)))|]. split; [|simpl; auto].
    simpl. rewrite (A a). destruct (exists_ nm c s a); reflexivity.
  - (* Iterate *)
    cbn [fst snd fsys cur]. split; [exact (conj L (conj NT (conj CU A)))|]. split; [|simpl; auto].
    destruct (iterate_ok s L) as (r & E & ND & Sp). simpl. rewrite E. split; [exact ND|].
    intros a x. rewrite Sp, (A a). destruct (exists_ nm c s a); split; try (intros [-> _]; reflexivity); try (intros [_ H]; discriminate); try discriminate.
    intros H. inversion H. auto.
Qed.

Theorem refines_map : forall ops w M, Inv w M -> Forall op_ok ops ->
  Forall2 res_match (snd (run dec nm c w ops)) (snd (ref_run M ops)).
Proof.
  induction ops as [|o ops IH]; intros w M I F; [constructor|]. inversion F; subst.
  destruct (step_refines w M o I H1) as (I' & R & _).
  cbn [run ref_run]. destruct (step dec nm c w o) as [w1 x]. destruct (ref_step M o) as [M1 q]. simpl in I', R.
  specialize (IH w1 M1 I' H2). destruct (run dec nm c w1 ops) as [w2 xs]. destruct (ref_run M1 ops) as [M2 qs].
  simpl in *. constructor; assumption.
Qed.

Lemma Inv_init : Inv init_w (fun _ => None).
Proof.
  split; [split; [constructor|intros p i []]|]. split; [intros p i []|]. split; [exact I|]. intros a. reflexivity.
Qed.

(* ---- C12: a crash = a prefix of the trace, the interrupted write torn ------------------------------ *)

Lemma safe_firstn t : forall s k, safe_trace s t -> safe_trace s (firstn k t).
Proof. induction t as [|x t IH]; intros s [|k]; simpl; auto. intros [H1 H2]. split; auto. Qed.

Lemma safe_nth t : forall s k x, safe_trace s t -> nth_error t k = Some x -> safe (run_trace s (firstn k t)) x.
Proof.
  induction t as [|y t IH]; intros s [|k] x; simpl; try discriminate.
  - intros [H _] E. inversion E; subst. exact H.
  - intros [_ H] E. apply IH; auto.
Qed.

(* whatever the crash point and however much of the interrupted write reached the file: the
   invariant holds, so [reads_ok] and [iterate_ok] apply to the state found after the restart *)
Theorem crash_ok s t k torn : linked_ok s -> safe_trace s t -> linked_ok (crash t k torn s).
Proof.
  intros L S. unfold crash. pose proof (trace_ok (firstn k t) s L (safe_firstn t s k S)) as L1.
  destruct (nth_error t k) as [x|] eqn:E; [|exact L1]. destruct x; try exact L1.
  apply exec_ok; [exact L1|]. exact (safe_nth t s k _ S E).
Qed.

(* names disappear only by unlink and by renaming them away *)
Definition removes (x : sc) (p : path) : bool :=
  match x with
  | ScUnlink q => path_eqb q p
  | ScRename q _ => path_eqb q p
  | _ => false
  end.

Lemma exec_keeps s x p : linked s p -> removes x p = false -> linked (exec s x) p.
Proof.
  intros H R. destruct x as [|i d|i q|q|q r|q| |]; simpl in R; try exact H.
  - apply linked_link. auto.
  - apply linked_excl. auto.
  - destruct (lookup q (links s)) as [i|] eqn:E; [|simpl; rewrite E; exact H].
    apply (linked_rename s q r i p E). destruct (path_eqb p r) eqn:Q; [apply path_eqb_eq in Q; auto|].
    right. split; [exact H|]. split; intros Q'; subst; rewrite path_eqb_refl in *; discriminate.
  - apply linked_unlink. split; [exact H|]. intros Q. subst. rewrite path_eqb_refl in R. discriminate.
Qed.

Definition keeps (t : list sc) (p : path) : bool := forallb (fun x => negb (removes x p)) t.

Lemma run_keeps t : forall s p, linked s p -> keeps t p = true -> linked (run_trace s t) p.
Proof.
  induction t as [|x t IH]; intros s p H K; simpl; [exact H|]. simpl in K. apply andb_true_iff in K.
  destruct K as [K1 K2]. apply IH; [|exact K2]. apply exec_keeps; [exact H|]. apply negb_true_iff. exact K1.
Qed.

Lemma keeps_firstn t p k : keeps t p = true -> keeps (firstn k t) p = true.
Proof.
  revert k. induction t as [|x t IH]; intros [|k] K; simpl; auto. simpl in K. apply andb_true_iff in K.
  destruct K as [K1 K2]. rewrite K1. simpl. apply IH. exact K2.
Qed.

Theorem crash_keeps s t k torn p : linked s p -> keeps t p = true -> linked (crash t k torn s) p.
Proof.
  intros H K. unfold crash. pose proof (run_keeps (firstn k t) s p H (keeps_firstn t p k K)) as H1.
  destruct (nth_error t k) as [x|]; [|exact H1]. destruct x; exact H1.
Qed.

Lemma keeps_app t1 t2 p : keeps (t1 ++ t2) p = keeps t1 p && keeps t2 p.
Proof. apply forallb_app. Qed.

Lemma tmpp_neq a k b : path_eqb (tmpp nm c a k) (tpa b) = false.
Proof.
  apply path_eqb_neq. intros E. unfold tmpp, tp in E. apply tree_path_inj in E.
  pose proof (has_hash_tmp (str nm a) k) as H. rewrite E, str_no_hash in H. discriminate.
Qed.

(* no writer removes the name of an address; only Delete does *)
Lemma generic_batch_keeps b : forall l s, keeps (fst (t_generic_batch nm c s l)) (tpa b) = true.
Proof.
  induction l as [|[a d] l IH]; intros s; cbn [t_generic_batch]; [reflexivity|].
  destruct (free_tmp nm c s a) as [k|]; [|reflexivity].
  specialize (IH (run_trace s (t_generic nm c s a k d))).
  destruct (t_generic_batch nm c (run_trace s (t_generic nm c s a k d)) l) as [t' ok]. cbn [fst] in *.
  rewrite keeps_app, IH, andb_true_r. unfold t_generic, keeps. simpl. rewrite tmpp_neq. reflexivity.
Qed.

Lemma writers_keep w o b : (forall a, o = ODelete a -> a <> b) ->
  keeps (fst (fst (op_trace dec nm c w o))) (tpa b) = true.
Proof.
  intros ND. destruct o as [a d|l| |a|a|a|a cap|a|]; cbn [op_trace]; try reflexivity.
  - unfold t_put. destruct (is_nil d); [reflexivity|]. destruct (generic c).
    + destruct (free_tmp nm c (fsys w) a); [|reflexivity]. cbn [fst]. unfold t_generic, keeps. simpl. rewrite tmpp_neq. reflexivity.
    + destruct (goes_single c d); [reflexivity|].
      destruct (cur w) as [[[i cnt] sz]|];
        match goal with |- context [if ?b then _ else _] => destruct b end; reflexivity.
  - unfold t_batch. destruct (generic c).
    + pose proof (generic_batch_keeps b (nonempty l) (fsys w)) as K.
      destruct (t_generic_batch nm c (fsys w) (nonempty l)) as [t ok]. exact K.
    + cbn [fst]. unfold keeps. simpl. rewrite forallb_app. simpl. rewrite andb_true_r.
      induction (nonempty l) as [|o r IH]; simpl; [reflexivity|exact IH].
  - unfold t_sync. destruct (cur w); reflexivity.
  - destruct (exists_ nm c (fsys w) a); [|reflexivity]. cbn [fst]. unfold keeps. simpl.
    rewrite path_eqb_neq; [reflexivity|]. intros E. apply tp_inj in E. exact (ND a eq_refl E).
Qed.

(* C12: any operation interrupted anywhere, from any state a history can reach *)
Theorem crash_safe w M o k torn : Inv w M -> op_ok o ->
  let s' := crash (fst (fst (op_trace dec nm c w o))) k torn (fsys w) in
  linked_ok s' /\
  forall b, exists_ nm c (fsys w) b = true -> (forall a, o = ODelete a -> a <> b) ->
            exists_ nm c s' b = true /\ get_bytes dec nm c s' b = GOk (content b).
Proof.
  intros I OK s'. destruct (step_refines w M o I OK) as (_ & _ & S). destruct I as (L & _).
  assert (L' : linked_ok s') by (apply crash_ok; assumption). split; [exact L'|].
  intros b E ND. assert (E' : exists_ nm c s' b = true).
  { apply exists_linked. apply crash_keeps; [apply exists_linked; exact E|]. apply writers_keep. exact ND. }
  split; [exact E'|]. rewrite (proj1 (reads_ok s' b L')), E'. reflexivity.
Qed.

(* CleanUpTmp keeps the invariant (it only removes names) *)
Lemma cleanup_ok s : linked_ok s -> linked_ok (cleanup s).
Proof.
  intros [ND OK]. split.
  - unfold cleanup. simpl. clear OK. induction (links s) as [|e l IH]; simpl; [constructor|]. inversion ND; subst.
    match goal with |- context [if ?b then _ else _] => destruct b end; simpl; auto. constructor; auto.
    intros HI. apply H1. apply in_map_iff in HI. destruct HI as [e' [E1 E2]]. apply filter_In in E2.
    apply in_map_iff. exists e'. tauto.
  - intros p i HI. unfold cleanup in HI. simpl in HI. apply filter_In in HI. destruct HI as [HI _].
    destruct (OK p i HI) as [H1 H2]. split; [exact H1|]. exact H2.
Qed.

End Discipline.
