(* The link discipline of the fstree writers (FS.v) and what readers see under it.
   [linked_ok]: every name in the tree is either a temporary name (contains '#') or the path of
   an address whose inode SERVES that address: a plain file holding a stored form of the
   object, or a file of records (followed by anything) whose first record with the object's
   ID holds one.  [safe]: the side conditions under which a syscall keeps [linked_ok]
   (a path is linked only to a complete file/record; only unnamed, temporary or record files
   are appended to).  [exec_ok]: safe calls keep the invariant -- hence so does every prefix of
   a safe trace, torn last write included (C12) and every complete history (C10).
   PROOF FILE. *)
From Coq Require Import List NArith ZArith Arith Bool Lia.
Import ListNotations.
From NV Require Import Gen.FSTreeConsts FSTree.Wire FSTree.WireProofs FSTree.Range FSTree.Combined
  FSTree.CombinedProofs FSTree.FS.

(* ---- paths ------------------------------------------------------------------------------ *)

Lemma path_eqb_eq a : forall b, path_eqb a b = true <-> a = b.
Proof.
  induction a as [|x a IH]; destruct b as [|y b]; simpl; split; intros H; try discriminate; auto.
  - apply andb_true_iff in H. destruct H as [H1 H2]. apply bytes_eqb_eq in H1. apply IH in H2. congruence.
  - inversion H; subst. rewrite bytes_eqb_refl. simpl. apply IH. reflexivity.
Qed.

Lemma path_eqb_refl a : path_eqb a a = true.
Proof. apply path_eqb_eq. reflexivity. Qed.

Lemma path_eqb_neq a b : a <> b -> path_eqb a b = false.
Proof. intros H. destruct (path_eqb a b) eqn:E; [apply path_eqb_eq in E; contradiction|reflexivity]. Qed.

Lemma tree_path_concat d : forall n, concat (tree_path d n) = n.
Proof.
  induction d as [|d IH]; intros n; cbn [tree_path concat].
  - apply app_nil_r.
  - rewrite IH. apply firstn_skipn.
Qed.

Lemma tree_path_length d : forall n, length (tree_path d n) = S d.
Proof. induction d as [|d IH]; intros n; cbn [tree_path length]; [reflexivity|]. rewrite IH. reflexivity. Qed.

Lemma tree_path_inj d n1 n2 : tree_path d n1 = tree_path d n2 -> n1 = n2.
Proof. intros H. rewrite <- (tree_path_concat d n1), <- (tree_path_concat d n2), H. reflexivity. Qed.

Lemma has_hash_tmp n k : has_hash (tmp_name n k) = true.
Proof.
  unfold has_hash, tmp_name. rewrite existsb_app. apply orb_true_iff. right. reflexivity.
Qed.

(* ---- links -------------------------------------------------------------------------------- *)

Definition linked (s : fs) (p : path) : Prop := In p (map fst (links s)).

Lemma lookup_cons q j l p : lookup p ((q, j) :: l) = if path_eqb q p then Some j else lookup p l.
Proof. unfold lookup. simpl. destruct (path_eqb q p); reflexivity. Qed.

Lemma lookup_some l p i : lookup p l = Some i -> In (p, i) l.
Proof.
  induction l as [|[q j] l IH]; [discriminate|]. rewrite lookup_cons.
  destruct (path_eqb q p) eqn:E.
  - intros H. inversion H; subst. apply path_eqb_eq in E. subst. left. reflexivity.
  - intros H. right. auto.
Qed.

Lemma lookup_none l p : lookup p l = None <-> ~ In p (map fst l).
Proof.
  induction l as [|[q j] l IH]; [simpl; tauto|]. rewrite lookup_cons. simpl.
  destruct (path_eqb q p) eqn:E.
  - apply path_eqb_eq in E. subst. split; [discriminate|]. intros H. exfalso. apply H. left. reflexivity.
  - rewrite IH. split.
    + intros H [H1|H1]; [subst; rewrite path_eqb_refl in E; discriminate|contradiction].
    + intros H H1. apply H. right. exact H1.
Qed.

Lemma lookup_is_some l p : (exists i, lookup p l = Some i) <-> In p (map fst l).
Proof.
  split.
  - intros [i H]. apply lookup_some in H. apply in_map_iff. exists (p, i). auto.
  - intros H. destruct (lookup p l) eqn:E; [eauto|]. apply lookup_none in E. contradiction.
Qed.

Lemma in_remove l p e : In e (remove p l) <-> In e l /\ fst e <> p.
Proof.
  unfold remove. rewrite filter_In. split; intros [H1 H2]; split; auto.
  - intros E. rewrite E, path_eqb_refl in H2. discriminate.
  - rewrite path_eqb_neq by assumption. reflexivity.
Qed.

Lemma NoDup_remove l p : NoDup (map fst l) -> NoDup (map fst (remove p l)).
Proof.
  induction l as [|e l IH]; simpl; intros H; [constructor|]. inversion H; subst.
  destruct (negb (path_eqb (fst e) p)); simpl; auto. constructor; auto.
  intros HI. apply H2. apply in_map_iff in HI. destruct HI as [e' [E1 E2]]. apply in_remove in E2.
  apply in_map_iff. exists e'. tauto.
Qed.

Lemma in_map_remove l p q : In q (map fst (remove p l)) <-> In q (map fst l) /\ q <> p.
Proof.
  rewrite !in_map_iff. split.
  - intros [e [E1 E2]]. apply in_remove in E2. destruct E2. subst. split; eauto.
  - intros [[e [E1 E2]] N]. exists e. split; auto. apply in_remove. subst. auto.
Qed.

Lemma app_at_length i d l : length (app_at i d l) = length l.
Proof. revert i. induction l as [|x l IH]; intros [|i]; simpl; auto. Qed.

Lemma app_at_same i d : forall l, i < length l -> nth i (app_at i d l) [] = nth i l [] ++ d.
Proof. induction i as [|i IH]; intros [|x l] H; simpl in *; try lia; auto. apply IH. lia. Qed.

Lemma app_at_other i j d : forall l, j <> i -> nth j (app_at i d l) [] = nth j l [].
Proof.
  revert j. induction i as [|i IH]; intros j [|x l] H; simpl; auto.
  - destruct j; [lia|reflexivity].
  - destruct j; [reflexivity|]. apply IH. lia.
Qed.

Lemma run_trace_app s t1 t2 : run_trace s (t1 ++ t2) = run_trace (run_trace s t1) t2.
Proof. apply fold_left_app. Qed.

(* how each call changes the set of names *)
Lemma linked_link s i p q : linked (exec s (ScLink i p)) q <-> linked s q \/ q = p.
Proof.
  unfold linked. simpl. destruct (lookup p (links s)) eqn:E.
  - split; [tauto|]. intros [H|H]; [exact H|]. subst. apply lookup_is_some. eauto.
  - simpl. split; intros [H|H]; auto.
Qed.

Lemma linked_excl s p q : linked (exec s (ScOpenExcl p)) q <-> linked s q \/ q = p.
Proof. unfold linked. simpl. split; intros [H|H]; auto. Qed.

Lemma linked_unlink s p q : linked (exec s (ScUnlink p)) q <-> linked s q /\ q <> p.
Proof. unfold linked. simpl. apply in_map_remove. Qed.

Lemma linked_rename s p q i r : lookup p (links s) = Some i ->
  (linked (exec s (ScRename p q)) r <-> r = q \/ (linked s r /\ r <> p /\ r <> q)).
Proof.
  intros E. unfold linked. simpl. rewrite E. simpl. rewrite !in_map_remove. split.
  - intros [H|[[H1 H2] H3]]; auto.
  - intros [H|[H1 [H2 H3]]]; auto.
Qed.

Section Discipline.
Variable dec : bytes -> option bytes.
Variable nm : naming.
Variable c : cfg.
Variable content : nat -> bytes.   (* the object binary an address stands for *)

Hypothesis parse_str : forall a, parse nm (str nm a) = Some a.
Hypothesis parse_inv : forall n a, parse nm n = Some a -> n = str nm a.
Hypothesis parse_hash : forall n, has_hash n = true -> parse nm n = None.
Hypothesis oid_len : forall a, length (oidb nm a) = oid_size.
Hypothesis oid_inj : forall a b, oidb nm a = oidb nm b -> a = b.

Notation tpa := (tp nm c).

Lemma str_no_hash a : has_hash (str nm a) = false.
Proof.
  destruct (has_hash (str nm a)) eqn:E; [|reflexivity]. apply parse_hash in E. rewrite parse_str in E. discriminate.
Qed.

Lemma tp_inj a b : tpa a = tpa b -> a = b.
Proof.
  intros H. apply tree_path_inj in H. assert (E : parse nm (str nm a) = parse nm (str nm b)) by (rewrite H; reflexivity).
  rewrite !parse_str in E. congruence.
Qed.

(* a stored form of the object of address a: non-empty, decompresses to it, fits a record *)
Definition good (a : nat) (D : bytes) : Prop :=
  D <> [] /\ decompress dec D = Some (content a) /\ (N.of_nat (length D) < 4294967296)%N.

Definition recs_good (rs : list (bytes * bytes)) : Prop :=
  Forall wf_rec rs /\ forall r, In r rs -> exists a, fst r = oidb nm a /\ good a (snd r).

Definition servesP (b : bytes) (a : nat) : Prop := good a b /\ no_prefix b = true.
Definition servesC (b : bytes) (a : nat) : Prop :=
  exists rs tail, recs_good rs /\ b = records rs ++ tail /\ exists r, find_rec (oidb nm a) rs = Some r.
Definition serves (b : bytes) (a : nat) : Prop := servesP b a \/ servesC b a.

(* KEY LEMMA: appending anything (more records, a torn record) never changes what an
   earlier ID resolves to *)
Lemma servesC_app b a x : servesC b a -> servesC (b ++ x) a.
Proof.
  intros (rs & tail & G & E & F). exists rs, (tail ++ x). split; [exact G|]. split; [|exact F].
  rewrite E, app_assoc. reflexivity.
Qed.

Lemma servesC_found b a : servesC b a ->
  exists rs tail r, Forall wf_rec rs /\ b = records rs ++ tail /\ find_rec (oidb nm a) rs = Some r /\ good a (snd r).
Proof.
  intros (rs & tail & [W G] & E & r & F). exists rs, tail, r. repeat split; auto; unfold find_rec in F;
    pose proof (find_some _ _ F) as [I Q]; apply bytes_eqb_eq in Q; destruct (G r I) as (a' & E' & G');
    rewrite E' in Q; apply oid_inj in Q; subst a'; apply G'.
Qed.

Lemma records_app r1 r2 : records (r1 ++ r2) = records r1 ++ records r2.
Proof. unfold records. apply flat_map_app. Qed.

Lemma no_prefix_records rs tail : rs <> [] -> no_prefix (records rs ++ tail) = false.
Proof.
  destruct rs as [|[id d] rs]; [congruence|]. intros _.
  change (records ((id, d) :: rs)) with (record id d ++ records rs). unfold record. reflexivity.
Qed.

(* a file of records is never a plain file of some address *)
Lemma records_not_plain rs a : ~ servesP (records rs) a.
Proof.
  intros [[NE _] NP]. destruct rs as [|r rs]; [apply NE; reflexivity|].
  rewrite <- (app_nil_r (records (r :: rs))) in NP. rewrite no_prefix_records in NP; [discriminate|congruence].
Qed.

(* ---- what the readers return for a serving file --------------------------------------------- *)

Lemma serves_get b a : serves b a -> extract_combined_object dec (oidb nm a) b = GOk (content a).
Proof.
  intros [[[NE [D L]] NP]|H].
  - rewrite extract_plain by assumption. rewrite D. reflexivity.
  - destruct (servesC_found b a H) as (rs & tail & r & W & E & F & [NE [D L]]).
    rewrite E, (extract_records dec _ rs tail r W F NE), D. reflexivity.
Qed.

Lemma serves_header b a cap : 2 * npfbl <= cap -> serves b a ->
  exists D, (exists i st, read_header cap (oidb nm a) b = HOk i st /\ head_split D i st) /\
            decompress dec D = Some (content a).
Proof.
  intros Hc [[[NE [D L]] NP]|H].
  - exists b. split; [apply read_header_plain; assumption|assumption].
  - destruct (servesC_found b a H) as (rs & tail & r & W & E & F & [NE [D L]]).
    exists (snd r). split; [|assumption]. rewrite E. apply read_header_combined; assumption.
Qed.

Lemma serves_stream b a : serves b a ->
  stream_all (read_object_ dec (chunk c) (2 * npfbl) (oidb nm a) b) = GOk (content a).
Proof.
  intros H. destruct (serves_header b a (2 * npfbl) (le_n _) H) as (D & HH & HD).
  destruct (read_object__ok dec (chunk c) _ _ _ D _ (le_n _) HH HD) as (i & st & E & T).
  rewrite E. unfold stream_all. unfold delivered in T. rewrite T. reflexivity.
Qed.

Lemma serves_read_obj b a cap : 2 * npfbl <= cap -> serves b a ->
  stream_all (read_object dec (chunk c) cap (oidb nm a) b) = GOk (content a).
Proof.
  intros Hc H. destruct (serves_header b a cap Hc H) as (D & HH & HD).
  destruct (read_object_ok dec (chunk c) _ _ _ D _ Hc HH HD) as (i & st & E & T).
  rewrite E. unfold stream_all. unfold delivered in T. rewrite T. reflexivity.
Qed.

(* ---- the invariant and the safe calls --------------------------------------------------------- *)

Definition name_ok (s : fs) (p : path) (i : nat) (comb_only : bool) : Prop :=
  exists n, p = tree_path (depth c) n /\
    (has_hash n = true \/
     exists a, n = str nm a /\ (if comb_only then servesC (nth i (inodes s) []) a else serves (nth i (inodes s) []) a)).

Definition linked_ok (s : fs) : Prop :=
  NoDup (map fst (links s)) /\
  forall p i, In (p, i) (links s) -> i < length (inodes s) /\ name_ok s p i false.

Definition safe (s : fs) (x : sc) : Prop :=
  match x with
  | ScWrite i _ => forall p, In (p, i) (links s) -> name_ok s p i true
  | ScLink i p => i < length (inodes s) /\ exists a, p = tpa a /\ serves (nth i (inodes s) []) a
  | ScOpenExcl p => lookup p (links s) = None /\ exists n, p = tree_path (depth c) n /\ has_hash n = true
  | ScRename p q => exists i a, lookup p (links s) = Some i /\ q = tpa a /\ servesP (nth i (inodes s) []) a
  | _ => True
  end.

Fixpoint safe_trace (s : fs) (t : list sc) : Prop :=
  match t with
  | [] => True
  | x :: r => safe s x /\ safe_trace (exec s x) r
  end.

Lemma name_ok_weaken s p i : name_ok s p i true -> name_ok s p i false.
Proof. intros (n & E & [H|(a & E' & H)]); exists n; split; auto. right. exists a. split; auto. right. exact H. Qed.

Lemma name_ok_inodes s s' p i b : nth i (inodes s') [] = nth i (inodes s) [] -> name_ok s p i b -> name_ok s' p i b.
Proof. intros E (n & E1 & [H|(a & E' & H)]); exists n; split; auto. right. exists a. rewrite E. auto. Qed.

Theorem exec_ok s x : linked_ok s -> safe s x -> linked_ok (exec s x).
Proof.
  intros [ND OK] S. unfold linked_ok. destruct x as [|i d|i p|p|p q|p| |]; simpl in *.
  - (* open O_TMPFILE *)
    split; [exact ND|]. intros p i I. destruct (OK p i I) as [L N]. split; [rewrite app_length; lia|].
    eapply name_ok_inodes; [|exact N]. simpl. apply app_nth1. exact L.
  - (* write *)
    split; [exact ND|]. intros p j I. destruct (OK p j I) as [L N]. split; [rewrite app_at_length; exact L|].
    destruct (Nat.eq_dec j i) as [->|NE].
    + destruct (S p I) as (n & E & [H|(a & E' & H)]); exists n; split; auto.
      right. exists a. split; auto. right. simpl. rewrite app_at_same by exact L. apply servesC_app. exact H.
    + eapply name_ok_inodes; [|exact N]. simpl. apply app_at_other. exact NE.
  - (* linkat *)
    destruct (lookup p (links s)) eqn:E; [split; assumption|].
    destruct S as [L (a & Ep & Sv)]. split; simpl.
    + constructor; [apply lookup_none; exact E|exact ND].
    + intros p' j [I|I]; [|apply OK; exact I]. inversion I; subst. split; [exact L|].
      exists (str nm a). split; [reflexivity|]. right. exists a. split; [reflexivity|exact Sv].
  - (* open O_EXCL *)
    destruct S as [E (n & Ep & Hh)]. split; simpl.
    + constructor; [apply lookup_none; exact E|exact ND].
    + intros p' j [I|I].
      * inversion I; subst. split; [rewrite app_length; simpl; lia|]. exists n. auto.
      * destruct (OK p' j I) as [L N]. split; [rewrite app_length; lia|].
        eapply name_ok_inodes; [|exact N]. simpl. apply app_nth1. exact L.
  - (* rename *)
    destruct S as (i & a & E & Eq & Sv). rewrite E. split; simpl.
    + constructor; [|apply NoDup_remove, NoDup_remove; exact ND].
      intros H. apply in_map_remove in H. destruct H as [_ H]. apply H. reflexivity.
    + intros p' j [I|I].
      * inversion I; subst. split; [apply (OK p j), lookup_some; exact E|].
        exists (str nm a). split; [reflexivity|]. right. exists a. split; [reflexivity|left; exact Sv].
      * apply in_remove in I. destruct I as [I _]. apply in_remove in I. destruct I as [I _]. apply OK. exact I.
  - (* unlink *)
    split; [apply NoDup_remove; exact ND|]. intros p' j I. apply in_remove in I. apply OK. tauto.
  - split; assumption.
  - split; assumption.
Qed.

Theorem trace_ok t : forall s, linked_ok s -> safe_trace s t -> linked_ok (run_trace s t).
Proof.
  induction t as [|x t IH]; intros s L S; simpl; [exact L|]. destruct S as [S1 S2].
  apply IH; [apply exec_ok; assumption|exact S2].
Qed.

Lemma safe_trace_app t1 t2 s : safe_trace s (t1 ++ t2) <-> safe_trace s t1 /\ safe_trace (run_trace s t1) t2.
Proof.
  revert s. induction t1 as [|x t1 IH]; intros s; simpl; [tauto|]. rewrite IH. tauto.
Qed.

(* ---- what readers see in a state that satisfies the invariant ---------------------------------- *)

Lemma linked_file s a i : linked_ok s -> lookup (tpa a) (links s) = Some i -> serves (nth i (inodes s) []) a.
Proof.
  intros [_ OK] E. apply lookup_some in E. destruct (OK _ _ E) as [_ (n & En & [H|(a' & E' & H)])].
  - apply tree_path_inj in En. subst n. rewrite str_no_hash in H. discriminate.
  - subst n. apply tp_inj in En. subst a'. exact H.
Qed.

Theorem reads_ok s a : linked_ok s ->
  let v := if exists_ nm c s a then GOk (content a) else GNotFound in
  get_bytes dec nm c s a = v /\ get_stream dec nm c s a = v /\
  forall cap, 2 * npfbl <= cap -> read_obj dec nm c s a cap = v.
Proof.
  intros L. unfold exists_, get_bytes, get_stream, read_obj, file_of.
  destruct (lookup (tpa a) (links s)) as [i|] eqn:E; [|auto].
  pose proof (linked_file s a i L E) as Sv. split; [apply serves_get; exact Sv|].
  split; [apply serves_stream; exact Sv|]. intros cap Hc. apply serves_read_obj; assumption.
Qed.

(* iteration: exactly the linked addresses, each once, with its bytes; temporary names never *)
Lemma iter_links_ok s : linked_ok s -> forall l, incl l (links s) -> NoDup (map fst l) ->
  exists r, iter_links dec nm c s l = Some r /\ NoDup (map fst r) /\
            forall a x, In (a, x) r <-> (x = content a /\ In (tpa a) (map fst l)).
Proof.
  intros [_ OK]. induction l as [|[p i] l IH]; intros I ND.
  - exists []. split; [reflexivity|]. split; [constructor|]. simpl. tauto.
  - inversion ND as [|? ? NI ND']; subst. destruct (IH (fun e H => I e (or_intror H)) ND') as (r & E & NDr & Sp).
    destruct (OK p i (I _ (or_introl eq_refl))) as [_ (n & En & H)].
    cbn [iter_links]. rewrite En, tree_path_length, Nat.eqb_refl, tree_path_concat.
    destruct H as [H|(a & Ea & Sv)].
    + rewrite (parse_hash n H). exists r. split; [exact E|]. split; [exact NDr|].
      intros a x. rewrite Sp. simpl. split; [tauto|]. intros [Hx [Hp|Hp]]; [|tauto].
      exfalso. rewrite <- En in Hp. apply tree_path_inj in Hp. subst n. rewrite str_no_hash in H. discriminate.
    + subst n. rewrite parse_str. rewrite (serves_get _ _ Sv), E. eexists. split; [reflexivity|].
      rewrite <- En in *. split.
      * simpl. constructor; [|exact NDr]. intros HI. apply in_map_iff in HI. destruct HI as [[a' x'] [E1 E2]].
        simpl in E1. subst a'. apply Sp in E2. destruct E2 as [_ E2]. apply NI. exact E2.
      * intros a' x. simpl. rewrite Sp. split.
        -- intros [H|H]; [inversion H; subst; auto|tauto].
        -- intros [Hx [Hp|Hp]]; [left; apply tp_inj in Hp; subst; reflexivity|right; auto].
Qed.

Theorem iterate_ok s : linked_ok s ->
  exists r, iterate dec nm c s = Some r /\ NoDup (map fst r) /\
            forall a x, In (a, x) r <-> (x = content a /\ exists_ nm c s a = true).
Proof.
  intros L. destruct (iter_links_ok s L (links s) (fun _ H => H) (proj1 L)) as (r & E & ND & Sp).
  exists r. split; [exact E|]. split; [exact ND|]. intros a x. rewrite Sp. unfold exists_.
  split; intros [H1 H2]; split; auto.
  - apply lookup_is_some in H2. destruct H2 as [i H2]. rewrite H2. reflexivity.
  - destruct (lookup (tpa a) (links s)) eqn:E'; [|discriminate]. apply lookup_is_some. eauto.
Qed.

End Discipline.
