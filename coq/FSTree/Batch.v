(* The batching writer of fstree_write_linux.go as a state machine:
   syncBatch (fd, ready channel, err, cnt, size) and linuxWriter (current batch,
   batchLock), with a fault oracle deciding the result of every file-system call.
   Steps are the critical sections of the Go code (they run under batchLock / sb.lock):
   writeCombinedFile up to the unlocks, the timer's sync, finalize, writeBatch.

   `close` of an already closed channel panics in Go: that is the Panic outcome.
   A step that needs batchLock while it was left locked never returns: Deadlock.

   MODEL FILE: definitions only, all executable. [fixed] selects the repaired code
   (true) or the code as found (false) for the two places that were repaired. *)
From Coq Require Import List Arith Bool Lia.
Import ListNotations.

(* ---- fault oracle: which call of which kind fails ------------------------------ *)
Inductive kind := KOpen | KWritev | KLink | KSync | KClose.

Record faults := {
  fail_open : list nat; fail_writev : list nat; fail_link : list nat; fail_sync : list nat; fail_close : list nat;
  exist_link : list nat;   (* linkat calls answered EEXIST *)
  n_open : nat; n_writev : nat; n_link : nat; n_sync : nat; n_close : nat
}.

Definition mem (n : nat) (l : list nat) : bool := existsb (Nat.eqb n) l.

(* the next call of kind k: does it fail? (calls are numbered from 1 per kind) *)
Definition tick (k : kind) (f : faults) : bool * faults :=
  match k with
  | KOpen => (mem (S (n_open f)) (fail_open f),
              {| fail_open := fail_open f; fail_writev := fail_writev f; fail_link := fail_link f; fail_sync := fail_sync f;
                 fail_close := fail_close f; exist_link := exist_link f;
                 n_open := S (n_open f); n_writev := n_writev f; n_link := n_link f; n_sync := n_sync f; n_close := n_close f |})
  | KWritev => (mem (S (n_writev f)) (fail_writev f),
              {| fail_open := fail_open f; fail_writev := fail_writev f; fail_link := fail_link f; fail_sync := fail_sync f;
                 fail_close := fail_close f; exist_link := exist_link f;
                 n_open := n_open f; n_writev := S (n_writev f); n_link := n_link f; n_sync := n_sync f; n_close := n_close f |})
  | KLink => (mem (S (n_link f)) (fail_link f),
              {| fail_open := fail_open f; fail_writev := fail_writev f; fail_link := fail_link f; fail_sync := fail_sync f;
                 fail_close := fail_close f; exist_link := exist_link f;
                 n_open := n_open f; n_writev := n_writev f; n_link := S (n_link f); n_sync := n_sync f; n_close := n_close f |})
  | KSync => (mem (S (n_sync f)) (fail_sync f),
              {| fail_open := fail_open f; fail_writev := fail_writev f; fail_link := fail_link f; fail_sync := fail_sync f;
                 fail_close := fail_close f; exist_link := exist_link f;
                 n_open := n_open f; n_writev := n_writev f; n_link := n_link f; n_sync := S (n_sync f); n_close := n_close f |})
  | KClose => (mem (S (n_close f)) (fail_close f),
              {| fail_open := fail_open f; fail_writev := fail_writev f; fail_link := fail_link f; fail_sync := fail_sync f;
                 fail_close := fail_close f; exist_link := exist_link f;
                 n_open := n_open f; n_writev := n_writev f; n_link := n_link f; n_sync := n_sync f; n_close := S (n_close f) |})
  end.

Definition no_faults : faults :=
  {| fail_open := []; fail_writev := []; fail_link := []; fail_sync := []; fail_close := []; exist_link := [];
     n_open := 0; n_writev := 0; n_link := 0; n_sync := 0; n_close := 0 |}.

(* ---- syncBatch -------------------------------------------------------------------- *)
Inductive chan := CNil | COpen | CClosed.

Record batch := {
  ready : chan;
  berr : bool;          (* b.err != nil *)
  cnt : nat; size : nat;
  closes : nat;         (* how many times close(fd) was called *)
  objs : list nat       (* objects written completely and linked (or already existing) *)
}.

Definition new_batch (c : chan) : batch :=
  {| ready := c; berr := false; cnt := 0; size := 0; closes := 0; objs := [] |}.

Inductive out (A : Type) := Done (a : A) | Panic | Deadlock.
Arguments Done {A}. Arguments Panic {A}. Arguments Deadlock {A}.

(* intSync *)
Definition int_sync (nosync : bool) (b : batch) (f : faults) : out (batch * faults) :=
  let '(e1, f1) := if (negb (berr b) && negb nosync)%bool then tick KSync f else (false, f) in
  let err1 := (berr b || e1)%bool in
  let '(e2, f2) := tick KClose f1 in
  let err2 := (err1 || e2)%bool in
  match ready b with
  | CClosed => Panic (* close of closed channel *)
  | c => Done ({| ready := match c with COpen => CClosed | x => x end; berr := err2;
                  cnt := cnt b; size := size b; closes := S (closes b); objs := objs b |}, f2)
  end.

Definition set_err (b : batch) : batch :=
  {| ready := ready b; berr := true; cnt := cnt b; size := size b; closes := closes b; objs := objs b |}.

(* syncBatch.write; the boolean is "returned nil" *)
Definition bwrite (nosync : bool) (b : batch) (obj sz : nat) (f : faults) : out (batch * bool * faults) :=
  let '(e, f1) := tick KWritev f in
  if e then
    match int_sync nosync (set_err b) f1 with
    | Done (b', f2) => Done (b', false, f2)
    | Panic => Panic | Deadlock => Deadlock
    end
  else
    let b1 := {| ready := ready b; berr := berr b; cnt := S (cnt b); size := size b + sz; closes := closes b; objs := objs b |} in
    let exists_ := mem (S (n_link f1)) (exist_link f1) in
    let '(e', f2) := tick KLink f1 in
    if exists_ then
      Done ({| ready := ready b1; berr := berr b1; cnt := cnt b1; size := size b1; closes := closes b1; objs := obj :: objs b1 |}, true, f2)
    else if e' then
      match int_sync nosync (set_err b1) f2 with
      | Done (b', f3) => Done (b', false, f3)
      | Panic => Panic | Deadlock => Deadlock
      end
    else
      Done ({| ready := ready b1; berr := berr b1; cnt := cnt b1; size := size b1; closes := closes b1; objs := obj :: objs b1 |}, true, f2).

(* ---- linuxWriter -------------------------------------------------------------------- *)
Record writer := {
  batches : list batch;     (* all batches ever created, by index *)
  cur : option nat;         (* w.batch *)
  lock_held : bool          (* batchLock left locked by a returned call *)
}.

Definition init : writer := {| batches := []; cur := None; lock_held := false |}.

Record config := { fixed : bool; nosync : bool; climit : nat; slimit : nat }.

Fixpoint upd (l : list batch) (i : nat) (b : batch) : list batch :=
  match l, i with
  | [], _ => []
  | _ :: r, 0 => b :: r
  | x :: r, S j => x :: upd r j b
  end.

Definition get (l : list batch) (i : nat) : batch := nth i l (new_batch CNil).

(* result of a combined write: failed at once, or waits for batch i to be synced *)
Inductive wres := WErr | WWait (i : nat).

Definition is_closed (c : chan) : bool := match c with CClosed => true | _ => false end.

(* writeCombinedFile up to the point where both locks are released *)
Definition write_combined (c : config) (w : writer) (obj sz : nat) (f : faults) : out (writer * wres * faults) :=
  if lock_held w then Deadlock
  else
    (* pick the batch, creating one when there is none or the current one is synced *)
    let need_new := match cur w with None => true | Some i => is_closed (ready (get (batches w) i)) end in
    let pick :=
      if need_new then
        let '(e, f1) := tick KOpen f in
        if e then inl f1 else inr (batches w ++ [new_batch COpen], length (batches w), f1)
      else match cur w with
           | Some i => inr (batches w, i, f)
           | None => inl f
           end in
    match pick with
    | inl f1 =>
      (* newSyncBatch failed: w.batch = nil; the code as found returns with batchLock held *)
      Done ({| batches := batches w; cur := None; lock_held := negb (fixed c) |}, WErr, f1)
    | inr (bs, i, f1) =>
      match bwrite (nosync c) (get bs i) obj sz f1 with
      | Panic => Panic | Deadlock => Deadlock
      | Done (b1, ok, f2) =>
        let over := ((climit c <=? cnt b1) || (slimit c <=? size b1))%bool in
        let cond := if fixed c then (ok && over)%bool
                    else ((ok && (climit c <=? cnt b1)) || (slimit c <=? size b1))%bool in
        let r := if cond then int_sync (nosync c) b1 f2 else Done (b1, f2) in
        match r with
        | Panic => Panic | Deadlock => Deadlock
        | Done (b2, f3) =>
          Done ({| batches := upd bs i b2; cur := Some i; lock_held := false |},
                (if ok then WWait i else WErr), f3)
        end
      end
    end.

(* syncBatch.sync (timer or finalize) *)
Definition timer_sync (c : config) (w : writer) (i : nat) (f : faults) : out (writer * faults) :=
  let b := get (batches w) i in
  if is_closed (ready b) then Done (w, f)
  else if length (batches w) <=? i then Done (w, f)
  else match int_sync (nosync c) b f with
       | Panic => Panic | Deadlock => Deadlock
       | Done (b', f') => Done ({| batches := upd (batches w) i b'; cur := cur w; lock_held := lock_held w |}, f')
       end.

Definition finalize (c : config) (w : writer) (f : faults) : out (writer * faults) :=
  if lock_held w then Deadlock
  else match cur w with
       | None => Done (w, f)
       | Some i =>
         match timer_sync c w i f with
         | Done (w', f') => Done ({| batches := batches w'; cur := None; lock_held := false |}, f')
         | x => x
         end
       end.

(* writeBatch: own batch without ready channel and timer; true = returned nil *)
Fixpoint batch_loop (nosync : bool) (b : batch) (objs_ : list (nat * nat)) (f : faults) : out (batch * bool * faults) :=
  match objs_ with
  | [] => Done (b, true, f)
  | (o, sz) :: r =>
    match bwrite nosync b o sz f with
    | Panic => Panic | Deadlock => Deadlock
    | Done (b', false, f') => Done (b', false, f')
    | Done (b', true, f') => batch_loop nosync b' r f'
    end
  end.

Definition write_batch (c : config) (w : writer) (os : list (nat * nat)) (f : faults) : out (writer * bool * faults) :=
  let '(e, f1) := tick KOpen f in
  if e then Done (w, false, f1)
  else match batch_loop (nosync c) (new_batch CNil) os f1 with
       | Panic => Panic | Deadlock => Deadlock
       | Done (b, false, f2) =>
         Done ({| batches := batches w ++ [b]; cur := cur w; lock_held := lock_held w |}, false, f2)
       | Done (b, true, f2) =>
         match int_sync (nosync c) b f2 with
         | Panic => Panic | Deadlock => Deadlock
         | Done (b', f3) =>
           Done ({| batches := batches w ++ [b']; cur := cur w; lock_held := lock_held w |}, negb (berr b'), f3)
         end
       end.

(* ---- histories ------------------------------------------------------------------------ *)
Inductive event :=
| EPut (obj sz : nat)               (* one writeCombinedFile critical section *)
| ETimer (i : nat)                  (* the timer of batch i fires *)
| EFinalize
| EBatch (os : list (nat * nat)).

(* per event: what the call reported at once *)
Inductive report := RPut (r : wres) | RBatch (ok : bool) | RNone.

Fixpoint run (c : config) (w : writer) (evs : list event) (f : faults) : out (writer * list report * faults) :=
  match evs with
  | [] => Done (w, [], f)
  | ev :: rest =>
    let step : out (writer * report * faults) :=
      match ev with
      | EPut o sz => match write_combined c w o sz f with
                     | Done (w', r, f') => Done (w', RPut r, f') | Panic => Panic | Deadlock => Deadlock end
      | ETimer i => match timer_sync c w i f with
                    | Done (w', f') => Done (w', RNone, f') | Panic => Panic | Deadlock => Deadlock end
      | EFinalize => match finalize c w f with
                     | Done (w', f') => Done (w', RNone, f') | Panic => Panic | Deadlock => Deadlock end
      | EBatch os => match write_batch c w os f with
                     | Done (w', ok, f') => Done (w', RBatch ok, f') | Panic => Panic | Deadlock => Deadlock end
      end in
    match step with
    | Panic => Panic | Deadlock => Deadlock
    | Done (w', r, f') =>
      match run c w' rest f' with
      | Done (w'', rs, f'') => Done (w'', r :: rs, f'')
      | Panic => Panic | Deadlock => Deadlock
      end
    end
  end.

(* what a combined write finally returns: its own error, or the error of its batch once
   the batch is synced (sb.wait) *)
Definition final (w : writer) (r : wres) : bool :=
  match r with
  | WErr => false
  | WWait i => negb (berr (get (batches w) i))
  end.
