(* Protobuf wire subset used by the fstree readers and by internal/object/wire.go:
   varint, tag, LEN field, field skipping, ordered field seek.
   Transcribed from google.golang.org/protobuf/encoding/protowire (ConsumeVarint,
   ConsumeTag, ConsumeBytes) and neofs-sdk-go/proto/protobuf (ParseVarint, ParseTag,
   ParseLEN, SkipField, SeekFieldByNumber, ParseLENFieldBounds, GetLENFieldBounds,
   GetUint64Field, GetEnumField).

   MODEL FILE: definitions only, all executable.
   Bytes are N (< 256), buffers are lists, offsets/lengths are nat, wire values
   (uint64) are N. *)
From Coq Require Import List NArith Arith Bool Lia.
Import ListNotations.

Definition bytes := list N.

(* list helpers indexed by binary numbers (unary nat of the size of a head buffer is
   expensive to build under vm_compute); specified against firstn/skipn/length in
   WireProofs.v *)
Fixpoint lenN_acc (l : bytes) (acc : N) : N :=
  match l with [] => acc | _ :: r => lenN_acc r (N.succ acc) end.
Definition lenN (l : bytes) : N := lenN_acc l 0%N.

Fixpoint firstnN (n : N) (l : bytes) : bytes :=
  match l with
  | [] => []
  | x :: r => if (n =? 0)%N then [] else x :: firstnN (N.pred n) r
  end.

Fixpoint skipnN (n : N) (l : bytes) : bytes :=
  match l with
  | [] => []
  | x :: r => if (n =? 0)%N then l else skipnN (N.pred n) r
  end.

(* ---- varint ------------------------------------------------------------- *)

(* protowire error codes that the callers distinguish *)
Inductive verr := VTrunc (* io.ErrUnexpectedEOF *) | VOver (* overflow *).

Inductive vres := VOk (v : N) (n : nat) | VErr (e : verr).

(* ConsumeVarint: at most 10 bytes; byte index 9 must be 0 or 1.
   [k] = number of further continuation bytes allowed, [i] = current index. *)
Fixpoint pv (k i : nat) (b : bytes) (acc : N) : vres :=
  match b with
  | [] => VErr VTrunc
  | x :: r =>
    if (x <? 128)%N then
      if (Nat.eqb i 9 && (2 <=? x)%N)%bool then VErr VOver
      else VOk (acc + x * 2 ^ (7 * N.of_nat i))%N (S i)
    else
      match k with
      | 0 => VErr VOver
      | S k' => pv k' (S i) r (acc + (x - 128) * 2 ^ (7 * N.of_nat i))%N
      end
  end.

Definition parse_varint (b : bytes) : vres := pv 9 0 b 0%N.

(* minimal encoding, as protowire.AppendVarint *)
Fixpoint ev (fuel : nat) (v : N) : bytes :=
  match fuel with
  | 0 => [v mod 128]%N
  | S f => if (v <? 128)%N then [v] else (v mod 128 + 128)%N :: ev f (v / 128)%N
  end.
Definition enc_varint (v : N) : bytes := ev 9 v.

(* ---- tags --------------------------------------------------------------- *)

Definition max_valid_number : N := 536870911. (* 2^29 - 1 *)

Definition ty_varint : N := 0.
Definition ty_fixed64 : N := 1.
Definition ty_bytes : N := 2.
Definition ty_sgroup : N := 3.
Definition ty_egroup : N := 4.
Definition ty_fixed32 : N := 5.

Inductive tres := TOk (num typ : N) (n : nat) | TErr.

(* iprotobuf.ParseTag = protowire.ConsumeTag as far as success / failure goes:
   varint, number = u >> 3 must be in [1, 2^29-1], type = u & 7 *)
Definition parse_tag (b : bytes) : tres :=
  match parse_varint b with
  | VErr _ => TErr
  | VOk u n =>
    let num := (u / 8)%N in
    if ((1 <=? num) && (num <=? max_valid_number))%N%bool then TOk num (u mod 8)%N n else TErr
  end.

Definition enc_tag (num typ : N) : bytes := enc_varint (num * 8 + typ)%N.

(* ---- LEN ---------------------------------------------------------------- *)

Definition max_int : N := 9223372036854775807.

Inductive lres := LOk (ln n : nat) | LErr.

(* iprotobuf.ParseLEN: varint, must fit int, must not exceed the rest of the buffer *)
Definition parse_len (b : bytes) : lres :=
  match parse_varint b with
  | VErr _ => LErr
  | VOk u n =>
    if (max_int <? u)%N then LErr
    else if (lenN b - N.of_nat n <? u)%N then LErr
    else LOk (N.to_nat u) n
  end.

Inductive sres := SkOk (n : nat) | SkErr.

(* iprotobuf.SkipField (value part, tag already consumed) *)
Definition skip_field (b : bytes) (typ : N) : sres :=
  if (typ =? ty_varint)%N then
    match parse_varint b with VOk _ n => SkOk n | VErr _ => SkErr end
  else if (typ =? ty_fixed64)%N then
    if (8 <=? lenN b)%N then SkOk 8 else SkErr
  else if (typ =? ty_bytes)%N then
    match parse_len b with LOk ln n => SkOk (n + ln) | LErr => SkErr end
  else if (typ =? ty_fixed32)%N then
    if (4 <=? lenN b)%N then SkOk 4 else SkErr
  else SkErr.

(* ---- ordered seek ------------------------------------------------------- *)

Inductive seekres := SFound (off tagln : nat) (typ : N) | SMissing | SErr.

(* the loop of iprotobuf.SeekFieldByNumber; [b] is buf[off:], non-empty on entry *)
Fixpoint seek_loop (fuel : nat) (b : bytes) (off : nat) (prev seek : N) : seekres :=
  match fuel with
  | 0 => SErr
  | S f =>
    match parse_tag b with
    | TErr => SErr
    | TOk num typ n =>
      if (num =? seek)%N then SFound off n typ
      else if (seek <? num)%N then SMissing
      else if (num <? prev)%N then SErr
      else
        let b1 := skipn n b in
        match skip_field b1 typ with
        | SkErr => SErr
        | SkOk m =>
          match skipn m b1 with
          | [] => SMissing
          | b2 => seek_loop f b2 (off + n + m) num seek
          end
        end
    end
  end.

Definition seek_field (b : bytes) (seek : N) : seekres :=
  if ((1 <=? seek) && (seek <=? max_valid_number))%N%bool then
    match b with
    | [] => SMissing
    | _ => seek_loop (length b) b 0 0%N seek
    end
  else SErr.

(* FieldBounds: From, ValueFrom, To;  missing = all zero (To = 0) *)
Inductive bres := BOk (from vfrom to : nat) | BMissing | BErr.

(* iprotobuf.ParseLENFieldBounds(buf, off, tagLn, num, typ) *)
Definition parse_len_field_bounds (b : bytes) (off tagln : nat) (typ : N) : bres :=
  if (typ =? ty_bytes)%N then
    match parse_len (skipn (off + tagln) b) with
    | LErr => BErr
    | LOk ln n => BOk off (off + tagln + n) (off + tagln + n + ln)
    end
  else BErr.

Definition get_len_field_bounds (b : bytes) (num : N) : bres :=
  match seek_field b num with
  | SErr => BErr
  | SMissing => BMissing
  | SFound off tagln typ => parse_len_field_bounds b off tagln typ
  end.

Inductive ures := UOk (v : N) | UErr.

(* iprotobuf.GetUint64Field: missing => 0 *)
Definition get_uint64_field (b : bytes) (num : N) : ures :=
  match seek_field b num with
  | SErr => UErr
  | SMissing => UOk 0%N
  | SFound off tagln typ =>
    if (typ =? ty_varint)%N then
      match parse_varint (skipn (off + tagln) b) with
      | VOk u _ => UOk u
      | VErr _ => UErr
      end
    else UErr
  end.

Definition max_int32 : N := 2147483647.

(* iprotobuf.GetEnumField: missing => 0; value must fit int32 *)
Definition get_enum_field (b : bytes) (num : N) : ures :=
  match seek_field b num with
  | SErr => UErr
  | SMissing => UOk 0%N
  | SFound off tagln typ =>
    if (typ =? ty_varint)%N then
      match parse_varint (skipn (off + tagln) b) with
      | VOk u _ => if (max_int32 <? u)%N then UErr else UOk u
      | VErr _ => UErr
      end
    else UErr
  end.

(* ---- encoders (reference side) ------------------------------------------ *)

Definition enc_len_field (num : N) (v : bytes) : bytes :=
  enc_tag num ty_bytes ++ enc_varint (lenN v) ++ v.

Definition enc_varint_field (num v : N) : bytes :=
  enc_tag num ty_varint ++ enc_varint v.

