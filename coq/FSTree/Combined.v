(* Object files of the file-tree storage: plain, combined (several objects in one
   file, every one linked under its own path) and zstd-compressed data; the readers
   of fstree.go / head.go: parseCombinedPrefix, extractCombinedObject, readHeader
   (buffered head + scan window), preprocessStreamHead, _readObject, readObject.

   MODEL FILE: definitions only, all executable.  Decompression is a parameter
   [dec] of the readers (zstd is outside the model); [chunk] is the number of bytes
   the zstd stream decoder hands out on its first Read. *)
From Coq Require Import List NArith ZArith Arith Bool Lia.
Import ListNotations.
From NV Require Import Gen.FSTreeConsts FSTree.Wire FSTree.Range.

Fixpoint bytes_eqb (a b : bytes) : bool :=
  match a, b with
  | [], [] => true
  | x :: a', y :: b' => (x =? y)%N && bytes_eqb a' b'
  | _, _ => false
  end.

(* ---- combined record ------------------------------------------------------- *)

(* big-endian uint32 *)
Definition be32 (n : nat) : bytes :=
  let v := N.of_nat n in
  [(v / 16777216) mod 256; (v / 65536) mod 256; (v / 256) mod 256; v mod 256]%N.

Definition be32_dec (b : bytes) : nat :=
  match b with
  | [b0; b1; b2; b3] => N.to_nat (b0 * 16777216 + b1 * 65536 + b2 * 256 + b3)%N
  | _ => 0
  end.

(* syncBatch.write: prefix byte, version 0, OID, length, data *)
Definition record (id data : bytes) : bytes :=
  [combined_prefix; 0%N] ++ id ++ be32 (length data) ++ data.

(* parseCombinedPrefix *)
Definition parse_combined_prefix (p : bytes) : option (bytes * nat) :=
  if length p <? combined_data_off then None
  else match p with
       | b0 :: b1 :: _ =>
         if ((b0 =? combined_prefix) && (b1 =? 0))%N%bool then
           Some (firstn (combined_len_off - combined_id_off) (skipn combined_id_off p),
                 be32_dec (firstn (combined_data_off - combined_len_off) (skipn combined_len_off p)))
         else None
       | _ => None
       end.

(* ---- decompression ---------------------------------------------------------- *)

Definition zstd_magic : bytes := [40; 181; 47; 253]%N.
Definition is_compressed (d : bytes) : bool :=
  (4 <=? length d) && bytes_eqb (firstn 4 d) zstd_magic.

(* util.go decompress; dec = zstd.DecodeTo *)
Definition decompress (dec : bytes -> option bytes) (d : bytes) : option bytes :=
  if is_compressed d then dec d else Some d.

(* ---- extractCombinedObject (Get, GetBytes, Iterate) --------------------------- *)

Inductive gres := GOk (data : bytes) | GNotFound | GErr.

Definition of_dec (o : option bytes) : gres := match o with Some d => GOk d | None => GErr end.

(* [f] = file contents from the current position; [first] = not yet seen a record *)
Fixpoint extract_loop (fuel : nat) (dec : bytes -> option bytes) (id : bytes) (f whole : bytes) (combined : bool) : gres :=
  match fuel with
  | 0 => GErr
  | S fuel' =>
    let com := firstn combined_data_off f in
    if length com <? combined_data_off then
      (if combined then GNotFound else of_dec (decompress dec com))
    else
      match parse_combined_prefix com with
      | None => if combined then GErr else of_dec (decompress dec whole)
      | Some (oid, l) =>
        let rest := skipn combined_data_off f in
        if bytes_eqb oid id then
          if Nat.eqb l 0 then GErr
          else if length rest <? l then GErr (* short read *)
          else of_dec (decompress dec (firstn l rest))
        else extract_loop fuel' dec id (skipn l rest) whole true
      end
  end.

Definition extract_combined_object dec (id file : bytes) : gres :=
  extract_loop (S (length file)) dec id file file false.

(* ---- readHeader -------------------------------------------------------------- *)

(* initial bytes and the stream after them *)
Inductive hres := HOk (initial : bytes) (stream : rdr) | HErr | HPanic.

(* the scan loop; [w] = buf[:n], [fr] = file from the current position, [cap] = len(buf).
   (oid, l) is the record prefix parsed last, [offset] points right after it. *)
Fixpoint scan_loop (fuel : nat) (cap : nat) (id : bytes) (w fr : bytes) (offset : nat) (oid : bytes) (l : nat) : hres :=
  match fuel with
  | 0 => HErr
  | S fuel' =>
    if bytes_eqb oid id then
      if Nat.eqb l 0 then HErr
      else
        (* not enough room for the head after the sliding window: shift to the buffer start *)
        let '(w, offset) := if cap <? offset + npfbl then (skipn offset w, 0) else (w, offset) in
        let size := Nat.min (offset + l) (offset + npfbl) in
        if cap <? size then HPanic
        else
          let need := size - length w in
          if length fr <? need then HErr
          else
            let w' := w ++ firstn need fr in
            let fr' := skipn need fr in
            HOk (firstn (size - offset) (skipn offset w'))
                (RLim (RFile fr') (Z.of_nat l - Z.of_nat (size - offset)))
    else
      let offset := offset + l in
      let n := length w in
      (* n - offset < combinedDataOff, as Go ints *)
      if n <? offset + combined_data_off then
        let fr1 := if n <? offset then skipn (offset - n) fr else fr in
        let w1 := skipn (Nat.min offset n) w in
        if cap <? length w1 + npfbl then HPanic
        else
          let chunk := firstn npfbl fr1 in
          match chunk with
          | [] => HErr
          | _ =>
            let w2 := w1 ++ chunk in
            let fr2 := skipn npfbl fr1 in
            (* Go parses buf[0:], which may reach into stale bytes beyond n when fewer than
               a record prefix is left: such files are malformed, the model gives up *)
            if length w2 <? combined_data_off then HErr
            else match parse_combined_prefix w2 with
                 | None => HErr
                 | Some (oid', l') => scan_loop fuel' cap id w2 fr2 combined_data_off oid' l'
                 end
          end
      else
        match parse_combined_prefix (skipn offset w) with
        | None => HErr
        | Some (oid', l') => scan_loop fuel' cap id w fr (offset + combined_data_off) oid' l'
        end
  end.

Definition read_header (cap : nat) (id file : bytes) : hres :=
  let w := firstn npfbl file in
  let fr := skipn npfbl file in
  if length w <? combined_data_off then HOk w (RFile fr)
  else match parse_combined_prefix w with
       | None => HOk w (RFile fr)
       | Some (oid, l) => scan_loop (S (length file)) cap id w fr combined_data_off oid l
       end.

(* ---- preprocessStreamHead / _readObject ---------------------------------------- *)

Inductive ores := OOk (initial : bytes) (stream : option rdr) | OErr | OPanic.

Definition preprocess (dec : bytes -> option bytes) (chunk : nat) (initial : bytes) (stream : rdr) : ores :=
  if length initial <? npfbl then
    match decompress dec initial with
    | Some d => OOk d None
    | None => OErr
    end
  else if is_compressed initial then
    match dec (initial ++ drain stream) with
    | None => OErr
    | Some d => OOk (firstn (Nat.min chunk npfbl) d) (Some (RFile (skipn (Nat.min chunk npfbl) d)))
    end
  else OOk initial (Some stream).

Definition read_object_ dec chunk (cap : nat) (id file : bytes) : ores :=
  if cap <? 2 * npfbl then OErr
  else match read_header cap id file with
       | HErr => OErr
       | HPanic => OPanic
       | HOk initial stream => preprocess dec chunk initial stream
       end.

(* readObject: copy into the caller's buffer; what does not fit goes in front of the stream *)
Definition copy_out (cap : nat) (h : ores) : ores :=
  match h with
  | OOk initial stream =>
    let st := match stream with Some s => s | None => RNop end in
    if cap <? length initial then OOk (firstn cap initial) (Some (RPre (skipn cap initial) st))
    else OOk initial (Some st)
  | r => r
  end.

Definition read_object dec chunk (cap : nat) (id file : bytes) : ores :=
  copy_out cap (read_object_ dec chunk cap id file).

(* ---- the three range entry points, from the file contents ----------------------- *)

(* GetRangeStream / ReadPayloadRange *)
Definition grs_of_head (h : ores) (pl : plres) (sk : seekres) (mode a b : N) : shres :=
  match h with
  | OErr => ShErr EOther
  | OPanic => ShPanic
  | OOk prefix stream => range_with pl sk prefix stream mode a b
  end.

Definition head_pl (h : ores) : plres := match h with OOk p _ => header_payload_len p | _ => PlErr end.
Definition head_sk (h : ores) : seekres := match h with OOk p _ => seek_field p f_obj_payload | _ => SErr end.

Definition get_range_stream dec chunk cap (id file : bytes) (mode a b : N) : shres :=
  let h := read_object_ dec chunk cap id file in
  grs_of_head h (head_pl h) (head_sk h) mode a b.

(* ReadObjectParts: Raw = head buffer followed by the rest of the object binary *)
Inductive pres := PRaw (head : bytes) (r : rdr) | PRange (r : shres).

Definition rop_of_head (h : ores) (pl : plres) (sk : seekres) (mode a b : N) : pres :=
  match h with
  | OErr => PRange (ShErr EOther)
  | OPanic => PRange ShPanic
  | OOk head None => PRange ShPanic
  | OOk head (Some st) =>
    match pl with
    | PlErr => PRange (ShErr EOther)
    | PlOk pldLen _ =>
      if partial_range mode a b then PRange (shift_with sk head pldLen mode a b (Some st))
      else PRaw head st
    end
  end.

Definition read_object_parts dec chunk cap (id file : bytes) (mode a b : N) : pres :=
  let h := read_object dec chunk cap id file in
  rop_of_head h (head_pl h) (head_sk h) mode a b.
