(* Proofs for C11: PayloadRange.Resolve against the range specification over all
   uint64 values, and the stream shifting against the payload slice. PROOF FILE. *)
From Coq Require Import List NArith ZArith Arith Bool Lia.
Import ListNotations.
From NV Require Import Base.U64 Gen.FSTreeConsts FSTree.Wire FSTree.Range FSTree.Combined FSTree.ObjGen
     FSTree.RangeCheck FSTree.WireProofs.

Local Open Scope N_scope.

(* ---- Resolve ------------------------------------------------------------------- *)

Lemma add64_small a b : a + b < two64 -> add64 a b = a + b.
Proof. intros. unfold add64. now apply wrap64_small. Qed.

Ltac eqb_cases :=
  repeat match goal with
         | |- context [N.eqb ?x ?y] => destruct (N.eqb_spec x y)
         | |- context [N.leb ?x ?y] => destruct (N.leb_spec x y)
         | |- context [N.ltb ?x ?y] => destruct (N.ltb_spec x y)
         end; simpl; try lia; try discriminate.

Lemma check_ok len off ln : len < two64 -> off < two64 -> off + ln <= len ->
  check_range len off ln = RsOk off ln.
Proof.
  intros Hl Ho H. unfold check_range.
  destruct (N.eqb_spec ln 0) as [->|Hn]; simpl; [reflexivity|].
  destruct (N.leb_spec len off); simpl; [lia|].
  rewrite sub64_ge by lia.
  destruct (N.ltb_spec (len - off) ln); [lia|reflexivity].
Qed.

Lemma check_oor len off ln : len < two64 -> off < two64 -> ln <> 0 -> len < off + ln ->
  check_range len off ln = RsOOR.
Proof.
  intros Hl Ho Hn H. unfold check_range.
  destruct (N.eqb_spec ln 0); [contradiction|]. simpl.
  destruct (N.leb_spec len off); simpl; [reflexivity|].
  rewrite sub64_ge by lia.
  destruct (N.ltb_spec (len - off) ln); [reflexivity|lia].
Qed.

Theorem resolve_spec mode a b len : a < two64 -> b < two64 -> len < two64 ->
  match range_spec mode a b len with
  | SpOk off ln => resolve mode a b len = RsOk off ln /\ off + ln <= len
  | SpUnsat => resolve mode a b len = RsOOR
  | SpBadMode => resolve mode a b len = RsBad
  end.
Proof.
  intros Ha Hb Hl. unfold range_spec, resolve.
  destruct (N.eqb_spec mode mode_none).
  { split; [apply check_ok|]; unfold two64 in *; lia. }
  destruct (N.eqb_spec mode mode_offlen).
  { destruct (N.eqb_spec b 0).
    - destruct (N.eqb_spec a 0); [|reflexivity].
      split; [apply check_ok|]; unfold two64 in *; lia.
    - destruct (N.leb_spec (a + b) len).
      + split; [apply check_ok|]; lia.
      + apply check_oor; lia. }
  destruct (N.eqb_spec mode mode_bounds).
  { destruct (N.leb_spec a b); simpl.
    - destruct (N.ltb_spec a len); simpl.
      + destruct (N.ltb_spec b a); [lia|]. destruct (N.leb_spec len a); [lia|]. simpl.
        rewrite (sub64_ge len 1) by lia.
        assert (Hm : N.min b (len - 1) < two64) by lia.
        rewrite (sub64_ge (N.min b (len - 1)) a) by lia.
        rewrite add64_small by lia.
        split; [apply check_ok|]; lia.
      + destruct (N.ltb_spec b a); [reflexivity|]. destruct (N.leb_spec len a); [reflexivity|lia].
    - destruct (N.ltb_spec b a); [reflexivity|lia]. }
  destruct (N.eqb_spec mode mode_from).
  { destruct (N.ltb_spec a len).
    - destruct (N.leb_spec len a); [lia|]. rewrite sub64_ge by lia.
      split; [apply check_ok|]; lia.
    - destruct (N.leb_spec len a); [reflexivity|lia]. }
  destruct (N.eqb_spec mode mode_suffix).
  { destruct (N.eqb_spec a 0); [reflexivity|].
    rewrite sub64_ge by lia.
    split; [apply check_ok|]; lia. }
  reflexivity.
Qed.

(* what the range denotes, position by position (RFC 7233 reading of the modes; the
   offset/length form is strict: it must lie inside the payload) *)
Definition denotes (mode a b len i : N) : Prop :=
  i < len /\
  if mode =? mode_none then True
  else if mode =? mode_offlen then (if b =? 0 then a = 0 else a <= i < a + b)
  else if mode =? mode_bounds then a <= i <= b
  else if mode =? mode_from then a <= i
  else if mode =? mode_suffix then len - N.min a len <= i
  else False.

(* out-of-range exactly for these requests *)
Definition unsatisfiable (mode a b len : N) : Prop :=
  if mode =? mode_none then False
  else if mode =? mode_offlen then (if b =? 0 then a <> 0 else len < a + b)
  else if mode =? mode_bounds then b < a \/ len <= a
  else if mode =? mode_from then len <= a
  else if mode =? mode_suffix then a = 0
  else False.

Theorem resolve_sound mode a b len : a < two64 -> b < two64 -> len < two64 ->
  (forall off ln, resolve mode a b len = RsOk off ln ->
     off + ln <= len /\ forall i, (off <= i < off + ln) <-> denotes mode a b len i) /\
  (resolve mode a b len = RsOOR <-> unsatisfiable mode a b len).
Proof.
  intros Ha Hb Hl. pose proof (resolve_spec mode a b len Ha Hb Hl) as H.
  unfold range_spec, denotes, unsatisfiable in *.
  destruct (N.eqb_spec mode mode_none).
  { destruct H as [-> H]. split; [|split; [discriminate|tauto]].
    intros off ln [= <- <-]. split; [lia|]. intros; lia. }
  destruct (N.eqb_spec mode mode_offlen).
  { destruct (N.eqb_spec b 0).
    - destruct (N.eqb_spec a 0).
      + destruct H as [-> H]. split; [|split; [discriminate|tauto]].
        intros off ln [= <- <-]. split; [lia|]. intros; lia.
      + rewrite H. split; [discriminate|tauto].
    - destruct (N.leb_spec (a + b) len).
      + destruct H as [-> H]. split; [|split; [discriminate|lia]].
        intros off ln [= <- <-]. split; [lia|]. intros; lia.
      + rewrite H. split; [discriminate|tauto]. }
  destruct (N.eqb_spec mode mode_bounds).
  { destruct (N.leb_spec a b); simpl in H.
    - destruct (N.ltb_spec a len); simpl in H.
      + destruct H as [-> H]. split; [|split; [discriminate|lia]].
        intros off ln [= <- <-]. split; [lia|]. intros; lia.
      + rewrite H. split; [discriminate|]. split; [lia|reflexivity].
    - rewrite H. split; [discriminate|]. split; [lia|reflexivity]. }
  destruct (N.eqb_spec mode mode_from).
  { destruct (N.ltb_spec a len).
    - destruct H as [-> H]. split; [|split; [discriminate|lia]].
      intros off ln [= <- <-]. split; [lia|]. intros; lia.
    - rewrite H. split; [discriminate|tauto]. }
  destruct (N.eqb_spec mode mode_suffix).
  { destruct (N.eqb_spec a 0).
    - rewrite H. split; [discriminate|tauto].
    - destruct H as [-> H]. split; [|split; [discriminate|tauto]].
      intros off ln [= <- <-]. split; [lia|]. intros; lia. }
  rewrite H. split; [discriminate|]. split; [discriminate|tauto].
Qed.

(* ---- streams --------------------------------------------------------------------- *)

Lemma skipnN_firstnN_comm a b l : skipnN a (firstnN b l) = firstnN (b - a) (skipnN a l).
Proof.
  rewrite !skipnN_spec, !firstnN_spec, skipn_firstn_comm. f_equal. lia.
Qed.

(* a stream positioned inside the payload: reading it to the end yields D and it can skip
   forward inside D *)
Definition good (st : rdr) (D : bytes) : Prop :=
  drain st = D /\
  forall k, k <= lenN D -> exists st', seek st k = Some st' /\ drain st' = skipnN k D.

(* plain file / zstd decoder positioned at D, nothing follows *)
Lemma good_file D : good (RFile D) D.
Proof. split; [reflexivity|]. intros k _. eexists; split; reflexivity. Qed.

(* object inside a combined file: other records (F) follow, the reader is limited *)
Lemma good_limited D F : good (RLim (RFile (D ++ F)) (Z.of_N (lenN D))) D.
Proof.
  split.
  - simpl. rewrite N2Z.id, firstnN_app, N.sub_diag.
    rewrite firstnN_all by lia.
    replace (firstnN 0 F) with (@nil N) by (destruct F; reflexivity). apply app_nil_r.
  - intros k Hk. simpl.
    destruct (Z.ltb_spec (Z.of_N (lenN D)) (Z.of_N k)); [lia|].
    eexists; split; [reflexivity|]. simpl.
    replace (Z.to_N (Z.of_N (lenN D) - Z.of_N k)) with (lenN D - k) by lia.
    rewrite skipnN_app, firstnN_app, lenN_skipnN, N.sub_diag.
    replace (k - lenN D) with 0 by lia.
    rewrite firstnN_all by (rewrite lenN_skipnN; lia).
    replace (firstnN 0 (skipnN 0 F)) with (@nil N) by (destruct F; reflexivity). apply app_nil_r.
Qed.

Definition stream_for (P : bytes) (q : N) (stream : option rdr) : Prop :=
  match stream with
  | None => q = lenN P
  | Some st => good st (skipnN q P)
  end.

Lemma firstnN_0 l : firstnN 0 l = [].
Proof. destruct l; reflexivity. Qed.
Lemma skipnN_0 l : skipnN 0 l = l.
Proof. destruct l; reflexivity. Qed.

(* the core of shiftPayloadRangeStream: with q payload bytes in the head buffer and the
   rest behind the stream, a resolved range is delivered exactly *)
Lemma shift_buffered_ok P q stream off ln :
  q <= lenN P -> stream_for P q stream ->
  off + ln <= lenN P -> (ln = 0 -> off = 0 /\ lenN P = 0) -> lenN P <= max_int64 ->
  exists r, shift_buffered (firstnN q P) (lenN P) stream off ln = ShOk r /\
            drain r = firstnN ln (skipnN off P).
Proof.
  intros Hq Hst Hb Hz Hbig. unfold shift_buffered.
  assert (Hlp : lenN (firstnN q P) = q) by (rewrite lenN_firstnN; lia).
  rewrite Hlp.
  assert (Htb : too_big off ln = false).
  { unfold too_big. destruct (N.ltb_spec max_int64 off); [lia|]. destruct (N.ltb_spec max_int64 ln); [lia|]. reflexivity. }
  destruct stream as [st|]; simpl in Hst.
  - destruct Hst as [Hd Hsk].
    destruct (N.eqb_spec off 0) as [->|Hoff].
    + rewrite skipnN_0.
      destruct (N.eqb_spec ln 0) as [->|Hln].
      * destruct (Hz eq_refl) as [_ HP]. apply lenN_nil_iff in HP. subst P. simpl in *.
        exists st. split; [reflexivity|]. rewrite Hd. destruct q; reflexivity.
      * destruct (N.leb_spec ln q).
        { eexists; split; [reflexivity|]. simpl. rewrite firstnN_firstnN. f_equal. lia. }
        rewrite Htb.
        assert (HP : firstnN ln P = firstnN q P ++ firstnN (ln - q) (skipnN q P)).
        { rewrite <- (firstnN_skipnN_split q P) at 1.
          rewrite firstnN_app, Hlp. now rewrite (firstnN_all ln (firstnN q P)) by lia. }
        rewrite HP. clear HP.
        destruct (firstnN q P) eqn:Epp.
        { eexists; split; [reflexivity|]. simpl. rewrite N2Z.id, Hd.
          assert (q = 0) by (rewrite <- Hlp; reflexivity). subst q. now rewrite N.sub_0_r. }
        { eexists; split; [reflexivity|]. simpl drain. rewrite Hd.
          replace (Z.to_N (Z.of_N ln - Z.of_N q)) with (ln - q) by lia. reflexivity. }
    + rewrite Htb.
      destruct (N.leb_spec q off).
      * destruct (N.ltb_spec q off).
        { destruct (Hsk (off - q)) as (st' & Hs & Hd'). { rewrite lenN_skipnN. lia. }
          rewrite Hs. eexists; split; [reflexivity|]. simpl. rewrite N2Z.id, Hd', skipnN_skipnN.
          f_equal. f_equal. lia. }
        { assert (q = off) by lia. subst q. eexists; split; [reflexivity|]. simpl. now rewrite N2Z.id, Hd. }
      * rewrite skipnN_firstnN_comm.
        destruct (N.leb_spec ln (q - off)).
        { eexists; split; [reflexivity|]. simpl. rewrite firstnN_firstnN. f_equal. lia. }
        { assert (HP : firstnN ln (skipnN off P) =
                       firstnN (q - off) (skipnN off P) ++ firstnN (ln - (q - off)) (skipnN q P)).
          { rewrite <- (firstnN_skipnN_split (q - off) (skipnN off P)) at 1.
            rewrite firstnN_app, lenN_firstnN, lenN_skipnN, skipnN_skipnN.
            replace (N.min (q - off) (lenN P - off)) with (q - off) by lia.
            rewrite firstnN_firstnN. replace (N.min ln (q - off)) with (q - off) by lia.
            replace (q - off + off) with q by lia. reflexivity. }
          eexists; split; [reflexivity|]. simpl drain. rewrite Hd, HP.
          replace (Z.to_N (Z.of_N ln - Z.of_N (q - off))) with (ln - (q - off)) by lia. reflexivity. }
  - subst q. rewrite N.eqb_refl. simpl negb. cbv iota.
    rewrite (firstnN_all (lenN P) P) by lia.
    destruct (N.eqb_spec off 0) as [->|Hoff].
    + rewrite skipnN_0. destruct (N.eqb_spec ln 0) as [->|Hln].
      * destruct (Hz eq_refl) as [_ HP]. apply lenN_nil_iff in HP. subst P. eexists; split; reflexivity.
      * destruct (N.leb_spec ln (lenN P)); [|lia]. eexists; split; reflexivity.
    + destruct (N.ltb_spec (lenN P) off); [lia|].
      destruct (N.ltb_spec (lenN P - off) ln); [lia|].
      eexists; split; reflexivity.
Qed.

(* the two stream shapes _readObject produces (after the head buffer): a file or decoder
   positioned at D with nothing behind it, or a file with other records F behind D,
   limited to D *)
Inductive shape : rdr -> bytes -> Prop :=
| sh_file D : shape (RFile D) D
| sh_lim D F : shape (RLim (RFile (D ++ F)) (Z.of_N (lenN D))) D.

Lemma shape_good st D : shape st D -> good st D.
Proof. intros []; [apply good_file|apply good_limited]. Qed.

Lemma shape_read st D k : shape st D ->
  exists st', read_n st k = (firstn k D, st') /\ shape st' (skipn k D).
Proof.
  intros [D0|D0 F].
  - eexists; split; [reflexivity|constructor].
  - simpl.
    replace (Z.to_nat (Z.of_N (lenN D0))) with (length D0) by (rewrite lenN_spec; lia).
    set (k' := Nat.min k (length D0)).
    assert (E1 : firstn k' (D0 ++ F) = firstn k D0).
    { rewrite firstn_app. replace (k' - length D0)%nat with 0%nat by lia. simpl. rewrite app_nil_r.
      unfold k'. destruct (Nat.le_ge_cases k (length D0)).
      - now rewrite Nat.min_l.
      - rewrite Nat.min_r by lia. now rewrite !firstn_all2 by lia. }
    assert (E2 : skipn k' (D0 ++ F) = skipn k D0 ++ F).
    { rewrite skipn_app. replace (k' - length D0)%nat with 0%nat by lia. simpl. f_equal.
      unfold k'. destruct (Nat.le_ge_cases k (length D0)).
      - now rewrite Nat.min_l.
      - rewrite Nat.min_r by lia. now rewrite !skipn_all2 by lia. }
    rewrite E1, E2. eexists; split; [reflexivity|].
    replace (Z.of_N (lenN D0) - Z.of_nat (length (firstn k D0)))%Z with (Z.of_N (lenN (skipn k D0))).
    + constructor.
    + rewrite !lenN_spec, skipn_length, firstn_length. lia.
Qed.

Lemma skipn_app_l {A} (a b : list A) : skipn (length a) (a ++ b) = b.
Proof. induction a; simpl; auto. Qed.

Lemma skipn_app_l2 {A} (a b c : list A) : skipn (length a + length b) (a ++ b ++ c) = c.
Proof. rewrite app_assoc, <- app_length. apply skipn_app_l. Qed.

Section Varint.
  (* [vb] is a well-formed varint (the payload length): it parses to the same value
     whatever follows, and every proper prefix of it is reported as truncated *)
  Variable vb : bytes.
  Variable v : N.
  Hypothesis vb_parses : forall r, parse_varint (vb ++ r) = VOk v (length vb).
  Hypothesis vb_cut : forall k, (k < length vb)%nat -> parse_varint (firstn k vb) = VErr VTrunc.
  Hypothesis vb_len : (length vb <= max_varint_len)%nat.

  (* [head] = everything up to and including the payload field tag; the head buffer ends
     j bytes into (length varint ++ payload) *)
  Lemma shift_prs_ok head P j stream off ln :
    (match stream with
     | None => (length (vb ++ P) <= j)%nat
     | Some st => shape st (skipn j (vb ++ P))
     end) ->
    off + ln <= lenN P -> (ln = 0 -> off = 0 /\ lenN P = 0) -> lenN P <= max_int64 ->
    exists r, shift_payload_range_stream (head ++ firstn j (vb ++ P)) (lenN P) (Some (length head)) stream off ln = ShOk r /\
              drain r = firstnN ln (skipnN off P).
  Proof.
    intros Hst Hb Hz Hbig. unfold shift_payload_range_stream.
    rewrite skipn_app_l.
    destruct (Nat.le_gt_cases (length vb) j) as [Hj|Hj].
    - (* the whole varint is in the head buffer *)
      rewrite firstn_app, (firstn_all2 vb) by lia. rewrite vb_parses.
      rewrite skipn_app_l2.
      set (q := N.min (N.of_nat (j - length vb)) (lenN P)).
      replace (firstn (j - length vb) P) with (firstnN q P).
      2:{ rewrite firstnN_spec. unfold q. rewrite lenN_spec.
          destruct (Nat.le_ge_cases (j - length vb) (length P)).
          - f_equal. lia.
          - rewrite !firstn_all2 by lia. reflexivity. }
      apply shift_buffered_ok; try assumption; [unfold q; lia|].
      destruct stream as [st|]; simpl.
      + apply shape_good. replace (skipnN q P) with (skipn j (vb ++ P)); [assumption|].
        rewrite skipn_app, (skipn_all2 vb) by lia. simpl. rewrite skipnN_spec. unfold q. rewrite lenN_spec.
        destruct (Nat.le_ge_cases (j - length vb) (length P)).
        * f_equal. lia.
        * rewrite !skipn_all2 by lia. reflexivity.
      + rewrite app_length in Hst. unfold q. rewrite lenN_spec. lia.
    - (* the varint is cut by the end of the head buffer *)
      assert (Efj : firstn j (vb ++ P) = firstn j vb).
      { rewrite firstn_app. replace (j - length vb)%nat with 0%nat by lia. rewrite firstn_O. apply app_nil_r. }
      rewrite Efj.
      rewrite (vb_cut j Hj).
      destruct stream as [st|]; [|rewrite app_length in Hst; lia].
      set (cap := if (max_varint_len <=? length (head ++ firstn j vb))%nat then length (head ++ firstn j vb) else max_varint_len).
      assert (Hcap : (length vb <= cap)%nat).
      { unfold cap. destruct (Nat.leb_spec max_varint_len (length (head ++ firstn j vb))); lia. }
      rewrite firstn_length, Nat.min_l by lia.
      destruct (shape_read st _ (cap - j) Hst) as (st' & Hr & Hsh'). rewrite Hr.
      assert (Ebuf : firstn j vb ++ firstn (cap - j) (skipn j (vb ++ P)) = vb ++ firstn (cap - length vb) P).
      { rewrite skipn_app. replace (j - length vb)%nat with 0%nat by lia. simpl skipn at 2.
        rewrite firstn_app, skipn_length.
        rewrite (firstn_all2 (skipn j vb)) by (rewrite skipn_length; lia).
        rewrite app_assoc, firstn_skipn. f_equal. f_equal. lia. }
      rewrite Ebuf, vb_parses.
      rewrite skipn_app_l.
      set (q := N.min (N.of_nat (cap - length vb)) (lenN P)).
      replace (firstn (cap - length vb) P) with (firstnN q P).
      2:{ rewrite firstnN_spec. unfold q. rewrite lenN_spec.
          destruct (Nat.le_ge_cases (cap - length vb) (length P)).
          - f_equal. lia.
          - rewrite !firstn_all2 by lia. reflexivity. }
      apply shift_buffered_ok; try assumption; [unfold q; lia|].
      simpl. apply shape_good.
      replace (skipnN q P) with (skipn (cap - j) (skipn j (vb ++ P))); [assumption|].
      rewrite skipn_skipn'. replace (cap - j + j)%nat with cap by lia.
      rewrite skipn_app, (skipn_all2 vb) by lia. simpl. rewrite skipnN_spec. unfold q. rewrite lenN_spec.
      destruct (Nat.le_ge_cases (cap - length vb) (length P)).
      + f_equal. lia.
      + rewrite !skipn_all2 by lia. reflexivity.
  Qed.
End Varint.

Lemma spec_zero mode a b len off ln :
  range_spec mode a b len = SpOk off ln -> ln = 0 -> off = 0 /\ len = 0.
Proof.
  unfold range_spec.
  destruct (mode =? mode_none); [intros [= <- <-]; lia|].
  destruct (mode =? mode_offlen).
  { destruct (N.eqb_spec b 0).
    - destruct (a =? 0); [intros [= <- <-]; lia|discriminate].
    - destruct (a + b <=? len); [intros [= <- <-]; lia|discriminate]. }
  destruct (mode =? mode_bounds).
  { destruct (N.leb_spec a b); simpl; [|discriminate].
    destruct (N.ltb_spec a len); simpl; [|discriminate]. intros [= <- <-]. lia. }
  destruct (mode =? mode_from).
  { destruct (N.ltb_spec a len); [|discriminate]. intros [= <- <-]. lia. }
  destruct (mode =? mode_suffix).
  { destruct (N.eqb_spec a 0); [discriminate|]. intros [= <- <-]. lia. }
  discriminate.
Qed.

Section Streams.
  Variable vb : bytes.
  Variable v : N.
  Hypothesis vb_parses : forall r, parse_varint (vb ++ r) = VOk v (length vb).
  Hypothesis vb_cut : forall k, (k < length vb)%nat -> parse_varint (firstn k vb) = VErr VTrunc.
  Hypothesis vb_len : (length vb <= max_varint_len)%nat.

  (* The object binary is head ++ vb ++ P: head = non-payload fields and the payload field
     tag (tag at offset o, tagln bytes), vb = payload length varint, P = payload. The head
     buffer holds head and the first j bytes of vb ++ P; the two scans of the head buffer
     found the announced payload length |P| and the payload tag. *)
  Theorem stream_bytes head P j stream mode a b o tagln hdr :
    (match stream with
     | None => (length (vb ++ P) <= j)%nat
     | Some st => shape st (skipn j (vb ++ P))
     end) ->
    length head = (o + tagln)%nat ->
    lenN P <= max_int64 -> a < two64 -> b < two64 ->
    let res := range_with (PlOk (lenN P) hdr) (SFound o tagln ty_bytes) (head ++ firstn j (vb ++ P)) stream mode a b in
    match range_spec mode a b (lenN P) with
    | SpOk off ln => exists r, res = ShOk r /\ drain r = firstnN ln (skipnN off P)
    | SpUnsat => res = ShErr EOutOfRange
    | SpBadMode => res = ShErr EOther
    end.
  Proof.
    intros Hst Hh Hbig Ha Hb res. subst res. unfold range_with, shift_with. simpl negb. cbv iota.
    assert (Hl : lenN P < two64) by (unfold max_int64, two64 in *; lia).
    pose proof (resolve_spec mode a b (lenN P) Ha Hb Hl) as Hr.
    destruct (range_spec mode a b (lenN P)) as [off ln| |] eqn:Es.
    - destruct Hr as [-> Hle]. rewrite <- Hh.
      apply (shift_prs_ok vb v vb_parses vb_cut vb_len); try assumption.
      intros Hz. now apply (spec_zero _ _ _ _ _ _ Es).
    - now rewrite Hr.
    - now rewrite Hr.
  Qed.
End Streams.

(* object without a payload field *)
Theorem stream_bytes_nopayload prefix stream mode a b hdr : a < two64 -> b < two64 ->
  let res := range_with (PlOk 0 hdr) SMissing prefix stream mode a b in
  match range_spec mode a b 0 with
  | SpOk off ln => exists r, res = ShOk r /\ drain r = firstnN ln (skipnN off [])
  | SpUnsat => res = ShErr EOutOfRange
  | SpBadMode => res = ShErr EOther
  end.
Proof.
  intros Ha Hb res. subst res. unfold range_with, shift_with.
  assert (Hl : 0 < two64) by (unfold two64; lia).
  pose proof (resolve_spec mode a b 0 Ha Hb Hl) as Hr.
  destruct (range_spec mode a b 0) as [off ln| |].
  - destruct Hr as [-> Hle]. exists RNop. split; [reflexivity|]. simpl. now destruct ln.
  - now rewrite Hr.
  - now rewrite Hr.
Qed.

(* the head / stream pairs of the three storage formats have the required shape *)

(* plain file: the stream is the file positioned after the head buffer *)
Lemma plain_shape obj k : shape (RFile (skipn k obj)) (skipn k obj).
Proof. constructor. Qed.

(* combined file: the stream is limited to the rest of this object's record *)
Lemma combined_shape rest foreign : shape (RLim (RFile (rest ++ foreign)) (Z.of_N (lenN rest))) rest.
Proof. constructor. Qed.

Section Compressed.
  (* zstd is outside the model: [dec] inverts whatever produced the stored bytes Z *)
  Variable dec : bytes -> option bytes.
  Variable Z obj : bytes.
  Hypothesis dec_inverts : dec Z = Some obj.

  Lemma compressed_head chunk stream :
    (npfbl <= length (firstn npfbl Z))%nat ->
    is_compressed (firstn npfbl Z) = true ->
    drain stream = skipn npfbl Z ->
    exists k, preprocess dec chunk (firstn npfbl Z) stream =
              OOk (firstn k obj) (Some (RFile (skipn k obj))) /\ shape (RFile (skipn k obj)) (skipn k obj).
  Proof.
    intros Hlen Hc Hd. unfold preprocess.
    destruct (Nat.ltb_spec (length (firstn npfbl Z)) npfbl); [lia|].
    rewrite Hc, Hd, firstn_skipn, dec_inverts.
    eexists; split; [reflexivity|constructor].
  Qed.
End Compressed.

(* ---- layers ------------------------------------------------------------------------ *)
From NV Require Import FSTree.Layers.

Definition found (r : shres) : Prop := r <> ShErr ENotFound.
Definition final_in_cache (r : shres) : Prop :=
  match r with ShOk _ | ShErr EOutOfRange => True | _ => False end.

(* an object held by the write-cache's tree: cache and shard give the tree's answer
   whenever that answer is a success or out-of-range; an object held only by the blob
   storage: the shard gives the blob storage's answer *)
Theorem layers_agree_cache tree blob : final_in_cache tree ->
  wc_range true tree = tree /\ shard_range (Some (wc_range true tree)) blob = tree.
Proof. intros H. split; [reflexivity|]. simpl. destruct tree as [r|[]|]; simpl in *; tauto. Qed.

Theorem layers_agree_blob blob (wc_has_cache : bool) :
  shard_range (if wc_has_cache then Some (wc_range false (ShErr EOther)) else None) blob = blob.
Proof. destruct wc_has_cache; reflexivity. Qed.

(* engine: with every other shard answering "not found" the engine gives the holding
   shard's answer *)
Theorem layers_agree_engine before after r :
  Forall (fun x => x = ShErr ENotFound) before -> found r ->
  engine_range (before ++ r :: after) = r.
Proof.
  intros Hb Hr. induction Hb as [|x l Hx _ IH]; simpl.
  - destruct r as [rd|[]|]; try reflexivity. now destruct Hr.
  - subst x. exact IH.
Qed.

(* the length varint as every encoder writes it (minimal form): no hypothesis left *)
Theorem stream_bytes_enc head P j stream mode a b o tagln hdr :
  let vb := enc_varint (lenN P) in
  (match stream with
   | None => (length (vb ++ P) <= j)%nat
   | Some st => shape st (skipn j (vb ++ P))
   end) ->
  length head = (o + tagln)%nat ->
  lenN P <= max_int64 -> a < two64 -> b < two64 ->
  let res := range_with (PlOk (lenN P) hdr) (SFound o tagln ty_bytes) (head ++ firstn j (vb ++ P)) stream mode a b in
  match range_spec mode a b (lenN P) with
  | SpOk off ln => exists r, res = ShOk r /\ drain r = firstnN ln (skipnN off P)
  | SpUnsat => res = ShErr EOutOfRange
  | SpBadMode => res = ShErr EOther
  end.
Proof.
  intros vb Hst Hh Hbig Ha Hb.
  apply (stream_bytes vb (lenN P)); try assumption.
  - intros r. apply enc_varint_parses. unfold max_int64 in Hbig. lia.
  - apply enc_varint_cut.
  - pose proof (enc_varint_len (lenN P)). unfold max_varint_len. exact H.
Qed.

Theorem layers_agree :
  (forall tree blob, final_in_cache tree ->
     wc_range true tree = tree /\ shard_range (Some (wc_range true tree)) blob = tree) /\
  (forall blob (wc_has_cache : bool),
     shard_range (if wc_has_cache then Some (wc_range false (ShErr EOther)) else None) blob = blob) /\
  (forall before after r, Forall (fun x => x = ShErr ENotFound) before -> found r ->
     engine_range (before ++ r :: after) = r).
Proof.
  split; [exact layers_agree_cache|]. split; [exact layers_agree_blob|exact layers_agree_engine].
Qed.
