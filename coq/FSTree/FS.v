(* The file tree of fstree.go as a file system: paths -> inode, inode -> bytes;
   treePath for any depth; the writers of fstree_write_linux.go (writeFile: O_TMPFILE
   inode + linkat with EEXIST = success; syncBatch.write / writeCombinedFile /
   writeBatch: one inode with records, one linkat per object) and of
   fstree_write_generic.go (p#i opened O_EXCL, write, close, rename) as generators of
   SYSCALL TRACES; the readers (getObjectBytesByPath, getObjectStream, readObject,
   Exists, Delete, iterate) on that file system; operation histories (C10) and
   crashes = prefixes of a trace with the interrupted write torn (C12).

   MODEL FILE: definitions only, all executable.
   Outside the model and therefore parameters: [dec] = zstd.DecodeTo, the naming of
   addresses ([str] = stringifyAddress, [parse] = addressFromString, [oidb] = the 32
   bytes of the object ID). Addresses are numbered (nat). *)
From Coq Require Import List NArith ZArith Arith Bool Lia.
Import ListNotations.
From NV Require Import Gen.FSTreeConsts FSTree.Wire FSTree.Range FSTree.Combined.

Record naming := { str : nat -> bytes; parse : bytes -> option nat; oidb : nat -> bytes }.

Record cfg := {
  depth : nat;          (* FSTree.Depth *)
  threshold : nat;      (* combinedSizeThreshold *)
  climit : nat;         (* combinedCountLimit *)
  slimit : nat;         (* combinedSizeLimit *)
  generic : bool;       (* genericWriter (no O_TMPFILE) *)
  chunk : nat           (* bytes the zstd stream decoder hands out on its first Read *)
}.

(* ---- paths -------------------------------------------------------------------- *)

Definition path := list bytes.

(* treePath: Depth directory names of DirNameLen characters, then the rest *)
Fixpoint tree_path (d : nat) (n : bytes) : path :=
  match d with
  | 0 => [n]
  | S k => firstn dir_name_len n :: tree_path k (skipn dir_name_len n)
  end.

Fixpoint path_eqb (a b : path) : bool :=
  match a, b with
  | [], [] => true
  | x :: a', y :: b' => bytes_eqb x y && path_eqb a' b'
  | _, _ => false
  end.

Definition hash_char : N := 35%N.   (* '#' *)
Definition has_hash (n : bytes) : bool := existsb (N.eqb hash_char) n.

(* genericWriter.writeData: p + "#" + strconv(i) *)
Definition tmp_name (n : bytes) (k : nat) : bytes := n ++ [hash_char; (48 + N.of_nat k)%N].

(* ---- file system ---------------------------------------------------------------- *)

Record fs := { links : list (path * nat); inodes : list bytes }.

Definition empty_fs : fs := {| links := []; inodes := [] |}.

Definition lookup (p : path) (l : list (path * nat)) : option nat :=
  match find (fun e => path_eqb (fst e) p) l with
  | Some e => Some (snd e)
  | None => None
  end.

Definition remove (p : path) (l : list (path * nat)) : list (path * nat) :=
  filter (fun e => negb (path_eqb (fst e) p)) l.

Fixpoint app_at (i : nat) (d : bytes) (l : list bytes) : list bytes :=
  match l, i with
  | [], _ => []
  | x :: r, 0 => (x ++ d) :: r
  | x :: r, S j => x :: app_at j d r
  end.

(* the calls the writers make. Inode numbers are explicit: the generators below know
   which inode an open creates (the next free one). *)
Inductive sc :=
| ScOpenTmp                     (* open(root, O_TMPFILE): new inode without a name *)
| ScWrite (i : nat) (d : bytes) (* write / writev on the descriptor of inode i: appends *)
| ScLink (i : nat) (p : path)   (* linkat(/proc/self/fd/N, p); EEXIST changes nothing *)
| ScOpenExcl (p : path)         (* open(p, O_CREAT|O_EXCL): new inode named p *)
| ScRename (p q : path)
| ScUnlink (p : path)
| ScSync | ScClose.

Definition exec (s : fs) (c : sc) : fs :=
  match c with
  | ScOpenTmp => {| links := links s; inodes := inodes s ++ [[]] |}
  | ScWrite i d => {| links := links s; inodes := app_at i d (inodes s) |}
  | ScLink i p =>
    match lookup p (links s) with
    | Some _ => s
    | None => {| links := (p, i) :: links s; inodes := inodes s |}
    end
  | ScOpenExcl p => {| links := (p, length (inodes s)) :: links s; inodes := inodes s ++ [[]] |}
  | ScRename p q =>
    match lookup p (links s) with
    | Some i => {| links := (q, i) :: remove q (remove p (links s)); inodes := inodes s |}
    | None => s
    end
  | ScUnlink p => {| links := remove p (links s); inodes := inodes s |}
  | ScSync | ScClose => s
  end.

Definition run_trace (s : fs) (t : list sc) : fs := fold_left exec t s.

(* a crash after k completed calls; when the next call is a write, any prefix of its
   bytes may have reached the inode *)
Definition crash (t : list sc) (k torn : nat) (s : fs) : fs :=
  let s1 := run_trace s (firstn k t) in
  match nth_error t k with
  | Some (ScWrite i d) => exec s1 (ScWrite i (firstn torn d))
  | _ => s1
  end.

(* CleanUpTmp: remove every file whose name contains '#' *)
Definition cleanup (s : fs) : fs :=
  {| links := filter (fun e => negb (has_hash (last (fst e) []))) (links s); inodes := inodes s |}.

(* ---- writers ------------------------------------------------------------------------ *)

(* state of the linux writer between calls: the open combined batch (inode, cnt, size) *)
Record wst := { fsys : fs; cur : option (nat * nat * nat) }.

Definition init_w : wst := {| fsys := empty_fs; cur := None |}.

Section Model.
Variable dec : bytes -> option bytes.
Variable nm : naming.
Variable c : cfg.

Definition tp (a : nat) : path := tree_path (depth c) (str nm a).
Definition tmpp (a k : nat) : path := tree_path (depth c) (tmp_name (str nm a) k).

(* linuxWriter.writeFile *)
Definition t_single (s : fs) (p : path) (d : bytes) : list sc :=
  let n := length (inodes s) in [ScOpenTmp; ScWrite n d; ScLink n p; ScClose].

(* syncBatch.write *)
Definition t_record (i : nat) (a : nat) (d : bytes) : list sc :=
  [ScWrite i (record (oidb nm a) d); ScLink i (tp a)].

(* genericWriter.writeData: the first of p#0..p#4 that does not exist *)
Definition free_tmp (s : fs) (a : nat) : option nat :=
  find (fun k => match lookup (tmpp a k) (links s) with None => true | Some _ => false end) (seq 0 5).

Definition t_generic (s : fs) (a : nat) (k : nat) (d : bytes) : list sc :=
  [ScOpenExcl (tmpp a k); ScWrite (length (inodes s)) d; ScClose; ScRename (tmpp a k) (tp a)].

Definition is_nil (d : bytes) : bool := match d with [] => true | _ => false end.

(* linuxWriter.writeData: which writer takes the object *)
Definition goes_single (d : bytes) : bool := (threshold c <? length d) || (climit c <? 2).

(* the critical section of one FSTree.Put: trace, "returned nil", batch state afterwards *)
Definition t_put (w : wst) (a : nat) (d : bytes) : list sc * bool * option (nat * nat * nat) :=
  let s := fsys w in
  if is_nil d then ([], false, cur w)
  else if generic c then
    match free_tmp s a with
    | Some k => (t_generic s a k d, true, cur w)
    | None => ([], false, cur w)
    end
  else if goes_single d then (t_single s (tp a) d, true, cur w)
  else
    let '(pre, i, cnt, sz) := match cur w with
                              | Some (i, cnt, sz) => ([], i, cnt, sz)
                              | None => ([ScOpenTmp], length (inodes s), 0, 0)
                              end in
    let cnt' := S cnt in
    let sz' := sz + combined_data_off + length d in
    if (climit c <=? cnt') || (slimit c <=? sz') then
      (pre ++ t_record i a d ++ [ScSync; ScClose], true, None)
    else (pre ++ t_record i a d, true, Some (i, cnt', sz')).

(* the timer (or finalize) closes the open batch *)
Definition t_sync (w : wst) : list sc := match cur w with Some _ => [ScSync; ScClose] | None => [] end.

(* FSTree.PutBatch: empty values are skipped *)
Definition nonempty (l : list (nat * bytes)) : list (nat * bytes) := filter (fun o => negb (is_nil (snd o))) l.

Fixpoint t_generic_batch (s : fs) (l : list (nat * bytes)) : list sc * bool :=
  match l with
  | [] => ([], true)
  | (a, d) :: r =>
    match free_tmp s a with
    | None => ([], false)
    | Some k =>
      let t := t_generic s a k d in
      let '(t', ok) := t_generic_batch (run_trace s t) r in (t ++ t', ok)
    end
  end.

Definition t_batch (w : wst) (l : list (nat * bytes)) : list sc * bool :=
  let s := fsys w in
  if generic c then t_generic_batch s (nonempty l)
  else
    let n := length (inodes s) in
    (ScOpenTmp :: flat_map (fun o => t_record n (fst o) (snd o)) (nonempty l) ++ [ScSync; ScClose], true).

(* ---- readers ---------------------------------------------------------------------------- *)

Definition file_of (s : fs) (p : path) : option bytes :=
  match lookup p (links s) with
  | Some i => Some (nth i (inodes s) [])
  | None => None
  end.

(* GetBytes / Get: getObjectBytesByPath *)
Definition get_bytes (s : fs) (a : nat) : gres :=
  match file_of s (tp a) with
  | None => GNotFound
  | Some f => extract_combined_object dec (oidb nm a) f
  end.

(* everything a stream API delivers: the buffered head followed by the stream *)
Definition stream_all (h : ores) : gres :=
  match h with
  | OOk i st => GOk (i ++ match st with Some r => drain r | None => [] end)
  | _ => GErr
  end.

(* Head / GetStream: getObjectStream (readHeader with its own 2*npfbl buffer + preprocessStreamHead) *)
Definition get_stream (s : fs) (a : nat) : gres :=
  match file_of s (tp a) with
  | None => GNotFound
  | Some f => stream_all (read_object_ dec (chunk c) (2 * npfbl) (oidb nm a) f)
  end.

(* ReadObject / ReadHeader with a caller buffer of [cap] bytes *)
Definition read_obj (s : fs) (a : nat) (cap : nat) : gres :=
  match file_of s (tp a) with
  | None => GNotFound
  | Some f => stream_all (read_object dec (chunk c) cap (oidb nm a) f)
  end.

Definition exists_ (s : fs) (a : nat) : bool :=
  match lookup (tp a) (links s) with Some _ => true | None => false end.

(* iterate: entries exactly [depth] directories deep whose joined name parses as an address;
   not-found is skipped, any other failure ends the iteration with an error (None) *)
Fixpoint iter_links (s : fs) (l : list (path * nat)) : option (list (nat * bytes)) :=
  match l with
  | [] => Some []
  | (p, i) :: r =>
    if Nat.eqb (length p) (S (depth c)) then
      match parse nm (concat p) with
      | None => iter_links s r
      | Some a =>
        match extract_combined_object dec (oidb nm a) (nth i (inodes s) []) with
        | GOk d => match iter_links s r with Some t => Some ((a, d) :: t) | None => None end
        | GNotFound => iter_links s r
        | GErr => None
        end
      end
    else iter_links s r
  end.

Definition iterate (s : fs) : option (list (nat * bytes)) := iter_links s (links s).

(* ---- operation histories ------------------------------------------------------------------ *)

Inductive op :=
| OPut (a : nat) (d : bytes)          (* one FSTree.Put critical section *)
| OBatch (l : list (nat * bytes))     (* FSTree.PutBatch *)
| OSync                               (* the batch timer fires / finalize *)
| ODelete (a : nat)
| OGetBytes (a : nat)                 (* Get, GetBytes *)
| OStream (a : nat)                   (* Head, GetStream *)
| OReadObj (a : nat) (cap : nat)      (* ReadObject, ReadHeader *)
| OExists (a : nat)
| OIterate.

Inductive res :=
| RPut (ok : bool) | RDel (found : bool) | RGet (g : gres) | RExists (b : bool)
| RIter (l : option (list (nat * bytes))) | RNone.

(* the syscalls of a modifying operation, its result and the writer's batch afterwards *)
Definition op_trace (w : wst) (o : op) : list sc * res * option (nat * nat * nat) :=
  match o with
  | OPut a d => let '(t, ok, cu) := t_put w a d in (t, RPut ok, cu)
  | OBatch l => let '(t, ok) := t_batch w l in (t, RPut ok, cur w)
  | OSync => (t_sync w, RNone, None)
  | ODelete a =>
    if exists_ (fsys w) a then ([ScUnlink (tp a)], RDel true, cur w) else ([], RDel false, cur w)
  | OGetBytes a => ([], RGet (get_bytes (fsys w) a), cur w)
  | OStream a => ([], RGet (get_stream (fsys w) a), cur w)
  | OReadObj a cap => ([], RGet (read_obj (fsys w) a cap), cur w)
  | OExists a => ([], RExists (exists_ (fsys w) a), cur w)
  | OIterate => ([], RIter (iterate (fsys w)), cur w)
  end.

Definition step (w : wst) (o : op) : wst * res :=
  let '(t, r, cu) := op_trace w o in
  ({| fsys := run_trace (fsys w) t; cur := cu |}, r).

Fixpoint run (w : wst) (ops : list op) : wst * list res :=
  match ops with
  | [] => (w, [])
  | o :: r => let '(w1, x) := step w o in let '(w2, xs) := run w1 r in (w2, x :: xs)
  end.

End Model.
