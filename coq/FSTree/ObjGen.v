(* Mirror of the harness' synthetic object builder (harness/cmd/fstree/common.go:
   objSpec.bytes, pattern, filler, idN, combinedRecord) so that a case is described
   by a few numbers and both sides build the same bytes.  MODEL FILE: definitions only. *)
From Coq Require Import List NArith Arith Bool.
Import ListNotations.
From NV Require Import Gen.FSTreeConsts FSTree.Wire FSTree.Range FSTree.Combined.

Fixpoint gen (f : N -> N) (n : nat) (i : N) : bytes :=
  match n with 0 => [] | S k => f i :: gen f k (i + 1)%N end.

Definition pattern (seed : N) (n : nat) : bytes :=
  gen (fun i => (i * 7 + (i / 256) * 13 + seed) mod 256)%N n 0%N.

Definition mk_np (sigk attrk : nat) (hlen : N) : bytes :=
  let f1 := enc_len_field 1 (enc_len_field 1 (repeat 7%N 32)) in
  let f2 := enc_len_field 2 (enc_len_field 1 (repeat 9%N sigk) ++ enc_len_field 2 (repeat 5%N 64)) in
  let attr := enc_len_field 1 (repeat 97%N attrk) ++ enc_len_field 2 [118%N] in
  let f3 := enc_len_field 3 (enc_varint_field 5 hlen ++ enc_len_field 10 attr) in
  f1 ++ f2 ++ f3.

Definition mk_obj (sigk attrk : nat) (hlen : N) (pf : bool) (payload : bytes) : bytes :=
  mk_np sigk attrk hlen ++ (if pf then enc_len_field 4 payload else []).

Definition id_n (n : nat) : bytes := repeat (N.of_nat (n + 1)) oid_size.
Definition filler (k n : nat) : bytes := repeat (N.of_nat (k mod 200 + 1)) n.

(* combined file: records before the target, the target, records after it *)
Fixpoint fillers (from : nat) (lens : list nat) : bytes :=
  match lens with
  | [] => []
  | l :: r => record (id_n from) (filler from l) ++ fillers (S from) r
  end.

Definition combined_file (pre post : list nat) (stored : bytes) : bytes :=
  fillers 0 pre ++ record (id_n (length pre)) stored ++ fillers (S (length pre)) post.
