(* Executable comparison used by the correspondence check of C13. CHECK FILE. *)
From Coq Require Import List Arith Bool.
Import ListNotations.
From NV Require Import FSTree.Batch.

Definition mk_faults (o w l s c e : list nat) : faults :=
  {| fail_open := o; fail_writev := w; fail_link := l; fail_sync := s; fail_close := c; exist_link := e;
     n_open := 0; n_writev := 0; n_link := 0; n_sync := 0; n_close := 0 |}.

(* observed: status 0 = process finished, 1 = process died, 2 = an operation never returned;
   per Put / PutBatch: true = returned nil *)
Record c13_case := {
  k_nosync : bool; k_climit : nat; k_slimit : nat;
  k_events : list event; k_faults : faults;
  k_status : nat; k_results : list bool
}.

Fixpoint finals (w : writer) (rs : list report) : list bool :=
  match rs with
  | [] => []
  | RPut r :: t => final w r :: finals w t
  | RBatch ok :: t => ok :: finals w t
  | RNone :: t => finals w t
  end.

Fixpoint bools_eqb (a b : list bool) : bool :=
  match a, b with
  | [], [] => true
  | x :: a', y :: b' => Bool.eqb x y && bools_eqb a' b'
  | _, _ => false
  end.

(* the model is the repaired code *)
Definition c13_model_ok (c : c13_case) : bool :=
  let cfg := {| fixed := true; nosync := k_nosync c; climit := k_climit c; slimit := k_slimit c |} in
  match run cfg init (k_events c) (k_faults c) with
  | Done (w, rs, _) => Nat.eqb (k_status c) 0 && bools_eqb (finals w rs) (k_results c)
  | Panic => Nat.eqb (k_status c) 1
  | Deadlock => Nat.eqb (k_status c) 2
  end.

Fixpoint mism_from {A} (i : nat) (f : A -> bool) (cs : list A) : list nat :=
  match cs with
  | [] => []
  | c :: r => if f c then mism_from (S i) f r else i :: mism_from (S i) f r
  end.
Definition c13_model_mismatches := mism_from 0 c13_model_ok.
