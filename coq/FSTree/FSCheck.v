(* Executable comparison used by the correspondence checks of C10 and C12. CHECK FILE.
   Addresses are indices into a table of real address strings ([names], given once per
   evaluation file); object binaries are built from a few numbers exactly as the harness
   builds them (ObjGen.mk_obj with a cheap payload); a compressed stored form is modelled as
   the zstd magic, the object's index and padding up to the real compressed length, with
   [dec] = table look-up (zstd itself is outside the model). *)
From Coq Require Import List NArith ZArith Arith Bool.
Import ListNotations.
From NV Require Import Gen.FSTreeConsts FSTree.Wire FSTree.Range FSTree.Combined FSTree.ObjGen FSTree.FS.

Fixpoint index_of (n : bytes) (l : list bytes) (i : nat) : option nat :=
  match l with
  | [] => None
  | x :: r => if bytes_eqb x n then Some i else index_of n r (S i)
  end.

Definition mk_naming (names : list bytes) : naming :=
  {| str := fun a => nth a names []; parse := fun n => index_of n names 0; oidb := id_n |}.

(* harness: c10Payload *)
Definition c10_payload (seed n : nat) : bytes :=
  match n with
  | 0 => []
  | S k => N.of_nat (seed mod 256) :: repeat (N.of_nat ((seed / 256) mod 256)) k
  end.

Record ospec := { o_sigk : nat; o_attrk : nat; o_plen : nat; o_seed : nat; o_pf : bool }.

Definition obj_bytes (o : ospec) : bytes :=
  mk_obj (o_sigk o) (o_attrk o) (N.of_nat (o_plen o)) (o_pf o) (c10_payload (o_seed o) (o_plen o)).

Definition zform (o zlen : nat) : bytes :=
  zstd_magic ++ [N.of_nat (o mod 256); N.of_nat (o / 256)] ++ repeat 0%N (zlen - 6).

Definition empty_obj : nat := 9999.

(* stored form: object index, 0 = as is / compressed length *)
Definition form (xs : list bytes) (o z : nat) : bytes :=
  if Nat.eqb o empty_obj then [] else if Nat.eqb z 0 then nth o xs [] else zform o z.

Definition mk_dec (xs : list bytes) (b : bytes) : option bytes :=
  match b with
  | _ :: _ :: _ :: _ :: lo :: hi :: _ => nth_error xs (N.to_nat lo + 256 * N.to_nat hi)
  | _ => None
  end.

(* observed operations. Status: 0 ok, 2 not found, 3 other error. *)
Inductive cop :=
| CPuts (l : list (nat * nat * nat)) (rs : list nat)   (* concurrent Puts (addr, obj, z), then the batch is synced *)
| CBatch (l : list (nat * nat * nat)) (r : nat)
| CDel (a : nat) (r : nat)
| CGet (api a cap st o : nat)       (* api 0 GetBytes/Get, 1 Head/GetStream, 2 ReadObject/ReadHeader *)
| CExists (a : nat) (b : bool)
| CIter (st : nat) (l : list (nat * nat)).

Record c10_case := { q_cfg : cfg; q_objs : list ospec; q_ops : list cop }.

Definition items (xs : list bytes) (l : list (nat * nat * nat)) : list (nat * bytes) :=
  map (fun e => match e with (a, o, z) => (a, form xs o z) end) l.

Definition st_of (g : gres) : nat := match g with GOk _ => 0 | GNotFound => 2 | GErr => 3 end.

Definition get_ok (xs : list bytes) (g : gres) (st o : nat) : bool :=
  match g with
  | GOk x => Nat.eqb st 0 && bytes_eqb x (nth o xs [])
  | GNotFound => Nat.eqb st 2
  | GErr => Nat.eqb st 3
  end.

Definition iter_ok (xs : list bytes) (r : option (list (nat * bytes))) (st : nat) (obs : list (nat * nat)) : bool :=
  match r with
  | None => negb (Nat.eqb st 0)
  | Some l =>
    Nat.eqb st 0 && Nat.eqb (length l) (length obs) &&
    forallb (fun e => existsb (fun m => Nat.eqb (fst e) (fst m) && bytes_eqb (snd m) (nth (snd e) xs [])) l) obs
  end.

Definition all_eqb (rs : list nat) (v : nat) : bool := forallb (Nat.eqb v) rs.

Fixpoint puts_ok (res1 : list res) (rs : list nat) : bool :=
  match res1, rs with
  | RPut ok :: t, r :: u => Nat.eqb r (if ok then 0 else 3) && puts_ok t u
  | [RNone], [] => true
  | _, _ => false
  end.

Section Run.
Variable names : list bytes.

Definition run_cop (xs : list bytes) (c : cfg) (w : wst) (o : cop) : wst * bool :=
  let dec := mk_dec xs in
  let nm := mk_naming names in
  match o with
  | CPuts l rs =>
    let '(w1, res1) := run dec nm c w (map (fun e => OPut (fst e) (snd e)) (items xs l) ++ [OSync]) in
    (w1, puts_ok res1 rs)
  | CBatch l r =>
    let '(w1, x) := step dec nm c w (OBatch (items xs l)) in
    (w1, match x with RPut ok => Nat.eqb r (if ok then 0 else 3) | _ => false end)
  | CDel a r =>
    let '(w1, x) := step dec nm c w (ODelete a) in
    (w1, match x with RDel f => Nat.eqb r (if f then 0 else 2) | _ => false end)
  | CGet api a cap st ob =>
    let g := match api with
             | 0 => get_bytes dec nm c (fsys w) a
             | 1 => get_stream dec nm c (fsys w) a
             | _ => read_obj dec nm c (fsys w) a cap
             end in
    (w, get_ok xs g st ob)
  | CExists a b => (w, Bool.eqb (exists_ nm c (fsys w) a) b)
  | CIter st l => (w, iter_ok xs (iterate dec nm c (fsys w)) st l)
  end.

Fixpoint run_cops (xs : list bytes) (c : cfg) (w : wst) (ops : list cop) : wst * bool :=
  match ops with
  | [] => (w, true)
  | o :: r => let '(w1, ok) := run_cop xs c w o in
              if ok then run_cops xs c w1 r else (w1, false)
  end.

Definition c10_model_ok (q : c10_case) : bool :=
  let xs := map obj_bytes (q_objs q) in
  snd (run_cops xs (q_cfg q) init_w (q_ops q)).

(* ---- reference: a map address -> object, "last stored" ------------------------------------------ *)

Definition rmap := nat -> option nat.
Definition rupd (M : rmap) (a : nat) (v : option nat) : rmap := fun x => if Nat.eqb x a then v else M x.

Definition opt_eqb (x y : option nat) : bool :=
  match x, y with Some a, Some b => Nat.eqb a b | None, None => true | _, _ => false end.

Fixpoint ref_puts (M : rmap) (l : list (nat * nat * nat)) (rs : list nat) (batch : bool) : rmap * bool :=
  match l with
  | [] => (M, match rs with [] => true | _ => batch end)
  | (a, o, z) :: t =>
    if Nat.eqb o empty_obj then
      if batch then ref_puts M t rs batch
      else match rs with r :: u => let '(M', ok) := ref_puts M t u batch in (M', Nat.eqb r 3 && ok) | [] => (M, false) end
    else
      if batch then ref_puts (rupd M a (Some o)) t rs batch
      else match rs with r :: u => let '(M', ok) := ref_puts (rupd M a (Some o)) t u batch in (M', Nat.eqb r 0 && ok) | [] => (M, false) end
  end.

Definition universe : list nat := seq 0 40.

Definition ref_cop (M : rmap) (o : cop) : rmap * bool :=
  match o with
  | CPuts l rs => ref_puts M l rs false
  | CBatch l r => let '(M', ok) := ref_puts M l [] true in (M', Nat.eqb r 0 && ok)
  | CDel a r => (rupd M a None, Nat.eqb r (match M a with Some _ => 0 | None => 2 end))
  | CGet _ a _ st ob => (M, match M a with Some o' => Nat.eqb st 0 && Nat.eqb ob o' | None => Nat.eqb st 2 end)
  | CExists a b => (M, Bool.eqb b (match M a with Some _ => true | None => false end))
  | CIter st l =>
    (M, Nat.eqb st 0 &&
        forallb (fun a => opt_eqb (M a) (match find (fun e => Nat.eqb (fst e) a) l with Some e => Some (snd e) | None => None end)) universe &&
        Nat.eqb (length l) (length (filter (fun a => match M a with Some _ => true | None => false end) universe)))
  end.

Fixpoint ref_cops (M : rmap) (ops : list cop) : bool :=
  match ops with
  | [] => true
  | o :: r => let '(M', ok) := ref_cop M o in if ok then ref_cops M' r else false
  end.

Definition c10_ref_ok (q : c10_case) : bool := ref_cops (fun _ => None) (q_ops q).

(* the format guard, checked on every stored form the harness wrote *)
Definition no_prefix_b (d : bytes) : bool :=
  match d with
  | b0 :: b1 :: _ => negb ((b0 =? combined_prefix)%N && (b1 =? 0)%N)
  | _ => true
  end.

Definition c10_guard_ok (q : c10_case) : bool :=
  let xs := map obj_bytes (q_objs q) in
  forallb (fun o => match o with
                    | CPuts l _ | CBatch l _ => forallb (fun e => no_prefix_b (snd e)) (items xs l)
                    | _ => true
                    end) (q_ops q).

Fixpoint mism_from {A} (i : nat) (f : A -> bool) (cs : list A) : list nat :=
  match cs with
  | [] => []
  | c :: r => if f c then mism_from (S i) f r else i :: mism_from (S i) f r
  end.

Definition c10_model_mismatches := mism_from 0 c10_model_ok.
Definition c10_ref_mismatches := mism_from 0 c10_ref_ok.
Definition c10_guard_mismatches := mism_from 0 c10_guard_ok.

(* treePath of real address strings *)
Definition path_case_ok (pc : nat * nat * list bytes) : bool :=
  match pc with (a, d, comps) => path_eqb (tree_path d (nth a names [])) comps end.
Definition path_mismatches := mism_from 0 path_case_ok.

(* ---- C12: state after a crash ---------------------------------------------------------------------- *)

Record c12_case := {
  z_cfg : cfg; z_objs : list ospec; z_pre : list cop;
  z_kind : nat;                      (* 0 Put, 1 PutBatch, 2 Delete *)
  z_items : list (nat * nat * nat);  (* (addr, obj, z); Delete: the address *)
  z_k : nat;                         (* completed syscalls of the operation *)
  z_kinds : list nat;                (* kinds of the syscalls the implementation made (dry run) *)
  z_naddr : nat;
  z_obs : list (nat * nat);          (* per address: GetBytes status, object *)
  z_iter : list (nat * nat);
  z_tmp : nat                        (* files with '#' found before CleanUpTmp *)
}.

Definition kind_of (x : sc) : nat :=
  match x with
  | ScOpenTmp => 1 | ScOpenExcl _ => 1 | ScWrite _ _ => 2 | ScLink _ _ => 3 | ScRename _ _ => 4
  | ScUnlink _ => 5 | ScSync => 6 | ScClose => 7
  end.

Fixpoint nats_eqb (a b : list nat) : bool :=
  match a, b with
  | [], [] => true
  | x :: a', y :: b' => Nat.eqb x y && nats_eqb a' b'
  | _, _ => false
  end.

Definition count_ok (l : list (nat * nat)) : nat := length (filter (fun e => Nat.eqb (fst e) 0) l).

Definition c12_model_ok (z : c12_case) : bool :=
  let xs := map obj_bytes (z_objs z) in
  let dec := mk_dec xs in
  let nm := mk_naming names in
  let c := z_cfg z in
  let '(w0, ok0) := run_cops xs c init_w (z_pre z) in
  let o := match z_kind z with
           | 0 => match items xs (z_items z) with (a, d) :: _ => OPut a d | [] => OSync end
           | 1 => OBatch (items xs (z_items z))
           | _ => match z_items z with (a, _, _) :: _ => ODelete a | [] => OSync end
           end in
  let t := fst (fst (op_trace dec nm c w0 o)) in
  let s' := crash t (z_k z) 0 (fsys w0) in
  let members := if Nat.eqb (z_kind z) 1 then map (fun e => fst (fst e)) (z_items z) else [] in
  let addrs := seq 0 (z_naddr z) in
  let model := map (fun a => match get_bytes dec nm c s' a with
                             | GOk x => (0, match index_of x xs 0 with Some i => i | None => 7777 end)
                             | GNotFound => (2, 0)
                             | GErr => (3, 0)
                             end) addrs in
  let is_member a := existsb (Nat.eqb a) members in
  ok0 && nats_eqb (map kind_of t) (z_kinds z) &&
  Nat.eqb (length (z_obs z)) (z_naddr z) &&
  (* addresses outside a batch: exactly the model's answer *)
  forallb (fun a => is_member a ||
                    (let m := nth a model (9, 9) in let ob := nth a (z_obs z) (8, 8) in
                     Nat.eqb (fst m) (fst ob) && (negb (Nat.eqb (fst m) 0) || Nat.eqb (snd m) (snd ob)))) addrs &&
  (* members of the interrupted batch (written in map order): as many readable as in the model,
     each one with its own object *)
  (negb (Nat.eqb (z_kind z) 1) ||
   let pre := length (filter (fun a => exists_ nm c (fsys w0) a) members) in
   let links_done := length (filter (fun x => Nat.eqb (kind_of x) 3 || Nat.eqb (kind_of x) 4) (firstn (z_k z) t)) in
   let seen := count_ok (map (fun a => nth a (z_obs z) (8, 8)) members) in
   (* members stored before stay; of the completed linkat calls at most [pre] hit those (map order is unknown) *)
   Nat.leb pre seen && Nat.leb (seen - pre) links_done && Nat.leb (links_done - pre) (seen - pre) &&
   (negb (Nat.eqb pre 0) || Nat.eqb seen (count_ok (map (fun a => nth a model (9, 9)) members)))) &&
  forallb (fun e => match e with (a, o, _) =>
                      let ob := nth a (z_obs z) (8, 8) in
                      (Nat.eqb (fst ob) 2 || (Nat.eqb (fst ob) 0 && Nat.eqb (snd ob) o)) end)
          (if Nat.eqb (z_kind z) 1 then z_items z else []) &&
  (* iteration = the readable addresses; temporary names counted *)
  match iterate dec nm c s' with
  | Some l => negb (Nat.eqb (length (filter (fun a => exists_ nm c (fsys w0) a) members)) 0) || Nat.eqb (length l) (length (z_iter z))
  | None => false
  end &&
  Nat.eqb (length (filter (fun e => has_hash (concat (fst e))) (links s'))) (z_tmp z).

(* the property itself on the observation: an address reads not-found or its own object, everything
   acknowledged before stays readable, iteration lists exactly the readable addresses *)
Definition c12_ref_ok (z : c12_case) : bool :=
  let acked := (* address -> object, from the completed operations *)
    fold_left (fun M o => match o with
                          | CPuts l _ | CBatch l _ => fold_left (fun M e => match e with (a, ob, _) => if Nat.eqb ob empty_obj then M else rupd M a (Some ob) end) l M
                          | CDel a _ => rupd M a None
                          | _ => M end) (z_pre z) (fun _ => None) in
  let touched a := existsb (fun e => Nat.eqb (fst (fst e)) a) (z_items z) in
  let want a := match find (fun e => Nat.eqb (fst (fst e)) a) (z_items z) with Some (_, ob, _) => Some ob | None => None end in
  forallb (fun a =>
             let ob := nth a (z_obs z) (8, 8) in
             match acked a with
             | Some o0 =>
               if touched a && Nat.eqb (z_kind z) 2 then (Nat.eqb (fst ob) 2 || (Nat.eqb (fst ob) 0 && Nat.eqb (snd ob) o0))
               else Nat.eqb (fst ob) 0 && (Nat.eqb (snd ob) o0 || opt_eqb (want a) (Some (snd ob)))
             | None =>
               Nat.eqb (fst ob) 2 || (Nat.eqb (fst ob) 0 && touched a && negb (Nat.eqb (z_kind z) 2) && opt_eqb (want a) (Some (snd ob)))
             end) (seq 0 (z_naddr z)) &&
  nats_eqb (map fst (z_iter z)) (map fst (filter (fun e => Nat.eqb (fst (snd e)) 0) (combine (seq 0 (z_naddr z)) (z_obs z)))) &&
  forallb (fun e => Nat.eqb (snd (nth (fst e) (z_obs z) (8, 8))) (snd e)) (z_iter z).

Definition c12_model_mismatches := mism_from 0 c12_model_ok.
Definition c12_ref_mismatches := mism_from 0 c12_ref_ok.
End Run.
