(* Proofs for C13 about the batching writer model. PROOF FILE. *)
From Coq Require Import List Arith Bool Lia.
Import ListNotations.
From NV Require Import FSTree.Batch.

Lemma tick_pair k f : exists e f', tick k f = (e, f').
Proof. destruct (tick k f) as [e f']. eauto. Qed.

(* intSync is safe on a batch whose ready channel is not closed yet *)
Lemma int_sync_done ns b f : ready b <> CClosed ->
  exists b' f', int_sync ns b f = Done (b', f') /\
                (ready b = CNil -> ready b' = CNil) /\ objs b' = objs b /\
                (berr b = true -> berr b' = true).
Proof.
  intros Hr. unfold int_sync.
  destruct (if (negb (berr b) && negb ns)%bool then tick KSync f else (false, f)) as [e1 f1].
  destruct (tick KClose f1) as [e2 f2].
  destruct (ready b) eqn:E; try congruence.
  - eexists _, _. split; [reflexivity|]. simpl. repeat split; auto. intros ->. reflexivity.
  - eexists _, _. split; [reflexivity|]. simpl. repeat split; auto; try congruence. intros ->. reflexivity.
Qed.

Lemma bwrite_done ns b o sz f : ready b <> CClosed ->
  exists b' ok f', bwrite ns b o sz f = Done (b', ok, f') /\
     (ok = true -> ready b' = ready b /\ berr b' = berr b /\ In o (objs b')) /\
     (ok = false -> berr b' = true) /\
     (ready b = CNil -> ready b' = CNil).
Proof.
  intros Hr. unfold bwrite.
  destruct (tick KWritev f) as [e f1]. destruct e.
  - destruct (int_sync_done ns (set_err b) f1) as (b' & f2 & -> & Hn & _ & He); [exact Hr|].
    eexists _, _, _. split; [reflexivity|]. repeat split; try discriminate; auto.
  - set (b1 := {| ready := ready b; berr := berr b; cnt := S (cnt b); size := size b + sz; closes := closes b; objs := objs b |}).
    destruct (tick KLink f1) as [e' f2].
    destruct (mem (S (n_link f1)) (exist_link f1)).
    + eexists _, _, _. split; [reflexivity|]. simpl. repeat split; try discriminate; auto.
    + destruct e'.
      * destruct (int_sync_done ns (set_err b1) f2) as (b' & f3 & -> & Hn & _ & He); [exact Hr|].
        eexists _, _, _. split; [reflexivity|]. repeat split; try discriminate; auto.
      * eexists _, _, _. split; [reflexivity|]. simpl. repeat split; try discriminate; auto.
Qed.

Lemma get_app_new bs b : get (bs ++ [b]) (length bs) = b.
Proof. unfold get. rewrite app_nth2, Nat.sub_diag by lia. reflexivity. Qed.

Lemma is_closed_false c : is_closed c = false -> c <> CClosed.
Proof. destruct c; simpl; congruence. Qed.

(* the repaired writeCombinedFile never panics, never leaves batchLock locked *)
Lemma write_combined_safe c w o sz f : fixed c = true -> lock_held w = false ->
  exists w' r f', write_combined c w o sz f = Done (w', r, f') /\ lock_held w' = false /\
                  (forall i, r = WWait i -> In o (objs (get (batches w') i)) \/ length (batches w') <= i).
Proof.
  intros Hfix Hl. unfold write_combined. rewrite Hl, Hfix.
  set (need_new := match cur w with None => true | Some i => is_closed (ready (get (batches w) i)) end).
  assert (Hpick :
    (exists f1, (if need_new then let '(e, f1) := tick KOpen f in
                   if e then inl f1 else inr (batches w ++ [new_batch COpen], length (batches w), f1)
                 else match cur w with Some i => inr (batches w, i, f) | None => inl f end) = inl f1) \/
    (exists bs i f1, (if need_new then let '(e, f1) := tick KOpen f in
                   if e then inl f1 else inr (batches w ++ [new_batch COpen], length (batches w), f1)
                 else match cur w with Some i => inr (batches w, i, f) | None => inl f end) = inr (bs, i, f1)
                 /\ ready (get bs i) <> CClosed)).
  { destruct need_new eqn:En.
    - destruct (tick KOpen f) as [e f1]. destruct e.
      + left. eauto.
      + right. eexists _, _, _. split; [reflexivity|]. rewrite get_app_new. simpl. congruence.
    - unfold need_new in En. destruct (cur w) as [i|]; [|discriminate].
      right. eexists _, _, _. split; [reflexivity|]. now apply is_closed_false. }
  destruct Hpick as [(f1 & ->)|(bs & i & f1 & -> & Hr)].
  - eexists _, _, _. split; [reflexivity|]. simpl. split; [reflexivity|]. intros; discriminate.
  - destruct (bwrite_done (nosync c) (get bs i) o sz f1 Hr) as (b1 & ok & f2 & -> & Hok & Hko & _).
    destruct ok.
    + destruct (Hok eq_refl) as (Hrd & _ & Hin).
      destruct ((climit c <=? cnt b1) || (slimit c <=? size b1))%bool; simpl.
      * destruct (int_sync_done (nosync c) b1 f2) as (b2 & f3 & -> & _ & Ho & _); [congruence|].
        eexists _, _, _. split; [reflexivity|]. simpl. split; [reflexivity|].
        intros j [= <-]. destruct (Nat.lt_ge_cases i (length bs)) as [Hlt|Hge].
        -- left. clear - Hlt Ho Hin. revert i Hlt. induction bs as [|x r IH]; intros i Hlt; simpl in *; [lia|].
           destruct i; simpl; [unfold get; simpl; congruence|]. apply IH. lia.
        -- right. clear - Hge. revert i Hge. induction bs as [|x r IH]; intros i Hge; simpl in *; [lia|].
           destruct i; simpl in *; [lia|]. specialize (IH i). lia.
      * eexists _, _, _. split; [reflexivity|]. simpl. split; [reflexivity|].
        intros j [= <-]. destruct (Nat.lt_ge_cases i (length bs)) as [Hlt|Hge].
        -- left. clear - Hlt Hin. revert i Hlt. induction bs as [|x r IH]; intros i Hlt; simpl in *; [lia|].
           destruct i; simpl; [unfold get; simpl; congruence|]. apply IH. lia.
        -- right. clear - Hge. revert i Hge. induction bs as [|x r IH]; intros i Hge; simpl in *; [lia|].
           destruct i; simpl in *; [lia|]. specialize (IH i). lia.
    + simpl. eexists _, _, _. split; [reflexivity|]. simpl. split; [reflexivity|]. intros; discriminate.
Qed.

Lemma timer_sync_safe c w i f :
  exists w' f', timer_sync c w i f = Done (w', f') /\ lock_held w' = lock_held w.
Proof.
  unfold timer_sync. destruct (is_closed (ready (get (batches w) i))) eqn:E.
  - eauto.
  - destruct (length (batches w) <=? i); [eauto|].
    destruct (int_sync_done (nosync c) (get (batches w) i) f) as (b' & f' & -> & _); [now apply is_closed_false|].
    eexists _, _. split; reflexivity.
Qed.

Lemma finalize_safe c w f : lock_held w = false ->
  exists w' f', finalize c w f = Done (w', f') /\ lock_held w' = false.
Proof.
  intros Hl. unfold finalize. rewrite Hl. destruct (cur w) as [i|]; [|eauto].
  destruct (timer_sync_safe c w i f) as (w' & f' & -> & _). eauto.
Qed.

Lemma batch_loop_safe ns os : forall b f, ready b = CNil ->
  exists b' ok f', batch_loop ns b os f = Done (b', ok, f') /\ ready b' = CNil.
Proof.
  induction os as [|[o sz] r IH]; intros b f Hr; simpl.
  - eauto.
  - destruct (bwrite_done ns b o sz f) as (b' & ok & f' & -> & _ & _ & Hn); [congruence|].
    destruct ok; [apply IH; auto|]. eexists _, _, _. split; [reflexivity|auto].
Qed.

Lemma write_batch_safe c w os f :
  exists w' ok f', write_batch c w os f = Done (w', ok, f') /\ lock_held w' = lock_held w.
Proof.
  unfold write_batch. destruct (tick KOpen f) as [e f1]. destruct e; [eauto|].
  destruct (batch_loop_safe (nosync c) os (new_batch CNil) f1 eq_refl) as (b & ok & f2 & -> & Hn).
  destruct ok.
  - destruct (int_sync_done (nosync c) b f2) as (b' & f3 & -> & _); [congruence|]. eauto.
  - eauto.
Qed.

(* C13: whatever the callers, the timers and the failing system calls do, the repaired
   writer neither panics nor blocks *)
Theorem no_panic c : fixed c = true -> forall evs w f, lock_held w = false ->
  exists w' rs f', run c w evs f = Done (w', rs, f') /\ lock_held w' = false.
Proof.
  intros Hfix evs. induction evs as [|ev rest IH]; intros w f Hl; simpl.
  - eauto.
  - destruct ev as [o sz|i| |os].
    + destruct (write_combined_safe c w o sz f Hfix Hl) as (w' & r & f' & -> & Hl' & _).
      destruct (IH w' f' Hl') as (w'' & rs & f'' & -> & Hl''). eauto.
    + destruct (timer_sync_safe c w i f) as (w' & f' & -> & Hl').
      destruct (IH w' f') as (w'' & rs & f'' & -> & Hl''); [congruence|]. eauto.
    + destruct (finalize_safe c w f Hl) as (w' & f' & -> & Hl').
      destruct (IH w' f' Hl') as (w'' & rs & f'' & -> & Hl''). eauto.
    + destruct (write_batch_safe c w os f) as (w' & ok & f' & -> & Hl').
      destruct (IH w' f') as (w'' & rs & f'' & -> & Hl''); [congruence|]. eauto.
Qed.

(* a combined write that did not fail at once has its object completely written and linked *)
Theorem success_linked c w o sz f w' i f' : fixed c = true -> lock_held w = false ->
  write_combined c w o sz f = Done (w', WWait i, f') ->
  In o (objs (get (batches w') i)) \/ length (batches w') <= i.
Proof.
  intros Hfix Hl H. destruct (write_combined_safe c w o sz f Hfix Hl) as (w1 & r & f1 & E & _ & Hin).
  rewrite E in H. injection H as E1 E2 E3. subst. now apply Hin.
Qed.

(* the code as found: a failing linkat on the write that reaches the size limit runs
   intSync twice -> close of closed channel *)
Definition found_cfg := {| fixed := false; nosync := true; climit := 128; slimit := 100 |}.
Definition link1_fails := {| fail_open := []; fail_writev := []; fail_link := [1]; fail_sync := []; fail_close := []; exist_link := [];
                             n_open := 0; n_writev := 0; n_link := 0; n_sync := 0; n_close := 0 |}.
Theorem no_panic_refuted_as_found :
  exists evs f, run found_cfg init evs f = Panic.
Proof. exists [EPut 1 300], link1_fails. vm_compute. reflexivity. Qed.

(* the code as found: a failing open of a new batch leaves batchLock locked, the next
   write never returns *)
Definition open1_fails := {| fail_open := [1]; fail_writev := []; fail_link := []; fail_sync := []; fail_close := []; exist_link := [];
                             n_open := 0; n_writev := 0; n_link := 0; n_sync := 0; n_close := 0 |}.
Theorem no_deadlock_refuted_as_found :
  exists evs f, run found_cfg init evs f = Deadlock.
Proof. exists [EPut 1 10; EPut 2 10], open1_fails. vm_compute. reflexivity. Qed.
