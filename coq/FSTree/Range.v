(* Payload range reads: PayloadRange.Resolve (blobstor/common/storage.go) and the
   stream shifting of fstree.go (shiftStreamToRange, shiftPayloadRangeStream) with the
   reader combinators of util.go (prefixedReadSeekCloser, limitedFileReader,
   nopReadCloser).

   MODEL FILE: definitions only, all executable. *)
From Coq Require Import List NArith ZArith Arith Bool Lia.
Import ListNotations.
From NV Require Import Base.U64 Gen.FSTreeConsts FSTree.Wire.

(* ---- PayloadRange.Resolve ------------------------------------------------ *)

Inductive rres := RsOk (off ln : N) | RsOOR | RsBad.

(* all arithmetic as Go does it on uint64 *)
(* the common tail: ln != 0 && (off >= payloadLen || payloadLen-off < ln) *)
Definition check_range (len off ln : N) : rres :=
  if (negb (ln =? 0) && ((len <=? off) || (sub64 len off <? ln)))%N%bool then RsOOR else RsOk off ln.

Definition resolve (mode a b len : N) : rres :=
  let check := check_range len in
  if (mode =? mode_none)%N then check 0%N len
  else if (mode =? mode_offlen)%N then
    if (b =? 0)%N then (if (a =? 0)%N then check 0%N len else RsOOR)
    else check a b
  else if (mode =? mode_bounds)%N then
    if ((b <? a) || (len <=? a))%N%bool then RsOOR
    else let last := N.min b (sub64 len 1) in check a (add64 (sub64 last a) 1)
  else if (mode =? mode_from)%N then
    if (len <=? a)%N then RsOOR else check a (sub64 len a)
  else if (mode =? mode_suffix)%N then
    if (a =? 0)%N then RsOOR
    else let ln := N.min a len in check (sub64 len ln) ln
  else RsBad.

(* ---- readers -------------------------------------------------------------- *)

Inductive rdr :=
| RNop                       (* nopReadCloser *)
| RBytes (l : bytes)         (* bytes.Reader behind nopCloser *)
| RFile (l : bytes)          (* *os.File / zstd decoder: the bytes from the current position to the end *)
| RLim (r : rdr) (limit : Z) (* limitedFileReader *)
| RPre (p : bytes) (r : rdr). (* prefixedReadSeekCloser *)

(* everything a consumer gets by reading until EOF *)
Fixpoint drain (r : rdr) : bytes :=
  match r with
  | RNop => []
  | RBytes l => l
  | RFile l => l
  | RLim r limit => firstnN (Z.to_N limit) (drain r)
  | RPre p r => p ++ drain r
  end.

(* Seek(k, io.SeekCurrent), k >= 0; None = the call returns an error *)
Fixpoint seek (r : rdr) (k : N) : option rdr :=
  match r with
  | RNop => None
  | RBytes l => Some (RBytes (skipnN k l))
  | RFile l => Some (RFile (skipnN k l))
  | RLim r limit =>
    if (limit <? Z.of_N k)%Z then None
    else match seek r k with
         | Some r' => Some (RLim r' (limit - Z.of_N k))
         | None => None
         end
  | RPre p r =>
    let s := N.min (lenN p) k in
    if (k =? s)%N then Some (RPre (skipnN s p) r)
    else match seek r (k - s) with
         | Some r' => Some (RPre (skipnN s p) r')
         | None => None
         end
  end.

(* io.ReadFull(r, buf) with len(buf) = k where running short is tolerated:
   the bytes read and the reader afterwards *)
Fixpoint read_n (r : rdr) (k : nat) : bytes * rdr :=
  match r with
  | RNop => ([], RNop)
  | RBytes l => (firstn k l, RBytes (skipn k l))
  | RFile l => (firstn k l, RFile (skipn k l))
  | RLim r limit =>
    let k' := Nat.min k (Z.to_nat limit) in
    let '(d, r') := read_n r k' in (d, RLim r' (limit - Z.of_nat (length d)))
  | RPre p r =>
    let d1 := firstn k p in
    let '(d2, r') := read_n r (k - length d1) in (d1 ++ d2, RPre (skipn k p) r')
  end.

(* ---- shiftStreamToRange / shiftPayloadRangeStream ---------------------------- *)

Inductive rerr := EOutOfRange | ENotFound | EOther.
Inductive shres := ShOk (r : rdr) | ShErr (e : rerr) | ShPanic.

Definition max_int64 : N := 9223372036854775807.

Definition too_big (off ln : N) : bool := ((max_int64 <? off) || (max_int64 <? ln))%N%bool.


(* the part of shiftPayloadRangeStream after the payload prefix has been isolated:
   [pp] = payload bytes already buffered *)
Definition shift_buffered (pp : bytes) (pldLen : N) (stream : option rdr) (off ln : N) : shres :=
  let lp := lenN pp in
  match stream with
  | None =>
    if negb (lp =? pldLen)%N then ShErr EOther
    else if (off =? 0)%N then
      if (ln =? 0)%N then ShOk (RBytes pp)
      else if (ln <=? lp)%N then ShOk (RBytes (firstnN ln pp))
      else ShPanic (* nil stream used *)
    else
      (* prefix[off:][:ln] *)
      if (lp <? off)%N then ShPanic
      else if (lp - off <? ln)%N then ShPanic
      else ShOk (RBytes (firstnN ln (skipnN off pp)))
  | Some st =>
    if (off =? 0)%N then
      if (ln =? 0)%N then
        match pp with [] => ShOk st | _ => ShOk (RPre pp st) end
      else if (ln <=? lp)%N then ShOk (RBytes (firstnN ln pp))
      else if too_big off ln then ShErr EOther
      else match pp with
           | [] => ShOk (RLim st (Z.of_N ln))
           | _ => ShOk (RPre pp (RLim st (Z.of_N ln - Z.of_N lp)))
           end
    else
      if too_big off ln then ShErr EOther
      else if (lp <=? off)%N then
        if (lp <? off)%N then
          match seek st (off - lp) with
          | None => ShErr EOther
          | Some st' => ShOk (RLim st' (Z.of_N ln))
          end
        else ShOk (RLim st (Z.of_N ln))
      else
        let pp' := skipnN off pp in
        let lp' := (lp - off)%N in
        if (ln <=? lp')%N then ShOk (RBytes (firstnN ln pp'))
        else ShOk (RPre pp' (RLim st (Z.of_N ln - Z.of_N lp')))
  end.

(* [pfo] = offset of the payload length varint in [prefix] (tag offset + tag length),
   None if the object has no payload field *)
Definition shift_payload_range_stream (prefix : bytes) (pldLen : N) (pfo : option nat)
           (stream : option rdr) (off ln : N) : shres :=
  match pfo with
  | None => if (pldLen =? 0)%N then ShOk RNop else ShErr EOther
  | Some o =>
    match parse_varint (skipn o prefix) with
    | VOk _ n => shift_buffered (skipn (o + n) prefix) pldLen stream off ln
    | VErr e =>
      match stream, e with
      | Some st, VTrunc =>
        (* the varint is cut by the end of the head buffer: move what is there to the
           buffer start and fill the buffer from the stream *)
        let part := skipn o prefix in
        let cap := if max_varint_len <=? length prefix then length prefix else max_varint_len in
        let '(extra, st') := read_n st (cap - length part) in
        let buf := part ++ extra in
        match parse_varint buf with
        | VErr _ => ShErr EOther
        | VOk _ n => shift_buffered (skipn n buf) pldLen (Some st') off ln
        end
      | _, _ => ShErr EOther
      end
    end
  end.

(* the part of shiftStreamToRange that looks only at the head buffer *)
Definition shift_with (sk : seekres) (prefix : bytes) (pldLen : N) (mode a b : N) (stream : option rdr) : shres :=
  match sk with
  | SErr => ShErr EOther
  | SFound o tagln typ =>
    if negb (typ =? ty_bytes)%N then ShErr EOther
    else match resolve mode a b pldLen with
         | RsOOR => ShErr EOutOfRange
         | RsBad => ShErr EOther
         | RsOk off ln => shift_payload_range_stream prefix pldLen (Some (o + tagln)) stream off ln
         end
  | SMissing =>
    match resolve mode a b pldLen with
    | RsOOR => ShErr EOutOfRange
    | RsBad => ShErr EOther
    | RsOk off ln => shift_payload_range_stream prefix pldLen None stream off ln
    end
  end.

Definition shift_stream_to_range (prefix : bytes) (pldLen : N) (mode a b : N) (stream : option rdr) : shres :=
  shift_with (seek_field prefix f_obj_payload) prefix pldLen mode a b stream.

(* payload length announced by the header found in the head buffer
   (readPayloadRange / ReadObjectParts): header field bounds, then field 5 of it *)
Inductive plres := PlOk (pldLen : N) (hdr : option bytes) | PlErr.

Definition header_payload_len (prefix : bytes) : plres :=
  match get_len_field_bounds prefix f_obj_hdr with
  | BErr => PlErr
  | BMissing => PlOk 0%N None
  | BOk _ vfrom to =>
    let hdr := firstn (to - vfrom) (skipn vfrom prefix) in
    match get_uint64_field hdr f_hdr_pldlen with
    | UErr => PlErr
    | UOk v => PlOk v (Some hdr)
    end
  end.

(* FSTree.readPayloadRange after _readObject returned (prefix, stream); the two scans
   of the head buffer are passed in so that they can be shared between queries *)
Definition range_with (pl : plres) (sk : seekres) (prefix : bytes) (stream : option rdr) (mode a b : N) : shres :=
  match pl with
  | PlErr => ShErr EOther
  | PlOk pldLen _ => shift_with sk prefix pldLen mode a b stream
  end.

Definition range_of_head (prefix : bytes) (stream : option rdr) (mode a b : N) : shres :=
  range_with (header_payload_len prefix) (seek_field prefix f_obj_payload) prefix stream mode a b.

(* PayloadRange.IsSet && !IsFull *)
Definition partial_range (mode a b : N) : bool :=
  if (mode =? mode_none)%N then false
  else if (mode =? mode_offlen)%N then negb ((a =? 0) && (b =? 0))%N
  else if (mode =? mode_from)%N then negb (a =? 0)%N
  else true.
