(* Executable comparison used by the correspondence check of C11.
   CHECK FILE: definitions only. *)
From Coq Require Import List NArith ZArith Arith Bool.
Import ListNotations.
From NV Require Import Base.U64 Gen.FSTreeConsts FSTree.Wire FSTree.Range FSTree.Combined FSTree.ObjGen.

(* ---- reference: what a range denotes, in unbounded arithmetic (no wrap) ------- *)

Inductive spec_res := SpOk (off ln : N) | SpUnsat | SpBadMode.

Definition range_spec (mode a b len : N) : spec_res :=
  if (mode =? mode_none)%N then SpOk 0 len
  else if (mode =? mode_offlen)%N then
    if (b =? 0)%N then (if (a =? 0)%N then SpOk 0 len else SpUnsat)
    else if (a + b <=? len)%N then SpOk a b else SpUnsat
  else if (mode =? mode_bounds)%N then
    if ((a <=? b) && (a <? len))%N%bool then SpOk a (N.min b (len - 1) - a + 1) else SpUnsat
  else if (mode =? mode_from)%N then
    if (a <? len)%N then SpOk a (len - a) else SpUnsat
  else if (mode =? mode_suffix)%N then
    if (a =? 0)%N then SpUnsat else SpOk (len - N.min a len) (N.min a len)
  else SpBadMode.

(* ---- part A: Resolve cases ---------------------------------------------------- *)

(* (mode, a, b, len, status, off, ln); status 0 = ok, 1 = out of range, 3 = other error *)
Definition res_case := (N * N * N * N * N * N * N)%type.

Definition res_model_ok (c : res_case) : bool :=
  let '(mode, a, b, len, st, off, ln) := c in
  match resolve mode a b len with
  | RsOk o l => ((st =? 0) && (o =? off) && (l =? ln))%N%bool
  | RsOOR => (st =? 1)%N
  | RsBad => (st =? 3)%N
  end.

Definition res_ref_ok (c : res_case) : bool :=
  let '(mode, a, b, len, st, off, ln) := c in
  match range_spec mode a b len with
  | SpOk o l => ((st =? 0) && (o =? off) && (l =? ln) && (o + l <=? len))%N%bool
  | SpUnsat => (st =? 1)%N
  | SpBadMode => (st =? 3)%N
  end.

Fixpoint mism_from {A} (i : nat) (f : A -> bool) (cs : list A) : list nat :=
  match cs with
  | [] => []
  | c :: r => if f c then mism_from (S i) f r else i :: mism_from (S i) f r
  end.

Definition res_model_mismatches := mism_from 0 res_model_ok.
Definition res_ref_mismatches := mism_from 0 res_ref_ok.

(* ---- part B: stream cases ------------------------------------------------------ *)

(* one stored object ... *)
Record str_target := {
  c_fmt : N;            (* 0 plain, 1 combined, 2 zplain, 3 zcombined *)
  c_sigk : N; c_attrk : N; c_plen : N; c_seed : N; c_hlen : N; c_pf : bool;
  c_pre : list N; c_post : list N;
  c_zlen : N;           (* length of the compressed binary *)
  c_chunk : N;          (* first chunk handed out by the zstd stream decoder *)
  c_caps : list N       (* lengths of the head buffers used by the queries *)
}.

(* ... and one range read of it with what the implementation delivered *)
Record str_query := {
  c_api : N;            (* 0 GetRangeStream, 1 ReadPayloadRange, 2 ReadObjectParts *)
  c_capi : nat;         (* index into c_caps: len of the head buffer passed in *)
  c_mode : N; c_a : N; c_b : N;
  c_st : N;             (* 0 ok, 1 out of range, 2 not found, 3 other error, 4 panic *)
  c_n : N;              (* bytes delivered *)
  c_x : Z;              (* where they sit in the payload (raw: 0 = equal to the object), -1 = nowhere *)
  c_raw : bool
}.

Definition str_case := (str_target * list str_query)%type.

Definition payload_of (c : str_target) : bytes := pattern (c_seed c) (N.to_nat (c_plen c)).
Definition object_of (c : str_target) (p : bytes) : bytes :=
  mk_obj (N.to_nat (c_sigk c)) (N.to_nat (c_attrk c)) (c_hlen c) (c_pf c) p.

(* stand-in for zstd on this case: the stored bytes are the magic followed by padding
   of the observed compressed length, and decompress to the object *)
Definition fake_z (zlen : nat) : bytes := zstd_magic ++ repeat 0%N (zlen - 4).
Definition fake_dec (obj : bytes) : bytes -> option bytes := fun _ => Some obj.

Definition file_of (c : str_target) (obj : bytes) : bytes :=
  let stored := if (2 <=? c_fmt c)%N then fake_z (N.to_nat (c_zlen c)) else obj in
  if N.odd (c_fmt c) then combined_file (map N.to_nat (c_pre c)) (map N.to_nat (c_post c)) stored else stored.

(* observed (st, n, x) against the model outcome *)
Definition obs_matches_bytes (c : str_query) (m within : bytes) : bool :=
  (c_st c =? 0)%N && (lenN m =? c_n c)%N &&
  (* x < 0: the harness found the bytes nowhere in the payload; only the length is compared
     then (the reference comparison rejects such a case anyway) *)
  (if (c_x c <? 0)%Z then true
   else bytes_eqb m (firstnN (c_n c) (skipnN (Z.to_N (c_x c)) within))).

Definition obs_matches_sh (c : str_query) (r : shres) (p : bytes) : bool :=
  match r with
  | ShOk rd => obs_matches_bytes c (drain rd) p
  | ShErr EOutOfRange => (c_st c =? 1)%N
  | ShErr ENotFound => (c_st c =? 2)%N
  | ShErr EOther => (c_st c =? 3)%N
  | ShPanic => (c_st c =? 4)%N
  end.

(* The buffered head read and the two scans of the head are the same for all queries of
   a target that pass the same buffer length, so they are evaluated once per (target, cap);
   by definition
     get_range_stream .. = grs_of_head h (head_pl h) (head_sk h) ..   with h = read_object_ ..
     read_object_parts .. = rop_of_head h' (head_pl h') (head_sk h') .. with h' = copy_out cap h *)
Record head_info := { hi_h : ores; hi_pl : plres; hi_sk : seekres; hi_h2 : ores; hi_pl2 : plres; hi_sk2 : seekres }.

Definition head_info_of (t : str_target) (obj file id : bytes) (capN : N) : head_info :=
  let cap := N.to_nat capN in
  let h := read_object_ (fake_dec obj) (N.to_nat (c_chunk t)) cap id file in
  let h2 := copy_out cap h in
  {| hi_h := h; hi_pl := head_pl h; hi_sk := head_sk h; hi_h2 := h2; hi_pl2 := head_pl h2; hi_sk2 := head_sk h2 |}.

Definition no_info := {| hi_h := OErr; hi_pl := PlErr; hi_sk := SErr; hi_h2 := OErr; hi_pl2 := PlErr; hi_sk2 := SErr |}.

Definition query_model_ok (tbl : list head_info) (p obj : bytes) (c : str_query) : bool :=
  let hi := nth (c_capi c) tbl no_info in
  if (c_api c =? 2)%N then
    match rop_of_head (hi_h2 hi) (hi_pl2 hi) (hi_sk2 hi) (c_mode c) (c_a c) (c_b c) with
    | PRange r => negb (c_raw c) && obs_matches_sh c r p
    | PRaw head rd =>
      let m := head ++ drain rd in
      c_raw c && (c_st c =? 0)%N && (lenN m =? c_n c)%N &&
      Bool.eqb (bytes_eqb m obj) (c_x c =? 0)%Z
    end
  else
    negb (c_raw c) && obs_matches_sh c (grs_of_head (hi_h hi) (hi_pl hi) (hi_sk hi) (c_mode c) (c_a c) (c_b c)) p.

Definition str_model_oks (tc : str_case) : list bool :=
  let '(t, qs) := tc in
  let p := payload_of t in
  let obj := object_of t p in
  let file := file_of t obj in
  let id := id_n (length (c_pre t)) in
  let tbl := map (head_info_of t obj file id) (c_caps t) in
  map (query_model_ok tbl p obj) qs.

(* premises of the stream theorem on this case: header length = payload length, the
   payload field tag lies inside the buffered head, payload field present iff needed *)
Definition in_premises (c : str_target) : bool :=
  let np := lenN (mk_np (N.to_nat (c_sigk c)) (N.to_nat (c_attrk c)) (c_hlen c)) in
  (c_hlen c =? c_plen c)%N &&
  (c_pf c || (c_plen c =? 0)%N) &&
  (np <? (if (2 <=? c_fmt c)%N then N.min (c_chunk c) (N.of_nat npfbl) else N.of_nat npfbl))%N.

(* reference: the delivered bytes are exactly the slice the range denotes *)
Definition query_ref_ok (t : str_target) (p : bytes) (objlen : N) (c : str_query) : bool :=
    if c_raw c then ((c_st c =? 0)%N && (c_x c =? 0)%Z && (c_n c =? objlen)%N)
    else
    match range_spec (c_mode c) (c_a c) (c_b c) (c_plen t) with
    | SpOk off ln =>
      (c_st c =? 0)%N && (c_n c =? ln)%N && (0 <=? c_x c)%Z &&
      bytes_eqb (firstnN (c_n c) (skipnN (Z.to_N (c_x c)) p)) (firstnN ln (skipnN off p))
    | SpUnsat => (c_st c =? 1)%N
    | SpBadMode => (c_st c =? 3)%N
    end.

Definition str_ref_oks (tc : str_case) : list bool :=
  let '(t, qs) := tc in
  if negb (in_premises t) then map (fun _ => true) qs
  else
    let p := payload_of t in
    let objlen := lenN (object_of t p) in
    map (query_ref_ok t p objlen) qs.

Fixpoint false_idx (i : nat) (l : list bool) : list nat :=
  match l with [] => [] | b :: r => if b then false_idx (S i) r else i :: false_idx (S i) r end.

(* indices into the flattened query list *)
Definition str_model_mismatches (cs : list str_case) : list nat := false_idx 0 (flat_map str_model_oks cs).
Definition str_ref_mismatches (cs : list str_case) : list nat := false_idx 0 (flat_map str_ref_oks cs).
(* indices of targets outside the theorem's premises (reference not applicable) *)
Definition str_outside_premises (cs : list str_case) : list nat := mism_from 0 (fun tc => in_premises (fst tc)) cs.
