(* Write-cache, shard and engine range reads delegate to a file tree
   (writecache/get.go, shard/range.go getRangeStreamFunc, engine/get.go).
   MODEL FILE: definitions only. *)
From Coq Require Import List.
Import ListNotations.
From NV Require Import FSTree.Range.

(* cache.GetRangeStream: address unknown to the cache => not found, otherwise its FSTree *)
Definition wc_range (has : bool) (tree : shres) : shres :=
  if has then tree else ShErr ENotFound.

(* Shard.getRangeStreamFunc: the write-cache answer is final when it is a success or
   out-of-range; any other failure falls back to the blob storage *)
Definition shard_range (wc : option shres) (blob : shres) : shres :=
  match wc with
  | Some (ShOk r) => ShOk r
  | Some (ShErr EOutOfRange) => ShErr EOutOfRange
  | _ => blob
  end.

(* StorageEngine.get: shards are asked in turn; the first answer that is not
   "not found" wins *)
Fixpoint engine_range (shards : list shres) : shres :=
  match shards with
  | [] => ShErr ENotFound
  | ShErr ENotFound :: r => engine_range r
  | x :: _ => x
  end.
