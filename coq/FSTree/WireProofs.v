(* Facts about the binary-indexed list helpers and the readers of Range.v. PROOF FILE. *)
From Coq Require Import List NArith ZArith Arith Bool Lia.
Import ListNotations.
From NV Require Import FSTree.Wire.

Lemma lenN_acc_spec l acc : lenN_acc l acc = (acc + N.of_nat (length l))%N.
Proof.
  revert acc. induction l as [|x r IH]; intros acc; simpl.
  - lia.
  - rewrite IH. lia.
Qed.

Lemma lenN_spec l : lenN l = N.of_nat (length l).
Proof. unfold lenN. rewrite lenN_acc_spec. lia. Qed.

Lemma firstnN_spec n l : firstnN n l = firstn (N.to_nat n) l.
Proof.
  revert n. induction l as [|x r IH]; intros n; simpl.
  - now rewrite firstn_nil.
  - destruct (N.eqb_spec n 0) as [->|Hn]; simpl; [reflexivity|].
    rewrite IH. replace (N.to_nat n) with (S (N.to_nat (N.pred n))) by lia. reflexivity.
Qed.

Lemma skipnN_spec n l : skipnN n l = skipn (N.to_nat n) l.
Proof.
  revert n. induction l as [|x r IH]; intros n; simpl.
  - now rewrite skipn_nil.
  - destruct (N.eqb_spec n 0) as [->|Hn]; simpl; [reflexivity|].
    rewrite IH. replace (N.to_nat n) with (S (N.to_nat (N.pred n))) by lia. reflexivity.
Qed.

Lemma firstnN_all n l : (lenN l <= n)%N -> firstnN n l = l.
Proof. rewrite lenN_spec, firstnN_spec. intros H. apply firstn_all2. lia. Qed.

Lemma firstnN_app n l1 l2 :
  firstnN n (l1 ++ l2) = firstnN n l1 ++ firstnN (n - lenN l1) l2.
Proof.
  rewrite !firstnN_spec, lenN_spec, firstn_app. f_equal. f_equal. lia.
Qed.

Lemma skipnN_app n l1 l2 :
  skipnN n (l1 ++ l2) = skipnN n l1 ++ skipnN (n - lenN l1) l2.
Proof.
  rewrite !skipnN_spec, lenN_spec, skipn_app. f_equal. f_equal. lia.
Qed.

Lemma skipn_skipn' {A} a b (l : list A) : skipn a (skipn b l) = skipn (a + b) l.
Proof.
  revert l. induction b as [|b IH]; intros l.
  - simpl. now rewrite Nat.add_0_r.
  - destruct l; simpl.
    + now rewrite !skipn_nil.
    + rewrite IH. replace (a + S b) with (S (a + b)) by lia. reflexivity.
Qed.

Lemma skipnN_skipnN a b l : skipnN a (skipnN b l) = skipnN (a + b) l.
Proof.
  rewrite !skipnN_spec, skipn_skipn'. f_equal. lia.
Qed.

Lemma lenN_app l1 l2 : lenN (l1 ++ l2) = (lenN l1 + lenN l2)%N.
Proof. rewrite !lenN_spec, app_length. lia. Qed.

Lemma lenN_skipnN n l : lenN (skipnN n l) = (lenN l - n)%N.
Proof. rewrite !lenN_spec, skipnN_spec, skipn_length. lia. Qed.

Lemma lenN_firstnN n l : lenN (firstnN n l) = N.min n (lenN l).
Proof. rewrite !lenN_spec, firstnN_spec, firstn_length. lia. Qed.

Lemma firstnN_firstnN a b l : firstnN a (firstnN b l) = firstnN (N.min a b) l.
Proof.
  rewrite !firstnN_spec, firstn_firstn. f_equal. lia.
Qed.

Lemma firstnN_skipnN_split n l : firstnN n l ++ skipnN n l = l.
Proof. rewrite firstnN_spec, skipnN_spec. apply firstn_skipn. Qed.

Lemma lenN_nil_iff l : lenN l = 0%N <-> l = [].
Proof. rewrite lenN_spec. destruct l; simpl; split; intros; try congruence; lia. Qed.

(* ---- varint: the minimal encoding parses back, and every proper prefix is "truncated" *)

Local Open Scope N_scope.

Lemma pv_ev k : forall i v acc r, (i + k = 9)%nat -> v < 2 ^ (7 * N.of_nat k + 1) ->
  pv k i (ev k v ++ r) acc = VOk (acc + v * 2 ^ (7 * N.of_nat i)) (i + length (ev k v)).
Proof.
  induction k as [|k IH]; intros i v acc r Hi Hv.
  - assert (i = 9)%nat by lia. subst i.
    change (2 ^ (7 * N.of_nat 0 + 1)) with 2 in Hv.
    cbn [ev app pv length]. rewrite N.mod_small by lia.
    destruct (N.ltb_spec v 128); [|lia]. cbn [Nat.eqb andb].
    destruct (N.leb_spec 2 v); [lia|]. reflexivity.
  - cbn [ev]. destruct (N.ltb_spec v 128) as [Hs|Hs].
    + cbn [app pv length]. destruct (N.ltb_spec v 128); [|lia].
      replace (Nat.eqb i 9) with false by (symmetry; apply Nat.eqb_neq; lia). cbn [andb].
      f_equal. lia.
    + cbn [app pv].
      assert (Hm : v mod 128 < 128) by (apply N.mod_lt; lia).
      destruct (N.ltb_spec (v mod 128 + 128) 128) as [Hc|Hc]; [exfalso; apply N.lt_nge in Hc; apply Hc; apply N.le_add_l|].
      rewrite IH; [| lia |].
      * f_equal; [|cbn [length]; lia].
        replace (v mod 128 + 128 - 128) with (v mod 128) by lia.
        replace (7 * N.of_nat (S i)) with (7 * N.of_nat i + 7) by lia.
        rewrite N.pow_add_r. change (2 ^ 7) with 128.
        rewrite (N.div_mod v 128) at 3 by lia. lia.
      * replace (7 * N.of_nat (S k) + 1) with (7 + (7 * N.of_nat k + 1)) in Hv by lia.
        rewrite N.pow_add_r in Hv. change (2 ^ 7) with 128 in Hv.
        apply N.div_lt_upper_bound; lia.
Qed.

Lemma pv_ev_cut k : forall i v acc j, (j < length (ev k v))%nat ->
  pv k i (firstn j (ev k v)) acc = VErr VTrunc.
Proof.
  induction k as [|k IH]; intros i v acc j Hj.
  - simpl in *. assert (j = 0)%nat by lia. subst j. reflexivity.
  - cbn [ev] in *. destruct (N.ltb_spec v 128) as [Hs|Hs].
    + simpl in Hj. assert (j = 0)%nat by lia. subst j. reflexivity.
    + destruct j as [|j]; [reflexivity|].
      cbn [firstn pv].
      assert (Hm : v mod 128 < 128) by (apply N.mod_lt; lia).
      destruct (N.ltb_spec (v mod 128 + 128) 128) as [Hc|Hc]; [exfalso; apply N.lt_nge in Hc; apply Hc; apply N.le_add_l|].
      apply IH. simpl in Hj. lia.
Qed.

Lemma ev_length k v : (1 <= length (ev k v) <= S k)%nat.
Proof.
  revert v. induction k as [|k IH]; intros v; simpl.
  - lia.
  - destruct (v <? 128); simpl; [lia|]. specialize (IH (v / 128)). lia.
Qed.

Theorem enc_varint_parses v r : v < 2 ^ 64 ->
  parse_varint (enc_varint v ++ r) = VOk v (length (enc_varint v)).
Proof.
  intros Hv. unfold parse_varint, enc_varint. rewrite pv_ev; [|lia|exact Hv].
  f_equal. simpl. lia.
Qed.

Theorem enc_varint_cut v k : (k < length (enc_varint v))%nat ->
  parse_varint (firstn k (enc_varint v)) = VErr VTrunc.
Proof. apply pv_ev_cut. Qed.

Theorem enc_varint_len v : (length (enc_varint v) <= 10)%nat.
Proof. unfold enc_varint. pose proof (ev_length 9 v). lia. Qed.
