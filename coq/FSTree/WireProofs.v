(* Facts about the binary-indexed list helpers and the readers of Range.v. PROOF FILE. *)
From Coq Require Import List NArith ZArith Arith Bool Lia.
Import ListNotations.
From NV Require Import FSTree.Wire.

Lemma lenN_acc_spec l acc : lenN_acc l acc = (acc + N.of_nat (length l))%N.
Proof.
  revert acc. induction l as [|x r IH]; intros acc; simpl.
  - lia.
  - rewrite IH. lia.
Qed.

Lemma lenN_spec l : lenN l = N.of_nat (length l).
Proof. unfold lenN. rewrite lenN_acc_spec. lia. Qed.

Lemma firstnN_spec n l : firstnN n l = firstn (N.to_nat n) l.
Proof.
  revert n. induction l as [|x r IH]; intros n; simpl.
  - now rewrite firstn_nil.
  - destruct (N.eqb_spec n 0) as [->|Hn]; simpl; [reflexivity|].
    rewrite IH. replace (N.to_nat n) with (S (N.to_nat (N.pred n))) by lia. reflexivity.
Qed.

Lemma skipnN_spec n l : skipnN n l = skipn (N.to_nat n) l.
Proof.
  revert n. induction l as [|x r IH]; intros n; simpl.
  - now rewrite skipn_nil.
  - destruct (N.eqb_spec n 0) as [->|Hn]; simpl; [reflexivity|].
    rewrite IH. replace (N.to_nat n) with (S (N.to_nat (N.pred n))) by lia. reflexivity.
Qed.

Lemma firstnN_all n l : (lenN l <= n)%N -> firstnN n l = l.
Proof. rewrite lenN_spec, firstnN_spec. intros H. apply firstn_all2. lia. Qed.

Lemma firstnN_app n l1 l2 :
  firstnN n (l1 ++ l2) = firstnN n l1 ++ firstnN (n - lenN l1) l2.
Proof.
  rewrite !firstnN_spec, lenN_spec, firstn_app. f_equal. f_equal. lia.
Qed.

Lemma skipnN_app n l1 l2 :
  skipnN n (l1 ++ l2) = skipnN n l1 ++ skipnN (n - lenN l1) l2.
Proof.
  rewrite !skipnN_spec, lenN_spec, skipn_app. f_equal. f_equal. lia.
Qed.

Lemma skipn_skipn' {A} a b (l : list A) : skipn a (skipn b l) = skipn (a + b) l.
Proof.
  revert l. induction b as [|b IH]; intros l.
  - simpl. now rewrite Nat.add_0_r.
  - destruct l; simpl.
    + now rewrite !skipn_nil.
    + rewrite IH. replace (a + S b) with (S (a + b)) by lia. reflexivity.
Qed.

Lemma skipnN_skipnN a b l : skipnN a (skipnN b l) = skipnN (a + b) l.
Proof.
  rewrite !skipnN_spec, skipn_skipn'. f_equal. lia.
Qed.

Lemma lenN_app l1 l2 : lenN (l1 ++ l2) = (lenN l1 + lenN l2)%N.
Proof. rewrite !lenN_spec, app_length. lia. Qed.

Lemma lenN_skipnN n l : lenN (skipnN n l) = (lenN l - n)%N.
Proof. rewrite !lenN_spec, skipnN_spec, skipn_length. lia. Qed.

Lemma lenN_firstnN n l : lenN (firstnN n l) = N.min n (lenN l).
Proof. rewrite !lenN_spec, firstnN_spec, firstn_length. lia. Qed.

Lemma firstnN_firstnN a b l : firstnN a (firstnN b l) = firstnN (N.min a b) l.
Proof.
  rewrite !firstnN_spec, firstn_firstn. f_equal. lia.
Qed.

Lemma firstnN_skipnN_split n l : firstnN n l ++ skipnN n l = l.
Proof. rewrite firstnN_spec, skipnN_spec. apply firstn_skipn. Qed.

Lemma lenN_nil_iff l : lenN l = 0%N <-> l = [].
Proof. rewrite lenN_spec. destruct l; simpl; split; intros; try congruence; lia. Qed.
