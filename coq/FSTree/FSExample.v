(* A total naming of the natural numbers that satisfies the hypotheses of the C10/C12
   theorems, and a small concrete history: used for the non-vacuity examples.
   PROOF FILE. *)
From Coq Require Import List NArith ZArith Arith Bool Lia.
Import ListNotations.
From NV Require Import Gen.FSTreeConsts FSTree.Wire FSTree.Range FSTree.Combined FSTree.CombinedProofs FSTree.FS FSTree.FSProofs.

(* name of address a: '.' followed by a times 'A' *)
Definition ex_str (a : nat) : bytes := 46%N :: repeat 65%N a.
Definition ex_parse (n : bytes) : option nat :=
  match n with
  | x :: r => if ((x =? 46)%N && forallb (N.eqb 65) r)%bool then Some (length r) else None
  | [] => None
  end.
Definition ex_oid (a : nat) : bytes := N.of_nat a :: repeat 0%N 31.
Definition ex_nm : naming := {| str := ex_str; parse := ex_parse; oidb := ex_oid |}.

Lemma ex_parse_str a : parse ex_nm (str ex_nm a) = Some a.
Proof.
  simpl. assert (H : forallb (N.eqb 65) (repeat 65%N a) = true) by (induction a; simpl; auto).
  rewrite H, repeat_length. reflexivity.
Qed.

Lemma hash_not_allA r : existsb (N.eqb hash_char) r = true -> forallb (N.eqb 65) r = false.
Proof.
  induction r as [|y r IH]; cbn [existsb forallb]; [discriminate|]. intros H. apply orb_true_iff in H. destruct H as [H|H].
  - apply N.eqb_eq in H. subst y. reflexivity.
  - rewrite (IH H). apply andb_false_r.
Qed.

Lemma ex_parse_hash n : has_hash n = true -> parse ex_nm n = None.
Proof.
  destruct n as [|x r]; [reflexivity|]. unfold has_hash. cbn [existsb parse ex_nm ex_parse]. intros H.
  destruct (x =? 46)%N eqn:E; [|reflexivity]. apply N.eqb_eq in E. subst x. cbn [andb].
  apply orb_true_iff in H. destruct H as [H|H]; [vm_compute in H; discriminate|].
  rewrite (hash_not_allA r H). reflexivity.
Qed.

Lemma ex_oid_len a : length (oidb ex_nm a) = oid_size.
Proof. reflexivity. Qed.

Lemma ex_oid_inj a b : oidb ex_nm a = oidb ex_nm b -> a = b.
Proof. simpl. unfold ex_oid. intros H. inversion H. lia. Qed.

(* objects: a tag byte of a protobuf LEN field, the address, some payload; never compressed *)
Definition ex_content (a : nat) : bytes := [10; N.of_nat a; 1; 2; 3]%N.
Definition ex_dec (_ : bytes) : option bytes := None.
Definition ex_cfg (gen : bool) : cfg :=
  {| depth := 2; threshold := 6; climit := 3; slimit := 1000; generic := gen; chunk := 100 |}.

Lemma ex_good a : igood ex_dec ex_content (a, ex_content a).
Proof.
  split; [|reflexivity]. split; [discriminate|]. split; [reflexivity|]. simpl. lia.
Qed.

Definition ex_ops : list op :=
  [OPut 0 (ex_content 0); OPut 1 (ex_content 1); OSync; OBatch [(2, ex_content 2); (3, ex_content 3); (4, [])];
   OPut 5 (ex_content 5 ++ [9; 9]%N); ODelete 2; OGetBytes 3; OGetBytes 2; OStream 1; OReadObj 0 (2 * npfbl); OExists 5; OIterate; ODelete 7].

Definition ex_content' (a : nat) : bytes := if Nat.eqb a 5 then ex_content 5 ++ [9; 9]%N else ex_content a.

Ltac ex_g := (split; [split; [discriminate|split; [reflexivity|simpl; lia]]|reflexivity]).

Lemma ex_ops_ok : Forall (op_ok ex_dec ex_content') ex_ops.
Proof.
  unfold ex_ops. repeat apply Forall_cons; try apply Forall_nil; cbn [op_ok]; try exact I; try lia;
    try (right; ex_g).
  repeat apply Forall_cons; try apply Forall_nil; try (right; ex_g). left. reflexivity.
Qed.
