(* Proofs about the combined file format and its readers (Combined.v):
   a reader asked for an object ID finds the first record with that ID in a file made
   of records followed by ANYTHING (later records, a torn record); files that do not begin
   with the record prefix are read as plain files; the buffered head reader (readHeader's
   sliding window, preprocessStreamHead, readObject) delivers the same bytes.
   PROOF FILE (C10, C12). *)
From Coq Require Import List NArith ZArith Arith Bool Lia.
Import ListNotations.
From NV Require Import Gen.FSTreeConsts FSTree.Wire FSTree.WireProofs FSTree.Range FSTree.Combined.

(* ---- small list facts ------------------------------------------------------------ *)

Lemma bytes_eqb_eq a : forall b, bytes_eqb a b = true <-> a = b.
Proof.
  induction a as [|x a IH]; destruct b as [|y b]; simpl; split; intros H; try discriminate; auto.
  - apply andb_true_iff in H. destruct H as [H1 H2]. apply N.eqb_eq in H1. apply IH in H2. congruence.
  - inversion H; subst. rewrite N.eqb_refl. simpl. apply IH. reflexivity.
Qed.

Lemma bytes_eqb_refl a : bytes_eqb a a = true.
Proof. apply bytes_eqb_eq. reflexivity. Qed.

Lemma firstn_exact {A} (a b : list A) n : length a = n -> firstn n (a ++ b) = a.
Proof. intros <-. rewrite firstn_app, Nat.sub_diag, firstn_all. simpl. apply app_nil_r. Qed.

Lemma skipn_exact {A} (a b : list A) n : length a = n -> skipn n (a ++ b) = b.
Proof. intros <-. rewrite skipn_app, Nat.sub_diag, skipn_all. reflexivity. Qed.

Lemma firstn_app_le {A} (a b : list A) n : n <= length a -> firstn n (a ++ b) = firstn n a.
Proof.
  intros H. rewrite firstn_app. replace (n - length a) with 0 by lia. simpl. apply app_nil_r.
Qed.

Lemma skipn_app_le {A} (a b : list A) n : n <= length a -> skipn n (a ++ b) = skipn n a ++ b.
Proof. intros H. rewrite skipn_app. replace (n - length a) with 0 by lia. reflexivity. Qed.

(* a ++ b starts with p and a is long enough: a starts with p *)
Lemma app_prefix_split {A} (a b p y : list A) :
  a ++ b = p ++ y -> length p <= length a -> exists z, a = p ++ z /\ y = z ++ b.
Proof.
  intros E L. exists (skipn (length p) a). split.
  - rewrite <- (firstn_skipn (length p) a) at 1. f_equal.
    rewrite <- (firstn_app_le a b) by assumption. rewrite E. apply firstn_exact. reflexivity.
  - rewrite <- (skipn_app_le a b) by assumption. rewrite E. symmetry. apply skipn_exact. reflexivity.
Qed.

Lemma firstn_split_add {A} (s : list A) m l : m <= l -> firstn m s ++ firstn (l - m) (skipn m s) = firstn l s.
Proof.
  revert s l. induction m as [|m IH]; intros s l H; simpl.
  - rewrite Nat.sub_0_r. reflexivity.
  - destruct l as [|l]; [lia|]. destruct s as [|x s]; simpl; [apply firstn_nil|].
    f_equal. apply IH. lia.
Qed.

(* ---- constants (re-checked when the generated constants change) ---------------------- *)

Lemma cdo_val : combined_data_off = 38. Proof. reflexivity. Qed.
Lemma npfbl_ge : combined_data_off <= npfbl. Proof. apply Nat.leb_le. vm_compute. reflexivity. Qed.
Lemma npfbl_ge4 : 4 <= npfbl. Proof. apply Nat.leb_le. vm_compute. reflexivity. Qed.
Lemma layout_ok : combined_id_off = 2 /\ combined_len_off = 2 + oid_size /\ combined_data_off = combined_len_off + 4 /\ oid_size = 32.
Proof. repeat split. Qed.

(* ---- records ----------------------------------------------------------------------------- *)

Definition two32 : nat := N.to_nat 4294967296.

Definition wf_rec (r : bytes * bytes) : Prop := length (fst r) = oid_size /\ (N.of_nat (length (snd r)) < 4294967296)%N.

Definition records (rs : list (bytes * bytes)) : bytes := flat_map (fun r => record (fst r) (snd r)) rs.

Definition find_rec (id : bytes) (rs : list (bytes * bytes)) : option (bytes * bytes) :=
  find (fun r => bytes_eqb (fst r) id) rs.

Lemma be32_roundtrip n : (N.of_nat n < 4294967296)%N -> be32_dec (be32 n) = n.
Proof.
  intros H. unfold be32, be32_dec. set (v := N.of_nat n) in *.
  assert (E1 : (v / 65536 = v / 256 / 256)%N) by (rewrite N.div_div by lia; reflexivity).
  assert (E2 : (v / 16777216 = v / 256 / 256 / 256)%N) by (rewrite !N.div_div by lia; reflexivity).
  rewrite E1, E2.
  pose proof (N.div_mod v 256 ltac:(lia)) as D0.
  pose proof (N.div_mod (v / 256) 256 ltac:(lia)) as D1.
  pose proof (N.div_mod (v / 256 / 256) 256 ltac:(lia)) as D2.
  assert (B3 : (v / 256 / 256 / 256 < 256)%N).
  { rewrite !N.div_div by lia. apply N.div_lt_upper_bound; lia. }
  rewrite (N.mod_small _ _ B3).
  pose proof (N.mod_upper_bound v 256 ltac:(lia)).
  pose proof (N.mod_upper_bound (v / 256) 256 ltac:(lia)).
  pose proof (N.mod_upper_bound (v / 256 / 256) 256 ltac:(lia)).
  unfold v in *. lia.
Qed.

Definition rprefix (id : bytes) (L : nat) : bytes := [combined_prefix; 0%N] ++ id ++ be32 L.

Lemma record_eq id d : record id d = rprefix id (length d) ++ d.
Proof. unfold record, rprefix. rewrite <- !app_assoc. reflexivity. Qed.

Lemma rprefix_length id L : length id = oid_size -> length (rprefix id L) = combined_data_off.
Proof. intros H. unfold rprefix, be32. rewrite !app_length, H. reflexivity. Qed.

Lemma record_length id d : length id = oid_size -> length (record id d) = combined_data_off + length d.
Proof. intros H. rewrite record_eq, app_length, rprefix_length by assumption. reflexivity. Qed.

(* parseCombinedPrefix on anything that begins with a record prefix *)
Lemma parse_rprefix id L rest : length id = oid_size -> (N.of_nat L < 4294967296)%N ->
  parse_combined_prefix (rprefix id L ++ rest) = Some (id, L).
Proof.
  intros Hid Hd. unfold parse_combined_prefix.
  assert (LL : (length (rprefix id L ++ rest) <? combined_data_off) = false).
  { apply Nat.ltb_ge. rewrite app_length, rprefix_length by assumption. lia. }
  rewrite LL. unfold rprefix. simpl app.
  cbv iota beta. rewrite N.eqb_refl. simpl andb.
  cbv [combined_id_off combined_len_off combined_data_off].
  set (X := (id ++ be32 L) ++ rest).
  change (skipn 2 (combined_prefix :: 0%N :: X)) with X.
  change (skipn 34 (combined_prefix :: 0%N :: X)) with (skipn 32 X).
  change (34 - 2) with 32. change (38 - 34) with 4. unfold X.
  f_equal. f_equal.
  - rewrite <- app_assoc. apply firstn_exact. rewrite Hid. reflexivity.
  - rewrite <- app_assoc. rewrite skipn_exact by (rewrite Hid; reflexivity).
    unfold be32. simpl firstn. apply be32_roundtrip. assumption.
Qed.

Lemma records_length_ge rs : Forall wf_rec rs -> length rs <= length (records rs).
Proof.
  induction 1 as [|r rs [W _] _ IH]; [simpl; lia|].
  change (records (r :: rs)) with (record (fst r) (snd r) ++ records rs).
  rewrite app_length, record_length by assumption. simpl length. cbv [combined_data_off]. lia.
Qed.

(* ---- extractCombinedObject ---------------------------------------------------------------- *)

(* the scan finds the first record with the asked ID whatever follows the records *)
Lemma extract_loop_found dec id whole : forall rs fuel tail comb r,
  Forall wf_rec rs -> find_rec id rs = Some r -> snd r <> [] -> length rs <= fuel ->
  extract_loop fuel dec id (records rs ++ tail) whole comb = of_dec (decompress dec (snd r)).
Proof.
  induction rs as [|[id0 d0] rs IH]; intros fuel tail comb r W F NE LE; [discriminate|].
  inversion W as [|? ? W0 W']; subst. destruct W0 as [Hid Hd]. simpl in Hid, Hd.
  destruct fuel as [|fuel]; [simpl in LE; lia|].
  change (records ((id0, d0) :: rs)) with (record id0 d0 ++ records rs). rewrite record_eq, <- !app_assoc.
  cbn [extract_loop].
  pose proof (rprefix_length id0 (length d0) Hid) as Lpre.
  rewrite (firstn_exact _ _ _ Lpre), (skipn_exact _ _ _ Lpre).
  rewrite Lpre, Nat.ltb_irrefl.
  pose proof (parse_rprefix id0 (length d0) [] Hid Hd) as P. rewrite app_nil_r in P. rewrite P.
  unfold find_rec in F. simpl in F.
  destruct (bytes_eqb id0 id) eqn:E.
  - inversion F; subst r. simpl in NE |- *.
    destruct (Nat.eqb (length d0) 0) eqn:Z. { apply Nat.eqb_eq in Z. destruct d0; [congruence|discriminate]. }
    rewrite app_length.
    replace (length d0 + length (records rs ++ tail) <? length d0) with false by (symmetry; apply Nat.ltb_ge; lia).
    rewrite firstn_exact by reflexivity. reflexivity.
  - rewrite skipn_exact by reflexivity. apply IH; auto. simpl in LE. lia.
Qed.

(* guard: the stored bytes do not begin with the combined record prefix 0x7f 0x00 *)
Definition no_prefix (d : bytes) : bool :=
  match d with
  | b0 :: b1 :: _ => negb ((b0 =? combined_prefix)%N && (b1 =? 0)%N)
  | _ => true
  end.

Lemma no_prefix_parse d k : no_prefix d = true -> parse_combined_prefix (firstn k d) = None.
Proof.
  intros G. unfold parse_combined_prefix.
  destruct (length (firstn k d) <? combined_data_off); [reflexivity|].
  destruct d as [|b0 [|b1 d]]; destruct k as [|[|k]]; simpl; try reflexivity.
  simpl in G. apply negb_true_iff in G. rewrite G. reflexivity.
Qed.

(* where the guard comes from: a NeoFS object binary begins with the tag of one of its four
   LEN fields (0x0a, 0x12, 0x1a, 0x22), a zstd frame with 0x28; 0x7f is neither *)
Lemma no_prefix_first_byte b rest : b <> combined_prefix -> no_prefix (b :: rest) = true.
Proof.
  intros H. destruct rest as [|b1 r]; simpl; [reflexivity|].
  apply N.eqb_neq in H. rewrite H. reflexivity.
Qed.

Lemma extract_plain dec id d : no_prefix d = true ->
  extract_combined_object dec id d = of_dec (decompress dec d).
Proof.
  intros G. unfold extract_combined_object. cbn [extract_loop].
  destruct (length (firstn combined_data_off d) <? combined_data_off) eqn:L.
  - apply Nat.ltb_lt in L. rewrite firstn_length in L.
    rewrite firstn_all2 by lia. reflexivity.
  - rewrite (no_prefix_parse d combined_data_off G). reflexivity.
Qed.

Lemma extract_records dec id rs tail r :
  Forall wf_rec rs -> find_rec id rs = Some r -> snd r <> [] ->
  extract_combined_object dec id (records rs ++ tail) = of_dec (decompress dec (snd r)).
Proof.
  intros W F NE. unfold extract_combined_object. apply extract_loop_found; auto.
  rewrite app_length. pose proof (records_length_ge rs W). lia.
Qed.

(* ---- readHeader: the buffered head and the stream after it ---------------------------------- *)

(* what the head reader hands on for stored bytes D: the first npfbl bytes and a stream
   that delivers exactly the rest of D (not what follows D in the file) *)
Definition head_split (D initial : bytes) (stream : rdr) : Prop :=
  initial = firstn npfbl D /\ drain stream = skipn npfbl D.

Lemma firstn_min_len {A} (d : list A) n : firstn (Nat.min (length d) n) d = firstn n d.
Proof.
  destruct (Nat.le_ge_cases n (length d)) as [H|H].
  - rewrite Nat.min_r by assumption. reflexivity.
  - rewrite Nat.min_l by assumption. rewrite firstn_all, firstn_all2 by assumption. reflexivity.
Qed.

Lemma skipn_min_len {A} (d : list A) n : skipn (Nat.min (length d) n) d = skipn n d.
Proof.
  destruct (Nat.le_ge_cases n (length d)) as [H|H].
  - rewrite Nat.min_r by assumption. reflexivity.
  - rewrite Nat.min_l by assumption. rewrite skipn_all, skipn_all2 by assumption. reflexivity.
Qed.

Lemma drain_lim_file fr (l m : nat) : drain (RLim (RFile fr) (Z.of_nat l - Z.of_nat m)) = firstn (l - m) fr.
Proof. simpl. rewrite firstnN_spec. f_equal. lia. Qed.

(* the end of readHeader's loop: the asked record starts at [offset] in the window *)
Definition finish (cap : nat) (w fr : bytes) (offset l : nat) : hres :=
  let size := Nat.min (offset + l) (offset + npfbl) in
  if cap <? size then HPanic
  else
    let need := size - length w in
    if length fr <? need then HErr
    else
      let w' := w ++ firstn need fr in
      let fr' := skipn need fr in
      HOk (firstn (size - offset) (skipn offset w'))
          (RLim (RFile fr') (Z.of_nat l - Z.of_nat (size - offset))).

Lemma finish_ok cap w fr offset dat X :
  offset + npfbl <= cap -> offset <= length w -> length w < offset + npfbl ->
  skipn offset (w ++ fr) = dat ++ X ->
  exists initial stream, finish cap w fr offset (length dat) = HOk initial stream /\ head_split dat initial stream.
Proof.
  intros Hcap Ho Hn Hs. unfold finish.
  set (l := length dat). set (m := Nat.min l npfbl).
  assert (Esz : Nat.min (offset + l) (offset + npfbl) = offset + m) by (unfold m; lia).
  rewrite Esz.
  replace (cap <? offset + m) with false by (symmetry; apply Nat.ltb_ge; unfold m; lia).
  assert (Ltot : offset + l <= length w + length fr).
  { assert (H : length (skipn offset (w ++ fr)) = length (dat ++ X)) by congruence.
    rewrite skipn_length, !app_length in H. fold l in H. lia. }
  set (need := offset + m - length w).
  replace (length fr <? need) with false by (symmetry; apply Nat.ltb_ge; unfold need, m; lia).
  replace (offset + m - offset) with m by lia.
  eexists _, _. split; [reflexivity|].
  set (w' := w ++ firstn need fr). set (fr' := skipn need fr).
  assert (Ew : w' ++ fr' = w ++ fr) by (unfold w', fr'; rewrite <- app_assoc, firstn_skipn; reflexivity).
  assert (Lw' : length w' = length w + need) by (unfold w'; rewrite app_length, firstn_length; unfold need, m; lia).
  assert (Es : skipn offset w' ++ fr' = dat ++ X) by (rewrite <- skipn_app_le by lia; rewrite Ew; exact Hs).
  assert (E1 : firstn m (skipn offset w') = firstn m dat).
  { rewrite <- (firstn_app_le _ fr') by (rewrite skipn_length; unfold need, m in *; lia).
    rewrite Es. apply firstn_app_le. unfold m, l; lia. }
  unfold head_split. split.
  - rewrite E1. unfold m, l. apply firstn_min_len.
  - rewrite drain_lim_file. rewrite <- (skipn_min_len dat npfbl). fold l. fold m.
    destruct (Nat.eq_dec need 0) as [N0|N0].
    + assert (M : m = l) by (unfold need, m in *; lia). rewrite M, Nat.sub_diag. simpl.
      unfold l. rewrite skipn_all. reflexivity.
    + assert (Lsk : length (skipn offset w') = m) by (rewrite skipn_length; unfold need, m in *; lia).
      assert (Efr : fr' = skipn m (dat ++ X)) by (rewrite <- Es; symmetry; apply skipn_exact; exact Lsk).
      rewrite Efr. rewrite skipn_app_le by (unfold m, l; lia).
      apply firstn_exact. rewrite skipn_length. reflexivity.
Qed.

Lemma scan_match cap id fuel w fr offset oid dat X :
  2 * npfbl <= cap -> offset <= length w -> length w < offset + npfbl ->
  skipn offset (w ++ fr) = dat ++ X -> bytes_eqb oid id = true -> dat <> [] ->
  exists initial stream, scan_loop (S fuel) cap id w fr offset oid (length dat) = HOk initial stream /\
                         head_split dat initial stream.
Proof.
  intros Hcap Ho Hn Hs E NE. cbn [scan_loop]. rewrite E.
  destruct (Nat.eqb (length dat) 0) eqn:Z. { apply Nat.eqb_eq in Z. destruct dat; [congruence|discriminate]. }
  destruct (cap <? offset + npfbl) eqn:Sh.
  - cbv iota beta.
    match goal with |- exists i s, ?T = _ /\ _ => change T with (finish cap (skipn offset w) fr 0 (length dat)) end.
    apply (finish_ok cap (skipn offset w) fr 0 dat X).
    + lia.
    + lia.
    + rewrite skipn_length. lia.
    + simpl. rewrite <- skipn_app_le by assumption. exact Hs.
  - cbv iota beta. apply Nat.ltb_ge in Sh.
    match goal with |- exists i s, ?T = _ /\ _ => change T with (finish cap w fr offset (length dat)) end.
    apply (finish_ok cap w fr offset dat X); assumption.
Qed.

Lemma scan_step cap id fuel w fr offset oid dat id' d' Y :
  2 * npfbl <= cap -> offset <= length w -> length w < offset + npfbl ->
  skipn offset (w ++ fr) = dat ++ record id' d' ++ Y -> wf_rec (id', d') -> bytes_eqb oid id = false ->
  exists w2 fr2 off2,
    scan_loop (S fuel) cap id w fr offset oid (length dat) = scan_loop fuel cap id w2 fr2 off2 id' (length d') /\
    off2 <= length w2 /\ length w2 < off2 + npfbl /\ skipn off2 (w2 ++ fr2) = d' ++ Y.
Proof.
  intros Hcap Ho Hn Hs [Hid Hd] E. simpl in Hid, Hd. cbn [scan_loop]. rewrite E.
  pose proof npfbl_ge as G. pose proof cdo_val as CV. pose proof (rprefix_length id' (length d') Hid) as Lp.
  set (l := length dat). set (o2 := offset + l). set (n := length w).
  assert (S2 : skipn o2 (w ++ fr) = rprefix id' (length d') ++ d' ++ Y).
  { unfold o2. rewrite Nat.add_comm, <- skipn_skipn', Hs. rewrite skipn_exact by reflexivity.
    rewrite record_eq, <- app_assoc. reflexivity. }
  destruct (n <? o2 + combined_data_off) eqn:C.
  - apply Nat.ltb_lt in C.
    set (fr1 := if n <? o2 then skipn (o2 - n) fr else fr). set (w1 := skipn (Nat.min o2 n) w).
    assert (E1 : w1 ++ fr1 = skipn o2 (w ++ fr)).
    { rewrite skipn_app. unfold w1, fr1. fold n. destruct (n <? o2) eqn:D.
      - apply Nat.ltb_lt in D. rewrite Nat.min_r by lia. unfold n. rewrite skipn_all. rewrite (skipn_all2 (n:=o2) w) by (fold n; lia). reflexivity.
      - apply Nat.ltb_ge in D. rewrite Nat.min_l by lia. replace (o2 - n) with 0 by lia. reflexivity. }
    assert (Lw1 : length w1 < combined_data_off). { unfold w1; rewrite skipn_length; fold n. lia. }
    replace (cap <? length w1 + npfbl) with false by (symmetry; apply Nat.ltb_ge; lia).
    assert (Ltot : combined_data_off <= length w1 + length fr1).
    { assert (H : length (w1 ++ fr1) = length (rprefix id' (length d') ++ d' ++ Y)) by congruence.
      rewrite !app_length, Lp in H. lia. }
    destruct (firstn npfbl fr1) as [|c0 ch] eqn:Ch.
    { exfalso. assert (H : length (firstn npfbl fr1) = 0) by (rewrite Ch; reflexivity).
      rewrite firstn_length in H. lia. }
    rewrite <- Ch.
    set (w2 := w1 ++ firstn npfbl fr1). set (fr2 := skipn npfbl fr1).
    assert (E2 : w2 ++ fr2 = rprefix id' (length d') ++ d' ++ Y).
    { unfold w2, fr2. rewrite <- app_assoc, firstn_skipn, E1. exact S2. }
    assert (Lw2 : combined_data_off <= length w2 /\ length w2 < combined_data_off + npfbl).
    { unfold w2. rewrite app_length, firstn_length. lia. }
    replace (length w2 <? combined_data_off) with false by (symmetry; apply Nat.ltb_ge; lia).
    destruct (app_prefix_split w2 fr2 _ _ E2) as [z [Ez Ey]]; [lia|].
    assert (P : parse_combined_prefix w2 = Some (id', length d')) by (rewrite Ez; apply parse_rprefix; assumption).
    rewrite P. exists w2, fr2, combined_data_off. split; [reflexivity|].
    split; [lia|]. split; [lia|]. rewrite E2. apply skipn_exact. exact Lp.
  - apply Nat.ltb_ge in C.
    assert (E3 : skipn o2 w ++ fr = rprefix id' (length d') ++ d' ++ Y) by (rewrite <- skipn_app_le by (fold n; lia); exact S2).
    destruct (app_prefix_split (skipn o2 w) fr _ _ E3) as [z [Ez _]]; [rewrite skipn_length; fold n; lia|].
    assert (P : parse_combined_prefix (skipn o2 w) = Some (id', length d')) by (rewrite Ez; apply parse_rprefix; assumption).
    rewrite P. exists w, fr, (o2 + combined_data_off). split; [reflexivity|].
    split; [fold n; lia|]. split; [fold n; lia|].
    rewrite Nat.add_comm, <- skipn_skipn', S2. apply skipn_exact. exact Lp.
Qed.

Lemma scan_loop_found cap id : 2 * npfbl <= cap ->
  forall rs fuel w fr offset oid dat tail r,
  Forall wf_rec rs -> offset <= length w -> length w < offset + npfbl ->
  skipn offset (w ++ fr) = dat ++ records rs ++ tail ->
  find_rec id ((oid, dat) :: rs) = Some r -> snd r <> [] -> length rs < fuel ->
  exists initial stream, scan_loop fuel cap id w fr offset oid (length dat) = HOk initial stream /\
                         head_split (snd r) initial stream.
Proof.
  intros Hcap. induction rs as [|[id' d'] rs IH]; intros fuel w fr offset oid dat tail r W Ho Hn Hs F NE LF;
    (destruct fuel as [|fuel]; [simpl in LF; lia|]); unfold find_rec in F; cbn [find fst] in F;
    destruct (bytes_eqb oid id) eqn:E.
  - inversion F; subst r. eapply scan_match; eauto.
  - discriminate.
  - inversion F; subst r. eapply scan_match; eauto.
  - inversion W as [|? ? W0 W']; subst.
    change (records ((id', d') :: rs)) with (record id' d' ++ records rs) in Hs. rewrite <- app_assoc in Hs.
    destruct (scan_step cap id fuel w fr offset oid dat id' d' (records rs ++ tail) Hcap Ho Hn Hs W0 E)
      as (w2 & fr2 & off2 & Eq & A & B & C).
    rewrite Eq. eapply IH; eauto. simpl in LF. lia.
Qed.

Lemma read_header_combined cap id rs tail r :
  2 * npfbl <= cap -> Forall wf_rec rs -> find_rec id rs = Some r -> snd r <> [] ->
  exists i st, read_header cap id (records rs ++ tail) = HOk i st /\ head_split (snd r) i st.
Proof.
  intros Hcap W F NE. destruct rs as [|[id0 d0] rs]; [discriminate|].
  inversion W as [|? ? [Hid Hd] W']; subst. simpl in Hid, Hd.
  pose proof npfbl_ge as G. pose proof cdo_val as CV. pose proof (rprefix_length id0 (length d0) Hid) as Lp.
  set (file := records ((id0, d0) :: rs) ++ tail).
  assert (Ef : file = rprefix id0 (length d0) ++ d0 ++ records rs ++ tail).
  { unfold file. change (records ((id0, d0) :: rs)) with (record id0 d0 ++ records rs).
    rewrite record_eq, <- !app_assoc. reflexivity. }
  unfold read_header. set (w := firstn npfbl file). set (fr := skipn npfbl file).
  assert (Ewf : w ++ fr = file) by apply firstn_skipn.
  assert (Lf : combined_data_off <= length file) by (rewrite Ef, app_length, Lp; lia).
  assert (Lw : combined_data_off <= length w /\ length w <= npfbl) by (unfold w; rewrite firstn_length; lia).
  replace (length w <? combined_data_off) with false by (symmetry; apply Nat.ltb_ge; lia).
  assert (E2 : w ++ fr = rprefix id0 (length d0) ++ d0 ++ records rs ++ tail) by congruence.
  destruct (app_prefix_split w fr _ _ E2) as [z [Ez _]]; [lia|].
  assert (P : parse_combined_prefix w = Some (id0, length d0)) by (rewrite Ez; apply parse_rprefix; assumption).
  rewrite P. apply (scan_loop_found cap id Hcap rs _ w fr combined_data_off id0 d0 tail r); auto; try lia.
  - rewrite E2. apply skipn_exact. exact Lp.
  - pose proof (records_length_ge rs W'). rewrite Ef, !app_length. lia.
Qed.

Lemma read_header_plain cap id d : no_prefix d = true ->
  exists i st, read_header cap id d = HOk i st /\ head_split d i st.
Proof.
  intros G. unfold read_header.
  destruct (length (firstn npfbl d) <? combined_data_off).
  - eexists _, _. split; [reflexivity|]. split; reflexivity.
  - rewrite (no_prefix_parse d npfbl G). eexists _, _. split; [reflexivity|]. split; reflexivity.
Qed.

(* ---- preprocessStreamHead, _readObject, readObject -------------------------------------------- *)

Definition delivered (i : bytes) (st : option rdr) : bytes :=
  i ++ match st with Some r => drain r | None => [] end.

Lemma preprocess_ok dec chunk D X i st : decompress dec D = Some X -> head_split D i st ->
  exists i' st', preprocess dec chunk i st = OOk i' st' /\ delivered i' st' = X.
Proof.
  intros HD [Hi Hs]. unfold preprocess, delivered.
  destruct (length i <? npfbl) eqn:L.
  - apply Nat.ltb_lt in L. assert (ED : i = D). { subst i. rewrite firstn_length in L. apply firstn_all2. lia. }
    rewrite ED, HD. eexists _, _. split; [reflexivity|]. apply app_nil_r.
  - apply Nat.ltb_ge in L. pose proof npfbl_ge4 as G4.
    assert (LD : npfbl <= length D) by (subst i; rewrite firstn_length in L; lia).
    assert (IC : is_compressed i = is_compressed D).
    { unfold is_compressed. subst i. rewrite firstn_length, firstn_firstn.
      rewrite (Nat.min_l 4 npfbl) by lia.
      replace (4 <=? Nat.min npfbl (length D)) with true by (symmetry; apply Nat.leb_le; lia).
      replace (4 <=? length D) with true by (symmetry; apply Nat.leb_le; lia). reflexivity. }
    rewrite IC. unfold decompress in HD.
    assert (EA : i ++ drain st = D) by (rewrite Hi, Hs; apply firstn_skipn).
    destruct (is_compressed D).
    + rewrite EA, HD. eexists _, _. split; [reflexivity|]. simpl. apply firstn_skipn.
    + inversion HD; subst X. eexists _, _. split; [reflexivity|]. exact EA.
Qed.

Lemma read_object__ok dec chunk cap id file D X :
  2 * npfbl <= cap ->
  (exists i st, read_header cap id file = HOk i st /\ head_split D i st) ->
  decompress dec D = Some X ->
  exists i st, read_object_ dec chunk cap id file = OOk i st /\ delivered i st = X.
Proof.
  intros Hcap (i & st & E & HS) HD. unfold read_object_.
  replace (cap <? 2 * npfbl) with false by (symmetry; apply Nat.ltb_ge; lia).
  rewrite E. eapply preprocess_ok; eauto.
Qed.

Lemma read_object_ok dec chunk cap id file D X :
  2 * npfbl <= cap ->
  (exists i st, read_header cap id file = HOk i st /\ head_split D i st) ->
  decompress dec D = Some X ->
  exists i st, read_object dec chunk cap id file = OOk i st /\ delivered i st = X.
Proof.
  intros Hcap H HD. destruct (read_object__ok dec chunk cap id file D X Hcap H HD) as (i & st & E & T).
  unfold read_object. rewrite E. unfold copy_out, delivered in *.
  destruct (cap <? length i).
  - eexists _, _. split; [reflexivity|]. simpl. rewrite app_assoc, firstn_skipn.
    destruct st; simpl in *; exact T.
  - eexists _, _. split; [reflexivity|]. destruct st; simpl in *; exact T.
Qed.
