(* Proofs about the combined file format and its readers (Combined.v):
   a reader asked for an object ID finds the first record with that ID in a file made
   of records followed by ANYTHING (later records, a torn record); files that do not begin
   with the record prefix are read as plain files; the buffered head reader (readHeader's
   sliding window, preprocessStreamHead, readObject) delivers the same bytes.
   PROOF FILE (C10, C12). *)
From Coq Require Import List NArith ZArith Arith Bool Lia.
Import ListNotations.
From NV Require Import Gen.FSTreeConsts FSTree.Wire FSTree.WireProofs FSTree.Range FSTree.Combined.

(* ---- small list facts ------------------------------------------------------------ *)

Lemma bytes_eqb_eq a : forall b, bytes_eqb a b = true <-> a = b.
Proof.
  induction a as [|x a IH]; destruct b as [|y b]; simpl; split; intros H; try discriminate; auto.
  - apply andb_true_iff in H. destruct H as [H1 H2]. apply N.eqb_eq in H1. apply IH in H2. congruence.
  - inversion H; subst. rewrite N.eqb_refl. simpl. apply IH. reflexivity.
Qed.

Lemma bytes_eqb_refl a : bytes_eqb a a = true.
Proof. apply bytes_eqb_eq. reflexivity. Qed.

Lemma firstn_exact {A} (a b : list A) n : length a = n -> firstn n (a ++ b) = a.
Proof. intros <-. rewrite firstn_app, Nat.sub_diag, firstn_all. simpl. apply app_nil_r. Qed.

Lemma skipn_exact {A} (a b : list A) n : length a = n -> skipn n (a ++ b) = b.
Proof. intros <-. rewrite skipn_app, Nat.sub_diag, skipn_all. reflexivity. Qed.

Lemma firstn_app_le {A} (a b : list A) n : n <= length a -> firstn n (a ++ b) = firstn n a.
Proof.
  intros H. rewrite firstn_app. replace (n - length a) with 0 by lia. simpl. apply app_nil_r.
Qed.

Lemma skipn_app_le {A} (a b : list A) n : n <= length a -> skipn n (a ++ b) = skipn n a ++ b.
Proof. intros H. rewrite skipn_app. replace (n - length a) with 0 by lia. reflexivity. Qed.

(* a ++ b starts with p and a is long enough: a starts with p *)
Lemma app_prefix_split {A} (a b p y : list A) :
  a ++ b = p ++ y -> length p <= length a -> exists z, a = p ++ z /\ y = z ++ b.
Proof.
  intros E L. exists (skipn (length p) a). split.
  - rewrite <- (firstn_skipn (length p) a) at 1. f_equal.
    rewrite <- (firstn_app_le a b) by assumption. rewrite E. apply firstn_exact. reflexivity.
  - rewrite <- (skipn_app_le a b) by assumption. rewrite E. symmetry. apply skipn_exact. reflexivity.
Qed.

Lemma firstn_split_add {A} (s : list A) m l : m <= l -> firstn m s ++ firstn (l - m) (skipn m s) = firstn l s.
Proof.
  intros H. replace l with (m + (l - m)) at 2 by lia. rewrite firstn_add. reflexivity.
Qed.

(* ---- constants (re-checked when the generated constants change) ---------------------- *)

Lemma cdo_val : combined_data_off = 38. Proof. reflexivity. Qed.
Lemma npfbl_ge : combined_data_off <= npfbl. Proof. apply Nat.leb_le. vm_compute. reflexivity. Qed.
Lemma npfbl_ge4 : 4 <= npfbl. Proof. apply Nat.leb_le. vm_compute. reflexivity. Qed.
Lemma layout_ok : combined_id_off = 2 /\ combined_len_off = 2 + oid_size /\ combined_data_off = combined_len_off + 4 /\ oid_size = 32.
Proof. repeat split. Qed.

(* ---- records ----------------------------------------------------------------------------- *)

Definition two32 : nat := N.to_nat 4294967296.

Definition wf_rec (r : bytes * bytes) : Prop := length (fst r) = oid_size /\ (N.of_nat (length (snd r)) < 4294967296)%N.

Definition records (rs : list (bytes * bytes)) : bytes := flat_map (fun r => record (fst r) (snd r)) rs.

Definition find_rec (id : bytes) (rs : list (bytes * bytes)) : option (bytes * bytes) :=
  find (fun r => bytes_eqb (fst r) id) rs.

Lemma be32_roundtrip n : (N.of_nat n < 4294967296)%N -> be32_dec (be32 n) = n.
Proof.
  intros H. unfold be32, be32_dec. set (v := N.of_nat n) in *.
  assert (E1 : (v / 65536 = v / 256 / 256)%N) by (rewrite N.div_div by lia; reflexivity).
  assert (E2 : (v / 16777216 = v / 256 / 256 / 256)%N) by (rewrite !N.div_div by lia; reflexivity).
  rewrite E1, E2.
  pose proof (N.div_mod v 256 ltac:(lia)) as D0.
  pose proof (N.div_mod (v / 256) 256 ltac:(lia)) as D1.
  pose proof (N.div_mod (v / 256 / 256) 256 ltac:(lia)) as D2.
  assert (B3 : (v / 256 / 256 / 256 < 256)%N).
  { rewrite !N.div_div by lia. apply N.div_lt_upper_bound; lia. }
  rewrite (N.mod_small _ _ B3).
  pose proof (N.mod_upper_bound v 256 ltac:(lia)).
  pose proof (N.mod_upper_bound (v / 256) 256 ltac:(lia)).
  pose proof (N.mod_upper_bound (v / 256 / 256) 256 ltac:(lia)).
  unfold v in *. lia.
Qed.

Lemma record_length id d : length (record id d) = 2 + length id + 4 + length d.
Proof. unfold record, be32. rewrite !app_length. simpl. lia. Qed.

(* parseCombinedPrefix on anything that begins with a record prefix *)
Lemma parse_record id d rest : wf_rec (id, d) ->
  parse_combined_prefix (record id d ++ rest) = Some (id, length d).
Proof.
  intros [Hid Hd]. simpl in Hid, Hd. unfold parse_combined_prefix.
  assert (L : (length (record id d ++ rest) <? combined_data_off) = false).
  { apply Nat.ltb_ge. rewrite app_length, record_length, Hid. cbv [combined_data_off oid_size]. lia. }
  rewrite L. unfold record. simpl app.
  rewrite N.eqb_refl. simpl andb.
  cbv [combined_id_off combined_len_off combined_data_off]. simpl skipn.
  f_equal. f_equal.
  - rewrite <- app_assoc. apply firstn_exact. rewrite Hid. reflexivity.
  - change 32 with oid_size. rewrite <- Hid. rewrite <- !app_assoc. rewrite skipn_exact by reflexivity.
    unfold be32. simpl firstn. apply be32_roundtrip. assumption.
Qed.

Lemma records_length_ge rs : length rs <= length (records rs).
Proof.
  induction rs as [|r rs IH]; simpl; [lia|]. rewrite app_length, record_length. lia.
Qed.

(* ---- extractCombinedObject ---------------------------------------------------------------- *)

(* the scan finds the first record with the asked ID whatever follows the records *)
Lemma extract_loop_found dec id whole : forall rs fuel tail comb r,
  Forall wf_rec rs -> find_rec id rs = Some r -> snd r <> [] -> length rs <= fuel ->
  extract_loop fuel dec id (records rs ++ tail) whole comb = of_dec (decompress dec (snd r)).
Proof.
  induction rs as [|[id0 d0] rs IH]; intros fuel tail comb r W F NE LE; [discriminate|].
  inversion W as [|? ? W0 W']; subst.
  destruct fuel as [|fuel]; [simpl in LE; lia|].
  simpl records. rewrite <- app_assoc.
  cbn [extract_loop].
  assert (Lr : length (record id0 d0) = combined_data_off + length d0).
  { rewrite record_length. destruct W0 as [Hid _]. simpl in Hid. rewrite Hid. reflexivity. }
  assert (Split : record id0 d0 = firstn combined_data_off (record id0 d0) ++ d0).
  { unfold record at 1. rewrite !app_assoc. f_equal. unfold record. rewrite !app_assoc.
    rewrite firstn_exact; [reflexivity|]. rewrite !app_length. destruct W0 as [Hid _]. simpl in Hid. rewrite Hid. reflexivity. }
  set (pre := firstn combined_data_off (record id0 d0)) in *.
  assert (Lpre : length pre = combined_data_off).
  { unfold pre. rewrite firstn_length. lia. }
  rewrite Split, <- !app_assoc.
  rewrite (firstn_exact pre _ _ Lpre), (skipn_exact pre _ _ Lpre).
  rewrite Lpre, Nat.ltb_irrefl.
  assert (P : parse_combined_prefix pre = Some (id0, length d0)).
  { pose proof (parse_record id0 d0 [] W0) as P. rewrite app_nil_r in P.
    unfold parse_combined_prefix in *. rewrite Lr in P. rewrite Lpre.
    replace (combined_data_off + length d0 <? combined_data_off) with (combined_data_off <? combined_data_off) in P
      by (symmetry; rewrite !Nat.ltb_irrefl || (rewrite Nat.ltb_irrefl; apply Nat.ltb_ge; lia)).
    rewrite Nat.ltb_irrefl in *.
    rewrite Split in P. unfold pre in *.
    destruct (firstn combined_data_off (record id0 d0)) as [|b0 [|b1 q]] eqn:Eq; try (simpl in Lpre; discriminate).
    simpl app in P. destruct ((b0 =? combined_prefix)%N && (b1 =? 0)%N)%bool; [|discriminate].
    inversion P as [[P1 P2]]. f_equal. f_equal.
    - rewrite P1. rewrite <- P1 at 2.
      change (b0 :: b1 :: q ++ d0) with ((b0 :: b1 :: q) ++ d0).
      rewrite skipn_app_le by (simpl in *; cbv [combined_id_off]; lia).
      rewrite firstn_app_le; [reflexivity|].
      rewrite skipn_length. simpl in Lpre |- *. cbv [combined_len_off combined_id_off combined_data_off] in *. lia.
    - change (b0 :: b1 :: q ++ d0) with ((b0 :: b1 :: q) ++ d0) in P2.
      rewrite skipn_app_le in P2 by (simpl in *; cbv [combined_len_off combined_data_off] in *; lia).
      rewrite firstn_app_le in P2; [exact P2|].
      rewrite skipn_length. simpl in Lpre |- *. cbv [combined_len_off combined_id_off combined_data_off] in *. lia. }
  rewrite P.
  unfold find_rec in F. simpl in F.
  destruct (bytes_eqb id0 id) eqn:E.
  - inversion F; subst r. simpl in NE |- *.
    destruct (Nat.eqb (length d0) 0) eqn:Z. { apply Nat.eqb_eq in Z. destruct d0; [congruence|discriminate]. }
    rewrite app_length.
    replace (length d0 + length (records rs ++ tail) <? length d0) with false by (symmetry; apply Nat.ltb_ge; lia).
    rewrite firstn_exact by reflexivity. reflexivity.
  - rewrite skipn_exact by reflexivity. apply IH; auto. simpl in LE. lia.
Qed.

(* guard: the stored bytes do not begin with the combined record prefix 0x7f 0x00 *)
Definition no_prefix (d : bytes) : bool :=
  match d with
  | b0 :: b1 :: _ => negb ((b0 =? combined_prefix)%N && (b1 =? 0)%N)
  | _ => true
  end.

Lemma no_prefix_parse d k : no_prefix d = true -> parse_combined_prefix (firstn k d) = None.
Proof.
  intros G. unfold parse_combined_prefix.
  destruct (length (firstn k d) <? combined_data_off); [reflexivity|].
  destruct d as [|b0 [|b1 d]]; destruct k as [|[|k]]; simpl; try reflexivity.
  simpl in G. apply negb_true_iff in G. rewrite G. reflexivity.
Qed.

(* where the guard comes from: a NeoFS object binary begins with the tag of one of its four
   LEN fields (0x0a, 0x12, 0x1a, 0x22), a zstd frame with 0x28; 0x7f is neither *)
Lemma no_prefix_first_byte b rest : b <> combined_prefix -> no_prefix (b :: rest) = true.
Proof.
  intros H. destruct rest as [|b1 r]; simpl; [reflexivity|].
  apply N.eqb_neq in H. rewrite H. reflexivity.
Qed.

Lemma extract_plain dec id d : no_prefix d = true ->
  extract_combined_object dec id d = of_dec (decompress dec d).
Proof.
  intros G. unfold extract_combined_object. cbn [extract_loop].
  destruct (length (firstn combined_data_off d) <? combined_data_off) eqn:L.
  - apply Nat.ltb_lt in L. rewrite firstn_length in L.
    rewrite firstn_all2 by lia. reflexivity.
  - rewrite (no_prefix_parse d combined_data_off G). reflexivity.
Qed.

Lemma extract_records dec id rs tail r :
  Forall wf_rec rs -> find_rec id rs = Some r -> snd r <> [] ->
  extract_combined_object dec id (records rs ++ tail) = of_dec (decompress dec (snd r)).
Proof.
  intros W F NE. unfold extract_combined_object. apply extract_loop_found; auto.
  rewrite app_length. pose proof (records_length_ge rs). lia.
Qed.
