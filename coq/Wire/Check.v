(* C41 — executable comparison used by the correspondence check.  CHECK FILE (no proofs).

   A case describes its input relative to a base buffer (so that the byte literal of a base
   is elaborated once): optional splice (pos, del, ins), optional cut (prefix length);
   then the observables recorded from the Go implementation:
     obs  (54 numbers)  the fast paths, see [model_vec]
     ref  (36 numbers)  real object.Unmarshal located through the harness scanner + the
                        direct implementation-vs-Unmarshal equality flags computed in Go
     bad                nested values the real nested decoders reject: (num, code, vfrom, vto),
                        code 1 = proto.Unmarshal fails, 2 = FromProtoMessage fails
     fs   (7 numbers or empty)  FSTree.Head/GetStream and FSTree.ReadObjectParts on a real tree *)
From Coq Require Import List NArith Arith Bool.
From Coq Require String Ascii.
Import ListNotations.
From NV Require Import Gen.WireConsts FSTree.Wire Wire.Fast Wire.Ref.

Local Open Scope N_scope.

(* number lists are passed as decimal strings ("1,0,34"): elaborating a number literal costs
   milliseconds, a string literal microseconds *)
Fixpoint pn (s : String.string) (cur : N) (have : bool) : list N :=
  match s with
  | String.EmptyString => if have then [cur] else []
  | String.String c r =>
    let d := Ascii.N_of_ascii c in
    if (48 <=? d) && (d <=? 57) then pn r (cur * 10 + (d - 48)) true
    else if have then cur :: pn r 0 false else pn r 0 false
  end.
Definition nums (s : String.string) : list N := pn s 0 false.

Definition case := (option (N * N * bytes) * option N * list N * list N * list (N * N * N * N) * list N)%type.

Definition splice (x : bytes) (pos del : nat) (ins : bytes) : bytes :=
  firstn pos x ++ ins ++ skipn (pos + del) x.

Definition input_of (base : bytes) (c : case) : bytes :=
  let '(sp, cut, _, _, _, _) := c in
  let x := match sp with
           | None => base
           | Some (p, d, ins) => splice base (N.to_nat p) (N.to_nat d) ins
           end in
  match cut with None => x | Some k => firstn (N.to_nat k) x end.

(* ---- oracles for the nested decoders ---------------------------------------- *)

Definition range (x : bytes) (a b : N) : bytes := firstn (N.to_nat (b - a)) (skipn (N.to_nat a) x).

Definition bad_has (x : bytes) (bad : list (N * N * N * N)) (num code : N) (v : bytes) : bool :=
  existsb (fun e => let '(n, c, a, b) := e in (n =? num) && (c =? code) && bytes_eqb (range x a b) v) bad.

Definition pvalid_of x bad : N -> bytes -> bool := fun num v => negb (bad_has x bad num 1 v).
Definition sv1 x bad (num : N) (o : option bytes) : bool :=
  match o with None => true | Some v => negb (bad_has x bad num 2 v || bad_has x bad num 1 v) end.
Definition svalid_of x bad : option bytes -> option bytes -> option bytes -> bool :=
  fun i s h => sv1 x bad fld_object_id i && sv1 x bad fld_object_sig s && sv1 x bad fld_object_hdr h.

(* ---- model vector ------------------------------------------------------------ *)

Definition nn (n : nat) : option N := Some (N.of_nat n).
Definition zs (k : nat) : list (option N) := repeat (Some 0) k.
Definition fbv (f : fb) : list (option N) := let '(a, b, c) := f in [nn a; nn b; nn c].

Definition b3v (r : res (fb * fb * fb)) : list (option N) :=
  match r with
  | Ok (a, b, c) => Some 0 :: fbv a ++ fbv b ++ fbv c
  | Err => Some 1 :: zs 9
  | Panic => Some 2 :: zs 9
  end.

Definition u64v (r : res N) : list (option N) :=
  match r with Ok v => [Some 0; Some v] | Err => [Some 1; Some 0] | Panic => [Some 2; Some 0] end.

Definition b01 (b : bool) : option N := Some (if b then 1 else 0).
Definition is_some {A} (o : option A) : bool := match o with Some _ => true | None => false end.

(* payload length / type of the header value as the real nested decoder sees them; unknown
   (None = not compared) when the value is outside the reference subset *)
Definition hdr_u64 (h : option bytes) (num : N) (m : N) : option N :=
  match h with
  | None => Some 0
  | Some hb =>
    match parse_msg hb with
    | None => None
    | Some fs => Some (val_of (last_of fs num ty_varint) mod m)
    end
  end.

Definition ehp_vec (x : bytes) (bad : list (N * N * N * N)) : list (option N) :=
  match extract_header_and_payload (pvalid_of x bad) (svalid_of x bad) x with
  | Ok (i, s, h, p) =>
    [Some 0; nn (length x - length p); b01 (is_some i); b01 (is_some s);
     hdr_u64 h fld_hdr_paylen two64; hdr_u64 h fld_hdr_type two32]
  | Err => Some 1 :: zs 5
  | Panic => Some 2 :: zs 5
  end.

Definition hdr_funs (h : bytes) : list (option N) :=
  u64v (get_payload_length_header h) ++ u64v (get_type_header h) ++ b3v (get_parent_bounds_hdr h).

Definition model_vec (x : bytes) (bad : list (N * N * N * N)) : list (option N) :=
  let npb := get_non_payload_bounds x in
  ehp_vec x bad ++ b3v npb ++ b3v (get_parent_bounds x)
  ++ match npb with
     | Ok (_, _, hf) =>
       match slice x (fb_vfrom hf) (fb_to hf) with
       | Ok hb => hdr_funs hb
       | _ => [Some 2; Some 0; Some 2; Some 0] ++ (Some 2 :: zs 9)
       end
     | _ => [Some 3; Some 0; Some 3; Some 0] ++ (Some 3 :: zs 9)
     end
  ++ hdr_funs x.

Fixpoint veq (m : list (option N)) (o : list N) : bool :=
  match m, o with
  | [], [] => true
  | None :: m', _ :: o' => veq m' o'
  | Some a :: m', b :: o' => (a =? b) && veq m' o'
  | _, _ => false
  end.

(* ---- reference vector ---------------------------------------------------------- *)

Definition ofb (o : option frec) : list N :=
  match o with
  | None => [0; 0; 0]
  | Some f => [N.of_nat (f_from f); N.of_nat (f_vfrom f); N.of_nat (f_to f)]
  end.
Definition fbn (f : fb) : list N := let '(a, b, c) := f in [N.of_nat a; N.of_nat b; N.of_nat c].

Definition ref_vec (v : oview) : list N :=
  ofb (ov_id v) ++ ofb (ov_sig v) ++ ofb (ov_hdr v) ++ ofb (ov_pay v)
  ++ [hv_paylen (ov_h v); hv_typ (ov_h v)]
  ++ fbn (hv_split (ov_h v)) ++ fbn (hv_par (ov_h v)) ++ fbn (hv_parsig (ov_h v)) ++ fbn (hv_parhdr (ov_h v)).

Fixpoint leqb (a b : list N) : bool :=
  match a, b with
  | [], [] => true
  | x :: a', y :: b' => (x =? y) && leqb a' b'
  | _, _ => false
  end.

(* for a well-formed input: the real decoder accepts it unless a nested value is rejected;
   when it accepts, all implementation-vs-Unmarshal flags hold and the located fields are
   those of the Coq reference *)
Definition ref_ok (x : bytes) (c : case) : bool :=
  let '(_, _, _, rf, bad, _) := c in
  match rf with
  | st :: rest =>
    if negb ((st =? 0) || (st =? 1)) then false            (* Unmarshal panicked / APIs disagree *)
    else if negb (wf_object x) then true
    else if st =? 1 then negb (match bad with [] => true | _ => false end)
    else
      match full_decode x with
      | None => false
      | Some v =>
        (* the located fields are those of the Coq reference; the Go-side equality flags
           (computed by re-marshalling) are due only when the real encoder reproduces the input
           from the decoded object (last number of ref); such an input must also be canonical
           for the Coq encoder model *)
        leqb (firstn 26 (skipn 8 rest)) (ref_vec v)
        && (if nth 34 rest 0 =? 1
            then canonical_object x && leqb (firstn 8 rest) (repeat 1 8)
            else true)
      end
  | [] => false
  end.

Definition wf_of (base : bytes) (c : case) : bool :=
  let x := input_of base c in wf_object x && canonical_object x.

(* ---- head.go callers on the real tree --------------------------------------------- *)

Definition fs_vec (x : bytes) (c : case) : list (option N) :=
  let '(_, _, _, rf, bad, _) := c in
  let initial := firstn head_buf_len x in
  let unm := match rf with st :: _ => st | [] => 9 end in
  let good := wf_object x && (nth 35 rf 0 =? 1) && match bad with [] => true | _ => false end in
  let head_st :=
      if (length initial <? head_buf_len)%nat then unm
      else match extract_header_and_payload (pvalid_of x bad) (svalid_of x bad) initial with
           | Ok _ => 0 | Err => 1 | Panic => 2 end in
  let head_eq := if good then Some 1 else None in
  [Some head_st; head_eq]
  ++ match read_object_parts_hdr initial false with
     | Ok None => [Some 0; nn (length initial); Some 0; Some 0; Some 0]
     | Ok (Some (a, b, _)) => [Some 0; nn (length initial); Some 1; nn a; nn b]
     | Err => Some 1 :: zs 4
     | Panic => Some 2 :: zs 4
     end.

Definition fs_ok (x : bytes) (c : case) : bool :=
  let '(_, _, _, _, _, fsv) := c in
  match fsv with [] => true | _ => veq (fs_vec x c) fsv end.

Definition model_ok (x : bytes) (c : case) : bool :=
  let '(_, _, obs, _, bad, _) := c in veq (model_vec x bad) obs.

(* ---- truncation: right-hand side of the truncation theorems on the real outputs ------ *)

Definition nthN (l : list N) (i : nat) : N := nth i l 0.
Definition triple (l : list N) (i : nat) : list N := [nthN l i; nthN l (i + 1); nthN l (i + 2)].

(* [full] = obs of the untruncated valid object, [c] = a cut of it *)
Definition trunc_ok (full : list N) (c : case) : bool :=
  let '(_, cut, obs, _, _, _) := c in
  match cut with
  | None => true
  | Some k =>
    (* GetNonPayloadFieldBounds: error, or each field missing-or-as-in-full; whole answer as
       in full once the header is inside *)
    let npb :=
        (nthN obs 6 =? 1)
        || ((nthN obs 6 =? 0)
            && forallb (fun i => leqb (triple obs i) [0; 0; 0] || leqb (triple obs i) (triple full i)) [7; 10; 13]%nat
            && (if (nthN full 6 =? 0) && negb (nthN full 15 =? 0) && (nthN full 15 <=? k)
                then leqb (firstn 10 (skipn 6 obs)) (firstn 10 (skipn 6 full)) else true)) in
    (* ExtractHeaderAndPayload: error, or a subset of the fields; same header and the payload
       prefix starting at the same offset once the payload value start is inside *)
    let ehp :=
        (nthN obs 0 =? 1)
        || ((nthN obs 0 =? 0)
            && (nthN obs 2 <=? nthN full 2) && (nthN obs 3 <=? nthN full 3) && (nthN obs 1 <=? k)
            && (if (nthN full 0 =? 0) && (nthN full 1 <=? k)
                then leqb (firstn 6 obs) (firstn 6 full) else true)) in
    npb && ehp
  end.

(* ---- mismatch lists ------------------------------------------------------------------ *)

Fixpoint mism_from (i : nat) (f : case -> bool) (cs : list case) : list nat :=
  match cs with
  | [] => []
  | c :: r => if f c then mism_from (S i) f r else i :: mism_from (S i) f r
  end.

Definition model_mismatches (base : bytes) := mism_from 0 (fun c => model_ok (input_of base c) c).
Definition ref_mismatches (base : bytes) := mism_from 0 (fun c => ref_ok (input_of base c) c).
Definition fs_mismatches (base : bytes) := mism_from 0 (fun c => fs_ok (input_of base c) c).
Definition trunc_mismatches (full : list N) := mism_from 0 (trunc_ok full).
(* indices of the inputs that are NOT well-formed (valid bases must not be listed) *)
Definition not_wf (base : bytes) := mism_from 0 (wf_of base).
