(* C41 — on a structurally valid message the fast-path loops are functions of the decoded
   field list.  PROOF FILE.

   [chain buf off recs]: the records [recs] are exactly what the reference parser finds in
   buf[off:], each one faithfully located ([rec_at]).  The three loops of the fast paths
   (SeekFieldByNumber, the bounds loops, ExtractHeaderAndPayload) are then equal to pure
   functions over [recs] ([seek_spec], [bounds_spec], [ehp_spec]). *)
From Coq Require Import List NArith Arith Bool Lia.
Import ListNotations.
From NV Require Import Gen.WireConsts FSTree.Wire FSTree.WireProofs Wire.Fast Wire.Ref Wire.TotalProofs.

Definition rec_at (buf : bytes) (f : frec) : Prop :=
  parse_tag (skipn (f_from f) buf) = TOk (f_num f) (f_typ f) (f_tagln f) /\
  (f_from f + f_tagln f <= f_vfrom f <= f_to f)%nat /\ (f_to f <= length buf)%nat /\
  skip_field (skipn (f_from f + f_tagln f) buf) (f_typ f) = SkOk (f_to f - (f_from f + f_tagln f)) /\
  (f_typ f = ty_varint ->
     exists m, parse_varint (skipn (f_from f + f_tagln f) buf) = VOk (f_val f) m) /\
  (f_typ f = ty_bytes ->
     parse_len (skipn (f_from f + f_tagln f) buf)
     = LOk (f_to f - f_vfrom f) (f_vfrom f - (f_from f + f_tagln f))).

Inductive chain (buf : bytes) : nat -> list frec -> Prop :=
| ch_nil : chain buf (length buf) []
| ch_cons f r : rec_at buf f -> chain buf (f_to f) r -> chain buf (f_from f) (f :: r).

Lemma skipn_add {A} a b (l : list A) : skipn a (skipn b l) = skipn (b + a) l.
Proof. rewrite skipn_skipn'. f_equal. lia. Qed.

Lemma skipn_nil_len {A} n (l : list A) : (n <= length l)%nat -> skipn n l = [] -> n = length l.
Proof. intros H E. apply (f_equal (@length A)) in E. rewrite skipn_length in E. simpl in E. lia. Qed.

Lemma skip_varint b : skip_field b ty_varint = match parse_varint b with VOk _ n => SkOk n | VErr _ => SkErr end.
Proof. reflexivity. Qed.
Lemma skip_bytes b : skip_field b ty_bytes = match parse_len b with LOk ln n => SkOk (n + ln) | LErr => SkErr end.
Proof. reflexivity. Qed.
Lemma skip_f64 b : skip_field b ty_fixed64 = if (8 <=? lenN b)%N then SkOk 8 else SkErr.
Proof. reflexivity. Qed.
Lemma skip_f32 b : skip_field b ty_fixed32 = if (4 <=? lenN b)%N then SkOk 4 else SkErr.
Proof. reflexivity. Qed.

Lemma parse_chain buf : forall fuel off recs,
  (off <= length buf)%nat -> parse_fields fuel (skipn off buf) off = Some recs -> chain buf off recs.
Proof.
  induction fuel as [|fu IH]; intros off recs Hoff H; [discriminate|].
  cbn [parse_fields] in H.
  destruct (skipn off buf) as [|x0 r0] eqn:Eb.
  { inversion H; subst. rewrite (skipn_nil_len _ _ Hoff Eb). constructor. }
  rewrite <- Eb in H.
  destruct (parse_tag (skipn off buf)) as [num typ n|] eqn:Et; [|discriminate].
  pose proof (parse_tag_bounds _ _ _ _ Et) as (Hn & _). rewrite skipn_len in Hn.
  rewrite skipn_add in H.
  assert (Hgen : forall vlen hdr v,
     (off + n + hdr + vlen <= length buf)%nat ->
     skip_field (skipn (off + n) buf) typ = SkOk (hdr + vlen) ->
     (typ = ty_varint -> exists m, parse_varint (skipn (off + n) buf) = VOk v m) ->
     (typ = ty_bytes -> parse_len (skipn (off + n) buf) = LOk vlen hdr) ->
     match parse_fields fu (skipn (hdr + vlen) (skipn (off + n) buf)) (off + n + hdr + vlen) with
     | Some r => Some (mkF num typ off n (off + n + hdr) (off + n + hdr + vlen) v :: r)
     | None => None
     end = Some recs -> chain buf off recs).
  { intros vlen hdr v Hle Hsk Hv Hl Hc.
    rewrite skipn_add in Hc.
    replace (off + n + (hdr + vlen))%nat with (off + n + hdr + vlen)%nat in Hc by lia.
    remember (parse_fields fu (skipn (off + n + hdr + vlen) buf) (off + n + hdr + vlen)) as pr eqn:Er.
    destruct pr as [r|]; [|discriminate Hc]. symmetry in Er.
    inversion Hc; subst recs. apply IH in Er; [|exact Hle].
    change off with (f_from (mkF num typ off n (off + n + hdr) (off + n + hdr + vlen) v)).
    constructor; [|exact Er].
    unfold rec_at; cbn [f_from f_tagln f_vfrom f_to f_num f_typ f_val].
    split; [exact Et|]. split; [lia|]. split; [lia|].
    split; [rewrite Hsk; f_equal; lia|].
    split; [exact Hv|].
    intros Ht. rewrite (Hl Ht). f_equal; lia. }
  revert H.
  destruct (N.eqb_spec typ ty_varint) as [Ev0|Hv].
  { destruct (parse_varint (skipn (off + n) buf)) as [u m|] eqn:Ev; [|discriminate]. intros H.
    pose proof (parse_varint_bounds _ _ _ Ev) as [Hm _]. rewrite skipn_len in Hm.
    apply (Hgen m 0%nat u); [lia| | | |exact H].
    - rewrite Ev0, skip_varint, Ev. reflexivity.
    - intros _. eauto.
    - rewrite Ev0. discriminate. }
  destruct (N.eqb_spec typ ty_bytes) as [Eb0|Hb].
  { destruct (parse_len (skipn (off + n) buf)) as [ln m|] eqn:El; [|discriminate]. intros H.
    pose proof (parse_len_bounds _ _ _ El) as [_ Hm]. rewrite skipn_len in Hm.
    apply (Hgen ln m 0%N); [lia| | | |exact H].
    - rewrite Eb0, skip_bytes, El. reflexivity.
    - rewrite Eb0. discriminate.
    - intros _. reflexivity. }
  destruct (N.eqb_spec typ ty_fixed64) as [E640|H64].
  { destruct (8 <=? lenN (skipn (off + n) buf))%N eqn:Hc; [|discriminate]. intros H.
    pose proof Hc as Hc'. apply N.leb_le in Hc'. rewrite lenN_spec, skipn_len in Hc'.
    apply (Hgen 8%nat 0%nat 0%N); [lia| | | |exact H].
    - rewrite E640, skip_f64, Hc. reflexivity.
    - rewrite E640. discriminate.
    - rewrite E640. discriminate. }
  destruct (N.eqb_spec typ ty_fixed32) as [E320|H32]; [|discriminate].
  destruct (4 <=? lenN (skipn (off + n) buf))%N eqn:Hc; [|discriminate]. intros H.
  pose proof Hc as Hc'. apply N.leb_le in Hc'. rewrite lenN_spec, skipn_len in Hc'.
  apply (Hgen 4%nat 0%nat 0%N); [lia| | | |exact H].
  - rewrite E320, skip_f32, Hc. reflexivity.
  - rewrite E320. discriminate.
  - rewrite E320. discriminate.
Qed.

Lemma parse_msg_chain b recs : parse_msg b = Some recs -> chain b 0 recs.
Proof. unfold parse_msg. intros H. apply (parse_chain b (S (length b)) 0); [lia|exact H]. Qed.

Lemma rec_at_lt buf f : rec_at buf f -> (f_from f < length buf)%nat /\ (1 <= f_tagln f)%nat /\ (1 <= f_num f)%N.
Proof.
  intros (Ht & _). apply parse_tag_bounds in Ht. rewrite skipn_len in Ht. lia.
Qed.

Lemma chain_length buf : forall recs off, chain buf off recs -> (off + length recs <= length buf)%nat.
Proof.
  induction recs as [|f r IH]; intros off H; inversion H as [|f' r' Hat Hr]; subst; simpl; [lia|].
  pose proof (rec_at_lt _ _ Hat) as (A & B & _). destruct Hat as (_ & C & _).
  apply IH in Hr. lia.
Qed.

Lemma chain_off_le buf recs off : chain buf off recs -> (off <= length buf)%nat.
Proof. intros H. apply chain_length in H. lia. Qed.

Lemma chain_next buf f g r : chain buf (f_to f) (g :: r) -> (f_to f =? length buf)%nat = false.
Proof.
  intros H. inversion H as [|f' r' Hat Hr]; subst. apply rec_at_lt in Hat. apply Nat.eqb_neq. lia.
Qed.

Lemma chain_last buf f : chain buf (f_to f) [] -> (f_to f =? length buf)%nat = true.
Proof. intros H. inversion H. apply Nat.eqb_refl. Qed.

(* ---- SeekFieldByNumber ------------------------------------------------------------------ *)

Fixpoint seek_spec (prev seek : N) (recs : list frec) : res seekr :=
  match recs with
  | [] => Ok SkMissing
  | f :: r =>
    if (f_num f =? seek)%N then Ok (SkFound (f_from f) (f_tagln f) (f_typ f))
    else if (seek <? f_num f)%N then Ok SkMissing
    else if (f_num f <? prev)%N then Err
    else match r with [] => Ok SkMissing | _ => seek_spec (f_num f) seek r end
  end.

Lemma seek_loop_sim buf seek : forall recs fuel off prev,
  chain buf off recs -> recs <> [] -> (length recs <= fuel)%nat ->
  seek_loop_p fuel buf off prev seek = seek_spec prev seek recs.
Proof.
  induction recs as [|f r IH]; intros fuel off prev Hc Hne Hfuel; [congruence|].
  destruct fuel as [|fu]; [simpl in Hfuel; lia|].
  inversion Hc as [|f' r' Hat Hr]; subst.
  pose proof (rec_at_lt _ _ Hat) as (Hlt & Htl & _).
  destruct Hat as (Ht & Hb & Hto & Hsk & _).
  cbn [seek_loop_p seek_spec]. rewrite slice_from_ok by lia. cbn [bind]. rewrite Ht.
  destruct (f_num f =? seek)%N; [reflexivity|].
  destruct (seek <? f_num f)%N; [reflexivity|].
  destruct (f_num f <? prev)%N; [reflexivity|].
  rewrite slice_from_ok by lia. cbn [bind]. rewrite Hsk.
  replace (f_from f + f_tagln f + (f_to f - (f_from f + f_tagln f)))%nat with (f_to f) by lia.
  destruct r as [|g r'].
  - rewrite (chain_last _ _ Hr). reflexivity.
  - rewrite (chain_next _ _ _ _ Hr). apply IH; [exact Hr|discriminate|simpl in *; lia].
Qed.

Lemma seek_field_sim buf seek recs : chain buf 0 recs -> valid_num seek = true ->
  seek_field_p buf seek = seek_spec 0%N seek recs.
Proof.
  intros Hc Hv. unfold seek_field_p. rewrite Hv.
  destruct buf as [|x b'] eqn:Eb.
  { inversion Hc as [|f' r' Hat Hr]; subst; [reflexivity|]. apply rec_at_lt in Hat. simpl in Hat. lia. }
  rewrite <- Eb in *.
  destruct recs as [|f r].
  { inversion Hc. subst buf. simpl in *. discriminate. }
  apply seek_loop_sim; [exact Hc|discriminate|].
  apply chain_length in Hc. lia.
Qed.

(* ---- the bounds loops ------------------------------------------------------------------------ *)

Definition fbr (f : frec) : fb := (f_from f, f_vfrom f, f_to f).

Fixpoint bounds_spec (prev last s1 s2 s3 : N) (acc : fb * fb * fb) (recs : list frec)
  : res (fb * fb * fb) :=
  match recs with
  | [] => Ok acc
  | f :: r =>
    if (last <? f_num f)%N then Ok acc
    else if (f_num f <? prev)%N then Err
    else if (f_num f =? prev)%N then Err
    else if negb (f_typ f =? ty_bytes)%N then Err
    else
      let acc' := put_slot s1 s2 s3 (f_num f) (fbr f) acc in
      if (f_num f =? last)%N then Ok acc'
      else match r with [] => Ok acc' | _ => bounds_spec (f_num f) last s1 s2 s3 acc' r end
  end.

Lemma plfb_sim buf f : rec_at buf f ->
  parse_len_field_bounds_p buf (f_from f) (f_tagln f) (f_typ f)
  = if (f_typ f =? ty_bytes)%N then Ok (fbr f) else Err.
Proof.
  intros (Ht & Hb & Hto & Hsk & _ & Hl).
  unfold parse_len_field_bounds_p. rewrite slice_from_ok by lia. cbn [bind].
  destruct (N.eqb_spec (f_typ f) ty_bytes) as [E|E]; [|reflexivity].
  rewrite (Hl E). unfold fbr. f_equal. f_equal; [f_equal|]; lia.
Qed.

Lemma bounds_loop_sim buf last s1 s2 s3 : forall recs fuel off prev acc,
  chain buf off recs -> recs <> [] -> (length recs <= fuel)%nat ->
  bounds_loop fuel buf off prev last s1 s2 s3 acc = bounds_spec prev last s1 s2 s3 acc recs.
Proof.
  induction recs as [|f r IH]; intros fuel off prev acc Hc Hne Hfuel; [congruence|].
  destruct fuel as [|fu]; [simpl in Hfuel; lia|].
  inversion Hc as [|f' r' Hat Hr]; subst.
  pose proof (rec_at_lt _ _ Hat) as (Hlt & Htl & Hn1).
  pose proof (plfb_sim _ _ Hat) as Hp.
  destruct Hat as (Ht & Hb & Hto & Hsk & _).
  cbn [bounds_loop bounds_spec]. rewrite slice_from_ok by lia. cbn [bind]. rewrite Ht.
  destruct (last <? f_num f)%N eqn:Hl; [reflexivity|].
  destruct (f_num f <? prev)%N; [reflexivity|].
  destruct (f_num f =? prev)%N; [reflexivity|].
  rewrite Hp.
  destruct (f_typ f =? ty_bytes)%N; cbn [negb bind]; [|reflexivity].
  apply N.ltb_ge in Hl.
  replace ((1 <=? f_num f) && (f_num f <=? last))%N%bool with true
    by (symmetry; apply andb_true_intro; split; apply N.leb_le; lia).
  cbn [negb].
  destruct (f_num f =? last)%N; [reflexivity|].
  change (fb_to (fbr f)) with (f_to f).
  destruct r as [|g r'].
  - rewrite (chain_last _ _ Hr). reflexivity.
  - rewrite (chain_next _ _ _ _ Hr). apply IH; [exact Hr|discriminate|simpl in *; lia].
Qed.

(* ---- ExtractHeaderAndPayload ---------------------------------------------------------------- *)

Lemma parse_tag_consume b num typ n : parse_tag b = TOk num typ n -> consume_tag b = TOk num typ n.
Proof.
  unfold parse_tag, consume_tag. destruct (parse_varint b) as [u m|]; [|discriminate].
  destruct ((1 <=? u / 8) && (u / 8 <=? max_valid_number))%N%bool eqn:Hc; [|discriminate].
  intros H. inversion H; subst.
  apply andb_prop in Hc. destruct Hc as [H1 H2]. apply N.leb_le in H2.
  rewrite H1. cbn [andb].
  replace (u / 8 <=? max_int32N)%N with true; [reflexivity|].
  symmetry. apply N.leb_le. unfold max_valid_number in H2. unfold max_int32N. lia.
Qed.

Lemma parse_len_consume b ln m : parse_len b = LOk ln m ->
  consume_bytes b = LOk ln m /\ exists u, parse_varint b = VOk u m.
Proof.
  unfold parse_len, consume_bytes. destruct (parse_varint b) as [u n|]; [|discriminate].
  destruct (max_int <? u)%N; [discriminate|].
  destruct (lenN b - N.of_nat n <? u)%N; [discriminate|].
  intros H. inversion H; subst. split; [reflexivity|eauto].
Qed.

Section ExtractSim.
  Variable pvalid : N -> bytes -> bool.
  Variable svalid : option bytes -> option bytes -> option bytes -> bool.

  Fixpoint ehp_spec (buf : bytes) (recs : list frec) (i s h : option bytes) : res ehp_res :=
    match recs with
    | [] => if svalid i s h then Ok (i, s, h, []) else Err
    | f :: r =>
      if negb (f_typ f =? ty_bytes)%N then Err
      else if (f_num f =? fld_object_payload)%N then
        if svalid i s h then Ok (i, s, h, skipn (f_vfrom f) buf) else Err
      else
        let v := sub buf f in
        if (f_num f =? fld_object_id)%N then
          if pvalid (f_num f) v then ehp_spec buf r (Some v) s h else Err
        else if (f_num f =? fld_object_sig)%N then
          if pvalid (f_num f) v then ehp_spec buf r i (Some v) h else Err
        else if (f_num f =? fld_object_hdr)%N then
          if pvalid (f_num f) v then ehp_spec buf r i s (Some v) else Err
        else Err
    end.

  Lemma ehp_loop_sim buf : forall recs fuel off i s h,
    chain buf off recs -> (length recs < fuel)%nat ->
    ehp_loop pvalid svalid fuel buf off i s h = ehp_spec buf recs i s h.
  Proof.
    induction recs as [|f r IH]; intros fuel off i s h Hc Hfuel.
    - inversion Hc; subst. destruct fuel as [|fu]; [lia|].
      cbn [ehp_loop ehp_spec]. rewrite Nat.ltb_irrefl. cbn [negb].
      destruct (svalid i s h); [|reflexivity].
      rewrite slice_from_ok by lia. cbn [bind]. rewrite skipn_all. reflexivity.
    - destruct fuel as [|fu]; [lia|].
      inversion Hc as [|f' r' Hat Hr]; subst.
      pose proof (rec_at_lt _ _ Hat) as (Hlt & Htl & _).
      destruct Hat as (Ht & Hb & Hto & Hsk & _ & Hl).
      cbn [ehp_loop ehp_spec].
      replace (f_from f <? length buf)%nat with true by (symmetry; apply Nat.ltb_lt; lia).
      cbn [negb]. rewrite slice_from_ok by lia. cbn [bind].
      rewrite (parse_tag_consume _ _ _ _ Ht).
      destruct (N.eqb_spec (f_typ f) ty_bytes) as [E|E]; cbn [negb]; [|reflexivity].
      specialize (Hl E). destruct (parse_len_consume _ _ _ Hl) as (Hcb & u & Hpv).
      destruct (f_num f =? fld_object_payload)%N.
      { rewrite slice_from_ok by lia. cbn [bind]. rewrite Hpv.
        destruct (svalid i s h); [|reflexivity].
        replace (f_from f + f_tagln f + (f_vfrom f - (f_from f + f_tagln f)))%nat with (f_vfrom f) by lia.
        rewrite slice_from_ok by lia. reflexivity. }
      rewrite slice_from_ok by lia. cbn [bind]. rewrite Hcb.
      rewrite skipn_add.
      replace (f_from f + f_tagln f + (f_vfrom f - (f_from f + f_tagln f)))%nat with (f_vfrom f) by lia.
      replace (f_vfrom f + (f_to f - f_vfrom f))%nat with (f_to f) by lia.
      fold (sub buf f).
      assert (Hf : (length r < fu)%nat) by (simpl in Hfuel; lia).
      destruct (f_num f =? fld_object_id)%N.
      { destruct (pvalid _ _); [|reflexivity]. apply IH; assumption. }
      destruct (f_num f =? fld_object_sig)%N.
      { destruct (pvalid _ _); [|reflexivity]. apply IH; assumption. }
      destruct (f_num f =? fld_object_hdr)%N.
      { destruct (pvalid _ _); [|reflexivity]. apply IH; assumption. }
      reflexivity.
  Qed.

  Lemma extract_sim buf recs : buf <> [] -> chain buf 0 recs ->
    extract_header_and_payload pvalid svalid buf = ehp_spec buf recs None None None.
  Proof.
    intros Hne Hc. unfold extract_header_and_payload.
    destruct buf as [|x b'] eqn:Eb; [congruence|]. rewrite <- Eb in *.
    apply ehp_loop_sim; [exact Hc|]. apply chain_length in Hc. lia.
  Qed.
End ExtractSim.
