(* C41 — fast header parsing of internal/object/wire.go and its callers in
   pkg/local_object_storage/blobstor/fstree/head.go, with an explicit Panic outcome.

   MODEL FILE: definitions only, all executable.

   Every Go slice expression buf[a:], buf[:b], buf[a:b] in the fast paths and in the
   iprotobuf helpers they call (SeekFieldByNumber, ParseLENFieldBounds, GetLENFieldBounds,
   GetUint64Field, GetEnumField) is a bounds-checked operation here: out of bounds gives
   [Panic].  buf[:b] is checked against len (Go checks against cap): the model panics at
   least whenever Go does, and also whenever Go would silently read past len.
   The explicit `panic("unreachable ...")` of the two bounds loops is [Panic] too, and so is
   running out of loop fuel (fuel = len+1 iterations; non-termination would show as Panic).
   The protowire / iprotobuf primitives working on an already sliced buffer (ConsumeVarint,
   ParseTag, ParseLEN, SkipField) are taken from FSTree/Wire.v (they guard every index with a
   length test themselves).

   Offsets and lengths are nat, uint64 wire values are N, bytes are N < 256. *)
From Coq Require Import List NArith Arith Bool Lia.
Import ListNotations.
From NV Require Import Gen.WireConsts FSTree.Wire.

Inductive res (A : Type) := Ok (a : A) | Err | Panic.
Arguments Ok {A} a.
Arguments Err {A}.
Arguments Panic {A}.

Definition bind {A B} (r : res A) (f : A -> res B) : res B :=
  match r with Ok a => f a | Err => Err | Panic => Panic end.
Notation "'let*' x ':=' r 'in' k" := (bind r (fun x => k))
  (at level 200, x pattern, r at level 100, k at level 200, right associativity).

(* ---- Go slice expressions ------------------------------------------------ *)

(* b[off:] *)
Definition slice_from (b : bytes) (off : nat) : res bytes :=
  if off <=? length b then Ok (skipn off b) else Panic.

(* b[:to] *)
Definition slice_to (b : bytes) (to : nat) : res bytes :=
  if to <=? length b then Ok (firstn to b) else Panic.

(* b[from:to] *)
Definition slice (b : bytes) (from to : nat) : res bytes :=
  if (from <=? to) && (to <=? length b) then Ok (firstn (to - from) (skipn from b)) else Panic.

(* ---- protowire.ConsumeTag (used by ExtractHeaderAndPayload) ---------------- *)

Definition max_int32N : N := 2147483647.

(* ConsumeTag: varint; DecodeTag gives -1 when u>>3 > MaxInt32; number must be >= 1.
   (iprotobuf.ParseTag = FSTree.Wire.parse_tag additionally wants number <= 2^29-1.) *)
Definition consume_tag (b : bytes) : tres :=
  match parse_varint b with
  | VErr _ => TErr
  | VOk u n =>
    let num := (u / 8)%N in
    if ((1 <=? num) && (num <=? max_int32N))%N%bool then TOk num (u mod 8)%N n else TErr
  end.

(* protowire.ConsumeBytes: varint m, m <= len(b[n:]); value b[n:][:m], consumed n+m *)
Definition consume_bytes (b : bytes) : lres :=
  match parse_varint b with
  | VErr _ => LErr
  | VOk u n => if (lenN b - N.of_nat n <? u)%N then LErr else LOk (N.to_nat u) n
  end.

(* ---- iprotobuf seekers with checked slicing -------------------------------- *)

Definition valid_num (n : N) : bool := ((1 <=? n) && (n <=? max_valid_number))%N.

Inductive seekr := SkFound (off tagln : nat) (typ : N) | SkMissing.

(* loop of SeekFieldByNumber(buf, seek); entered with len(buf) > 0 *)
Fixpoint seek_loop_p (fuel : nat) (buf : bytes) (off : nat) (prev seek : N) : res seekr :=
  match fuel with
  | 0 => Panic
  | S f =>
    let* b := slice_from buf off in                       (* ParseTag(buf[off:]) *)
    match parse_tag b with
    | TErr => Err
    | TOk num typ n =>
      if (num =? seek)%N then Ok (SkFound off n typ)
      else if (seek <? num)%N then Ok SkMissing
      else if (num <? prev)%N then Err
      else
        let off1 := off + n in
        let* b1 := slice_from buf off1 in                 (* SkipField(buf[off:], ...) *)
        match skip_field b1 typ with
        | SkErr => Err
        | SkOk m =>
          let off2 := off1 + m in
          if off2 =? length buf then Ok SkMissing
          else seek_loop_p f buf off2 num seek
        end
    end
  end.

Definition seek_field_p (buf : bytes) (seek : N) : res seekr :=
  if valid_num seek then
    match buf with
    | [] => Ok SkMissing
    | _ => seek_loop_p (S (length buf)) buf 0 0%N seek
    end
  else Err.

(* FieldBounds {From, ValueFrom, To}; the zero value means "missing" (From == To) *)
Definition fb := (nat * nat * nat)%type.
Definition fb0 : fb := (0, 0, 0).
Definition fb_missing (f : fb) : bool := let '(a, _, c) := f in a =? c.
Definition fb_from (f : fb) := let '(a, _, _) := f in a.
Definition fb_vfrom (f : fb) := let '(_, b, _) := f in b.
Definition fb_to (f : fb) := let '(_, _, c) := f in c.

(* ParseLENFieldBounds(buf, off, tagLn, num, typ): the argument buf[off+tagLn:] is evaluated
   before the type check *)
Definition parse_len_field_bounds_p (buf : bytes) (off tagln : nat) (typ : N) : res fb :=
  let* b := slice_from buf (off + tagln) in
  if (typ =? ty_bytes)%N then
    match parse_len b with
    | LErr => Err
    | LOk ln n => Ok (off, off + tagln + n, off + tagln + n + ln)
    end
  else Err.

Definition get_len_field_bounds_p (buf : bytes) (num : N) : res fb :=
  let* s := seek_field_p buf num in
  match s with
  | SkMissing => Ok fb0
  | SkFound off tagln typ => parse_len_field_bounds_p buf off tagln typ
  end.

(* GetUint64Field: ParseUint64Field(buf[off+tagLn:], num, typ) *)
Definition get_uint64_field_p (buf : bytes) (num : N) : res N :=
  let* s := seek_field_p buf num in
  match s with
  | SkMissing => Ok 0%N
  | SkFound off tagln typ =>
    let* b := slice_from buf (off + tagln) in
    if (typ =? ty_varint)%N then
      match parse_varint b with VOk u _ => Ok u | VErr _ => Err end
    else Err
  end.

(* GetEnumField[int32] *)
Definition get_enum_field_p (buf : bytes) (num : N) : res N :=
  let* s := seek_field_p buf num in
  match s with
  | SkMissing => Ok 0%N
  | SkFound off tagln typ =>
    let* b := slice_from buf (off + tagln) in
    if (typ =? ty_varint)%N then
      match parse_varint b with
      | VOk u _ => if (max_int32N <? u)%N then Err else Ok u
      | VErr _ => Err
      end
    else Err
  end.

(* ---- internal/object/wire.go ---------------------------------------------- *)

(* field numbers: regenerated from the compiled code into Gen/WireConsts.v *)
Definition fld_object_id : N := w_obj_id.
Definition fld_object_sig : N := w_obj_sig.
Definition fld_object_hdr : N := w_obj_hdr.
Definition fld_object_payload : N := w_obj_payload.
Definition fld_hdr_paylen : N := w_hdr_paylen.
Definition fld_hdr_type : N := w_hdr_type.
Definition fld_hdr_split : N := w_hdr_split.
Definition fld_split_parent : N := w_split_parent.
Definition fld_split_previous : N := w_split_previous.
Definition fld_split_parsig : N := w_split_parsig.
Definition fld_split_parhdr : N := w_split_parhdr.

(* GetNonPayloadFieldBounds / the loop of getParentNonPayloadFieldBounds share one shape:
   fields 1..last in strictly ascending order, LEN typed, stop after [last] or at a larger
   number or at the end of the buffer.  The three reported slots are numbers (s1, s2, s3);
   getParent... ignores number 2 (previous).  [acc] = (idf, sigf, hdrf). *)
Definition put_slot (s1 s2 s3 num : N) (f : fb) (acc : fb * fb * fb) : fb * fb * fb :=
  let '(a, b, c) := acc in
  if (num =? s1)%N then (f, b, c)
  else if (num =? s2)%N then (a, f, c)
  else if (num =? s3)%N then (a, b, f)
  else acc.

Fixpoint bounds_loop (fuel : nat) (buf : bytes) (off : nat) (prev last s1 s2 s3 : N)
         (acc : fb * fb * fb) : res (fb * fb * fb) :=
  match fuel with
  | 0 => Panic
  | S fu =>
    let* b := slice_from buf off in                       (* ParseTag(buf[off:]) *)
    match parse_tag b with
    | TErr => Err
    | TOk num typ n =>
      if (last <? num)%N then Ok acc
      else if (num <? prev)%N then Err
      else if (num =? prev)%N then Err
      else
        let* f := parse_len_field_bounds_p buf off n typ in
        (* switch num { case 1.. last } default: panic("unreachable") *)
        if negb ((1 <=? num) && (num <=? last))%N then Panic
        else
          let acc' := put_slot s1 s2 s3 num f acc in
          if (num =? last)%N then Ok acc'
          else if fb_to f =? length buf then Ok acc'
          else bounds_loop fu buf (fb_to f) num last s1 s2 s3 acc'
    end
  end.

Definition get_non_payload_bounds (buf : bytes) : res (fb * fb * fb) :=
  match buf with
  | [] => Err
  | _ => bounds_loop (S (length buf)) buf 0 0%N fld_object_hdr
                     fld_object_id fld_object_sig fld_object_hdr (fb0, fb0, fb0)
  end.

(* getParentNonPayloadFieldBounds(buf, hdrFrom, hdrTo) *)
Definition get_parent_inner (buf : bytes) (hdr_from hdr_to : nat) : res (fb * fb * fb) :=
  let* h := slice buf hdr_from hdr_to in                  (* buf[hdrFrom:hdrTo] *)
  let* splitf := get_len_field_bounds_p h fld_hdr_split in
  if fb_missing splitf then Ok (fb0, fb0, fb0)
  else
    let* buf' := slice_to buf (hdr_from + fb_to splitf) in (* buf = buf[:hdrFrom+splitf.To] *)
    let off := hdr_from + fb_vfrom splitf in
    bounds_loop (S (length buf')) buf' off 0%N fld_split_parhdr
                fld_split_parent fld_split_parsig fld_split_parhdr (fb0, fb0, fb0).

Definition get_parent_bounds (buf : bytes) : res (fb * fb * fb) :=
  match buf with
  | [] => Err
  | _ =>
    let* rh := get_len_field_bounds_p buf fld_object_hdr in
    if fb_missing rh then Ok (fb0, fb0, fb0)
    else get_parent_inner buf (fb_vfrom rh) (fb_to rh)
  end.

Definition get_parent_bounds_hdr (buf : bytes) : res (fb * fb * fb) :=
  match buf with
  | [] => Err
  | _ => get_parent_inner buf 0 (length buf)
  end.

Definition get_payload_length_header (buf : bytes) : res N :=
  get_uint64_field_p buf fld_hdr_paylen.

Definition get_type_header (buf : bytes) : res N :=
  get_enum_field_p buf fld_hdr_type.

(* ExtractHeaderAndPayload.  The nested proto.Unmarshal of the three located values and the
   final FromProtoMessage are outside the wire model; they are two oracles:
     [pvalid num v]  proto.Unmarshal(v, <message of field num>) succeeds  (checked at once),
     [svalid i s h]  FromProtoMessage of the assembled message succeeds   (checked at the end).
   Result: last located (id, sig, hdr) values and the payload prefix data[offset:]. *)
Section Extract.
  Variable pvalid : N -> bytes -> bool.
  Variable svalid : option bytes -> option bytes -> option bytes -> bool.

  Definition ehp_res := (option bytes * option bytes * option bytes * bytes)%type.

  Fixpoint ehp_loop (fuel : nat) (data : bytes) (off : nat)
           (i s h : option bytes) : res ehp_res :=
    match fuel with
    | 0 => Panic
    | S fu =>
      let finish (off : nat) : res ehp_res :=
          if svalid i s h then (let* p := slice_from data off in Ok (i, s, h, p)) else Err in
      if negb (off <? length data) then finish off          (* for offset < len(data) *)
      else
        let* b := slice_from data off in                    (* ConsumeTag(data[offset:]) *)
        match consume_tag b with
        | TErr => Err
        | TOk num typ n =>
          let off1 := off + n in
          if negb (typ =? ty_bytes)%N then Err
          else if (num =? fld_object_payload)%N then
            let* b1 := slice_from data off1 in              (* ConsumeVarint(data[offset:]) *)
            match parse_varint b1 with
            | VErr _ => Err
            | VOk _ m => finish (off1 + m)                  (* break *)
            end
          else
            let* b1 := slice_from data off1 in              (* ConsumeBytes(data[offset:]) *)
            match consume_bytes b1 with
            | LErr => Err
            | LOk ln m =>
              let v := firstn ln (skipn m b1) in
              let off2 := off1 + m + ln in
              if (num =? fld_object_id)%N then
                if pvalid num v then ehp_loop fu data off2 (Some v) s h else Err
              else if (num =? fld_object_sig)%N then
                if pvalid num v then ehp_loop fu data off2 i (Some v) h else Err
              else if (num =? fld_object_hdr)%N then
                if pvalid num v then ehp_loop fu data off2 i s (Some v) else Err
              else Err
            end
        end
    end.

  Definition extract_header_and_payload (data : bytes) : res ehp_res :=
    match data with
    | [] => Err
    | _ => ehp_loop (S (length data)) data 0 None None None
    end.

  (* ---- pkg/local_object_storage/blobstor/fstree/head.go -------------------- *)

  (* ReadObjectParts after readObject filled buf[:n] (= [b]): locate the header, hand its
     binary to the interceptor, read the payload length.  Result: None when the header is
     missing and no partial range was requested, else (ValueFrom, To, payload length). *)
  Definition read_object_parts_hdr (b : bytes) (partial : bool) : res (option (nat * nat * N)) :=
    let* hf := get_len_field_bounds_p b fld_object_hdr in
    if fb_missing hf && negb partial then Ok None
    else
      let* hdr_bin := slice b (fb_vfrom hf) (fb_to hf) in   (* buf[:n][hf.ValueFrom:hf.To] *)
      let* pl := get_payload_length_header hdr_bin in
      Ok (Some (fb_vfrom hf, fb_to hf, pl)).

  (* readHeaderAndPayload for an uncompressed single-object file [file]: [initial] is the
     first NonPayloadFieldsBufferLength bytes; shorter files are unmarshalled in full by
     object.Unmarshal (the reference itself, [full]), longer ones go through
     ExtractHeaderAndPayload(initial). *)
  Definition head_buf_len : nat := w_npfbl.

  Definition read_header_and_payload {A} (full : bytes -> res A) (fast : res ehp_res -> res A)
             (file : bytes) : res A :=
    let initial := firstn head_buf_len file in
    if length initial <? head_buf_len then full initial
    else fast (extract_header_and_payload initial).
End Extract.
