(* C41 — agreement of ExtractHeaderAndPayload with full decoding.  PROOF FILE. *)
From Coq Require Import List NArith Arith Bool Lia.
Import ListNotations.
From NV Require Import Gen.WireConsts FSTree.Wire FSTree.WireProofs Wire.Fast Wire.Ref Wire.TotalProofs
     Wire.SimProofs Wire.AgreeProofs Wire.AgreeProofs2.

Definition pk (b : bytes) (k : N) (o : option bytes) (recs : list frec) : option bytes :=
  match last_of recs k ty_bytes with Some f => Some (sub b f) | None => o end.

Lemma pk_cons_ne b k o f r : f_num f <> k -> pk b k o (f :: r) = pk b k o r.
Proof.
  intros Hn. unfold pk. rewrite last_of_cons. destruct (last_of r k ty_bytes); [reflexivity|].
  destruct (N.eqb_spec (f_num f) k); [contradiction|reflexivity].
Qed.

Lemma pk_cons_eq b k o f r : f_num f = k -> f_typ f = ty_bytes -> Forall (fun g => f_num g <> k) r ->
  pk b k o (f :: r) = Some (sub b f) /\ forall v, pk b k (Some v) r = Some v.
Proof.
  intros Hn Ht Hr. unfold pk. rewrite last_of_cons, (last_of_none r k ty_bytes Hr).
  rewrite Hn, Ht, !N.eqb_refl. split; reflexivity.
Qed.

Lemma last_of_some k t : forall recs f, last_of recs k t = Some f -> In f recs /\ f_num f = k /\ f_typ f = t.
Proof.
  induction recs as [|g r IH]; intros f H; [discriminate|].
  rewrite last_of_cons in H. destruct (last_of r k t) as [x|] eqn:E.
  - inversion H; subst. destruct (IH f eq_refl) as (A & B & C). split; [right; exact A|auto].
  - destruct (N.eqb_spec (f_num g) k) as [E1|E1]; [|discriminate].
    destruct (N.eqb_spec (f_typ g) t) as [E2|E2]; [|discriminate].
    inversion H; subst. split; [left; reflexivity|auto].
Qed.

Lemma obj_num_cases f : typed_ok obj_schema f = true ->
  f_typ f = ty_bytes /\
  (f_num f = fld_object_id \/ f_num f = fld_object_sig \/ f_num f = fld_object_hdr \/ f_num f = fld_object_payload).
Proof.
  intros H. destruct (typed_inv _ _ H) as [rep Hs]. unfold obj_schema in Hs.
  destruct (N.eqb_spec (f_num f) w_obj_id); [inversion Hs; auto|].
  destruct (N.eqb_spec (f_num f) w_obj_sig); [inversion Hs; auto|].
  destruct (N.eqb_spec (f_num f) w_obj_hdr); [inversion Hs; auto|].
  destruct (N.eqb_spec (f_num f) w_obj_payload); [inversion Hs; auto 6|]. discriminate.
Qed.

Lemma obj_norep k : norep obj_schema k.
Proof. intros t H. apply obj_schema_any in H. destruct H; discriminate. Qed.

Lemma obj_num_le f : typed_ok obj_schema f = true -> (f_num f <= fld_object_payload)%N.
Proof.
  intros H. destruct (obj_num_cases _ H) as (_ & [E|[E|[E|E]]]); rewrite E;
    unfold fld_object_id, fld_object_sig, fld_object_hdr, fld_object_payload, w_obj_id, w_obj_sig, w_obj_hdr, w_obj_payload; lia.
Qed.

Ltac cne := unfold fld_object_id, fld_object_sig, fld_object_hdr, fld_object_payload,
  w_obj_id, w_obj_sig, w_obj_hdr, w_obj_payload; lia.

Section ExtractAgree.
  Variable pvalid : N -> bytes -> bool.
  Variable svalid : option bytes -> option bytes -> option bytes -> bool.

  Definition ehp_ref (b : bytes) (recs : list frec) (i s h : option bytes) : res ehp_res :=
    let i' := pk b fld_object_id i recs in
    let s' := pk b fld_object_sig s recs in
    let h' := pk b fld_object_hdr h recs in
    if svalid i' s' h'
    then Ok (i', s', h', match last_of recs fld_object_payload ty_bytes with Some f => sub b f | None => [] end)
    else Err.

  Lemma later_ne (r : list frec) n k : Forall (fun m => (n < m)%N) (map f_num r) -> (k <= n)%N ->
    Forall (fun g => f_num g <> k) r.
  Proof.
    intros H Hk. apply (Forall_map_num (fun m => m <> k)). eapply Forall_impl; [|exact H]. cbn. intros a Ha. lia.
  Qed.

  Lemma ehp_spec_gen b : forall recs off prev i s h,
    chain b off recs ->
    forallb (typed_ok obj_schema) recs = true -> order_ok obj_schema prev (map f_num recs) = true ->
    (forall k f, k <> fld_object_payload -> last_of recs k ty_bytes = Some f -> pvalid k (sub b f) = true) ->
    ehp_spec pvalid svalid b recs i s h = ehp_ref b recs i s h.
  Proof.
    induction recs as [|f r IH]; intros off prev i s h Hc Ht Ho Hpv; [reflexivity|].
    inversion Hc as [|f' r' Hat Hr]; subst.
    cbn [forallb] in Ht. apply andb_prop in Ht. destruct Ht as [Htf Htr].
    cbn [map order_ok] in Ho. apply andb_prop in Ho. destruct Ho as [_ Ho2].
    destruct (obj_num_cases _ Htf) as (Hty & Hcases).
    pose proof (order_ok_strict obj_schema _ _ (obj_norep (f_num f)) Ho2) as Hgt.
    assert (Hpv' : forall k g, k <> fld_object_payload -> last_of r k ty_bytes = Some g -> pvalid k (sub b g) = true).
    { intros k g Hk Hl. apply Hpv; [exact Hk|]. rewrite last_of_cons, Hl. reflexivity. }
    assert (Hself : forall k, f_num f = k -> last_of (f :: r) k ty_bytes = Some f).
    { intros k Hk. rewrite last_of_cons, (last_of_none r k ty_bytes); [|apply (later_ne r (f_num f)); [exact Hgt|lia]].
      rewrite Hk, Hty, !N.eqb_refl. reflexivity. }
    cbn [ehp_spec]. rewrite Hty, N.eqb_refl. cbn [negb].
    unfold fld_object_id, fld_object_sig, fld_object_hdr, fld_object_payload,
      w_obj_id, w_obj_sig, w_obj_hdr, w_obj_payload in Hcases.
    destruct Hcases as [E|[E|[E|E]]].
    - (* id *)
      replace (f_num f =? fld_object_payload)%N with false by (rewrite E; reflexivity).
      replace (f_num f =? fld_object_id)%N with true by (rewrite E; reflexivity).
      assert (Hp : pvalid (f_num f) (sub b f) = true) by (apply Hpv; [rewrite E; cne | apply Hself; reflexivity]).
      rewrite Hp.
      rewrite (IH _ (f_num f) _ _ _ Hr Htr Ho2 Hpv'). unfold ehp_ref.
      destruct (pk_cons_eq b fld_object_id i f r) as [P1 P2];
        [rewrite E; reflexivity|exact Hty|apply (later_ne r (f_num f)); [exact Hgt|rewrite E; cne]|].
      rewrite P1, P2, !(pk_cons_ne b _ _ f r) by (rewrite E; cne).
      rewrite (last_of_cons f r fld_object_payload).
      destruct (last_of r fld_object_payload ty_bytes); [reflexivity|].
      replace (f_num f =? fld_object_payload)%N with false by (rewrite E; reflexivity). reflexivity.
    - (* signature *)
      replace (f_num f =? fld_object_payload)%N with false by (rewrite E; reflexivity).
      replace (f_num f =? fld_object_id)%N with false by (rewrite E; reflexivity).
      replace (f_num f =? fld_object_sig)%N with true by (rewrite E; reflexivity).
      assert (Hp : pvalid (f_num f) (sub b f) = true) by (apply Hpv; [rewrite E; cne | apply Hself; reflexivity]).
      rewrite Hp.
      rewrite (IH _ (f_num f) _ _ _ Hr Htr Ho2 Hpv'). unfold ehp_ref.
      destruct (pk_cons_eq b fld_object_sig s f r) as [P1 P2];
        [rewrite E; reflexivity|exact Hty|apply (later_ne r (f_num f)); [exact Hgt|rewrite E; cne]|].
      rewrite P1, P2, !(pk_cons_ne b _ _ f r) by (rewrite E; cne).
      rewrite (last_of_cons f r fld_object_payload).
      destruct (last_of r fld_object_payload ty_bytes); [reflexivity|].
      replace (f_num f =? fld_object_payload)%N with false by (rewrite E; reflexivity). reflexivity.
    - (* header *)
      replace (f_num f =? fld_object_payload)%N with false by (rewrite E; reflexivity).
      replace (f_num f =? fld_object_id)%N with false by (rewrite E; reflexivity).
      replace (f_num f =? fld_object_sig)%N with false by (rewrite E; reflexivity).
      replace (f_num f =? fld_object_hdr)%N with true by (rewrite E; reflexivity).
      assert (Hp : pvalid (f_num f) (sub b f) = true) by (apply Hpv; [rewrite E; cne | apply Hself; reflexivity]).
      rewrite Hp.
      rewrite (IH _ (f_num f) _ _ _ Hr Htr Ho2 Hpv'). unfold ehp_ref.
      destruct (pk_cons_eq b fld_object_hdr h f r) as [P1 P2];
        [rewrite E; reflexivity|exact Hty|apply (later_ne r (f_num f)); [exact Hgt|rewrite E; cne]|].
      rewrite P1, P2, !(pk_cons_ne b _ _ f r) by (rewrite E; cne).
      rewrite (last_of_cons f r fld_object_payload).
      destruct (last_of r fld_object_payload ty_bytes); [reflexivity|].
      replace (f_num f =? fld_object_payload)%N with false by (rewrite E; reflexivity). reflexivity.
    - (* payload: it is the last field *)
      replace (f_num f =? fld_object_payload)%N with true by (rewrite E; reflexivity).
      assert (Hnil : r = []).
      { destruct r as [|g r']; [reflexivity|]. exfalso.
        cbn [forallb] in Htr. apply andb_prop in Htr. destruct Htr as [Hg _].
        apply obj_num_le in Hg. inversion Hgt as [|? ? Hlt _]; subst.
        unfold fld_object_payload, w_obj_payload in Hg. lia. }
      subst r. inversion Hr as [Hend|]. unfold ehp_ref.
      rewrite !(pk_cons_ne b _ _ f []) by (rewrite E; cne).
      rewrite (Hself fld_object_payload) by (rewrite E; reflexivity).
      unfold pk. cbn [last_of fold_left].
      assert (Hs : skipn (f_vfrom f) b = sub b f).
      { unfold sub. rewrite firstn_all2; [reflexivity|]. rewrite skipn_length. lia. }
      rewrite Hs. reflexivity.
  Qed.

  Theorem agree_extract b : wf_object b = true ->
    exists v, full_decode b = Some v /\
      ((forall k o f, In (k, o) [(fld_object_id, ov_id v); (fld_object_sig, ov_sig v); (fld_object_hdr, ov_hdr v)] ->
                      o = Some f -> pvalid k (sub b f) = true) ->
       extract_header_and_payload pvalid svalid b
       = if svalid (osub b (ov_id v)) (osub b (ov_sig v)) (osub b (ov_hdr v)) then Ok (proj_ehp b v) else Err).
  Proof.
    intros H. destruct (full_decode_wf _ H) as (Hne & recs & hv & L & Hd & _).
    exists (ov_of b recs hv). split; [exact Hd|]. intros Hpv.
    rewrite (extract_sim pvalid svalid b recs Hne (lv_chain _ _ _ L)).
    rewrite (ehp_spec_gen b recs 0 0%N None None None (lv_chain _ _ _ L) (lv_typed _ _ _ L) (lv_order _ _ _ L)).
    - unfold ehp_ref, proj_ehp, proj_payload, osub, pk, ov_of. cbn [ov_id ov_sig ov_hdr ov_pay].
      destruct (last_of recs fld_object_id ty_bytes), (last_of recs fld_object_sig ty_bytes),
        (last_of recs fld_object_hdr ty_bytes); reflexivity.
    - intros k f Hk Hl.
      destruct (last_of_some _ _ _ _ Hl) as (Hin & Hn & _).
      pose proof (lv_typed _ _ _ L) as Ht. rewrite forallb_forall in Ht.
      destruct (obj_num_cases _ (Ht f Hin)) as (_ & Hc). rewrite Hn in Hc.
      destruct Hc as [E|[E|[E|E]]]; [| | |contradiction]; subst k;
        apply (Hpv _ _ f) with (2 := Hl); unfold ov_of; cbn [ov_id ov_sig ov_hdr In]; rewrite E; auto.
  Qed.
End ExtractAgree.
