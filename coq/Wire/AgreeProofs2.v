(* C41 — agreement, object level and nested (parent) level.  PROOF FILE. *)
From Coq Require Import List NArith Arith Bool Lia.
Import ListNotations.
From NV Require Import Gen.WireConsts FSTree.Wire FSTree.WireProofs Wire.Fast Wire.Ref Wire.TotalProofs
     Wire.SimProofs Wire.AgreeProofs.

(* ---- parsing at another base offset ----------------------------------------------------------- *)

Definition shift (d : nat) (f : frec) : frec :=
  mkF (f_num f) (f_typ f) (d + f_from f) (f_tagln f) (d + f_vfrom f) (d + f_to f) (f_val f).

Ltac shift_fin IH :=
  match goal with
  | |- context [parse_fields ?fu ?X (?d + ?off + ?n + ?h + ?v)%nat] =>
    replace (d + off + n + h + v)%nat with (d + (off + n + h + v))%nat by lia;
    rewrite IH; destruct (parse_fields fu X (off + n + h + v)%nat);
    cbn [option_map map]; [f_equal; f_equal; unfold shift; cbn; f_equal; lia | reflexivity]
  end.

Lemma parse_fields_shift d : forall fuel b off,
  parse_fields fuel b (d + off) = option_map (map (shift d)) (parse_fields fuel b off).
Proof.
  induction fuel as [|fu IH]; intros b off; [reflexivity|].
  cbn [parse_fields]. destruct b as [|x0 b0]; [reflexivity|].
  destruct (parse_tag (x0 :: b0)) as [num typ n|]; [|reflexivity].
  destruct (typ =? ty_varint)%N.
  { destruct (parse_varint _) as [u m|]; [|reflexivity]. shift_fin IH. }
  destruct (typ =? ty_bytes)%N.
  { destruct (parse_len _) as [ln m|]; [|reflexivity]. shift_fin IH. }
  destruct (typ =? ty_fixed64)%N.
  { destruct (8 <=? lenN _)%N; [|reflexivity]. shift_fin IH. }
  destruct (typ =? ty_fixed32)%N; [|reflexivity].
  destruct (4 <=? lenN _)%N; [|reflexivity]. shift_fin IH.
Qed.

Lemma nums_shift d l : map f_num (map (shift d) l) = map f_num l.
Proof. rewrite map_map. reflexivity. Qed.

Lemma typed_shift sch d l : forallb (typed_ok sch) (map (shift d) l) = forallb (typed_ok sch) l.
Proof. induction l as [|f r IH]; [reflexivity|]. cbn [map forallb]. rewrite IH. reflexivity. Qed.

Lemma last_of_shift d k t : forall l, last_of (map (shift d) l) k t = option_map (shift d) (last_of l k t).
Proof.
  induction l as [|f r IH]; [reflexivity|]. cbn [map]. rewrite !last_of_cons, IH.
  destruct (last_of r k t); [reflexivity|]. cbn [option_map shift f_num f_typ].
  destruct ((f_num f =? k) && (f_typ f =? t))%N; reflexivity.
Qed.

Lemma fb_of_shift d o : fb_of 0 (option_map (shift d) o) = fb_of d o.
Proof. destruct o; reflexivity. Qed.

Lemma chain_nil_iff buf recs : chain buf 0 recs -> buf <> [] -> recs <> [].
Proof.
  intros H Hne E. subst recs. inversion H as [E0|]. destruct buf; [congruence|discriminate].
Qed.

(* a sub-message embedded at [o, e) of buf, seen through buf[:e] *)
Lemma chain_embed buf o e srecs :
  (o <= e <= length buf)%nat ->
  parse_msg (firstn (e - o) (skipn o buf)) = Some srecs ->
  chain (firstn e buf) o (map (shift o) srecs).
Proof.
  intros Hb Hp. set (s := firstn (e - o) (skipn o buf)) in *.
  assert (Hs : skipn o (firstn e buf) = s) by (unfold s; apply skipn_firstn_comm).
  apply (parse_chain (firstn e buf) (S (length s)) o).
  - rewrite firstn_length. lia.
  - rewrite Hs. pose proof (parse_fields_shift o (S (length s)) s 0) as Hsh.
    rewrite Nat.add_0_r in Hsh. rewrite Hsh. unfold parse_msg in Hp. rewrite Hp. reflexivity.
Qed.

(* ---- header view of a well-formed header -------------------------------------------------------- *)

Definition hv_of (h : bytes) (base : nat) (hrecs : list frec) (srecs : list frec) : hview :=
  let pl := val_of (last_of hrecs fld_hdr_paylen ty_varint) in
  let ty := (val_of (last_of hrecs fld_hdr_type ty_varint) mod two32)%N in
  match last_of hrecs fld_hdr_split ty_bytes with
  | None => mkH pl ty fb0 fb0 fb0 fb0
  | Some sf =>
    let sb := (base + f_vfrom sf)%nat in
    mkH pl ty (fb_of base (Some sf))
        (fb_of sb (last_of srecs fld_split_parent ty_bytes))
        (fb_of sb (last_of srecs fld_split_parsig ty_bytes))
        (fb_of sb (last_of srecs fld_split_parhdr ty_bytes))
  end.

Lemma decode_header_wf h base : wf_header h = true ->
  exists hrecs srecs, level hdr_schema h hrecs
    /\ decode_header h base = Some (hv_of h base hrecs srecs)
    /\ match last_of hrecs fld_hdr_split ty_bytes with
       | None => True
       | Some sf => level split_schema (sub h sf) srecs /\ sub h sf <> []
       end.
Proof.
  intros H. destruct (wf_header_inv _ H) as (hrecs & L & _ & Hs).
  destruct (last_of hrecs fld_hdr_split ty_bytes) as [sf|] eqn:El.
  - destruct Hs as (srecs & Ls & Hne). exists hrecs, srecs. split; [exact L|].
    unfold decode_header, hv_of. rewrite (lv_parse _ _ _ L), El, (lv_parse _ _ _ Ls).
    split; [reflexivity|]. split; assumption.
  - exists hrecs, []. split; [exact L|].
    unfold decode_header, hv_of. rewrite (lv_parse _ _ _ L), El. split; [reflexivity|exact I].
Qed.

Lemma rec_at_nonempty buf f : rec_at buf f -> (f_from f < f_to f)%nat.
Proof. intros H. pose proof (rec_at_lt _ _ H) as (_ & A & _). destruct H as (_ & B & _). lia. Qed.

(* getParentNonPayloadFieldBounds(buf, hdrFrom, hdrTo) for a well-formed header at [hf, ht) *)
Lemma parent_inner_agree buf hf ht :
  (hf <= ht <= length buf)%nat ->
  let h := firstn (ht - hf) (skipn hf buf) in
  wf_header h = true ->
  exists hv, decode_header h hf = Some hv /\ get_parent_inner buf hf ht = Ok (hproj_parent hv).
Proof.
  intros Hb h Hwf.
  destruct (decode_header_wf h hf Hwf) as (hrecs & srecs & L & Hd & Hs).
  exists (hv_of h hf hrecs srecs). split; [exact Hd|].
  unfold get_parent_inner. rewrite (slice_ok _ _ _ Hb). cbn [bind]. fold h.
  rewrite (get_len_level hdr_schema h hrecs fld_hdr_split L eq_refl eq_refl). cbn [bind].
  unfold hv_of, hproj_parent.
  destruct (last_of hrecs fld_hdr_split ty_bytes) as [sf|] eqn:El; [|reflexivity].
  destruct Hs as [Ls Hne].
  destruct (last_of_in_typed hdr_schema h hrecs fld_hdr_split ty_bytes sf L eq_refl El) as (Hat & _ & _).
  pose proof (rec_at_nonempty _ _ Hat) as Hlt.
  destruct Hat as (_ & Hbnd & Hto & _).
  assert (Hlen : length h = (ht - hf)%nat).
  { unfold h. rewrite firstn_length, skipn_length. lia. }
  cbn [fb_of fb_missing fb_to fb_vfrom hv_par hv_parsig hv_parhdr].
  replace (0 + f_from sf =? 0 + f_to sf)%nat with false by (symmetry; apply Nat.eqb_neq; lia).
  rewrite slice_to_ok by lia. cbn [bind].
  set (o := (hf + (0 + f_vfrom sf))%nat). set (e := (hf + (0 + f_to sf))%nat).
  assert (Hsub : firstn (e - o) (skipn o buf) = sub h sf).
  { unfold sub, h, o, e. rewrite skipn_firstn_comm, firstn_firstn, skipn_add.
    repeat (f_equal; try lia). }
  assert (Hc : chain (firstn e buf) o (map (shift o) srecs)).
  { apply chain_embed; [unfold o, e; lia|]. rewrite Hsub. exact (lv_parse _ _ _ Ls). }
  assert (Hnn : map (shift o) srecs <> []).
  { pose proof (chain_nil_iff _ _ (lv_chain _ _ _ Ls) Hne) as Hn. destruct srecs; [congruence|discriminate]. }
  rewrite (bounds_loop_sim _ _ _ _ _ _ _ _ _ _ Hc Hnn)
    by (apply chain_length in Hc; lia).
  rewrite (bounds_level split_schema fld_split_parhdr fld_split_parent fld_split_parsig fld_split_parhdr
             (map (shift o) srecs) split_schema_low).
  - rewrite !last_of_shift, !fb_of_shift. unfold o. reflexivity.
  - unfold fld_split_parent, fld_split_parhdr, w_split_parent, w_split_parhdr. lia.
  - unfold fld_split_parsig, fld_split_parhdr, w_split_parsig, w_split_parhdr. lia.
  - lia.
  - discriminate.
  - discriminate.
  - discriminate.
  - rewrite typed_shift. exact (lv_typed _ _ _ Ls).
  - rewrite nums_shift. exact (lv_order _ _ _ Ls).
Qed.

Theorem agree_parent_hdr h : h <> [] -> wf_header h = true ->
  exists hv, decode_header h 0 = Some hv /\ get_parent_bounds_hdr h = Ok (hproj_parent hv).
Proof.
  intros Hne Hwf. unfold get_parent_bounds_hdr. destruct h as [|x r] eqn:E; [congruence|]. rewrite <- E in *.
  assert (Hh : firstn (length h - 0) (skipn 0 h) = h).
  { cbn [skipn]. rewrite Nat.sub_0_r. apply firstn_all. }
  pose proof (parent_inner_agree h 0 (length h) ltac:(lia)) as P. cbn zeta in P.
  rewrite Hh in P. exact (P Hwf).
Qed.

(* ---- object level ------------------------------------------------------------------------------- *)

Lemma wf_object_inv b : wf_object b = true ->
  b <> [] /\ exists recs, level obj_schema b recs
    /\ match last_of recs fld_object_hdr ty_bytes with
       | None => True
       | Some hf => wf_header (sub b hf) = true
       end.
Proof.
  unfold wf_object. intros H. apply andb_prop in H. destruct H as [H H3].
  apply andb_prop in H. destruct H as [H1 H2].
  split; [destruct b; [discriminate|discriminate]|].
  destruct (wf_level _ _ H2) as [recs L]. exists recs. split; [exact L|].
  unfold field_of in H3. rewrite (lv_parse _ _ _ L) in H3. unfold osub in H3.
  destruct (last_of recs fld_object_hdr ty_bytes); [exact H3|exact I].
Qed.

Definition ov_of (b : bytes) (recs : list frec) (hv : hview) : oview :=
  mkO (last_of recs fld_object_id ty_bytes) (last_of recs fld_object_sig ty_bytes)
      (last_of recs fld_object_hdr ty_bytes) (last_of recs fld_object_payload ty_bytes) hv.

Lemma full_decode_wf b : wf_object b = true ->
  b <> [] /\ exists recs hv, level obj_schema b recs /\ full_decode b = Some (ov_of b recs hv)
    /\ match last_of recs fld_object_hdr ty_bytes with
       | None => hv = hview0
       | Some hf => wf_header (sub b hf) = true /\ decode_header (sub b hf) (f_vfrom hf) = Some hv
       end.
Proof.
  intros H. destruct (wf_object_inv _ H) as (Hne & recs & L & Hh). split; [exact Hne|].
  unfold full_decode, ov_of. rewrite (lv_parse _ _ _ L).
  destruct (last_of recs fld_object_hdr ty_bytes) as [hf|] eqn:El.
  - destruct (decode_header_wf (sub b hf) (f_vfrom hf) Hh) as (hrecs & srecs & _ & Hd & _).
    exists recs, (hv_of (sub b hf) (f_vfrom hf) hrecs srecs). rewrite Hd, !El. auto.
  - exists recs, hview0. rewrite !El. auto.
Qed.

Theorem agree_bounds b : wf_object b = true ->
  exists v, full_decode b = Some v /\ get_non_payload_bounds b = Ok (proj_bounds v).
Proof.
  intros H. destruct (full_decode_wf _ H) as (Hne & recs & hv & L & Hd & _).
  exists (ov_of b recs hv). split; [exact Hd|].
  unfold get_non_payload_bounds. destruct b as [|x r] eqn:E; [congruence|]. rewrite <- E in *.
  pose proof (chain_nil_iff _ _ (lv_chain _ _ _ L) Hne) as Hnn.
  rewrite (bounds_loop_sim _ _ _ _ _ _ _ _ _ _ (lv_chain _ _ _ L) Hnn)
    by (pose proof (chain_length _ _ _ (lv_chain _ _ _ L)); lia).
  rewrite (bounds_level obj_schema fld_object_hdr fld_object_id fld_object_sig fld_object_hdr recs obj_schema_low);
    [reflexivity| | | | | | | exact (lv_typed _ _ _ L) | exact (lv_order _ _ _ L)];
    try discriminate; unfold fld_object_id, fld_object_sig, fld_object_hdr, w_obj_id, w_obj_sig, w_obj_hdr; lia.
Qed.

Theorem agree_parent b : wf_object b = true ->
  exists v, full_decode b = Some v /\ get_parent_bounds b = Ok (proj_parent v).
Proof.
  intros H. destruct (full_decode_wf _ H) as (Hne & recs & hv & L & Hd & Hh).
  exists (ov_of b recs hv). split; [exact Hd|].
  unfold get_parent_bounds. destruct b as [|x r] eqn:E; [congruence|]. rewrite <- E in *.
  rewrite (get_len_level obj_schema b recs fld_object_hdr L eq_refl eq_refl). cbn [bind].
  unfold proj_parent, ov_of. cbn [ov_h].
  destruct (last_of recs fld_object_hdr ty_bytes) as [hf|] eqn:El.
  - destruct Hh as [Hwf Hdh].
    destruct (last_of_in_typed obj_schema b recs fld_object_hdr ty_bytes hf L eq_refl El) as (Hat & _ & _).
    pose proof (rec_at_nonempty _ _ Hat) as Hlt. destruct Hat as (_ & Hbnd & Hto & _).
    cbn [fb_of fb_missing fb_vfrom fb_to].
    replace (0 + f_from hf =? 0 + f_to hf)%nat with false by (symmetry; apply Nat.eqb_neq; lia).
    cbn [plus].
    destruct (parent_inner_agree b (f_vfrom hf) (f_to hf) ltac:(lia) Hwf) as (hv' & Hd' & Hp).
    fold (sub b hf) in Hd'. rewrite Hdh in Hd'. inversion Hd'; subst hv'. exact Hp.
  - subst hv. reflexivity.
Qed.

Theorem agree_read_parts b partial : wf_object b = true ->
  exists v, full_decode b = Some v /\
    read_object_parts_hdr b partial
    = Ok (match ov_hdr v with
          | None => if partial then Some (0, 0, 0%N) else None
          | Some hf => Some (f_vfrom hf, f_to hf, hv_paylen (ov_h v))
          end).
Proof.
  intros H. destruct (full_decode_wf _ H) as (Hne & recs & hv & L & Hd & Hh).
  exists (ov_of b recs hv). split; [exact Hd|].
  unfold read_object_parts_hdr.
  rewrite (get_len_level obj_schema b recs fld_object_hdr L eq_refl eq_refl). cbn [bind].
  unfold ov_of. cbn [ov_hdr ov_h].
  destruct (last_of recs fld_object_hdr ty_bytes) as [hf|] eqn:El.
  - destruct Hh as [Hwf Hdh].
    destruct (last_of_in_typed obj_schema b recs fld_object_hdr ty_bytes hf L eq_refl El) as (Hat & _ & _).
    pose proof (rec_at_nonempty _ _ Hat) as Hlt. destruct Hat as (_ & Hbnd & Hto & _).
    cbn [fb_of fb_missing fb_vfrom fb_to].
    replace (0 + f_from hf =? 0 + f_to hf)%nat with false by (symmetry; apply Nat.eqb_neq; lia).
    cbn [andb plus]. rewrite slice_ok by lia. cbn [bind]. fold (sub b hf).
    rewrite (agree_paylen _ Hwf). cbn [bind].
    destruct (decode_header_wf (sub b hf) (f_vfrom hf) Hwf) as (hrecs & srecs & Lh & Hd2 & _).
    rewrite Hdh in Hd2. inversion Hd2; subst hv.
    unfold varint_of. rewrite (lv_parse _ _ _ Lh). unfold hv_of.
    destruct (last_of hrecs fld_hdr_split ty_bytes); reflexivity.
  - destruct partial; reflexivity.
Qed.
