(* C41 — reference side: full structural decoding of the protobuf wire subset, the
   projections the fast paths are compared with, the well-formedness predicate and a model of
   the canonical ("stable") encoder of neofs-sdk-go (proto/object/encoding.go).

   MODEL FILE: definitions only, all executable.

   Reference decoding = what protobuf defines and protobuf-go does structurally: every field
   of a message is parsed (tag with a valid number, value by wire type), a known field with
   the expected wire type is taken last-wins, anything else is skipped as unknown.  Groups
   (wire types 3/4) are outside the subset: the reference gives up on them (None).  Nested
   messages other than header and split stay opaque byte strings. *)
From Coq Require Import List NArith Arith Bool Lia.
Import ListNotations.
From NV Require Import Gen.WireConsts FSTree.Wire Wire.Fast.

(* one parsed field: number, wire type, [from, vfrom, to) relative to the message start, tag
   length, varint value (0 for other types) *)
Record frec := mkF { f_num : N; f_typ : N; f_from : nat; f_tagln : nat; f_vfrom : nat; f_to : nat; f_val : N }.

(* [b] = rest of the message, [off] = its offset in the message *)
Fixpoint parse_fields (fuel : nat) (b : bytes) (off : nat) : option (list frec) :=
  match fuel with
  | 0 => None
  | S fu =>
    match b with
    | [] => Some []
    | _ =>
      match parse_tag b with
      | TErr => None
      | TOk num typ n =>
        let b1 := skipn n b in
        let cont (vlen hdr : nat) (v : N) :=
            match parse_fields fu (skipn (hdr + vlen) b1) (off + n + hdr + vlen) with
            | None => None
            | Some r => Some (mkF num typ off n (off + n + hdr) (off + n + hdr + vlen) v :: r)
            end in
        if (typ =? ty_varint)%N then
          match parse_varint b1 with VOk u m => cont m 0 u | VErr _ => None end
        else if (typ =? ty_bytes)%N then
          match parse_len b1 with LOk ln m => cont ln m 0%N | LErr => None end
        else if (typ =? ty_fixed64)%N then
          if (8 <=? lenN b1)%N then cont 8 0 0%N else None
        else if (typ =? ty_fixed32)%N then
          if (4 <=? lenN b1)%N then cont 4 0 0%N else None
        else None
      end
    end
  end.

Definition parse_msg (b : bytes) : option (list frec) := parse_fields (S (length b)) b 0.

(* last occurrence with the expected wire type *)
Definition last_of (fs : list frec) (num typ : N) : option frec :=
  fold_left (fun acc f => if ((f_num f =? num) && (f_typ f =? typ))%N then Some f else acc) fs None.

Definition sub (b : bytes) (f : frec) : bytes := firstn (f_to f - f_vfrom f) (skipn (f_vfrom f) b).

Definition fb_of (base : nat) (o : option frec) : fb :=
  match o with
  | None => fb0
  | Some f => (base + f_from f, base + f_vfrom f, base + f_to f)
  end.

Definition val_of (o : option frec) : N := match o with None => 0%N | Some f => f_val f end.

(* ---- header view ---------------------------------------------------------- *)

Record hview := mkH {
  hv_paylen : N; hv_typ : N;
  hv_split : fb; hv_par : fb; hv_parsig : fb; hv_parhdr : fb   (* offsets + base *)
}.

Definition two32 : N := 4294967296.

(* full decode of a header message located at offset [base] of the enclosing buffer *)
Definition decode_header (h : bytes) (base : nat) : option hview :=
  match parse_msg h with
  | None => None
  | Some hfs =>
    let pl := val_of (last_of hfs fld_hdr_paylen ty_varint) in
    let ty := (val_of (last_of hfs fld_hdr_type ty_varint) mod two32)%N in  (* int32 cast *)
    match last_of hfs fld_hdr_split ty_bytes with
    | None => Some (mkH pl ty fb0 fb0 fb0 fb0)
    | Some sf =>
      match parse_msg (sub h sf) with
      | None => None
      | Some sfs =>
        let sb := base + f_vfrom sf in
        Some (mkH pl ty (fb_of base (Some sf))
                  (fb_of sb (last_of sfs fld_split_parent ty_bytes))
                  (fb_of sb (last_of sfs fld_split_parsig ty_bytes))
                  (fb_of sb (last_of sfs fld_split_parhdr ty_bytes)))
      end
    end
  end.

Definition hview0 : hview := mkH 0 0 fb0 fb0 fb0 fb0.

(* ---- object view ---------------------------------------------------------- *)

Record oview := mkO {
  ov_id : option frec; ov_sig : option frec; ov_hdr : option frec; ov_pay : option frec;
  ov_h : hview
}.

Definition full_decode (b : bytes) : option oview :=
  match parse_msg b with
  | None => None
  | Some top =>
    let i := last_of top fld_object_id ty_bytes in
    let s := last_of top fld_object_sig ty_bytes in
    let h := last_of top fld_object_hdr ty_bytes in
    let p := last_of top fld_object_payload ty_bytes in
    match h with
    | None => Some (mkO i s h p hview0)
    | Some hf =>
      match decode_header (sub b hf) (f_vfrom hf) with
      | None => None
      | Some hv => Some (mkO i s h p hv)
      end
    end
  end.

Definition osub (b : bytes) (o : option frec) : option bytes := option_map (sub b) o.

(* projections = right-hand sides of the agreement theorems *)
Definition proj_bounds (v : oview) : fb * fb * fb :=
  (fb_of 0 (ov_id v), fb_of 0 (ov_sig v), fb_of 0 (ov_hdr v)).
Definition proj_parent (v : oview) : fb * fb * fb :=
  (hv_par (ov_h v), hv_parsig (ov_h v), hv_parhdr (ov_h v)).
Definition hproj_parent (v : hview) : fb * fb * fb := (hv_par v, hv_parsig v, hv_parhdr v).
Definition proj_payload (b : bytes) (v : oview) : bytes :=
  match ov_pay v with None => [] | Some f => sub b f end.
Definition proj_ehp (b : bytes) (v : oview) : ehp_res :=
  (osub b (ov_id v), osub b (ov_sig v), osub b (ov_hdr v), proj_payload b v).

(* ---- canonical encoder, generic layer --------------------------------------- *)

Inductive fld := FV (num v : N) | FL (num : N) (v : bytes).
Definition fld_num (f : fld) : N := match f with FV n _ => n | FL n _ => n end.
Definition enc_fld (f : fld) : bytes :=
  match f with FV n v => enc_varint_field n v | FL n v => enc_len_field n v end.
Definition enc_fields (fs : list fld) : bytes := concat (map enc_fld fs).

Definition to_fld (b : bytes) (f : frec) : fld :=
  if (f_typ f =? ty_varint)%N then FV (f_num f) (f_val f) else FL (f_num f) (sub b f).

Fixpoint bytes_eqb (a b : bytes) : bool :=
  match a, b with
  | [], [] => true
  | x :: a', y :: b' => (x =? y)%N && bytes_eqb a' b'
  | _, _ => false
  end.

(* ---- well-formedness -------------------------------------------------------- *)

(* schema of a message level: number -> (wire type, repeated) *)
Definition schema := N -> option (N * bool).

Definition obj_schema : schema := fun n =>
  if ((n =? w_obj_id) || (n =? w_obj_sig) || (n =? w_obj_hdr) || (n =? w_obj_payload))%N
  then Some (ty_bytes, false) else None.

Definition hdr_schema : schema := fun n =>
  if ((n =? w_hdr_epoch) || (n =? w_hdr_paylen) || (n =? w_hdr_type))%N then Some (ty_varint, false)
  else if (n =? w_hdr_attrs)%N then Some (ty_bytes, true)
  else if ((n =? w_hdr_version) || (n =? w_hdr_cid) || (n =? w_hdr_owner) || (n =? w_hdr_payhash)
           || (n =? w_hdr_homohash) || (n =? w_hdr_session) || (n =? w_hdr_split)
           || (n =? w_hdr_sessionv2))%N then Some (ty_bytes, false)
  else None.

Definition split_schema : schema := fun n =>
  if (n =? w_split_children)%N then Some (ty_bytes, true)
  else if ((n =? w_split_parent) || (n =? w_split_previous) || (n =? w_split_parsig)
           || (n =? w_split_parhdr) || (n =? w_split_splitid) || (n =? w_split_first))%N
  then Some (ty_bytes, false) else None.

Definition typed_ok (sch : schema) (f : frec) : bool :=
  match sch (f_num f) with Some (t, _) => (f_typ f =? t)%N | None => false end.

(* ascending numbers; equal neighbours only for repeated fields *)
Fixpoint order_ok (sch : schema) (prev : N) (nums : list N) : bool :=
  match nums with
  | [] => true
  | n :: r =>
    ((prev <? n)%N || ((prev =? n)%N && match sch n with Some (_, rep) => rep | None => false end))
    && order_ok sch n r
  end.

(* [b] parses structurally, its fields are typed as the schema says and ordered as the stable
   encoder orders them *)
Definition wf_msg (sch : schema) (b : bytes) : bool :=
  match parse_msg b with
  | None => false
  | Some fs => forallb (typed_ok sch) fs && order_ok sch 0%N (map f_num fs)
  end.

(* in addition [b] is byte for byte the canonical encoding of the fields it parses to (minimal
   varints); used by the correspondence check only: for such inputs re-marshalling the real
   decoder's result must give the located bytes back *)
Definition fld_default (bytes_fields : list N) (f : fld) : bool :=
  match f with
  | FV _ v => (v =? 0)%N
  | FL n v => existsb (N.eqb n) bytes_fields && match v with [] => true | _ => false end
  end.

(* [bytes_fields]: numbers of scalar `bytes` fields, which the stable encoder omits when empty
   (as it omits zero varints); empty embedded messages are emitted *)
Definition canonical_msg (bytes_fields : list N) (b : bytes) : bool :=
  match parse_msg b with
  | None => false
  | Some fs =>
    let fl := map (to_fld b) fs in
    bytes_eqb (enc_fields fl) b && negb (existsb (fld_default bytes_fields) fl)
  end.

Definition field_of (b : bytes) (num : N) : option bytes :=
  match parse_msg b with
  | None => None
  | Some fs => osub b (last_of fs num ty_bytes)
  end.

Definition varint_of (b : bytes) (num : N) : N :=
  match parse_msg b with
  | None => 0%N
  | Some fs => val_of (last_of fs num ty_varint)
  end.

Definition wf_split (s : bytes) : bool :=
  wf_msg split_schema s && negb (match s with [] => true | _ => false end).

Definition wf_header (h : bytes) : bool :=
  wf_msg hdr_schema h
  && (varint_of h fld_hdr_type <=? max_int32N)%N
  && match field_of h fld_hdr_split with None => true | Some s => wf_split s end.

(* the empty buffer (encoding of the zero object) is excluded: the object-level fast paths
   reject it by contract ("empty data") *)
Definition wf_object (b : bytes) : bool :=
  negb (match b with [] => true | _ => false end)
  && wf_msg obj_schema b
  && match field_of b fld_object_hdr with None => true | Some h => wf_header h end.

Definition canonical_header (h : bytes) : bool :=
  canonical_msg [] h
  && match field_of h fld_hdr_split with None => true | Some s => canonical_msg [w_split_splitid] s end.
Definition canonical_object (b : bytes) : bool :=
  canonical_msg [w_obj_payload] b
  && match field_of b fld_object_hdr with None => true | Some h => canonical_header h end.

(* ---- canonical encoder, record level (neofs-sdk-go proto/object/encoding.go) -------- *)

Definition fl_opt (num : N) (v : option bytes) : list fld :=
  match v with None => [] | Some x => [FL num x] end.              (* MarshalToEmbedded *)
Definition fl_bytes (num : N) (v : bytes) : list fld :=
  match v with [] => [] | _ => [FL num v] end.                     (* MarshalToBytes *)
Definition fl_var (num v : N) : list fld :=
  if (v =? 0)%N then [] else [FV num v].                           (* MarshalToVarint *)
Definition fl_rep (num : N) (vs : list bytes) : list fld := map (FL num) vs.

Record split_rec := mkSplit {
  sp_parent : option bytes; sp_previous : option bytes; sp_parsig : option bytes;
  sp_parhdr : option bytes; sp_children : list bytes; sp_splitid : bytes; sp_first : option bytes
}.

Definition split_fields (s : split_rec) : list fld :=
  fl_opt w_split_parent (sp_parent s) ++ fl_opt w_split_previous (sp_previous s)
  ++ fl_opt w_split_parsig (sp_parsig s) ++ fl_opt w_split_parhdr (sp_parhdr s)
  ++ fl_rep w_split_children (sp_children s) ++ fl_bytes w_split_splitid (sp_splitid s)
  ++ fl_opt w_split_first (sp_first s).
Definition enc_split (s : split_rec) : bytes := enc_fields (split_fields s).

Record hdr_rec := mkHdr {
  h_version : option bytes; h_cid : option bytes; h_owner : option bytes;
  h_epoch : N; h_paylen : N; h_payhash : option bytes; h_type : N;
  h_homohash : option bytes; h_session : option bytes; h_attrs : list bytes;
  h_split : option split_rec; h_sessionv2 : option bytes
}.

Definition hdr_fields (h : hdr_rec) : list fld :=
  fl_opt w_hdr_version (h_version h) ++ fl_opt w_hdr_cid (h_cid h) ++ fl_opt w_hdr_owner (h_owner h)
  ++ fl_var w_hdr_epoch (h_epoch h) ++ fl_var w_hdr_paylen (h_paylen h)
  ++ fl_opt w_hdr_payhash (h_payhash h) ++ fl_var w_hdr_type (h_type h)
  ++ fl_opt w_hdr_homohash (h_homohash h) ++ fl_opt w_hdr_session (h_session h)
  ++ fl_rep w_hdr_attrs (h_attrs h) ++ fl_opt w_hdr_split (option_map enc_split (h_split h))
  ++ fl_opt w_hdr_sessionv2 (h_sessionv2 h).
Definition enc_header (h : hdr_rec) : bytes := enc_fields (hdr_fields h).

Record obj_rec := mkObj {
  o_id : option bytes; o_sig : option bytes; o_hdr : option hdr_rec; o_payload : bytes
}.

Definition obj_fields (o : obj_rec) : list fld :=
  fl_opt w_obj_id (o_id o) ++ fl_opt w_obj_sig (o_sig o)
  ++ fl_opt w_obj_hdr (option_map enc_header (o_hdr o)) ++ fl_bytes w_obj_payload (o_payload o).
Definition enc_object (o : obj_rec) : bytes := enc_fields (obj_fields o).

(* what the Go encoder guarantees about its inputs: uint64 / int32 ranges, int lengths, and a
   split message is only emitted when it is non-zero (split.isZero) *)
Definition two64 : N := 18446744073709551616.
Definition split_nonzero (s : split_rec) : bool :=
  negb (match split_fields s with [] => true | _ => false end).
Definition valid_hdr (h : hdr_rec) : bool :=
  (h_epoch h <? two64)%N && (h_paylen h <? two64)%N && (h_type h <=? max_int32N)%N
  && match h_split h with None => true | Some s => split_nonzero s end.
Definition valid_obj (o : obj_rec) : bool :=
  match o_hdr o with None => true | Some h => valid_hdr h end.
