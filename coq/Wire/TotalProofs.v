(* C41 — totality: no fast path reaches Panic on any byte string.  PROOF FILE.
   Panic = out-of-bounds slice, the explicit panic("unreachable"), or loop fuel exhausted. *)
From Coq Require Import List NArith Arith Bool Lia.
Import ListNotations.
From NV Require Import Gen.WireConsts FSTree.Wire FSTree.WireProofs Wire.Fast.

(* ---- primitives never consume more than they are given ----------------------- *)

Lemma pv_bounds k : forall i b acc v n,
  pv k i b acc = VOk v n -> (i < n <= i + length b)%nat /\ (n <= i + S k)%nat.
Proof.
  induction k as [|k IH]; intros i b acc v n H; destruct b as [|x r]; simpl in H; try discriminate.
  - destruct (x <? 128)%N; [|discriminate].
    destruct (Nat.eqb i 9 && (2 <=? x)%N)%bool; inversion H; subst; simpl; lia.
  - destruct (x <? 128)%N.
    + destruct (Nat.eqb i 9 && (2 <=? x)%N)%bool; inversion H; subst; simpl; lia.
    + apply IH in H. simpl. lia.
Qed.

Lemma parse_varint_bounds b v n : parse_varint b = VOk v n -> (1 <= n <= length b)%nat /\ (n <= 10)%nat.
Proof. unfold parse_varint. intros H. apply pv_bounds in H. lia. Qed.

Lemma parse_tag_bounds b num typ n :
  parse_tag b = TOk num typ n -> (1 <= n <= length b)%nat /\ (1 <= num)%N /\ (num <= max_valid_number)%N.
Proof.
  unfold parse_tag. destruct (parse_varint b) as [u m|] eqn:E; [|discriminate].
  destruct ((1 <=? u / 8) && (u / 8 <=? max_valid_number))%N%bool eqn:Hc; [|discriminate].
  intros H. inversion H; subst. apply parse_varint_bounds in E.
  apply andb_prop in Hc. destruct Hc as [H1 H2]. apply N.leb_le in H1, H2. lia.
Qed.

Lemma consume_tag_bounds b num typ n :
  consume_tag b = TOk num typ n -> (1 <= n <= length b)%nat.
Proof.
  unfold consume_tag. destruct (parse_varint b) as [u m|] eqn:E; [|discriminate].
  destruct ((1 <=? u / 8) && (u / 8 <=? max_int32N))%N%bool; [|discriminate].
  intros H. inversion H; subst. apply parse_varint_bounds in E. lia.
Qed.

Lemma parse_len_bounds b ln m : parse_len b = LOk ln m -> (1 <= m)%nat /\ (m + ln <= length b)%nat.
Proof.
  unfold parse_len. destruct (parse_varint b) as [u n|] eqn:E; [|discriminate].
  destruct (max_int <? u)%N; [discriminate|].
  destruct (lenN b - N.of_nat n <? u)%N eqn:Hc; [discriminate|].
  intros H. inversion H; subst. apply parse_varint_bounds in E.
  apply N.ltb_ge in Hc. rewrite lenN_spec in Hc. lia.
Qed.

Lemma consume_bytes_bounds b ln m : consume_bytes b = LOk ln m -> (1 <= m)%nat /\ (m + ln <= length b)%nat.
Proof.
  unfold consume_bytes. destruct (parse_varint b) as [u n|] eqn:E; [|discriminate].
  destruct (lenN b - N.of_nat n <? u)%N eqn:Hc; [discriminate|].
  intros H. inversion H; subst. apply parse_varint_bounds in E.
  apply N.ltb_ge in Hc. rewrite lenN_spec in Hc. lia.
Qed.

Lemma skip_field_bounds b typ m : skip_field b typ = SkOk m -> (m <= length b)%nat.
Proof.
  unfold skip_field.
  destruct (typ =? ty_varint)%N.
  { destruct (parse_varint b) eqn:E; [|discriminate]. intros H; inversion H; subst.
    apply parse_varint_bounds in E. lia. }
  destruct (typ =? ty_fixed64)%N.
  { destruct (8 <=? lenN b)%N eqn:Hc; [|discriminate]. intros H; inversion H; subst.
    apply N.leb_le in Hc. rewrite lenN_spec in Hc. lia. }
  destruct (typ =? ty_bytes)%N.
  { destruct (parse_len b) eqn:E; [|discriminate]. intros H; inversion H; subst.
    apply parse_len_bounds in E. lia. }
  destruct (typ =? ty_fixed32)%N; [|discriminate].
  destruct (4 <=? lenN b)%N eqn:Hc; [|discriminate]. intros H; inversion H; subst.
  apply N.leb_le in Hc. rewrite lenN_spec in Hc. lia.
Qed.

(* ---- slices -------------------------------------------------------------------- *)

Lemma slice_from_ok b off : (off <= length b)%nat -> slice_from b off = Ok (skipn off b).
Proof. intros H. unfold slice_from. apply Nat.leb_le in H. now rewrite H. Qed.

Lemma slice_to_ok b to : (to <= length b)%nat -> slice_to b to = Ok (firstn to b).
Proof. intros H. unfold slice_to. apply Nat.leb_le in H. now rewrite H. Qed.

Lemma slice_ok b from to : (from <= to <= length b)%nat ->
  slice b from to = Ok (firstn (to - from) (skipn from b)).
Proof.
  intros [H1 H2]. unfold slice. apply Nat.leb_le in H1, H2. now rewrite H1, H2.
Qed.

Lemma skipn_len {A} n (l : list A) : length (skipn n l) = (length l - n)%nat.
Proof. apply skipn_length. Qed.

(* ---- SeekFieldByNumber ------------------------------------------------------------ *)

Definition seek_good (buf : bytes) (r : res seekr) : Prop :=
  r <> Panic /\ forall o t ty, r = Ok (SkFound o t ty) -> (o + t <= length buf)%nat.

Lemma seek_loop_total buf seek : forall fuel off prev,
  (off <= length buf)%nat -> (length buf - off < fuel)%nat ->
  seek_good buf (seek_loop_p fuel buf off prev seek).
Proof.
  induction fuel as [|fuel IH]; intros off prev Hoff Hfuel; [lia|].
  cbn [seek_loop_p]. rewrite (slice_from_ok _ _ Hoff). cbn [bind].
  destruct (parse_tag (skipn off buf)) as [num typ n|] eqn:Et; [|split; [discriminate|intros; discriminate]].
  apply parse_tag_bounds in Et. rewrite skipn_len in Et. destruct Et as [Hn _].
  destruct (num =? seek)%N.
  { split; [discriminate|]. intros o t ty H. inversion H; subst. lia. }
  destruct (seek <? num)%N; [split; [discriminate|intros; discriminate]|].
  destruct (num <? prev)%N; [split; [discriminate|intros; discriminate]|].
  rewrite slice_from_ok by lia. cbn [bind].
  destruct (skip_field (skipn (off + n) buf) typ) as [m|] eqn:Es; [|split; [discriminate|intros; discriminate]].
  apply skip_field_bounds in Es. rewrite skipn_len in Es.
  destruct (off + n + m =? length buf)%nat; [split; [discriminate|intros; discriminate]|].
  apply IH; lia.
Qed.

Lemma seek_field_total buf seek : seek_good buf (seek_field_p buf seek).
Proof.
  unfold seek_field_p. destruct (valid_num seek); [|split; [discriminate|intros; discriminate]].
  destruct buf as [|x r] eqn:Eb; [split; [discriminate|intros; discriminate]|].
  rewrite <- Eb. apply seek_loop_total; lia.
Qed.

(* ---- FieldBounds stay inside the buffer --------------------------------------------- *)

Definition fb_ok (buf : bytes) (f : fb) : Prop :=
  (fb_from f <= fb_vfrom f <= fb_to f)%nat /\ (fb_to f <= length buf)%nat.

Lemma fb0_ok buf : fb_ok buf fb0.
Proof. unfold fb_ok, fb0; simpl. lia. Qed.

Definition fbres_good (buf : bytes) (r : res fb) : Prop :=
  r <> Panic /\ forall f, r = Ok f -> fb_ok buf f.

Lemma parse_len_field_bounds_total buf off tagln typ :
  (off + tagln <= length buf)%nat -> fbres_good buf (parse_len_field_bounds_p buf off tagln typ).
Proof.
  intros H. unfold parse_len_field_bounds_p. rewrite (slice_from_ok _ _ H). cbn [bind].
  destruct (typ =? ty_bytes)%N; [|split; [discriminate|intros; discriminate]].
  destruct (parse_len (skipn (off + tagln) buf)) as [ln n|] eqn:E; [|split; [discriminate|intros; discriminate]].
  apply parse_len_bounds in E. rewrite skipn_len in E.
  split; [discriminate|]. intros f Hf. inversion Hf; subst. unfold fb_ok; simpl. lia.
Qed.

Lemma get_len_field_bounds_total buf num : fbres_good buf (get_len_field_bounds_p buf num).
Proof.
  unfold get_len_field_bounds_p. destruct (seek_field_total buf num) as [Hp Hf].
  destruct (seek_field_p buf num) as [[o t ty|]| |]; cbn [bind].
  - apply parse_len_field_bounds_total. eapply Hf. reflexivity.
  - split; [discriminate|]. intros f H. inversion H; subst. apply fb0_ok.
  - split; [discriminate|intros; discriminate].
  - congruence.
Qed.

Lemma get_uint64_field_total buf num : get_uint64_field_p buf num <> Panic.
Proof.
  unfold get_uint64_field_p. destruct (seek_field_total buf num) as [Hp Hf].
  destruct (seek_field_p buf num) as [[o t ty|]| |]; cbn [bind]; try discriminate; try congruence.
  rewrite slice_from_ok by (eapply Hf; reflexivity). cbn [bind].
  destruct (ty =? ty_varint)%N; [|discriminate].
  destruct (parse_varint _); discriminate.
Qed.

Lemma get_enum_field_total buf num : get_enum_field_p buf num <> Panic.
Proof.
  unfold get_enum_field_p. destruct (seek_field_total buf num) as [Hp Hf].
  destruct (seek_field_p buf num) as [[o t ty|]| |]; cbn [bind]; try discriminate; try congruence.
  rewrite slice_from_ok by (eapply Hf; reflexivity). cbn [bind].
  destruct (ty =? ty_varint)%N; [|discriminate].
  destruct (parse_varint _) as [u ?|]; [|discriminate]. destruct (max_int32N <? u)%N; discriminate.
Qed.

(* ---- the two bounds loops ------------------------------------------------------------- *)

Definition acc_ok (buf : bytes) (a : fb * fb * fb) : Prop :=
  let '(x, y, z) := a in fb_ok buf x /\ fb_ok buf y /\ fb_ok buf z.

Definition b3_good (buf : bytes) (r : res (fb * fb * fb)) : Prop :=
  r <> Panic /\ forall a, r = Ok a -> acc_ok buf a.

Lemma put_slot_ok buf s1 s2 s3 num f a : fb_ok buf f -> acc_ok buf a -> acc_ok buf (put_slot s1 s2 s3 num f a).
Proof.
  destruct a as [[x y] z]. unfold put_slot, acc_ok. intros Hf (Hx & Hy & Hz).
  destruct (num =? s1)%N; [tauto|]. destruct (num =? s2)%N; [tauto|]. destruct (num =? s3)%N; tauto.
Qed.

Lemma bounds_loop_total buf last s1 s2 s3 : forall fuel off prev acc,
  (off <= length buf)%nat -> (length buf - off < fuel)%nat -> acc_ok buf acc ->
  b3_good buf (bounds_loop fuel buf off prev last s1 s2 s3 acc).
Proof.
  induction fuel as [|fuel IH]; intros off prev acc Hoff Hfuel Hacc; [lia|].
  cbn [bounds_loop]. rewrite (slice_from_ok _ _ Hoff). cbn [bind].
  destruct (parse_tag (skipn off buf)) as [num typ n|] eqn:Et; [|split; [discriminate|intros; discriminate]].
  apply parse_tag_bounds in Et. rewrite skipn_len in Et. destruct Et as (Hn & Hnum & _).
  destruct (last <? num)%N eqn:Hl.
  { split; [discriminate|]. intros a H. inversion H; subst. exact Hacc. }
  destruct (num <? prev)%N; [split; [discriminate|intros; discriminate]|].
  destruct (num =? prev)%N; [split; [discriminate|intros; discriminate]|].
  destruct (parse_len_field_bounds_total buf off n typ ltac:(lia)) as [Hp Hf].
  destruct (parse_len_field_bounds_p buf off n typ) as [f| |] eqn:Ef; cbn [bind];
    [|split; [discriminate|intros; discriminate]|congruence].
  specialize (Hf f eq_refl).
  apply N.ltb_ge in Hl.
  replace ((1 <=? num) && (num <=? last))%N%bool with true
    by (symmetry; apply andb_true_intro; split; apply N.leb_le; lia).
  cbn [negb].
  pose proof (put_slot_ok buf s1 s2 s3 num f acc Hf Hacc) as Hacc'.
  destruct (num =? last)%N.
  { split; [discriminate|]. intros a H. inversion H; subst. exact Hacc'. }
  destruct (fb_to f =? length buf)%nat eqn:Hend.
  { split; [discriminate|]. intros a H. inversion H; subst. exact Hacc'. }
  apply Nat.eqb_neq in Hend.
  assert (Hto : (off + n <= fb_to f)%nat).
  { unfold parse_len_field_bounds_p in Ef. rewrite slice_from_ok in Ef by lia. cbn [bind] in Ef.
    destruct (typ =? ty_bytes)%N; [|discriminate].
    destruct (parse_len _) as [ln m|]; [|discriminate]. inversion Ef; subst. simpl. lia. }
  destruct Hf as [_ Hle].
  apply IH; [lia|lia|exact Hacc'].
Qed.

Lemma acc0_ok buf : acc_ok buf (fb0, fb0, fb0).
Proof. unfold acc_ok. split; [|split]; apply fb0_ok. Qed.

Lemma b3_ok_const buf a : acc_ok buf a -> b3_good buf (Ok a).
Proof. intros H. split; [discriminate|]. intros a' E. inversion E; subst. exact H. Qed.

Lemma b3_err buf : b3_good buf Err.
Proof. split; [discriminate|intros; discriminate]. Qed.

Theorem get_non_payload_bounds_total buf : b3_good buf (get_non_payload_bounds buf).
Proof.
  unfold get_non_payload_bounds. destruct buf as [|x r] eqn:Eb; [apply b3_err|].
  rewrite <- Eb. apply bounds_loop_total; [lia|lia|apply acc0_ok].
Qed.

Lemma fb_ok_firstn buf k f : fb_ok (firstn k buf) f -> fb_ok buf f.
Proof. unfold fb_ok. rewrite firstn_length. lia. Qed.

Lemma acc_ok_firstn buf k a : acc_ok (firstn k buf) a -> acc_ok buf a.
Proof.
  destruct a as [[x y] z]. unfold acc_ok. intros (A & B & C).
  split; [|split]; eapply fb_ok_firstn; eassumption.
Qed.

Lemma get_parent_inner_total buf hf ht :
  (hf <= ht <= length buf)%nat -> b3_good buf (get_parent_inner buf hf ht).
Proof.
  intros Hb. unfold get_parent_inner. rewrite (slice_ok _ _ _ Hb). cbn [bind].
  set (h := firstn (ht - hf) (skipn hf buf)).
  assert (Hlen : length h = (ht - hf)%nat).
  { unfold h. rewrite firstn_length, skipn_len. lia. }
  destruct (get_len_field_bounds_total h fld_hdr_split) as [Hp Hf].
  destruct (get_len_field_bounds_p h fld_hdr_split) as [sf| |]; cbn [bind]; [|apply b3_err|congruence].
  specialize (Hf sf eq_refl). destruct Hf as [Ho Hl]. rewrite Hlen in Hl.
  destruct (fb_missing sf); [apply b3_ok_const, acc0_ok|].
  rewrite slice_to_ok by lia. cbn [bind].
  set (buf' := firstn (hf + fb_to sf) buf).
  assert (Hlen' : length buf' = (hf + fb_to sf)%nat).
  { unfold buf'. rewrite firstn_length. lia. }
  destruct (bounds_loop_total buf' fld_split_parhdr fld_split_parent fld_split_parsig fld_split_parhdr
              (S (length buf')) (hf + fb_vfrom sf) 0%N (fb0, fb0, fb0)) as [Hq Hg];
    [lia|lia|apply acc0_ok|].
  split; [exact Hq|]. intros a Ha. apply (acc_ok_firstn buf (hf + fb_to sf)). apply Hg. exact Ha.
Qed.

Theorem get_parent_bounds_total buf : b3_good buf (get_parent_bounds buf).
Proof.
  unfold get_parent_bounds. destruct buf as [|x r] eqn:Eb; [apply b3_err|]. rewrite <- Eb.
  destruct (get_len_field_bounds_total buf fld_object_hdr) as [Hp Hf].
  destruct (get_len_field_bounds_p buf fld_object_hdr) as [rh| |]; cbn [bind]; [|apply b3_err|congruence].
  specialize (Hf rh eq_refl). destruct Hf as [Ho Hl].
  destruct (fb_missing rh); [apply b3_ok_const, acc0_ok|].
  apply get_parent_inner_total. lia.
Qed.

Theorem get_parent_bounds_hdr_total buf : b3_good buf (get_parent_bounds_hdr buf).
Proof.
  unfold get_parent_bounds_hdr. destruct buf as [|x r] eqn:Eb; [apply b3_err|]. rewrite <- Eb.
  apply get_parent_inner_total. lia.
Qed.

Theorem get_payload_length_header_total buf : get_payload_length_header buf <> Panic.
Proof. apply get_uint64_field_total. Qed.

Theorem get_type_header_total buf : get_type_header buf <> Panic.
Proof. apply get_enum_field_total. Qed.

(* ---- ExtractHeaderAndPayload ------------------------------------------------------------ *)

Section ExtractTotal.
  Variable pvalid : N -> bytes -> bool.
  Variable svalid : option bytes -> option bytes -> option bytes -> bool.

  Lemma ehp_loop_total data : forall fuel off i s h,
    (off <= length data)%nat -> (length data - off < fuel)%nat ->
    ehp_loop pvalid svalid fuel data off i s h <> Panic.
  Proof.
    induction fuel as [|fuel IH]; intros off i s h Hoff Hfuel; [lia|].
    cbn [ehp_loop].
    destruct (off <? length data)%nat eqn:Hlt; cbn [negb].
    2:{ destruct (svalid i s h); [|discriminate]. rewrite slice_from_ok by lia. discriminate. }
    apply Nat.ltb_lt in Hlt.
    rewrite (slice_from_ok _ _ Hoff). cbn [bind].
    destruct (consume_tag (skipn off data)) as [num typ n|] eqn:Et; [|discriminate].
    apply consume_tag_bounds in Et. rewrite skipn_len in Et.
    destruct (typ =? ty_bytes)%N; cbn [negb]; [|discriminate].
    destruct (num =? fld_object_payload)%N.
    { rewrite slice_from_ok by lia. cbn [bind].
      destruct (parse_varint (skipn (off + n) data)) as [u m|] eqn:Ev; [|discriminate].
      apply parse_varint_bounds in Ev. rewrite skipn_len in Ev.
      destruct (svalid i s h); [|discriminate]. rewrite slice_from_ok by lia. discriminate. }
    rewrite slice_from_ok by lia. cbn [bind].
    destruct (consume_bytes (skipn (off + n) data)) as [ln m|] eqn:Eb; [|discriminate].
    apply consume_bytes_bounds in Eb. rewrite skipn_len in Eb.
    destruct (num =? fld_object_id)%N.
    { destruct (pvalid _ _); [|discriminate]. apply IH; lia. }
    destruct (num =? fld_object_sig)%N.
    { destruct (pvalid _ _); [|discriminate]. apply IH; lia. }
    destruct (num =? fld_object_hdr)%N.
    { destruct (pvalid _ _); [|discriminate]. apply IH; lia. }
    discriminate.
  Qed.

  Theorem extract_total data : extract_header_and_payload pvalid svalid data <> Panic.
  Proof.
    unfold extract_header_and_payload. destruct data as [|x r] eqn:Eb; [discriminate|]. rewrite <- Eb.
    apply ehp_loop_total; lia.
  Qed.

  Theorem read_object_parts_total b partial : read_object_parts_hdr b partial <> Panic.
  Proof.
    unfold read_object_parts_hdr.
    destruct (get_len_field_bounds_total b fld_object_hdr) as [Hp Hf].
    destruct (get_len_field_bounds_p b fld_object_hdr) as [hf| |]; cbn [bind]; [|discriminate|congruence].
    specialize (Hf hf eq_refl). destruct Hf as [Ho Hl].
    destruct (fb_missing hf && negb partial)%bool; [discriminate|].
    rewrite slice_ok by lia. cbn [bind].
    pose proof (get_payload_length_header_total (firstn (fb_to hf - fb_vfrom hf) (skipn (fb_vfrom hf) b))) as Hq.
    destruct (get_payload_length_header _); cbn [bind]; [discriminate|discriminate|congruence].
  Qed.

  Theorem read_header_and_payload_total {A} (full : bytes -> res A) (fast : res ehp_res -> res A) file :
    (forall x, full x <> Panic) -> (forall r, r <> Panic -> fast r <> Panic) ->
    read_header_and_payload pvalid svalid full fast file <> Panic.
  Proof.
    intros Hfull Hfast. unfold read_header_and_payload.
    destruct (length (firstn head_buf_len file) <? head_buf_len)%nat; [apply Hfull|].
    apply Hfast, extract_total.
  Qed.
End ExtractTotal.

(* ---- the varint reader ---------------------------------------------------------------------- *)

(* at most ten bytes are consumed, and ten continuation bytes are an overflow error, whatever
   follows: the reader terminates with an error on overlong input *)
Lemma pv_overlong k : forall i b acc, (i + k = 9)%nat -> (S k <= length b)%nat ->
  (forall j, (j < S k)%nat -> (128 <= nth j b 0)%N) -> pv k i b acc = VErr VOver.
Proof.
  induction k as [|k IH]; intros i b acc Hi Hl Hb; destruct b as [|x r]; simpl in Hl; try lia.
  - cbn [pv]. pose proof (Hb 0%nat ltac:(lia)) as H0. simpl in H0.
    destruct (N.ltb_spec x 128); [lia|reflexivity].
  - cbn [pv]. pose proof (Hb 0%nat ltac:(lia)) as H0. simpl in H0.
    destruct (N.ltb_spec x 128); [lia|].
    apply IH; [lia|lia|]. intros j Hj. apply (Hb (S j)). lia.
Qed.

Theorem varint_overlong b :
  (10 <= length b)%nat -> (forall j, (j < 10)%nat -> (128 <= nth j b 0)%N) ->
  parse_varint b = VErr VOver.
Proof. intros Hl Hb. unfold parse_varint. apply pv_overlong; [lia|lia|exact Hb]. Qed.
