(* C41 — truncation: an answer computed on a prefix that reached the header (bounds) or the
   payload (ExtractHeaderAndPayload) is the answer on every extension of that prefix.
   PROOF FILE.  Nothing is assumed about the buffers (no well-formedness). *)
From Coq Require Import List NArith Arith Bool Lia.
Import ListNotations.
From NV Require Import Gen.WireConsts FSTree.Wire FSTree.WireProofs Wire.Fast Wire.Ref Wire.TotalProofs
     Wire.SimProofs Wire.AgreeProofs Wire.AgreeProofs2.

(* ---- the primitives are stable under extension of the buffer -------------------------------- *)

Lemma pv_ext k : forall i b t acc v n, pv k i b acc = VOk v n -> pv k i (b ++ t) acc = VOk v n.
Proof.
  induction k as [|k IH]; intros i b t acc v n H; destruct b as [|x r]; simpl in *; try discriminate.
  - destruct (x <? 128)%N; [exact H|discriminate].
  - destruct (x <? 128)%N; [exact H|]. apply IH. exact H.
Qed.

Lemma parse_varint_ext b t v n : parse_varint b = VOk v n -> parse_varint (b ++ t) = VOk v n.
Proof. apply pv_ext. Qed.

Lemma parse_tag_ext b t num typ n : parse_tag b = TOk num typ n -> parse_tag (b ++ t) = TOk num typ n.
Proof.
  unfold parse_tag. destruct (parse_varint b) as [u m|] eqn:E; [|discriminate].
  rewrite (parse_varint_ext _ t _ _ E). auto.
Qed.

Lemma consume_tag_ext b t num typ n : consume_tag b = TOk num typ n -> consume_tag (b ++ t) = TOk num typ n.
Proof.
  unfold consume_tag. destruct (parse_varint b) as [u m|] eqn:E; [|discriminate].
  rewrite (parse_varint_ext _ t _ _ E). auto.
Qed.

Lemma parse_len_ext b t ln m : parse_len b = LOk ln m -> parse_len (b ++ t) = LOk ln m.
Proof.
  unfold parse_len. destruct (parse_varint b) as [u n|] eqn:E; [|discriminate].
  rewrite (parse_varint_ext _ t _ _ E).
  destruct (max_int <? u)%N; [discriminate|].
  destruct (N.ltb_spec (lenN b - N.of_nat n) u) as [L0|L0]; [discriminate|]. intros H.
  destruct (N.ltb_spec (lenN (b ++ t) - N.of_nat n) u) as [L|L]; [|exact H].
  rewrite lenN_app in L. lia.
Qed.

Lemma consume_bytes_ext b t ln m : consume_bytes b = LOk ln m -> consume_bytes (b ++ t) = LOk ln m.
Proof.
  unfold consume_bytes. destruct (parse_varint b) as [u n|] eqn:E; [|discriminate].
  rewrite (parse_varint_ext _ t _ _ E).
  destruct (N.ltb_spec (lenN b - N.of_nat n) u) as [L0|L0]; [discriminate|]. intros H.
  destruct (N.ltb_spec (lenN (b ++ t) - N.of_nat n) u) as [L|L]; [|exact H].
  rewrite lenN_app in L. lia.
Qed.

Lemma skipn_app_le {A} off (p t : list A) : (off <= length p)%nat -> skipn off (p ++ t) = skipn off p ++ t.
Proof.
  intros H. rewrite skipn_app. replace (off - length p)%nat with 0%nat by lia. reflexivity.
Qed.

Lemma slice_from_ext p t off : (off <= length p)%nat -> slice_from (p ++ t) off = Ok (skipn off p ++ t).
Proof.
  intros H. rewrite slice_from_ok by (rewrite app_length; lia). rewrite skipn_app_le by exact H. reflexivity.
Qed.

Lemma plfb_ext p t off n typ f : (off + n <= length p)%nat ->
  parse_len_field_bounds_p p off n typ = Ok f -> parse_len_field_bounds_p (p ++ t) off n typ = Ok f.
Proof.
  intros Hle. unfold parse_len_field_bounds_p. rewrite slice_from_ok by exact Hle.
  rewrite slice_from_ext by exact Hle. cbn [bind].
  destruct (typ =? ty_bytes)%N; [|discriminate].
  destruct (parse_len (skipn (off + n) p)) as [ln m|] eqn:E; [|discriminate].
  rewrite (parse_len_ext _ t _ _ E). auto.
Qed.

(* ---- GetNonPayloadFieldBounds ------------------------------------------------------------------ *)

Lemma put_slot_third s1 s2 last num f a b : num <> last ->
  exists a' b', put_slot s1 s2 last num f (a, b, fb0) = (a', b', fb0).
Proof.
  intros Hn. unfold put_slot. destruct (num =? s1)%N; [eauto|]. destruct (num =? s2)%N; [eauto|].
  destruct (N.eqb_spec num last); [contradiction|eauto].
Qed.

Lemma bounds_loop_ext p t last s1 s2 : t <> [] ->
  forall fuel fuel' off prev a b r,
    (off <= length p)%nat -> (length (p ++ t) - off < fuel')%nat ->
    bounds_loop fuel p off prev last s1 s2 last (a, b, fb0) = Ok r ->
    fb_missing (snd r) = false ->
    bounds_loop fuel' (p ++ t) off prev last s1 s2 last (a, b, fb0) = Ok r.
Proof.
  intros Ht. induction fuel as [|fu IH]; intros fuel' off prev a b r Hoff Hfuel H Hm; [discriminate|].
  destruct fuel' as [|fu']; [lia|].
  cbn [bounds_loop] in *. rewrite slice_from_ok in H by exact Hoff. rewrite slice_from_ext by exact Hoff.
  cbn [bind] in *.
  destruct (parse_tag (skipn off p)) as [num typ n|] eqn:Et; [|discriminate].
  rewrite (parse_tag_ext _ t _ _ _ Et).
  apply parse_tag_bounds in Et. rewrite skipn_len in Et. destruct Et as (Hn & _).
  destruct (last <? num)%N.
  { inversion H; subst r. discriminate. }
  destruct (num <? prev)%N; [discriminate|]. destruct (num =? prev)%N; [discriminate|].
  destruct (parse_len_field_bounds_p p off n typ) as [f| |] eqn:Ef; cbn [bind] in H; try discriminate.
  rewrite (plfb_ext p t off n typ f ltac:(lia) Ef). cbn [bind].
  destruct (negb ((1 <=? num) && (num <=? last))%N); [discriminate|].
  destruct (N.eqb_spec num last) as [E|E]; [exact H|].
  destruct (put_slot_third s1 s2 last num f a b E) as (a' & b' & Hp). rewrite Hp in *.
  destruct (parse_len_field_bounds_total p off n typ ltac:(lia)) as [_ Hok].
  destruct (Hok f Ef) as [_ Hle].
  destruct (fb_to f =? length p)%nat eqn:Hend.
  { inversion H; subst r. discriminate. }
  assert (Hlt : (length p < length (p ++ t))%nat).
  { rewrite app_length. destruct t; [congruence|simpl; lia]. }
  replace (fb_to f =? length (p ++ t))%nat with false by (symmetry; apply Nat.eqb_neq; lia).
  assert (Hprog : (off + n <= fb_to f)%nat).
  { unfold parse_len_field_bounds_p in Ef. rewrite slice_from_ok in Ef by lia. cbn [bind] in Ef.
    destruct (typ =? ty_bytes)%N; [|discriminate].
    destruct (parse_len _) as [ln m|]; [|discriminate]. inversion Ef; subst. simpl. lia. }
  apply (IH fu' (fb_to f) num a' b' r); [exact Hle|lia|exact H|exact Hm].
Qed.

Theorem trunc_bounds p t i s h :
  get_non_payload_bounds p = Ok (i, s, h) -> fb_missing h = false ->
  get_non_payload_bounds (p ++ t) = Ok (i, s, h).
Proof.
  intros H Hm. destruct t as [|y t']; [rewrite app_nil_r; exact H|].
  unfold get_non_payload_bounds in *. destruct p as [|x r] eqn:Ep; [discriminate|]. rewrite <- Ep in *.
  assert (Hne : p ++ y :: t' <> []) by (rewrite Ep; discriminate).
  destruct (p ++ y :: t') as [|z w] eqn:Eq; [congruence|]. rewrite <- Eq.
  eapply bounds_loop_ext; [discriminate|lia|lia|exact H|exact Hm].
Qed.

(* ---- ExtractHeaderAndPayload -------------------------------------------------------------------- *)

Section ExtractTrunc.
  Variable pvalid : N -> bytes -> bool.
  Variable svalid : option bytes -> option bytes -> option bytes -> bool.

  Lemma ehp_loop_ext p t : t <> [] ->
    forall fuel fuel' off i s h i' s' h' pre,
      (off <= length p)%nat -> (length (p ++ t) - off < fuel')%nat ->
      ehp_loop pvalid svalid fuel p off i s h = Ok (i', s', h', pre) -> pre <> [] ->
      ehp_loop pvalid svalid fuel' (p ++ t) off i s h = Ok (i', s', h', pre ++ t).
  Proof.
    intros Ht. induction fuel as [|fu IH]; intros fuel' off i s h i' s' h' pre Hoff Hfuel H Hpre; [discriminate|].
    destruct fuel' as [|fu']; [lia|].
    assert (Hlt : (length p < length (p ++ t))%nat).
    { rewrite app_length. destruct t; [congruence|simpl; lia]. }
    cbn [ehp_loop] in *.
    destruct (off <? length p)%nat eqn:Hin; cbn [negb] in H.
    2:{ destruct (svalid i s h); [|discriminate]. rewrite slice_from_ok in H by exact Hoff. cbn [bind] in H.
        inversion H; subst. apply Nat.ltb_ge in Hin. exfalso. apply Hpre. apply skipn_all2. lia. }
    apply Nat.ltb_lt in Hin.
    replace (off <? length (p ++ t))%nat with true by (symmetry; apply Nat.ltb_lt; lia). cbn [negb].
    rewrite slice_from_ok in H by exact Hoff. rewrite slice_from_ext by exact Hoff. cbn [bind] in *.
    destruct (consume_tag (skipn off p)) as [num typ n|] eqn:Et; [|discriminate].
    rewrite (consume_tag_ext _ t _ _ _ Et).
    apply consume_tag_bounds in Et. rewrite skipn_len in Et.
    destruct (typ =? ty_bytes)%N; cbn [negb] in *; [|discriminate].
    destruct (num =? fld_object_payload)%N.
    { rewrite slice_from_ok in H by lia. rewrite slice_from_ext by lia. cbn [bind] in *.
      destruct (parse_varint (skipn (off + n) p)) as [u m|] eqn:Ev; [|discriminate].
      rewrite (parse_varint_ext _ t _ _ Ev).
      apply parse_varint_bounds in Ev. rewrite skipn_len in Ev.
      destruct (svalid i s h); [|discriminate].
      rewrite slice_from_ok in H by lia. rewrite slice_from_ext by lia. cbn [bind] in *.
      inversion H; subst. reflexivity. }
    rewrite slice_from_ok in H by lia. rewrite slice_from_ext by lia. cbn [bind] in *.
    destruct (consume_bytes (skipn (off + n) p)) as [ln m|] eqn:Eb; [|discriminate].
    rewrite (consume_bytes_ext _ t _ _ Eb).
    apply consume_bytes_bounds in Eb. rewrite skipn_len in Eb.
    assert (Hv : firstn ln (skipn m (skipn (off + n) p ++ t)) = firstn ln (skipn m (skipn (off + n) p))).
    { rewrite skipn_app_le by (rewrite skipn_len; lia).
      rewrite firstn_app. rewrite !skipn_len.
      replace (ln - (length p - (off + n) - m))%nat with 0%nat by lia. cbn [firstn]. apply app_nil_r. }
    rewrite Hv.
    destruct (num =? fld_object_id)%N.
    { destruct (pvalid _ _); [|discriminate]. apply (IH fu'); [lia|lia|exact H|exact Hpre]. }
    destruct (num =? fld_object_sig)%N.
    { destruct (pvalid _ _); [|discriminate]. apply (IH fu'); [lia|lia|exact H|exact Hpre]. }
    destruct (num =? fld_object_hdr)%N.
    { destruct (pvalid _ _); [|discriminate]. apply (IH fu'); [lia|lia|exact H|exact Hpre]. }
    discriminate.
  Qed.

  Theorem trunc_extract p t i s h pre :
    extract_header_and_payload pvalid svalid p = Ok (i, s, h, pre) -> pre <> [] ->
    extract_header_and_payload pvalid svalid (p ++ t) = Ok (i, s, h, pre ++ t).
  Proof.
    intros H Hpre. destruct t as [|y t']; [rewrite !app_nil_r; exact H|].
    unfold extract_header_and_payload in *. destruct p as [|x r] eqn:Ep; [discriminate|]. rewrite <- Ep in *.
    assert (Hne : p ++ y :: t' <> []) by (rewrite Ep; discriminate).
    destruct (p ++ y :: t') as [|z w] eqn:Eq; [congruence|]. rewrite <- Eq.
    eapply ehp_loop_ext; [discriminate|lia|lia|exact H|exact Hpre].
  Qed.

  Theorem head_agree b i s h pre : wf_object b = true ->
    extract_header_and_payload pvalid svalid (firstn head_buf_len b) = Ok (i, s, h, pre) -> pre <> [] ->
    exists v, full_decode b = Some v /\
      extract_header_and_payload pvalid svalid b = Ok (i, s, h, pre ++ skipn head_buf_len b).
  Proof.
    intros Hwf H Hpre. destruct (full_decode_wf _ Hwf) as (_ & recs & hv & _ & Hd & _).
    exists (ov_of b recs hv). split; [exact Hd|].
    pose proof (trunc_extract _ (skipn head_buf_len b) _ _ _ _ H Hpre) as Hx.
    rewrite firstn_skipn in Hx. exact Hx.
  Qed.
End ExtractTrunc.
