(* C41 — agreement of the fast paths with full decoding on well-formed encodings.  PROOF FILE. *)
From Coq Require Import List NArith Arith Bool Lia.
Import ListNotations.
From NV Require Import Gen.WireConsts FSTree.Wire FSTree.WireProofs Wire.Fast Wire.Ref Wire.TotalProofs Wire.SimProofs.

(* ---- last_of, order --------------------------------------------------------------------- *)

Definition pickf (num typ : N) (acc : option frec) (f : frec) : option frec :=
  if ((f_num f =? num) && (f_typ f =? typ))%N then Some f else acc.

Lemma last_of_fold fs num typ : last_of fs num typ = fold_left (pickf num typ) fs None.
Proof. reflexivity. Qed.

Lemma pick_fold_acc num typ : forall fs acc,
  fold_left (pickf num typ) fs acc
  = match fold_left (pickf num typ) fs None with Some g => Some g | None => acc end.
Proof.
  induction fs as [|f r IH]; intros acc; [reflexivity|].
  cbn [fold_left]. rewrite (IH (pickf num typ acc f)), (IH (pickf num typ None f)).
  destruct (fold_left (pickf num typ) r None); [reflexivity|].
  unfold pickf. destruct ((f_num f =? num) && (f_typ f =? typ))%N; reflexivity.
Qed.

Lemma last_of_cons f r num typ :
  last_of (f :: r) num typ
  = match last_of r num typ with
    | Some g => Some g
    | None => if ((f_num f =? num) && (f_typ f =? typ))%N then Some f else None
    end.
Proof. rewrite !last_of_fold. cbn [fold_left]. rewrite pick_fold_acc. reflexivity. Qed.

Lemma last_of_none r num typ : Forall (fun f => f_num f <> num) r -> last_of r num typ = None.
Proof.
  induction 1 as [|f r Hf _ IH]; [reflexivity|]. rewrite last_of_cons, IH.
  destruct (N.eqb_spec (f_num f) num); [contradiction|reflexivity].
Qed.

Definition norep (sch : schema) (k : N) : Prop := forall t, sch k <> Some (t, true).

Lemma order_ok_lb sch : forall l p, order_ok sch p l = true -> Forall (fun n => (p <= n)%N) l.
Proof.
  induction l as [|n r IH]; intros p H; [constructor|].
  cbn [order_ok] in H. apply andb_prop in H. destruct H as [H1 H2].
  assert (Hpn : (p <= n)%N).
  { apply orb_prop in H1. destruct H1 as [H1|H1].
    - apply N.ltb_lt in H1. lia.
    - apply andb_prop in H1. destruct H1 as [H1 _]. apply N.eqb_eq in H1. lia. }
  constructor; [exact Hpn|].
  eapply Forall_impl; [|apply IH; exact H2]. cbn. intros a Ha. lia.
Qed.

Lemma order_ok_strict sch : forall l p, norep sch p -> order_ok sch p l = true -> Forall (fun n => (p < n)%N) l.
Proof.
  intros l p Hnr H. destruct l as [|n r]; [constructor|].
  cbn [order_ok] in H. apply andb_prop in H. destruct H as [H1 H2].
  assert (Hpn : (p < n)%N).
  { apply orb_prop in H1. destruct H1 as [H1|H1]; [apply N.ltb_lt in H1; exact H1|].
    apply andb_prop in H1. destruct H1 as [H1 H3]. apply N.eqb_eq in H1. subst n.
    destruct (sch p) as [[t rep]|] eqn:E; [|discriminate]. subst rep. exfalso. apply (Hnr t). exact E. }
  constructor; [exact Hpn|].
  eapply Forall_impl; [|apply (order_ok_lb sch r n); exact H2]. cbn. intros a Ha. lia.
Qed.

Lemma Forall_map_num (P : N -> Prop) (recs : list frec) :
  Forall P (map f_num recs) -> Forall (fun f => P (f_num f)) recs.
Proof. rewrite Forall_map. auto. Qed.

Lemma chain_all buf : forall recs off, chain buf off recs -> Forall (rec_at buf) recs.
Proof.
  induction recs as [|f r IH]; intros off H; [constructor|].
  inversion H as [|f' r' Hat Hr]; subst. constructor; [exact Hat|]. eapply IH; exact Hr.
Qed.

Lemma wf_msg_inv sch b : wf_msg sch b = true ->
  exists recs, parse_msg b = Some recs /\ forallb (typed_ok sch) recs = true
               /\ order_ok sch 0%N (map f_num recs) = true.
Proof.
  unfold wf_msg. destruct (parse_msg b) as [recs|]; [|discriminate].
  intros H. apply andb_prop in H. destruct H. eauto.
Qed.

Lemma typed_inv sch f : typed_ok sch f = true -> exists rep, sch (f_num f) = Some (f_typ f, rep).
Proof.
  unfold typed_ok. destruct (sch (f_num f)) as [[t rep]|]; [|discriminate].
  intros H. apply N.eqb_eq in H. subst. eauto.
Qed.

(* ---- seek: first occurrence = the only occurrence = last-wins ------------------------------- *)

Definition found_of (o : option frec) : seekr :=
  match o with Some f => SkFound (f_from f) (f_tagln f) (f_typ f) | None => SkMissing end.

Lemma find_none_gt seek : forall recs, Forall (fun f => (seek < f_num f)%N) recs ->
  find (fun f => (f_num f =? seek)%N) recs = None.
Proof.
  induction 1 as [|f r Hf _ IH]; [reflexivity|]. cbn [find].
  destruct (N.eqb_spec (f_num f) seek); [lia|exact IH].
Qed.

Lemma seek_spec_find sch seek : forall recs prev,
  order_ok sch prev (map f_num recs) = true ->
  seek_spec prev seek recs = Ok (found_of (find (fun f => (f_num f =? seek)%N) recs)).
Proof.
  induction recs as [|f r IH]; intros prev H; [reflexivity|].
  cbn [seek_spec find]. cbn [map] in H.
  pose proof (order_ok_lb _ _ _ H) as Hlb. inversion Hlb as [|? ? Hpn Hrest]; subst.
  cbn [order_ok] in H. apply andb_prop in H. destruct H as [_ H2].
  destruct (N.eqb_spec (f_num f) seek) as [E|E]; [reflexivity|].
  destruct (N.ltb_spec seek (f_num f)) as [L|L].
  { rewrite find_none_gt; [reflexivity|].
    apply (Forall_map_num (fun n => (seek < n)%N)). eapply Forall_impl; [|apply (order_ok_lb _ _ _ H2)]. cbn. intros a Ha. lia. }
  destruct (N.ltb_spec (f_num f) prev) as [L2|L2]; [lia|].
  destruct r as [|g r']; [reflexivity|].
  apply IH. exact H2.
Qed.

Lemma last_of_find sch k t : sch k = Some (t, false) -> forall recs prev,
  forallb (typed_ok sch) recs = true -> order_ok sch prev (map f_num recs) = true ->
  last_of recs k t = find (fun f => (f_num f =? k)%N) recs.
Proof.
  intros Hk. induction recs as [|f r IH]; intros prev Ht Ho; [reflexivity|].
  cbn [forallb] in Ht. apply andb_prop in Ht. destruct Ht as [Htf Htr].
  cbn [map order_ok] in Ho. apply andb_prop in Ho. destruct Ho as [_ Ho2].
  rewrite last_of_cons. cbn [find].
  destruct (N.eqb_spec (f_num f) k) as [E|E].
  - destruct (typed_inv _ _ Htf) as [rep Hs]. rewrite E, Hk in Hs. inversion Hs; subst t.
    rewrite N.eqb_refl. cbn [andb].
    rewrite last_of_none; [reflexivity|].
    apply (Forall_map_num (fun n => n <> k)). rewrite E in Ho2.
    eapply Forall_impl; [|apply (order_ok_strict sch _ k); [|exact Ho2]].
    + cbn. intros a Ha. lia.
    + intros t' Hc. rewrite Hk in Hc. discriminate.
  - cbn [andb]. rewrite (IH (f_num f) Htr Ho2).
    destruct (find _ r); reflexivity.
Qed.

Lemma find_in_typed sch k (recs : list frec) f :
  forallb (typed_ok sch) recs = true -> find (fun f => (f_num f =? k)%N) recs = Some f ->
  In f recs /\ f_num f = k /\ typed_ok sch f = true.
Proof.
  intros Ht Hf. apply find_some in Hf. destruct Hf as [Hin Hn]. apply N.eqb_eq in Hn.
  split; [exact Hin|]. split; [exact Hn|]. rewrite forallb_forall in Ht. apply Ht. exact Hin.
Qed.

(* a message level: parsed records, located, typed, ordered *)
Record level (sch : schema) (b : bytes) (recs : list frec) : Prop := mkLevel {
  lv_parse : parse_msg b = Some recs;
  lv_chain : chain b 0 recs;
  lv_typed : forallb (typed_ok sch) recs = true;
  lv_order : order_ok sch 0%N (map f_num recs) = true
}.

Lemma wf_level sch b : wf_msg sch b = true -> exists recs, level sch b recs.
Proof.
  intros H. destruct (wf_msg_inv _ _ H) as (recs & Hp & Ht & Ho).
  exists recs. constructor; auto. apply parse_msg_chain. exact Hp.
Qed.

Lemma seek_level sch b recs k t : level sch b recs -> sch k = Some (t, false) -> valid_num k = true ->
  seek_field_p b k = Ok (found_of (last_of recs k t)).
Proof.
  intros L Hk Hv. rewrite (seek_field_sim _ _ _ (lv_chain _ _ _ L) Hv).
  rewrite (seek_spec_find sch k recs 0%N (lv_order _ _ _ L)).
  rewrite (last_of_find sch k t Hk recs 0%N (lv_typed _ _ _ L) (lv_order _ _ _ L)). reflexivity.
Qed.

Lemma last_of_in_typed sch b recs k t f : level sch b recs -> sch k = Some (t, false) ->
  last_of recs k t = Some f -> rec_at b f /\ f_num f = k /\ f_typ f = t.
Proof.
  intros L Hk Hl.
  rewrite (last_of_find sch k t Hk recs 0%N (lv_typed _ _ _ L) (lv_order _ _ _ L)) in Hl.
  destruct (find_in_typed _ _ _ _ (lv_typed _ _ _ L) Hl) as (Hin & Hn & Hty).
  split; [|split; [exact Hn|]].
  - pose proof (chain_all _ _ _ (lv_chain _ _ _ L)) as Ha. rewrite Forall_forall in Ha. auto.
  - destruct (typed_inv _ _ Hty) as [rep Hs]. rewrite Hn, Hk in Hs. inversion Hs. reflexivity.
Qed.

(* ---- GetUint64Field / GetEnumField / GetLENFieldBounds on a level --------------------------- *)

Lemma get_uint64_level sch b recs k : level sch b recs -> sch k = Some (ty_varint, false) ->
  valid_num k = true -> get_uint64_field_p b k = Ok (val_of (last_of recs k ty_varint)).
Proof.
  intros L Hk Hv. unfold get_uint64_field_p. rewrite (seek_level sch b recs k _ L Hk Hv). cbn [bind].
  destruct (last_of recs k ty_varint) as [f|] eqn:El; [|reflexivity].
  destruct (last_of_in_typed _ _ _ _ _ _ L Hk El) as (Hat & Hn & Hty).
  cbn [found_of val_of]. destruct Hat as (_ & Hb & Hto & _ & Hvv & _).
  rewrite slice_from_ok by lia. cbn [bind]. rewrite Hty, N.eqb_refl.
  destruct (Hvv Hty) as [m Hm]. rewrite Hm. reflexivity.
Qed.

Lemma get_enum_level sch b recs k : level sch b recs -> sch k = Some (ty_varint, false) ->
  valid_num k = true -> (val_of (last_of recs k ty_varint) <= max_int32N)%N ->
  get_enum_field_p b k = Ok (val_of (last_of recs k ty_varint)).
Proof.
  intros L Hk Hv Hle. unfold get_enum_field_p. rewrite (seek_level sch b recs k _ L Hk Hv). cbn [bind].
  destruct (last_of recs k ty_varint) as [f|] eqn:El; [|reflexivity].
  destruct (last_of_in_typed _ _ _ _ _ _ L Hk El) as (Hat & Hn & Hty).
  cbn [found_of val_of] in *. destruct Hat as (_ & Hb & Hto & _ & Hvv & _).
  rewrite slice_from_ok by lia. cbn [bind]. rewrite Hty, N.eqb_refl.
  destruct (Hvv Hty) as [m Hm]. rewrite Hm.
  destruct (N.ltb_spec max_int32N (f_val f)); [lia|reflexivity].
Qed.

Lemma get_len_level sch b recs k : level sch b recs -> sch k = Some (ty_bytes, false) ->
  valid_num k = true -> get_len_field_bounds_p b k = Ok (fb_of 0 (last_of recs k ty_bytes)).
Proof.
  intros L Hk Hv. unfold get_len_field_bounds_p. rewrite (seek_level sch b recs k _ L Hk Hv). cbn [bind].
  destruct (last_of recs k ty_bytes) as [f|] eqn:El; [|reflexivity].
  destruct (last_of_in_typed _ _ _ _ _ _ L Hk El) as (Hat & Hn & Hty).
  cbn [found_of]. rewrite (plfb_sim _ _ Hat), Hty. reflexivity.
Qed.

(* ---- the bounds loops on ordered records ------------------------------------------------------- *)

Definition upd (s1 s2 s3 : N) (acc : fb * fb * fb) (recs : list frec) : fb * fb * fb :=
  fold_left (fun a f => put_slot s1 s2 s3 (f_num f) (fbr f) a) recs acc.

Lemma upd_cons s1 s2 s3 acc f r :
  upd s1 s2 s3 acc (f :: r) = upd s1 s2 s3 (put_slot s1 s2 s3 (f_num f) (fbr f) acc) r.
Proof. reflexivity. Qed.

Lemma upd_noop s1 s2 s3 last : (s1 <= last)%N -> (s2 <= last)%N -> (s3 <= last)%N ->
  forall recs acc, Forall (fun f => (last < f_num f)%N) recs -> upd s1 s2 s3 acc recs = acc.
Proof.
  intros H1 H2 H3. induction recs as [|f r IH]; intros acc Hf; [reflexivity|].
  inversion Hf as [|? ? Hl Hr]; subst. rewrite upd_cons.
  replace (put_slot s1 s2 s3 (f_num f) (fbr f) acc) with acc; [apply IH; exact Hr|].
  destruct acc as [[a b] c]. unfold put_slot.
  destruct (N.eqb_spec (f_num f) s1); [lia|]. destruct (N.eqb_spec (f_num f) s2); [lia|].
  destruct (N.eqb_spec (f_num f) s3); [lia|]. reflexivity.
Qed.

Lemma bounds_spec_upd sch last s1 s2 s3 :
  (forall n t rep, (n <= last)%N -> sch n = Some (t, rep) -> t = ty_bytes /\ rep = false) ->
  (s1 <= last)%N -> (s2 <= last)%N -> (s3 <= last)%N ->
  forall recs prev acc,
    forallb (typed_ok sch) recs = true -> order_ok sch prev (map f_num recs) = true ->
    bounds_spec prev last s1 s2 s3 acc recs = Ok (upd s1 s2 s3 acc recs).
Proof.
  intros Hsch H1 H2 H3. induction recs as [|f r IH]; intros prev acc Ht Ho; [reflexivity|].
  cbn [forallb] in Ht. apply andb_prop in Ht. destruct Ht as [Htf Htr].
  pose proof Ho as Ho'. cbn [map order_ok] in Ho. apply andb_prop in Ho. destruct Ho as [Ho1 Ho2].
  cbn [bounds_spec].
  destruct (N.ltb_spec last (f_num f)) as [L|L].
  { rewrite (upd_noop s1 s2 s3 last H1 H2 H3); [reflexivity|].
    constructor; [exact L|]. apply (Forall_map_num (fun n => (last < n)%N)).
    eapply Forall_impl; [|apply (order_ok_lb _ _ _ Ho2)]. cbn. intros a Ha. lia. }
  destruct (typed_inv _ _ Htf) as [rep Hs]. destruct (Hsch _ _ _ L Hs) as [Hty Hrep]. subst rep.
  assert (Hnr : norep sch (f_num f)). { intros t' Hc. rewrite Hs in Hc. discriminate. }
  assert (Hlt : (prev < f_num f)%N).
  { apply orb_prop in Ho1. destruct Ho1 as [Ho1|Ho1]; [apply N.ltb_lt; exact Ho1|].
    apply andb_prop in Ho1. destruct Ho1 as [_ Ho1]. rewrite Hs in Ho1. discriminate. }
  destruct (N.ltb_spec (f_num f) prev); [lia|].
  destruct (N.eqb_spec (f_num f) prev); [lia|].
  rewrite Hty, N.eqb_refl. cbn [negb].
  rewrite upd_cons.
  pose proof (order_ok_strict sch _ _ Hnr Ho2) as Hgt.
  destruct (N.eqb_spec (f_num f) last) as [E|E].
  { rewrite (upd_noop s1 s2 s3 last H1 H2 H3); [reflexivity|].
    apply (Forall_map_num (fun n => (last < n)%N)). eapply Forall_impl; [|exact Hgt]. cbn. intros a Ha. lia. }
  destruct r as [|g r']; [reflexivity|].
  apply IH; assumption.
Qed.

Definition pickb (k : N) (acc : option frec) (f : frec) : option frec := pickf k ty_bytes acc f.

Lemma upd_last s1 s2 s3 : s1 <> s2 -> s1 <> s3 -> s2 <> s3 ->
  forall recs o1 o2 o3,
    Forall (fun f => (f_num f = s1 \/ f_num f = s2 \/ f_num f = s3) -> f_typ f = ty_bytes) recs ->
    upd s1 s2 s3 (fb_of 0 o1, fb_of 0 o2, fb_of 0 o3) recs
    = (fb_of 0 (fold_left (pickb s1) recs o1), fb_of 0 (fold_left (pickb s2) recs o2),
       fb_of 0 (fold_left (pickb s3) recs o3)).
Proof.
  intros D12 D13 D23. induction recs as [|f r IH]; intros o1 o2 o3 Hf; [reflexivity|].
  inversion Hf as [|? ? Hty Hr]; subst. rewrite upd_cons. cbn [fold_left].
  unfold put_slot, pickb, pickf.
  destruct (N.eqb_spec (f_num f) s1) as [E1|E1].
  { rewrite (Hty (or_introl E1)), N.eqb_refl. cbn [andb].
    destruct (N.eqb_spec (f_num f) s2); [congruence|]. destruct (N.eqb_spec (f_num f) s3); [congruence|].
    cbn [andb]. apply (IH (Some f) o2 o3 Hr). }
  destruct (N.eqb_spec (f_num f) s2) as [E2|E2].
  { rewrite (Hty (or_intror (or_introl E2))), N.eqb_refl. cbn [andb].
    destruct (N.eqb_spec (f_num f) s3); [congruence|].
    cbn [andb]. apply (IH o1 (Some f) o3 Hr). }
  destruct (N.eqb_spec (f_num f) s3) as [E3|E3].
  { rewrite (Hty (or_intror (or_intror E3))), N.eqb_refl. cbn [andb]. apply (IH o1 o2 (Some f) Hr). }
  cbn [andb]. apply (IH o1 o2 o3 Hr).
Qed.

Lemma bounds_level sch last s1 s2 s3 recs :
  (forall n t rep, (n <= last)%N -> sch n = Some (t, rep) -> t = ty_bytes /\ rep = false) ->
  (s1 <= last)%N -> (s2 <= last)%N -> (s3 <= last)%N -> s1 <> s2 -> s1 <> s3 -> s2 <> s3 ->
  forallb (typed_ok sch) recs = true -> order_ok sch 0%N (map f_num recs) = true ->
  bounds_spec 0%N last s1 s2 s3 (fb0, fb0, fb0) recs
  = Ok (fb_of 0 (last_of recs s1 ty_bytes), fb_of 0 (last_of recs s2 ty_bytes),
        fb_of 0 (last_of recs s3 ty_bytes)).
Proof.
  intros Hsch H1 H2 H3 D12 D13 D23 Ht Ho.
  rewrite (bounds_spec_upd sch last s1 s2 s3 Hsch H1 H2 H3 recs 0%N _ Ht Ho).
  change (fb0, fb0, fb0) with (fb_of 0 None, fb_of 0 None, fb_of 0 None).
  rewrite (upd_last s1 s2 s3 D12 D13 D23); [reflexivity|].
  rewrite Forall_forall. intros f Hin Hs.
  rewrite forallb_forall in Ht. destruct (typed_inv _ _ (Ht f Hin)) as [rep Hr].
  assert (Hle : (f_num f <= last)%N) by (destruct Hs as [->|[->| ->]]; assumption).
  destruct (Hsch _ _ _ Hle Hr). assumption.
Qed.

(* ---- schema facts --------------------------------------------------------------------------- *)

Lemma obj_schema_low n t rep : (n <= fld_object_hdr)%N -> obj_schema n = Some (t, rep) -> t = ty_bytes /\ rep = false.
Proof.
  intros _. unfold obj_schema. destruct (_ || _)%bool; [|discriminate]. intros H; inversion H; auto.
Qed.

Lemma obj_schema_any n t rep : obj_schema n = Some (t, rep) -> t = ty_bytes /\ rep = false.
Proof. unfold obj_schema. destruct (_ || _)%bool; [|discriminate]. intros H; inversion H; auto. Qed.

Lemma split_schema_low n t rep : (n <= fld_split_parhdr)%N -> split_schema n = Some (t, rep) -> t = ty_bytes /\ rep = false.
Proof.
  intros Hn. unfold split_schema.
  destruct (N.eqb_spec n w_split_children) as [E|E].
  { subst n. unfold fld_split_parhdr, w_split_parhdr, w_split_children in Hn. lia. }
  destruct (_ || _)%bool; [|discriminate]. intros H; inversion H; auto.
Qed.

(* ---- header level -------------------------------------------------------------------------- *)

Lemma wf_header_inv h : wf_header h = true ->
  exists hrecs, level hdr_schema h hrecs
    /\ (val_of (last_of hrecs fld_hdr_type ty_varint) <= max_int32N)%N
    /\ match last_of hrecs fld_hdr_split ty_bytes with
       | None => True
       | Some sf => exists srecs, level split_schema (sub h sf) srecs /\ sub h sf <> []
       end.
Proof.
  unfold wf_header. intros H. apply andb_prop in H. destruct H as [H H3].
  apply andb_prop in H. destruct H as [H1 H2].
  destruct (wf_level _ _ H1) as [hrecs L]. exists hrecs. split; [exact L|].
  unfold varint_of in H2. rewrite (lv_parse _ _ _ L) in H2. apply N.leb_le in H2. split; [exact H2|].
  unfold field_of in H3. rewrite (lv_parse _ _ _ L) in H3. unfold osub in H3.
  destruct (last_of hrecs fld_hdr_split ty_bytes) as [sf|]; [|exact I].
  cbn [option_map] in H3. unfold wf_split in H3. apply andb_prop in H3. destruct H3 as [H3 H4].
  destruct (wf_level _ _ H3) as [srecs Ls]. exists srecs. split; [exact Ls|].
  destruct (sub h sf); [discriminate|discriminate].
Qed.

Theorem agree_paylen h : wf_header h = true ->
  get_payload_length_header h = Ok (varint_of h fld_hdr_paylen).
Proof.
  intros H. destruct (wf_header_inv _ H) as (hrecs & L & _).
  unfold get_payload_length_header, varint_of. rewrite (lv_parse _ _ _ L).
  apply (get_uint64_level hdr_schema); [exact L|reflexivity|reflexivity].
Qed.

Theorem agree_type h : wf_header h = true ->
  get_type_header h = Ok (varint_of h fld_hdr_type).
Proof.
  intros H. destruct (wf_header_inv _ H) as (hrecs & L & Hle & _).
  unfold get_type_header, varint_of. rewrite (lv_parse _ _ _ L).
  apply (get_enum_level hdr_schema); [exact L|reflexivity|reflexivity|exact Hle].
Qed.
