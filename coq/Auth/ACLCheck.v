(* C28 -- executable comparison of the implementation's observables with the model
   (correspondence) and with the property's own rule (reference). *)
From Coq Require Import NArith List Bool String.
From NV Require Import Gen.AuthConsts Auth.ACL.
Import ListNotations.
Open Scope N_scope.

Record obs := mkobs {
  o_out : N;          (* 0 served 1 token 2 bearer-vs-request 3 basic/sticky 4 eACL 5 eACL recheck; 8/9 = harness anomaly *)
  o_code : N;         (* response status code *)
  o_reached : bool;   (* the object handler was entered *)
  o_data : bool;      (* the request was served: header returned (GET/HEAD), handler run (others) *)
  o_role : N;         (* role seen by CheckBasicACL, 0 = not reached *)
}.

Definition case := (req * obs)%type.

Definition out_code (o : outcome) : N :=
  match o with Served => 0 | DeniedToken => 1 | DeniedBearerReq => 2 | DeniedBasic => 3
             | DeniedEACL => 4 | DeniedRecheck => 5 end.

Definition model_ok (c : case) : bool :=
  let (q, o) := c in
  let d := decide q in
  (o_out o =? out_code d)
  && ((o_role o =? 0) || (o_role o =? classify q))
  && match d with
     | Served => negb (o_code o =? code_access_denied) && o_reached o && o_data o
     | DeniedToken => negb (o_code o =? 0) && negb (o_reached o) && negb (o_data o)
     | DeniedRecheck => (o_code o =? code_access_denied) && negb (o_data o)
     | _ => (o_code o =? code_access_denied) && negb (o_reached o) && negb (o_data o)
     end.

(* the property itself, evaluated on what the implementation did *)
Definition ref_ok (c : case) : bool :=
  let (q, o) := c in negb (o_data o) || statement_allows q.

(* served by the statement but refused by the implementation outside the proved class *)
Definition over_strict (c : case) : bool :=
  let (q, o) := c in statement_allows q && negb (stricter q) && negb (o_data o).

Fixpoint idx_from {A} (i : nat) (f : A -> bool) (cs : list A) : list nat :=
  match cs with
  | [] => []
  | c :: r => if f c then i :: idx_from (S i) f r else idx_from (S i) f r
  end.

Definition model_mismatches := idx_from 0 (fun c => negb (model_ok c)).
Definition ref_violations := idx_from 0 (fun c => negb (ref_ok c)).
Definition over_strict_idx := idx_from 0 over_strict.
(* distribution: outcome code of the model per case *)
Definition model_outs (cs : list case) : list nat := map (fun c => N.to_nat (out_code (decide (fst c)))) cs.
