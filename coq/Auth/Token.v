(* C30 -- model of session (v1, v2) and bearer token verification (definitions only, executable).

   Sources:
     pkg/services/object/acl/v2/service.go  VerifySessionV1TokenMessage, decodeAndVerifySessionTokenCommon,
                                            VerifySessionTokenMessage, decodeAndVerifySessionTokenV2Common,
                                            VerifyBearerTokenMessage, decodeAndVerifyBearerTokenCommon,
                                            verifyBearerTokenAgainstRequest
     pkg/services/object/acl/v2/util.go     assertVerb, assertSessionRelation
     internal/crypto/tokens.go              AuthenticateToken, AuthenticateTokenV2
     internal/sessions/cache.go             ObjectSessionsCache (results cached by token hash, reset on epoch tick)
     SDK session, session/v2, bearer        ValidAt / ExpiredAt / Validate (delegation chain) / AssertVerb ...

   Signature verification results enter as booleans ([sigok]): in Auth/TokenProofs.v they are
   instantiated by an abstract verification predicate over the signed body, here and in the
   correspondence check by the facts the harness knows from how it produced the token. *)
From Coq Require Import NArith List Bool.
From NV Require Import Gen.AuthTokenConsts.
Import ListNotations.
Open Scope N_scope.

Fixpoint assocN (k : N) (l : list (N * N)) : option N :=
  match l with [] => None | (a, b) :: r => if a =? k then Some b else assocN k r end.
Definition memN (x : N) (l : list N) : bool := existsb (N.eqb x) l.

Record life := mklife { l_iat : N; l_nbf : N; l_exp : N }.

(* ValidAt of session v1 / bearer (epochs) and of Lifetime (v2, seconds) *)
Definition valid_at (cur : N) (l : life) : bool :=
  (l_nbf l <=? cur) && (l_iat l <=? cur) && (cur <=? l_exp l).

Record sigd := mksig { sg_scheme : N; sg_key : N; sg_val : N }.

Definition is_ecdsa (s : N) : bool := memN s ecdsa_schemes.

(* AuthenticateToken / one layer of AuthenticateTokenV2.
   ku: account derived from each decodable public key; sigok: the signature verifies for
   (scheme, key, signed body); n3ok: the N3 witness verifies on the chain *)
Definition auth (ku : list (N * N)) (issuer : N) (sg : option sigd) (sigok n3ok : bool) : bool :=
  negb (issuer =? 0)
  && match sg with
     | None => false
     | Some s =>
         if is_ecdsa (sg_scheme s) then
           match assocN (sg_key s) ku with
           | None => false
           | Some u => sigok && (u =? issuer)
           end
         else if sg_scheme s =? scheme_n3 then n3ok
         else false
     end.

Inductive res := Accept | Expired | Reject.

(* ---------- session token v1 ---------- *)

Record tok1 := mktok1 {
  t1_issuer : N; t1_life : life; t1_authkey : N;
  t1_verb : N; t1_cnr : N; t1_objs : list N;
  t1_sig : option sigd;
}.

(* decodeAndVerifySessionTokenCommon (the part that is cached by token hash) *)
Definition common1 (ku : list (N * N)) (epoch : N) (wf : bool) (t : tok1) (sigok n3ok : bool) : res :=
  if negb wf then Reject
  else if l_exp (t1_life t) <? epoch then Expired
  else if negb (valid_at epoch (t1_life t)) then Reject
  else if negb (auth ku (t1_issuer t) (t1_sig t) sigok n3ok) then Reject
  else Accept.

(* assertVerb: which token verbs cover the request verb *)
Definition verb_covers (tokverb reqverb : N) : bool :=
  if reqverb =? verb_head then memN tokverb [verb_head; verb_get; verb_delete; verb_range]
  else if reqverb =? verb_search then memN tokverb [verb_search; verb_delete]
  else tokverb =? reqverb.

(* assertSessionRelation; reqobj = 0 means "no object in the request" *)
Definition relation_ok (t : tok1) (reqcnr reqobj : N) : bool :=
  (t1_cnr t =? reqcnr)
  && ((t1_verb t =? verb_delete) || (reqobj =? 0)
      || match t1_objs t with [] => true | l => memN reqobj l end).

Definition applies1 (t : tok1) (reqverb reqcnr reqobj : N) : bool :=
  relation_ok t reqcnr reqobj && verb_covers (t1_verb t) reqverb.

Definition accept1 (ku : list (N * N)) (epoch : N) (wf : bool) (t : tok1) (sigok n3ok : bool)
    (reqverb reqcnr reqobj : N) : res :=
  match common1 ku epoch wf t sigok n3ok with
  | Accept => if applies1 t reqverb reqcnr reqobj then Accept else Reject
  | r => r
  end.

(* ---------- bearer token ---------- *)

Record btok := mkbtok {
  b_issuer : N;               (* issuer field, 0 = unset *)
  b_life : life;
  b_cid : N;                  (* 0 = not bound to a container *)
  b_user : N;                 (* 0 = any user *)
  b_table : N;                (* abstract identity of the eACL table *)
  b_sig : option sigd;
}.

Definition commonb (ku : list (N * N)) (epoch : N) (wf : bool) (t : btok) (sigok n3ok : bool) : res :=
  if negb wf then Reject
  else if negb (valid_at epoch (b_life t)) then Reject
  else if negb (auth ku (b_issuer t) (b_sig t) sigok n3ok) then Reject
  else Accept.

(* verifyBearerTokenAgainstRequest (issuer is set whenever commonb accepted) *)
Definition appliesb (t : btok) (owner reqcnr sender : N) : bool :=
  (b_issuer t =? owner) && ((b_cid t =? 0) || (b_cid t =? reqcnr)) && ((b_user t =? 0) || (b_user t =? sender)).

Definition acceptb (ku : list (N * N)) (epoch : N) (wf : bool) (t : btok) (sigok n3ok : bool)
    (owner reqcnr sender : N) : res :=
  match commonb ku epoch wf t sigok n3ok with
  | Accept => if appliesb t owner reqcnr sender then Accept else Reject
  | r => r
  end.

(* ---------- session token v2 ---------- *)

Inductive subj := SUser (u : N) | SNns (name : N) | SZero.
Record ctx2 := mkctx { c_cnr : N; c_verbs : list N }.     (* c_cnr = 0: wildcard; containers are
                                                             numbered in the byte order of their IDs *)
Record tok2 := mktok2 {
  t2_version : N; t2_applen : N; t2_issuer : N; t2_subjs : list subj;
  t2_life : life;                (* seconds *)
  t2_ctxs : list ctx2; t2_final : bool;
  t2_sig : option sigd;
}.

Fixpoint strictly_asc (l : list N) : bool :=
  match l with
  | a :: ((b :: _) as r) => (a <? b) && strictly_asc r
  | _ => true
  end.

Fixpoint list_eqb (a b : list N) : bool :=
  match a, b with
  | [], [] => true
  | x :: a', y :: b' => (x =? y) && list_eqb a' b'
  | _, _ => false
  end.

Definition subj_zero (s : subj) : bool := match s with SZero => true | _ => false end.

Definition ctx_ok (c : ctx2) : bool :=
  negb (N.of_nat (length (c_verbs c)) =? 0) && (N.of_nat (length (c_verbs c)) <=? max_verbs)
  && strictly_asc (c_verbs c).

(* validateFields *)
Definition fields_ok (t : tok2) : bool :=
  (t2_version t =? 0) && (t2_applen t <=? max_appdata) && negb (t2_issuer t =? 0)
  && negb (N.of_nat (length (t2_subjs t)) =? 0) && (N.of_nat (length (t2_subjs t)) <=? max_subjects)
  && negb (existsb subj_zero (t2_subjs t))
  && negb (l_iat (t2_life t) =? 0) && negb (l_nbf (t2_life t) =? 0) && negb (l_exp (t2_life t) =? 0)
  && (l_nbf (t2_life t) <=? l_exp (t2_life t)) && (l_iat (t2_life t) <=? l_exp (t2_life t))
  && negb (N.of_nat (length (t2_ctxs t)) =? 0) && (N.of_nat (length (t2_ctxs t)) <=? max_contexts)
  && forallb ctx_ok (t2_ctxs t)
  && strictly_asc (map c_cnr (t2_ctxs t))
  && match t2_ctxs t with
     | c0 :: rest => if c_cnr c0 =? 0 then negb (existsb (fun c => list_eqb (c_verbs c) (c_verbs c0)) rest) else true
     | [] => true
     end
  && match t2_sig t with Some _ => true | None => false end.

(* findUnauthorizedVerb = nil *)
Fixpoint verbs_sub_aux (fuel : nat) (req avail : list N) : bool :=
  match fuel with
  | O => match req with [] => true | _ => false end
  | S f =>
      match req, avail with
      | [], _ => true
      | _ :: _, [] => false
      | r :: req', a :: avail' =>
          if r =? a then verbs_sub_aux f req' avail'
          else if r <? a then false
          else verbs_sub_aux f req avail'
      end
  end.
Definition verbs_sub (req avail : list N) : bool := verbs_sub_aux (length req + length avail) req avail.

Fixpoint drop_less (c : N) (l : list ctx2) : list ctx2 :=
  match l with
  | o :: r => if c_cnr o <? c then drop_less c r else l
  | [] => []
  end.

(* validateDelegatedContexts: [rest] is the not yet skipped part of the origin's contexts *)
Fixpoint delegated_aux (wild : option (list N)) (del rest : list ctx2) : bool :=
  match del with
  | [] => true
  | d :: del' =>
      let rest' := drop_less (c_cnr d) rest in
      match rest' with
      | o :: _ =>
          if c_cnr o =? c_cnr d then verbs_sub (c_verbs d) (c_verbs o) && delegated_aux wild del' rest'
          else match wild with
               | Some w => verbs_sub (c_verbs d) w && delegated_aux wild del' rest'
               | None => false
               end
      | [] => match wild with
              | Some w => verbs_sub (c_verbs d) w && delegated_aux wild del' rest'
              | None => false
              end
      end
  end.

Definition wildcard_of (o : tok2) : option (list N) :=
  match t2_ctxs o with c0 :: _ => if c_cnr c0 =? 0 then Some (c_verbs c0) else None | [] => None end.

Definition delegated_ok (t o : tok2) : bool := delegated_aux (wildcard_of o) (t2_ctxs t) (t2_ctxs o).

(* issuer of the delegated token is one of the origin's subjects (directly or through NNS) *)
Definition issuer_in_subjects (nns : list (N * N)) (t o : tok2) : bool :=
  existsb (fun s => match s with
                    | SUser u => u =? t2_issuer t
                    | SNns n => existsb (fun p => (fst p =? n) && (snd p =? t2_issuer t)) nns
                    | SZero => false
                    end) (t2_subjs o).

(* Token.validate; the chain is outermost token first, each next element is the origin *)
Fixpoint validate (nns : list (N * N)) (depth : N) (ch : list tok2) : bool :=
  match ch with
  | [] => true
  | t :: rest =>
      (depth <=? max_depth) && fields_ok t && negb (t2_final t && negb (depth =? 0))
      && match rest with
         | [] => true
         | o :: _ =>
             delegated_ok t o && issuer_in_subjects nns t o
             && (l_nbf (t2_life o) <=? l_nbf (t2_life t)) && (l_exp (t2_life t) <=? l_exp (t2_life o))
             && validate nns (depth + 1) rest
         end
  end.

(* AuthenticateTokenV2 over the chain; sigoks / n3oks are aligned with the chain *)
Fixpoint auth_chain (ku : list (N * N)) (ch : list tok2) (sigoks n3oks : list bool) : bool :=
  match ch with
  | [] => true
  | t :: rest =>
      auth ku (t2_issuer t) (t2_sig t) (hd false sigoks) (hd false n3oks)
      && auth_chain ku rest (tl sigoks) (tl n3oks)
  end.

Definition assert_verb (t : tok2) (verb cnr : N) : bool :=
  existsb (fun c => ((c_cnr c =? 0) || (c_cnr c =? cnr)) && memN verb (c_verbs c)) (t2_ctxs t).

(* the cached part *)
Definition common2 (ku nns : list (N * N)) (wf : bool) (ch : list tok2) (sigoks n3oks : list bool) : res :=
  match ch with
  | [] => Reject
  | _ => if negb wf then Reject
         else if negb (validate nns 0 ch) then Reject
         else if negb (auth_chain ku ch sigoks n3oks) then Reject
         else Accept
  end.

Definition accept2 (ku nns : list (N * N)) (now : N) (wf : bool) (ch : list tok2) (sigoks n3oks : list bool)
    (reqverb reqcnr : N) : res :=
  match common2 ku nns wf ch sigoks n3oks with
  | Accept =>
      match ch with
      | t :: _ =>
          if l_exp (t2_life t) <? now then Expired
          else if negb (valid_at now (t2_life t)) then Reject
          else if negb (assert_verb t reqverb reqcnr) then Reject
          else Accept
      | [] => Reject
      end
  | r => r
  end.

(* ---------- the v1 result cache (internal/sessions) ---------- *)

(* A cache entry remembers the result of common1 and (ghost) the epoch it was computed at.
   Tokens stand for their SHA-256 cache keys (collision freedom assumed). *)
Record centry := mkcentry { ce_tok : N; ce_res : res; ce_epoch : N }.
Record cstate := mkcstate { cs_epoch : N; cs_cache : list centry }.

Fixpoint clookup (k : N) (c : list centry) : option centry :=
  match c with [] => None | e :: r => if ce_tok e =? k then Some e else clookup k r end.

Inductive cevent :=
  | EVerify (id : N) (t : tok1) (wf sigok n3ok : bool) (reqverb reqcnr reqobj : N)
  | ETick (epoch : N) (reset : bool).

(* one step; returns the new state and, for a verification, its result *)
Definition cstep (ku : list (N * N)) (s : cstate) (e : cevent) : cstate * option res :=
  match e with
  | ETick ep reset => (mkcstate ep (if reset then [] else cs_cache s), None)
  | EVerify id t wf sigok n3ok rv rc ro =>
      let '(r, c') :=
        match clookup id (cs_cache s) with
        | Some en => (ce_res en, cs_cache s)
        | None => let r := common1 ku (cs_epoch s) wf t sigok n3ok in
                  (r, mkcentry id r (cs_epoch s) :: cs_cache s)
        end in
      (mkcstate (cs_epoch s) c',
       Some (match r with Accept => if applies1 t rv rc ro then Accept else Reject | x => x end))
  end.

Fixpoint crun (ku : list (N * N)) (s : cstate) (es : list cevent) : list (option res) :=
  match es with
  | [] => []
  | e :: r => let '(s', o) := cstep ku s e in o :: crun ku s' r
  end.
