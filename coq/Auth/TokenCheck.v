(* C30 -- executable comparison of the real token verification with the model (correspondence)
   and with the property's right-hand side (reference). *)
From Coq Require Import NArith List Bool.
From NV Require Import Gen.AuthTokenConsts Auth.Token.
Import ListNotations.
Open Scope N_scope.

Inductive tcase :=
  | CV1 (ku : list (N * N)) (epoch : N) (wf : bool) (t : tok1) (sigok n3ok : bool) (rv rc ro : N)
        (mutated_accepted : bool) (res : N)
  | CB (ku : list (N * N)) (epoch : N) (wf : bool) (t : btok) (sigok n3ok : bool) (owner rc sender : N)
       (mutated_accepted : bool) (res : N)
  | CV2 (ku nns : list (N * N)) (now : N) (wf : bool) (ch : list tok2) (sigoks n3oks : list bool) (rv rc : N)
        (mutated_accepted : bool) (res : N)
  | CH (ku : list (N * N)) (epoch : N) (es : list cevent) (outs : list N).    (* outs: 9 for a tick *)

Definition res_code (r : res) : N := match r with Accept => 0 | Expired => 1 | Reject => 2 end.
Definition ores_code (o : option res) : N := match o with Some r => res_code r | None => 9 end.

Fixpoint listN_eqb (a b : list N) : bool :=
  match a, b with
  | [], [] => true
  | x :: a', y :: b' => (x =? y) && listN_eqb a' b'
  | _, _ => false
  end.

Definition model_res (c : tcase) : N :=
  match c with
  | CV1 ku e wf t so no rv rc ro _ _ => res_code (accept1 ku e wf t so no rv rc ro)
  | CB ku e wf t so no ow rc sn _ _ => res_code (acceptb ku e wf t so no ow rc sn)
  | CV2 ku nns now wf ch so no rv rc _ _ => res_code (accept2 ku nns now wf ch so no rv rc)
  | CH _ _ _ _ => 0
  end.

Definition model_ok (c : tcase) : bool :=
  match c with
  | CV1 _ _ _ _ _ _ _ _ _ _ r | CB _ _ _ _ _ _ _ _ _ _ r | CV2 _ _ _ _ _ _ _ _ _ _ r => model_res c =? r
  | CH ku e es outs => listN_eqb (map ores_code (crun ku (mkcstate e []) es)) outs
  end.

(* the property's right-hand side, written without the verification functions *)
Definition signed_ok (ku : list (N * N)) (issuer : N) (sg : option sigd) (sigok n3ok : bool) : bool :=
  match sg with
  | None => false
  | Some s => negb (issuer =? 0)
              && ((memN (sg_scheme s) ecdsa_schemes && sigok
                   && match assocN (sg_key s) ku with Some u => u =? issuer | None => false end)
                  || (negb (memN (sg_scheme s) ecdsa_schemes) && (sg_scheme s =? scheme_n3) && n3ok))
  end.

Definition in_life_b (cur : N) (l : life) : bool := (l_nbf l <=? cur) && (cur <=? l_exp l) && (l_iat l <=? cur).

Fixpoint all_signed (ku : list (N * N)) (ch : list tok2) (so no : list bool) : bool :=
  match ch with
  | [] => true
  | t :: r => signed_ok ku (t2_issuer t) (t2_sig t) (hd false so) (hd false no) && all_signed ku r (tl so) (tl no)
  end.

Definition grants (t : tok2) (verb cnr : N) : bool :=
  existsb (fun c => ((c_cnr c =? 0) || (c_cnr c =? cnr)) && memN verb (c_verbs c)) (t2_ctxs t).

Fixpoint linked (nns : list (N * N)) (ch : list tok2) : bool :=
  match ch with
  | t :: ((o :: _) as r) => issuer_in_subjects nns t o && linked nns r
  | _ => true
  end.

Definition valid_ref (c : tcase) : bool :=
  match c with
  | CV1 ku e wf t so no rv rc ro _ _ =>
      signed_ok ku (t1_issuer t) (t1_sig t) so no && in_life_b e (t1_life t)
      && (t1_cnr t =? rc)
      && ((t1_verb t =? verb_delete) || (ro =? 0) || match t1_objs t with [] => true | l => memN ro l end)
      && verb_covers (t1_verb t) rv
  | CB ku e wf t so no ow rc sn _ _ =>
      signed_ok ku (b_issuer t) (b_sig t) so no && in_life_b e (b_life t)
      && (b_issuer t =? ow) && ((b_cid t =? 0) || (b_cid t =? rc)) && ((b_user t =? 0) || (b_user t =? sn))
  | CV2 ku nns now wf ch so no rv rc _ _ =>
      all_signed ku ch so no
      && forallb (fun t => (l_nbf (t2_life t) <=? now) && (now <=? l_exp (t2_life t))) ch
      && match ch with t :: _ => l_iat (t2_life t) <=? now | [] => false end
      && forallb (fun t => grants t rv rc) ch
      && linked nns ch
      && (N.of_nat (length ch) <=? max_depth + 1)
  | CH _ _ _ _ => true
  end.

Definition case_res (c : tcase) : N :=
  match c with
  | CV1 _ _ _ _ _ _ _ _ _ _ r | CB _ _ _ _ _ _ _ _ _ _ r | CV2 _ _ _ _ _ _ _ _ _ _ r => r
  | CH _ _ _ _ => 2
  end.
Definition case_mut (c : tcase) : bool :=
  match c with
  | CV1 _ _ _ _ _ _ _ _ _ m _ | CB _ _ _ _ _ _ _ _ _ m _ | CV2 _ _ _ _ _ _ _ _ _ m _ => m
  | CH _ _ _ _ => false
  end.

(* honoured => valid;  a signed-field / signature mutation of an accepted token => not honoured *)
Definition ref_ok (c : tcase) : bool :=
  (negb (case_res c =? 0) || valid_ref c) && negb (case_mut c && (case_res c =? 0)).

Fixpoint idx_from {A} (i : nat) (f : A -> bool) (cs : list A) : list nat :=
  match cs with
  | [] => []
  | c :: r => if f c then i :: idx_from (S i) f r else idx_from (S i) f r
  end.

Definition model_mismatches := idx_from 0 (fun c => negb (model_ok c)).
Definition ref_violations := idx_from 0 (fun c => negb (ref_ok c)).
Definition model_results (cs : list tcase) : list nat := map (fun c => N.to_nat (model_res c)) cs.
