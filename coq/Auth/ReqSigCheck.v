(* C33 -- executable comparison of icrypto.VerifyRequestSignatures* with the model and with the
   property's statement. *)
From Coq Require Import NArith List Bool.
From NV Require Import Gen.AuthReqConsts Auth.ReqSig.
Import ListNotations.
Open Scope N_scope.

Record rcase := mkrcase {
  c_plain_req : req;      (* facts with N3 witnesses unsupported *)
  c_n3_req : req;         (* facts with N3 witnesses verified by the chain *)
  c_plain : bool; c_ctx : bool; c_n3 : bool;    (* accepted by VerifyRequestSignatures / WithContext / N3 *)
  c_signed_mut : bool;    (* a signed part (body / outer meta header) of an accepted request was changed *)
}.

Definition model_ok (c : rcase) : bool :=
  Bool.eqb (accept_plain (c_plain_req c)) (c_plain c)
  && Bool.eqb (accept_ctx (c_plain_req c)) (c_ctx c)
  && Bool.eqb (accept_ctx (c_n3_req c)) (c_n3 c).

(* the statement read literally: every verification layer carries valid signatures *)
Fixpoint chain_valid_b (ls : list layer) : bool :=
  match ls with
  | [] => false
  | [l] => has_meta l && meta_ok l && has_origin l && origin_ok l && has_body l && body_ok l
  | l :: rest => has_meta l && meta_ok l && has_origin l && origin_ok l && negb (has_body l) && chain_valid_b rest
  end.

Definition all_layers_valid (r : req) : bool :=
  match r_vh r with
  | None => false
  | Some ls =>
      if check_origin r then (r_nmeta r =? N.of_nat (length ls)) && chain_valid_b ls
      else negb (match ls with [] => true | _ => false end)
           && forallb (fun l => has_meta l && meta_ok l && has_body l && body_ok l) ls
  end.

Definition known_class (r : req) : bool :=
  negb (check_origin r) && match r_vh r with Some (_ :: _ :: _) => true | _ => false end.

Definition exempt_ok (r : req) : bool :=
  match r_vh r with None => r_has_meta r && (r_ttl r =? 1) && r_trusted r | Some _ => false end.

(* accepted although not every layer verifies (and not the one-hop exemption) *)
Definition stmt_violated (c : rcase) : bool :=
  (c_plain c && negb (all_layers_valid (c_plain_req c)))
  || (c_ctx c && negb (exempt_ok (c_plain_req c)) && negb (all_layers_valid (c_plain_req c)))
  || (c_n3 c && negb (exempt_ok (c_n3_req c)) && negb (all_layers_valid (c_n3_req c))).

Definition in_known_class (c : rcase) : bool := known_class (c_plain_req c).

Definition mut_accepted (c : rcase) : bool := c_signed_mut c && (c_plain c || c_ctx c || c_n3 c).

Fixpoint idx_from {A} (i : nat) (f : A -> bool) (cs : list A) : list nat :=
  match cs with
  | [] => []
  | c :: r => if f c then i :: idx_from (S i) f r else idx_from (S i) f r
  end.

Definition model_mismatches := idx_from 0 (fun c => negb (model_ok c)).
Definition stmt_violations := idx_from 0 (fun c => stmt_violated c && negb (in_known_class c)).
Definition known_violations := idx_from 0 (fun c => stmt_violated c && in_known_class c).
Definition mut_violations := idx_from 0 mut_accepted.
